(* General facts used by PinChecks/PcEnforceGen.v (the two enforcement loops of
   src/enforcer.rs, translated by tools/rs2coq_loop.py into Gen/EnforceGen.v).

   A. One more loop SHAPE, in the style of Proofs/RustVecP.v (B): `until`.
      Every iteration either leaves the function (return / panic) or produces
      a new state, and the loop is left by `break` exactly when a test on the
      NEW state holds:
          for x in l { ..; s = step(x, s)?; if stop(s) { break; } }
      It is characterised once, by induction, from a POINTWISE description of
      the loop body - a simulation: the Rust loop may carry more state than
      the reference loop (here: the scope, rewound at the start of every
      iteration) as long as an invariant of the carried state is kept.
   B. The model's `rules_loop` (Model/Enforce.v) is an instance of that shape.
   C. The rhai::Scope operations and zip / position of Gen/RustEnf.v in the
      model's vocabulary (`bind`, `index_of`). *)
From CV Require Import Model.Base Model.Effector Model.Expr Model.Enforce.
From CV Require Import Gen.RustStr Gen.RustVec Gen.RustEnf.
From CV Require Import Proofs.BaseP Proofs.RustVecP.
From Coq Require Import Lia.

(* ================================================================== *)
(* A. the shape                                                        *)

(* the reference loop.  step x s: None = panic, Some (inr r) = the function
   returns r, Some (inl s') = the new state.  The result: None = panic,
   Some (inr r) = returned r, Some (inl s) = the loop ended (exhausted or
   stopped) in state s *)
Fixpoint until_loop {A S R} (step : A -> S -> option (S + R)) (stop : S -> bool)
         (l : list A) (s : S) : option (S + R) :=
  match l with
  | [] => Some (inl s)
  | x :: l' =>
    match step x s with
    | None => None
    | Some (inr r) => Some (inr r)
    | Some (inl s') => if stop s' then Some (inl s') else until_loop step stop l' s'
    end
  end.

Section Until.
  Context {A S S' R : Type}.
  Variable body : A -> S -> flow S R.               (* the translated loop body *)
  Variable step : A -> S' -> option (S' + R).       (* the reference step *)
  Variable stop : S' -> bool.
  Variable Inv : S -> Prop.                         (* invariant of the carried state *)
  Variable abs : S -> S'.                           (* the part of it that the reference loop carries *)

  (* one iteration of the body against one reference step *)
  Definition flow_sim (c : flow S R) (o : option (S' + R)) : Prop :=
    match c with
    | LNext s' => Inv s' /\ o = Some (inl (abs s')) /\ stop (abs s') = false
    | LBreak s' => Inv s' /\ o = Some (inl (abs s')) /\ stop (abs s') = true
    | LReturn r => o = Some (inr r)
    | LPanic => o = None
    end.

  Definition result_sim (c : loop_result S R) (o : option (S' + R)) : Prop :=
    match c with
    | Done s' => Inv s' /\ o = Some (inl (abs s'))
    | Returned r => o = Some (inr r)
    | Panicked => o = None
    end.

  Lemma rs_for_until :
    (forall x s, Inv s -> flow_sim (body x s) (step x (abs s))) ->
    forall l s, Inv s -> result_sim (rs_for body l s) (until_loop step stop l (abs s)).
  Proof.
    intros Hbody l. induction l as [|x l IH]; intros s Hs.
    - rewrite rs_for_nil. cbn [result_sim until_loop]. split; [exact Hs|reflexivity].
    - rewrite rs_for_cons. cbn [until_loop]. pose proof (Hbody x s Hs) as Hx.
      destruct (body x s) as [s'|s'|r|]; cbn [flow_sim] in Hx.
      + destruct Hx as [Hi [Ho Hst]]. rewrite Ho, Hst. apply IH, Hi.
      + destruct Hx as [Hi [Ho Hst]]. rewrite Ho, Hst. cbn [result_sim]. split; [exact Hi|reflexivity].
      + rewrite Hx. reflexivity.
      + rewrite Hx. reflexivity.
  Qed.
End Until.

(* ================================================================== *)
(* B. rules_loop                                                       *)

Section RulesLoop.
  Variable ptab : text -> option expr.

  (* one rule: arity check, evaluation, effect, push (Model/Enforce.v, rules_loop) *)
  Definition rule_step (fs : fstate) (m : expr) (eft_tok : text) (ptoks : list text)
             (sc0 : list (text * value)) (pvals : rule) (st : stream) : option (stream + outcome bool) :=
    if negb (Nat.eqb (length ptoks) (length pvals)) then Some (inr (Err EPolicy))
    else match eval_matcher ptab fs m (bind ptoks (map VStr pvals) sc0) with
         | Ok b => Some (inl (push st (rule_effect eft_tok ptoks pvals b)))
         | Err e => Some (inr (Err e))
         | Panic => None
         end.

  Lemma rules_loop_until : forall fs m eft_tok ptoks sc0 rules st,
    rules_loop ptab fs m eft_tok ptoks sc0 st rules =
    match until_loop (rule_step fs m eft_tok ptoks sc0) done rules st with
    | Some (inl st') => match next st' with Some b => Ok b | None => Panic end
    | Some (inr r) => r
    | None => Panic
    end.
  Proof.
    intros fs m eft_tok ptoks sc0 rules. induction rules as [|pvals rest IH]; intros st.
    - reflexivity.
    - cbn [rules_loop until_loop]. unfold rule_step at 1.
      destruct (negb (Nat.eqb (length ptoks) (length pvals))); [reflexivity|].
      destruct (eval_matcher ptab fs m (bind ptoks (map VStr pvals) sc0)) as [b|e|]; [|reflexivity|reflexivity].
      cbv zeta. destruct (done (push st (rule_effect eft_tok ptoks pvals b))); [reflexivity|apply IH].
  Qed.
End RulesLoop.

(* ================================================================== *)
(* C. scope, zip, position                                             *)

(* pushing the pairs of a zip one by one is the model's `bind` *)
Lemma fold_push_bind : forall (toks : list text) (vals : list value) (sc : list (text * value)),
  fold_left (fun (s : scope) (p : text * value) => (fst p, snd p) :: s) (combine toks vals) sc = bind toks vals sc.
Proof.
  unfold bind. intros toks vals. generalize (combine toks vals) as l. clear toks vals.
  induction l as [|[t v] l IH]; intros sc; [reflexivity|].
  cbn [fold_left rev fst snd]. rewrite IH, <- app_assoc. reflexivity.
Qed.

Lemma combine_map_r : forall {A B C} (f : B -> C) (a : list A) (b : list B),
  combine a (map f b) = map (fun p => (fst p, f (snd p))) (combine a b).
Proof.
  intros A B C f a. induction a as [|x a IH]; intros [|y b]; try reflexivity.
  cbn [map combine fst snd]. rewrite IH. reflexivity.
Qed.

Lemma fold_left_map : forall {A B S} (f : S -> B -> S) (g : A -> B) (l : list A) (s : S),
  fold_left f (map g l) s = fold_left (fun s x => f s (g x)) l s.
Proof. intros A B S f g l. induction l as [|x l IH]; intros s; [reflexivity|]. cbn [map fold_left]. apply IH. Qed.

(* the policy values are pushed as strings *)
Lemma fold_push_str_bind : forall (toks : list text) (vals : list text) (sc : list (text * value)),
  fold_left (fun (s : scope) (p : text * text) => (fst p, VStr (snd p)) :: s) (combine toks vals) sc
  = bind toks (map VStr vals) sc.
Proof.
  intros toks vals sc. rewrite <- fold_push_bind, combine_map_r, fold_left_map. reflexivity.
Qed.

(* every token bound to the same value (the empty-policy branch) *)
Lemma fold_push_const_bind : forall (v : value) (toks : list text) (sc : list (text * value)),
  fold_left (fun (s : scope) (t : text) => (t, v) :: s) toks sc = bind toks (map (fun _ => v) toks) sc.
Proof.
  unfold bind. intros v toks. induction toks as [|t toks IH]; intros sc; [reflexivity|].
  cbn [fold_left map combine rev]. rewrite IH, <- app_assoc. reflexivity.
Qed.

(* a scope that only grew since sc0 *)
Definition sc_extends (sc0 sc : list (text * value)) : Prop := exists ext, sc = ext ++ sc0.

Lemma sc_extends_refl : forall sc0, sc_extends sc0 sc0.
Proof. intros sc0. exists []. reflexivity. Qed.

Lemma sc_extends_bind : forall sc0 sc toks vals, sc_extends sc0 sc -> sc_extends sc0 (bind toks vals sc).
Proof.
  intros sc0 sc toks vals [ext ->]. exists (rev (combine toks vals) ++ ext).
  unfold bind. rewrite app_assoc. reflexivity.
Qed.

Lemma sc_extends_cons : forall sc0 sc p, sc_extends sc0 sc -> sc_extends sc0 (p :: sc).
Proof. intros sc0 sc p [ext ->]. exists (p :: ext). reflexivity. Qed.

(* rewinding to the length it had gives back the scope it was *)
Lemma sc_rewind_extends : forall sc0 sc, sc_extends sc0 sc -> sc_rewind sc (length sc0) = sc0.
Proof.
  intros sc0 sc [ext ->]. unfold sc_rewind. rewrite app_length.
  replace (length ext + length sc0 - length sc0) with (length ext + 0) by lia.
  rewrite skipn_app, Nat.add_0_r, skipn_all.
  replace (length ext - length ext) with 0 by lia. reflexivity.
Qed.

(* position with an equality test is index_of, whichever way round the test is written *)
Lemma rs_position_index_of : forall (x : text) (l : list text),
  rs_position (fun y => teqb y x) l = index_of x l.
Proof.
  intros x l. induction l as [|y l IH]; [reflexivity|].
  cbn [rs_position index_of]. rewrite IH, (teqb_sym y x). reflexivity.
Qed.

Lemma rs_position_index_of' : forall (x : text) (l : list text),
  rs_position (fun y => teqb x y) l = index_of x l.
Proof.
  intros x l. induction l as [|y l IH]; [reflexivity|].
  cbn [rs_position index_of]. rewrite IH. reflexivity.
Qed.

Lemma index_of_lt : forall (x : text) (l : list text) j, index_of x l = Some j -> j < length l.
Proof.
  intros x l. induction l as [|y l IH]; intros j H; cbn [index_of] in H; [discriminate|].
  destruct (teqb x y).
  - inversion H. cbn [length]. lia.
  - destruct (index_of x l) as [n|]; [|discriminate]. inversion H. cbn [length].
    specialize (IH n eq_refl). lia.
Qed.

(* the column found among the tokens exists in a rule of the right arity *)
Lemma index_of_nth_error : forall (x : text) (toks : list text) (vals : rule) j,
  index_of x toks = Some j -> Nat.eqb (length toks) (length vals) = true ->
  nth_error vals j = Some (nth j vals []).
Proof.
  intros x toks vals j Hj Hlen. apply Nat.eqb_eq in Hlen. apply index_of_lt in Hj.
  apply nth_error_nth'. lia.
Qed.
