(* Proofs about Model/Expr.v: induction principle for the nested inductive
   `expr`, unfolding equations for `eval`, evaluation congruences. *)
From CV Require Import Model.Base Model.PathMatch Model.Expr.
From CV Require Import Proofs.BaseP.
From Coq Require Import Lia.

(* ---------- A. induction principle with Forall hypotheses ---------- *)
Section ExprInd.
  Variable P : expr -> Prop.
  Hypothesis HLit : forall v, P (ELit v).
  Hypothesis HVar : forall p f, P (EVar p f).
  Hypothesis HProp : forall a f, P a -> P (EProp a f).
  Hypothesis HEq : forall a b, P a -> P b -> P (EEq a b).
  Hypothesis HNeq : forall a b, P a -> P b -> P (ENeq a b).
  Hypothesis HCmp : forall c a b, P a -> P b -> P (ECmp c a b).
  Hypothesis HAnd : forall a b, P a -> P b -> P (EAnd a b).
  Hypothesis HOr : forall a b, P a -> P b -> P (EOr a b).
  Hypothesis HNot : forall a, P a -> P (ENot a).
  Hypothesis HIn : forall a xs, P a -> Forall P xs -> P (EIn a xs).
  Hypothesis HCall : forall f args, Forall P args -> P (ECall f args).
  Hypothesis HEval : forall p f, P (EEval p f).

  Fixpoint expr_ind' (e : expr) : P e :=
    match e with
    | ELit v => HLit v
    | EVar p f => HVar p f
    | EProp a f => HProp a f (expr_ind' a)
    | EEq a b => HEq a b (expr_ind' a) (expr_ind' b)
    | ENeq a b => HNeq a b (expr_ind' a) (expr_ind' b)
    | ECmp c a b => HCmp c a b (expr_ind' a) (expr_ind' b)
    | EAnd a b => HAnd a b (expr_ind' a) (expr_ind' b)
    | EOr a b => HOr a b (expr_ind' a) (expr_ind' b)
    | ENot a => HNot a (expr_ind' a)
    | EIn a xs =>
      HIn a xs (expr_ind' a)
          ((fix go (l : list expr) : Forall P l :=
              match l with
              | [] => Forall_nil P
              | y :: l' => Forall_cons y (expr_ind' y) (go l')
              end) xs)
    | ECall f args =>
      HCall f args
            ((fix go (l : list expr) : Forall P l :=
                match l with
                | [] => Forall_nil P
                | y :: l' => Forall_cons y (expr_ind' y) (go l')
                end) args)
    | EEval p f => HEval p f
    end.
End ExprInd.

(* ---------- the two list loops of eval as named functions ---------- *)
(* defined in sections so that `in_go ev x` and `call_go call ev f` reduce to
   exactly the anonymous `fix go` of Model/Expr.v *)
Section Loops.
  Variable call : text -> list value -> option eres.
  Variable ev : expr -> eres.
  Section InGo.
    Variable x : value.
    Fixpoint in_go (l : list expr) (found : bool) : eres :=
      match l with
      | [] => EV (VBool found)
      | y :: l' => match ev y with
                   | EV v => in_go l' (found || veqb x v)
                   | other => other
                   end
      end.
  End InGo.
  Variable f : text.
  Fixpoint call_go (l : list expr) (acc : list value) : eres :=
    match l with
    | [] => match call f (rev acc) with Some r => r | None => EErr end
    | y :: l' => match ev y with
                 | EV v => call_go l' (v :: acc)
                 | other => other
                 end
    end.
End Loops.

(* ---------- unfolding equations ---------- *)
Section EvalEqs.
  Variable call : text -> list value -> option eres.
  Variable ptab : text -> option expr.
  Variable sc : list (text * value).
  Notation ev := (eval call ptab sc).

  Lemma eval_ELit fuel v : ev fuel (ELit v) = EV (of_scalar v).
  Proof. destruct fuel; reflexivity. Qed.

  Lemma eval_EVar fuel p f :
    ev fuel (EVar p f) = match assoc (tok p f) sc with Some v => EV v | None => EErr end.
  Proof. destruct fuel; reflexivity. Qed.

  Lemma eval_EProp fuel a f :
    ev fuel (EProp a f) =
    match ev fuel a with
    | EV (VMap fs) => EV (match assoc f fs with Some s => of_scalar s | None => VUnit end)
    | EV _ => EErr
    | other => other
    end.
  Proof. destruct fuel; reflexivity. Qed.

  Lemma eval_EEq fuel a b :
    ev fuel (EEq a b) =
    match ev fuel a with
    | EV x => match ev fuel b with EV y => EV (VBool (veqb x y)) | other => other end
    | other => other
    end.
  Proof. destruct fuel; reflexivity. Qed.

  Lemma eval_ENeq fuel a b :
    ev fuel (ENeq a b) =
    match ev fuel a with
    | EV x => match ev fuel b with EV y => EV (VBool (negb (veqb x y))) | other => other end
    | other => other
    end.
  Proof. destruct fuel; reflexivity. Qed.

  Lemma eval_ECmp fuel c a b :
    ev fuel (ECmp c a b) =
    match ev fuel a with
    | EV x => match ev fuel b with EV y => cmp_values c x y | other => other end
    | other => other
    end.
  Proof. destruct fuel; reflexivity. Qed.

  Lemma eval_EAnd fuel a b :
    ev fuel (EAnd a b) =
    match as_bool (ev fuel a) with
    | EV (VBool true) => as_bool (ev fuel b)
    | other => other
    end.
  Proof. destruct fuel; reflexivity. Qed.

  Lemma eval_EOr fuel a b :
    ev fuel (EOr a b) =
    match as_bool (ev fuel a) with
    | EV (VBool false) => as_bool (ev fuel b)
    | other => other
    end.
  Proof. destruct fuel; reflexivity. Qed.

  Lemma eval_ENot fuel a :
    ev fuel (ENot a) =
    match as_bool (ev fuel a) with
    | EV (VBool b) => EV (VBool (negb b))
    | other => other
    end.
  Proof. destruct fuel; reflexivity. Qed.

  Lemma eval_EIn fuel a xs :
    ev fuel (EIn a xs) =
    match ev fuel a with
    | EV x => in_go (ev fuel) x xs false
    | other => other
    end.
  Proof. destruct fuel; reflexivity. Qed.

  Lemma eval_ECall fuel f args :
    ev fuel (ECall f args) = call_go call (ev fuel) f args [].
  Proof. destruct fuel; reflexivity. Qed.

  Lemma eval_EEval fuel p f :
    ev fuel (EEval p f) =
    match fuel with
    | 0 => EErr
    | S fuel' =>
      match assoc (tok p f) sc with
      | Some (VStr s) =>
        if teqb s [] then EV VUnit
        else match ptab (escape_assertion s) with
             | Some e' => ev fuel' e'
             | None => EErr
             end
      | _ => EErr
      end
    end.
  Proof. destruct fuel; reflexivity. Qed.
End EvalEqs.

(* ---------- congruence of the two loops ---------- *)
(* stated through a map so that the same lemma serves the identity and the
   renaming of Model/Rename.v *)
Lemma in_go_map (ev1 ev2 : expr -> eres) (g : expr -> expr) x : forall xs found,
  Forall (fun y => ev1 (g y) = ev2 y) xs ->
  in_go ev1 x (map g xs) found = in_go ev2 x xs found.
Proof.
  induction xs as [|y xs IH]; intros found HF; cbn [map in_go]; [reflexivity|].
  inversion HF as [|y' xs' Hy Hxs]; subst.
  rewrite Hy. destruct (ev2 y); try reflexivity. apply IH, Hxs.
Qed.

Lemma in_go_ext (ev1 ev2 : expr -> eres) x xs found :
  Forall (fun y => ev1 y = ev2 y) xs ->
  in_go ev1 x xs found = in_go ev2 x xs found.
Proof.
  intros HF. rewrite <- (map_id xs) at 1. apply in_go_map. exact HF.
Qed.

Lemma call_go_map call1 call2 (ev1 ev2 : expr -> eres) (g : expr -> expr) f :
  (forall args, call1 f args = call2 f args) ->
  forall xs acc,
  Forall (fun y => ev1 (g y) = ev2 y) xs ->
  call_go call1 ev1 f (map g xs) acc = call_go call2 ev2 f xs acc.
Proof.
  intros Hc. induction xs as [|y xs IH]; intros acc HF; cbn [map call_go].
  - rewrite Hc. reflexivity.
  - inversion HF as [|y' xs' Hy Hxs]; subst.
    rewrite Hy. destruct (ev2 y); try reflexivity. apply IH, Hxs.
Qed.

Lemma call_go_ext call1 call2 (ev1 ev2 : expr -> eres) f xs acc :
  (forall args, call1 f args = call2 f args) ->
  Forall (fun y => ev1 y = ev2 y) xs ->
  call_go call1 ev1 f xs acc = call_go call2 ev2 f xs acc.
Proof.
  intros Hc HF. rewrite <- (map_id xs) at 1. apply call_go_map; assumption.
Qed.

(* ---------- D. evaluation congruence ---------- *)
Ltac eval_unfold :=
  rewrite ?eval_ELit, ?eval_EVar, ?eval_EProp, ?eval_EEq, ?eval_ENeq, ?eval_ECmp,
    ?eval_EAnd, ?eval_EOr, ?eval_ENot, ?eval_EIn, ?eval_ECall.

Lemma eval_ext : forall call1 call2 ptab sc1 sc2 fuel e,
  (forall f args, call1 f args = call2 f args) ->
  (forall t, assoc t sc1 = assoc t sc2) ->
  eval call1 ptab sc1 fuel e = eval call2 ptab sc2 fuel e.
Proof.
  intros call1 call2 ptab sc1 sc2 fuel e Hc Hs. revert e.
  induction fuel as [|fuel IHf]; intros e;
    induction e as [v|p f|a f IHa|a b IHa IHb|a b IHa IHb|c a b IHa IHb|a b IHa IHb
                    |a b IHa IHb|a IHa|a xs IHa IHxs|f args IHargs|p f] using expr_ind';
    eval_unfold;
    try (rewrite ?IHa, ?IHb, ?Hs; reflexivity).
  - rewrite IHa. destruct (eval call2 ptab sc2 0 a); try reflexivity.
    apply in_go_ext, IHxs.
  - apply call_go_ext; [intros; apply Hc|exact IHargs].
  - rewrite IHa. destruct (eval call2 ptab sc2 (S fuel) a); try reflexivity.
    apply in_go_ext, IHxs.
  - apply call_go_ext; [intros; apply Hc|exact IHargs].
  - rewrite !eval_EEval, Hs.
    destruct (assoc (tok p f) sc2) as [[s| | | |]|]; try reflexivity.
    destruct (teqb s []); [reflexivity|].
    destruct (ptab (escape_assertion s)); [apply IHf|reflexivity].
Qed.

(* function names occurring syntactically, and absence of eval() *)
Fixpoint fnames (e : expr) : list text :=
  match e with
  | ELit _ | EVar _ _ | EEval _ _ => []
  | EProp a _ | ENot a => fnames a
  | EEq a b | ENeq a b | ECmp _ a b | EAnd a b | EOr a b => fnames a ++ fnames b
  | EIn a xs => fnames a ++ flat_map fnames xs
  | ECall f args => f :: flat_map fnames args
  end.

Fixpoint no_eval (e : expr) : bool :=
  match e with
  | ELit _ | EVar _ _ => true
  | EProp a _ | ENot a => no_eval a
  | EEq a b | ENeq a b | ECmp _ a b | EAnd a b | EOr a b => no_eval a && no_eval b
  | EIn a xs => no_eval a && forallb no_eval xs
  | ECall _ args => forallb no_eval args
  | EEval _ _ => false
  end.

(* the two call tables agree on every function name occurring in e *)
Definition calls_agree (call1 call2 : text -> list value -> option eres) (e : expr) : Prop :=
  forall f args, In f (fnames e) -> call1 f args = call2 f args.

Lemma Forall_list_IH (P : expr -> Prop) (Q : expr -> Prop) (R : expr -> Prop) xs :
  Forall (fun y => P y -> Q y -> R y) xs ->
  (forall y, In y xs -> P y) -> (forall y, In y xs -> Q y) ->
  Forall R xs.
Proof.
  intros HF HP HQ. rewrite Forall_forall in *. intros y Hy.
  apply HF; auto.
Qed.

(* for an eval-free expression the parse table and the fuel are irrelevant,
   and the call tables need to agree only on the names that occur *)
Lemma eval_ext_calls : forall call1 call2 ptab1 ptab2 sc1 sc2 fuel1 fuel2 e,
  no_eval e = true ->
  calls_agree call1 call2 e ->
  (forall t, assoc t sc1 = assoc t sc2) ->
  eval call1 ptab1 sc1 fuel1 e = eval call2 ptab2 sc2 fuel2 e.
Proof.
  intros call1 call2 ptab1 ptab2 sc1 sc2 fuel1 fuel2 e Hne Hc Hs.
  unfold calls_agree in Hc. revert Hne Hc.
  induction e as [v|p f|a f IHa|a b IHa IHb|a b IHa IHb|c a b IHa IHb|a b IHa IHb
                  |a b IHa IHb|a IHa|a xs IHa IHxs|f args IHargs|p f] using expr_ind';
    cbn [no_eval fnames]; intros Hne Hc; eval_unfold;
    try (apply andb_true_iff in Hne; destruct Hne as [Hna Hnb]);
    try (rewrite ?Hs; reflexivity);
    try (rewrite IHa by (auto; intros; apply Hc, in_or_app; auto);
         rewrite ?IHb by (auto; intros; apply Hc, in_or_app; auto);
         reflexivity).
  - rewrite IHa by (auto; intros; apply Hc, in_or_app; auto).
    destruct (eval call2 ptab2 sc2 fuel2 a); try reflexivity.
    apply in_go_ext.
    rewrite forallb_forall in Hnb.
    eapply Forall_list_IH; [exact IHxs|exact Hnb|].
    intros y Hy g args Hg. apply Hc, in_or_app. right.
    apply in_flat_map. exists y. auto.
  - apply call_go_ext.
    + intros args0. apply Hc. left. reflexivity.
    + rewrite forallb_forall in Hne.
      eapply Forall_list_IH; [exact IHargs|exact Hne|].
      intros y Hy g args0 Hg. apply Hc. right.
      apply in_flat_map. exists y. auto.
  - discriminate.
Qed.
