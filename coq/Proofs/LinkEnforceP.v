(* Part 21 (linking), the ENFORCE half of the capstone.
   Enforcer::private_enforce as TRANSLATED (Gen/EnforceGen.v gen_private_enforce), with every call of a
   function of the crate redirected to the TRANSLATION of that function:

     get_or_err!(self, k, ModelError::K, msg)      Gen/Model2Gen.v       gen_get_or_err_with_context
     DefaultEffector::new_stream / push_effect /   Gen/EffectorGen.v     gen_new_stream, gen_push_effect,
       next / the `done` flag                                            gen_next, g_done
     the closures of register_g_function!          Gen/RoleManagerGen.v  gen_has_link (on the representation
       `rm.read().has_link(a, b, d)`                                     rm_conc of the manager behind the handle)
     key_match, key_get                            Gen/StrFnGen.v        gen_key_match, gen_key_get
     key_match2..5, regex_match, key_get2/3        Gen/FmapGen.v         gen_key_match2 .. gen_key_get3

   HOW.  `penf_skel` is gen_private_enforce with its six primitives abstracted - computed from the generated
   term by `pattern`, so that it follows every regeneration (penf_skel_gen: applied to the primitives it is
   gen_private_enforce by reflexivity).  `em_skel` is the same for Model/Enforce.v's eval_matcher (compile +
   eval_ast_with_scope of rhai on the expression registered for the matcher, calling the registered functions
   in the order of Enforce.call_fn), abstracted over has_link and the nine built-in functions.
   lk_enforce = penf_skel on the translated functions.

   RESULT (lk_enforce_agree): for every state whose role managers are well formed (link_inv, an invariant)
   and every sufficient bound `fuel` on the `while let` of has_link,
        lk_enforce s rv = enforce s rv   or   enforce s rv = Err EEvalc.
   The second case is the MISSING LINK of the regex-based built-ins: Gen/FmapGen.v is proved equal to
   Model/PathMatch.v only where the model answers (pattern inside the modelled class); outside it the model's
   built-in evaluates to an error, which every construct of the expression language propagates
   (Proofs/LinkBaseP.v eval_agree_or_err), so the model's decision is Err EEvalc. *)
From CV Require Import Model.Base Model.Effector Model.RoleGraph Model.PathMatch Model.Expr Model.Enforce Model.Engine.
From CV Require Import Gen.RustStr Gen.RustVec Gen.RustIter Gen.RustEnf Gen.EnforceGen Gen.EffectorGen Gen.StrFnGen.
From CV Require Import Gen.Regex Gen.RegexSyntax Gen.FmapRt Gen.FmapGen.
From CV Require Import Gen.Model2Rt Gen.Model2Gen.
From CV Require Import Proofs.BaseP Proofs.RoleGraphP Proofs.C13P Proofs.LinkBaseP Proofs.LinkRmP Proofs.LinkInvP.
From CV Require Import PinChecks.PcRoleManagerGen PinChecks.PcEffectorGen PinChecks.PcStrFnGen PinChecks.PcFmapGen.
From CV Require Import PinChecks.PcModel2Gen PinChecks.PcEnforceGen.
From Coq Require Import Lia.

(* ------------------------------------------------------------------ *)
(* tactics: both sides are the same generated term up to its primitives *)

(* split on a closed innermost scrutinee *)
Ltac destr_inner :=
  match goal with
  | |- context [match ?x with _ => _ end] =>
      lazymatch x with
      | context [match _ with _ => _ end] => fail
      | _ => destruct x eqn:?
      end
  end.
(* .. or on a closed loop (the same on both sides once its primitives were rewritten) *)
Ltac destr_loop :=
  match goal with
  | |- context [match rs_for ?b ?l ?s with _ => _ end] => destruct (rs_for b l s) eqn:?
  end.

(* ------------------------------------------------------------------ *)
(* the skeletons                                                       *)

Definition penf_skel :=
  ltac:(let t := eval cbv delta [gen_private_enforce] in gen_private_enforce in
        let t := eval pattern get_ast, new_stream, Effector.push, Effector.next, Effector.done, eval_matcher in t in
        match t with ?f _ _ _ _ _ _ => exact f end).

Lemma penf_skel_gen :
  penf_skel get_ast new_stream Effector.push Effector.next Effector.done eval_matcher = gen_private_enforce.
Proof. reflexivity. Qed.

Definition em_skel :=
  ltac:(let t := eval cbv delta [eval_matcher call_fn handle_has_link builtin] in eval_matcher in
        let t := eval pattern has_link, key_match, key_get, key_match2, key_match3, key_match4, key_match5,
                              regex_match_words, key_get2, key_get3 in t in
        match t with ?f _ _ _ _ _ _ _ _ _ _ => exact f end).

Lemma em_skel_model :
  em_skel has_link key_match key_get key_match2 key_match3 key_match4 key_match5 regex_match_words key_get2 key_get3
  = eval_matcher.
Proof. reflexivity. Qed.

(* ------------------------------------------------------------------ *)
(* the effect stream: Model/Effector.v stream <-> the Rust struct       *)

(* the model stream that a DefaultEffectStream stands for (None: an expression text that new_stream refuses) *)
Definition st_back (g : gstate) : option stream :=
  match parse_erule (g_expr g) with
  | Some r => Some {| done := g_done g; res := g_res g; idx := g_idx g; cap := g_cap g; srule := r |}
  | None => None
  end.

Lemma st_back_embed : forall s, st_back (PcEffectorGen.embed s) = Some s.
Proof. intros [d r i c [| | |]]; reflexivity. Qed.

Definition lk_new_stream (e : text) (c : nat) : option stream :=
  match gen_new_stream e c with Some g => st_back g | None => None end.
Definition lk_push (s : stream) (e : eff) : stream :=
  match st_back (fst (gen_push_effect (PcEffectorGen.embed s) e)) with Some s' => s' | None => s end.
Definition lk_next (s : stream) : option bool := gen_next (PcEffectorGen.embed s).
(* the value push_effect returns is the `done` field of the struct it leaves *)
Definition lk_done (s : stream) : bool := g_done (PcEffectorGen.embed s).

Theorem link_new_stream : forall e c, lk_new_stream e c = new_stream e c.
Proof.
  intros e c. unfold lk_new_stream. rewrite gen_new_stream_ok.
  destruct (new_stream e c) as [s|]; cbn [option_map]; [apply st_back_embed|reflexivity].
Qed.
Theorem link_push : forall s e, lk_push s e = Effector.push s e.
Proof. intros s e. unfold lk_push. rewrite gen_push_effect_ok. cbn [fst]. rewrite st_back_embed. reflexivity. Qed.
Theorem link_next : forall s, lk_next s = Effector.next s.
Proof. intros s. apply gen_next_ok. Qed.
Theorem link_done : forall s, lk_done s = Effector.done s.
Proof. reflexivity. Qed.
Theorem link_push_flag : forall s e,
  snd (gen_push_effect (PcEffectorGen.embed s) e) = lk_done (lk_push s e).
Proof. intros s e. rewrite link_push, gen_push_effect_ok. reflexivity. Qed.

(* ------------------------------------------------------------------ *)
(* get_or_err! / get_or_err_with_context!                              *)

(* the arguments the source gives the macro for a section *)
Definition macro_err (sec : text) : text -> gen_ModelError :=
  if teqb sec (T "r") then GModelError_R else if teqb sec (T "p") then GModelError_P
  else if teqb sec (T "e") then GModelError_E else if teqb sec (T "m") then GModelError_M else GModelError_Other.
Definition macro_msg (sec : text) : text :=
  if teqb sec (T "r") then T "request" else if teqb sec (T "p") then T "policy"
  else if teqb sec (T "e") then T "effector" else if teqb sec (T "m") then T "matcher" else T "".

Definition lk_get_ast (md : model) (sec key : text) : option assertion :=
  match gen_get_or_err_with_context gen_Error_from_ModelError md sec key (macro_err sec) (macro_msg sec) with
  | RustIter.ROk a => Some a
  | RustIter.RErr _ => None
  end.

Theorem link_get_ast : forall md sec key, lk_get_ast md sec key = get_ast md sec key.
Proof.
  intros md sec key. unfold lk_get_ast.
  pose proof (gen_get_or_err_with_context_model md sec key (macro_err sec) (macro_msg sec)) as H.
  destruct (gen_get_or_err_with_context gen_Error_from_ModelError md sec key (macro_err sec) (macro_msg sec)) as [a|e];
    cbn [res_outcome] in H.
  - destruct (get_ast md sec key); [injection H as ->; reflexivity|discriminate].
  - destruct (get_ast md sec key); [|reflexivity]. destruct (gen_error_class e); discriminate.
Qed.

(* the error value is the one the source builds, of class Model *)
Theorem link_get_ast_error : forall md key,
  get_ast md key key = None ->
  exists msg, gen_get_or_err gen_Error_from_ModelError md key (macro_err key) (macro_msg key)
              = RustIter.RErr (GError_ModelError (macro_err key msg)).
Proof.
  intros md key H. rewrite gen_get_or_err_ok. unfold get_ast in H.
  destruct (assoc key md) as [am|]; [|eexists; reflexivity].
  rewrite H. eexists. reflexivity.
Qed.

(* ------------------------------------------------------------------ *)
(* the registered functions                                            *)

Section Enf.
  Variable ptab : text -> option expr.
  Variable ord : list text -> list text.
  Variable fuel : nat.
  Hypothesis Hord : ord_ok ord.

  (* rm.read().has_link(a, b, d) through the translated DefaultRoleManager *)
  Definition lk_has_link (lvl : nat) (m : rmgr) (a b : text) (d : option text) : bool :=
    lk_rm_has_link ord fuel lvl m a b d.

  Definition lk_eval_matcher :=
    em_skel lk_has_link gen_key_match gen_key_get gen_key_match2 gen_key_match3 gen_key_match4 gen_key_match5
            gen_regex_match gen_key_get2 gen_key_get3.

  (* what the role managers of a function state must satisfy *)
  Definition fs_fuel_ok (fs : fstate) : Prop :=
    rm_fuel_ok fuel (f_rm fs) /\
    forall k m mx, In (k, HFrozen m mx) (f_gfuns fs) -> rm_fuel_ok fuel m.
  Definition fs_wf (fs : fstate) : Prop := wf (f_rm fs) /\ gfuns_ok (f_gfuns fs).

  (* the function table of the linked evaluation against Enforce.call_fn: equal, or the model's function
     answers with an evaluation error (a regex-based built-in outside the modelled pattern class) *)
  Lemma lk_call_agree : forall fs, fs_wf fs -> fs_fuel_ok fs -> forall f args,
    (fun (f : text) (args : list value) =>
      match all_strs args with
      | Some ss =>
          match match assoc f (f_ufuns fs) with Some u => run_ufun u ss | None => None end with
          | Some r => Some r
          | None =>
              match find_gfun (f, length ss) (f_gfuns fs) with
              | Some h =>
                  match ss with
                  | [a; b1] =>
                      Some (EV (VBool (match h with
                                       | HOwn => lk_has_link 0 [] a b1 None
                                       | HCur => lk_has_link (f_rm_max fs) (f_rm fs) a b1 None
                                       | HFrozen m0 mx => lk_has_link mx m0 a b1 None
                                       end)))
                  | [a; b1; d] =>
                      Some (EV (VBool (match h with
                                       | HOwn => lk_has_link 0 [] a b1 (Some d)
                                       | HCur => lk_has_link (f_rm_max fs) (f_rm fs) a b1 (Some d)
                                       | HFrozen m0 mx => lk_has_link mx m0 a b1 (Some d)
                                       end)))
                  | _ => None
                  end
              | None =>
                  match ss with
                  | [a; b1] =>
                      if teqb f (T "keyMatch") then Some (EV (VBool (gen_key_match a b1)))
                      else if teqb f (T "keyGet") then Some (EV (VStr (gen_key_get a b1)))
                      else if teqb f (T "keyMatch2") then Some (ob_res (gen_key_match2 a b1))
                      else if teqb f (T "keyMatch3") then Some (ob_res (gen_key_match3 a b1))
                      else if teqb f (T "keyMatch4") then Some (ob_res (gen_key_match4 a b1))
                      else if teqb f (T "keyMatch5") then Some (ob_res (gen_key_match5 a b1))
                      else if teqb f (T "regexMatch") then Some (ob_res (gen_regex_match a b1))
                      else None
                  | [a; b1; c] =>
                      if teqb f (T "keyGet2") then Some (ot_res (gen_key_get2 a b1 c))
                      else if teqb f (T "keyGet3") then Some (ot_res (gen_key_get3 a b1 c))
                      else None
                  | _ => None
                  end
              end
          end
      | None => None
      end) f args = call_fn fs f args \/ call_fn fs f args = Some EErr.
  Proof.
    intros fs [Hwf Hg] [Hf Hfg] f args. cbv beta. unfold call_fn.
    destruct (all_strs args) as [ss|]; [|left; reflexivity].
    destruct (match assoc f (f_ufuns fs) with Some u => run_ufun u ss | None => None end) as [r|];
      [left; reflexivity|].
    destruct (find_gfun (f, length ss) (f_gfuns fs)) as [h|] eqn:Eh.
    - (* a role closure: has_link on the manager behind the handle *)
      destruct (find_gfun_In _ _ _ Eh) as (k' & Hin).
      assert (Hh : forall a b d,
                 match h with
                 | HOwn => lk_has_link 0 [] a b d
                 | HCur => lk_has_link (f_rm_max fs) (f_rm fs) a b d
                 | HFrozen m0 mx => lk_has_link mx m0 a b d
                 end = handle_has_link fs h a b d).
      { intros a b d. unfold lk_has_link, handle_has_link. destruct h as [| |m0 mx].
        - apply link_rm_has_link; [exact Hord|apply wf_nil|intros dk g H; discriminate].
        - apply link_rm_has_link; [exact Hord|exact Hwf|exact Hf].
        - apply link_rm_has_link; [exact Hord|apply (Hg k' _ Hin)|apply (Hfg k' _ _ Hin)]. }
      left. destruct ss as [|a [|b1 [|d [|x ss]]]]; try reflexivity; rewrite Hh; reflexivity.
    - (* a default function *)
      unfold builtin. destruct ss as [|a [|b1 [|c [|x ss]]]]; try (left; reflexivity).
      + destruct (teqb f (T "keyMatch")); [left; rewrite gen_key_match_ok; reflexivity|].
        destruct (teqb f (T "keyGet")); [left; rewrite gen_key_get_ok; reflexivity|].
        destruct (teqb f (T "keyMatch2")).
        { destruct (key_match2 a b1) as [r|] eqn:E; [left; rewrite (fm_key_match2_opt _ _ _ E); reflexivity|right; reflexivity]. }
        destruct (teqb f (T "keyMatch3")).
        { destruct (key_match3 a b1) as [r|] eqn:E; [left; rewrite (fm_key_match3_opt _ _ _ E); reflexivity|right; reflexivity]. }
        destruct (teqb f (T "keyMatch4")).
        { destruct (key_match4 a b1) as [r|] eqn:E; [left; rewrite (fm_key_match4_opt _ _ _ E); reflexivity|right; reflexivity]. }
        destruct (teqb f (T "keyMatch5")).
        { destruct (key_match5 a b1) as [r|] eqn:E; [left; rewrite (fm_key_match5_opt _ _ _ E); reflexivity|right; reflexivity]. }
        destruct (teqb f (T "regexMatch")); [|left; reflexivity].
        destruct (regex_match_words a b1) as [r|] eqn:E; [left; rewrite (fm_regex_match_words_opt _ _ _ E); reflexivity|right; reflexivity].
      + destruct (teqb f (T "keyGet2")).
        { destruct (key_get2 a b1 c) as [r|] eqn:E; [left; rewrite (fm_key_get2_opt _ _ _ _ E); reflexivity|right; reflexivity]. }
        destruct (teqb f (T "keyGet3")); [|left; reflexivity].
        destruct (key_get3 a b1 c) as [r|] eqn:E; [left; rewrite (fm_key_get3_opt _ _ _ _ E); reflexivity|right; reflexivity].
  Qed.

  Theorem lk_eval_matcher_agree : forall fs m sc, fs_wf fs -> fs_fuel_ok fs ->
    lk_eval_matcher ptab fs m sc = eval_matcher ptab fs m sc \/ eval_matcher ptab fs m sc = Err EEvalc.
  Proof.
    intros fs m sc Hwf Hfuel. unfold lk_eval_matcher, em_skel, eval_matcher. cbv beta.
    match goal with
    | |- context [eval ?c1 ptab sc eval_fuel m] =>
        lazymatch c1 with
        | call_fn fs => fail
        | _ => destruct (eval_agree_or_err c1 (call_fn fs) ptab sc (lk_call_agree fs Hwf Hfuel) eval_fuel m) as [E|E]
        end
    end.
    - left. rewrite E. reflexivity.
    - right. rewrite E. reflexivity.
  Qed.

  (* ---------------------------------------------------------------- *)
  (* Enforcer::private_enforce, linked                                  *)

  Definition lk_private_enforce :=
    penf_skel lk_get_ast lk_new_stream lk_push lk_next lk_done lk_eval_matcher ptab.

  Definition lk_enforce (s : estate) (rv : list value) : outcome bool :=
    lk_private_enforce (e_enabled s) (e_model s) (e_mexprs s) (e_fs s) rv.

  Ltac rw_prims := rewrite ?link_get_ast, ?link_new_stream, ?link_push, ?link_next, ?link_done.

  Theorem lk_private_enforce_agree : forall en md mx fs rv, fs_wf fs -> fs_fuel_ok fs ->
    lk_private_enforce en md mx fs rv = gen_private_enforce ptab en md mx fs rv \/
    gen_private_enforce ptab en md mx fs rv = Err EEvalc.
  Proof.
    intros en md mx fs rv Hwf Hfuel.
    pose proof (fun m sc => lk_eval_matcher_agree fs m sc Hwf Hfuel) as HEM.
    unfold lk_private_enforce, penf_skel, gen_private_enforce. cbv beta.
    repeat (first
      [ left; reflexivity
      | match goal with
        | |- context [lk_eval_matcher ptab fs ?m ?sc] =>
            let H := fresh "Hem" in
            destruct (HEM m sc) as [H|H]; [rewrite H | right; rewrite H; reflexivity]
        end
      | progress rw_prims
      | match goal with
        | |- context [rs_for ?b1 ?l ?s] =>
          match goal with
          | |- context [rs_for ?b2 l s] =>
            lazymatch b1 with b2 => fail | _ => idtac end;
            let H := fresh "Hl" in
            destruct (rs_for_agree_or (Err EEvalc) b1 b2
                        ltac:(intros x st; try destruct st; cbv beta; rw_prims;
                              repeat (first
                                [ left; reflexivity
                                | match goal with
                                  | |- context [lk_eval_matcher ptab fs ?m ?sc] =>
                                      let H := fresh "Hem" in
                                      destruct (HEM m sc) as [H|H]; [rewrite H | right; rewrite H; reflexivity]
                                  end
                                | progress rw_prims
                                | destr_inner
                                | destr_loop ])) l s) as [H|H];
            [ rewrite H; clear H | right; rewrite H; reflexivity ]
          end
        end
      | destr_inner
      | destr_loop ]).
  Qed.

  Theorem lk_enforce_agree : forall s rv, link_inv s -> fs_fuel_ok (e_fs s) ->
    lk_enforce s rv = enforce ptab s rv \/ enforce ptab s rv = Err EEvalc.
  Proof.
    intros s rv [Hwf Hg] Hfuel. unfold lk_enforce, enforce. rewrite <- gen_private_enforce_plain.
    apply lk_private_enforce_agree; [split; assumption|exact Hfuel].
  Qed.

  Corollary lk_enforce_eq : forall s rv, link_inv s -> fs_fuel_ok (e_fs s) ->
    enforce ptab s rv <> Err EEvalc -> lk_enforce s rv = enforce ptab s rv.
  Proof.
    intros s rv Hinv Hfuel Hne. destruct (lk_enforce_agree s rv Hinv Hfuel) as [H|H]; [exact H|contradiction].
  Qed.
End Enf.

(* more fuel is as good, and some fuel is enough for every state *)
Lemma rm_fuel_ok_mono : forall f1 f2 m, f1 <= f2 -> rm_fuel_ok f1 m -> rm_fuel_ok f2 m.
Proof. intros f1 f2 m Hle H dk g Hg. specialize (H dk g Hg). lia. Qed.

Lemma fs_fuel_exists : forall fs, exists F, forall fuel, F <= fuel -> fs_fuel_ok fuel fs.
Proof.
  intros fs. destruct (rm_fuel_exists (f_rm fs)) as (F0 & HF0).
  assert (H : exists F, forall fuel, F <= fuel ->
                forall k m mx, In (k, HFrozen m mx) (f_gfuns fs) -> rm_fuel_ok fuel m).
  { induction (f_gfuns fs) as [|[k h] gf (F & HF)].
    - exists 0. intros fuel _ k m mx [].
    - destruct h as [| |m0 mx0].
      + exists F. intros fuel Hf k' m mx [E|Hin]; [discriminate E|apply (HF fuel Hf k' m mx Hin)].
      + exists F. intros fuel Hf k' m mx [E|Hin]; [discriminate E|apply (HF fuel Hf k' m mx Hin)].
      + destruct (rm_fuel_exists m0) as (F1 & HF1). exists (F + F1).
        intros fuel Hf k' m mx [E|Hin].
        * inversion E; subst. apply HF1. lia.
        * apply (HF fuel ltac:(lia) k' m mx Hin). }
  destruct H as (F1 & HF1). exists (F0 + F1). intros fuel Hf. split.
  - apply HF0. lia.
  - apply HF1. lia.
Qed.
