(* C18obs (Properties/C18obs.v: the reconfiguration theorems of C18 under the weaker hypothesis ObsSynced, which
   holds after every history of incremental calls) at the level of the TRANSLATED SOURCE: its composition theorems
   and the three single-call theorems restated about `src_step` / `src_run_ops` / `src_ask` / `src_new_enforcer`
   (Proofs/SrcStepP.v, Proofs/SrcQueryP.v) and the twins src_fresh_from / src_fresh_of (Proofs/C18SrcP.v) and
   src_hist_ok (Proofs/C05SrcP.v).
   Proofs: the C18obs theorems (Proofs/C18Obs*.v) composed with src_step_eq & co. *)
From CV Require Import Model.Base Model.Effector Model.RoleGraph Model.Expr Model.Enforce Model.Engine
     Model.SpecC05 Model.SpecC09 Model.SpecC18.
From CV Require Import Proofs.ExprP Proofs.ExModels Proofs.C09P Proofs.C05Sync Proofs.C05Load
     Proofs.C05Main Proofs.C05Rebuild Proofs.C05P Proofs.C18P Proofs.C18Q
     Proofs.C18Obs Proofs.C18ObsR Proofs.C18ObsH Proofs.C18ObsF Proofs.C18ObsM.
From CV Require Import Proofs.SrcStepP Proofs.SrcQueryP Proofs.C05SrcP Proofs.C18SrcP.

(* twin of Proofs/C18ObsH.obs_hist_ok *)
Definition src_obs_hist_ok (s : estate) (ops : list op) : bool :=
  src_hist_ok s ops && forallb obs_op ops.

Lemma src_obs_hist_ok_eq : forall s ops, src_obs_hist_ok s ops = obs_hist_ok s ops.
Proof. intros s ops. unfold src_obs_hist_ok, obs_hist_ok. rewrite src_hist_ok_eq. reflexivity. Qed.

(* ---- the three calls in an ObsSynced state, against the enforcer built from the model store ---- *)
Lemma src_c18obs_set_role_manager_cur : forall s mx s' b,
  src_step s (OSetRoleManager mx) = (s', Ok b) ->
  ObsSynced s -> e_auto_build s = true -> ad_is_filtered (e_adapter s) = false ->
  no_leftover (f_gfuns (e_fs s)) (e_model s) = true ->
  exists sf, src_fresh_from (cur_def s') (e_adapter s') s' = (sf, Ok true) /\
             (forall ptab q, ans_eq (src_ask ptab s' q) (src_ask ptab sf q)) /\
             f_rm_max (e_fs sf) = mx.
Proof.
  intros s mx s' b Hst Ho Hb Hf Hn. rewrite src_step_eq in Hst.
  destruct (obs_set_role_manager_fresh s mx s' b Hst Ho Hb Hf Hn) as (sf & H1 & H2 & H3).
  exists sf. rewrite src_fresh_from_eq. split; [exact H1|]. split; [|exact H3].
  intros ptab q. rewrite !src_ask_eq. apply H2.
Qed.

Lemma src_c18obs_set_effector_cur : forall s s' b,
  src_step s OSetEffector = (s', Ok b) ->
  ObsSynced s -> ad_is_filtered (e_adapter s) = false ->
  gfuns_exactb (f_gfuns (e_fs s)) (e_model s) = true ->
  exists sf, src_fresh_from (cur_def s') (e_adapter s') s' = (sf, Ok true) /\
             forall ptab q, ans_eq (src_ask ptab s' q) (src_ask ptab sf q).
Proof.
  intros s s' b Hst Ho Hf Hg. rewrite src_step_eq in Hst.
  destruct (obs_set_effector_fresh s s' b Hst Ho Hf Hg) as (sf & H1 & H2).
  exists sf. rewrite src_fresh_from_eq. split; [exact H1|].
  intros ptab q. rewrite !src_ask_eq. apply H2.
Qed.

Lemma src_c18obs_add_function_cur : forall s n u s' b,
  src_step s (OAddFunction n u) = (s', Ok b) ->
  ObsSynced s -> ad_is_filtered (e_adapter s) = false ->
  gfuns_exactb (f_gfuns (e_fs s)) (e_model s) = true ->
  exists sf, src_fresh_from (cur_def s') (e_adapter s') s' = (sf, Ok true) /\
             (forall ptab q, ans_eq (src_ask ptab s' q) (src_ask ptab sf q)) /\
             f_ufuns (e_fs s') = (n, u) :: f_ufuns (e_fs s).
Proof.
  intros s n u s' b Hst Ho Hf Hg. rewrite src_step_eq in Hst.
  destruct (obs_add_function_fresh s n u s' b Hst Ho Hf Hg) as (sf & H1 & H2 & H3).
  exists sf. rewrite src_fresh_from_eq. split; [exact H1|]. split; [|exact H3].
  intros ptab q. rewrite !src_ask_eq. apply H2.
Qed.

(* ---- the hypothesis holds in every reached state ---- *)
Lemma src_c18obs_reachable : forall d l w ops,
  is_ok (snd (src_new_enforcer d (AMemory l false) w)) = true ->
  NoDup l -> forallb pg_mem_line l = true -> keys_ok_b (d_model d) = true ->
  side_ok (fst (src_new_enforcer d (AMemory l false) w)) = true ->
  src_obs_hist_ok (fst (src_new_enforcer d (AMemory l false) w)) ops = true ->
  let s := src_run_ops (fst (src_new_enforcer d (AMemory l false) w)) ops in
  shallow (f_rm_max (e_fs s)) (f_rm (e_fs s)) ->
  ObsSynced s.
Proof.
  intros d l w ops. rewrite src_new_enforcer_eq, src_obs_hist_ok_eq. cbv zeta. rewrite src_run_ops_eq.
  exact (obs_reachable d l w ops).
Qed.

(* ---- the composition: every history of incremental calls followed by set_role_manager, set_effector or
   add_function: the fresh enforcer can be built from the re-parsed definition and the adapter, and every answer of
   the reconfigured enforcer equals its answer ---- *)
Lemma src_c18obs_after_history_built : forall d l w ops o s' b,
  is_ok (snd (src_new_enforcer d (AMemory l false) w)) = true ->
  NoDup l -> forallb pg_mem_line l = true -> keys_ok_b (d_model d) = true ->
  clean_def d = true ->
  side_ok (fst (src_new_enforcer d (AMemory l false) w)) = true ->
  src_obs_hist_ok (fst (src_new_enforcer d (AMemory l false) w)) ops = true ->
  let s := src_run_ops (fst (src_new_enforcer d (AMemory l false) w)) ops in
  shallow (f_rm_max (e_fs s)) (f_rm (e_fs s)) ->
  reconf3 o = true -> src_step s o = (s', Ok b) ->
  exists sf, src_fresh_of s' = (sf, Ok true) /\
             forall ptab q, ans_eq (src_ask ptab s' q) (src_ask ptab sf q).
Proof.
  intros d l w ops o s' b. rewrite src_new_enforcer_eq, src_obs_hist_ok_eq. cbv zeta.
  rewrite src_run_ops_eq, src_step_eq. intros Hok Hnd Hpg Hk Hc Hso Hh Hsh Hr Hst.
  destruct (after_history_fresh_of d l w ops o s' b Hok Hnd Hpg Hk Hc Hso Hh Hsh Hr Hst) as (sf & H1 & H2).
  exists sf. rewrite src_fresh_of_eq. split; [exact H1|].
  intros ptab q. rewrite !src_ask_eq. apply H2.
Qed.

(* against the store-as-definition: any definition d *)
Lemma src_c18obs_after_history_cur : forall d l w ops o s' b,
  is_ok (snd (src_new_enforcer d (AMemory l false) w)) = true ->
  NoDup l -> forallb pg_mem_line l = true -> keys_ok_b (d_model d) = true ->
  side_ok (fst (src_new_enforcer d (AMemory l false) w)) = true ->
  src_obs_hist_ok (fst (src_new_enforcer d (AMemory l false) w)) ops = true ->
  let s := src_run_ops (fst (src_new_enforcer d (AMemory l false) w)) ops in
  shallow (f_rm_max (e_fs s)) (f_rm (e_fs s)) ->
  reconf3 o = true -> src_step s o = (s', Ok b) ->
  exists sf, src_fresh_from (cur_def s') (e_adapter s') s' = (sf, Ok true) /\
             forall ptab q, ans_eq (src_ask ptab s' q) (src_ask ptab sf q).
Proof.
  intros d l w ops o s' b. rewrite src_new_enforcer_eq, src_obs_hist_ok_eq. cbv zeta.
  rewrite src_run_ops_eq, src_step_eq. intros Hok Hnd Hpg Hk Hso Hh Hsh Hr Hst.
  destruct (after_history_cur d l w ops o s' b Hok Hnd Hpg Hk Hso Hh Hsh Hr Hst) as (sf & H1 & H2).
  exists sf. rewrite src_fresh_from_eq. split; [exact H1|].
  intros ptab q. rewrite !src_ask_eq. apply H2.
Qed.
