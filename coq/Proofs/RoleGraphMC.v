(* C. Pattern-aware C03 for Model/RoleGraphM.v and D. domain patterns.
   Uses the Match-edge invariant of Proofs/RoleGraphMP.v and the generic BFS of
   Proofs/GenBfsP.v. *)
From CV Require Import Model.Base Model.RoleGraph Model.RoleGraphM Model.PathMatch Model.SpecC03M
     Proofs.ListAux Proofs.BaseP Proofs.RoleGraphP Proofs.GenBfsP Proofs.RoleGraphMA
     Proofs.RoleGraphMP.
From Coq Require Import Lia Relations.

(* ---- small facts ---- *)
Lemma mk_edge_inj : forall a b k a' b' k', mk_edge a b k = mk_edge a' b' k' -> a = a' /\ b = b' /\ k = k'.
Proof. intros a b k a' b' k' H. inversion H. auto. Qed.

Lemma is_link_true : forall e, is_link e = true <-> e_kind e = KLink.
Proof. intros [s d [|]]; cbn [is_link e_kind ekind_eqb]; split; intros H; try reflexivity; discriminate. Qed.
Lemma is_match_true : forall e, is_match e = true <-> e_kind e = KMatch.
Proof. intros [s d [|]]; cbn [is_match e_kind ekind_eqb]; split; intros H; try reflexivity; discriminate. Qed.

Lemma link_succs_In : forall g x y, In y (link_succs g x) <-> In (mk_edge x y KLink) (m_edges g).
Proof.
  intros g x y. unfold link_succs, out_edges. rewrite in_map_iff. split.
  - intros [e [Hy He]]. apply filter_In in He. destruct He as [He Hk].
    apply filter_In in He. destruct He as [He Hs]. apply teqb_eq in Hs. apply is_link_true in Hk.
    rewrite (medge_eta e) in He. rewrite Hy, Hs, Hk in He. exact He.
  - intros H. exists (mk_edge x y KLink). split; [reflexivity|].
    apply filter_In. split; [|reflexivity]. apply filter_In. split; [exact H|].
    cbn [mk_edge e_src]. apply teqb_refl.
Qed.

Lemma match_succs_In : forall g x y, In y (match_succs g x) <-> In (mk_edge x y KMatch) (m_edges g).
Proof.
  intros g x y. unfold match_succs, out_edges. rewrite in_map_iff. split.
  - intros [e [Hy He]]. apply filter_In in He. destruct He as [He Hk].
    apply filter_In in He. destruct He as [He Hs]. apply teqb_eq in Hs. apply is_match_true in Hk.
    rewrite (medge_eta e) in He. rewrite Hy, Hs, Hk in He. exact He.
  - intros H. exists (mk_edge x y KMatch). split; [reflexivity|].
    apply filter_In. split; [|reflexivity]. apply filter_In. split; [exact H|].
    cbn [mk_edge e_src]. apply teqb_refl.
Qed.

Lemma in_match_edges_In : forall g x e,
  In e (filter is_match (in_edges g x)) <-> In (mk_edge (e_src e) x KMatch) (m_edges g) /\ e = mk_edge (e_src e) x KMatch.
Proof.
  intros g x e. unfold in_edges. rewrite !filter_In. split.
  - intros [[He Hd] Hk]. apply teqb_eq in Hd. apply is_match_true in Hk.
    assert (E : e = mk_edge (e_src e) x KMatch).
    { rewrite (medge_eta e) at 1. rewrite Hd, Hk. reflexivity. }
    split; [rewrite <- E; exact He|exact E].
  - intros [He E]. rewrite <- E in He. split; [split; [exact He|]|].
    + rewrite E. cbn [mk_edge e_dst]. apply teqb_refl.
    + rewrite E. reflexivity.
Qed.

(* the three-part successor iterator, as a set *)
Lemma m_succs_true_In : forall g x y,
  In y (m_succs true g x) <->
  In (mk_edge x y KLink) (m_edges g) \/
  (exists z, In (mk_edge x z KLink) (m_edges g) /\ In (mk_edge z y KMatch) (m_edges g)) \/
  (exists w, In (mk_edge w x KMatch) (m_edges g) /\ In (mk_edge w y KLink) (m_edges g)).
Proof.
  intros g x y. unfold m_succs. cbn [negb]. rewrite !in_app_iff, !in_flat_map, link_succs_In. split.
  - intros [H|[[z [Hz Hy]]|[e [He Hy]]]].
    + left. exact H.
    + right. left. exists z. split; [apply link_succs_In, Hz|apply match_succs_In, Hy].
    + right. right. exists (e_src e). apply in_match_edges_In in He. destruct He as [He _].
      split; [exact He|apply link_succs_In, Hy].
  - intros [H|[[z [Hz Hy]]|[w [Hw Hy]]]].
    + left. exact H.
    + right. left. exists z. split; [apply link_succs_In, Hz|apply match_succs_In, Hy].
    + right. right. exists (mk_edge w x KMatch). split.
      * apply in_match_edges_In. cbn [mk_edge e_src]. split; [exact Hw|reflexivity].
      * cbn [mk_edge e_src]. apply link_succs_In, Hy.
Qed.

Lemma mstep_succs_In : forall f ns l x y,
  In y (mstep_succs f ns l x) <->
  In (x, y) l \/
  (exists z, In (x, z) l /\ In y ns /\ y <> z /\ f y z = true) \/
  (exists w, In w ns /\ w <> x /\ f x w = true /\ In (w, y) l).
Proof.
  intros f ns l x y. unfold mstep_succs. rewrite !in_app_iff, !in_flat_map, lsuccs_In. split.
  - intros [H|[[z [Hz Hy]]|[w [Hw Hy]]]].
    + left. exact H.
    + right. left. exists z. apply lsuccs_In in Hz. apply filter_In in Hy. destruct Hy as [Hy Hc].
      apply andb_true_iff in Hc. destruct Hc as [Hne Hf]. apply negb_true_iff, teqb_neq in Hne.
      repeat split; assumption.
    + right. right. exists w. apply lsuccs_In in Hy. apply filter_In in Hw. destruct Hw as [Hw Hc].
      apply andb_true_iff in Hc. destruct Hc as [Hne Hf]. apply negb_true_iff, teqb_neq in Hne.
      repeat split; assumption.
  - intros [H|[[z (Hz & Hy & Hne & Hf)]|[w (Hw & Hne & Hf & Hy)]]].
    + left. exact H.
    + right. left. exists z. split; [apply lsuccs_In, Hz|]. apply filter_In. split; [exact Hy|].
      apply andb_true_iff. split; [apply negb_true_iff, teqb_neq, Hne|exact Hf].
    + right. right. exists w. split; [|apply lsuccs_In, Hy]. apply filter_In. split; [exact Hw|].
      apply andb_true_iff. split; [apply negb_true_iff, teqb_neq, Hne|exact Hf].
Qed.

Lemma mwithin_gwithin : forall f ns l k a, mwithin f ns l k a = gwithin (mstep_succs f ns l) k a.
Proof.
  intros f ns l k a. induction k as [|k IH]; cbn [mwithin gwithin]; [reflexivity|].
  rewrite IH. reflexivity.
Qed.

Lemma path_transfer : forall (R R' : text -> text -> Prop) (N : list text),
  (forall x y, In x N -> R x y -> R' x y /\ In y N) ->
  forall k a b, In a N -> path R k a b -> path R' k a b.
Proof.
  intros R R' N H k a b Ha Hp. induction Hp as [a|k a b c Hab Hp IH]; [apply path0|].
  destruct (H a b Ha Hab) as [Hab' Hb]. apply (pathS R' k a b c Hab'). apply IH, Hb.
Qed.

Lemma mgraph_of_set_same : forall m dk g, mgraph_of (set_dom m dk g) dk = g.
Proof. intros m dk g. unfold mgraph_of, set_dom. cbn [r_doms]. rewrite assoc_set_same. reflexivity. Qed.

Lemma mgraph_of_set_other : forall m dk dk' g, dk' <> dk -> mgraph_of (set_dom m dk' g) dk = mgraph_of m dk.
Proof.
  intros m dk dk' g H. unfold mgraph_of, set_dom. cbn [r_doms]. rewrite assoc_set_other by exact H. reflexivity.
Qed.

Section Pattern.
  Variable f : mfun.

  Definition link_agree (g : mgraph) (l : links) : Prop :=
    forall a b, In (mk_edge a b KLink) (m_edges g) <-> In (a, b) l.
  Definition grefines (g : mgraph) (ns : list text) (l : links) : Prop :=
    m_nodes g = ns /\ ginv f g /\ mcomplete f g /\ link_agree g l.

  (* ---- one add on one graph ---- *)
  Lemma add_graph_nodes : forall g a b, m_nodes (add_graph f g a b) = add_new [a; b] (m_nodes g).
  Proof.
    intros g a b. unfold add_graph. rewrite add_klink_nodes, create_nodes. unfold m_has_node.
    rewrite create_nodes. unfold m_has_node. cbn [add_new].
    destruct (memb teqb a (m_nodes g)); destruct (memb teqb b _); reflexivity.
  Qed.

  Lemma add_graph_links : forall g a b l, link_agree g l -> link_agree (add_graph f g a b) (lset_add l (a, b)).
  Proof.
    intros g a b l H x y. unfold add_graph. rewrite add_klink_edges, !create_link_edges, lset_add_In, (H x y).
    split; intros [E|E]; auto; left.
    - apply mk_edge_inj in E. destruct E as (-> & -> & _). reflexivity.
    - inversion E. reflexivity.
  Qed.

  (* ---- refinement of a state, one domain ---- *)
  Definition srefines (m : mrm) (dk : text) (ns : list text) (l : links) : Prop :=
    sinv f m /\ scomplete f m /\ r_dfn m = None /\
    m_nodes (mgraph_of m dk) = ns /\ link_agree (mgraph_of m dk) l.

  Lemma srefines_grefines : forall m dk ns l, srefines m dk ns l -> grefines (mgraph_of m dk) ns l.
  Proof.
    intros m dk ns l (Hi & Hc & _ & Hn & Hl). split; [exact Hn|]. split; [apply ginv_mgraph_of, Hi|].
    split; [apply mcomplete_mgraph_of, Hc|exact Hl].
  Qed.

  Lemma srefines_add : forall m dk ns l a b d, srefines m dk ns l ->
    srefines (m_add_link m a b d) dk
      (if teqb (dom_key d) dk && negb (teqb a b) then add_new [a; b] ns else ns)
      (if teqb (dom_key d) dk && negb (teqb a b) then lset_add l (a, b) else l).
  Proof.
    intros m dk ns l a b d (Hi & Hc & Hd & Hn & Hl).
    split; [apply sinv_add_link, Hi|]. split; [apply scomplete_add_link; [apply Hi|exact Hc]|].
    destruct (teqb a b) eqn:Eab.
    { unfold m_add_link. rewrite Eab, andb_false_r. auto. }
    rewrite (m_add_link_unfold f m a b d (proj1 Hi) Eab). split; [exact Hd|].
    cbn [negb]. rewrite andb_true_r. destruct (teqb (dom_key d) dk) eqn:Ek.
    - apply teqb_eq in Ek. subst dk. rewrite mgraph_of_set_same. split.
      + rewrite add_graph_nodes, Hn. reflexivity.
      + apply add_graph_links, Hl.
    - apply teqb_neq in Ek. rewrite mgraph_of_set_other by exact Ek. split; assumption.
  Qed.

  Lemma srefines_clear : forall m dk ns l, srefines m dk ns l -> srefines (m_clear m) dk [] [].
  Proof.
    intros m dk ns l (Hi & Hc & Hd & Hn & Hl).
    split; [apply sinv_clear, Hi|]. split; [intros k g []|]. split; [exact Hd|].
    split; [reflexivity|]. intros a b. cbn. tauto.
  Qed.

  Lemma pattern_gen : forall adds m dk ns l, adds_only adds = true -> srefines m dk ns l ->
    srefines (fold_left (fun m o => fst (mstep m o)) (map mop_of_i adds) m) dk
             (spec_nodes adds dk ns) (spec_mlinks adds dk l).
  Proof.
    induction adds as [|o adds IH]; intros m dk ns l Ha Hr; cbn [map fold_left spec_nodes spec_mlinks]; [exact Hr|].
    destruct o as [a b d|a b d| |rf df]; cbn [adds_only] in Ha; try discriminate;
      cbn [mop_of_i mstep fst].
    - apply IH; [exact Ha|]. apply srefines_add, Hr.
    - apply IH; [exact Ha|]. apply (srefines_clear m dk ns l Hr).
  Qed.

  Lemma srefines_init : forall dk, srefines (m_set_fns empty_mrm (Some f) None) dk [] [].
  Proof.
    intros dk. split; [apply sinv_init|]. split; [apply scomplete_init|]. split; [reflexivity|].
    split; [reflexivity|]. intros a b. cbn. tauto.
  Qed.

  Theorem pattern_refines : forall adds dk, adds_only adds = true ->
    srefines (mrun (MSetFns (Some f) None :: map mop_of_i adds)) dk
             (spec_nodes adds dk []) (spec_mlinks adds dk []).
  Proof.
    intros adds dk Ha. rewrite mrun_setfns_cons. apply pattern_gen; [exact Ha|apply srefines_init].
  Qed.

  (* ---- consequences of grefines ---- *)
  Section OneGraph.
    Variable g : mgraph.
    Variable ns : list text.
    Variable l : links.
    Hypothesis Hg : grefines g ns l.

    Lemma gr_match_iff : forall x y,
      In (mk_edge x y KMatch) (m_edges g) <-> In x ns /\ In y ns /\ x <> y /\ f y x = true.
    Proof.
      destruct Hg as (Hn & [_ He] & Hc & _). intros x y. split.
      - intros H. destruct (He _ H) as (H1 & H2 & H3 & H4). cbn [mk_edge e_src e_dst e_kind] in *.
        rewrite Hn in H2, H3. repeat split; auto.
      - intros (Hx & Hy & Hxy & Hf). apply Hc; rewrite ?Hn; assumption.
    Qed.

    Lemma gr_link_ends : forall x y, In (x, y) l -> In x ns /\ In y ns /\ x <> y.
    Proof.
      destruct Hg as (Hn & [_ He] & _ & Hl). intros x y H. apply Hl in H.
      destruct (He _ H) as (H1 & H2 & H3 & _). cbn [mk_edge e_src e_dst] in *.
      rewrite Hn in H2, H3. auto.
    Qed.

    Theorem gr_succs_spec : forall x, In x ns ->
      forall y, In y (m_succs true g x) <-> In y (mstep_succs f ns l x).
    Proof.
      intros x Hx y. rewrite m_succs_true_In, mstep_succs_In.
      pose proof Hg as (_ & _ & _ & Hl).
      split; intros [H|[[z [H1 H2]]|[w [H1 H2]]]].
      - left. apply Hl, H.
      - right. left. exists z. apply Hl in H1. apply gr_match_iff in H2.
        destruct H2 as (Hz & Hy & Hzy & Hf). repeat split; auto.
      - right. right. exists w. apply gr_match_iff in H1. apply Hl in H2.
        destruct H1 as (Hw & _ & Hwx & Hf). repeat split; auto.
      - left. apply Hl, H.
      - right. left. exists z. destruct H2 as (Hy & Hyz & Hf). split; [apply Hl, H1|].
        apply gr_match_iff. destruct (gr_link_ends x z H1) as (_ & Hz & _). repeat split; auto.
      - right. right. exists w. destruct H2 as (Hwx & Hf & Hwy). split; [|apply Hl, Hwy].
        apply gr_match_iff. repeat split; auto.
    Qed.

    Lemma gr_spec_closed : forall x y, In x ns -> In y (mstep_succs f ns l x) -> In y ns.
    Proof.
      intros x y _ H. apply mstep_succs_In in H.
      destruct H as [H|[[z (H1 & H2 & _)]|[w (_ & _ & _ & H)]]].
      - apply (gr_link_ends x y H).
      - exact H2.
      - apply (gr_link_ends w y H).
    Qed.

    Lemma gr_graph_closed : forall x y, In x ns -> In y (m_succs true g x) -> In y ns.
    Proof.
      intros x y Hx H. apply (gr_spec_closed x y Hx). apply (gr_succs_spec x Hx y), H.
    Qed.

    Lemma gr_path_to_spec : forall k a b, In a ns ->
      path (gR (m_succs true g)) k a b -> path (gR (mstep_succs f ns l)) k a b.
    Proof.
      apply path_transfer. intros x y Hx Hxy. unfold gR in *. split.
      - apply (gr_succs_spec x Hx y), Hxy.
      - apply (gr_graph_closed x y Hx Hxy).
    Qed.

    Lemma gr_path_of_spec : forall k a b, In a ns ->
      path (gR (mstep_succs f ns l)) k a b -> path (gR (m_succs true g)) k a b.
    Proof.
      apply path_transfer. intros x y Hx Hxy. unfold gR in *. split.
      - apply (gr_succs_spec x Hx y), Hxy.
      - apply (gr_spec_closed x y Hx Hxy).
    Qed.

    Lemma spec_start_In : forall a s, spec_start f ns a = Some s -> In s ns.
    Proof.
      intros a s H. unfold spec_start in H. destruct (memb teqb a ns) eqn:E.
      - inversion H; subst. apply memb_In, E.
      - apply find_some in H. apply H.
    Qed.

    Lemma has_link_in_unfold : forall maxd m a b, r_rfn m = Some f ->
      m_has_link_in maxd m g a b =
      match spec_start f ns a with
      | None => false
      | Some s => existsb (fun w => teqb w b || f w b)
                          (gbfs_visit (S (length ns)) (m_succs true g) maxd [s] [s] 0 1)
      end.
    Proof.
      intros maxd m a b Hf. destruct Hg as (Hn & _).
      unfold m_has_link_in, start_node, spec_start, m_has_node, m_bfs_from.
      rewrite Hf, Hn. cbn [ap_fn is_some_fn].
      destruct (memb teqb a ns); [rewrite m_bfs_visit_gbfs; reflexivity|].
      destruct (find (fun w => teqb w a || f a w) ns); [rewrite m_bfs_visit_gbfs; reflexivity|reflexivity].
    Qed.

    Lemma mreach_within_exists : forall k s b,
      mreach_within f ns l k s b = true <->
      exists w, In w (gwithin (mstep_succs f ns l) k s) /\ (teqb w b || f w b) = true.
    Proof.
      intros k s b. unfold mreach_within. rewrite mwithin_gwithin. apply existsb_exists.
    Qed.

    Theorem gr_in_sound : forall maxd m a b, r_rfn m = Some f ->
      m_has_link_in maxd m g a b = true ->
      exists s k, spec_start f ns a = Some s /\ mreach_within f ns l k s b = true.
    Proof.
      intros maxd m a b Hf H. rewrite (has_link_in_unfold maxd m a b Hf) in H.
      destruct (spec_start f ns a) as [s|] eqn:Hs; [|discriminate].
      apply existsb_exists in H. destruct H as [w [Hw Hc]].
      apply gbfs_from_sound in Hw.
      assert (Hp : exists k, path (gR (m_succs true g)) k s w).
      { destruct Hw as [<-|Hw]; [exists 0; apply path0|].
        apply clos_path in Hw. destruct Hw as [k Hk]. exists (S k). exact Hk. }
      destruct Hp as [k Hp]. exists s, k. split; [reflexivity|].
      apply mreach_within_exists. exists w. split; [|exact Hc].
      apply gwithin_spec. exists k. split; [lia|].
      apply gr_path_to_spec; [apply (spec_start_In a s Hs)|exact Hp].
    Qed.

    Theorem gr_in_complete : forall maxd m a b s k, r_rfn m = Some f ->
      spec_start f ns a = Some s -> mreach_within f ns l k s b = true -> k < maxd ->
      m_has_link_in maxd m g a b = true.
    Proof.
      intros maxd m a b s k Hf Hs Hr Hk. rewrite (has_link_in_unfold maxd m a b Hf), Hs.
      apply mreach_within_exists in Hr. destruct Hr as [w [Hw Hc]].
      apply existsb_exists. exists w. split; [|exact Hc].
      apply gwithin_spec in Hw. destruct Hw as [j [Hj Hp]].
      pose proof (spec_start_In a s Hs) as Hin.
      apply (gbfs_from_complete (m_succs true g) ns gr_graph_closed maxd s j w Hin); [lia|].
      apply gr_path_of_spec; assumption.
    Qed.

    Lemma gr_saturate : forall k s b, In s ns ->
      mreach_within f ns l k s b = true -> mreach_within f ns l (length ns) s b = true.
    Proof.
      intros k s b Hs H. apply mreach_within_exists in H. destruct H as [w [Hw Hc]].
      apply mreach_within_exists. exists w. split; [|exact Hc].
      apply (gwithin_saturate (mstep_succs f ns l) ns gr_spec_closed s k w Hs Hw).
    Qed.
  End OneGraph.

  (* ---- has_link on a refined state ---- *)
  Lemma m_has_link_dfn_None : forall maxd m a b d, r_dfn m = None ->
    m_has_link maxd m a b d =
    if teqb a b then true
    else match assoc (dom_key d) (r_doms m) with
         | Some _ => m_has_link_in maxd m (mgraph_of m (dom_key d)) a b
         | None => false
         end.
  Proof.
    intros maxd m a b d Hd. unfold m_has_link, matched_domains. rewrite Hd.
    destruct (teqb a b); [reflexivity|].
    destruct (assoc (dom_key d) (r_doms m)); cbn [existsb]; [apply orb_false_r|reflexivity].
  Qed.

  Theorem sr_sound : forall maxd m a b d ns l, srefines m (dom_key d) ns l ->
    m_has_link maxd m a b d = true ->
    a = b \/ exists s k, spec_start f ns a = Some s /\ mreach_within f ns l k s b = true.
  Proof.
    intros maxd m a b d ns l Hr H. pose proof (srefines_grefines _ _ _ _ Hr) as Hg.
    destruct Hr as ([Hf _] & _ & Hd & _).
    rewrite (m_has_link_dfn_None maxd m a b d Hd) in H.
    destruct (teqb a b) eqn:E; [left; apply teqb_eq, E|]. right.
    destruct (assoc (dom_key d) (r_doms m)); [|discriminate].
    apply (gr_in_sound _ ns l Hg maxd m a b Hf H).
  Qed.

  Theorem sr_complete : forall maxd m a b d ns l s k, srefines m (dom_key d) ns l ->
    spec_start f ns a = Some s -> mreach_within f ns l k s b = true -> k < maxd ->
    m_has_link maxd m a b d = true.
  Proof.
    intros maxd m a b d ns l s k Hr Hs Hk Hlt. pose proof (srefines_grefines _ _ _ _ Hr) as Hg.
    destruct Hr as ([Hf _] & _ & Hd & Hn & _).
    rewrite (m_has_link_dfn_None maxd m a b d Hd).
    destruct (teqb a b); [reflexivity|].
    destruct (assoc (dom_key d) (r_doms m)) as [g0|] eqn:E.
    - apply (gr_in_complete _ ns l Hg maxd m a b s k Hf Hs Hk Hlt).
    - exfalso. unfold mgraph_of in Hn. rewrite E in Hn. cbn [empty_mgraph m_nodes] in Hn. subst ns.
      unfold spec_start in Hs. cbn in Hs. discriminate.
  Qed.
End Pattern.

(* ---- the C theorems on pattern histories (arbitrary role function f) ---- *)
Definition pat_run (f : mfun) (adds : list mop_i) : mrm :=
  mrun (MSetFns (Some f) None :: map mop_of_i adds).

Lemma mrun_i_pattern : forall rf adds,
  fst (mrun_i (ISetFns (Some rf) None :: adds)) = pat_run (mf_apply rf) adds.
Proof. reflexivity. Qed.

Theorem graph_refines : forall f adds d, adds_only adds = true ->
  let g := mgraph_of (pat_run f adds) (dom_key d) in
  let ns := spec_nodes adds (dom_key d) [] in
  let l := spec_mlinks adds (dom_key d) [] in
  m_nodes g = ns /\
  (forall a b, In (mk_edge a b KLink) (m_edges g) <-> In (a, b) l) /\
  (forall x y, In (mk_edge x y KMatch) (m_edges g) <-> In x ns /\ In y ns /\ x <> y /\ f y x = true).
Proof.
  intros f adds d Ha g ns l.
  pose proof (srefines_grefines f _ _ _ _ (pattern_refines f adds (dom_key d) Ha)) as Hg.
  fold (pat_run f adds) in Hg. fold g ns l in Hg.
  split; [apply Hg|]. split; [apply Hg|]. apply (gr_match_iff f g ns l Hg).
Qed.

Theorem succs_spec : forall f adds d x, adds_only adds = true ->
  let g := mgraph_of (pat_run f adds) (dom_key d) in
  let ns := spec_nodes adds (dom_key d) [] in
  let l := spec_mlinks adds (dom_key d) [] in
  In x (m_nodes g) ->
  forall y, In y (m_succs true g x) <-> In y (mstep_succs f ns l x).
Proof.
  intros f adds d x Ha g ns l Hx.
  pose proof (srefines_grefines f _ _ _ _ (pattern_refines f adds (dom_key d) Ha)) as Hg.
  fold (pat_run f adds) in Hg. fold g ns l in Hg.
  apply (gr_succs_spec f g ns l Hg). destruct Hg as [Hn _]. rewrite <- Hn. exact Hx.
Qed.

Theorem pattern_sound : forall f adds maxd a b d, adds_only adds = true ->
  m_has_link maxd (pat_run f adds) a b d = true ->
  a = b \/ exists s k,
    spec_start f (spec_nodes adds (dom_key d) []) a = Some s /\
    mreach_within f (spec_nodes adds (dom_key d) []) (spec_mlinks adds (dom_key d) []) k s b = true.
Proof.
  intros f adds maxd a b d Ha H.
  apply (sr_sound f maxd _ a b d _ _ (pattern_refines f adds (dom_key d) Ha) H).
Qed.

Theorem pattern_complete : forall f adds maxd a b d s k, adds_only adds = true ->
  spec_start f (spec_nodes adds (dom_key d) []) a = Some s ->
  mreach_within f (spec_nodes adds (dom_key d) []) (spec_mlinks adds (dom_key d) []) k s b = true ->
  k < maxd ->
  m_has_link maxd (pat_run f adds) a b d = true.
Proof.
  intros f adds maxd a b d s k Ha Hs Hk Hlt.
  apply (sr_complete f maxd _ a b d _ _ s k (pattern_refines f adds (dom_key d) Ha) Hs Hk Hlt).
Qed.

(* reachability at any depth is reachability within `length ns` steps *)
Theorem pattern_saturate : forall f adds dk k s b, adds_only adds = true ->
  In s (spec_nodes adds dk []) ->
  mreach_within f (spec_nodes adds dk []) (spec_mlinks adds dk []) k s b = true ->
  mreach_within f (spec_nodes adds dk []) (spec_mlinks adds dk [])
                (length (spec_nodes adds dk [])) s b = true.
Proof.
  intros f adds dk k s b Ha Hs H.
  pose proof (srefines_grefines f _ _ _ _ (pattern_refines f adds dk Ha)) as Hg.
  apply (gr_saturate f _ _ _ Hg k s b Hs H).
Qed.

(* ---- the executable predicate ---- *)
Lemma pattern_history_inv : forall h rf adds, pattern_history h = Some (rf, adds) ->
  h = ISetFns (Some rf) None :: adds /\ adds_only adds = true.
Proof.
  intros h rf adds H. unfold pattern_history in H.
  destruct h as [|[a b d|a b d| |[rf'|] [df|]] r]; try discriminate.
  destruct (adds_only r) eqn:E; [|discriminate]. inversion H; subst. split; [reflexivity|exact E].
Qed.

Theorem pred_model : forall maxd h q,
  c03m_pred maxd h q (manswer maxd (fst (mrun_i h)) q) <> Some false.
Proof.
  intros maxd h q. unfold c03m_pred.
  destruct (pattern_history h) as [[rf adds]|] eqn:Hp; [|discriminate].
  apply pattern_history_inv in Hp. destruct Hp as [-> Ha].
  rewrite mrun_i_pattern. destruct q as [a b d|n d|n d]; cbn [manswer]; try discriminate.
  set (f := mf_apply rf). set (ns := spec_nodes adds (dom_key d) []).
  set (l := spec_mlinks adds (dom_key d) []).
  destruct (teqb a b) eqn:E.
  { unfold m_has_link. rewrite E. discriminate. }
  destruct (spec_start f ns a) as [s|] eqn:Hs.
  - destruct (Nat.ltb 0 maxd && mreach_within f ns l (maxd - 1) s b) eqn:E1.
    + apply andb_true_iff in E1. destruct E1 as [Hmax E1]. apply Nat.ltb_lt in Hmax.
      rewrite (pattern_complete f adds maxd a b d s (maxd - 1) Ha Hs E1) by lia. discriminate.
    + destruct (mreach_within f ns l (length ns) s b) eqn:E2; [discriminate|].
      destruct (m_has_link maxd (pat_run f adds) a b d) eqn:E3; [|discriminate].
      exfalso. apply (pattern_sound f adds maxd a b d Ha) in E3.
      destruct E3 as [E3|[s' [k [Hs' Hk]]]].
      * apply teqb_neq in E. contradiction.
      * fold ns in Hs'. fold ns l in Hk. rewrite Hs in Hs'. inversion Hs'; subst s'.
        assert (Hin : In s ns).
        { unfold spec_start in Hs. destruct (memb teqb a ns) eqn:Em.
          - inversion Hs; subst. apply memb_In, Em.
          - apply find_some in Hs. apply Hs. }
        pose proof (pattern_saturate f adds (dom_key d) k s b Ha Hin Hk) as Hsat.
        fold ns l in Hsat. rewrite Hsat in E2. discriminate.
  - destruct (m_has_link maxd (pat_run f adds) a b d) eqn:E3; [|discriminate].
    exfalso. apply (pattern_sound f adds maxd a b d Ha) in E3.
    destruct E3 as [E3|[s' [k [Hs' _]]]].
    + apply teqb_neq in E. contradiction.
    + fold ns in Hs'. rewrite Hs in Hs'. discriminate.
Qed.

(* with a hierarchy limit of 0 the BFS yields nothing; the predicate then only
   demands soundness (the `0 <? maxd` guard).  Without the guard the witness
   below was rejected although model and code agree on it. *)
Definition ex_maxd0_history : list mop_i :=
  [ISetFns (Some FKeyMatch) None; IAdd (T "*") (T "g") None].
Example ex_maxd0_pred :
  manswer 0 (fst (mrun_i ex_maxd0_history)) (QHas (T "alice") (T "*") None) = ABool false /\
  c03m_pred 0 ex_maxd0_history (QHas (T "alice") (T "*") None) (ABool false) = Some true /\
  mreach_within key_match (spec_nodes (tl ex_maxd0_history) DEFAULT_DOMAIN [])
                (spec_mlinks (tl ex_maxd0_history) DEFAULT_DOMAIN []) (0 - 1) (T "*") (T "*") = true.
Proof. vm_compute. repeat split; reflexivity. Qed.

(* ---- D. domain patterns ---- *)
Theorem domain_fn_union : forall maxd m a b d df, r_dfn m = Some df ->
  (m_has_link maxd m a b d = true <->
   a = b \/ exists dk, In dk (map fst (r_doms m)) /\ df (dom_key d) dk = true /\
                       m_has_link_in maxd m (mgraph_of m dk) a b = true).
Proof.
  intros maxd m a b d df Hd. unfold m_has_link, matched_domains. rewrite Hd.
  destruct (teqb a b) eqn:E.
  - apply teqb_eq in E. split; auto.
  - apply teqb_neq in E. rewrite existsb_exists. split.
    + intros [dk [Hin H]]. right. apply filter_In in Hin. exists dk. tauto.
    + intros [H|[dk (H1 & H2 & H3)]]; [contradiction|]. exists dk. split; [|exact H3].
      apply filter_In. split; assumption.
Qed.

Theorem domain_fn_union_bool : forall maxd m a b d df, r_dfn m = Some df ->
  m_has_link maxd m a b d =
  teqb a b || existsb (fun dk => df (dom_key d) dk && m_has_link_in maxd m (mgraph_of m dk) a b)
                      (map fst (r_doms m)).
Proof.
  intros maxd m a b d df Hd. unfold m_has_link, matched_domains. rewrite Hd.
  destruct (teqb a b); cbn [orb]; [reflexivity|].
  induction (map fst (r_doms m)) as [|k ks IH]; cbn [filter existsb]; [reflexivity|].
  destruct (df (dom_key d) k); cbn [existsb andb orb]; rewrite IH; reflexivity.
Qed.

Theorem domain_none_single : forall maxd m a b d, r_dfn m = None ->
  (m_has_link maxd m a b d = true <->
   a = b \/ (In (dom_key d) (map fst (r_doms m)) /\
             m_has_link_in maxd m (mgraph_of m (dom_key d)) a b = true)).
Proof.
  intros maxd m a b d Hd. unfold m_has_link, matched_domains. rewrite Hd.
  destruct (teqb a b) eqn:E.
  - apply teqb_eq in E. split; auto.
  - apply teqb_neq in E. destruct (assoc (dom_key d) (r_doms m)) as [g|] eqn:Ea; cbn [existsb].
    + rewrite orb_false_r. split.
      * intros H. right. split; [|exact H]. apply assoc_In in Ea. apply (in_map fst) in Ea. exact Ea.
      * intros [H|[_ H]]; [contradiction|exact H].
    + split; [discriminate|]. intros [H|[H _]]; [contradiction|].
      apply assoc_None in Ea. contradiction.
Qed.

Lemma m_has_link_in_rfn : forall maxd m1 m2 g a b, r_rfn m1 = r_rfn m2 ->
  m_has_link_in maxd m1 g a b = m_has_link_in maxd m2 g a b.
Proof.
  intros maxd m1 m2 g a b H. unfold m_has_link_in, start_node. rewrite H. reflexivity.
Qed.

Lemma existsb_ext_in : forall {A} (p q : A -> bool) l,
  (forall x, In x l -> p x = q x) -> existsb p l = existsb q l.
Proof.
  intros A p q l. induction l as [|x l IH]; intros H; cbn [existsb]; [reflexivity|].
  rewrite (H x) by (left; reflexivity). rewrite IH; [reflexivity|].
  intros y Hy. apply H. right. exact Hy.
Qed.

Lemma flat_map_ext_in : forall {A B} (p q : A -> list B) l,
  (forall x, In x l -> p x = q x) -> flat_map p l = flat_map q l.
Proof.
  intros A B p q l. induction l as [|x l IH]; intros H; cbn [flat_map]; [reflexivity|].
  rewrite (H x) by (left; reflexivity). rewrite IH; [reflexivity|].
  intros y Hy. apply H. right. exact Hy.
Qed.

Lemma set_dom_local : forall maxd m dk' g a b n d, r_dfn m = None -> dk' <> dom_key d ->
  m_has_link maxd (set_dom m dk' g) a b d = m_has_link maxd m a b d /\
  m_get_roles (set_dom m dk' g) n d = m_get_roles m n d /\
  m_get_users (set_dom m dk' g) n d = m_get_users m n d.
Proof.
  intros maxd m dk' g a b n d Hd Hne.
  assert (Hmd : matched_domains (set_dom m dk' g) d = matched_domains m d).
  { unfold matched_domains. cbn [set_dom r_dfn r_doms]. rewrite Hd.
    rewrite assoc_set_other by exact Hne. reflexivity. }
  assert (Hmd2 : forall dk, In dk (matched_domains m d) -> dk = dom_key d).
  { intros dk. unfold matched_domains. rewrite Hd.
    destruct (assoc (dom_key d) (r_doms m)); [intros [H|[]]; auto|intros []]. }
  assert (Hg : forall dk, In dk (matched_domains m d) ->
                          mgraph_of (set_dom m dk' g) dk = mgraph_of m dk).
  { intros dk Hin. rewrite (Hmd2 dk Hin). apply mgraph_of_set_other, Hne. }
  split; [|split].
  - unfold m_has_link. rewrite Hmd. destruct (teqb a b); [reflexivity|].
    apply existsb_ext_in. intros k Hk. rewrite (Hg k Hk).
    apply m_has_link_in_rfn. reflexivity.
  - unfold m_get_roles. rewrite Hmd. apply flat_map_ext_in. intros k Hk.
    rewrite (Hg k Hk). reflexivity.
  - unfold m_get_users. rewrite Hmd. apply flat_map_ext_in. intros k Hk.
    rewrite (Hg k Hk). reflexivity.
Qed.

Theorem domain_local_m : forall maxd m o a b n d, r_dfn m = None ->
  (match o with MAdd _ _ d' | MDel _ _ d' => dom_key d' <> dom_key d | _ => False end) ->
  m_has_link maxd (fst (mstep m o)) a b d = m_has_link maxd m a b d /\
  m_get_roles (fst (mstep m o)) n d = m_get_roles m n d /\
  m_get_users (fst (mstep m o)) n d = m_get_users m n d.
Proof.
  intros maxd m [x y d'|x y d'| |rf df] a b n d Hd Hne; cbn [mstep fst];
    [| |destruct Hne|destruct Hne].
  - unfold m_add_link. destruct (teqb x y); [auto|]. apply set_dom_local; assumption.
  - unfold m_delete_link. destruct (teqb x y); [auto|].
    destruct (negb (domain_has_role m x d') || negb (domain_has_role m y d')); cbn [fst]; [auto|].
    apply set_dom_local; assumption.
Qed.

(* ---- non-vacuity: the two key_match unit tests of the Rust code ---- *)
Definition ex_km1 : list mop_i :=
  [ IAdd (T "bob") (T "book_group") None; IAdd (T "*") (T "book_group") None;
    IAdd (T "*") (T "pen_group") None; IAdd (T "eve") (T "pen_group") None ].
Definition ex_km2 : list mop_i :=
  [ IAdd (T "alice") (T "book_group") None; IAdd (T "alice") (T "*") None;
    IAdd (T "bob") (T "pen_group") None ].

Example ex_km1_adds : adds_only ex_km1 = true /\ adds_only ex_km2 = true.
Proof. split; reflexivity. Qed.
Example ex_km1_alice_book :
  m_has_link 10 (pat_run key_match ex_km1) (T "alice") (T "book_group") None = true.
Proof. vm_compute. reflexivity. Qed.
Example ex_km1_eve_book :
  m_has_link 10 (pat_run key_match ex_km1) (T "eve") (T "book_group") None = true.
Proof. vm_compute. reflexivity. Qed.
Example ex_km1_alice_roles :
  seteqb teqb (m_get_roles (pat_run key_match ex_km1) (T "alice") None)
         [T "book_group"; T "pen_group"] = true.
Proof. vm_compute. reflexivity. Qed.
Example ex_km2_alice_pen :
  m_has_link 10 (pat_run key_match ex_km2) (T "alice") (T "pen_group") None = true.
Proof. vm_compute. reflexivity. Qed.
Example ex_km2_bob_book :
  m_has_link 10 (pat_run key_match ex_km2) (T "bob") (T "book_group") None = false.
Proof. vm_compute. reflexivity. Qed.
Example ex_km2_star_users :
  m_get_users (pat_run key_match ex_km2) (T "*") None = [T "alice"].
Proof. vm_compute. reflexivity. Qed.
(* the hypotheses of pattern_complete / pattern_sound on the first test *)
Example ex_km1_spec :
  spec_start key_match (spec_nodes ex_km1 DEFAULT_DOMAIN []) (T "alice") = Some (T "*") /\
  mreach_within key_match (spec_nodes ex_km1 DEFAULT_DOMAIN []) (spec_mlinks ex_km1 DEFAULT_DOMAIN [])
                1 (T "*") (T "book_group") = true.
Proof. vm_compute. split; reflexivity. Qed.
Example ex_km1_pred :
  c03m_pred 10 (ISetFns (Some FKeyMatch) None :: ex_km1) (QHas (T "eve") (T "book_group") None)
            (ABool true) = Some true /\
  c03m_pred 10 (ISetFns (Some FKeyMatch) None :: ex_km1) (QHas (T "eve") (T "book_group") None)
            (ABool false) = Some false.
Proof. vm_compute. split; reflexivity. Qed.

(* ---- the same on identifier histories (SpecC03M.mrun_i) ---- *)
Theorem pattern_sound_i : forall rf adds maxd a b d, adds_only adds = true ->
  m_has_link maxd (fst (mrun_i (ISetFns (Some rf) None :: adds))) a b d = true ->
  a = b \/ exists s k,
    spec_start (mf_apply rf) (spec_nodes adds (dom_key d) []) a = Some s /\
    mreach_within (mf_apply rf) (spec_nodes adds (dom_key d) []) (spec_mlinks adds (dom_key d) []) k s b = true.
Proof. intros rf adds. rewrite mrun_i_pattern. apply pattern_sound. Qed.

Theorem pattern_complete_i : forall rf adds maxd a b d s k, adds_only adds = true ->
  spec_start (mf_apply rf) (spec_nodes adds (dom_key d) []) a = Some s ->
  mreach_within (mf_apply rf) (spec_nodes adds (dom_key d) []) (spec_mlinks adds (dom_key d) []) k s b = true ->
  k < maxd ->
  m_has_link maxd (fst (mrun_i (ISetFns (Some rf) None :: adds))) a b d = true.
Proof. intros rf adds. rewrite mrun_i_pattern. apply pattern_complete. Qed.

(* ---- examples for D ---- *)
Definition ex_dom_state : mrm :=
  mrun [MSetFns None (Some key_match); MAdd (T "u") (T "r") (Some (T "*"));
        MAdd (T "r") (T "admin") (Some (T "d1"))].
Example ex_dom_fn :
  r_dfn ex_dom_state = Some key_match /\
  m_has_link 10 ex_dom_state (T "u") (T "r") (Some (T "d1")) = true /\
  m_has_link 10 ex_dom_state (T "r") (T "admin") (Some (T "d1")) = true /\
  m_has_link 10 ex_dom_state (T "r") (T "admin") (Some (T "d2")) = false /\
  m_has_link 10 ex_dom_state (T "u") (T "r") (Some (T "d2")) = true.
Proof. vm_compute. repeat split; reflexivity. Qed.
Example ex_dom_local :
  r_dfn (pat_run key_match ex_km1) = None /\
  dom_key (Some (T "other")) <> dom_key None /\
  m_has_link 10 (fst (mstep (pat_run key_match ex_km1) (MAdd (T "alice") (T "root") (Some (T "other")))))
             (T "alice") (T "root") None = false /\
  m_has_link 10 (fst (mstep (pat_run key_match ex_km1) (MAdd (T "alice") (T "root") (Some (T "other")))))
             (T "alice") (T "root") (Some (T "other")) = true.
Proof. vm_compute. repeat split; try reflexivity. discriminate. Qed.

(* ---- one more add_link never loses a pattern-reachable pair (spec level) ---- *)
Lemma spec_nodes_app : forall h1 h2 dk acc,
  spec_nodes (h1 ++ h2) dk acc = spec_nodes h2 dk (spec_nodes h1 dk acc).
Proof.
  induction h1 as [|o h1 IH]; intros h2 dk acc; cbn [app spec_nodes]; [reflexivity|].
  destruct o as [a b d|a b d| |rf df]; apply IH.
Qed.

Lemma spec_mlinks_app : forall h1 h2 dk acc,
  spec_mlinks (h1 ++ h2) dk acc = spec_mlinks h2 dk (spec_mlinks h1 dk acc).
Proof.
  induction h1 as [|o h1 IH]; intros h2 dk acc; cbn [app spec_mlinks]; [reflexivity|].
  destruct o as [a b d|a b d| |rf df]; apply IH.
Qed.

Lemma adds_only_app : forall h1 h2, adds_only h1 = true -> adds_only h2 = true -> adds_only (h1 ++ h2) = true.
Proof.
  induction h1 as [|o h1 IH]; intros h2 H1 H2; cbn [app]; [exact H2|].
  destruct o as [a b d|a b d| |rf df]; cbn [adds_only] in *; try discriminate; apply IH; assumption.
Qed.

Lemma add_new_prefix : forall xs acc, exists ext, add_new xs acc = acc ++ ext.
Proof.
  induction xs as [|x xs IH]; intros acc; cbn [add_new].
  - exists []. rewrite app_nil_r. reflexivity.
  - destruct (memb teqb x acc); [apply IH|].
    destruct (IH (acc ++ [x])) as [ext Hext]. exists ([x] ++ ext). rewrite Hext, app_assoc. reflexivity.
Qed.

Lemma find_app_some : forall {A} (p : A -> bool) l e s, find p l = Some s -> find p (l ++ e) = Some s.
Proof.
  intros A p l e s. induction l as [|x l IH]; cbn [find app]; [discriminate|].
  destruct (p x); [auto|exact IH].
Qed.

Lemma spec_start_mono : forall f ns ext a s,
  spec_start f ns a = Some s -> In a ns \/ ~ In a (ns ++ ext) ->
  spec_start f (ns ++ ext) a = Some s.
Proof.
  intros f ns ext a s Hs Hc. unfold spec_start in *. destruct (memb teqb a ns) eqn:E.
  - apply memb_In in E. assert (E' : memb teqb a (ns ++ ext) = true).
    { apply memb_In, in_or_app. left. exact E. }
    rewrite E'. exact Hs.
  - destruct Hc as [Hc|Hc]; [apply memb_In in Hc; rewrite Hc in E; discriminate|].
    apply memb_not_In in Hc. rewrite Hc. apply find_app_some, Hs.
Qed.

Lemma mstep_succs_mono : forall f ns l ns' l' x y, incl ns ns' -> incl l l' ->
  In y (mstep_succs f ns l x) -> In y (mstep_succs f ns' l' x).
Proof.
  intros f ns l ns' l' x y Hn Hl H. apply mstep_succs_In in H. apply mstep_succs_In.
  destruct H as [H|[[z (H1 & H2 & H3 & H4)]|[w (H1 & H2 & H3 & H4)]]].
  - left. apply Hl, H.
  - right. left. exists z. repeat split; auto.
  - right. right. exists w. repeat split; auto.
Qed.

Lemma gwithin_mono : forall sf sf' : text -> list text, (forall x y, In y (sf x) -> In y (sf' x)) ->
  forall k a w, In w (gwithin sf k a) -> In w (gwithin sf' k a).
Proof.
  intros sf sf' H. induction k as [|k IH]; intros a w Hw; cbn [gwithin] in *; [exact Hw|].
  apply add_new_In in Hw. apply add_new_In. destruct Hw as [Hw|Hw]; [|right; apply IH, Hw].
  left. apply in_flat_map in Hw. destruct Hw as [c [Hc Hw]]. apply in_flat_map.
  exists c. split; [apply IH, Hc|apply H, Hw].
Qed.

Lemma mreach_within_mono : forall f ns l ns' l' k s b, incl ns ns' -> incl l l' ->
  mreach_within f ns l k s b = true -> mreach_within f ns' l' k s b = true.
Proof.
  intros f ns l ns' l' k s b Hn Hl H. unfold mreach_within in *. rewrite mwithin_gwithin in *.
  apply existsb_exists in H. destruct H as [w [Hw Hc]]. apply existsb_exists. exists w.
  split; [|exact Hc]. apply (gwithin_mono (mstep_succs f ns l)); [|exact Hw].
  intros x y. apply mstep_succs_mono; assumption.
Qed.

Lemma spec_after_add : forall adds x y d' dk,
  exists ext,
    spec_nodes (adds ++ [IAdd x y d']) dk [] = spec_nodes adds dk [] ++ ext /\
    incl (spec_mlinks adds dk []) (spec_mlinks (adds ++ [IAdd x y d']) dk []).
Proof.
  intros adds x y d' dk. rewrite spec_nodes_app, spec_mlinks_app. cbn [spec_nodes spec_mlinks].
  destruct (teqb (dom_key d') dk && negb (teqb x y)).
  - destruct (add_new_prefix [x; y] (spec_nodes adds dk [])) as [ext Hext]. exists ext.
    split; [exact Hext|]. intros p Hp. apply lset_add_In. right. exact Hp.
  - exists []. split; [rewrite app_nil_r; reflexivity|apply incl_refl].
Qed.

(* spec level: provided the start node does not switch from a pattern node to
   the freshly created exact node, the start is unchanged and every
   pattern-reachable role stays reachable within the same number of steps *)
Theorem add_link_monotone : forall f adds x y d' dk a s k b,
  let ns := spec_nodes adds dk [] in
  let l := spec_mlinks adds dk [] in
  let ns' := spec_nodes (adds ++ [IAdd x y d']) dk [] in
  let l' := spec_mlinks (adds ++ [IAdd x y d']) dk [] in
  spec_start f ns a = Some s -> In a ns \/ ~ In a ns' ->
  spec_start f ns' a = Some s /\
  (mreach_within f ns l k s b = true -> mreach_within f ns' l' k s b = true).
Proof.
  intros f adds x y d' dk a s k b ns l ns' l' Hs Hc.
  destruct (spec_after_add adds x y d' dk) as [ext [Hn Hl]].
  fold ns ns' in Hn. fold l l' in Hl. split.
  - rewrite Hn. apply spec_start_mono; [exact Hs|]. rewrite <- Hn. exact Hc.
  - apply mreach_within_mono; [|exact Hl]. rewrite Hn. apply incl_appl, incl_refl.
Qed.

(* model level: a pair pattern-reachable in k < maxd steps is still reported
   after one more add_link (same proviso on the start node) *)
Theorem add_link_monotone_has : forall f adds x y d' maxd a b d s k, adds_only adds = true ->
  spec_start f (spec_nodes adds (dom_key d) []) a = Some s ->
  In a (spec_nodes adds (dom_key d) []) \/
  ~ In a (spec_nodes (adds ++ [IAdd x y d']) (dom_key d) []) ->
  mreach_within f (spec_nodes adds (dom_key d) []) (spec_mlinks adds (dom_key d) []) k s b = true ->
  k < maxd ->
  m_has_link maxd (pat_run f adds) a b d = true /\
  m_has_link maxd (pat_run f (adds ++ [IAdd x y d'])) a b d = true.
Proof.
  intros f adds x y d' maxd a b d s k Ha Hs Hc Hr Hk. split.
  - apply (pattern_complete f adds maxd a b d s k Ha Hs Hr Hk).
  - destruct (add_link_monotone f adds x y d' (dom_key d) a s k b Hs Hc) as [Hs' Hr'].
    apply (pattern_complete f (adds ++ [IAdd x y d']) maxd a b d s k); [|exact Hs'|apply Hr', Hr|exact Hk].
    apply adds_only_app; [exact Ha|reflexivity].
Qed.

(* the proviso is needed: when the added link CREATES node a, the walk starts
   at a instead of the pattern node s that a matched; for a non-transitive f
   (f a s, f s b, not f a b) the answer flips from true to false *)
Definition ex_nt_f : mfun := fun u v =>
  (teqb u (T "a") && teqb v (T "s")) || (teqb u (T "s") && teqb v (T "b")).
Definition ex_nt_adds : list mop_i := [IAdd (T "s") (T "q") None].
Theorem add_link_start_change_refuted :
  exists f adds x y d' maxd a b d,
    adds_only adds = true /\
    m_has_link maxd (pat_run f adds) a b d = true /\
    m_has_link maxd (pat_run f (adds ++ [IAdd x y d'])) a b d = false /\
    (exists s, spec_start f (spec_nodes adds (dom_key d) []) a = Some s /\
       mreach_within f (spec_nodes adds (dom_key d) []) (spec_mlinks adds (dom_key d) []) 0 s b = true) /\
    (exists s', spec_start f (spec_nodes (adds ++ [IAdd x y d']) (dom_key d) []) a = Some s' /\
       mreach_within f (spec_nodes (adds ++ [IAdd x y d']) (dom_key d) [])
                     (spec_mlinks (adds ++ [IAdd x y d']) (dom_key d) []) 10 s' b = false).
Proof.
  exists ex_nt_f, ex_nt_adds, (T "a"), (T "z"), None, 10, (T "a"), (T "b"), None.
  split; [reflexivity|]. split; [vm_compute; reflexivity|]. split; [vm_compute; reflexivity|].
  split; [exists (T "s"); vm_compute; split; reflexivity|].
  exists (T "a"). vm_compute. split; reflexivity.
Qed.

Example ex_add_link_monotone_sat :
  adds_only ex_km1 = true /\
  spec_start key_match (spec_nodes ex_km1 DEFAULT_DOMAIN []) (T "alice") = Some (T "*") /\
  memb teqb (T "alice") (spec_nodes (ex_km1 ++ [IAdd (T "eve") (T "root") None]) DEFAULT_DOMAIN []) = false /\
  mreach_within key_match (spec_nodes ex_km1 DEFAULT_DOMAIN []) (spec_mlinks ex_km1 DEFAULT_DOMAIN [])
                1 (T "*") (T "book_group") = true /\
  m_has_link 10 (pat_run key_match (ex_km1 ++ [IAdd (T "eve") (T "root") None]))
             (T "alice") (T "book_group") None = true.
Proof. vm_compute. repeat split; reflexivity. Qed.
