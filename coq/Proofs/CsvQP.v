(* C16 part A / C09 text clause, extended: QUOTED values keep their inner text
   verbatim, edge white space included. The round-trip theorems of CsvP.v are
   redone with a per-column side condition (col_ok): a value with leading or
   trailing white space reads back unchanged exactly when its column is written
   in double quotes - which csv_field does for every value containing a comma. *)
From CV Require Import Model.Base Model.Enforce Model.Engine Model.Csv Model.SpecC16.
From CV Require Import Proofs.BaseP Proofs.CsvP.
From Coq Require Import Lia.

(* ------------------------------------------------------------------ *)
(* (1) the classes                                                      *)
(* ------------------------------------------------------------------ *)
(* safeP of CsvP.v without the "no edge white space" clause *)
Record safeQ (v : text) : Prop := {
  sq_ne : v <> [];
  sq_noq : ~ In dquote v;
  sq_nonl : ~ In nl v;
  sq_nocr : ~ In cr v }.

Lemma csv_safe_q_safeQ : forall v, csv_safe_q v = true <-> safeQ v.
Proof.
  intros v. unfold csv_safe_q. destruct v as [|c v].
  - split; [discriminate|]. intros [H _ _ _]. contradiction.
  - fold (has_c dquote (c :: v)) (has_c nl (c :: v)) (has_c (ascii_of_nat 13) (c :: v)).
    rewrite !andb_true_iff. rewrite !(negb_true_iff (has_c _ _)). rewrite !has_c_false.
    fold cr. split.
    + intros [[H1 H2] H3]. constructor; [discriminate|assumption..].
    + intros [_ H1 H2 H3]. tauto.
Qed.
Lemma safeP_safeQ : forall v, safeP v -> safeQ v.
Proof. intros v [H1 _ H2 H3 H4]. constructor; assumption. Qed.
Lemma safeP_split : forall v, safeP v <-> safeQ v /\ tightP v.
Proof.
  intros v. split.
  - intros H. split; [apply safeP_safeQ, H|apply (sp_tight _ H)].
  - intros [[H1 H2 H3 H4] Ht]. constructor; assumption.
Qed.
Lemma csv_safe_split : forall v, csv_safe v = csv_safe_q v && tight v.
Proof.
  intros v. destruct (csv_safe v) eqn:E1; symmetry.
  - apply csv_safe_safeP, safeP_split in E1. destruct E1 as [Hq Ht].
    apply csv_safe_q_safeQ in Hq. apply tight_tightP in Ht. rewrite Hq, Ht. reflexivity.
  - destruct (csv_safe_q v && tight v) eqn:E2; [|reflexivity].
    apply andb_true_iff in E2. destruct E2 as [Hq Ht].
    apply csv_safe_q_safeQ in Hq. apply tight_tightP in Ht.
    assert (H : csv_safe v = true) by (apply csv_safe_safeP, safeP_split; split; assumption).
    rewrite H in E1. discriminate.
Qed.

(* a column that reads back: the value may have edge white space only when
   the column is written quoted *)
Definition okQ (f : colfmt) (v : text) : Prop :=
  safeQ v /\ (tightP v \/ (cf_quote f || has_c comma v) = true).
Definition col_okQ (fv : colfmt * text) : Prop :=
  colfmt_wsok (fst fv) = true /\ okQ (fst fv) (snd fv).

Lemma safeP_okQ : forall f v, safeP v -> okQ f v.
Proof. intros f v H. apply safeP_split in H. destruct H as [Hq Ht]. split; [exact Hq|left; exact Ht]. Qed.
Lemma col_okP_okQ : forall fv, col_okP fv -> col_okQ fv.
Proof. intros fv [Hf Hv]. split; [exact Hf|apply safeP_okQ, Hv]. Qed.

Lemma col_ok_okQ : forall f v, col_ok f v = true <-> colfmt_ok f = true /\ okQ f v.
Proof.
  intros f v. unfold col_ok, has_comma. fold (has_c comma v).
  rewrite andb_true_iff, orb_true_iff, andb_true_iff, csv_safe_safeP, csv_safe_q_safeQ.
  unfold okQ. rewrite safeP_split. tauto.
Qed.
Lemma col_ok_col_okQ : forall f v, col_ok f v = true -> col_okQ (f, v).
Proof.
  intros f v H. apply col_ok_okQ in H. destruct H as [Hf Hv].
  split; [apply colfmt_ok_wsok, Hf|exact Hv].
Qed.

Lemma csv_safe_r_cases : forall v,
  csv_safe_r v = true <-> safeQ v /\ (tightP v \/ has_c comma v = true).
Proof.
  intros v. unfold csv_safe_r, has_comma. fold (has_c comma v).
  rewrite orb_true_iff, andb_true_iff, csv_safe_safeP, csv_safe_q_safeQ, safeP_split. tauto.
Qed.
(* csv_safe_r is col_ok for the formats the adapters use (never quoting a
   comma-free value) *)
Lemma csv_safe_r_okQ : forall f v, csv_safe_r v = true -> okQ f v.
Proof.
  intros f v H. apply csv_safe_r_cases in H. destruct H as [Hq [Ht|Hc]].
  - split; [exact Hq|left; exact Ht].
  - split; [exact Hq|right]. rewrite Hc. apply orb_true_r.
Qed.
Lemma csv_safe_r_col_ok : forall f v, colfmt_ok f = true -> cf_quote f = false ->
  col_ok f v = csv_safe_r v.
Proof. intros f v Hf Hq. unfold col_ok, csv_safe_r. rewrite Hf, Hq. reflexivity. Qed.

(* the old class is included *)
Lemma class_extends : forall v, csv_safe v = true -> csv_safe_r v = true.
Proof. intros v H. unfold csv_safe_r. rewrite H. reflexivity. Qed.
Lemma class_extends_col : forall f v, colfmt_ok f = true -> csv_safe v = true -> col_ok f v = true.
Proof. intros f v Hf Hv. unfold col_ok. rewrite Hf, Hv. reflexivity. Qed.

(* ------------------------------------------------------------------ *)
(* (2) one column                                                       *)
(* ------------------------------------------------------------------ *)
Lemma col_body_tightQ : forall f v, okQ f v -> tightP (col_body f v).
Proof.
  intros f v [Hq Hd]. unfold col_body. destruct (cf_quote f || has_c comma v) eqn:E.
  - split; [exact dquote_nonws|]. cbn [rev]. rewrite rev_app_distr. exact dquote_nonws.
  - destruct Hd as [Ht|Hd]; [exact Ht|discriminate].
Qed.

(* the scanner takes exactly the rendered column. In the quoted branch the
   span is  pre ++ '"' :: v ++ '"' :: post : v has no quote, so the body scan
   stops at the closing quote whatever blanks v contains *)
Lemma esc_c_match_colQ : forall f v rest,
  colfmt_wsok f = true -> okQ f v -> starts_with comma rest ->
  esc_c_match (render_col f v ++ rest) = (render_col f v, rest).
Proof.
  intros f v rest Hf [Hv Hd] Hrest.
  destruct (cf_quote f || has_c comma v) eqn:Eq.
  - (* quoted *)
    unfold colfmt_wsok in Hf. apply andb_true_iff in Hf.
    destruct Hf as [Hpre Hpost]. rewrite render_col_body. unfold col_body. rewrite Eq.
    unfold esc_c_match. rewrite <- !app_assoc. cbn [app]. rewrite <- !app_assoc. cbn [app].
    rewrite span_ws_app by (try exact Hpre; exact dquote_nonws).
    rewrite Ascii.eqb_refl.
    rewrite span_not_app by (try (apply sq_noq, Hv); reflexivity).
    rewrite span_ws_app by (try exact Hpost; apply starts_comma_nonws, Hrest).
    reflexivity.
  - (* bare: the value is tight *)
    destruct Hd as [Ht|Hd]; [|discriminate].
    apply esc_c_match_col; [exact Hf|apply safeP_split; split; assumption|exact Hrest].
Qed.

(* column_of trims only outside: the trimmed span starts and ends with the
   quote (a non-blank), and the inner text is returned as it is *)
Lemma column_of_bodyQ : forall f v, okQ f v -> column_of (col_body f v) = v.
Proof.
  intros f v Hv. unfold column_of. rewrite tightP_trim by (apply col_body_tightQ, Hv).
  destruct Hv as [Hv Hd]. unfold col_body. destruct (cf_quote f || has_c comma v).
  - rewrite Ascii.eqb_refl. rewrite rev_app_distr. cbn [rev app]. rewrite Ascii.eqb_refl.
    apply rev_involutive.
  - destruct v as [|c v']; [reflexivity|].
    assert (Hq : Ascii.eqb c dquote = false).
    { apply aeqb_false. intros E. apply (sq_noq _ Hv). left. exact E. }
    rewrite Hq. reflexivity.
Qed.
Lemma column_of_colQ : forall f v, colfmt_wsok f = true -> okQ f v -> column_of (render_col f v) = v.
Proof.
  intros f v Hf Hv. unfold colfmt_wsok in Hf. apply andb_true_iff in Hf. destruct Hf as [H1 H2].
  rewrite render_col_body. rewrite column_of_pad by assumption. apply column_of_bodyQ, Hv.
Qed.

Theorem column_scan_q : forall f v rest,
  col_ok f v = true -> (rest = [] \/ exists r, rest = comma :: r) ->
  esc_c_match (render_col f v ++ rest) = (render_col f v, rest) /\
  column_of (render_col f v) = v.
Proof.
  intros f v rest H Hrest. apply col_ok_col_okQ in H. destruct H as [Hf Hv]. cbn [fst snd] in Hf, Hv.
  split.
  - apply esc_c_match_colQ; [exact Hf|exact Hv|].
    destruct Hrest as [->|[r ->]]; [exact I|reflexivity].
  - apply column_of_colQ; assumption.
Qed.

(* ------------------------------------------------------------------ *)
(* (3) rows                                                             *)
(* ------------------------------------------------------------------ *)
Lemma okQ_ne : forall f v, okQ f v -> v <> [].
Proof. intros f v [H _]. apply (sq_ne _ H). Qed.

Lemma scan_row_tailQ : forall cs fuel, Forall col_okQ cs -> 2 * length cs < fuel ->
  scan_cols fuel (row_tail cs) true = map snd cs.
Proof.
  induction cs as [|[f v] cs IH]; intros fuel Hok Hfuel.
  - destruct fuel as [|fuel]; [lia|]. reflexivity.
  - inversion Hok as [|x xs [Hf Hv] Hok']; subst. cbn [fst snd] in Hf, Hv.
    destruct fuel as [|[|fuel]]; [cbn [length] in Hfuel; lia..|].
    cbn [length] in Hfuel. cbn [row_tail map snd].
    assert (E1 : esc_c_match (comma :: colw (f, v) ++ row_tail cs)
                 = ([], comma :: colw (f, v) ++ row_tail cs)).
    { unfold esc_c_match. cbn [span_ws]. rewrite comma_nonws.
      change (Ascii.eqb comma dquote) with false. cbv iota.
      cbn [span_not]. rewrite Ascii.eqb_refl. reflexivity. }
    cbn [scan_cols]. rewrite E1.
    unfold colw at 1. cbn [fst snd].
    rewrite esc_c_match_colQ by (try assumption; apply row_tail_starts).
    destruct (render_col f v) as [|c0 r0] eqn:Erc.
    { exfalso. revert Erc. apply render_col_ne, (okQ_ne _ _ Hv). }
    rewrite <- Erc. rewrite column_of_colQ by assumption.
    rewrite IH by (try assumption; lia). reflexivity.
Qed.

Lemma scan_rowQ : forall f v cs fuel, col_okQ (f, v) -> Forall col_okQ cs ->
  2 * length cs + 1 < fuel ->
  scan_cols fuel (render_col f v ++ row_tail cs) false = v :: map snd cs.
Proof.
  intros f v cs fuel [Hf Hv] Hok Hfuel. cbn [fst snd] in Hf, Hv.
  destruct fuel as [|fuel]; [lia|]. cbn [scan_cols].
  rewrite esc_c_match_colQ by (try assumption; apply row_tail_starts).
  destruct (render_col f v) as [|c0 r0] eqn:Erc.
  { exfalso. revert Erc. apply render_col_ne, (okQ_ne _ _ Hv). }
  rewrite <- Erc. rewrite column_of_colQ by assumption.
  rewrite scan_row_tailQ by (try assumption; lia). reflexivity.
Qed.

Lemma row_tail_lengthQ : forall cs, Forall col_okQ cs -> 2 * length cs <= length (row_tail cs).
Proof.
  induction cs as [|[f v] cs IH]; intros Hok; cbn [length row_tail]; [lia|].
  inversion Hok as [|x xs [Hf Hv] Hok']; subst. cbn [fst snd] in Hf, Hv.
  rewrite app_length. unfold colw. cbn [fst snd].
  assert (1 <= length (render_col f v)).
  { destruct (render_col f v) eqn:E; [exfalso; revert E; apply render_col_ne, (okQ_ne _ _ Hv)|cbn; lia]. }
  specialize (IH Hok'). lia.
Qed.

(* okQ depends on the format through cf_quote only *)
Lemma okQ_quote_eq : forall f g v, cf_quote g = cf_quote f -> okQ f v -> okQ g v.
Proof. intros f g v E [H1 H2]. split; [exact H1|]. rewrite E. exact H2. Qed.

(* the trimmed row is again a row: the first column loses its leading blanks
   and the last one its trailing blanks (those OUTSIDE the quotes) *)
Lemma trim_rowQ : forall f v cs, col_okQ (f, v) -> Forall col_okQ cs ->
  exists f' cs', trim (render_col f v ++ row_tail cs) = render_col f' v ++ row_tail cs' /\
                 col_okQ (f', v) /\ Forall col_okQ cs' /\ map snd cs' = map snd cs /\
                 cf_pre f' = [] /\ cf_quote f' = cf_quote f.
Proof.
  intros f v cs [Hf Hv] Hok. cbn [fst snd] in Hf, Hv.
  pose proof Hf as Hf'. unfold colfmt_wsok in Hf'. apply andb_true_iff in Hf'.
  destruct Hf' as [Hpre Hpost].
  destruct (rev cs) as [|[fn vn] rcs] eqn:Ercs.
  - (* single column *)
    assert (cs = []) by (apply (f_equal (@rev _)) in Ercs; rewrite rev_involutive in Ercs; exact Ercs).
    subst cs. exists {| cf_pre := []; cf_post := []; cf_quote := cf_quote f |}, [].
    cbn [row_tail]. rewrite !app_nil_r. rewrite (render_col_body f v).
    rewrite trim_padP by (try assumption; apply col_body_tightQ, Hv).
    split; [|split; [|split; [|split; [|split]]]]; try reflexivity.
    + rewrite render_col_body. cbn [cf_pre cf_post]. rewrite app_nil_r. reflexivity.
    + split; [reflexivity|]. cbn [fst snd]. revert Hv. apply okQ_quote_eq. reflexivity.
    + constructor.
  - (* several columns: cs = cs0 ++ [(fn, vn)] *)
    assert (Ecs : cs = rev rcs ++ [(fn, vn)]).
    { apply (f_equal (@rev _)) in Ercs. rewrite rev_involutive in Ercs. exact Ercs. }
    subst cs. apply Forall_app in Hok. destruct Hok as [Hok0 Hokn].
    inversion Hokn as [|x xs [Hfn Hvn] _]; subst. cbn [fst snd] in Hfn, Hvn.
    pose proof Hfn as Hfn'. unfold colfmt_wsok in Hfn'. apply andb_true_iff in Hfn'.
    destruct Hfn' as [Hpren Hpostn].
    set (f1 := {| cf_pre := []; cf_post := cf_post f; cf_quote := cf_quote f |}).
    set (fl := {| cf_pre := cf_pre fn; cf_post := []; cf_quote := cf_quote fn |}).
    assert (Hv1 : okQ f1 v) by (revert Hv; apply okQ_quote_eq; reflexivity).
    assert (Hvl : okQ fl vn) by (revert Hvn; apply okQ_quote_eq; reflexivity).
    exists f1, (rev rcs ++ [(fl, vn)]).
    assert (Emid : render_col f v ++ row_tail (rev rcs ++ [(fn, vn)]) =
                   cf_pre f ++ (render_col f1 v ++ row_tail (rev rcs ++ [(fl, vn)])) ++ cf_post fn).
    { rewrite !row_tail_app. cbn [row_tail]. unfold colw. cbn [fst snd].
      rewrite !render_col_body. unfold f1, fl. cbn [cf_pre cf_post]. unfold col_body. cbn [cf_quote].
      rewrite !app_nil_r. cbn [app]. rewrite <- !app_assoc. cbn [app]. rewrite <- !app_assoc.
      reflexivity. }
    split; [|split; [|split; [|split; [|split]]]].
    + rewrite Emid. apply trim_padP; [exact Hpre|exact Hpostn|]. split.
      * rewrite render_col_body. unfold f1 at 1. cbn [cf_pre app]. rewrite <- app_assoc.
        apply starts_nonws_app; [apply col_body_ne, (okQ_ne _ _ Hv)|apply (col_body_tightQ f1 v Hv1)].
      * rewrite row_tail_app. cbn [row_tail]. unfold colw. cbn [fst snd].
        rewrite (render_col_body fl vn). unfold fl at 2 3. cbn [cf_pre cf_post].
        rewrite !app_nil_r. rewrite !rev_app_distr. cbn [rev]. rewrite !rev_app_distr.
        rewrite <- !app_assoc.
        apply starts_nonws_app.
        -- intros E. apply (f_equal (@rev _)) in E. rewrite rev_involutive in E.
           revert E. apply col_body_ne, (okQ_ne _ _ Hvn).
        -- apply (col_body_tightQ fl vn Hvl).
    + split; [|exact Hv1]. unfold colfmt_wsok, f1. cbn [fst cf_pre cf_post]. exact Hpost.
    + apply Forall_app. split; [exact Hok0|]. constructor; [|constructor].
      split; [|exact Hvl]. unfold colfmt_wsok, fl. cbn [fst cf_pre cf_post].
      rewrite Hpren. reflexivity.
    + rewrite !map_app. reflexivity.
    + reflexivity.
    + reflexivity.
Qed.

(* the core statement on zipped (format, value) columns *)
Lemma parse_row_colsQ : forall f pt cs, colfmt_wsok f = true -> ptypeP pt -> Forall col_okQ cs ->
  parse_csv_line (render_col f pt ++ row_tail cs) = Some (pt :: map snd cs).
Proof.
  intros f pt cs Hf [Hpt [Hnc Hnh]] Hok.
  assert (Hq : okQ f pt) by (apply safeP_okQ, Hpt).
  destruct (trim_rowQ f pt cs) as [f' [cs' [Et [[Hf' Hq'] [Hok' [Emap [Hpre' _]]]]]]];
    [split; assumption|exact Hok|]. cbn [fst snd] in Hf', Hq'.
  unfold parse_csv_line. rewrite Et.
  assert (Hlen : 2 * length cs' + 1 <= length (render_col f' pt ++ row_tail cs')).
  { rewrite app_length. pose proof (row_tail_lengthQ cs' Hok').
    assert (1 <= length (render_col f' pt)).
    { destruct (render_col f' pt) eqn:E; [exfalso; revert E; apply render_col_ne, (sp_ne _ Hpt)|cbn; lia]. }
    lia. }
  rewrite scan_rowQ by (try assumption; try (split; assumption); lia).
  rewrite Emap.
  (* the first byte is not '#' *)
  rewrite render_col_body, Hpre'. cbn [app]. unfold col_body.
  destruct (cf_quote f' || has_c comma pt).
  - cbn [app]. change (Ascii.eqb dquote hash) with false. reflexivity.
  - destruct pt as [|c r]; [exfalso; apply (sp_ne _ Hpt); reflexivity|].
    cbn [app]. assert (E : Ascii.eqb c hash = false).
    { apply aeqb_false. intros E. subst c. apply (Hnh r). reflexivity. }
    rewrite E. reflexivity.
Qed.

Lemma forallb_combine_okQ : forall fs vs,
  forallb (fun fv => col_ok (fst fv) (snd fv)) (combine fs vs) = true ->
  Forall col_okQ (combine fs vs).
Proof.
  intros fs vs H. apply Forall_forall. rewrite forallb_forall in H.
  intros [f v] Hin. apply col_ok_col_okQ. apply (H _ Hin).
Qed.

(* every rendering - blanks around the columns, optional quoting, values with
   a comma always quoted - of a rule whose columns are col_ok parses back to
   the rule; values with edge white space included when written quoted *)
Theorem parse_render_row_q : forall f0 fs pt vs,
  ptype_safe pt = true -> colfmt_ok f0 = true -> length fs = length vs ->
  forallb (fun fv => col_ok (fst fv) (snd fv)) (combine fs vs) = true ->
  parse_csv_line (render_row (f0 :: fs) (pt :: vs)) = Some (pt :: vs).
Proof.
  intros f0 fs pt vs Hpt Hf0 Hlen Hcols.
  rewrite render_row_tail by lia.
  rewrite parse_row_colsQ; [|apply colfmt_ok_wsok, Hf0|apply ptype_safe_P, Hpt|apply forallb_combine_okQ, Hcols].
  rewrite map_snd_combine by lia. reflexivity.
Qed.

(* ---- the adapters' own rendering ---- *)
Lemma forallb_safe_r_okQ : forall f vs, colfmt_wsok f = true -> forallb csv_safe_r vs = true ->
  Forall col_okQ (map (pair f) vs).
Proof.
  intros f vs Hf H. induction vs as [|v vs IH]; cbn [map]; [constructor|].
  cbn [forallb] in H. apply andb_true_iff in H. destruct H as [Hv Hvs].
  constructor; [|apply IH, Hvs]. split; [exact Hf|]. cbn [fst snd]. apply csv_safe_r_okQ, Hv.
Qed.

Theorem parse_render_line_file_q : forall pt vs,
  ptype_safe pt = true -> forallb csv_safe_r vs = true -> vs <> [] ->
  parse_csv_line (render_line_file pt vs) = Some (pt :: vs).
Proof.
  intros pt vs Hpt Hvs Hne. destruct vs as [|v vs]; [contradiction|].
  apply ptype_safe_P in Hpt. pose proof Hpt as [_ [Hnc _]].
  cbn [forallb] in Hvs. apply andb_true_iff in Hvs. destruct Hvs as [Hv Hvs].
  rewrite render_line_file_row by exact Hnc.
  rewrite parse_row_colsQ; [|reflexivity|exact Hpt|].
  - cbn [map snd]. rewrite map_snd_pair. reflexivity.
  - constructor; [split; [reflexivity|apply csv_safe_r_okQ, Hv]|].
    apply forallb_safe_r_okQ; [reflexivity|exact Hvs].
Qed.
Theorem parse_render_line_string_q : forall pt vs,
  ptype_safe pt = true -> forallb csv_safe_r vs = true -> vs <> [] ->
  parse_csv_line (render_line_string pt vs) = Some (pt :: vs).
Proof.
  intros pt vs Hpt Hvs Hne. destruct vs as [|v vs]; [contradiction|].
  apply ptype_safe_P in Hpt. pose proof Hpt as [_ [Hnc _]].
  cbn [forallb] in Hvs. apply andb_true_iff in Hvs. destruct Hvs as [Hv Hvs].
  rewrite render_line_string_row by exact Hnc.
  rewrite parse_row_colsQ; [|reflexivity|exact Hpt|].
  - cbn [map snd]. rewrite map_snd_pair. reflexivity.
  - constructor; [split; [reflexivity|apply csv_safe_r_okQ, Hv]|].
    apply forallb_safe_r_okQ; [reflexivity|exact Hvs].
Qed.

(* ------------------------------------------------------------------ *)
(* (4) files                                                            *)
(* ------------------------------------------------------------------ *)
Lemma col_okQ_nonl : forall f v, col_ok f v = true -> col_nonlP (f, v).
Proof.
  intros f v H. apply col_ok_okQ in H. destruct H as [Hf [Hv _]].
  unfold colfmt_ok in Hf. apply andb_true_iff in Hf. destruct Hf as [G1 G2].
  split; [|split]; cbn [fst snd].
  - apply no_nl_P, blanks_only_no_nl, G1.
  - apply no_nl_P, blanks_only_no_nl, G2.
  - apply (sq_nonl _ Hv).
Qed.

Lemma render_row_nonl_q : forall f0 fs pt vs,
  ptype_safe pt = true -> colfmt_ok f0 = true -> length fs = length vs ->
  forallb (fun fv => col_ok (fst fv) (snd fv)) (combine fs vs) = true ->
  ~ In nl (render_row (f0 :: fs) (pt :: vs)).
Proof.
  intros f0 fs pt vs Hpt Hf0 Hlen Hcols.
  rewrite render_row_tail by lia. rewrite in_app_iff. intros [H|H].
  - revert H. unfold colfmt_ok in Hf0. apply andb_true_iff in Hf0. destruct Hf0 as [G1 G2].
    apply render_col_nonl.
    + apply no_nl_P, blanks_only_no_nl, G1.
    + apply no_nl_P, blanks_only_no_nl, G2.
    + apply ptype_safe_P in Hpt. destruct Hpt as [Hs _]. apply (sp_nonl _ Hs).
  - revert H. apply row_tail_nonl. apply Forall_forall. rewrite forallb_forall in Hcols.
    intros [f v] Hin. apply col_okQ_nonl. apply (Hcols _ Hin).
Qed.

(* one line of a laid-out policy file, with an optional CR before the LF *)
Lemma tokens_of_item_q : forall it crs, fitem_ok_q it = true -> all_ws crs = true ->
  tokens_of (fitem_text it ++ crs) = fitem_rows it.
Proof.
  intros it crs Hok Hcr. unfold tokens_of. rewrite load_line_tokens_eq.
  destruct it as [fs pt vs|ws|pre body]; cbn [fitem_ok_q fitem_text fitem_rows] in *.
  - destruct fs as [|f0 fs]; [discriminate|].
    apply andb_true_iff in Hok. destruct Hok as [Hok Hcols].
    apply andb_true_iff in Hok. destruct Hok as [Hok Hlen].
    apply andb_true_iff in Hok. destruct Hok as [Hpt Hf0].
    apply Nat.eqb_eq in Hlen.
    rewrite parse_csv_line_ws_r by exact Hcr.
    rewrite parse_render_row_q by assumption. reflexivity.
  - apply andb_true_iff in Hok. destruct Hok as [Hws _].
    unfold parse_csv_line. rewrite trim_all_ws; [reflexivity|].
    rewrite all_ws_app, Hws, Hcr. reflexivity.
  - apply andb_true_iff in Hok. destruct Hok as [Hok _].
    apply andb_true_iff in Hok. destruct Hok as [Hpre _].
    unfold parse_csv_line. rewrite <- app_assoc. cbn [app].
    rewrite trim_cons_nonws by (try exact Hpre; reflexivity).
    rewrite Ascii.eqb_refl. reflexivity.
Qed.
Lemma fitem_text_nonl_q : forall it, fitem_ok_q it = true -> ~ In nl (fitem_text it).
Proof.
  intros it Hok. destruct it as [fs pt vs|ws|pre body]; cbn [fitem_ok_q fitem_text] in *.
  - destruct fs as [|f0 fs]; [discriminate|].
    apply andb_true_iff in Hok. destruct Hok as [Hok Hcols].
    apply andb_true_iff in Hok. destruct Hok as [Hok Hlen].
    apply andb_true_iff in Hok. destruct Hok as [Hpt Hf0].
    apply Nat.eqb_eq in Hlen. apply render_row_nonl_q; assumption.
  - apply andb_true_iff in Hok. destruct Hok as [_ H]. apply no_nl_P, H.
  - apply andb_true_iff in Hok. destruct Hok as [Hok H2].
    apply andb_true_iff in Hok. destruct Hok as [_ H1].
    apply no_nl_P in H1. apply no_nl_P in H2. rewrite in_app_iff.
    intros [H|[H|H]]; [auto|discriminate|auto].
Qed.

(* a policy file, whatever its layout, stands for exactly its rows - quoted
   values with edge white space included *)
Theorem parsed_lines_file_q : forall items final,
  forallb (fun ib => fitem_ok_q (fst ib)) items = true ->
  (match final with Some it => fitem_ok_q it | None => true end) = true ->
  parsed_lines (render_file items final) = file_rows items final.
Proof.
  intros items final Hitems Hfinal. unfold render_file, file_rows.
  assert (E : flat_map (fun ib => fitem_text (fst ib) ++ eol (snd ib)) items =
              flat_map (fun ib : fitem * bool =>
                          (fitem_text (fst ib) ++ (if snd ib then [cr] else [])) ++ [nl]) items).
  { apply flat_map_ext. intros [it b]. cbn [fst snd]. destruct b; cbn [eol].
    - rewrite <- app_assoc. reflexivity.
    - rewrite app_nil_r. reflexivity. }
  rewrite E.
  rewrite (parsed_lines_flat (fun ib : fitem * bool => fitem_text (fst ib) ++ (if snd ib then [cr] else []))
                             (fun ib => fitem_rows (fst ib))).
  - f_equal. destruct final as [it|].
    + rewrite parsed_lines_last by (apply fitem_text_nonl_q, Hfinal).
      rewrite <- (app_nil_r (fitem_text it)). apply tokens_of_item_q; [exact Hfinal|reflexivity].
    + reflexivity.
  - intros [it b] Hin. rewrite forallb_forall in Hitems. specialize (Hitems _ Hin). cbn [fst snd] in *.
    split.
    + rewrite in_app_iff. intros [H|H]; [revert H; apply fitem_text_nonl_q, Hitems|].
      destruct b; [destruct H as [H|[]]; discriminate|destruct H].
    + apply tokens_of_item_q; [exact Hitems|]. destruct b; reflexivity.
Qed.

(* the old item class is included *)
Lemma forallb_combine_class : forall fs vs,
  forallb colfmt_ok fs = true -> forallb csv_safe vs = true ->
  forallb (fun fv => col_ok (fst fv) (snd fv)) (combine fs vs) = true.
Proof.
  induction fs as [|f fs IH]; intros vs Hf Hv; [reflexivity|].
  destruct vs as [|v vs]; [reflexivity|]. cbn [combine forallb fst snd] in *.
  apply andb_true_iff in Hf. destruct Hf as [Hf Hfs].
  apply andb_true_iff in Hv. destruct Hv as [Hv Hvs].
  rewrite class_extends_col by assumption. apply IH; assumption.
Qed.
Lemma fitem_class_extends : forall it, fitem_ok it = true -> fitem_ok_q it = true.
Proof.
  intros it H. destruct it as [fs pt vs|ws|pre body]; cbn [fitem_ok fitem_ok_q] in *; [|exact H..].
  apply andb_true_iff in H. destruct H as [H Hlen].
  apply andb_true_iff in H. destruct H as [H Hfs].
  apply andb_true_iff in H. destruct H as [Hpt Hvs].
  destruct fs as [|f0 fs]; [discriminate|].
  cbn [forallb] in Hfs. apply andb_true_iff in Hfs. destruct Hfs as [Hf0 Hfs].
  cbn [length] in Hlen. rewrite Hpt, Hf0. change (Nat.eqb (S (length fs)) (S (length vs))) with
    (Nat.eqb (length fs) (length vs)) in Hlen. rewrite Hlen.
  rewrite forallb_combine_class by assumption. reflexivity.
Qed.

(* ---- connection with Engine.v: the text an adapter writes ---- *)
Definition line_okQ (l : rule) : Prop :=
  exists pt vs, l = pt :: vs /\ ptype_safe pt = true /\ forallb csv_safe_r vs = true /\ vs <> [].

Lemma amap_lines_okQ : forall am, amap_text_safe_r am = true ->
  Forall line_okQ (flat_map (fun ka : text * assertion => map (fun r => fst ka :: r) (a_policy (snd ka))) am).
Proof.
  intros am H. unfold amap_text_safe_r in H. rewrite forallb_forall in H.
  apply Forall_forall. intros l Hl. apply in_flat_map in Hl. destruct Hl as [ka [Hka Hl]].
  apply in_map_iff in Hl. destruct Hl as [r [Hr Hin]]. subst l.
  specialize (H _ Hka). apply andb_true_iff in H. destruct H as [Hpt Hrs].
  rewrite forallb_forall in Hrs. specialize (Hrs _ Hin). unfold rule_text_safe_r in Hrs.
  apply andb_true_iff in Hrs. destruct Hrs as [Hne Hsafe].
  exists (fst ka), r. split; [reflexivity|]. split; [exact Hpt|]. split; [exact Hsafe|].
  intros E. subst r. discriminate.
Qed.
Lemma text_lines_okQ : forall md, model_text_safe_r md = true -> Forall line_okQ (text_lines md).
Proof.
  intros md H. unfold model_text_safe_r in H. apply andb_true_iff in H. destruct H as [Hp Hg].
  unfold text_lines. apply Forall_app. split.
  - destruct (assoc s_p md); [apply amap_lines_okQ, Hp|constructor].
  - destruct (assoc s_g md); [apply amap_lines_okQ, Hg|constructor].
Qed.

Lemma map_pair_nonl : forall f vs, ~ In nl (cf_pre f) -> ~ In nl (cf_post f) ->
  forallb csv_safe_r vs = true -> Forall col_nonlP (map (pair f) vs).
Proof.
  intros f vs H1 H2 H. induction vs as [|v vs IH]; cbn [map]; [constructor|].
  cbn [forallb] in H. apply andb_true_iff in H. destruct H as [Hv Hvs].
  constructor; [|apply IH, Hvs]. split; [exact H1|split; [exact H2|]]. cbn [snd].
  apply csv_safe_r_cases in Hv. destruct Hv as [Hq _]. apply (sq_nonl _ Hq).
Qed.

Lemma render_line_file_nonl_q : forall pt vs, ptype_safe pt = true -> forallb csv_safe_r vs = true ->
  vs <> [] -> ~ In nl (render_line_file pt vs).
Proof.
  intros pt vs Hpt Hvs Hne. destruct vs as [|v vs]; [contradiction|].
  apply ptype_safe_P in Hpt. destruct Hpt as [Hs [Hnc _]].
  rewrite render_line_file_row by exact Hnc. rewrite in_app_iff. intros [H|H].
  - revert H. apply render_col_nonl; [intros []|intros []|apply (sp_nonl _ Hs)].
  - revert H. apply row_tail_nonl.
    change ((f_sp, v) :: map (pair f_plain) vs) with (map (pair f_sp) [v] ++ map (pair f_plain) vs).
    cbn [forallb] in Hvs. apply andb_true_iff in Hvs. destruct Hvs as [Hv Hvs].
    apply Forall_app. split.
    + apply map_pair_nonl; [cbn; intros [H|[]]; discriminate|intros []|].
      cbn [forallb]. rewrite Hv. reflexivity.
    + apply map_pair_nonl; [intros []|intros []|exact Hvs].
Qed.
Lemma render_line_string_nonl_q : forall pt vs, ptype_safe pt = true -> forallb csv_safe_r vs = true ->
  vs <> [] -> ~ In nl (render_line_string pt vs).
Proof.
  intros pt vs Hpt Hvs Hne. destruct vs as [|v vs]; [contradiction|].
  apply ptype_safe_P in Hpt. destruct Hpt as [Hs [Hnc _]].
  rewrite render_line_string_row by exact Hnc. rewrite in_app_iff. intros [H|H].
  - revert H. apply render_col_nonl; [intros []|intros []|apply (sp_nonl _ Hs)].
  - revert H. apply row_tail_nonl.
    change ((f_sp, v) :: map (pair f_sp) vs) with (map (pair f_sp) (v :: vs)).
    apply map_pair_nonl; [cbn; intros [H|[]]; discriminate|intros []|exact Hvs].
Qed.

Lemma parsed_lines_rendered_q : forall (g : rule -> text) ls,
  (forall pt vs, ptype_safe pt = true -> forallb csv_safe_r vs = true -> vs <> [] ->
     ~ In nl (g (pt :: vs)) /\ parse_csv_line (g (pt :: vs)) = Some (pt :: vs)) ->
  Forall line_okQ ls ->
  parsed_lines (flat_map (fun l => g l ++ [nl]) ls) = ls.
Proof.
  intros g ls Hg Hls.
  rewrite <- (app_nil_r (flat_map _ ls)).
  rewrite (parsed_lines_flat g (fun l => [l])).
  - change (parsed_lines []) with (@nil (list text)). rewrite app_nil_r.
    clear. induction ls as [|l ls IH]; cbn [flat_map app]; [reflexivity|]. rewrite IH. reflexivity.
  - intros l Hl. rewrite Forall_forall in Hls. destruct (Hls _ Hl) as [pt [vs [E [H1 [H2 H3]]]]].
    subst l. destruct (Hg pt vs H1 H2 H3) as [G1 G2]. split; [exact G1|].
    unfold tokens_of. rewrite load_line_tokens_eq, G2. reflexivity.
Qed.

(* C09 text clause, wider class: loading the text the file (string) adapter
   saves yields exactly the lines of the store, in order *)
Theorem save_file_parsed_q : forall md, model_text_safe_r md = true ->
  parsed_lines (save_text_file md) = text_lines md.
Proof.
  intros md H. unfold save_text_file.
  apply (parsed_lines_rendered_q (fun l => render_line_file (hd [] l) (tl l))).
  - intros pt vs H1 H2 H3. cbn [hd tl]. split.
    + apply render_line_file_nonl_q; assumption.
    + apply parse_render_line_file_q; assumption.
  - apply text_lines_okQ, H.
Qed.
Theorem save_string_parsed_q : forall md, model_text_safe_r md = true ->
  parsed_lines (save_text_string md) = text_lines md.
Proof.
  intros md H. unfold save_text_string.
  apply (parsed_lines_rendered_q (fun l => render_line_string (hd [] l) (tl l))).
  - intros pt vs H1 H2 H3. cbn [hd tl]. split.
    + apply render_line_string_nonl_q; assumption.
    + apply parse_render_line_string_q; assumption.
  - apply text_lines_okQ, H.
Qed.

(* the old store class is included *)
Lemma rule_class_extends : forall r, rule_text_safe r = true -> rule_text_safe_r r = true.
Proof.
  intros r H. unfold rule_text_safe in H. unfold rule_text_safe_r.
  apply andb_true_iff in H. destruct H as [H1 H2]. rewrite H1. cbn [andb].
  revert H2. apply forallb_impl. exact class_extends.
Qed.
Lemma amap_class_extends : forall am, amap_text_safe am = true -> amap_text_safe_r am = true.
Proof.
  intros am. unfold amap_text_safe, amap_text_safe_r. apply forallb_impl.
  intros ka H. apply andb_true_iff in H. destruct H as [H1 H2]. rewrite H1. cbn [andb].
  revert H2. apply forallb_impl. exact rule_class_extends.
Qed.
Lemma model_class_extends : forall md, model_text_safe md = true -> model_text_safe_r md = true.
Proof.
  intros md H. unfold model_text_safe in H. unfold model_text_safe_r.
  apply andb_true_iff in H. destruct H as [Hp Hg].
  destruct (assoc s_p md) as [a|]; [rewrite (amap_class_extends _ Hp)|];
    (destruct (assoc s_g md) as [b|]; [rewrite (amap_class_extends _ Hg)|]); reflexivity.
Qed.

(* ------------------------------------------------------------------ *)
(* (5) non-vacuity, and what the theorems protect                       *)
(* ------------------------------------------------------------------ *)
(* values in the new class and not in the old one *)
Lemma ex_q_values :
  csv_safe_r (T "x, ") = true /\ csv_safe (T "x, ") = false /\
  csv_safe_r (T " ,y ") = true /\ csv_safe (T " ,y ") = false.
Proof. vm_compute. auto. Qed.
Lemma ex_q_text : render_line_file (T "p") [T "x, "; T " ,y "; T "z"] = T "p, ""x, "","" ,y "",z".
Proof. vm_compute. reflexivity. Qed.
Lemma ex_q_roundtrip_file :
  parse_csv_line (render_line_file (T "p") [T "x, "; T " ,y "; T "z"]) = Some [T "p"; T "x, "; T " ,y "; T "z"].
Proof. vm_compute. reflexivity. Qed.
Lemma ex_q_roundtrip_string :
  parse_csv_line (render_line_string (T "p") [T "x, "; T " ,y "; T "z"]) = Some [T "p"; T "x, "; T " ,y "; T "z"].
Proof. vm_compute. reflexivity. Qed.
Lemma ex_q_line_hyps :
  ptype_safe (T "p") = true /\ forallb csv_safe_r [T "x, "; T " ,y "; T "z"] = true.
Proof. vm_compute. auto. Qed.

(* a column written quoted with blanks inside and outside the quotes *)
Definition ex_q_fmt : colfmt := {| cf_pre := T " "; cf_post := [ascii_of_nat 9]; cf_quote := true |}.
Lemma ex_q_col_ok : col_ok ex_q_fmt (T "  a b ") = true /\ csv_safe (T "  a b ") = false /\
  has_comma (T "  a b ") = false.
Proof. vm_compute. auto. Qed.
Lemma ex_q_col_text : render_col ex_q_fmt (T "  a b ") = T " ""  a b """ ++ [ascii_of_nat 9].
Proof. vm_compute. reflexivity. Qed.
Lemma ex_q_col_scan :
  esc_c_match (render_col ex_q_fmt (T "  a b ") ++ T ",next") = (render_col ex_q_fmt (T "  a b "), T ",next") /\
  column_of (render_col ex_q_fmt (T "  a b ")) = T "  a b ".
Proof. vm_compute. auto. Qed.

(* a laid-out row and file with such columns *)
Definition ex_q_fs : list colfmt :=
  [ ex_q_fmt; {| cf_pre := []; cf_post := T "  "; cf_quote := false |}; f_sp ].
Definition ex_q_vs : list text := [T "  a b "; T " x, y "; T "c d"].
Lemma ex_q_row_hyps :
  ptype_safe (T "p2") = true /\ colfmt_ok f_sp = true /\ length ex_q_fs = length ex_q_vs /\
  forallb (fun fv => col_ok (fst fv) (snd fv)) (combine ex_q_fs ex_q_vs) = true /\
  forallb csv_safe ex_q_vs = false.
Proof. vm_compute. auto. Qed.
Lemma ex_q_row :
  parse_csv_line (render_row (f_sp :: ex_q_fs) (T "p2" :: ex_q_vs)) = Some (T "p2" :: ex_q_vs).
Proof. vm_compute. reflexivity. Qed.

Definition ex_q_items : list (fitem * bool) :=
  [ (FComment [] (T " policy"), false);
    (FRow (f_sp :: ex_q_fs) (T "p2") ex_q_vs, true);
    (FBlank (T "  "), false);
    (FRow [f_plain; f_sp; f_plain] (T "g") [T "alice"; T "admin, "], false) ].
Definition ex_q_final : option fitem := Some (FRow [f_plain; ex_q_fmt] (T "p") [T " last "]).
Lemma ex_q_file_ok :
  forallb (fun ib => fitem_ok_q (fst ib)) ex_q_items = true /\
  (match ex_q_final with Some it => fitem_ok_q it | None => true end) = true /\
  forallb (fun ib => fitem_ok (fst ib)) ex_q_items = false.
Proof. vm_compute. auto. Qed.
Lemma ex_q_file_rows :
  parsed_lines (render_file ex_q_items ex_q_final)
  = [T "p2" :: ex_q_vs; [T "g"; T "alice"; T "admin, "]; [T "p"; T " last "]].
Proof. vm_compute. reflexivity. Qed.

(* a store with such values *)
Definition ex_q_ast (rules : list rule) : assertion :=
  {| a_value := []; a_tokens := []; a_policy := rules; a_handle := HOwn |}.
Definition ex_q_store : model :=
  [ (s_p, [ (T "p", ex_q_ast [[T "alice"; T "x, "; T "a b"]; [T "bob"; T " ,y "; T "k=v"]]) ]);
    (s_g, [ (T "g", ex_q_ast [[T "alice"; T " admin, root "]]) ]) ].
Lemma ex_q_store_safe : model_text_safe_r ex_q_store = true /\ model_text_safe ex_q_store = false.
Proof. vm_compute. auto. Qed.
Lemma ex_q_store_text : save_text_file ex_q_store =
  T "p, alice,""x, "",a b" ++ [nl] ++ T "p, bob,"" ,y "",k=v" ++ [nl] ++
  T "g, alice,"" admin, root """ ++ [nl].
Proof. vm_compute. reflexivity. Qed.
Lemma ex_q_store_roundtrip :
  parsed_lines (save_text_file ex_q_store) = text_lines ex_q_store /\
  parsed_lines (save_text_string ex_q_store) = text_lines ex_q_store.
Proof. vm_compute. auto. Qed.

(* what the new theorems protect: a reader that also trims INSIDE the quotes
   would satisfy every theorem of CsvP.v (their values have no edge white
   space) but loses the trailing blank of "x, " *)
Definition column_of_trim_inside (span : text) : text :=
  let t := trim span in
  match t with
  | c :: r =>
    if Ascii.eqb c dquote then
      match rev r with
      | d :: m => if Ascii.eqb d dquote then trim (rev m) else t
      | [] => t
      end
    else t
  | [] => []
  end.
Fixpoint scan_cols_ti (fuel : nat) (s : text) (adj : bool) : list text :=
  match fuel with
  | 0 => []
  | S f =>
    let (span, rest) := esc_c_match s in
    match span with
    | [] =>
      match s with
      | [] => if adj then [] else [[]]
      | _ :: s' => if adj then scan_cols_ti f s' false else [] :: scan_cols_ti f s' false
      end
    | _ => column_of_trim_inside span :: scan_cols_ti f rest true
    end
  end.
Definition parse_csv_line_ti (line : text) : option (list text) :=
  let l := trim line in
  match l with
  | [] => None
  | c :: _ =>
    if Ascii.eqb c hash then None
    else match scan_cols_ti (S (S (length l))) l false with
         | [] => None
         | cols => Some cols
         end
  end.
Lemma inner_trim_refuted_col :
  column_of_trim_inside (render_col f_plain (T "x, ")) = T "x," /\
  column_of_trim_inside (render_col f_plain (T "x, ")) <> T "x, " /\
  column_of (render_col f_plain (T "x, ")) = T "x, ".
Proof. vm_compute. split; [reflexivity|split; [discriminate|reflexivity]]. Qed.
Lemma inner_trim_refuted_line :
  exists pt vs, ptype_safe pt = true /\ forallb csv_safe_r vs = true /\ vs <> [] /\
    parse_csv_line_ti (render_line_file pt vs) <> Some (pt :: vs) /\
    parse_csv_line (render_line_file pt vs) = Some (pt :: vs).
Proof.
  exists (T "p"), [T "x, "]. vm_compute.
  split; [reflexivity|split; [reflexivity|split; [discriminate|split; [discriminate|reflexivity]]]].
Qed.
(* on the old class the variant is indistinguishable on this sample: the gap
   the old statements left open *)
Lemma inner_trim_same_on_old_class :
  parse_csv_line_ti (render_line_file (T "p") [T "alice"; T "x,y"; T "a b"])
  = parse_csv_line (render_line_file (T "p") [T "alice"; T "x,y"; T "a b"]).
Proof. vm_compute. reflexivity. Qed.

(* the side condition is needed: written UNQUOTED, a value with a trailing
   blank loses it *)
Lemma unquoted_edge_blank_refuted :
  exists f v, colfmt_ok f = true /\ csv_safe_q v = true /\ has_comma v = false /\ cf_quote f = false /\
    col_ok f v = false /\ column_of (render_col f v) <> v /\
    parse_csv_line (render_row [f_plain; f] [T "p"; v]) = Some [T "p"; T "a"].
Proof.
  exists f_plain, (T "a "). vm_compute.
  repeat (split; [reflexivity|]). split; [discriminate|reflexivity].
Qed.
(* and the same value round-trips as soon as the column is quoted *)
Lemma quoted_edge_blank_ok :
  col_ok {| cf_pre := []; cf_post := []; cf_quote := true |} (T "a ") = true /\
  parse_csv_line (render_row [f_plain; {| cf_pre := []; cf_post := []; cf_quote := true |}] [T "p"; T "a "])
  = Some [T "p"; T "a "].
Proof. vm_compute. auto. Qed.
(* csv_safe_r is exact for the adapters: a comma-free value with an edge blank
   is outside csv_safe_r and does not round-trip through csv_field *)
Lemma safe_r_needed :
  csv_safe_q (T "a ") = true /\ csv_safe_r (T "a ") = false /\
  parse_csv_line (render_line_file (T "p") [T "a "]) = Some [T "p"; T "a"].
Proof. vm_compute. auto. Qed.
