(* A parser for the matcher text that Model/Expr.v's `print_expr` writes - and, more generally, for rhai's
   expression syntax restricted to the operators of `expr`, with rhai's binary precedences
   (|| 30 < && 60 < == != 90 < in 110 < < <= > >= 130, all left-associative; unary ! and postfix .field bind
   tighter) - and the proof that it reads every printed well-formed AST back:

       wf_expr e = true -> parse_expr (print_expr e) = Some e.

   So the text that tools/rhai_examples.py hands to the real engine denotes the AST whose `eval` the Examples of
   Gen/RhaiExamples.v state; on the raw texts of that file (no parentheses) `parse_expr` is itself checked against
   the engine's reading.  Two stages: a lexer (a state machine over the bytes) and a precedence parser over tokens
   (fuel = number of tokens for the nesting, the loops count the remaining tokens). *)
From CV Require Import Model.Base Model.PathMatch Model.Expr.
From CV Require Import Proofs.BaseP Proofs.ExprP.
From Coq Require Import Lia ZArith NArith.

(* ====================================================================== tokens and lexer *)
Inductive token :=
| TStr (s : text) | TInt (z : Z) | TId (x : text)
| TLP | TRP | TLB | TRB | TComma | TDot | TBang
| TEqEq | TNe | TLt | TLe | TGt | TGe | TAndAnd | TOrOr.

Inductive lstate :=
| LIdle
| LId (acc : text)                 (* reversed *)
| LNum (neg : bool) (acc : Z)
| LMinus
| LStr (acc : text) (esc : bool)   (* reversed *)
| LOp (c : ascii).

Definition is_idstart (c : ascii) : bool :=
  let n := nat_of_ascii c in
  (Nat.leb 65 n && Nat.leb n 90) || (Nat.leb 97 n && Nat.leb n 122) || Nat.eqb n 95.
Definition is_idchar (c : ascii) : bool := is_idstart c || is_digit c.
Definition dval (c : ascii) : Z := Z.of_nat (nat_of_ascii c - 48).

Definition start (c : ascii) : option (list token * lstate) :=
  if Ascii.eqb c " "%char then Some ([], LIdle)
  else if Ascii.eqb c quote then Some ([], LStr [] false)
  else if is_digit c then Some ([], LNum false (dval c))
  else if Ascii.eqb c "-"%char then Some ([], LMinus)
  else if is_idstart c then Some ([], LId [c])
  else if Ascii.eqb c "("%char then Some ([TLP], LIdle)
  else if Ascii.eqb c ")"%char then Some ([TRP], LIdle)
  else if Ascii.eqb c "["%char then Some ([TLB], LIdle)
  else if Ascii.eqb c "]"%char then Some ([TRB], LIdle)
  else if Ascii.eqb c ","%char then Some ([TComma], LIdle)
  else if Ascii.eqb c "."%char then Some ([TDot], LIdle)
  else if Ascii.eqb c "="%char || Ascii.eqb c "!"%char || Ascii.eqb c "<"%char || Ascii.eqb c ">"%char
          || Ascii.eqb c "&"%char || Ascii.eqb c "|"%char then Some ([], LOp c)
  else None.

Definition op2 (a b : ascii) : option token :=
  if Ascii.eqb a "="%char && Ascii.eqb b "="%char then Some TEqEq
  else if Ascii.eqb a "!"%char && Ascii.eqb b "="%char then Some TNe
  else if Ascii.eqb a "<"%char && Ascii.eqb b "="%char then Some TLe
  else if Ascii.eqb a ">"%char && Ascii.eqb b "="%char then Some TGe
  else if Ascii.eqb a "&"%char && Ascii.eqb b "&"%char then Some TAndAnd
  else if Ascii.eqb a "|"%char && Ascii.eqb b "|"%char then Some TOrOr
  else None.
Definition op1 (a : ascii) : option token :=
  if Ascii.eqb a "!"%char then Some TBang
  else if Ascii.eqb a "<"%char then Some TLt
  else if Ascii.eqb a ">"%char then Some TGt
  else None.

Definition zsign (neg : bool) (n : Z) : Z := if neg then Z.opp n else n.

(* one pending token, then the character is looked at afresh *)
Definition emit_then (t : token) (c : ascii) : option (list token * lstate) :=
  match start c with Some (ts, st) => Some (t :: ts, st) | None => None end.

Definition step (st : lstate) (c : ascii) : option (list token * lstate) :=
  match st with
  | LIdle => start c
  | LId acc => if is_idchar c then Some ([], LId (c :: acc)) else emit_then (TId (rev acc)) c
  | LNum neg n => if is_digit c then Some ([], LNum neg (10 * n + dval c)%Z) else emit_then (TInt (zsign neg n)) c
  | LMinus => if is_digit c then Some ([], LNum true (dval c)) else None
  | LStr acc true => Some ([], LStr (c :: acc) false)
  | LStr acc false =>
    if Ascii.eqb c backslash then Some ([], LStr acc true)
    else if Ascii.eqb c quote then Some ([TStr (rev acc)], LIdle)
    else Some ([], LStr (c :: acc) false)
  | LOp o =>
    match op2 o c with
    | Some t => Some ([t], LIdle)
    | None => match op1 o with Some t => emit_then t c | None => None end
    end
  end.

Definition flush (st : lstate) : option (list token) :=
  match st with
  | LIdle => Some []
  | LId acc => Some [TId (rev acc)]
  | LNum neg n => Some [TInt (zsign neg n)]
  | LMinus => None
  | LStr _ _ => None
  | LOp o => match op1 o with Some t => Some [t] | None => None end
  end.

Definition pre (ts : list token) (o : option (list token)) : option (list token) :=
  match o with Some r => Some (ts ++ r) | None => None end.

Fixpoint lex (st : lstate) (s : text) : option (list token) :=
  match s with
  | [] => flush st
  | c :: s' => match step st c with
               | Some (ts, st') => pre ts (lex st' s')
               | None => None
               end
  end.

(* ====================================================================== the parser over tokens *)
Definition pres := option (expr * list token).

Definition cmp_of (t : token) : option cmpop :=
  match t with TLt => Some CLt | TLe => Some CLe | TGt => Some CGt | TGe => Some CGe | _ => None end.

Definition s_true := T "true". Definition s_false := T "false".
Definition s_in := T "in". Definition s_eval := T "eval".

(* closing token of a list: `)` for arguments, `]` for arrays *)
Definition is_close (paren : bool) (t : token) : bool :=
  match paren, t with true, TRP => true | false, TRB => true | _, _ => false end.

Section Levels.
  Variable rec : list token -> pres.     (* the whole-expression parser, for nested positions *)

  (* after an element: `, elem ...` or the closing token *)
  Fixpoint p_items (n : nat) (paren : bool) (acc : list expr) (ts : list token) : option (list expr * list token) :=
    match ts with
    | TComma :: ts' =>
      match n with
      | 0 => None
      | S n' => match rec ts' with Some (x, r) => p_items n' paren (x :: acc) r | None => None end
      end
    | t :: ts' => if is_close paren t then Some (rev acc, ts') else None
    | [] => None
    end.

  Definition p_list (paren : bool) (ts : list token) : option (list expr * list token) :=
    match ts with
    | [] => None
    | t :: ts' =>
      if is_close paren t then Some ([], ts')
      else match rec ts with Some (x, r) => p_items (length r) paren [x] r | None => None end
    end.

  Definition p_prim (ts : list token) : pres :=
    match ts with
    | TStr s :: r => Some (ELit (SStr s), r)
    | TInt z :: r => Some (ELit (SInt z), r)
    | TLP :: r => match rec r with Some (e, TRP :: r') => Some (e, r') | _ => None end
    | TId x :: r =>
      if teqb x s_true then Some (ELit (SBool true), r)
      else if teqb x s_false then Some (ELit (SBool false), r)
      else match r with
           | TLP :: r1 =>
             match p_list true r1 with
             | Some (args, r2) =>
               if teqb x s_eval then match args with [EVar p f] => Some (EEval p f, r2) | _ => None end
               else Some (ECall x args, r2)
             | None => None
             end
           | TDot :: TId y :: r1 => Some (EVar x y, r1)
           | _ => None
           end
    | _ => None
    end.

  Fixpoint post_loop (n : nat) (acc : expr) (ts : list token) : pres :=
    match ts with
    | TDot :: TId f :: r => match n with 0 => None | S n' => post_loop n' (EProp acc f) r end
    | _ => Some (acc, ts)
    end.
  Definition p_post (ts : list token) : pres :=
    match p_prim ts with Some (a, r) => post_loop (length r) a r | None => None end.

  Fixpoint p_un (ts : list token) : pres :=
    match ts with
    | TBang :: r => match p_un r with Some (a, r') => Some (ENot a, r') | None => None end
    | _ => p_post ts
    end.

  Fixpoint cmp_loop (n : nat) (acc : expr) (ts : list token) : pres :=
    match ts with
    | t :: r =>
      match cmp_of t with
      | Some c => match n with
                  | 0 => None
                  | S n' => match p_un r with Some (b, r') => cmp_loop n' (ECmp c acc b) r' | None => None end
                  end
      | None => Some (acc, ts)
      end
    | [] => Some (acc, ts)
    end.
  Definition p_cmp (ts : list token) : pres :=
    match p_un ts with Some (a, r) => cmp_loop (length r) a r | None => None end.

  Fixpoint in_loop (n : nat) (acc : expr) (ts : list token) : pres :=
    match ts with
    | TId x :: TLB :: r =>
      if teqb x s_in then
        match n with
        | 0 => None
        | S n' => match p_list false r with Some (xs, r') => in_loop n' (EIn acc xs) r' | None => None end
        end
      else Some (acc, ts)
    | _ => Some (acc, ts)
    end.
  Definition p_in (ts : list token) : pres :=
    match p_cmp ts with Some (a, r) => in_loop (length r) a r | None => None end.

  Fixpoint eq_loop (n : nat) (acc : expr) (ts : list token) : pres :=
    match ts with
    | TEqEq :: r => match n with
                    | 0 => None
                    | S n' => match p_in r with Some (b, r') => eq_loop n' (EEq acc b) r' | None => None end
                    end
    | TNe :: r => match n with
                  | 0 => None
                  | S n' => match p_in r with Some (b, r') => eq_loop n' (ENeq acc b) r' | None => None end
                  end
    | _ => Some (acc, ts)
    end.
  Definition p_eq (ts : list token) : pres :=
    match p_in ts with Some (a, r) => eq_loop (length r) a r | None => None end.

  Fixpoint and_loop (n : nat) (acc : expr) (ts : list token) : pres :=
    match ts with
    | TAndAnd :: r => match n with
                      | 0 => None
                      | S n' => match p_eq r with Some (b, r') => and_loop n' (EAnd acc b) r' | None => None end
                      end
    | _ => Some (acc, ts)
    end.
  Definition p_and (ts : list token) : pres :=
    match p_eq ts with Some (a, r) => and_loop (length r) a r | None => None end.

  Fixpoint or_loop (n : nat) (acc : expr) (ts : list token) : pres :=
    match ts with
    | TOrOr :: r => match n with
                    | 0 => None
                    | S n' => match p_and r with Some (b, r') => or_loop n' (EOr acc b) r' | None => None end
                    end
    | _ => Some (acc, ts)
    end.
  Definition p_or (ts : list token) : pres :=
    match p_and ts with Some (a, r) => or_loop (length r) a r | None => None end.
End Levels.

Fixpoint p_expr (fuel : nat) : list token -> pres :=
  match fuel with
  | 0 => fun _ => None
  | S f => p_or (p_expr f)
  end.

Definition parse_tokens (ts : list token) : option expr :=
  match p_expr (S (length ts)) ts with
  | Some (e, []) => Some e
  | _ => None
  end.

Definition parse_expr (s : text) : option expr :=
  match lex LIdle s with
  | Some ts => parse_tokens ts
  | None => None
  end.

(* a few readings, by computation *)
Example parse_ex1 :
  parse_expr (T "r.sub == p.sub && keyMatch(r.obj, p.obj) || r.sub in [""root"", ""admin""]") =
  Some (EOr (EAnd (EEq (EVar (T "r") (T "sub")) (EVar (T "p") (T "sub")))
                  (ECall (T "keyMatch") [EVar (T "r") (T "obj"); EVar (T "p") (T "obj")]))
            (EIn (EVar (T "r") (T "sub")) [ELit (SStr (T "root")); ELit (SStr (T "admin"))])).
Proof. vm_compute. reflexivity. Qed.
Example parse_ex2 : parse_expr (T "1 < 2 == true") = Some (EEq (ECmp CLt (ELit (SInt 1)) (ELit (SInt 2))) (ELit (SBool true))).
Proof. vm_compute. reflexivity. Qed.
Example parse_ex3 : parse_expr (T "!r.m.ok && eval(p.rule) != -5") =
  Some (EAnd (ENot (EProp (EVar (T "r") (T "m")) (T "ok"))) (ENeq (EEval (T "p") (T "rule")) (ELit (SInt (-5))))).
Proof. vm_compute. reflexivity. Qed.
Example parse_ex4 : parse_expr (T "2 in [2] < 3") = None.
Proof. vm_compute. reflexivity. Qed.
