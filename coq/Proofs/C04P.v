(* C04, part 4: the management API against the ideal ordered set; flag =
   change; a call reporting no change is the identity on everything that
   decisions read; read views; the executable trace predicate. *)
From CV Require Import Model.Base Model.Effector Model.RoleGraph Model.Expr Model.Enforce
     Model.Engine Model.SpecC04.
From CV Require Import Proofs.ListAux Proofs.BaseP Proofs.RoleGraphP.
From CV Require Export Proofs.C04SetP Proofs.C04StepP Proofs.C04InvP.
From Coq Require Import Lia.

(* ================= (3) accepting adapters ================= *)
Lemma accepts_no_auto_save : forall s sec pt b,
  e_auto_save s = false -> adapter_call s sec pt b = (e_adapter s, Ok true).
Proof. intros s sec pt b H. unfold adapter_call. rewrite H. reflexivity. Qed.

Lemma accepts_null : forall s sec pt b,
  e_adapter s = ANull -> adapter_call s sec pt b = (e_adapter s, Ok true).
Proof.
  intros s sec pt b H. unfold adapter_call. rewrite H.
  destruct (e_auto_save s); [|reflexivity]. destruct b; reflexivity.
Qed.

Lemma accepts_file : forall s sec pt b l f,
  e_adapter s = AFile l f -> adapter_call s sec pt b = (e_adapter s, Ok true).
Proof.
  intros s sec pt b l f H. unfold adapter_call. rewrite H.
  destruct (e_auto_save s); [|reflexivity]. destruct b; reflexivity.
Qed.

(* the memory adapter keeps its own set of lines `sec :: pt :: rule` and
   answers by the same all-or-nothing rules *)
Lemma memory_add : forall s sec pt r l f,
  e_auto_save s = true -> e_adapter s = AMemory l f ->
  adapter_call s sec pt (BAdd r) =
  if sp_mem (sec :: pt :: r) l then (AMemory l f, Ok false) else (AMemory (l ++ [sec :: pt :: r]) f, Ok true).
Proof. intros s sec pt r l f H1 H2. unfold adapter_call. rewrite H1, H2. reflexivity. Qed.

Lemma memory_remove : forall s sec pt r l f,
  e_auto_save s = true -> e_adapter s = AMemory l f ->
  adapter_call s sec pt (BRemove r) =
  if sp_mem (sec :: pt :: r) l then (AMemory (rremove (sec :: pt :: r) l) f, Ok true)
  else (AMemory l f, Ok false).
Proof. intros s sec pt r l f H1 H2. unfold adapter_call. rewrite H1, H2. reflexivity. Qed.

(* the string adapter never accepts an incremental call *)
Lemma string_fails : forall s sec pt b l f,
  e_auto_save s = true -> e_adapter s = AString l f ->
  adapter_call s sec pt b = (e_adapter s, Err EAdapter).
Proof.
  intros s sec pt b l f H1 H2. unfold adapter_call. rewrite H1, H2. destruct b; reflexivity.
Qed.

(* ---- the role-link update reads only the definition's value ---- *)
Lemma get_set_policy_value : forall md sec pt l sec' pt',
  option_map a_value (get_ast (set_policy md sec pt l) sec' pt') =
  option_map a_value (get_ast md sec' pt').
Proof.
  intros md sec pt l sec' pt'. rewrite get_set_policy.
  destruct (teqb sec' sec && teqb pt' pt); [|reflexivity].
  destruct (get_ast md sec' pt'); reflexivity.
Qed.

Lemma links_result_set_policy : forall md sec pt0 l m pt insert rs,
  links_result (set_policy md sec pt0 l) m pt insert rs = links_result md m pt insert rs.
Proof.
  intros md sec pt0 l m pt insert rs. unfold links_result.
  pose proof (get_set_policy_value md sec pt0 l s_g pt) as H.
  destruct (get_ast (set_policy md sec pt0 l) s_g pt) as [a|], (get_ast md s_g pt) as [a0|];
    cbn [option_map] in H; try discriminate; [|reflexivity].
  inversion H as [E]. rewrite E. reflexivity.
Qed.

Lemma links_rm_set_policy : forall md sec pt0 l m pt insert rs,
  links_rm (set_policy md sec pt0 l) m pt insert rs = links_rm md m pt insert rs.
Proof.
  intros md sec pt0 l m pt insert rs. unfold links_rm.
  pose proof (get_set_policy_value md sec pt0 l s_g pt) as H.
  destruct (get_ast (set_policy md sec pt0 l) s_g pt) as [a|], (get_ast md s_g pt) as [a0|];
    cbn [option_map] in H; try discriminate; [|reflexivity].
  inversion H as [E]. rewrite E. reflexivity.
Qed.

(* the role-link update succeeds exactly when the definition is well formed
   (2 or 3 underscores), every rule handed over has that many fields, and --
   for removals -- delete_link finds the names *)
Lemma links_result_ok_iff : forall md m pt insert rs,
  links_result md m pt insert rs = LOk <->
  (forall a, get_ast md s_g pt = Some a ->
             2 <= count_us (a_value a) /\ links_okb (count_us (a_value a)) insert m rs = true).
Proof.
  intros md m pt insert rs. unfold links_result. destruct (get_ast md s_g pt) as [a|].
  - destruct (Nat.ltb (count_us (a_value a)) 2) eqn:E.
    + apply Nat.ltb_lt in E. split; [discriminate|]. intros H. destruct (H a eq_refl) as [H1 _]. lia.
    + apply Nat.ltb_ge in E. rewrite link_rules_ok_iff. split.
      * intros H a0 Ha0. inversion Ha0; subst. split; assumption.
      * intros H. apply (H a eq_refl).
  - split; [|reflexivity]. intros _ a H. discriminate.
Qed.

(* ================= (3) the accepted call ================= *)
(* the answer of an accepted call, and the manager afterwards *)
Definition mgmt_answer (s : estate) (sec pt : text) (b : bop) (flag : bool) (rs : list rule) : outcome bool :=
  if links_active (bop_guard b) s sec flag
  then lerr_out (links_result (e_model s) (f_rm (e_fs s)) pt (bop_insert b) rs) flag
  else Ok flag.
Definition mgmt_rm (s : estate) (sec pt : text) (b : bop) (flag : bool) (rs : list rule) : rmgr :=
  if links_active (bop_guard b) s sec flag
  then links_rm (e_model s) (f_rm (e_fs s)) pt (bop_insert b) rs
  else f_rm (e_fs s).

Theorem mgmt_accept : forall s sec pt b ad a l' flag rs s' res,
  adapter_call s sec pt b = (ad, Ok true) ->
  get_ast (e_model s) sec pt = Some a ->
  sp_apply b (a_policy a) = Some (l', flag, rs) ->
  step_basic s sec pt b = (s', res) ->
  m_get_policy (e_model s') sec pt = l' /\
  (forall sec' pt', (sec', pt') <> (sec, pt) ->
                    m_get_policy (e_model s') sec' pt' = m_get_policy (e_model s) sec' pt') /\
  eqh (e_model s') (set_policy (e_model s) sec pt l') /\
  e_adapter s' = ad /\ frame s s' /\
  res = mgmt_answer s sec pt b flag rs /\
  e_fs s' = set_rm (e_fs s) (mgmt_rm s sec pt b flag rs).
Proof.
  intros s sec pt b ad a l' flag rs s' res Hc Hg Ha Hs.
  rewrite (step_basic_accept s sec pt b ad Hc), Hg, Ha in Hs.
  set (s2 := emit_mgmt (upd_model (upd_adapter s ad) (set_policy (e_model s) sec pt l')) flag
                       (bop_event sec pt b rs)) in *.
  assert (M2 : e_model s2 = set_policy (e_model s) sec pt l') by (unfold s2; rewrite emit_mgmt_model; reflexivity).
  assert (F2 : e_fs s2 = e_fs s) by (unfold s2; rewrite emit_mgmt_fs; reflexivity).
  assert (A2 : e_adapter s2 = ad) by (unfold s2; rewrite emit_mgmt_adapter; reflexivity).
  assert (Fr2 : frame s s2).
  { unfold s2. eapply frame_trans; [|apply emit_mgmt_frame].
    eapply frame_trans; [apply frame_upd_adapter|apply frame_upd_model]. }
  assert (Act : links_active (bop_guard b) s2 sec flag = links_active (bop_guard b) s sec flag).
  { unfold links_active. rewrite (frame_auto_build _ _ Fr2). reflexivity. }
  pose proof (links_tail_eqh (bop_guard b) s2 sec pt flag (bop_insert b) rs) as E.
  pose proof (links_tail_misc (bop_guard b) s2 sec pt flag (bop_insert b) rs) as Mi.
  pose proof (links_tail_res (bop_guard b) s2 sec pt flag (bop_insert b) rs) as R.
  pose proof (links_tail_rm (bop_guard b) s2 sec pt flag (bop_insert b) rs) as Rm.
  rewrite Hs in E, Mi, R, Rm. cbn [fst snd] in *. cbv zeta in Mi.
  destruct Mi as (Fr & Ad & _ & Fs).
  rewrite M2 in E.
  assert (Hne : get_ast (e_model s) sec pt <> None) by (rewrite Hg; discriminate).
  split; [|split; [|split; [|split; [|split; [|split]]]]].
  - rewrite (eqh_pol _ _ sec pt E). apply pol_set_policy_same, Hne.
  - intros sec' pt' Hd. rewrite (eqh_pol _ _ sec' pt' E). apply pol_set_policy_other, Hd.
  - exact E.
  - rewrite Ad. exact A2.
  - eapply frame_trans; [exact Fr2|exact Fr].
  - rewrite R. unfold mgmt_answer. rewrite Act, M2, F2, links_result_set_policy. reflexivity.
  - rewrite Fs, Rm. unfold mgmt_rm. rewrite Act, M2, F2, links_rm_set_policy. reflexivity.
Qed.

(* the answer is the ideal flag unless the role-link update runs and fails *)
Theorem mgmt_answer_ok_iff : forall s sec pt b flag rs,
  mgmt_answer s sec pt b flag rs = Ok flag <->
  (links_active (bop_guard b) s sec flag = false \/
   links_result (e_model s) (f_rm (e_fs s)) pt (bop_insert b) rs = LOk).
Proof.
  intros s sec pt b flag rs. unfold mgmt_answer.
  destruct (links_active (bop_guard b) s sec flag).
  - destruct (links_result _ _ pt _ rs) as [|e]; cbn [lerr_out]; split.
    + intros _. right. reflexivity.
    + reflexivity.
    + discriminate.
    + intros [H|H]; discriminate.
  - split; [intros _; left; reflexivity|reflexivity].
Qed.

(* ... and otherwise it is the error of the role-link update *)
Theorem mgmt_answer_cases : forall s sec pt b flag rs,
  mgmt_answer s sec pt b flag rs = Ok flag \/
  (exists e, mgmt_answer s sec pt b flag rs = Err e /\
             teqb sec s_g = true /\ e_auto_build s = true /\ (flag = true \/ bop_guard b = false) /\
             links_result (e_model s) (f_rm (e_fs s)) pt (bop_insert b) rs = LErr e).
Proof.
  intros s sec pt b flag rs. unfold mgmt_answer, links_active.
  destruct (teqb sec s_g); [|left; reflexivity].
  destruct (e_auto_build s); [|left; reflexivity].
  destruct (bop_guard b), flag; cbn [negb orb andb]; try (left; reflexivity);
    (destruct (links_result _ _ pt _ rs) as [|e]; cbn [lerr_out]; [left; reflexivity|]);
    right; exists e; repeat split; auto.
Qed.

(* the natural well-formedness condition under which no error can occur *)
Definition g_links_fine (s : estate) (pt : text) (insert : bool) (rs : list rule) : Prop :=
  forall a, get_ast (e_model s) s_g pt = Some a ->
            2 <= count_us (a_value a) /\
            links_okb (count_us (a_value a)) insert (f_rm (e_fs s)) rs = true.

Theorem mgmt_answer_fine : forall s sec pt b flag rs,
  g_links_fine s pt (bop_insert b) rs -> mgmt_answer s sec pt b flag rs = Ok flag.
Proof.
  intros s sec pt b flag rs H. apply mgmt_answer_ok_iff. right. apply links_result_ok_iff. exact H.
Qed.

(* insertions: 2 or 3 underscores and long enough rules suffice *)
Lemma links_okb_insert : forall cnt m rs,
  cnt < 4 -> (forall r, In r rs -> cnt <= length r) -> links_okb cnt true m rs = true.
Proof.
  intros cnt m rs Hc Hl. unfold links_okb. apply forallb_forall. intros r Hr. unfold rule_link_ok.
  assert (Nat.leb cnt (length r) = true) as -> by (apply Nat.leb_le, Hl, Hr).
  assert (Nat.ltb cnt 4 = true) as -> by (apply Nat.ltb_lt; exact Hc). reflexivity.
Qed.

(* removals need in addition that the manager knows both names of every rule *)
Lemma links_okb_delete : forall cnt m rs,
  cnt < 4 -> (forall r, In r rs -> cnt <= length r) ->
  (forall r, In r rs -> has_nodes m (nth 0 r []) (nth 1 r []) (link_dom cnt r) = true) ->
  links_okb cnt false m rs = true.
Proof.
  intros cnt m rs Hc Hl Hn. unfold links_okb. apply forallb_forall. intros r Hr. unfold rule_link_ok.
  assert (Nat.leb cnt (length r) = true) as -> by (apply Nat.leb_le, Hl, Hr).
  assert (Nat.ltb cnt 4 = true) as -> by (apply Nat.ltb_lt; exact Hc).
  cbn [andb orb]. apply (Hn r Hr).
Qed.

(* the unknown type, the out-of-range filter *)
Theorem mgmt_unknown : forall s sec pt b ad,
  adapter_call s sec pt b = (ad, Ok true) -> get_ast (e_model s) sec pt = None ->
  step_basic s sec pt b = (upd_adapter s ad, Ok false).
Proof. intros s sec pt b ad Hc Hg. rewrite (step_basic_accept s sec pt b ad Hc), Hg. reflexivity. Qed.

Theorem mgmt_out_of_range : forall s sec pt b ad a,
  adapter_call s sec pt b = (ad, Ok true) -> get_ast (e_model s) sec pt = Some a ->
  sp_apply b (a_policy a) = None ->
  step_basic s sec pt b = (upd_adapter s ad, Panic).
Proof.
  intros s sec pt b ad a Hc Hg Ha. rewrite (step_basic_accept s sec pt b ad Hc), Hg, Ha. reflexivity.
Qed.

(* refusal / failure: see step_basic_refuse; in particular *)
Theorem mgmt_refuse_unchanged : forall s sec pt b ad r s' res,
  adapter_call s sec pt b = (ad, r) -> r <> Ok true -> step_basic s sec pt b = (s', res) ->
  res = r /\ e_model s' = e_model s /\ e_fs s' = e_fs s /\ e_wlog s' = e_wlog s /\
  e_adapter s' = ad /\ frame s s'.
Proof.
  intros s sec pt b ad r s' res Hc Hr Hs. rewrite (step_basic_refuse s sec pt b ad r Hc Hr) in Hs.
  inversion Hs; subst. repeat split.
Qed.

(* ---- RBAC helpers with two calls ---- *)
Theorem seq_or_ok_iff : forall ra f s' c,
  seq_or ra f = (s', Ok c) <->
  exists a b, snd ra = Ok a /\ f (fst ra) = (s', Ok b) /\ c = a || b.
Proof.
  intros [s0 r0] f s' c. unfold seq_or. cbn [fst snd]. split.
  - destruct r0 as [a|e|]; try discriminate.
    destruct (f s0) as [s1 [b|e|]]; try discriminate.
    intros H. inversion H; subst. exists a, b. repeat split.
  - intros [a [b [H1 [H2 H3]]]]. subst. rewrite H2. reflexivity.
Qed.

(* ================= clear ================= *)
Lemma forallb_map : forall {A B} (f : B -> bool) (g : A -> B) l,
  forallb f (map g l) = forallb (fun x => f (g x)) l.
Proof.
  intros A B f g l. induction l as [|x l IH]; cbn [map forallb]; [reflexivity|]. rewrite IH. reflexivity.
Qed.

Definition g_defs_ok (md : model) : bool :=
  match assoc s_g md with
  | None => true
  | Some am => forallb (fun ka => Nat.leb 2 (count_us (a_value (snd ka)))) am
  end.

Lemma assoc_g_clear : forall md,
  assoc s_g (m_clear_policy md) =
  option_map (map (fun ka => (fst ka, with_policy (snd ka) []))) (assoc s_g md).
Proof.
  intros md. unfold m_clear_policy.
  assert (E : assoc s_g (clear_sec md s_p) = assoc s_g md).
  { unfold clear_sec. destruct (assoc s_p md); [|reflexivity]. apply assoc_set_other. discriminate. }
  unfold clear_sec at 1. rewrite E. destruct (assoc s_g md) as [am|] eqn:Eg; cbn [option_map].
  - apply assoc_set_same.
  - exact E.
Qed.

Lemma brl_empty_g : forall s,
  (forall am k a, assoc s_g (e_model s) = Some am -> In (k, a) am -> a_policy a = []) ->
  snd (build_role_links s) = (if g_defs_ok (e_model s) then LOk else LErr EModel) /\
  f_rm (e_fs (fst (build_role_links s))) = [].
Proof.
  intros s Hemp. unfold build_role_links, g_defs_ok.
  destruct (assoc s_g (e_model s)) as [am|] eqn:Eg; [|split; reflexivity].
  destruct (build_links_am_empty am [] (fun k a => Hemp am k a eq_refl)) as [R1 R2].
  destruct (build_links_am am []) as [[am' m'] e]. cbn [fst snd] in *. subst. split; reflexivity.
Qed.

Theorem clear_accept : forall s ad s' res,
  clear_call s = (ad, LROk) -> step_clear s = (s', res) ->
  (forall sec pt, m_get_policy (e_model s') sec pt =
                  if sec_ok sec then [] else m_get_policy (e_model s) sec pt) /\
  eqh (e_model s') (m_clear_policy (e_model s)) /\
  e_adapter s' = ad /\ frame s s' /\
  res = (if e_auto_build s && negb (g_defs_ok (e_model s)) then Err EModel else Ok true) /\
  f_rm (e_fs s') = (if e_auto_build s then [] else f_rm (e_fs s)).
Proof.
  intros s ad s' res Hc Hs. rewrite (step_clear_accept s ad Hc) in Hs. cbv zeta in Hs.
  set (s2 := upd_model (upd_adapter s ad) (m_clear_policy (e_model s))) in *.
  assert (G : g_defs_ok (e_model s2) = g_defs_ok (e_model s)).
  { unfold g_defs_ok, s2. cbn [e_model upd_model]. rewrite assoc_g_clear.
    destruct (assoc s_g (e_model s)); cbn [option_map]; [|reflexivity].
    rewrite forallb_map. reflexivity. }
  assert (Main : eqh (e_model s') (m_clear_policy (e_model s)) /\ e_adapter s' = ad /\ frame s s' /\
                 res = (if e_auto_build s && negb (g_defs_ok (e_model s)) then Err EModel else Ok true) /\
                 f_rm (e_fs s') = (if e_auto_build s then [] else f_rm (e_fs s))).
  { destruct (e_auto_build s) eqn:Eb; cbn [andb].
    - assert (Hemp : forall am k a, assoc s_g (e_model s2) = Some am -> In (k, a) am -> a_policy a = []).
      { intros am k a Ha Hin. unfold s2 in Ha. cbn [e_model upd_model] in Ha. rewrite assoc_g_clear in Ha.
        destruct (assoc s_g (e_model s)) as [am0|]; cbn [option_map] in Ha; [|discriminate].
        injection Ha as Ha. subst am. apply in_map_iff in Hin.
        destruct Hin as [[k0 a0] [E0 _]]. cbn [fst snd] in E0. inversion E0. reflexivity. }
      destruct (brl_empty_g s2 Hemp) as [R1 R2]. rewrite G in R1.
      pose proof (brl_eqh s2) as E. pose proof (brl_misc s2) as Mi. cbv zeta in Mi.
      destruct (build_role_links s2) as [s3 e]. cbn [fst snd] in *. destruct Mi as (Fr & Ad & _).
      assert (Fr' : frame s s3).
      { eapply frame_trans; [|exact Fr]. unfold s2.
        eapply frame_trans; [apply frame_upd_adapter|apply frame_upd_model]. }
      destruct (g_defs_ok (e_model s)); subst e; inversion Hs; subst; cbn [negb].
      + rewrite emit_model, emit_adapter, emit_fs.
        split; [exact E|]. split; [exact Ad|].
        split; [eapply frame_trans; [exact Fr'|apply emit_frame]|].
        split; [reflexivity|exact R2].
      + split; [exact E|]. split; [exact Ad|]. split; [exact Fr'|]. split; [reflexivity|exact R2].
    - inversion Hs; subst. rewrite emit_model, emit_adapter, emit_fs.
      split; [apply eqh_refl|]. split; [reflexivity|]. split; [|split; reflexivity].
      eapply frame_trans; [|apply emit_frame]. unfold s2.
      eapply frame_trans; [apply frame_upd_adapter|apply frame_upd_model]. }
  destruct Main as (E & M). split; [|split; [exact E|exact M]].
  intros sec pt. rewrite (eqh_pol _ _ sec pt E). apply pol_clear_policy.
Qed.

Theorem clear_refuse_unchanged : forall s ad r s' res,
  clear_call s = (ad, r) -> r <> LROk -> step_clear s = (s', res) ->
  res = lres_out r /\ e_model s' = e_model s /\ e_fs s' = e_fs s /\ e_wlog s' = e_wlog s /\
  e_adapter s' = ad.
Proof.
  intros s ad r s' res Hc Hr Hs. rewrite (step_clear_refuse s ad r Hc Hr) in Hs.
  inversion Hs; subst. repeat split.
Qed.

(* ================= (4) flag = change; no change = identity ================= *)
Definition mgmt_op (o : op) : Prop :=
  match o with
  | OAdd _ _ _ | OAddMany _ _ _ | ORemove _ _ _ | ORemoveMany _ _ _
  | ORemoveFiltered _ _ _ _ | ORbac _ => True
  | _ => False
  end.

Definition pols_differ (md md' : model) : Prop :=
  exists sec pt, m_get_policy md' sec pt <> m_get_policy md sec pt.

(* everything a decision or a listing can read is as before; only the
   adapter (a popped script entry, say) and role-manager handles may differ *)
Definition unchanged (s s' : estate) : Prop :=
  eqh (e_model s') (e_model s) /\ e_fs s' = e_fs s /\ e_wlog s' = e_wlog s /\ frame s s'.

Lemma unchanged_refl : forall s, unchanged s s.
Proof. intros s. repeat split. Qed.

Lemma unchanged_trans : forall a b c, unchanged a b -> unchanged b c -> unchanged a c.
Proof.
  intros a b c (E1 & F1 & W1 & R1) (E2 & F2 & W2 & R2).
  split; [apply (eqh_trans _ _ _ E2 E1)|]. split; [congruence|]. split; [congruence|].
  apply (frame_trans _ _ _ R1 R2).
Qed.

Lemma sp_apply_false : forall b l l' rs,
  sp_apply b l = Some (l', false, rs) -> l' = l /\ (bop_guard b = false -> rs = []).
Proof.
  intros b l l' rs H. split.
  - destruct (list_eq_dec (list_eq_dec text_eq_dec) l' l) as [E|E]; [exact E|].
    apply (sp_apply_flag b l l' false rs H) in E. discriminate.
  - destruct b as [r|rs0|r|rs0|idx vals]; cbn [bop_guard]; try discriminate. intros _.
    cbn [sp_apply] in H. unfold sp_remove_filtered in H. destruct vals as [|v vs].
    + inversion H. reflexivity.
    + destruct (existsb (sp_oob idx (v :: vs)) l); [discriminate|]. inversion H as [[H1 H2 H3]].
      apply filter_false_nil. intros x Hx. destruct (sp_hit idx (v :: vs) x) eqn:E; [|reflexivity].
      assert (existsb (sp_hit idx (v :: vs)) l = true) as C
          by (apply existsb_exists; exists x; split; assumption).
      rewrite C in H2. discriminate.
Qed.

Lemma lerr_out_ok : forall e flag c, lerr_out e flag = Ok c -> c = flag.
Proof. intros [|e] flag c H; cbn [lerr_out] in H; [inversion H; reflexivity|discriminate]. Qed.

(* a basic call that answers Ok c: c = false and nothing changed, or c = true
   and the addressed list was replaced by a different one *)
Lemma basic_ok_cases : forall s sec pt b s' c,
  step_basic s sec pt b = (s', Ok c) ->
  (c = false /\ unchanged s s') \/
  (c = true /\ frame s s' /\
   exists a l' rs, get_ast (e_model s) sec pt = Some a /\
                   sp_apply b (a_policy a) = Some (l', true, rs) /\ l' <> a_policy a /\
                   eqh (e_model s') (set_policy (e_model s) sec pt l')).
Proof.
  intros s sec pt b s' c Hs. destruct (adapter_call s sec pt b) as [ad r] eqn:Hc.
  assert (Hr : r = Ok true \/ r <> Ok true)
    by (destruct r as [[|]|e|]; [left; reflexivity|right; discriminate..]).
  destruct Hr as [->|Hr].
  - destruct (get_ast (e_model s) sec pt) as [a|] eqn:Hg.
    + destruct (sp_apply b (a_policy a)) as [[[l' flag] rs]|] eqn:Ha.
      * destruct (mgmt_accept s sec pt b ad a l' flag rs s' (Ok c) Hc Hg Ha Hs)
          as (P1 & P2 & E & Ad & Fr & R & Fs).
        assert (c = flag).
        { unfold mgmt_answer in R. destruct (links_active (bop_guard b) s sec flag).
          - symmetry in R. apply lerr_out_ok in R. exact R.
          - inversion R. reflexivity. }
        subst flag. destruct c.
        -- right. split; [reflexivity|]. split; [exact Fr|]. exists a, l', rs.
           repeat split; try assumption. apply (sp_apply_flag b _ l' true rs Ha). reflexivity.
        -- left. split; [reflexivity|]. clear P1 P2. destruct (sp_apply_false b _ l' rs Ha) as [El Ers]. subst l'.
           rewrite (set_policy_id _ _ _ a Hg) in E.
           assert (Rm : mgmt_rm s sec pt b false rs = f_rm (e_fs s)).
           { unfold mgmt_rm, links_active. destruct (bop_guard b) eqn:Eg.
             - cbn [negb orb]. rewrite andb_false_r. reflexivity.
             - rewrite (Ers eq_refl). rewrite links_rm_nil. destruct (_ && _); reflexivity. }
           rewrite Rm, set_rm_same in Fs.
           pose proof (links_tail_misc (bop_guard b)
                         (emit_mgmt (upd_model (upd_adapter s ad) (set_policy (e_model s) sec pt (a_policy a)))
                                    false (bop_event sec pt b rs)) sec pt false (bop_insert b) rs) as Mi.
           rewrite (step_basic_accept s sec pt b ad Hc), Hg, Ha in Hs. rewrite Hs in Mi.
           cbv zeta in Mi. cbn [fst] in Mi. destruct Mi as (_ & _ & W & _).
           rewrite emit_mgmt_false in W. cbn [e_wlog upd_model upd_adapter] in W.
           split; [exact E|]. split; [exact Fs|]. split; [exact W|exact Fr].
      * rewrite (mgmt_out_of_range s sec pt b ad a Hc Hg Ha) in Hs. discriminate.
    + rewrite (mgmt_unknown s sec pt b ad Hc Hg) in Hs. inversion Hs; subst.
      left. split; [reflexivity|]. repeat split.
  - destruct (mgmt_refuse_unchanged s sec pt b ad r s' (Ok c) Hc Hr Hs) as (R & M & F & W & _ & Fr).
    subst r. destruct c; [contradiction|]. left. split; [reflexivity|].
    split; [rewrite M; apply eqh_refl|]. split; [exact F|]. split; [exact W|exact Fr].
Qed.

(* whatever a basic call answers, the lists of the other types stay *)
Lemma basic_other_pol : forall s sec pt b sec' pt',
  (sec', pt') <> (sec, pt) ->
  m_get_policy (e_model (fst (step_basic s sec pt b))) sec' pt' = m_get_policy (e_model s) sec' pt'.
Proof.
  intros s sec pt b sec' pt' Hd.
  destruct (step_basic_model s sec pt b) as [E|[a [l' [flag [rs [_ [_ E]]]]]]].
  - apply eqh_pol, E.
  - rewrite (eqh_pol _ _ sec' pt' E). apply pol_set_policy_other, Hd.
Qed.

Lemma unchanged_pols : forall s s', unchanged s s' -> ~ pols_differ (e_model s) (e_model s').
Proof.
  intros s s' (E & _) [sec [pt H]]. apply H. apply eqh_pol, E.
Qed.

Lemma basic_true_differs : forall s sec pt b s',
  step_basic s sec pt b = (s', Ok true) ->
  m_get_policy (e_model s') sec pt <> m_get_policy (e_model s) sec pt.
Proof.
  intros s sec pt b s' Hs. destruct (basic_ok_cases s sec pt b s' true Hs) as [[C _]|[_ [_ H]]];
    [discriminate|].
  destruct H as [a [l' [rs [Hg [Ha [Hne E]]]]]].
  rewrite (eqh_pol _ _ sec pt E). rewrite pol_set_policy_same by (rewrite Hg; discriminate).
  unfold m_get_policy. rewrite Hg. exact Hne.
Qed.

(* the two calls of delete_user / delete_role address g/g then p/p *)
Lemma rbac_two_ops : forall r o1 o2, rbac_ops r = (o1, Some o2) ->
  exists b1 b2, bop_of o1 = Some (s_g, s_g, b1) /\ bop_of o2 = Some (s_p, s_p, b2).
Proof.
  intros r o1 o2 H. destruct r; cbn [rbac_ops] in H; inversion H; subst; cbn [bop_of];
    do 2 eexists; split; reflexivity.
Qed.

Lemma mgmt_ok_cases : forall s o s' c, mgmt_op o -> step s o = (s', Ok c) ->
  (c = false /\ unchanged s s') \/
  (c = true /\ frame s s' /\ pols_differ (e_model s) (e_model s')).
Proof.
  assert (B : forall s sec pt b s' c, step_basic s sec pt b = (s', Ok c) ->
              (c = false /\ unchanged s s') \/
              (c = true /\ frame s s' /\ pols_differ (e_model s) (e_model s'))).
  { intros s sec pt b s' c Hs. destruct c.
    - right. split; [reflexivity|]. split.
      + destruct (basic_ok_cases s sec pt b s' true Hs) as [[C _]|[_ [Fr _]]]; [discriminate|exact Fr].
      + exists sec, pt. apply (basic_true_differs s sec pt b s' Hs).
    - left. destruct (basic_ok_cases s sec pt b s' false Hs) as [H|[C _]]; [exact H|discriminate]. }
  intros s o s' c Hm Hs.
  destruct o; cbn [mgmt_op] in Hm; try contradiction.
  - rewrite (step_is_basic s (OAdd sec pt r) sec pt (BAdd r) eq_refl) in Hs. apply (B _ _ _ _ _ _ Hs).
  - rewrite (step_is_basic s (OAddMany sec pt rs) sec pt (BAddMany rs) eq_refl) in Hs. apply (B _ _ _ _ _ _ Hs).
  - rewrite (step_is_basic s (ORemove sec pt r) sec pt (BRemove r) eq_refl) in Hs. apply (B _ _ _ _ _ _ Hs).
  - rewrite (step_is_basic s (ORemoveMany sec pt rs) sec pt (BRemoveMany rs) eq_refl) in Hs. apply (B _ _ _ _ _ _ Hs).
  - rewrite (step_is_basic s (ORemoveFiltered sec pt idx vals) sec pt (BFiltered idx vals) eq_refl) in Hs. apply (B _ _ _ _ _ _ Hs).
  - cbn [step] in Hs. rewrite step_rbac_ops in Hs.
    destruct (rbac_ops_basic r) as [[sec [pt [b [E1 _]]]] _].
    destruct (rbac_ops r) as [o1 [o2|]] eqn:Er; cbn [fst snd] in *.
    + destruct (rbac_two_ops r o1 o2 Er) as [b1 [b2 [Eo1 Eo2]]].
      apply seq_or_ok_iff in Hs. destruct Hs as [a [b0 [H1 [H2 H3]]]].
      rewrite (step_is_basic s o1 _ _ b1 Eo1) in H1, H2.
      destruct (step_basic s s_g s_g b1) as [s1 r1] eqn:Hs1. cbn [fst snd] in *. subst r1.
      rewrite (step_is_basic s1 o2 _ _ b2 Eo2) in H2.
      pose proof (basic_other_pol s1 s_p s_p b2 s_g s_g ltac:(discriminate)) as Keep.
      rewrite H2 in Keep. cbn [fst] in Keep.
      destruct (B _ _ _ _ _ _ Hs1) as [[-> U1]|[-> [Fr1 D1]]];
        destruct (B _ _ _ _ _ _ H2) as [[-> U2]|[-> [Fr2 D2]]]; subst c; cbn [orb].
      * left. split; [reflexivity|]. eapply unchanged_trans; eassumption.
      * right. split; [reflexivity|]. split; [eapply frame_trans; [apply U1|exact Fr2]|].
        destruct D2 as [sec2 [pt2 D2]]. exists sec2, pt2.
        destruct U1 as (E1' & _). rewrite <- (eqh_pol _ _ sec2 pt2 E1'). exact D2.
      * right. split; [reflexivity|]. split; [eapply frame_trans; [exact Fr1|apply U2]|].
        exists s_g, s_g. rewrite Keep. apply (basic_true_differs _ _ _ _ _ Hs1).
      * right. split; [reflexivity|]. split; [eapply frame_trans; eassumption|].
        exists s_g, s_g. rewrite Keep. apply (basic_true_differs _ _ _ _ _ Hs1).
    + rewrite (step_is_basic s o1 sec pt b E1) in Hs. apply (B _ _ _ _ _ _ Hs).
Qed.

Theorem flag_is_change : forall s o s' c, mgmt_op o -> step s o = (s', Ok c) ->
  (c = true <-> pols_differ (e_model s) (e_model s')).
Proof.
  intros s o s' c Hm Hs. destruct (mgmt_ok_cases s o s' c Hm Hs) as [[-> U]|[-> [_ D]]].
  - split; [discriminate|]. intros D. exfalso. apply (unchanged_pols s s' U D).
  - split; [intros _; exact D|reflexivity].
Qed.

Theorem false_is_identity : forall s o s', mgmt_op o -> step s o = (s', Ok false) -> unchanged s s'.
Proof.
  intros s o s' Hm Hs. destruct (mgmt_ok_cases s o s' false Hm Hs) as [[_ U]|[C _]]; [exact U|discriminate].
Qed.

(* ---- decisions read the model only up to handles ---- *)
Lemma enforce_core_eqh : forall ptab en md md' mx fs rk pk ek mk et rv,
  eqh md md' ->
  enforce_core ptab en md mx fs rk pk ek mk et rv = enforce_core ptab en md' mx fs rk pk ek mk et rv.
Proof.
  intros ptab en md md' mx fs rk pk ek mk et rv E. unfold enforce_core.
  destruct (negb en); [reflexivity|].
  pose proof (eqh_get_fields md md' s_r rk E) as Hr. pose proof (eqh_get_fields md md' s_p pk E) as Hp.
  pose proof (eqh_get_fields md md' s_m mk E) as Hm. pose proof (eqh_get_fields md md' s_e ek E) as He.
  destruct (get_ast md s_r rk) as [ra|], (get_ast md' s_r rk) as [ra'|]; try contradiction; [|reflexivity].
  destruct (get_ast md s_p pk) as [pa|], (get_ast md' s_p pk) as [pa'|]; try contradiction; [|reflexivity].
  destruct (get_ast md s_m mk) as [ma|], (get_ast md' s_m mk) as [ma'|]; try contradiction; [|reflexivity].
  destruct (get_ast md s_e ek) as [ea|], (get_ast md' s_e ek) as [ea'|]; try contradiction; [|reflexivity].
  destruct Hr as (_ & Hr & _). destruct Hp as (_ & Hpt & Hpp). destruct He as (Hev & _).
  rewrite Hr, Hpt, Hpp, Hev. reflexivity.
Qed.

Theorem unchanged_decisions : forall ptab s s', unchanged s s' ->
  (forall rv, enforce ptab s' rv = enforce ptab s rv) /\
  (forall k rv, enforce_with_ctx ptab s' k rv = enforce_with_ctx ptab s k rv).
Proof.
  intros ptab s s' (E & F & _ & Fr).
  destruct Fr as (Mx & En & _). split.
  - intros rv. unfold enforce, enforce_plain. rewrite F, Mx, En. apply enforce_core_eqh, E.
  - intros k rv. unfold enforce_with_ctx, enforce_ctx. rewrite F, Mx, En. apply enforce_core_eqh, E.
Qed.

Theorem false_keeps_decisions : forall ptab s o s', mgmt_op o -> step s o = (s', Ok false) ->
  (forall rv, enforce ptab s' rv = enforce ptab s rv) /\
  (forall k rv, enforce_with_ctx ptab s' k rv = enforce_with_ctx ptab s k rv).
Proof. intros ptab s o s' Hm Hs. apply unchanged_decisions. apply (false_is_identity s o s' Hm Hs). Qed.

(* ================= (5) read views ================= *)
Lemma has_policy_In : forall md sec pt r,
  m_has_policy md sec pt r = true <-> In r (m_get_policy md sec pt).
Proof. intros md sec pt r. unfold m_has_policy. rewrite rmem_sp_mem. apply sp_mem_In. Qed.

Lemma column_some : forall idx l c, column idx l = Some c ->
  c = map (fun r => nth idx r []) l /\ forall r, In r l -> idx < length r.
Proof.
  intros idx. induction l as [|r l IH]; intros c H; cbn [column] in H.
  - inversion H. split; [reflexivity|]. intros r [].
  - destruct (nth_error r idx) as [v|] eqn:En; [|discriminate].
    destruct (column idx l) as [c0|]; [|discriminate]. inversion H; subst.
    destruct (IH c0 eq_refl) as [I1 I2]. split.
    + cbn [map]. rewrite <- I1. f_equal. symmetry. apply (nth_error_nth r idx [] En).
    + intros r' [<-|Hr]; [|apply I2, Hr]. apply nth_error_Some. rewrite En. discriminate.
Qed.

Lemma column_none : forall idx l, column idx l = None <-> exists r, In r l /\ length r <= idx.
Proof.
  intros idx. induction l as [|r l IH]; cbn [column].
  - split; [discriminate|]. intros [r [[] _]].
  - destruct (nth_error r idx) as [v|] eqn:En.
    + assert (Hlt : idx < length r) by (apply nth_error_Some; rewrite En; discriminate).
      destruct (column idx l) as [c0|].
      * split; [discriminate|]. intros [r' [[<-|Hr] Hl]]; [lia|].
        destruct IH as [_ IH]. discriminate IH. exists r'. split; assumption.
      * split; [intros _|reflexivity]. destruct IH as [IH _]. destruct (IH eq_refl) as [r' [Hr Hl]].
        exists r'. split; [right; exact Hr|exact Hl].
    + apply nth_error_None in En. split; [intros _|reflexivity]. exists r. split; [left; reflexivity|exact En].
Qed.

Lemma flat_map_keys : forall (am : amap) (F : text -> list rule -> list rule) (get : text -> list rule),
  (forall k a, In (k, a) am -> get k = a_policy a) ->
  flat_map (fun ka => F (fst ka) (a_policy (snd ka))) am = flat_map (fun k => F k (get k)) (map fst am).
Proof.
  induction am as [|[k a] am IH]; intros F get H; cbn [flat_map map fst snd]; [reflexivity|].
  rewrite (H k a (or_introl eq_refl)). f_equal. apply IH. intros k' a' Hin. apply H. right. exact Hin.
Qed.

(* get_all = the lists of the section's types, in definition order *)
Theorem get_all_spec : forall (md : model) (sec : text) (am : amap),
  assoc sec md = Some am -> NoDup (map fst am) ->
  m_get_all md sec =
  flat_map (fun k => map (fun r => sec :: k :: r) (m_get_policy md sec k)) (map fst am).
Proof.
  intros md sec am H Hnd. unfold m_get_all. rewrite H.
  apply (flat_map_keys am (fun k l => map (fun r => sec :: k :: r) l) (fun k => m_get_policy md sec k)).
  intros k a Hin. cbv beta. unfold m_get_policy, get_ast. rewrite H. rewrite (In_assoc k a am Hnd Hin). reflexivity.
Qed.

Theorem get_all_unknown : forall md sec, assoc sec md = None -> m_get_all md sec = [].
Proof. intros md sec H. unfold m_get_all. rewrite H. reflexivity. Qed.

Section Views.
  Variable ptab : text -> option expr.

  Theorem view_get : forall s sec pt,
    ask ptab s (QGetPolicy sec pt) = AnsRules (m_get_policy (e_model s) sec pt).
  Proof. reflexivity. Qed.

  Theorem view_has : forall s sec pt r,
    ask ptab s (QHasPolicy sec pt r) = AnsBool (sp_mem r (m_get_policy (e_model s) sec pt)).
  Proof. reflexivity. Qed.

  Theorem view_filtered : forall s sec pt idx vals,
    ask ptab s (QGetFiltered sec pt idx vals) =
    match sp_select idx vals (m_get_policy (e_model s) sec pt) with
    | Some l => AnsRules l
    | None => AnsPanic
    end.
  Proof.
    intros s sec pt idx vals. cbn [ask]. unfold m_get_filtered. rewrite select_filtered_spec. reflexivity.
  Qed.

  Theorem view_values : forall s sec pt idx,
    ask ptab s (QValues sec pt idx) =
    match column idx (m_get_policy (e_model s) sec pt) with
    | Some c => AnsNames (last_occ c)
    | None => AnsPanic
    end.
  Proof.
    intros s sec pt idx. cbn [ask]. unfold m_values.
    destruct (column idx (m_get_policy (e_model s) sec pt)); [|reflexivity].
    rewrite distinct_last_spec. reflexivity.
  Qed.

  Theorem view_get_all : forall s (sec : text) (am : amap),
    StoreInv s -> assoc sec (e_model s) = Some am ->
    ask ptab s (QGetAll sec) =
    AnsRules (flat_map (fun k => map (fun r => sec :: k :: r) (m_get_policy (e_model s) sec k))
                       (map fst am)).
  Proof.
    intros s sec am Hinv H. cbn [ask]. f_equal. apply get_all_spec; [exact H|].
    apply (ModelInv_assoc _ _ _ Hinv H).
  Qed.
End Views.

(* ================= (6) the executable predicate ================= *)
Lemma i_get_entries_same : forall sec (am : amap) pt,
  i_get (sec_entries sec am) (sec, pt) = option_map a_policy (assoc pt am).
Proof.
  intros sec am pt. unfold sec_entries. induction am as [|[k a] am IH]; cbn [map i_get assoc fst snd]; [reflexivity|].
  unfold ikeyb. cbn [fst snd]. rewrite teqb_refl. cbn [andb]. destruct (teqb pt k); [reflexivity|exact IH].
Qed.

Lemma i_get_entries_other : forall sec sec' (am : amap) pt,
  sec' <> sec -> i_get (sec_entries sec am) (sec', pt) = None.
Proof.
  intros sec sec' am pt Hne. unfold sec_entries. induction am as [|[k a] am IH]; cbn [map i_get fst snd]; [reflexivity|].
  unfold ikeyb. cbn [fst snd]. assert (teqb sec' sec = false) as -> by (apply teqb_neq; exact Hne).
  cbn [andb]. exact IH.
Qed.

Lemma i_get_app : forall A B k,
  i_get (A ++ B) k = match i_get A k with Some l => Some l | None => i_get B k end.
Proof.
  induction A as [|[k' l'] A IH]; intros B k; cbn [app i_get]; [reflexivity|].
  destruct (ikeyb k k'); [reflexivity|apply IH].
Qed.

Lemma i_set_app : forall A B k l,
  i_set (A ++ B) k l = match i_get A k with Some _ => i_set A k l ++ B | None => A ++ i_set B k l end.
Proof.
  induction A as [|[k' l'] A IH]; intros B k l; cbn [app i_get i_set]; [reflexivity|].
  destruct (ikeyb k k'); [reflexivity|]. rewrite IH. destruct (i_get A k); reflexivity.
Qed.

Lemma i_set_entries_same : forall sec (am : amap) pt a l,
  assoc pt am = Some a ->
  i_set (sec_entries sec am) (sec, pt) l = sec_entries sec (assoc_set pt (with_policy a l) am).
Proof.
  intros sec am pt a l. unfold sec_entries.
  induction am as [|[k a0] am IH]; cbn [map i_set assoc assoc_set fst snd]; intros H; [discriminate|].
  unfold ikeyb. cbn [fst snd]. rewrite teqb_refl. cbn [andb]. destruct (teqb pt k); cbn [map fst snd].
  - reflexivity.
  - rewrite (IH H). reflexivity.
Qed.

Lemma i_get_ideal_of : forall md sec pt,
  i_get (ideal_of md) (sec, pt) =
  if sec_ok sec then option_map a_policy (get_ast md sec pt) else None.
Proof.
  intros md sec pt. unfold ideal_of, sec_ideal, sec_ok, get_ast. rewrite i_get_app.
  destruct (teqb sec s_p) eqn:Ep; cbn [orb].
  - apply teqb_eq in Ep. subst sec. destruct (assoc s_p md) as [ap|]; cbn [i_get].
    + rewrite i_get_entries_same. destruct (assoc pt ap); cbn [option_map]; [reflexivity|].
      destruct (assoc s_g md); [|reflexivity]. apply i_get_entries_other. discriminate.
    + destruct (assoc s_g md); [|reflexivity]. apply i_get_entries_other. discriminate.
  - apply teqb_neq in Ep.
    assert (i_get (match assoc s_p md with Some am => sec_entries s_p am | None => [] end) (sec, pt) = None) as ->.
    { destruct (assoc s_p md); [|reflexivity]. apply i_get_entries_other, Ep. }
    destruct (teqb sec s_g) eqn:Eg.
    + apply teqb_eq in Eg. subst sec. destruct (assoc s_g md) as [ag|]; [|reflexivity].
      apply i_get_entries_same.
    + apply teqb_neq in Eg. destruct (assoc s_g md); [|reflexivity]. apply i_get_entries_other, Eg.
Qed.

Lemma sec_ideal_set_same : forall (md : model) sec (am' : amap),
  sec_ideal (assoc_set sec am' md) sec = sec_entries sec am'.
Proof. intros md sec am'. unfold sec_ideal. rewrite assoc_set_same. reflexivity. Qed.

Lemma sec_ideal_set_other : forall (md : model) sec sec' (am' : amap),
  sec <> sec' -> sec_ideal (assoc_set sec am' md) sec' = sec_ideal md sec'.
Proof. intros md sec sec' am' H. unfold sec_ideal. rewrite (assoc_set_other sec sec' am' md H). reflexivity. Qed.

Lemma ideal_of_set_policy : forall md sec pt l a,
  sec_ok sec = true -> get_ast md sec pt = Some a ->
  ideal_of (set_policy md sec pt l) = i_set (ideal_of md) (sec, pt) l.
Proof.
  intros md sec pt l a Hok Hg. unfold set_policy. rewrite Hg. unfold set_ast. unfold get_ast in Hg.
  destruct (assoc sec md) as [am|] eqn:Es; [|discriminate].
  unfold ideal_of. rewrite i_set_app. unfold sec_ok in Hok.
  destruct (teqb sec s_p) eqn:Ep.
  - apply teqb_eq in Ep. subst sec. rewrite sec_ideal_set_same.
    rewrite (sec_ideal_set_other md s_p s_g) by discriminate.
    unfold sec_ideal. rewrite Es, i_get_entries_same, Hg. cbn [option_map].
    rewrite (i_set_entries_same s_p am pt a l Hg). reflexivity.
  - cbn [orb] in Hok. apply teqb_eq in Hok. subst sec. rewrite sec_ideal_set_same.
    rewrite (sec_ideal_set_other md s_g s_p) by discriminate.
    assert (i_get (sec_ideal md s_p) (s_g, pt) = None) as ->.
    { unfold sec_ideal. destruct (assoc s_p md); [|reflexivity]. apply i_get_entries_other. discriminate. }
    unfold sec_ideal. rewrite Es. rewrite (i_set_entries_same s_g am pt a l Hg). reflexivity.
Qed.

Lemma i_all_entries_same : forall sec (am : amap),
  i_all (sec_entries sec am) sec =
  flat_map (fun ka => map (fun r => sec :: fst ka :: r) (a_policy (snd ka))) am.
Proof.
  intros sec am. unfold i_all, sec_entries. induction am as [|[k a] am IH]; cbn [map flat_map fst snd]; [reflexivity|].
  rewrite teqb_refl, IH. reflexivity.
Qed.

Lemma i_all_entries_other : forall sec sec' (am : amap), sec' <> sec -> i_all (sec_entries sec' am) sec = [].
Proof.
  intros sec sec' am Hne. unfold i_all, sec_entries. induction am as [|[k a] am IH]; cbn [map flat_map fst snd]; [reflexivity|].
  assert (teqb sec' sec = false) as -> by (apply teqb_neq; exact Hne). exact IH.
Qed.

Lemma i_all_app : forall A B sec, i_all (A ++ B) sec = i_all A sec ++ i_all B sec.
Proof. intros A B sec. unfold i_all. apply flat_map_app. Qed.

Lemma i_all_sec_same : forall md sec, i_all (sec_ideal md sec) sec = m_get_all md sec.
Proof.
  intros md sec. unfold sec_ideal, m_get_all. destruct (assoc sec md); [|reflexivity].
  apply i_all_entries_same.
Qed.

Lemma i_all_sec_other : forall md sec sec', sec' <> sec -> i_all (sec_ideal md sec') sec = [].
Proof.
  intros md sec sec' H. unfold sec_ideal. destruct (assoc sec' md); [|reflexivity].
  apply i_all_entries_other, H.
Qed.

Lemma i_all_ideal_of : forall md sec, sec_ok sec = true -> i_all (ideal_of md) sec = m_get_all md sec.
Proof.
  intros md sec Hok. unfold ideal_of. rewrite i_all_app. unfold sec_ok in Hok.
  destruct (teqb sec s_p) eqn:Ep.
  - apply teqb_eq in Ep. subst sec. rewrite i_all_sec_same, i_all_sec_other by discriminate.
    apply app_nil_r.
  - cbn [orb] in Hok. apply teqb_eq in Hok. subst sec.
    rewrite i_all_sec_same, i_all_sec_other by discriminate. reflexivity.
Qed.

Lemma sec_ideal_map_ast : forall f md sec, (forall a, a_policy (f a) = a_policy a) ->
  sec_ideal (map_ast f md) sec = sec_ideal md sec.
Proof.
  intros f md sec Hf. unfold sec_ideal. rewrite assoc_map_ast.
  destruct (assoc sec md) as [am|]; cbn [option_map]; [|reflexivity].
  unfold sec_entries. rewrite map_map. apply map_ext. intros [k a]. cbn [fst snd]. rewrite Hf. reflexivity.
Qed.

Lemma ideal_of_eqh : forall md md', eqh md md' -> ideal_of md = ideal_of md'.
Proof.
  intros md md' E. unfold ideal_of.
  rewrite <- (sec_ideal_map_ast (fun a => with_handle a HOwn) md s_p) by reflexivity.
  rewrite <- (sec_ideal_map_ast (fun a => with_handle a HOwn) md s_g) by reflexivity.
  rewrite <- (sec_ideal_map_ast (fun a => with_handle a HOwn) md' s_p) by reflexivity.
  rewrite <- (sec_ideal_map_ast (fun a => with_handle a HOwn) md' s_g) by reflexivity.
  fold (erase_h md). fold (erase_h md'). rewrite E. reflexivity.
Qed.

Lemma assoc_clear_sec : forall (md : model) sec sec',
  assoc sec' (clear_sec md sec) =
  if teqb sec' sec
  then option_map (map (fun ka => (fst ka, with_policy (snd ka) []))) (assoc sec' md)
  else assoc sec' md.
Proof.
  intros md sec sec'. unfold clear_sec. destruct (assoc sec md) as [am|] eqn:Es.
  - destruct (teqb sec' sec) eqn:E.
    + apply teqb_eq in E. subst sec'. rewrite assoc_set_same, Es. reflexivity.
    + apply assoc_set_other. apply teqb_neq in E. auto.
  - destruct (teqb sec' sec) eqn:E; [|reflexivity]. apply teqb_eq in E. subst sec'. rewrite Es. reflexivity.
Qed.

Lemma assoc_clear_policy : forall (md : model) sec,
  assoc sec (m_clear_policy md) =
  if sec_ok sec
  then option_map (map (fun ka => (fst ka, with_policy (snd ka) []))) (assoc sec md)
  else assoc sec md.
Proof.
  intros md sec. unfold m_clear_policy, sec_ok. rewrite !assoc_clear_sec.
  destruct (teqb sec s_p) eqn:Ep, (teqb sec s_g) eqn:Eg; try reflexivity.
  apply teqb_eq in Ep, Eg. subst. discriminate.
Qed.

Lemma sec_ideal_clear : forall md sec, sec_ok sec = true ->
  sec_ideal (m_clear_policy md) sec = map (fun e => (fst e, [])) (sec_ideal md sec).
Proof.
  intros md sec Hok. unfold sec_ideal. rewrite assoc_clear_policy, Hok.
  destruct (assoc sec md) as [am|]; cbn [option_map]; [|reflexivity].
  unfold sec_entries. rewrite !map_map. apply map_ext. intros [k a]. reflexivity.
Qed.

Lemma ideal_of_clear : forall md,
  ideal_of (m_clear_policy md) = map (fun e => (fst e, [])) (ideal_of md).
Proof.
  intros md. unfold ideal_of. rewrite map_app, !sec_ideal_clear by reflexivity. reflexivity.
Qed.

(* ---- the model's own trace ---- *)
Fixpoint model_trace (s : estate) (ops : list op) : list (op * outcome bool * list rule * list rule) :=
  match ops with
  | [] => []
  | o :: ops' =>
    let (s', res) := step s o in
    (o, res, m_get_all (e_model s') s_p, m_get_all (e_model s') s_g) :: model_trace s' ops'
  end.

(* an adapter that always says yes *)
Definition accepting (s : estate) : Prop := e_auto_save s = false \/ e_adapter s = ANull.

Definition p_only_rbac (r : rbac_op) : bool :=
  match r with
  | RAddPermission _ _ | RAddPermissions _ _ | RDeletePermission _
  | RDeletePermissionFor _ _ | RDeletePermissionsFor _ => true
  | _ => false
  end.
(* management calls on sections p/g; with automatic role-link maintenance
   switched on (ab) only the calls that do not reach it *)
Definition in_scope (ab : bool) (o : op) : bool :=
  match o with
  | OAdd sec _ _ | OAddMany sec _ _ | ORemove sec _ _ | ORemoveMany sec _ _
  | ORemoveFiltered sec _ _ _ => sec_ok sec && (negb ab || negb (teqb sec s_g))
  | ORbac r => negb ab || p_only_rbac r
  | OClear => negb ab
  | _ => false
  end.

Lemma accepting_call : forall s sec pt b, accepting s -> adapter_call s sec pt b = (e_adapter s, Ok true).
Proof. intros s sec pt b [H|H]; [apply accepts_no_auto_save, H|apply accepts_null, H]. Qed.

Lemma basic_ideal : forall s sec pt b s' res,
  accepting s -> sec_ok sec = true -> (e_auto_build s = false \/ teqb sec s_g = false) ->
  step_basic s sec pt b = (s', res) ->
  i_basic (ideal_of (e_model s)) sec pt b = (ideal_of (e_model s'), res) /\
  accepting s' /\ e_auto_build s' = e_auto_build s.
Proof.
  intros s sec pt b s' res Hacc Hok Hsc Hs.
  pose proof (accepting_call s sec pt b Hacc) as Hc.
  rewrite (step_basic_accept s sec pt b _ Hc) in Hs.
  unfold i_basic. rewrite i_get_ideal_of, Hok.
  assert (Acc1 : accepting (upd_adapter s (e_adapter s))) by exact Hacc.
  destruct (get_ast (e_model s) sec pt) as [a|] eqn:Hg; cbn [option_map].
  - destruct (sp_apply b (a_policy a)) as [[[l' flag] rs]|] eqn:Ha.
    + rewrite links_tail_inactive in Hs.
      * inversion Hs; subst. rewrite emit_mgmt_model. cbn [e_model upd_model].
        rewrite (ideal_of_set_policy _ sec pt l' a Hok Hg). split; [reflexivity|].
        pose proof (emit_mgmt_frame (upd_model (upd_adapter s (e_adapter s)) (set_policy (e_model s) sec pt l'))
                                    flag (bop_event sec pt b rs)) as Fr.
        destruct Fr as (_ & _ & Fsv & Fab & _). split; [|exact Fab].
        unfold accepting. rewrite Fsv, emit_mgmt_adapter. exact Hacc.
      * unfold links_active.
        rewrite (frame_auto_build _ _ (emit_mgmt_frame _ flag (bop_event sec pt b rs))).
        cbn [e_auto_build upd_model upd_adapter].
        destruct Hsc as [->| ->]; [rewrite andb_false_r|]; reflexivity.
    + inversion Hs; subst. repeat split. exact Hacc.
  - inversion Hs; subst. repeat split. exact Hacc.
Qed.

Lemma rbac_scope : forall ab r, negb ab || p_only_rbac r = true ->
  (exists sec pt b, bop_of (fst (rbac_ops r)) = Some (sec, pt, b) /\ sec_ok sec = true /\
                    (ab = false \/ teqb sec s_g = false)) /\
  (forall o2, snd (rbac_ops r) = Some o2 ->
              exists sec pt b, bop_of o2 = Some (sec, pt, b) /\ sec_ok sec = true /\
                               (ab = false \/ teqb sec s_g = false)).
Proof.
  intros ab r H. destruct ab; cbn [negb orb] in H.
  - destruct r; cbn [p_only_rbac] in H; try discriminate; cbn [rbac_ops fst snd bop_of]; split;
      try (intros o2 Ho; discriminate);
      do 3 eexists; (split; [reflexivity|split; [reflexivity|right; reflexivity]]).
  - destruct r; cbn [rbac_ops fst snd bop_of]; split;
      try (intros o2 Ho; inversion Ho; subst; cbn [bop_of]); try discriminate;
      do 3 eexists; (split; [reflexivity|split; [reflexivity|left; reflexivity]]).
Qed.

Lemma op_ideal : forall s o sec pt b s' res,
  accepting s -> bop_of o = Some (sec, pt, b) -> sec_ok sec = true ->
  (e_auto_build s = false \/ teqb sec s_g = false) ->
  step s o = (s', res) ->
  i_op (ideal_of (e_model s)) o = Some (ideal_of (e_model s'), res) /\
  accepting s' /\ e_auto_build s' = e_auto_build s.
Proof.
  intros s o sec pt b s' res Hacc Hb Hok Hsc Hs. rewrite (step_is_basic s o sec pt b Hb) in Hs.
  destruct (basic_ideal s sec pt b s' res Hacc Hok Hsc Hs) as (I & A & B).
  unfold i_op. rewrite Hb, Hok, I. repeat split; assumption.
Qed.

Lemma step_ideal : forall s o s' res,
  accepting s -> in_scope (e_auto_build s) o = true -> step s o = (s', res) ->
  ideal_step (ideal_of (e_model s)) o = Some (ideal_of (e_model s'), res) /\
  accepting s' /\ e_auto_build s' = e_auto_build s.
Proof.
  assert (Sc : forall ab sec, sec_ok sec && (negb ab || negb (teqb sec s_g)) = true ->
                              sec_ok sec = true /\ (ab = false \/ teqb sec s_g = false)).
  { intros ab sec H. apply andb_true_iff in H. destruct H as [H1 H2]. split; [exact H1|].
    destruct ab; [right|left; reflexivity]. cbn [negb orb] in H2. apply negb_true_iff, H2. }
  intros s o s' res Hacc Hin Hs. destruct o; cbn [in_scope] in Hin; try discriminate.
  - destruct (Sc _ _ Hin) as [Hok Hsc]. apply (op_ideal s (OAdd sec pt r) sec pt (BAdd r) s' res Hacc eq_refl Hok Hsc Hs).
  - destruct (Sc _ _ Hin) as [Hok Hsc]. apply (op_ideal s (OAddMany sec pt rs) sec pt (BAddMany rs) s' res Hacc eq_refl Hok Hsc Hs).
  - destruct (Sc _ _ Hin) as [Hok Hsc]. apply (op_ideal s (ORemove sec pt r) sec pt (BRemove r) s' res Hacc eq_refl Hok Hsc Hs).
  - destruct (Sc _ _ Hin) as [Hok Hsc]. apply (op_ideal s (ORemoveMany sec pt rs) sec pt (BRemoveMany rs) s' res Hacc eq_refl Hok Hsc Hs).
  - destruct (Sc _ _ Hin) as [Hok Hsc].
    apply (op_ideal s (ORemoveFiltered sec pt idx vals) sec pt (BFiltered idx vals) s' res Hacc eq_refl Hok Hsc Hs).
  - cbn [step] in Hs. rewrite step_rbac_ops in Hs. cbn [ideal_step].
    destruct (rbac_scope _ r Hin) as [[sec [pt [b [E1 [Hok1 Hsc1]]]]] H2].
    destruct (rbac_ops r) as [o1 [o2|]]; cbn [fst snd] in *.
    + destruct (H2 o2 eq_refl) as [sec2 [pt2 [b2 [E2 [Hok2 Hsc2]]]]].
      destruct (step s o1) as [s1 r1] eqn:Hs1.
      destruct (op_ideal s o1 sec pt b s1 r1 Hacc E1 Hok1 Hsc1 Hs1) as (I1 & A1 & B1).
      rewrite I1. unfold seq_or in Hs. unfold i_seq.
      destruct r1 as [a|e|]; try (inversion Hs; subst; repeat split; assumption).
      destruct (step s1 o2) as [s2 r2] eqn:Hs2.
      rewrite <- B1 in Hsc2.
      destruct (op_ideal s1 o2 sec2 pt2 b2 s2 r2 A1 E2 Hok2 Hsc2 Hs2) as (I2 & A2 & B2).
      rewrite I2. rewrite B1 in B2.
      destruct r2 as [b0|e|]; inversion Hs; subst; repeat split; assumption.
    + apply (op_ideal s o1 sec pt b s' res Hacc E1 Hok1 Hsc1 Hs).
  - cbn [step] in Hs. apply negb_true_iff in Hin.
    assert (Hc : clear_call s = (e_adapter s, LROk)).
    { unfold clear_call. destruct Hacc as [H|H]; rewrite H; [reflexivity|].
      destruct (e_auto_save s); reflexivity. }
    rewrite (step_clear_accept s _ Hc), Hin in Hs. cbv zeta in Hs. inversion Hs; subst.
    cbn [ideal_step]. rewrite emit_model. cbn [e_model upd_model]. rewrite ideal_of_clear.
    split; [reflexivity|].
    pose proof (emit_frame (upd_model (upd_adapter s (e_adapter s)) (m_clear_policy (e_model s))) EvClear) as Fr.
    destruct Fr as (_ & _ & Fsv & Fab & _). split; [|exact Fab].
    unfold accepting. rewrite Fsv, emit_adapter. exact Hacc.
Qed.

Lemma outcome_eqb_refl : forall r, outcome_eqb r r = true.
Proof. intros [[|]|[]|]; reflexivity. Qed.

Lemma rules_eqb_refl : forall l, rules_eqb l l = true.
Proof. intros l. unfold rules_eqb. apply (list_eqb_eq reqb reqb_eq). reflexivity. Qed.

(* the model's own observations satisfy the executable predicate *)
Theorem c04_check_model : forall ops s,
  accepting s -> Forall (fun o => in_scope (e_auto_build s) o = true) ops ->
  c04_check (ideal_of (e_model s)) (model_trace s ops) = true.
Proof.
  induction ops as [|o ops IH]; intros s Hacc Hsc; cbn [model_trace c04_check]; [reflexivity|].
  inversion Hsc as [|o' ops' Ho Hops]; subst.
  destruct (step s o) as [s' res] eqn:Hs. cbn [c04_check].
  destruct (step_ideal s o s' res Hacc Ho Hs) as (I & A & B). rewrite I.
  rewrite outcome_eqb_refl, !i_all_ideal_of, !rules_eqb_refl by reflexivity. cbn [andb].
  apply IH; [exact A|]. rewrite B. exact Hops.
Qed.

(* ================= statements on `step` itself ================= *)
Theorem step_mgmt_accept : forall s o sec pt b ad a l' flag rs s' res,
  bop_of o = Some (sec, pt, b) ->
  adapter_call s sec pt b = (ad, Ok true) ->
  get_ast (e_model s) sec pt = Some a ->
  sp_apply b (a_policy a) = Some (l', flag, rs) ->
  step s o = (s', res) ->
  m_get_policy (e_model s') sec pt = l' /\
  (forall sec' pt', (sec', pt') <> (sec, pt) ->
                    m_get_policy (e_model s') sec' pt' = m_get_policy (e_model s) sec' pt') /\
  eqh (e_model s') (set_policy (e_model s) sec pt l') /\
  e_adapter s' = ad /\ frame s s' /\
  res = mgmt_answer s sec pt b flag rs /\
  e_fs s' = set_rm (e_fs s) (mgmt_rm s sec pt b flag rs).
Proof.
  intros s o sec pt b ad a l' flag rs s' res Hb Hc Hg Ha Hs.
  rewrite (step_is_basic s o sec pt b Hb) in Hs. apply (mgmt_accept s sec pt b ad a l' flag rs s' res Hc Hg Ha Hs).
Qed.

(* when the role-link update is not reached the whole state is known *)
Theorem step_mgmt_accept_exact : forall s o sec pt b ad a l' flag rs,
  bop_of o = Some (sec, pt, b) ->
  adapter_call s sec pt b = (ad, Ok true) ->
  get_ast (e_model s) sec pt = Some a ->
  sp_apply b (a_policy a) = Some (l', flag, rs) ->
  links_active (bop_guard b) s sec flag = false ->
  step s o = (emit_mgmt (upd_model (upd_adapter s ad) (set_policy (e_model s) sec pt l')) flag
                        (bop_event sec pt b rs), Ok flag).
Proof.
  intros s o sec pt b ad a l' flag rs Hb Hc Hg Ha Hl.
  rewrite (step_is_basic s o sec pt b Hb), (step_basic_accept s sec pt b ad Hc), Hg, Ha.
  apply links_tail_inactive. unfold links_active in *.
  rewrite (frame_auto_build _ _ (emit_mgmt_frame _ flag (bop_event sec pt b rs))). exact Hl.
Qed.

Theorem step_mgmt_unknown : forall s o sec pt b ad,
  bop_of o = Some (sec, pt, b) -> adapter_call s sec pt b = (ad, Ok true) ->
  get_ast (e_model s) sec pt = None -> step s o = (upd_adapter s ad, Ok false).
Proof.
  intros s o sec pt b ad Hb Hc Hg. rewrite (step_is_basic s o sec pt b Hb). apply mgmt_unknown; assumption.
Qed.

Theorem step_mgmt_out_of_range : forall s o sec pt b ad a,
  bop_of o = Some (sec, pt, b) -> adapter_call s sec pt b = (ad, Ok true) ->
  get_ast (e_model s) sec pt = Some a -> sp_apply b (a_policy a) = None ->
  step s o = (upd_adapter s ad, Panic).
Proof.
  intros s o sec pt b ad a Hb Hc Hg Ha. rewrite (step_is_basic s o sec pt b Hb).
  apply (mgmt_out_of_range s sec pt b ad a); assumption.
Qed.

Theorem step_mgmt_refuse : forall s o sec pt b ad r,
  bop_of o = Some (sec, pt, b) -> adapter_call s sec pt b = (ad, r) -> r <> Ok true ->
  step s o = (upd_adapter s ad, r).
Proof.
  intros s o sec pt b ad r Hb Hc Hr. rewrite (step_is_basic s o sec pt b Hb).
  apply step_basic_refuse; assumption.
Qed.

Theorem rbac_one_call : forall s r o1, rbac_ops r = (o1, None) -> step s (ORbac r) = step s o1.
Proof. intros s r o1 H. cbn [step]. rewrite step_rbac_ops, H. reflexivity. Qed.

Theorem rbac_two_calls : forall s r o1 o2 s' c, rbac_ops r = (o1, Some o2) ->
  (step s (ORbac r) = (s', Ok c) <->
   exists s1 a b, step s o1 = (s1, Ok a) /\ step s1 o2 = (s', Ok b) /\ c = a || b).
Proof.
  intros s r o1 o2 s' c H. cbn [step]. rewrite step_rbac_ops, H, seq_or_ok_iff. split.
  - intros [a [b [H1 [H2 H3]]]]. exists (fst (step s o1)), a, b.
    destruct (step s o1) as [s1 r1]. cbn [fst snd] in *. subst r1. repeat split; assumption.
  - intros [s1 [a [b [H1 [H2 H3]]]]]. exists a, b. rewrite H1. cbn [fst snd]. repeat split; assumption.
Qed.

Theorem rbac_first_fails : forall s r o1 o2 s1 res, rbac_ops r = (o1, Some o2) ->
  step s o1 = (s1, res) -> (forall a, res <> Ok a) -> step s (ORbac r) = (s1, res).
Proof.
  intros s r o1 o2 s1 res H H1 Hn. cbn [step]. rewrite step_rbac_ops, H, H1. unfold seq_or.
  destruct res as [a|e|]; [exfalso; apply (Hn a); reflexivity|reflexivity|reflexivity].
Qed.

Theorem rbac_second_fails : forall s r o1 o2 s1 a s2 res, rbac_ops r = (o1, Some o2) ->
  step s o1 = (s1, Ok a) -> step s1 o2 = (s2, res) -> (forall b, res <> Ok b) ->
  step s (ORbac r) = (s2, res).
Proof.
  intros s r o1 o2 s1 a s2 res H H1 H2 Hn. cbn [step]. rewrite step_rbac_ops, H, H1. unfold seq_or.
  rewrite H2. destruct res as [b|e|]; [exfalso; apply (Hn b); reflexivity|reflexivity|reflexivity].
Qed.

Theorem step_clear_is : forall s, step s OClear = step_clear s.
Proof. reflexivity. Qed.
