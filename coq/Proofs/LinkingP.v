(* Part 21 - the LINKING theorems.  The translator (tools/rs2coq*.py, parts 1-19) regenerates Gen/*Gen.v from the Rust
   source on every run and each generated function is proved equal to the hand model's function; but the generated
   code of an upper layer calls hand-written PRIMITIVES (Gen/*Prims.v, Gen/*Rt.v, Model/Engine.v), not the generated
   code of the layer below.  This development closes the chain:

   1. INVENTORY (Proofs/LinkTabAP.v, Proofs/LinkTabBP.v, Proofs/LinkRmP.v, Proofs/LinkEnforceP.v, Proofs/LinkAddP.v,
      Proofs/LinkBuildP.v):
      for every primitive that stands for a function of the crate, a theorem link_<name>: the primitive equals the
      generated function of the lower layer, on the state representation and under the hypothesis of that layer's
      own theorem (rm_rep = rm_abs + rm_inv for the role manager, mem_wf for the memory adapter, abs for renf,
      ASCII for the regex-based text functions), each shown to hold on reachable states where a lemma says so
      (link_inv_reachable, link_handle_wf_reachable, link_mem_wf_initial / _invariant).
   2. LEAVES (Proofs/LinkLeavesP.v): the 367 definitions that restate std / third-party operations, by class, each
      row carrying the Gallina constant.  `untranslated_crate` below: the crate functions that are restated by hand
      and that NO part translates (findings of this part).
   3. CAPSTONE (this file): linked_add_then_enforce - add_named_policy / add_named_grouping_policy through the
      management API, then enforce - built ONLY from generated functions (with their callees substituted by the
      generated callees, `*_skel`), leaves and representation changes; equal to the model's step + enforce on every
      state that satisfies link_inv (an invariant of new_enforcer and step), under two NAMED hypotheses for the two
      missing links:
        ML_null_adapter     NullAdapter::add_policy returns Ok(true)  (src/adapter/null_adapter.rs is not translated);
        ML_regex_class      the model's decision is not an evaluation error  (Gen/FmapGen.v is proved against
                            Model/PathMatch.v only for patterns inside the modelled class; outside it the model's
                            built-in answers with an error, which the decision then is). *)
From CV Require Import Model.Base Model.Effector Model.RoleGraph Model.Expr Model.Enforce Model.Engine.
From CV Require Import Gen.RustStr Gen.RustVec.
From CV Require Import Proofs.BaseP Proofs.RoleGraphP Proofs.C13P Proofs.ExModels.
From CV Require Import PinChecks.PcRoleManagerGen.
From CV Require Export Proofs.LinkBaseP Proofs.LinkRmP Proofs.LinkInvP Proofs.LinkEnforceP Proofs.LinkAddP Proofs.LinkBuildP.
From CV Require Export Proofs.LinkLeavesP.
From Coq Require Import Lia.

(* ------------------------------------------------------------------ *)
(* crate functions restated by hand that no part translates            *)
Definition untranslated_crate : list (text * text) :=
  [ (T "Engine.ad0_* on ANull",
     T "src/adapter/null_adapter.rs: the ten constant methods of NullAdapter (neither translated nor pinned)");
    (T "EnforcerPrims.add_user_function / Enforcer2Rt.eng_register_function",
     T "FunctionMap::add_function (self.fm.insert) and Enforcer::register_function (match on OperatorFunction::ArgN, engine.register_fn): restated by hand in Gen/Enforcer2Rt.v");
    (T "Enforcer2Rt.fm_get_functions",
     T "FunctionMap::get_functions (self.fm.iter()): restated by hand");
    (T "Enforce.call_fn",
     T "the order in which a matcher call finds an added function, a role closure, a default function: tied to the registrations of the engine by eng_coherent, PARTIALLY (part 15, findings F1 / F2: builtins_unshadowed)") ].

Example untranslated_crate_count : length untranslated_crate = 4.
Proof. reflexivity. Qed.

(* ------------------------------------------------------------------ *)
(* the capstone                                                        *)

Section Capstone.
  Variable ptab : text -> option expr.           (* rhai's parser on the texts eval() may receive *)
  Variable ord : list text -> list text.         (* the iteration order of the hash containers *)
  Variable fuel : nat.                           (* the bound on the `while let` of has_link *)
  Variable null_add : text -> text -> rule -> outcome bool.   (* NullAdapter::add_policy *)

  (* add_named_policy (grouping = false) / add_named_grouping_policy (grouping = true), then enforce:
     the state after the call, what the call returned, the decision *)
  Definition linked_add_then_enforce (grouping : bool) (s : estate) (pt : text) (r : rule) (rv : list value)
    : estate * outcome bool * outcome bool :=
    let (s', o) := lk_add ord null_add grouping s pt r in
    (s', o, lk_enforce ptab ord fuel s' rv).

  Definition model_add_then_enforce (grouping : bool) (s : estate) (pt : text) (r : rule) (rv : list value)
    : estate * outcome bool * outcome bool :=
    let (s', o) := step s (OAdd (if grouping then s_g else s_p) pt r) in
    (s', o, enforce ptab s' rv).

  (* the state reached by the add *)
  Definition after_add (grouping : bool) (s : estate) (pt : text) (r : rule) : estate :=
    fst (step s (OAdd (if grouping then s_g else s_p) pt r)).

  Hypothesis Hord : ord_ok ord.
  Hypothesis ML_null_adapter : forall sec pt r, null_add sec pt r = Ok true.

  Theorem linked_add_then_enforce_agree : forall g s pt r rv,
    link_inv s -> fs_fuel_ok fuel (e_fs (after_add g s pt r)) ->
    linked_add_then_enforce g s pt r rv = model_add_then_enforce g s pt r rv \/
    (fst (linked_add_then_enforce g s pt r rv) = fst (model_add_then_enforce g s pt r rv) /\
     snd (model_add_then_enforce g s pt r rv) = Err EEvalc).
  Proof.
    intros g s pt r rv Hinv Hfuel. unfold linked_add_then_enforce, model_add_then_enforce, after_add in *.
    rewrite (lk_add_step ord Hord null_add ML_null_adapter g s pt r (proj1 Hinv)).
    pose proof (link_inv_step s (OAdd (if g then s_g else s_p) pt r) Hinv) as Hinv'.
    destruct (step s (OAdd (if g then s_g else s_p) pt r)) as [s' o]. cbn [fst snd] in *.
    destruct (lk_enforce_agree ptab ord fuel Hord s' rv Hinv' Hfuel) as [H|H].
    - left. rewrite H. reflexivity.
    - right. split; [reflexivity|exact H].
  Qed.

  (* the capstone: under ML_regex_class the linked path IS the model's *)
  Theorem capstone : forall g s pt r rv,
    link_inv s -> fs_fuel_ok fuel (e_fs (after_add g s pt r)) ->
    forall ML_regex_class : snd (model_add_then_enforce g s pt r rv) <> Err EEvalc,
    linked_add_then_enforce g s pt r rv = model_add_then_enforce g s pt r rv.
  Proof.
    intros g s pt r rv Hinv Hfuel Hne.
    destruct (linked_add_then_enforce_agree g s pt r rv Hinv Hfuel) as [H|[_ H]]; [exact H|contradiction].
  Qed.

  (* the state and the answer of the add never depend on the second hypothesis *)
  Theorem capstone_state : forall g s pt r rv, link_inv s ->
    fst (linked_add_then_enforce g s pt r rv) = (fst (step s (OAdd (if g then s_g else s_p) pt r)),
                                                 snd (step s (OAdd (if g then s_g else s_p) pt r))).
  Proof.
    intros g s pt r rv Hinv. unfold linked_add_then_enforce.
    rewrite (lk_add_step ord Hord null_add ML_null_adapter g s pt r (proj1 Hinv)).
    destruct (step s (OAdd (if g then s_g else s_p) pt r)) as [s' o]. reflexivity.
  Qed.
End Capstone.

(* on every reachable state, for every sufficient bound on the loop of has_link *)
Theorem capstone_reachable : forall ptab ord null_add d a w ops g pt r rv,
  ord_ok ord -> (forall sec pt r, null_add sec pt r = Ok true) ->
  let s := run_ops (fst (new_enforcer d a w)) ops in
  exists F, forall fuel, F <= fuel ->
    snd (model_add_then_enforce ptab g s pt r rv) <> Err EEvalc ->
    linked_add_then_enforce ptab ord fuel null_add g s pt r rv = model_add_then_enforce ptab g s pt r rv.
Proof.
  intros ptab ord null_add d a w ops g pt r rv Hord Hnull s.
  destruct (fs_fuel_exists (e_fs (after_add g s pt r))) as (F & HF). exists F. intros fuel Hf Hne.
  apply capstone; [exact Hord|exact Hnull|apply link_inv_reachable|apply HF, Hf|exact Hne].
Qed.

(* ------------------------------------------------------------------ *)
(* non-vacuity: the RBAC model over a memory adapter; a role link is added through the API, then the request of
   the new member is decided through the translated role manager *)
Definition cap_s0 : estate := mk rbac_def (mem [pl admin data1 read]).
Definition cap_null : text -> text -> rule -> outcome bool := fun _ _ _ => Ok true.

Example capstone_ex_hyps :
  ord_ok (@rev text) /\ link_inv cap_s0 /\
  fs_fuel_ok 4 (e_fs (after_add true cap_s0 s_g [alice; admin])) /\
  snd (model_add_then_enforce no_ptab true cap_s0 s_g [alice; admin] (req alice data1 read)) <> Err EEvalc.
Proof.
  split; [exact ord_ok_rev|]. split; [apply link_inv_new_enforcer|]. split.
  - split.
    + intros dk g H. vm_compute in H.
      repeat match type of H with (if ?c then _ else _) = _ => destruct c; [injection H as <-; vm_compute; lia|] end.
      discriminate H.
    + intros k m mx H. vm_compute in H. repeat destruct H as [H|H]; try discriminate H; contradiction.
  - vm_compute. discriminate.
Qed.

Example capstone_ex :
  (* before the add alice is refused; the linked path adds the link (memory adapter, model store, role manager)
     and decides the request as the model does *)
  lk_enforce no_ptab (@rev text) 4 cap_s0 (req alice data1 read) = Ok false /\
  linked_add_then_enforce no_ptab (@rev text) 4 cap_null true cap_s0 s_g [alice; admin] (req alice data1 read)
  = model_add_then_enforce no_ptab true cap_s0 s_g [alice; admin] (req alice data1 read) /\
  snd (fst (linked_add_then_enforce no_ptab (@rev text) 4 cap_null true cap_s0 s_g [alice; admin] (req alice data1 read))) = Ok true /\
  snd (linked_add_then_enforce no_ptab (@rev text) 4 cap_null true cap_s0 s_g [alice; admin] (req alice data1 read)) = Ok true /\
  e_adapter (fst (fst (linked_add_then_enforce no_ptab (@rev text) 4 cap_null true cap_s0 s_g [alice; admin] (req alice data1 read))))
  = mem [pl admin data1 read; gl alice admin].
Proof. vm_compute. repeat split. Qed.

(* build_role_links through the translated role manager, on the state the add left *)
Example link_build_ex :
  let s1 := fst (step cap_s0 (OAdd s_g s_g [alice; admin])) in
  rm_wf s1 /\ lk_build_role_links s1 = step s1 OBuildRoleLinks /\
  roles_for_user (fst (lk_build_role_links s1)) alice None = [admin].
Proof. split; [apply wf_step, wf_new_enforcer|]. vm_compute. split; reflexivity. Qed.

(* a policy rule through the same path (section "p": no role link is touched) *)
Example capstone_ex_p :
  linked_add_then_enforce no_ptab (@rev text) 4 cap_null false cap_s0 s_p [bob; data2; write] (req bob data2 write)
  = model_add_then_enforce no_ptab false cap_s0 s_p [bob; data2; write] (req bob data2 write) /\
  snd (linked_add_then_enforce no_ptab (@rev text) 4 cap_null false cap_s0 s_p [bob; data2; write] (req bob data2 write)) = Ok true.
Proof. vm_compute. repeat split. Qed.

(* ML_regex_class is needed: a regexMatch pattern outside the model's class, where the source answers and the
   model's built-in is an evaluation error *)
Definition cap_rx_def : modeldef :=
  {| d_model :=
       [(s_r, [(s_r, mk_ast (T "sub, obj, act") ex_rtoks)]);
        (s_p, [(s_p, mk_ast (T "sub, obj, act") ex_ptoks)]);
        (s_e, [(s_e, mk_ast s_allow_override [])]);
        (s_m, [(s_m, mk_ast (T "regexMatch(r_act, p_act)") [])])];
     d_mexprs := [(s_m, ECall (T "regexMatch") [EVar s_r (T "act"); EVar s_p (T "act")])] |}.
Example capstone_regex_class_needed :
  let s := mk cap_rx_def (mem []) in
  snd (model_add_then_enforce no_ptab false s s_p [alice; data1; T "^GET|POST$"] (req alice data1 (T "GETx"))) = Err EEvalc /\
  snd (linked_add_then_enforce no_ptab (@rev text) 4 cap_null false s s_p [alice; data1; T "^GET|POST$"] (req alice data1 (T "GETx"))) = Ok true.
Proof. vm_compute. split; reflexivity. Qed.
