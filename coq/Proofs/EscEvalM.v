(* Hand model of util::escape_eval (src/util.rs): Model/ has none - Model/Expr.v
   treats `eval(p.rule)` at the level of the expression tree (EEval) - so the
   scanner the translated function (Gen/RegexGen.v gen_escape_eval) is compared
   with is stated here, in the style of Expr.esc_go.  Executable, byte level.

   escape_eval: every `eval(` that starts at a word boundary and is followed,
   after bytes other than `)`, by a `)` becomes `eval(escape_assertion(`, the
   bytes up to that `)` are kept and the `)` becomes `))`  (regex ESC_E =
   \beval\(([^)]STAR)\)  with replace_all(m, "eval(escape_assertion(${1}))") ).
   Word bytes as in Expr.is_word (bytes >= 128 count as word bytes: ASCII text
   is the modelled domain, as for Expr.escape_assertion). *)
From CV Require Import Model.Base Model.Expr.

Definition rparen : ascii := ")"%char.
Definition eval_open : text := T "eval(".
Definition eval_open_esc : text := T "eval(escape_assertion(".

(* s = w ++ t: Some t *)
Fixpoint strip_word (w s : text) : option text :=
  match w, s with
  | [], _ => Some s
  | ch :: w', x :: s' => if Ascii.eqb x ch then strip_word w' s' else None
  | _ :: _, [] => None
  end.
Definition has_rparen (s : text) : bool := existsb (fun c => Ascii.eqb c rparen) s.

(* EScan pw: looking for a site, pw = the previous byte is a word byte;
   EIn n: inside a site, n more bytes of `eval(` to drop, then the argument *)
Inductive emode := EScan (pw : bool) | EIn (n : nat).

(* at a site: not after a word byte, `eval(` follows, and a `)` after it *)
Definition eval_site (pw : bool) (s : text) : bool :=
  negb pw && match strip_word eval_open s with Some r => has_rparen r | None => false end.

Fixpoint esc_eval_go (m : emode) (s : text) : text :=
  match s with
  | [] => []
  | c :: s' =>
    match m with
    | EScan pw =>
      if eval_site pw s then eval_open_esc ++ esc_eval_go (EIn 4) s'   (* c = `e`: drop `val(` *)
      else c :: esc_eval_go (EScan (is_word c)) s'
    | EIn (S n) => esc_eval_go (EIn n) s'
    | EIn 0 =>
      if Ascii.eqb c rparen then rparen :: rparen :: esc_eval_go (EScan false) s'
      else c :: esc_eval_go (EIn 0) s'
    end
  end.

Definition escape_eval (m : text) : text := esc_eval_go (EScan false) m.

Example escape_eval_ex1 :
  escape_eval (T "eval(p.sub_rule) && r.obj == p.obj") = T "eval(escape_assertion(p.sub_rule)) && r.obj == p.obj".
Proof. vm_compute. reflexivity. Qed.
Example escape_eval_ex2 :
  escape_eval (T "xeval(a) || eval() || eval(a(b)c) eval(x") = T "xeval(a) || eval(escape_assertion()) || eval(escape_assertion(a(b))c) eval(x".
Proof. vm_compute. reflexivity. Qed.
