(* Proofs about Model/Enforce.v and Model/Rename.v: the enforcement loop
   computes the PERM reference semantics (C01); context-qualified enforcement
   equals plain enforcement on a renamed copy (C17). *)
From CV Require Import Model.Base Model.Effector Model.RoleGraph Model.PathMatch Model.Expr
     Model.Enforce Model.Rename.
From CV Require Import Proofs.BaseP Proofs.EffectorP Proofs.ExprP.
From Coq Require Import Lia.

(* ================= B. C01: enforce_core = perm_ref ================= *)

(* a completed stream is readable *)
Lemma next_done s : done s = true -> next s = Some (res s).
Proof. unfold next. intros ->. reflexivity. Qed.

(* the loop over a non-empty remainder of the rule list, started from a stream
   that has consumed `seen` without completing *)
Lemma rules_loop_spec ptab fs m et ptoks sc0 er c : forall rules seen st,
  Inv er c seen st -> rules <> [] -> length seen + length rules = c ->
  rules_loop ptab fs m et ptoks sc0 st rules =
  perm_combine er seen (map (rule_outcome ptab fs m et ptoks sc0) rules).
Proof.
  induction rules as [|pvals rest IH]; intros seen st HI Hne Hlen; [contradiction|].
  cbn [rules_loop map perm_combine]. unfold rule_outcome at 1.
  destruct (negb (Nat.eqb (length ptoks) (length pvals))); [reflexivity|].
  destruct (eval_matcher ptab fs m (bind ptoks (map VStr pvals) sc0)) as [b|ec|];
    [|reflexivity|reflexivity].
  set (e := rule_effect et ptoks pvals b).
  pose proof (push_step er c seen st e HI) as (_ & _ & Hres & Hlast & Hmid).
  cbn zeta in Hres, Hlast, Hmid.
  destruct (done (push st e)) eqn:Hd.
  - rewrite (next_done _ Hd).
    destruct (Nat.eq_dec (length seen + 1) c) as [En|En].
    + (* last rule: the result is the declarative one *)
      assert (Hrest : rest = []) by (destruct rest; [reflexivity|cbn in Hlen; lia]).
      subst rest. cbn [map perm_combine]. rewrite Hres.
      destruct (forced er (seen ++ [e])) as [b'|] eqn:Hf; [|reflexivity].
      pose proof (forced_sound _ _ _ Hf []) as Hs. rewrite app_nil_r in Hs.
      rewrite Hs. reflexivity.
    + destruct (Hmid En) as (Hf & _). rewrite (Hf eq_refl). reflexivity.
  - assert (En : length seen + 1 <> c).
    { intros En. specialize (Hlast En). congruence. }
    destruct (Hmid En) as (_ & HI'). specialize (HI' eq_refl).
    destruct HI' as (H1 & H2 & H3 & H4 & H5 & Hf). rewrite Hf.
    assert (HI' : Inv er c (seen ++ [e]) (push st e)) by (repeat split; assumption).
    apply IH; [exact HI'| |].
    + destruct rest; [cbn in Hlen; lia|discriminate].
    + rewrite app_length. cbn in *. lia.
Qed.

(* capacity 1: the single push completes with the declarative result *)
Lemma single_push er e : next (push (new_stream_r er 1) e) = Some (decl er [e]).
Proof. destruct er, e; reflexivity. Qed.

Theorem enforce_is_perm : forall ptab enabled md mexprs fs rk pk ek mk eft_tok rvals,
  enforce_core ptab enabled md mexprs fs rk pk ek mk eft_tok rvals =
  perm_ref ptab enabled md mexprs fs rk pk ek mk eft_tok rvals.
Proof.
  intros ptab enabled md mexprs fs rk pk ek mk eft_tok rvals.
  unfold enforce_core, perm_ref.
  destruct (negb enabled); [reflexivity|].
  destruct (get_ast md s_r rk) as [r_ast|]; [|reflexivity].
  destruct (get_ast md s_p pk) as [p_ast|]; [|reflexivity].
  destruct (get_ast md s_m mk) as [m_ast|]; [|reflexivity].
  destruct (get_ast md s_e ek) as [e_ast|]; [|reflexivity].
  destruct (negb (Nat.eqb (length (a_tokens r_ast)) (length rvals))); [reflexivity|].
  cbv zeta. unfold new_stream.
  assert (Hc : Nat.eqb (Nat.max (length (a_policy p_ast)) 1) 0 = false).
  { apply Nat.eqb_neq. lia. }
  rewrite Hc.
  destruct (parse_erule (a_value e_ast)) as [er|]; [|reflexivity].
  destruct (assoc mk mexprs) as [m|]; [|reflexivity].
  destruct (a_policy p_ast) as [|r0 rules] eqn:Hpol.
  - destruct (eval_matcher ptab fs m _) as [b|ec|]; [|reflexivity|reflexivity].
    change (Nat.max (length (@nil rule)) 1) with 1.
    rewrite single_push. reflexivity.
  - apply rules_loop_spec with (c := Nat.max (length (r0 :: rules)) 1).
    + apply inv_init.
    + discriminate.
    + cbn [length]. lia.
Qed.

Corollary enforce_no_false_grant : forall ptab en md mx fs rk pk ek mk et rv,
  enforce_core ptab en md mx fs rk pk ek mk et rv = Ok true ->
  perm_ref ptab en md mx fs rk pk ek mk et rv = Ok true.
Proof. intros. rewrite <- enforce_is_perm. assumption. Qed.

Corollary enforce_no_false_deny : forall ptab en md mx fs rk pk ek mk et rv,
  enforce_core ptab en md mx fs rk pk ek mk et rv = Ok false ->
  perm_ref ptab en md mx fs rk pk ek mk et rv = Ok false.
Proof. intros. rewrite <- enforce_is_perm. assumption. Qed.

Theorem enforce_arity : forall ptab md mx fs rk pk ek mk et rv r_ast p_ast m_ast e_ast,
  get_ast md s_r rk = Some r_ast -> get_ast md s_p pk = Some p_ast ->
  get_ast md s_m mk = Some m_ast -> get_ast md s_e ek = Some e_ast ->
  length (a_tokens r_ast) <> length rv ->
  enforce_core ptab true md mx fs rk pk ek mk et rv = Err ERequest.
Proof.
  intros ptab md mx fs rk pk ek mk et rv r_ast p_ast m_ast e_ast Hr Hp Hm He Hlen.
  unfold enforce_core. cbn [negb]. rewrite Hr, Hp, Hm, He.
  apply Nat.eqb_neq in Hlen. rewrite Hlen. reflexivity.
Qed.

Theorem enforce_disabled : forall ptab md mx fs rk pk ek mk et rv,
  enforce_core ptab false md mx fs rk pk ek mk et rv = Ok true.
Proof. reflexivity. Qed.

(* fail-closed: an answer comes from a prefix of successfully evaluated rules
   whose effects force, or (at the end of the list) declaratively yield, it:
   an error or malformed rule that is reached never yields an answer *)
Lemma perm_combine_ok : forall r outs seen b,
  perm_combine r seen outs = Ok b ->
  exists effs rest, outs = map Ok effs ++ rest /\
    (forced r (seen ++ effs) = Some b \/ (rest = [] /\ decl r (seen ++ effs) = b)).
Proof.
  intros r. induction outs as [|o outs IH]; intros seen b H; cbn [perm_combine] in H.
  - exists [], []. split; [reflexivity|]. right. split; [reflexivity|].
    rewrite app_nil_r. inversion H. reflexivity.
  - destruct o as [e|ec|]; [|discriminate|discriminate].
    destruct (forced r (seen ++ [e])) as [b'|] eqn:Hf.
    + inversion H; subst b'. exists [e], outs. split; [reflexivity|]. left. exact Hf.
    + destruct (IH _ _ H) as (effs & rest & Hout & Hres).
      exists (e :: effs), rest. split.
      * cbn [map app]. rewrite Hout. reflexivity.
      * rewrite <- app_assoc in Hres. exact Hres.
Qed.

Theorem perm_combine_ok_true : forall r outs seen,
  perm_combine r seen outs = Ok true ->
  exists effs rest, outs = map Ok effs ++ rest /\
    (forced r (seen ++ effs) = Some true \/ (rest = [] /\ decl r (seen ++ effs) = true)).
Proof. intros r outs seen. apply perm_combine_ok. Qed.

(* the same at the level of the enforcer: a grant over a non-empty rule list
   is justified by a prefix of rules that all evaluated without error *)
Theorem enforce_grant_prefix :
  forall ptab md mx fs rk pk ek mk et rv r_ast p_ast m_ast e_ast er m,
  get_ast md s_r rk = Some r_ast -> get_ast md s_p pk = Some p_ast ->
  get_ast md s_m mk = Some m_ast -> get_ast md s_e ek = Some e_ast ->
  parse_erule (a_value e_ast) = Some er -> assoc mk mx = Some m ->
  a_policy p_ast <> [] ->
  enforce_core ptab true md mx fs rk pk ek mk et rv = Ok true ->
  exists effs rest,
    map (rule_outcome ptab fs m et (a_tokens p_ast) (bind (a_tokens r_ast) rv []))
        (a_policy p_ast) = map Ok effs ++ rest /\
    (forced er effs = Some true \/ (rest = [] /\ decl er effs = true)).
Proof.
  intros ptab md mx fs rk pk ek mk et rv r_ast p_ast m_ast e_ast er m
         Hr Hp Hm He Her Hmx Hne H.
  rewrite enforce_is_perm in H. unfold perm_ref in H. cbn [negb] in H.
  rewrite Hr, Hp, Hm, He, Her, Hmx in H.
  destruct (negb (Nat.eqb (length (a_tokens r_ast)) (length rv))); [discriminate|].
  destruct (a_policy p_ast) as [|r0 rules] eqn:Hpol; [contradiction|].
  apply perm_combine_ok_true in H. exact H.
Qed.

(* ================= C. C17: context-qualified = plain on a renamed copy ================= *)

(* the renaming on tokens: insert k after the first character
   ("r_sub" -> "r" ++ k ++ "_sub") *)
Definition ins (k t : text) : text :=
  match t with
  | [] => []
  | c :: t' => c :: k ++ t'
  end.

Lemma ins_inj k a b : ins k a = ins k b -> a = b.
Proof.
  destruct a as [|x a], b as [|y b]; cbn [ins]; intros H;
    try reflexivity; try discriminate.
  inversion H as [[Hx Hr]]. apply app_inv_head in Hr. subst. reflexivity.
Qed.

Lemma teqb_ins k a b : teqb (ins k a) (ins k b) = teqb a b.
Proof.
  destruct (teqb a b) eqn:E.
  - apply teqb_eq in E. subst. apply teqb_refl.
  - apply teqb_neq. apply teqb_neq in E. intros H. apply E, (ins_inj k), H.
Qed.

Lemma tok_ins k pre f : pre = s_r \/ pre = s_p -> tok (pre ++ k) f = ins k (tok pre f).
Proof. intros [->| ->]; reflexivity. Qed.

Lemma map_tok_ins k pre fs :
  pre = s_r \/ pre = s_p -> map (tok (pre ++ k)) fs = map (ins k) (map (tok pre) fs).
Proof.
  intros Hp. rewrite map_map. apply map_ext. intros f. apply tok_ins, Hp.
Qed.

(* the distinctness fact behind the renaming, in the form of the task statement
   (it does not need `no_underscore k`: the same k is inserted on both sides) *)
Lemma tok_suffix_inj k pre pre' f f' :
  (pre = s_r \/ pre = s_p) -> (pre' = s_r \/ pre' = s_p) ->
  (tok (pre ++ k) f = tok (pre' ++ k) f' <-> tok pre f = tok pre' f').
Proof.
  intros Hp Hp'. rewrite (tok_ins k pre f Hp), (tok_ins k pre' f' Hp'). split.
  - apply ins_inj.
  - intros ->. reflexivity.
Qed.

(* renaming the keys of an association list *)
Definition mapk {A} (g : text -> text) (l : list (text * A)) : list (text * A) :=
  map (fun p => (g (fst p), snd p)) l.

Lemma assoc_mapk {A} k t (l : list (text * A)) : assoc (ins k t) (mapk (ins k) l) = assoc t l.
Proof.
  induction l as [|[t' v] l IH]; cbn [mapk map assoc fst snd]; [reflexivity|].
  rewrite teqb_ins. destruct (teqb t t'); [reflexivity|exact IH].
Qed.

Lemma combine_mapk {A} g : forall xs (vs : list A),
  combine (map g xs) vs = mapk g (combine xs vs).
Proof.
  induction xs as [|x xs IH]; intros vs; [reflexivity|].
  destruct vs as [|v vs]; [reflexivity|]. cbn [map combine mapk fst snd].
  rewrite IH. reflexivity.
Qed.

Lemma bind_mapk g toks vals sc :
  bind (map g toks) vals (mapk g sc) = mapk g (bind toks vals sc).
Proof.
  unfold bind. rewrite combine_mapk. unfold mapk. rewrite map_app, map_rev. reflexivity.
Qed.

Lemma index_of_ins k x : forall l, index_of (ins k x) (map (ins k) l) = index_of x l.
Proof.
  induction l as [|y l IH]; cbn [map index_of]; [reflexivity|].
  rewrite teqb_ins, IH. reflexivity.
Qed.

(* scopes correspond: the k-suffixed r/p tokens are bound in sc2 as the plain
   ones are in sc1 *)
Definition sc_corr (k : text) (sc1 sc2 : list (text * value)) : Prop :=
  forall pre f, pre = s_r \/ pre = s_p ->
    assoc (tok (pre ++ k) f) sc2 = assoc (tok pre f) sc1.

Lemma sc_corr_mapk k sc : sc_corr k sc (mapk (ins k) sc).
Proof.
  intros pre f Hp. rewrite (tok_ins k pre f Hp). apply assoc_mapk.
Qed.

Lemma rp_pre p : teqb p s_r || teqb p s_p = true -> p = s_r \/ p = s_p.
Proof.
  intros H. apply orb_true_iff in H. destruct H as [H|H]; apply teqb_eq in H; auto.
Qed.

Lemma Forall_imp_In {A} (P Q : A -> Prop) xs :
  Forall (fun y => P y -> Q y) xs -> (forall y, In y xs -> P y) -> Forall Q xs.
Proof.
  intros HF HP. rewrite Forall_forall in *. intros y Hy. apply HF; auto.
Qed.

(* key lemma: evaluating the renamed matcher in the renamed scope *)
Lemma eval_rename call ptab k sc1 sc2 fuel e :
  sc_corr k sc1 sc2 ->
  rp_vars e = true ->
  eval call ptab sc2 fuel (rename_expr k e) = eval call ptab sc1 fuel e.
Proof.
  intros Hs.
  induction e as [v|p f|a f IHa|a b IHa IHb|a b IHa IHb|c a b IHa IHb|a b IHa IHb
                  |a b IHa IHb|a IHa|a xs IHa IHxs|f args IHargs|p f] using expr_ind';
    cbn [rename_expr rp_vars]; intros Hrp;
    rewrite ?eval_ELit, ?eval_EVar, ?eval_EProp, ?eval_EEq, ?eval_ENeq, ?eval_ECmp,
      ?eval_EAnd, ?eval_EOr, ?eval_ENot, ?eval_EIn, ?eval_ECall;
    try (apply andb_true_iff in Hrp; destruct Hrp as [Hra Hrb]);
    try (rewrite ?IHa, ?IHb by assumption; reflexivity).
  - rewrite (Hs p f (rp_pre p Hrp)). reflexivity.
  - rewrite IHa by assumption.
    destruct (eval call ptab sc1 fuel a); try reflexivity.
    apply in_go_map. rewrite forallb_forall in Hrb.
    eapply Forall_imp_In; [exact IHxs|exact Hrb].
  - apply call_go_map; [reflexivity|].
    rewrite forallb_forall in Hrp.
    eapply Forall_imp_In; [exact IHargs|exact Hrp].
  - discriminate.
Qed.

Lemma eval_matcher_rename ptab fs k sc1 sc2 m :
  sc_corr k sc1 sc2 -> rp_vars m = true ->
  eval_matcher ptab fs (rename_expr k m) sc2 = eval_matcher ptab fs m sc1.
Proof.
  intros Hs Hrp. unfold eval_matcher. rewrite (eval_rename _ _ k sc1 sc2); auto.
Qed.

Lemma rule_effect_rename k pf pvals b :
  rule_effect (tok (s_p ++ k) s_eft) (map (tok (s_p ++ k)) pf) pvals b =
  rule_effect (tok s_p s_eft) (map (tok s_p) pf) pvals b.
Proof.
  unfold rule_effect.
  rewrite (tok_ins k s_p s_eft) by auto. rewrite (map_tok_ins k s_p pf) by auto.
  rewrite index_of_ins. reflexivity.
Qed.

Lemma rules_loop_rename ptab fs k m pf sc1 : forall rules st,
  rp_vars m = true ->
  rules_loop ptab fs (rename_expr k m) (tok (s_p ++ k) s_eft) (map (tok (s_p ++ k)) pf)
             (mapk (ins k) sc1) st rules =
  rules_loop ptab fs m (tok s_p s_eft) (map (tok s_p) pf) sc1 st rules.
Proof.
  intros rules st Hrp. revert st.
  induction rules as [|pvals rest IH]; intros st; cbn [rules_loop]; [reflexivity|].
  rewrite !map_length.
  destruct (negb (Nat.eqb (length pf) (length pvals))); [reflexivity|].
  rewrite (eval_matcher_rename ptab fs k
             (bind (map (tok s_p) pf) (map VStr pvals) sc1)).
  - destruct (eval_matcher ptab fs m _) as [b|ec|]; try reflexivity.
    rewrite rule_effect_rename.
    destruct (done (push st _)); [reflexivity|]. apply IH.
  - rewrite (map_tok_ins k s_p pf) by auto. rewrite bind_mapk. apply sc_corr_mapk.
  - exact Hrp.
Qed.

Theorem ctx_eq_plain : forall ptab k enabled md1 md2 mx1 mx2 fs rvals,
  no_underscore k = true ->
  renamed_copy k md1 md2 mx1 mx2 ->
  enforce_ctx ptab enabled md2 mx2 fs k rvals = enforce_plain ptab enabled md1 mx1 fs rvals.
Proof.
  (* `no_underscore k` is not used: see the remark at tok_suffix_inj *)
  intros ptab k enabled md1 md2 mx1 mx2 fs rvals _ Hcopy.
  destruct Hcopy as (rf & pf & r1 & p1 & e1 & m1 & r2 & p2 & e2 & m2 & mx &
    Hr1 & Hp1 & He1 & Hm1 & Hr2 & Hp2 & He2 & Hm2 &
    Htr1 & Htr2 & Htp1 & Htp2 & Hpol & Hval & Hmx1 & Hmx2 & Hrp).
  unfold enforce_ctx, enforce_plain, enforce_core.
  destruct (negb enabled); [reflexivity|].
  rewrite Hr1, Hp1, He1, Hm1, Hr2, Hp2, He2, Hm2.
  rewrite Htr1, Htr2, Htp1, Htp2, Hpol, Hval, Hmx1, Hmx2. rewrite !map_length.
  destruct (negb (Nat.eqb (length rf) (length rvals))); [reflexivity|].
  cbv zeta.
  destruct (new_stream (a_value e1) (Nat.max (length (a_policy p1)) 1)) as [st|];
    [|reflexivity].
  assert (Hsc0 : bind (map (tok (s_r ++ k)) rf) rvals [] =
                 mapk (ins k) (bind (map (tok s_r) rf) rvals [])).
  { rewrite (map_tok_ins k s_r rf) by auto. rewrite <- bind_mapk. reflexivity. }
  rewrite Hsc0.
  destruct (a_policy p1) as [|r0 rules].
  - rewrite (eval_matcher_rename ptab fs k
               (bind (map (tok s_p) pf) (map (fun _ => VStr []) (map (tok s_p) pf))
                     (bind (map (tok s_r) rf) rvals []))).
    + reflexivity.
    + rewrite (map_tok_ins k s_p pf) by auto. rewrite (map_map (ins k)).
      rewrite bind_mapk. apply sc_corr_mapk.
    + exact Hrp.
  - apply rules_loop_rename, Hrp.
Qed.
