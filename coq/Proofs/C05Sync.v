(* C05, part 2: the RoleSync invariant, the model-level set operations as
   changes of one definition's rule list, and the incremental link update. *)
From CV Require Import Model.Base Model.RoleGraph Model.Expr Model.Enforce Model.Engine Model.SpecC05.
From CV Require Import Proofs.ListAux Proofs.BaseP Proofs.RoleGraphP Proofs.C05Links.
From Coq Require Import Lia.

(* ---------- association lists ---------- *)
Lemma assoc_split : forall {A} k (v : A) l, assoc k l = Some v ->
  exists l1 l2, l = l1 ++ (k, v) :: l2 /\ forall v', assoc_set k v' l = l1 ++ (k, v') :: l2.
Proof.
  intros A k v l. induction l as [|[k' v0] l IH]; cbn [assoc]; intros H; [discriminate|].
  destruct (teqb k k') eqn:E.
  - apply teqb_eq in E. subst k'. inversion H; subst v0. exists [], l. split; [reflexivity|].
    intros v'. cbn [assoc_set]. rewrite teqb_refl. reflexivity.
  - destruct (IH H) as (l1 & l2 & Hl & Hs). exists ((k', v0) :: l1), l2. split.
    + rewrite Hl. reflexivity.
    + intros v'. cbn [assoc_set]. rewrite E, Hs. reflexivity.
Qed.

Lemma assoc_set_id : forall {A} k (v : A) l, assoc k l = Some v -> assoc_set k v l = l.
Proof.
  intros A k v l H. destruct (assoc_split k v l H) as (l1 & l2 & Hl & Hs).
  rewrite Hs. symmetry. exact Hl.
Qed.

Lemma set_ast_id : forall md sec k a, get_ast md sec k = Some a -> set_ast md sec k a = md.
Proof.
  intros md sec k a H. unfold get_ast in H. unfold set_ast.
  destruct (assoc sec md) as [am|] eqn:Hs; [|reflexivity].
  rewrite (assoc_set_id k a am H). apply assoc_set_id, Hs.
Qed.

Lemma with_handle_id : forall a, a_handle a = HCur -> with_handle a HCur = a.
Proof. intros [v t p h] H. cbn in H. subst h. reflexivity. Qed.

Lemma gsec_set_ast_g : forall md am pt a, assoc s_g md = Some am ->
  gsec (set_ast md s_g pt a) = assoc_set pt a am.
Proof.
  intros md am pt a H. unfold set_ast, gsec. rewrite H, assoc_set_same. reflexivity.
Qed.

Lemma gsec_set_ast_other : forall md sec pt a, sec <> s_g -> gsec (set_ast md sec pt a) = gsec md.
Proof.
  intros md sec pt a Hne. unfold set_ast, gsec. destruct (assoc sec md); [|reflexivity].
  rewrite assoc_set_other by exact Hne. reflexivity.
Qed.

Lemma get_ast_g : forall md pt a, get_ast md s_g pt = Some a -> assoc pt (gsec md) = Some a.
Proof.
  intros md pt a H. unfold get_ast in H. unfold gsec. destruct (assoc s_g md); [exact H|discriminate].
Qed.

Lemma get_ast_g_some : forall md pt a, get_ast md s_g pt = Some a -> assoc s_g md = Some (gsec md).
Proof.
  intros md pt a H. unfold get_ast in H. unfold gsec. destruct (assoc s_g md); [reflexivity|discriminate].
Qed.

(* ---------- the invariant ---------- *)
Definition handles_cur (am : amap) : Prop := forall k a, In (k, a) am -> a_handle a = HCur.
Definition registered (am : amap) (gf : list ((text * nat) * handle)) : Prop :=
  forall k a, In (k, a) am -> find_gfun (k, count_us (a_value a)) gf = Some HCur.

(* without the registration clause *)
Definition RS0 (am : amap) (m : rmgr) : Prop :=
  wf m /\
  (forall d p, In p (edges_of m d) <-> In p (links_of_am am (dom_key d))) /\
  handles_cur am.
Definition RS (am : amap) (fs : fstate) : Prop := RS0 am (f_rm fs) /\ registered am (f_gfuns fs).

(* (2) the role graph of every domain holds exactly the links the stored
   grouping rules stand for; handles and g-functions point at the current
   manager *)
Definition RoleSync (s : estate) : Prop := RS (gsec (e_model s)) (e_fs s).

Lemma RoleSync_ext : forall s s', gsec (e_model s') = gsec (e_model s) -> e_fs s' = e_fs s ->
  RoleSync s -> RoleSync s'.
Proof. intros s s' Hm Hf H. unfold RoleSync. rewrite Hm, Hf. exact H. Qed.

Lemma RS0_edges : forall am m, RS0 am m ->
  forall d p, In p (edges_of m d) <-> In (dom_key d, p) (all_links am).
Proof. intros am m (_ & H & _) d p. rewrite H. apply links_of_am_In. Qed.

Lemma RS0_intro : forall am m, wf m ->
  (forall d p, In p (edges_of m d) <-> In (dom_key d, p) (all_links am)) ->
  handles_cur am -> RS0 am m.
Proof.
  intros am m Hwf He Hh. split; [exact Hwf|]. split; [|exact Hh].
  intros d p. rewrite He. symmetry. apply links_of_am_In.
Qed.

(* ---------- set membership helpers ---------- *)
Lemma rmem_In : forall r l, rmem r l = true <-> In r l.
Proof. intros r l. apply memb_reqb_In. Qed.

Lemma rmem_not_In : forall r l, rmem r l = false <-> ~ In r l.
Proof.
  intros r l. split.
  - intros H Hin. apply rmem_In in Hin. rewrite Hin in H. discriminate.
  - intros H. destruct (rmem r l) eqn:E; [|reflexivity]. apply rmem_In in E. contradiction.
Qed.

Lemma rremove_In : forall r l x, In x (rremove r l) <-> In x l /\ x <> r.
Proof.
  intros r l x. unfold rremove. rewrite filter_In, negb_true_iff, reqb_neq. reflexivity.
Qed.

Lemma ins_new_In : forall l r x, In x (ins_new l r) <-> In x l \/ x = r.
Proof.
  intros l r x. unfold ins_new. destruct (rmem r l) eqn:E.
  - apply rmem_In in E. split; [auto|]. intros [H| ->]; assumption.
  - rewrite in_app_iff. cbn [In]. split; intros [H|H]; auto.
    + destruct H as [H|[]]. auto.
Qed.

Lemma fold_ins_new_In : forall rs l x, In x (fold_left ins_new rs l) <-> In x l \/ In x rs.
Proof.
  induction rs as [|r rs IH]; intros l x; cbn [fold_left In]; [tauto|].
  rewrite IH, ins_new_In. split.
  - intros [[H|H]|H]; auto.
  - intros [H|[H|H]]; auto.
Qed.

Lemma fold_rremove_In : forall rs l x,
  In x (fold_left (fun l r => rremove r l) rs l) <-> In x l /\ ~ In x rs.
Proof.
  induction rs as [|r rs IH]; intros l x; cbn [fold_left In]; [tauto|].
  rewrite IH, rremove_In. split.
  - intros [[H1 H2] H3]. split; [exact H1|]. intros [H|H]; [apply H2; symmetry; exact H|contradiction].
  - intros [H1 H2]. split; [split; [exact H1|]|].
    + intros H. apply H2. left. symmetry. exact H.
    + intros H. apply H2. right. exact H.
Qed.

Lemma select_filtered_incl : forall idx vals l s, select_filtered idx vals l = Some s -> incl s l.
Proof.
  intros idx vals. induction l as [|r l IH]; intros s H; cbn [select_filtered] in H.
  - inversion H. intros x [].
  - destruct (fmatch vals (skipn idx r)) as [b|]; [|discriminate].
    destruct (select_filtered idx vals l) as [s'|]; [|discriminate].
    inversion H; subst s. specialize (IH s' eq_refl). destruct b.
    + intros x [<-|Hx]; [left; reflexivity|right; apply IH, Hx].
    + intros x Hx. right. apply IH, Hx.
Qed.

(* ---------- the model-level operations as a change of one rule list ---------- *)
Definition polrel (ins : bool) (pol rs pol' : list rule) : Prop :=
  if ins then (forall x, In x pol' <-> In x pol \/ In x rs)
  else (forall x, In x pol' <-> In x pol /\ ~ In x rs) /\ incl rs pol.

Inductive mchange (md md' : model) (sec pt : text) (ins : bool) (rs : list rule) : bool -> Prop :=
| mc_same : md' = md -> mchange md md' sec pt ins rs false
| mc_chg : forall a pol', get_ast md sec pt = Some a ->
    md' = set_ast md sec pt (with_policy a pol') ->
    polrel ins (a_policy a) rs pol' ->
    mchange md md' sec pt ins rs true.

Lemma m_add_policy_change : forall md sec pt r md' ch,
  m_add_policy md sec pt r = (md', ch) -> mchange md md' sec pt true [r] ch.
Proof.
  intros md sec pt r md' ch H. unfold m_add_policy in H.
  destruct (get_ast md sec pt) as [a|] eqn:Ha.
  - destruct (rmem r (a_policy a)); inversion H; subst.
    + apply mc_same. reflexivity.
    + apply (mc_chg _ _ _ _ _ _ a (a_policy a ++ [r]) Ha eq_refl).
      intros x. apply in_app_iff.
  - inversion H; subst. apply mc_same. reflexivity.
Qed.

Lemma m_add_policies_change : forall md sec pt rs md' ch,
  m_add_policies md sec pt rs = (md', ch) -> mchange md md' sec pt true rs ch.
Proof.
  intros md sec pt rs md' ch H. unfold m_add_policies in H.
  destruct rs as [|r0 rs0]; [inversion H; subst; apply mc_same; reflexivity|].
  destruct (get_ast md sec pt) as [a|] eqn:Ha.
  - destruct (existsb _ _); inversion H; subst.
    + apply mc_same. reflexivity.
    + apply (mc_chg _ _ _ _ _ _ a (fold_left ins_new (r0 :: rs0) (a_policy a)) Ha eq_refl).
      intros x. apply fold_ins_new_In.
  - inversion H; subst. apply mc_same. reflexivity.
Qed.

Lemma m_remove_policy_change : forall md sec pt r md' ch,
  m_remove_policy md sec pt r = (md', ch) -> mchange md md' sec pt false [r] ch.
Proof.
  intros md sec pt r md' ch H. unfold m_remove_policy in H.
  destruct (get_ast md sec pt) as [a|] eqn:Ha.
  - destruct (rmem r (a_policy a)) eqn:E; inversion H; subst.
    + apply (mc_chg _ _ _ _ _ _ a _ Ha eq_refl). split.
      * intros x. rewrite rremove_In. cbn [In]. split.
        -- intros [H1 H2]. split; [exact H1|]. intros [H3|[]]. apply H2. symmetry. exact H3.
        -- intros [H1 H2]. split; [exact H1|]. intros H3. apply H2. left. symmetry. exact H3.
      * intros x [<-|[]]. apply rmem_In, E.
    + apply mc_same. reflexivity.
  - inversion H; subst. apply mc_same. reflexivity.
Qed.

Lemma m_remove_policies_change : forall md sec pt rs md' ch,
  m_remove_policies md sec pt rs = (md', ch) -> mchange md md' sec pt false rs ch.
Proof.
  intros md sec pt rs md' ch H. unfold m_remove_policies in H.
  destruct rs as [|r0 rs0]; [inversion H; subst; apply mc_same; reflexivity|].
  destruct (get_ast md sec pt) as [a|] eqn:Ha.
  - destruct (forallb _ _) eqn:E; inversion H; subst.
    + apply (mc_chg _ _ _ _ _ _ a (fold_left (fun l r => rremove r l) (r0 :: rs0) (a_policy a)) Ha eq_refl).
      split.
      * intros x. apply fold_rremove_In.
      * intros x Hx. rewrite forallb_forall in E. apply rmem_In, E, Hx.
    + apply mc_same. reflexivity.
  - inversion H; subst. apply mc_same. reflexivity.
Qed.

Lemma m_remove_filtered_change : forall md sec pt idx vals md' ch rem,
  m_remove_filtered md sec pt idx vals = Some (md', ch, rem) ->
  mchange md md' sec pt false rem ch /\ (ch = false -> rem = []).
Proof.
  intros md sec pt idx vals md' ch rem H. unfold m_remove_filtered in H.
  destruct vals as [|v0 vals0]; [inversion H; subst; split; [apply mc_same|]; reflexivity|].
  destruct (get_ast md sec pt) as [a|] eqn:Ha;
    [|inversion H; subst; split; [apply mc_same|]; reflexivity].
  destruct (select_filtered idx (v0 :: vals0) (a_policy a)) as [[|r1 rem1]|] eqn:Hs; [| |discriminate].
  - inversion H; subst. split; [apply mc_same|]; reflexivity.
  - inversion H; subst. split; [|discriminate].
    apply (mc_chg _ _ _ _ _ _ a (fold_left (fun l r => rremove r l) (r1 :: rem1) (a_policy a)) Ha eq_refl).
    split.
    + intros x. apply fold_rremove_In.
    + apply (select_filtered_incl _ _ _ _ Hs).
Qed.

Lemma mchange_nong : forall md md' sec pt ins rs ch, sec <> s_g ->
  mchange md md' sec pt ins rs ch -> gsec md' = gsec md.
Proof.
  intros md md' sec pt ins rs ch Hne H. destruct H as [->|a pol' Ha -> _]; [reflexivity|].
  apply gsec_set_ast_other, Hne.
Qed.

Lemma mchange_same : forall md md' sec pt ins rs,
  mchange md md' sec pt ins rs false -> md' = md.
Proof. intros md md' sec pt ins rs H. inversion H. assumption. Qed.

(* ---------- injectivity and disjointness of links ---------- *)
Lemma lkeqb_eq : forall x y, lkeqb x y = true <-> x = y.
Proof.
  intros [k p] [k' p']. unfold lkeqb. cbn [fst snd]. rewrite andb_true_iff, teqb_eq, peqb_eq.
  split.
  - intros [-> ->]. reflexivity.
  - intros H. inversion H. split; reflexivity.
Qed.

Lemma memb_lkeqb_In : forall x l, memb lkeqb x l = true <-> In x l.
Proof. apply memb_In_gen. exact lkeqb_eq. Qed.

Lemma rule_link_inj : forall cnt r r' l, cnt = 2 \/ cnt = 3 ->
  length r = cnt -> length r' = cnt ->
  rule_link cnt r = Some l -> rule_link cnt r' = Some l -> r = r'.
Proof.
  intros cnt r r' [dk p] Hc Hl Hl' H H'.
  apply rule_link_spec in H. apply rule_link_spec in H'.
  destruct H as (_ & Hd & Hp). destruct H' as (_ & Hd' & Hp'). subst p.
  inversion Hp' as [[H0 H1]]. unfold rule_dom in Hd, Hd'.
  destruct Hc as [-> | ->].
  - destruct r as [|x [|y [|z r]]]; try discriminate.
    destruct r' as [|x' [|y' [|z' r']]]; try discriminate.
    cbn in H0, H1. subst. reflexivity.
  - destruct r as [|x [|y [|z [|w r]]]]; try discriminate.
    destruct r' as [|x' [|y' [|z' [|w' r']]]]; try discriminate.
    cbn in H0, H1, Hd, Hd'. subst. reflexivity.
Qed.

Lemma defs_disjoint_split : forall l1 k a l2, defs_disjoint_am (l1 ++ (k, a) :: l2) = true ->
  forall l, In l (def_links a) -> ~ In l (all_links l1) /\ ~ In l (all_links l2).
Proof.
  induction l1 as [|[k1 a1] l1 IH]; intros k a l2 H l Hl; cbn [app defs_disjoint_am snd] in H;
    apply andb_true_iff in H; destruct H as [H1 H2].
  - split; [intros []|]. rewrite forallb_forall in H1. specialize (H1 l Hl).
    apply negb_true_iff in H1. intros Hin. apply memb_lkeqb_In in Hin. rewrite Hin in H1. discriminate.
  - destruct (IH k a l2 H2 l Hl) as [Ha Hb]. split; [|exact Hb].
    rewrite all_links_cons, in_app_iff. intros [Hin|Hin]; [|contradiction].
    rewrite forallb_forall in H1. specialize (H1 l Hin). apply negb_true_iff in H1.
    assert (Hm : memb lkeqb l (all_links (l1 ++ (k, a) :: l2)) = true).
    { apply memb_lkeqb_In. rewrite all_links_app, all_links_cons, !in_app_iff. auto. }
    rewrite Hm in H1. discriminate.
Qed.

(* ---------- the incremental update after an accepted change ---------- *)
Lemma incremental_links_eq : forall s pt ins rs a m',
  get_ast (e_model s) s_g pt = Some a -> a_handle a = HCur ->
  count_us (a_value a) = 2 \/ count_us (a_value a) = 3 ->
  link_rules (count_us (a_value a)) ins (f_rm (e_fs s)) rs = (m', LOk) ->
  incremental_links s pt ins rs = (upd_fs (upd_model s (e_model s)) (set_rm (e_fs s) m'), LOk).
Proof.
  intros s pt ins rs a m' Ha Hh Hc Hrun. unfold incremental_links. rewrite Ha.
  assert (E : Nat.ltb (count_us (a_value a)) 2 = false) by (apply Nat.ltb_ge; lia).
  rewrite E, Hrun, (with_handle_id a Hh), (set_ast_id _ _ _ _ Ha). reflexivity.
Qed.

Section IncSync.
  Variables (am l1 l2 : amap) (pt : text) (a : assertion) (pol' : list rule) (m : rmgr).
  Hypothesis Ham : am = l1 ++ (pt, a) :: l2.
  Let cnt := count_us (a_value a).
  Let am' := l1 ++ (pt, with_policy a pol') :: l2.
  Hypothesis Hrs : RS0 am m.

  Lemma am'_handles : handles_cur am'.
  Proof.
    destruct Hrs as (_ & _ & Hh). intros k x Hin. unfold am' in Hin.
    apply in_app_or in Hin. destruct Hin as [Hin|[Heq|Hin]].
    - apply (Hh k x). rewrite Ham. apply in_or_app. left. exact Hin.
    - inversion Heq as [[Hk Hx]]. cbn [with_policy a_handle]. apply (Hh pt a).
      rewrite Ham. apply in_or_app. right. left. reflexivity.
    - apply (Hh k x). rewrite Ham. apply in_or_app. right. right. exact Hin.
  Qed.

  Lemma am'_links : all_links am' = all_links l1 ++ rules_links cnt pol' ++ all_links l2.
  Proof. unfold am'. rewrite all_links_app, all_links_cons. reflexivity. Qed.

  Lemma am_links : all_links am = all_links l1 ++ rules_links cnt (a_policy a) ++ all_links l2.
  Proof. rewrite Ham, all_links_app, all_links_cons. reflexivity. Qed.

  Lemma inc_insert : forall rs m',
    (forall x, In x pol' <-> In x (a_policy a) \/ In x rs) ->
    wf m' ->
    (forall d p, In p (edges_of m' d) <->
                 In p (edges_of m d) \/ In (dom_key d, p) (rules_links cnt rs)) ->
    RS0 am' m'.
  Proof.
    intros rs m' Hpol Hwf Hed. apply RS0_intro; [exact Hwf| |exact am'_handles].
    intros d p. rewrite Hed, (RS0_edges am m Hrs), am'_links, am_links, !in_app_iff.
    rewrite !rules_links_In. split.
    - intros [[H|[[r [Hr Hl]]|H]]|[r [Hr Hl]]]; auto.
      + right. left. exists r. split; [apply Hpol; left; exact Hr|exact Hl].
      + right. left. exists r. split; [apply Hpol; right; exact Hr|exact Hl].
    - intros [H|[[r [Hr Hl]]|H]]; auto.
      apply Hpol in Hr. destruct Hr as [Hr|Hr].
      + left. right. left. exists r. auto.
      + right. exists r. auto.
  Qed.

  Lemma inc_delete : forall rs m',
    (forall x, In x pol' <-> In x (a_policy a) /\ ~ In x rs) -> incl rs (a_policy a) ->
    g_exact_am am = true -> defs_disjoint_am am = true ->
    wf m' ->
    (forall d p, In p (edges_of m' d) <->
                 In p (edges_of m d) /\ ~ In (dom_key d, p) (rules_links cnt rs)) ->
    RS0 am' m'.
  Proof.
    intros rs m' Hpol Hincl Hex Hdj Hwf Hed. apply RS0_intro; [exact Hwf| |exact am'_handles].
    assert (Hda : def_exact a = true).
    { apply (g_exact_am_In am pt a Hex). rewrite Ham. apply in_or_app. right. left. reflexivity. }
    apply def_exact_spec in Hda. destruct Hda as [Hc Hlen]. fold cnt in Hc, Hlen.
    rewrite Ham in Hdj.
    pose proof (defs_disjoint_split l1 pt a l2 Hdj) as Hsplit. unfold def_links in Hsplit. fold cnt in Hsplit.
    intros d p. rewrite Hed, (RS0_edges am m Hrs), am'_links, am_links, !in_app_iff.
    rewrite !rules_links_In. split.
    - intros [[H|[[r [Hr Hl]]|H]] Hn]; auto.
      right. left. exists r. split; [|exact Hl]. apply Hpol. split; [exact Hr|].
      intros Hrs'. apply Hn. exists r. auto.
    - intros [H|[[r [Hr Hl]]|H]].
      + split; [auto|]. intros [r [Hr Hl]].
        destruct (Hsplit (dom_key d, p)) as [Hn _]; [|contradiction].
        apply rules_links_In. exists r. split; [apply Hincl, Hr|exact Hl].
      + apply Hpol in Hr. destruct Hr as [Hr Hnr]. split.
        * right. left. exists r. auto.
        * intros [r' [Hr' Hl']]. apply Hnr.
          assert (r' = r); [|subst; exact Hr'].
          apply (rule_link_inj cnt r' r (dom_key d, p) Hc); auto.
      + split; [auto|]. intros [r [Hr Hl]].
        destruct (Hsplit (dom_key d, p)) as [_ Hn]; [|contradiction].
        apply rules_links_In. exists r. split; [apply Hincl, Hr|exact Hl].
  Qed.

  Lemma am'_registered : forall gf, registered am gf -> registered am' gf.
  Proof.
    intros gf Hreg k x Hin. unfold am' in Hin.
    apply in_app_or in Hin. destruct Hin as [Hin|[Heq|Hin]].
    - apply (Hreg k x). rewrite Ham. apply in_or_app. left. exact Hin.
    - inversion Heq as [[Hk Hx]]. cbn [with_policy a_value]. rewrite <- Hk. apply (Hreg pt a).
      rewrite Ham. apply in_or_app. right. left. reflexivity.
    - apply (Hreg k x). rewrite Ham. apply in_or_app. right. right. exact Hin.
  Qed.

  (* every stored rule's link can be deleted *)
  Lemma stored_linkable : forall r, In r (a_policy a) -> linkable m cnt r.
  Proof.
    intros r Hr. unfold linkable.
    destruct (text_eq_dec (nth 0 r []) (nth 1 r [])) as [He|Hne]; [left; exact He|right].
    destruct Hrs as (Hwf & _ & _). apply edge_has_nodes; [exact Hwf|].
    unfold Edge. apply (RS0_edges am m Hrs). rewrite am_links, !in_app_iff. right. left.
    apply rules_links_In. exists r. split; [exact Hr|]. apply rule_link_spec. auto.
  Qed.
End IncSync.
