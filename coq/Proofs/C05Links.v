(* C05, part 1: role-manager level. What add_link / delete_link / link_rules /
   build_links_am do to the edge set of every domain, in terms of the
   specification links of Model/SpecC05.v. *)
From CV Require Import Model.Base Model.RoleGraph Model.Expr Model.Enforce Model.Engine Model.SpecC05.
From CV Require Import Proofs.ListAux Proofs.BaseP Proofs.RoleGraphP.
From Coq Require Import Lia.

(* ---------- edge sets after add_link / delete_link ---------- *)
Lemma agree_self : forall m d, agree m d (edges_of m d).
Proof. intros m d p. reflexivity. Qed.

Lemma add_link_edges : forall m a b d0 d p,
  In p (edges_of (add_link m a b d0) d) <->
  In p (edges_of m d) \/ (a <> b /\ dom_key d0 = dom_key d /\ p = (a, b)).
Proof.
  intros m a b d0 d p. destruct (text_eq_dec a b) as [Hab|Hab].
  - subst b. pose proof (agree_add_refl m a d d0 _ (agree_self m d) p) as H. rewrite H.
    split; [auto|]. intros [H1|[H1 _]]; [exact H1|]. exfalso. apply H1. reflexivity.
  - destruct (text_eq_dec (dom_key d0) (dom_key d)) as [Hk|Hk].
    + pose proof (agree_add_same m a b d d0 _ Hk Hab (agree_self m d) p) as H.
      rewrite H, lset_add_In. split.
      * intros [H1|H1]; [right; auto|left; exact H1].
      * intros [H1|(_ & _ & H1)]; [right; exact H1|left; exact H1].
    + pose proof (agree_add_other m a b d d0 _ Hk (agree_self m d) p) as H. rewrite H.
      split; [auto|]. intros [H1|(_ & H1 & _)]; [exact H1|contradiction].
Qed.

Lemma delete_link_edges : forall m a b d0 d p, wf m ->
  In p (edges_of (fst (delete_link m a b d0)) d) <->
  In p (edges_of m d) /\ ~ (dom_key d0 = dom_key d /\ p = (a, b)).
Proof.
  intros m a b d0 d p Hwf.
  destruct (text_eq_dec (dom_key d0) (dom_key d)) as [Hk|Hk].
  - pose proof (agree_del_same m a b d d0 _ Hwf Hk (agree_self m d) p) as H.
    rewrite H, lset_del_In. split.
    + intros [H1 H2]. split; [exact H1|]. intros [_ H3]. contradiction.
    + intros [H1 H2]. split; [exact H1|]. intros H3. apply H2. split; assumption.
  - pose proof (agree_del_other m a b d d0 _ Hk (agree_self m d) p) as H. rewrite H.
    split; [|tauto]. intros H1. split; [exact H1|]. intros [H2 _]. contradiction.
Qed.

(* ---------- when delete_link succeeds ---------- *)
Definition has_nodes (m : rmgr) (d : option text) (a b : text) : Prop :=
  exists g, graph_of m d = Some g /\ In a (nodes g) /\ In b (nodes g).

Lemma delete_link_true : forall m a b d,
  a = b \/ has_nodes m d a b -> snd (delete_link m a b d) = true.
Proof.
  intros m a b d H. unfold delete_link. destruct (teqb a b) eqn:E; [reflexivity|].
  destruct H as [H|(g & Hg & Ha & Hb)]; [apply teqb_neq in E; contradiction|].
  rewrite Hg. apply has_node_In in Ha. apply has_node_In in Hb. rewrite Ha, Hb. reflexivity.
Qed.

Lemma delete_link_false : forall m a b d,
  snd (delete_link m a b d) = false -> fst (delete_link m a b d) = m.
Proof.
  intros m a b d. unfold delete_link. destruct (teqb a b); [reflexivity|].
  destruct (graph_of m d) as [g|]; [|reflexivity].
  destruct (has_node g a && has_node g b); [discriminate|reflexivity].
Qed.

Lemma has_nodes_delete : forall m x y d' d a b,
  has_nodes m d a b -> has_nodes (fst (delete_link m x y d')) d a b.
Proof.
  intros m x y d' d a b (g & Hg & Ha & Hb). unfold delete_link.
  destruct (teqb x y); [exists g; auto|].
  destruct (graph_of m d') as [g'|] eqn:Hg'; [|exists g; auto].
  destruct (has_node g' x && has_node g' y); cbn [fst]; [|exists g; auto].
  destruct (text_eq_dec (dom_key d') (dom_key d)) as [Hk|Hk].
  - rewrite (graph_of_key m d d' Hk) in Hg'. rewrite Hg in Hg'. inversion Hg'; subst g'.
    exists (g_del_link g x y). split; [|split; assumption].
    unfold graph_of. rewrite <- Hk. apply assoc_set_same.
  - exists g. split; [|split; assumption].
    rewrite graph_of_assoc_set_other by exact Hk. exact Hg.
Qed.

Lemma edge_has_nodes : forall m d a b, wf m -> Edge m d a b -> has_nodes m d a b.
Proof.
  intros m d a b Hwf He. unfold Edge, edges_of in He.
  destruct (graph_of m d) as [g|] eqn:Hg; [|destruct He].
  destruct (wf_graph_of _ _ _ Hwf Hg) as (_ & _ & Hc).
  destruct (Hc a b He) as (Ha & Hb & _). exists g. auto.
Qed.

(* ---------- links of rules ---------- *)
Lemma olist_In : forall {A} (o : option A) x, In x (olist o) <-> o = Some x.
Proof.
  intros A [y|] x; cbn [olist In]; split.
  - intros [->|[]]. reflexivity.
  - intros H. inversion H. left. reflexivity.
  - intros [].
  - discriminate.
Qed.

Lemma rule_link_spec : forall cnt r dk p,
  rule_link cnt r = Some (dk, p) <->
  (nth 0 r [] <> nth 1 r [] /\ dom_key (rule_dom cnt r) = dk /\ p = (nth 0 r [], nth 1 r [])).
Proof.
  intros cnt r dk p. unfold rule_link. cbv zeta.
  destruct (teqb (nth 0 r []) (nth 1 r [])) eqn:E.
  - apply teqb_eq in E. split; [discriminate|]. intros [H _]. contradiction.
  - apply teqb_neq in E. split.
    + intros H. inversion H. auto.
    + intros (_ & <- & ->). reflexivity.
Qed.

Lemma rules_links_In : forall cnt pol l,
  In l (rules_links cnt pol) <-> exists r, In r pol /\ rule_link cnt r = Some l.
Proof.
  intros cnt pol l. unfold rules_links. rewrite in_flat_map. split.
  - intros [r [Hr Hl]]. exists r. split; [exact Hr|]. apply olist_In, Hl.
  - intros [r [Hr Hl]]. exists r. split; [exact Hr|]. apply olist_In, Hl.
Qed.

Lemma rules_links_cons : forall cnt r pol,
  rules_links cnt (r :: pol) = olist (rule_link cnt r) ++ rules_links cnt pol.
Proof. reflexivity. Qed.

Lemma all_links_app : forall a b, all_links (a ++ b) = all_links a ++ all_links b.
Proof. intros a b. unfold all_links. apply flat_map_app. Qed.

Lemma all_links_cons : forall k a am, all_links ((k, a) :: am) = def_links a ++ all_links am.
Proof. reflexivity. Qed.

Lemma links_of_am_In : forall am dk p, In p (links_of_am am dk) <-> In (dk, p) (all_links am).
Proof.
  intros am dk p. unfold links_of_am. rewrite in_map_iff. split.
  - intros [[k q] [Hq Hin]]. cbn [snd] in Hq. subst q. apply filter_In in Hin.
    destruct Hin as [Hin Hk]. cbn [fst] in Hk. apply teqb_eq in Hk. subst k. exact Hin.
  - intros Hin. exists (dk, p). split; [reflexivity|]. apply filter_In.
    split; [exact Hin|]. cbn [fst]. apply teqb_refl.
Qed.

Lemma links_of_In : forall md d p, In p (links_of md d) <-> In (dom_key d, p) (all_links (gsec md)).
Proof. intros md d p. apply links_of_am_In. Qed.

(* ---------- link_rule / link_rules ---------- *)
Lemma link_rule_ins : forall cnt m r, cnt = 2 \/ cnt = 3 -> cnt <= length r ->
  link_rule cnt true m r = (add_link m (nth 0 r []) (nth 1 r []) (rule_dom cnt r), LOk).
Proof.
  intros cnt m r Hc Hl. unfold link_rule, rule_dom. cbv zeta.
  assert (E1 : Nat.ltb (length r) cnt = false) by (apply Nat.ltb_ge; exact Hl).
  assert (E2 : Nat.leb 4 cnt = false) by (apply Nat.leb_gt; lia).
  rewrite E1, E2. reflexivity.
Qed.

Lemma link_rule_del : forall cnt m r, cnt = 2 \/ cnt = 3 -> cnt <= length r ->
  link_rule cnt false m r =
  (fst (delete_link m (nth 0 r []) (nth 1 r []) (rule_dom cnt r)),
   if snd (delete_link m (nth 0 r []) (nth 1 r []) (rule_dom cnt r)) then LOk else LErr ERbac).
Proof.
  intros cnt m r Hc Hl. unfold link_rule, rule_dom. cbv zeta.
  assert (E1 : Nat.ltb (length r) cnt = false) by (apply Nat.ltb_ge; exact Hl).
  assert (E2 : Nat.leb 4 cnt = false) by (apply Nat.leb_gt; lia).
  rewrite E1, E2.
  destruct (delete_link m (nth 0 r []) (nth 1 r []) (if Nat.eqb cnt 2 then None else Some (nth 2 r [])))
    as [m' [|]]; reflexivity.
Qed.

Lemma link_rule_short : forall cnt ins m r, length r < cnt ->
  link_rule cnt ins m r = (m, LErr EPolicy).
Proof.
  intros cnt ins m r Hl. unfold link_rule.
  assert (E1 : Nat.ltb (length r) cnt = true) by (apply Nat.ltb_lt; exact Hl).
  rewrite E1. reflexivity.
Qed.

Lemma link_rules_cons : forall cnt ins m r rs,
  link_rules cnt ins m (r :: rs) =
  match link_rule cnt ins m r with
  | (m', LOk) => link_rules cnt ins m' rs
  | (m', LErr e) => (m', LErr e)
  end.
Proof. reflexivity. Qed.

(* membership of a link in olist (rule_link ...) in the shape used by the
   add/delete edge lemmas *)
Lemma olist_rule_link : forall cnt r d p,
  In (dom_key d, p) (olist (rule_link cnt r)) <->
  (nth 0 r [] <> nth 1 r [] /\ dom_key (rule_dom cnt r) = dom_key d /\ p = (nth 0 r [], nth 1 r [])).
Proof. intros cnt r d p. rewrite olist_In. apply rule_link_spec. Qed.

Theorem link_rules_ins : forall cnt rs m, wf m -> cnt = 2 \/ cnt = 3 ->
  (forall r, In r rs -> cnt <= length r) ->
  exists m', link_rules cnt true m rs = (m', LOk) /\ wf m' /\
    forall d p, In p (edges_of m' d) <->
                In p (edges_of m d) \/ In (dom_key d, p) (rules_links cnt rs).
Proof.
  intros cnt. induction rs as [|r rs IH]; intros m Hwf Hc Hl.
  - exists m. split; [reflexivity|]. split; [exact Hwf|]. intros d p. cbn [rules_links flat_map In]. tauto.
  - rewrite link_rules_cons, link_rule_ins by (auto; apply Hl; left; reflexivity).
    set (m1 := add_link m (nth 0 r []) (nth 1 r []) (rule_dom cnt r)).
    destruct (IH m1) as (m' & Hrun & Hwf' & Hed).
    + apply wf_add_link, Hwf.
    + exact Hc.
    + intros r' Hr'. apply Hl. right. exact Hr'.
    + exists m'. split; [exact Hrun|]. split; [exact Hwf'|]. intros d p.
      rewrite Hed. unfold m1. rewrite add_link_edges, rules_links_cons, in_app_iff, olist_rule_link.
      tauto.
Qed.

Definition linkable (m : rmgr) (cnt : nat) (r : rule) : Prop :=
  nth 0 r [] = nth 1 r [] \/ has_nodes m (rule_dom cnt r) (nth 0 r []) (nth 1 r []).

Theorem link_rules_del : forall cnt rs m, wf m -> cnt = 2 \/ cnt = 3 ->
  (forall r, In r rs -> cnt <= length r) ->
  (forall r, In r rs -> linkable m cnt r) ->
  exists m', link_rules cnt false m rs = (m', LOk) /\ wf m' /\
    forall d p, In p (edges_of m' d) <->
                In p (edges_of m d) /\ ~ In (dom_key d, p) (rules_links cnt rs).
Proof.
  intros cnt. induction rs as [|r rs IH]; intros m Hwf Hc Hl Hk.
  - exists m. split; [reflexivity|]. split; [exact Hwf|]. intros d p. cbn [rules_links flat_map In]. tauto.
  - rewrite link_rules_cons, link_rule_del by (auto; apply Hl; left; reflexivity).
    rewrite delete_link_true by (apply Hk; left; reflexivity).
    set (m1 := fst (delete_link m (nth 0 r []) (nth 1 r []) (rule_dom cnt r))).
    destruct (IH m1) as (m' & Hrun & Hwf' & Hed).
    + apply wf_delete_link, Hwf.
    + exact Hc.
    + intros r' Hr'. apply Hl. right. exact Hr'.
    + intros r' Hr'. destruct (Hk r' (or_intror Hr')) as [H|H]; [left; exact H|right].
      apply has_nodes_delete, H.
    + exists m'. split; [exact Hrun|]. split; [exact Hwf'|]. intros d p.
      rewrite Hed. unfold m1. rewrite delete_link_edges by exact Hwf.
      rewrite rules_links_cons, in_app_iff, olist_rule_link.
      split.
      * intros [[H1 H2] H3]. split; [exact H1|]. intros [H4|H4]; [|contradiction].
        apply H2. destruct H4 as (_ & H5 & H6). split; assumption.
      * intros [H1 H2]. split; [split; [exact H1|]|].
        -- intros [H3 H4]. apply H2. left. split; [|split; assumption].
           intros Heq. subst p. unfold edges_of in H1.
           destruct (graph_of m d) as [g|] eqn:Hg; [|destruct H1].
           destruct (wf_graph_of _ _ _ Hwf Hg) as (_ & _ & Hcg).
           destruct (Hcg _ _ H1) as (_ & _ & Hne). contradiction.
        -- intros H3. apply H2. right. exact H3.
Qed.

(* ---------- the g-section conditions, unfolded ---------- *)
Lemma def_exact_spec : forall a, def_exact a = true <->
  ((count_us (a_value a) = 2 \/ count_us (a_value a) = 3) /\
   forall r, In r (a_policy a) -> length r = count_us (a_value a)).
Proof.
  intros a. unfold def_exact. cbv zeta.
  rewrite andb_true_iff, orb_true_iff, !Nat.eqb_eq, forallb_forall. split.
  - intros [H1 H2]. split; [exact H1|]. intros r Hr. apply Nat.eqb_eq, H2, Hr.
  - intros [H1 H2]. split; [exact H1|]. intros r Hr. apply Nat.eqb_eq, H2, Hr.
Qed.

Lemma g_exact_am_In : forall am k a, g_exact_am am = true -> In (k, a) am -> def_exact a = true.
Proof.
  intros am k a H Hin. unfold g_exact_am in H. rewrite forallb_forall in H.
  apply (H (k, a) Hin).
Qed.

Lemma g_exact_am_app : forall a b, g_exact_am (a ++ b) = g_exact_am a && g_exact_am b.
Proof. intros a b. unfold g_exact_am. apply forallb_app. Qed.

(* ---------- full rebuild ---------- *)
Definition set_cur (am : amap) : amap := map (fun ka => (fst ka, with_handle (snd ka) HCur)) am.

Theorem build_links_ok : forall am m, wf m -> g_exact_am am = true ->
  exists m', build_links_am am m = (set_cur am, m', LOk) /\ wf m' /\
    forall d p, In p (edges_of m' d) <-> In p (edges_of m d) \/ In (dom_key d, p) (all_links am).
Proof.
  induction am as [|[k a] am IH]; intros m Hwf Hex.
  - exists m. split; [reflexivity|]. split; [exact Hwf|]. intros d p. cbn [all_links flat_map In]. tauto.
  - cbn [g_exact_am forallb snd] in Hex. apply andb_true_iff in Hex. destruct Hex as [Ha Hex].
    apply def_exact_spec in Ha. destruct Ha as [Hc Hl].
    cbn [build_links_am].
    assert (E : Nat.ltb (count_us (a_value a)) 2 = false) by (apply Nat.ltb_ge; lia).
    rewrite E.
    destruct (link_rules_ins (count_us (a_value a)) (a_policy a) m Hwf Hc) as (m1 & Hrun & Hwf1 & Hed1).
    { intros r Hr. rewrite (Hl r Hr). lia. }
    rewrite Hrun.
    destruct (IH m1 Hwf1 Hex) as (m' & Hb & Hwf' & Hed).
    rewrite Hb. exists m'. split; [reflexivity|]. split; [exact Hwf'|].
    intros d p. rewrite Hed, Hed1, all_links_cons, in_app_iff. unfold def_links. tauto.
Qed.

Lemma edges_of_nil : forall d, edges_of [] d = [].
Proof. reflexivity. Qed.

(* what a failing rebuild looks like: the first definition that is malformed
   or holds a rule that is too short stops it *)
Lemma build_links_bad_arity : forall k a am m,
  count_us (a_value a) < 2 -> build_links_am ((k, a) :: am) m = ((k, a) :: am, m, LErr EModel).
Proof.
  intros k a am m H. cbn [build_links_am].
  assert (E : Nat.ltb (count_us (a_value a)) 2 = true) by (apply Nat.ltb_lt; exact H).
  rewrite E. reflexivity.
Qed.

(* what links_of means, without the executable plumbing *)
Lemma all_links_In : forall am l,
  In l (all_links am) <->
  exists k a r, In (k, a) am /\ In r (a_policy a) /\ rule_link (count_us (a_value a)) r = Some l.
Proof.
  intros am l. unfold all_links. rewrite in_flat_map. split.
  - intros [[k a] [Hin Hl]]. cbn [snd] in Hl. unfold def_links in Hl. apply rules_links_In in Hl.
    destruct Hl as [r [Hr Hl]]. exists k, a, r. auto.
  - intros (k & a & r & Hin & Hr & Hl). exists (k, a). split; [exact Hin|]. cbn [snd].
    unfold def_links. apply rules_links_In. exists r. auto.
Qed.

Theorem links_of_spec : forall md d x y,
  In (x, y) (links_of md d) <->
  exists k a r, In (k, a) (gsec md) /\ In r (a_policy a) /\
    x = nth 0 r [] /\ y = nth 1 r [] /\ x <> y /\
    dom_key (rule_dom (count_us (a_value a)) r) = dom_key d.
Proof.
  intros md d x y. rewrite links_of_In, all_links_In. split.
  - intros (k & a & r & Hin & Hr & Hl). apply rule_link_spec in Hl. destruct Hl as (Hne & Hd & Hp).
    inversion Hp; subst. exists k, a, r. auto 10.
  - intros (k & a & r & Hin & Hr & -> & -> & Hne & Hd). exists k, a, r.
    split; [exact Hin|]. split; [exact Hr|]. apply rule_link_spec. auto.
Qed.
