(* C16e: escape_assertion commutes with printing.
   escape_assertion (print_expr e) = print_expr_tok e for every e with esc_wf e.

   Method: `ok pw dn s s'` says that the scanner esc_go, started outside a
   look-ahead with previous-byte flag pw, turns the piece s into s' whatever
   text t follows (dn = true), or whatever text t follows that cannot complete
   a pending `r12` look-ahead (dn = false: t is empty or starts with neither a
   digit nor a dot).  Pieces compose (ok_cat); separators, parentheses,
   identifiers, literals and variables are pieces; the printed text of an
   expression is assembled from them. *)
From CV Require Import Model.Base Model.PathMatch Model.Expr Model.Csv Model.Ini Model.SpecC16 Model.SpecC16e.
From CV Require Import Proofs.BaseP Proofs.CsvP Proofs.ExprP Proofs.EscP.
From Coq Require Import Lia NArith.

(* ------------------------------------------------------------------ *)
(* pieces                                                               *)
(* ------------------------------------------------------------------ *)
Definition la_ok (dn : bool) (t : text) : bool := dn || la_dead t.

Definition ok (pw dn : bool) (s s' : text) : Prop :=
  forall t, la_ok dn t = true ->
    esc_go false pw (s ++ t) = s' ++ esc_go false (pw_after pw s) t.

Lemma ok_weaken : forall pw dn s s', ok pw true s s' -> ok pw dn s s'.
Proof. intros pw dn s s' H t _. apply H. reflexivity. Qed.

Lemma ok_nil : forall pw dn, ok pw dn [] [].
Proof. intros pw dn t _. reflexivity. Qed.

Lemma ok_cat : forall pw da db a a' b b',
  ok pw da a a' -> ok (pw_after pw a) db b b' ->
  (forall t, la_ok da (b ++ t) = true) ->
  ok pw db (a ++ b) (a' ++ b').
Proof.
  intros pw da db a a' b b' Ha Hb Hside t Ht.
  rewrite <- !app_assoc. rewrite (Ha (b ++ t) (Hside t)).
  rewrite (Hb t Ht). rewrite pw_after_app. reflexivity.
Qed.

Definition norp (c : ascii) : bool := negb (is_rp c).

Lemma esc_norp_cons : forall c pw s, is_rp c = false ->
  esc_go false pw (c :: s) = c :: esc_go false (is_word c) s.
Proof.
  intros c pw s Hc. cbn [esc_go]. rewrite Hc, andb_false_r. reflexivity.
Qed.

(* text without the letters r and p is copied, whatever follows *)
Lemma ok_norp : forall s pw dn, forallb norp s = true -> ok pw dn s s.
Proof.
  intros s pw dn Hs. apply ok_weaken. revert pw Hs.
  induction s as [|c s IH]; intros pw Hs t Ht; [reflexivity|].
  cbn [forallb] in Hs. apply andb_true_iff in Hs. destruct Hs as [Hc Hs].
  unfold norp in Hc. apply negb_true_iff in Hc.
  cbn [app pw_after]. rewrite esc_norp_cons by exact Hc.
  rewrite (IH (is_word c) Hs t Ht). reflexivity.
Qed.

(* a site-free text is copied when what follows cannot complete a look-ahead *)
Lemma ok_site_free : forall s pw, has_site pw s = false -> ok pw false s s.
Proof.
  intros s pw Hs t Ht. unfold la_ok in Ht. cbn [orb] in Ht.
  rewrite esc_go_app_gen by (try exact Ht; discriminate).
  rewrite esc_go_no_site by exact Hs. reflexivity.
Qed.

(* ---- separators ---- *)
(* open_ok: no r/p inside, ends in a non-word byte; sep_ok: moreover its first
   byte kills a pending look-ahead *)
Definition open_ok (op : text) : bool := forallb norp op && negb (pw_after true op).
Definition sep_ok (sep : text) : bool := open_ok sep && la_dead sep.

Lemma open_ok_pw : forall op pw, open_ok op = true -> pw_after pw op = false.
Proof.
  intros op pw H. unfold open_ok in H. apply andb_true_iff in H. destruct H as [_ H].
  apply negb_true_iff in H. destruct op as [|c r]; [discriminate|]. exact H.
Qed.
Lemma open_ok_norp : forall op, open_ok op = true -> forallb norp op = true.
Proof.
  intros op H. unfold open_ok in H. apply andb_true_iff in H. destruct H as [H _]. exact H.
Qed.
Lemma sep_ok_open : forall sep, sep_ok sep = true -> open_ok sep = true.
Proof. intros sep H. unfold sep_ok in H. apply andb_true_iff in H. destruct H as [H _]. exact H. Qed.
Lemma sep_ok_pw : forall sep pw, sep_ok sep = true -> pw_after pw sep = false.
Proof. intros sep pw H. apply open_ok_pw, sep_ok_open, H. Qed.
Lemma sep_ok_norp : forall sep, sep_ok sep = true -> forallb norp sep = true.
Proof. intros sep H. apply open_ok_norp, sep_ok_open, H. Qed.
Lemma sep_ok_dead : forall sep dn t, sep_ok sep = true -> la_ok dn (sep ++ t) = true.
Proof.
  intros sep dn t H. pose proof (sep_ok_pw sep true H) as Hpw.
  unfold sep_ok in H. apply andb_true_iff in H. destruct H as [_ H].
  destruct sep as [|c r]; [discriminate|]. unfold la_ok. cbn [app la_dead] in *.
  rewrite H. apply orb_true_r.
Qed.

(* a ++ sep ++ b, b starting afresh at a word boundary *)
Lemma ok_bin : forall pw dn a a' b b' sep,
  sep_ok sep = true -> ok pw false a a' -> ok false dn b b' ->
  ok pw dn (a ++ sep ++ b) (a' ++ sep ++ b').
Proof.
  intros pw dn a a' b b' sep Hsep Ha Hb.
  apply (ok_cat pw false dn a a' (sep ++ b) (sep ++ b') Ha).
  - apply (ok_cat _ true dn sep sep b b').
    + apply ok_norp, sep_ok_norp, Hsep.
    + rewrite (sep_ok_pw sep _ Hsep). exact Hb.
    + intros t. reflexivity.
  - intros t. rewrite <- app_assoc. apply sep_ok_dead, Hsep.
Qed.

(* a ++ close, close a closing separator such as ")" or "]" *)
Lemma ok_close : forall pw dn a a' cl,
  sep_ok cl = true -> ok pw false a a' -> ok pw dn (a ++ cl) (a' ++ cl).
Proof.
  intros pw dn a a' cl Hcl Ha.
  apply (ok_cat pw false dn a a' cl cl Ha).
  - apply ok_norp, sep_ok_norp, Hcl.
  - intros t. apply sep_ok_dead, Hcl.
Qed.

(* open ++ b *)
Lemma ok_open : forall pw dn op b b',
  open_ok op = true -> ok false dn b b' -> ok pw dn (op ++ b) (op ++ b').
Proof.
  intros pw dn op b b' Hop Hb.
  apply (ok_cat pw true dn op op b b').
  - apply ok_norp, open_ok_norp, Hop.
  - rewrite (open_ok_pw op _ Hop). exact Hb.
  - intros t. reflexivity.
Qed.

Lemma ok_paren : forall pw dn s s', ok false false s s' -> ok pw dn (paren s) (paren s').
Proof.
  intros pw dn s s' H. unfold paren.
  apply (ok_open pw dn [("(")%char] (s ++ [(")")%char]) (s' ++ [(")")%char])); [reflexivity|].
  apply ok_close; [reflexivity|exact H].
Qed.

Lemma ok_wrap : forall ctx prec dn s s',
  ok false dn s s' -> ok false dn (wrap ctx prec s) (wrap ctx prec s').
Proof.
  intros ctx prec dn s s' H. unfold wrap. destruct (Nat.ltb prec ctx); [|exact H].
  apply ok_paren. intros t Ht. apply H. unfold la_ok in *. cbn [orb] in Ht.
  rewrite Ht. apply orb_true_r.
Qed.

(* wrapped for sure, or nothing dangerous follows *)
Lemma ok_wrap_bin : forall ctx prec dn s s',
  (dn = true -> prec < ctx) ->
  ok false false s s' -> ok false dn (wrap ctx prec s) (wrap ctx prec s').
Proof.
  intros ctx prec dn s s' Hdn H. unfold wrap. destruct (Nat.ltb prec ctx) eqn:E.
  - apply ok_paren, H.
  - destruct dn; [|exact H]. specialize (Hdn eq_refl). apply Nat.ltb_ge in E. lia.
Qed.

(* ------------------------------------------------------------------ *)
(* identifiers                                                          *)
(* ------------------------------------------------------------------ *)
Lemma word_not_dot : forall c, is_word c = true -> Ascii.eqb c dot = false.
Proof.
  intros c H. destruct (Ascii.eqb c dot) eqn:E; [|reflexivity].
  apply aeqb_true in E. subst c. discriminate.
Qed.

Lemma tok_ahead_words : forall w, forallb is_word w = true -> tok_ahead w = false.
Proof.
  induction w as [|c w IH]; intros H; [reflexivity|].
  cbn [forallb] in H. apply andb_true_iff in H. destruct H as [Hc H].
  cbn [tok_ahead]. rewrite (word_not_dot c Hc).
  destruct (is_digit c); [apply IH, H|reflexivity].
Qed.

Lemma tok_ahead_word_nondigit : forall w t,
  forallb is_word w = true -> forallb is_digit w = false -> tok_ahead (w ++ t) = false.
Proof.
  induction w as [|c w IH]; intros t Hw Hd; [discriminate|].
  cbn [forallb] in Hw, Hd. apply andb_true_iff in Hw. destruct Hw as [Hc Hw].
  cbn [app tok_ahead]. rewrite (word_not_dot c Hc).
  destruct (is_digit c) eqn:Ed; [|reflexivity]. cbn [andb] in Hd. apply IH; assumption.
Qed.

Lemma words_pass : forall w t, forallb is_word w = true ->
  esc_go false true (w ++ t) = w ++ esc_go false (pw_after true w) t.
Proof.
  induction w as [|c w IH]; intros t H; [reflexivity|].
  cbn [forallb] in H. apply andb_true_iff in H. destruct H as [Hc H].
  cbn [app esc_go negb andb pw_after]. rewrite Hc. rewrite (IH t H). reflexivity.
Qed.

(* an identifier at a word boundary is copied, provided that it is not itself a
   prefix r12 followed by a dot *)
Lemma ok_ident : forall f dn, ident f = true -> (dn = true -> rp_prefix f = false) ->
  ok false dn f f.
Proof.
  intros [|c ds] dn Hf Hdn t Ht; [reflexivity|].
  unfold ident in Hf. cbn [forallb] in Hf. apply andb_true_iff in Hf. destruct Hf as [Hc Hds].
  cbn [app esc_go pw_after negb andb]. rewrite Hc.
  assert (Hsite : is_rp c && tok_ahead (ds ++ t) = false).
  { destruct (is_rp c) eqn:Erp; [|reflexivity]. cbn [andb].
    destruct (forallb is_digit ds) eqn:Edig.
    - destruct dn.
      + specialize (Hdn eq_refl). cbn [rp_prefix] in Hdn. rewrite Erp, Edig in Hdn. discriminate.
      + unfold la_ok in Ht. cbn [orb] in Ht. rewrite tok_ahead_app_dead by exact Ht.
        apply tok_ahead_words, Hds.
    - apply tok_ahead_word_nondigit; assumption. }
  rewrite Hsite. rewrite (words_pass ds t Hds). reflexivity.
Qed.

(* ------------------------------------------------------------------ *)
(* variables                                                            *)
(* ------------------------------------------------------------------ *)
Lemma ok_var : forall p f dn, rp_prefix p = true -> field_ok dn f = true ->
  ok false dn (p ++ dot :: f) (tok p f).
Proof.
  intros [|c ds] f dn Hp Hf t Ht; [discriminate|].
  cbn [rp_prefix] in Hp. apply andb_true_iff in Hp. destruct Hp as [Hc Hds].
  unfold field_ok in Hf. apply andb_true_iff in Hf. destruct Hf as [Hid Hrp].
  assert (Hf : ok false dn f f).
  { apply ok_ident; [exact Hid|]. intros E. subst dn. cbn [negb orb] in Hrp.
    apply negb_true_iff in Hrp. exact Hrp. }
  assert (Hpw : pw_after false ((c :: ds) ++ dot :: f) = pw_after false f).
  { rewrite pw_after_app. reflexivity. }
  rewrite Hpw. unfold tok. rewrite <- !app_assoc. cbn [app].
  rewrite esc_site by assumption. rewrite (Hf t Ht). reflexivity.
Qed.

(* ------------------------------------------------------------------ *)
(* literals                                                             *)
(* ------------------------------------------------------------------ *)
Lemma digit_char_norp : forall d, d < 10 -> norp (digit_char d) = true.
Proof.
  intros d H. do 10 (destruct d as [|d]; [reflexivity|]). lia.
Qed.

Lemma print_pos_fuel_norp : forall fuel n acc, forallb norp acc = true ->
  forallb norp (print_pos_fuel fuel n acc) = true.
Proof.
  induction fuel as [|fuel IH]; intros n acc Hacc; [exact Hacc|].
  cbn [print_pos_fuel]. cbv zeta.
  assert (Hd : norp (digit_char (N.to_nat (N.modulo n 10))) = true).
  { apply digit_char_norp. pose proof (N.mod_lt n 10). lia. }
  destruct (N.eqb (N.div n 10) 0).
  - cbn [forallb]. rewrite Hd, Hacc. reflexivity.
  - apply IH. cbn [forallb]. rewrite Hd, Hacc. reflexivity.
Qed.

Lemma print_Z_norp : forall z, forallb norp (print_Z z) = true.
Proof.
  intros [|p|p]; unfold print_Z.
  - reflexivity.
  - apply print_pos_fuel_norp. reflexivity.
  - cbn [forallb]. rewrite print_pos_fuel_norp by reflexivity. reflexivity.
Qed.

Lemma ok_scalar : forall v dn, lit_ok v = true -> ok false dn (print_scalar v) (print_scalar v).
Proof.
  intros [s|z|[|]] dn H; cbn [print_scalar].
  - cbn [lit_ok] in H. apply negb_true_iff in H.
    apply (ok_open false dn [quote] (esc_lit s ++ [quote]) (esc_lit s ++ [quote])); [reflexivity|].
    apply ok_close; [reflexivity|]. apply ok_site_free, H.
  - apply ok_norp, print_Z_norp.
  - apply ok_ident; [reflexivity|reflexivity].
  - apply ok_ident; [reflexivity|reflexivity].
Qed.

(* ------------------------------------------------------------------ *)
(* lists of arguments                                                   *)
(* ------------------------------------------------------------------ *)
Lemma ok_sep_by : forall (g g' : expr -> text) sep xs, sep_ok sep = true ->
  Forall (fun x => ok false false (g x) (g' x)) xs ->
  ok false false (sep_by sep (map g xs)) (sep_by sep (map g' xs)).
Proof.
  intros g g' sep xs Hsep H. induction H as [|x l Hx Hl IH]; [apply ok_nil|].
  destruct l as [|y l]; [exact Hx|].
  change (ok false false (g x ++ sep ++ sep_by sep (map g (y :: l)))
                         (g' x ++ sep ++ sep_by sep (map g' (y :: l)))).
  apply ok_bin; assumption.
Qed.

Lemma forallb_Forall_imp : forall (P : expr -> Prop) (b : expr -> bool) xs,
  Forall (fun x => b x = true -> P x) xs -> forallb b xs = true -> Forall P xs.
Proof.
  intros P b xs H. induction H as [|x l Hx Hl IH]; intros Hb; [constructor|].
  cbn [forallb] in Hb. apply andb_true_iff in Hb. destruct Hb as [Hb1 Hb2].
  constructor; [apply Hx, Hb1|apply IH, Hb2].
Qed.

(* ------------------------------------------------------------------ *)
(* expressions                                                          *)
(* ------------------------------------------------------------------ *)
Lemma eval_shape : forall p f, T "eval(" ++ p ++ dot :: f ++ T ")" = T "eval(" ++ (p ++ dot :: f) ++ T ")".
Proof. intros p f. rewrite <- app_assoc. reflexivity. Qed.

(* dn = true only below an EProp, where the printing level is 6 or 7 *)
Theorem esc_print_ok : forall e ctx dn, (dn = true -> 6 <= ctx) -> esc_wf_at dn e = true ->
  ok false dn (print_expr_at ctx e) (print_expr_at_tok ctx e).
Proof.
  induction e as [v|p f|a f IHa|a b IHa IHb|a b IHa IHb|c a b IHa IHb
                  |a b IHa IHb|a b IHa IHb|a IHa|a xs IHa IHxs|f args IHargs|p f] using expr_ind';
    intros ctx dn Hctx Hwf; cbn [esc_wf_at] in Hwf; cbn [print_expr_at print_expr_at_tok].
  - (* ELit *) apply ok_scalar, Hwf.
  - (* EVar *) apply andb_true_iff in Hwf. destruct Hwf as [Hp Hf]. apply ok_var; assumption.
  - (* EProp *)
    apply andb_true_iff in Hwf. destruct Hwf as [Ha Hf].
    unfold field_ok in Hf. apply andb_true_iff in Hf. destruct Hf as [Hid Hrp].
    apply (ok_cat false true dn _ _ (dot :: f) (dot :: f) (IHa 6 true (fun _ => le_n 6) Ha)).
    + apply (ok_open _ dn [dot] f f); [reflexivity|].
      apply ok_ident; [exact Hid|]. intros E. subst dn. cbn [negb orb] in Hrp.
      apply negb_true_iff in Hrp. exact Hrp.
    + intros t. reflexivity.
  - (* EEq *)
    apply andb_true_iff in Hwf. destruct Hwf as [Ha Hb].
    apply ok_wrap_bin; [intros E; specialize (Hctx E); lia|].
    apply ok_bin; [reflexivity|apply IHa; [discriminate|exact Ha]|apply IHb; [discriminate|exact Hb]].
  - (* ENeq *)
    apply andb_true_iff in Hwf. destruct Hwf as [Ha Hb].
    apply ok_wrap_bin; [intros E; specialize (Hctx E); lia|].
    apply ok_bin; [reflexivity|apply IHa; [discriminate|exact Ha]|apply IHb; [discriminate|exact Hb]].
  - (* ECmp *)
    apply andb_true_iff in Hwf. destruct Hwf as [Ha Hb].
    apply ok_wrap_bin; [intros E; specialize (Hctx E); lia|].
    apply ok_bin; [destruct c; reflexivity|apply IHa; [discriminate|exact Ha]|apply IHb; [discriminate|exact Hb]].
  - (* EAnd *)
    apply andb_true_iff in Hwf. destruct Hwf as [Ha Hb].
    apply ok_wrap_bin; [intros E; specialize (Hctx E); lia|].
    apply ok_bin; [reflexivity|apply IHa; [discriminate|exact Ha]|apply IHb; [discriminate|exact Hb]].
  - (* EOr *)
    apply andb_true_iff in Hwf. destruct Hwf as [Ha Hb].
    apply ok_wrap_bin; [intros E; specialize (Hctx E); lia|].
    apply ok_bin; [reflexivity|apply IHa; [discriminate|exact Ha]|apply IHb; [discriminate|exact Hb]].
  - (* ENot *)
    apply ok_wrap.
    apply (ok_open false dn [("!")%char]); [reflexivity|].
    apply IHa; [intros _; lia|exact Hwf].
  - (* EIn *)
    apply andb_true_iff in Hwf. destruct Hwf as [Ha Hxs].
    apply ok_wrap_bin; [intros E; specialize (Hctx E); lia|].
    apply ok_bin; [reflexivity|apply IHa; [discriminate|exact Ha]|].
    apply ok_close; [reflexivity|]. apply ok_sep_by; [reflexivity|].
    apply (forallb_Forall_imp _ (esc_wf_at false)); [|exact Hxs].
    eapply Forall_impl; [|exact IHxs]. intros x Hx Hwx. apply Hx; [discriminate|exact Hwx].
  - (* ECall *)
    apply andb_true_iff in Hwf. destruct Hwf as [Hf Hargs].
    apply (ok_cat false false dn f f).
    + apply ok_ident; [exact Hf|discriminate].
    + apply ok_paren. apply ok_sep_by; [reflexivity|].
      apply (forallb_Forall_imp _ (esc_wf_at false)); [|exact Hargs].
      eapply Forall_impl; [|exact IHargs]. intros x Hx Hwx. apply Hx; [discriminate|exact Hwx].
    + intros t. reflexivity.
  - (* EEval *)
    apply andb_true_iff in Hwf. destruct Hwf as [Hp Hf].
    rewrite eval_shape.
    apply (ok_open false dn (T "eval(")); [reflexivity|].
    apply ok_close; [reflexivity|]. apply ok_var; [exact Hp|].
    unfold field_ok. rewrite Hf. reflexivity.
Qed.

Theorem escape_print_at : forall ctx e, esc_wf e = true ->
  escape_assertion (print_expr_at ctx e) = print_expr_at_tok ctx e.
Proof.
  intros ctx e H. unfold escape_assertion.
  pose proof (esc_print_ok e ctx false (fun E => ltac:(discriminate)) H [] eq_refl) as E.
  rewrite !app_nil_r in E. exact E.
Qed.

Theorem escape_print : forall e, esc_wf e = true ->
  escape_assertion (print_expr e) = print_expr_tok e.
Proof. intros e H. apply escape_print_at, H. Qed.

(* the tokenised text is stable under escape_assertion (it is what the crate
   keeps and evaluates) *)
Theorem escape_print_tok_stable : forall e, esc_wf e = true ->
  escape_assertion (print_expr_tok e) = print_expr_tok e.
Proof. intros e H. rewrite <- (escape_print e H). apply escape_idem. Qed.

(* ------------------------------------------------------------------ *)
(* the two printers are one printer, differing in the variables only    *)
(* ------------------------------------------------------------------ *)
Lemma map_ext_Forall' : forall (g g' : expr -> text) xs,
  Forall (fun x => g x = g' x) xs -> map g xs = map g' xs.
Proof.
  intros g g' xs H. induction H as [|x l Hx Hl IH]; [reflexivity|].
  cbn [map]. rewrite Hx, IH. reflexivity.
Qed.

Theorem print_at_gen : forall e ctx, print_expr_at ctx e = print_gen dotted ctx e.
Proof.
  induction e as [v|p f|a f IHa|a b IHa IHb|a b IHa IHb|c a b IHa IHb
                  |a b IHa IHb|a b IHa IHb|a IHa|a xs IHa IHxs|f args IHargs|p f] using expr_ind';
    intros ctx; cbn [print_expr_at print_gen];
    rewrite ?IHa, ?IHb; try reflexivity.
  - rewrite (map_ext_Forall' (print_expr_at 0) (print_gen dotted 0) xs); [reflexivity|].
    eapply Forall_impl; [|exact IHxs]. intros x Hx. apply Hx.
  - rewrite (map_ext_Forall' (print_expr_at 0) (print_gen dotted 0) args); [reflexivity|].
    eapply Forall_impl; [|exact IHargs]. intros x Hx. apply Hx.
  - apply eval_shape.
Qed.

Theorem print_at_tok_gen : forall e ctx, print_expr_at_tok ctx e = print_gen tok ctx e.
Proof.
  induction e as [v|p f|a f IHa|a b IHa IHb|a b IHa IHb|c a b IHa IHb
                  |a b IHa IHb|a b IHa IHb|a IHa|a xs IHa IHxs|f args IHargs|p f] using expr_ind';
    intros ctx; cbn [print_expr_at_tok print_gen];
    rewrite ?IHa, ?IHb; try reflexivity.
  - rewrite (map_ext_Forall' (print_expr_at_tok 0) (print_gen tok 0) xs); [reflexivity|].
    eapply Forall_impl; [|exact IHxs]. intros x Hx. apply Hx.
  - rewrite (map_ext_Forall' (print_expr_at_tok 0) (print_gen tok 0) args); [reflexivity|].
    eapply Forall_impl; [|exact IHargs]. intros x Hx. apply Hx.
Qed.

(* ---- pieces ---- *)
Lemma render_app : forall var a b, render var (a ++ b) = render var a ++ render var b.
Proof. intros var a b. unfold render. rewrite map_app, concat_app. reflexivity. Qed.
Lemma render_cons : forall var x l, render var (x :: l) = render1 var x ++ render var l.
Proof. intros var x l. reflexivity. Qed.
Lemma render_nil : forall var, render var [] = [].
Proof. reflexivity. Qed.
Lemma render_one : forall var x, render var [x] = render1 var x.
Proof. intros var x. unfold render. cbn [map concat]. apply app_nil_r. Qed.
Lemma pvars_app : forall a b, pvars (a ++ b) = pvars a ++ pvars b.
Proof. intros a b. unfold pvars. apply flat_map_app. Qed.

Lemma render_pwrap : forall var ctx prec l,
  render var (pwrap ctx prec l) = wrap ctx prec (render var l).
Proof.
  intros var ctx prec l. unfold pwrap, wrap. destruct (Nat.ltb prec ctx); [|reflexivity].
  rewrite render_cons, render_app, render_one. reflexivity.
Qed.
Lemma pvars_pwrap : forall ctx prec l, pvars (pwrap ctx prec l) = pvars l.
Proof.
  intros ctx prec l. unfold pwrap. destruct (Nat.ltb prec ctx); [|reflexivity].
  change (pvars (PTxt (T "(") :: l ++ [PTxt (T ")")])) with (pvars (l ++ [PTxt (T ")")])).
  rewrite pvars_app. apply app_nil_r.
Qed.

Lemma render_psep : forall var sep (g : expr -> list piece) (h : expr -> text) xs,
  Forall (fun x => render var (g x) = h x) xs ->
  render var (psep sep (map g xs)) = sep_by sep (map h xs).
Proof.
  intros var sep g h xs H. induction H as [|x l Hx Hl IH]; [reflexivity|].
  destruct l as [|y l]; [exact Hx|].
  change (render var (g x ++ PTxt sep :: psep sep (map g (y :: l))) = h x ++ sep ++ sep_by sep (map h (y :: l))).
  rewrite render_app, render_cons, IH, Hx. reflexivity.
Qed.
Lemma pvars_psep : forall sep (g : expr -> list piece) (h : expr -> list (text * text)) xs,
  Forall (fun x => pvars (g x) = h x) xs ->
  pvars (psep sep (map g xs)) = flat_map h xs.
Proof.
  intros sep g h xs H. induction H as [|x l Hx Hl IH]; [reflexivity|].
  destruct l as [|y l]; [cbn [map psep flat_map]; rewrite Hx; symmetry; apply app_nil_r|].
  change (pvars (g x ++ PTxt sep :: psep sep (map g (y :: l))) = h x ++ flat_map h (y :: l)).
  rewrite pvars_app. change (pvars (PTxt sep :: ?l)) with (pvars l). rewrite IH, Hx. reflexivity.
Qed.

Theorem print_gen_pieces : forall var e ctx, print_gen var ctx e = render var (pieces ctx e).
Proof.
  intros var.
  induction e as [v|p f|a f IHa|a b IHa IHb|a b IHa IHb|c a b IHa IHb
                  |a b IHa IHb|a b IHa IHb|a IHa|a xs IHa IHxs|f args IHargs|p f] using expr_ind';
    intros ctx; cbn [print_gen pieces];
    rewrite ?render_pwrap, ?render_app, ?render_cons, ?render_one, ?render_app, ?render_one;
    cbn [render1]; rewrite ?render_nil, ?app_nil_r, <- ?IHa, <- ?IHb; try reflexivity.
  - rewrite (render_psep var (T ", ") (pieces 0) (print_gen var 0) xs); [reflexivity|].
    eapply Forall_impl; [|exact IHxs]. intros x Hx. symmetry. apply Hx.
  - rewrite (render_psep var (T ", ") (pieces 0) (print_gen var 0) args); [reflexivity|].
    eapply Forall_impl; [|exact IHargs]. intros x Hx. symmetry. apply Hx.
Qed.

Theorem pieces_vars : forall e ctx, pvars (pieces ctx e) = evars e.
Proof.
  induction e as [v|p f|a f IHa|a b IHa IHb|a b IHa IHb|c a b IHa IHb
                  |a b IHa IHb|a b IHa IHb|a IHa|a xs IHa IHxs|f args IHargs|p f] using expr_ind';
    intros ctx; cbn [pieces evars]; rewrite ?pvars_pwrap, ?pvars_app;
    repeat (change (pvars (PTxt ?s :: ?l)) with (pvars l)); rewrite ?pvars_app, ?IHa, ?IHb;
    try reflexivity.
  - apply app_nil_r.
  - rewrite (pvars_psep (T ", ") (pieces 0) evars xs).
    + change (pvars [PTxt (T "]")]) with (@nil (text * text)). rewrite app_nil_r. reflexivity.
    + eapply Forall_impl; [|exact IHxs]. intros x Hx. apply Hx.
  - rewrite (pvars_psep (T ", ") (pieces 0) evars args).
    + change (pvars [PTxt (T ")")]) with (@nil (text * text)). apply app_nil_r.
    + eapply Forall_impl; [|exact IHargs]. intros x Hx. apply Hx.
Qed.

(* the form used in Properties/C16e.v *)
Theorem tok_vars : forall ctx e,
  print_expr_at ctx e = render dotted (pieces ctx e) /\
  print_expr_at_tok ctx e = render tok (pieces ctx e) /\
  pvars (pieces ctx e) = evars e.
Proof.
  intros ctx e. split; [|split].
  - rewrite print_at_gen. apply print_gen_pieces.
  - rewrite print_at_tok_gen. apply print_gen_pieces.
  - apply pieces_vars.
Qed.

(* esc_print_ok with `ok` unfolded: the statement over an arbitrary
   continuation t and the scanner state after the printed text *)
Theorem escape_print_piece : forall e ctx dn t,
  (dn = true -> 6 <= ctx) -> esc_wf_at dn e = true -> (dn = false -> la_dead t = true) ->
  esc_go false false (print_expr_at ctx e ++ t) =
  print_expr_at_tok ctx e ++ esc_go false (pw_after false (print_expr_at ctx e)) t.
Proof.
  intros e ctx dn t Hctx Hwf Ht. apply (esc_print_ok e ctx dn Hctx Hwf).
  unfold la_ok. destruct dn; [reflexivity|]. apply Ht. reflexivity.
Qed.

(* wf at a base position is stronger than plain wf *)
Lemma esc_wf_at_weaken : forall e, esc_wf_at true e = true -> esc_wf_at false e = true.
Proof.
  induction e as [v|p f|a f IHa|a b IHa IHb|a b IHa IHb|c a b IHa IHb
                  |a b IHa IHb|a b IHa IHb|a IHa|a xs IHa IHxs|f args IHargs|p f] using expr_ind';
    cbn [esc_wf_at]; intros H; try exact H.
  - apply andb_true_iff in H. destruct H as [H1 H2]. rewrite H1. cbn [andb].
    unfold field_ok in *. apply andb_true_iff in H2. destruct H2 as [H2 _]. rewrite H2. reflexivity.
  - apply andb_true_iff in H. destruct H as [H1 H2]. rewrite H1. cbn [andb].
    unfold field_ok in *. apply andb_true_iff in H2. destruct H2 as [H2 _]. rewrite H2. reflexivity.
  - apply IHa, H.
Qed.

(* ------------------------------------------------------------------ *)
(* abbreviations for the examples of Properties/C16e.v                  *)
(* ------------------------------------------------------------------ *)
Definition v (p f : string) : expr := EVar (T p) (T f).
Definition str (s : string) : expr := ELit (SStr (T s)).
Definition call (f : string) (args : list expr) : expr := ECall (T f) args.
Definition eq3 : expr :=
  EAnd (EAnd (EEq (v "r" "sub") (v "p" "sub")) (EEq (v "r" "obj") (v "p" "obj")))
       (EEq (v "r" "act") (v "p" "act")).

(* what each example states: well-formed, the equation, and both texts *)
Definition ex_ok (e : expr) (src dst : string) : Prop :=
  esc_wf e = true /\
  escape_assertion (print_expr e) = print_expr_tok e /\
  print_expr e = T src /\ print_expr_tok e = T dst.
Definition breaks (e : expr) (got want : string) : Prop :=
  esc_wf e = false /\ escape_assertion (print_expr e) = T got /\ print_expr_tok e = T want /\
  escape_assertion (print_expr e) <> print_expr_tok e.
Ltac breaks_tac := vm_compute; repeat split; try reflexivity; discriminate.
