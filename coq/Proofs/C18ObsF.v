(* C18obs, part 4: what no incremental management call ever touches.
   Every call other than set_model changes the model store only inside the
   (first) p and g sections: in p the policy lists, in g the policy lists and
   the handles.  Consequences kept along every history: the definition part,
   `reparse_ok`, and `no_leftover` (the registered role functions are those of
   the model). *)
From CV Require Import Model.Base Model.Effector Model.RoleGraph Model.PathMatch Model.Expr
     Model.Enforce Model.Engine Model.SpecC05 Model.SpecC09 Model.SpecC18.
From CV Require Import Proofs.ListAux Proofs.BaseP Proofs.RoleGraphP Proofs.ExprP Proofs.ExModels
     Proofs.C09P
     Proofs.C05Links Proofs.C05Sync Proofs.C05Steps Proofs.C05Load Proofs.C05Main
     Proofs.C05Rebuild Proofs.C05P Proofs.C18P Proofs.C18Q Proofs.C18Obs Proofs.C18ObsR
     Proofs.C18ObsH.
From Coq Require Import Lia.

(* ================= 1. changes confined to sections p and g ================= *)
(* an entry without its policy list / without policy list and handle *)
Definition psk (ka : text * assertion) :=
  (fst ka, a_value (snd ka), a_tokens (snd ka), a_handle (snd ka)).
Definition gsk (ka : text * assertion) := (fst ka, a_value (snd ka), a_tokens (snd ka)).

Inductive PG : model -> model -> Prop :=
| PG_refl : forall M, PG M M
| PG_p : forall (M : model) (am am' : amap),
    @assoc amap s_p M = Some am -> map psk am' = map psk am -> PG M (assoc_set s_p am' M)
| PG_g : forall (M : model) (am am' : amap),
    @assoc amap s_g M = Some am -> map gsk am' = map gsk am -> PG M (assoc_set s_g am' M)
| PG_trans : forall M1 M2 M3, PG M1 M2 -> PG M2 M3 -> PG M1 M3.

Lemma psk_gsk : forall am am', map psk am' = map psk am -> map gsk am' = map gsk am.
Proof.
  intros am am' H.
  apply (f_equal (map (fun x : text * text * list text * handle =>
                         let '(k, v, t, h) := x in (k, v, t)))) in H.
  rewrite !map_map in H. exact H.
Qed.

Lemma gsk_rst : forall am am', map gsk am' = map gsk am -> map rst am' = map rst am.
Proof.
  intros am am' H.
  apply (f_equal (map (fun x : text * text * list text =>
                         let '(k, v, t) := x in
                         (k, {| a_value := v; a_tokens := t; a_policy := []; a_handle := HOwn |})))) in H.
  rewrite !map_map in H. exact H.
Qed.

Lemma gsk_gkeys : forall am am', map gsk am' = map gsk am -> gkeys am' = gkeys am.
Proof.
  intros am am' H.
  apply (f_equal (map (fun x : text * text * list text =>
                         let '(k, v, t) := x in (k, count_us v)))) in H.
  rewrite !map_map in H. exact H.
Qed.

Lemma hreset_clr_rst : forall am, hreset_am (clr am) = map rst am.
Proof. intros am. unfold hreset_am, clr. rewrite map_map. reflexivity. Qed.

Lemma assoc_set_as_upd : forall sec (am am' : amap) (M : model),
  assoc sec M = Some am -> assoc_set sec am' M = upd sec (fun _ => am') M.
Proof. intros sec am am' M H. unfold upd. rewrite H. reflexivity. Qed.

(* section-wise updates by functions that keep the skeleton *)
Lemma PG_upd_p : forall M F, (forall am, map psk (F am) = map psk am) -> PG M (upd s_p F M).
Proof.
  intros M F H. unfold upd. destruct (assoc s_p M) as [am|] eqn:E; [|apply PG_refl].
  apply (PG_p M am); [exact E|apply H].
Qed.

Lemma PG_upd_g : forall M F, (forall am, map gsk (F am) = map gsk am) -> PG M (upd s_g F M).
Proof.
  intros M F H. unfold upd. destruct (assoc s_g M) as [am|] eqn:E; [|apply PG_refl].
  apply (PG_g M am); [exact E|apply H].
Qed.

Lemma PG_upd_pg : forall M sec F, pg_sec sec = true ->
  (forall am, map psk (F am) = map psk am) -> PG M (upd sec F M).
Proof.
  intros M sec F Hsec H. unfold pg_sec in Hsec. apply orb_true_iff in Hsec.
  destruct Hsec as [E|E]; apply teqb_eq in E; subst sec.
  - apply PG_upd_p, H.
  - apply PG_upd_g. intros am. apply psk_gsk, H.
Qed.

(* ---- consequences ---- *)
Lemma PG_defs : forall M M', PG M M' -> defs_of M' = defs_of M.
Proof.
  intros M M' H. induction H as [M|M am am' Ha Hs|M am am' Ha Hs|M1 M2 M3 _ IH1 _ IH2].
  - reflexivity.
  - apply (defs_of_assoc_set s_p am); [exact Ha|]. apply gsk_rst, psk_gsk, Hs.
  - apply (defs_of_assoc_set s_g am); [exact Ha|]. apply gsk_rst, Hs.
  - congruence.
Qed.

Lemma PG_gkeys : forall M M', PG M M' -> model_gkeys M' = model_gkeys M.
Proof.
  intros M M' H. induction H as [M|M am am' Ha Hs|M am am' Ha Hs|M1 M2 M3 _ IH1 _ IH2].
  - reflexivity.
  - rewrite model_gkeys_assoc_set. reflexivity.
  - rewrite model_gkeys_assoc_set, teqb_refl. unfold model_gkeys. rewrite Ha. apply gsk_gkeys, Hs.
  - congruence.
Qed.

(* the cleared, handle-free form *)
Lemma PG_phi : forall M M', PG M M' ->
  hreset (m_clear_policy M') = hreset (m_clear_policy M).
Proof.
  intros M M' H. induction H as [M|M am am' Ha Hs|M am am' Ha Hs|M1 M2 M3 _ IH1 _ IH2].
  - reflexivity.
  - rewrite (assoc_set_as_upd _ _ _ _ Ha). rewrite !m_clear_upd, upd_upd.
    rewrite (upd_ext s_p clr (fun _ => clr am) M) by (intros am0 H0; congruence).
    rewrite !(hreset_upd s_g clr clr) by apply hreset_am_clr.
    rewrite (hreset_upd s_p (fun _ => clr am') (fun _ => hreset_am (clr am'))) by reflexivity.
    rewrite (hreset_upd s_p (fun _ => clr am) (fun _ => hreset_am (clr am))) by reflexivity.
    rewrite !hreset_clr_rst, (gsk_rst _ _ (psk_gsk _ _ Hs)). reflexivity.
  - rewrite (assoc_set_as_upd _ _ _ _ Ha). rewrite !m_clear_upd.
    rewrite (upd_comm s_p s_g clr (fun _ => am') M pg_distinct), upd_upd.
    assert (Hg : assoc s_g (upd s_p clr M) = Some am).
    { rewrite assoc_upd. replace (teqb s_g s_p) with false by reflexivity. exact Ha. }
    rewrite (upd_ext s_g clr (fun _ => clr am) (upd s_p clr M)) by (intros am0 H0; congruence).
    rewrite (hreset_upd s_g (fun _ => clr am') (fun _ => hreset_am (clr am'))) by reflexivity.
    rewrite (hreset_upd s_g (fun _ => clr am) (fun _ => hreset_am (clr am))) by reflexivity.
    rewrite !hreset_clr_rst, (gsk_rst _ _ Hs). reflexivity.
  - congruence.
Qed.

(* outside g every handle is own *)
Lemma hreset_am_fix_psk : forall am am', hreset_am am = am -> map psk am' = map psk am ->
  hreset_am am' = am'.
Proof.
  induction am as [|[k a] am IH]; intros [|[k' a'] am'] Hf Hs; cbn [map] in Hs; try discriminate;
    [reflexivity|].
  cbn [hreset_am map fst snd] in Hf |- *.
  assert (Hh : a_handle a = HOwn).
  { apply (f_equal (fun l => match l with ka :: _ => Some (a_handle (snd ka)) | [] => None end)) in Hf.
    cbn in Hf. congruence. }
  assert (Ht : hreset_am am = am) by (apply (f_equal (@tl _)) in Hf; exact Hf).
  assert (Hh' : a_handle a' = a_handle a).
  { apply (f_equal (fun l => match l with x :: _ => Some (snd x) | [] => None end)) in Hs.
    cbn in Hs. congruence. }
  assert (Hs' : map psk am' = map psk am) by (apply (f_equal (@tl _)) in Hs; exact Hs).
  fold (hreset_am am'). rewrite (IH am' Ht Hs'). f_equal. f_equal.
  destruct a' as [v t p h]. cbn in *. subst h. rewrite Hh. reflexivity.
Qed.

Lemma PG_own : forall M M', PG M M' -> hreset (gdrop M) = gdrop M -> hreset (gdrop M') = gdrop M'.
Proof.
  intros M M' H. induction H as [M|M am am' Ha Hs|M am am' Ha Hs|M1 M2 M3 _ IH1 _ IH2]; intros HK.
  - exact HK.
  - rewrite !gdrop_upd in *. rewrite (assoc_set_as_upd _ _ _ _ Ha).
    rewrite (upd_comm s_g s_p (fun _ => []) (fun _ => am') M) by (intros E; discriminate).
    rewrite (hreset_upd s_p (fun _ => am') (fun _ => hreset_am am')) by reflexivity.
    rewrite HK.
    assert (Hfix : hreset_am am = am).
    { pose proof (f_equal (assoc s_p) HK) as H0.
      change (hreset (upd s_g (fun _ => []) M)) with (map_val hreset_am (upd s_g (fun _ => []) M)) in H0.
      rewrite assoc_map_val, assoc_upd in H0. replace (teqb s_p s_g) with false in H0 by reflexivity.
      rewrite Ha in H0. cbn [option_map] in H0. congruence. }
    rewrite (hreset_am_fix_psk am am' Hfix Hs). reflexivity.
  - rewrite !gdrop_upd in *. rewrite (assoc_set_as_upd _ _ _ _ Ha), upd_upd. exact HK.
  - auto.
Qed.

(* reparse_ok is kept *)
Definition Reparse (M : model) : Prop :=
  defs_of M = hreset (m_clear_policy M) /\ hreset (gdrop M) = gdrop M.

Lemma reparse_ok_iff : forall M, reparse_ok M = true <-> Reparse M.
Proof.
  intros M. unfold reparse_ok, Reparse. rewrite andb_true_iff, !model_eqb_eq. reflexivity.
Qed.

Lemma PG_Reparse : forall M M', PG M M' -> Reparse M -> Reparse M'.
Proof.
  intros M M' H [J1 J2]. split.
  - rewrite (PG_defs _ _ H), (PG_phi _ _ H). exact J1.
  - apply (PG_own _ _ H J2).
Qed.

(* a definition as a parser produces it *)
Lemma clean_hreset_am : forall am, forallb (fun ka => clean_ast (snd ka)) am = true ->
  hreset_am am = am /\ clr am = am.
Proof.
  induction am as [|[k a] am IH]; intros H; [split; reflexivity|].
  cbn [forallb snd] in H. apply andb_true_iff in H. destruct H as [Hc Hr].
  destruct (IH Hr) as [I1 I2]. unfold clean_ast in Hc. destruct a as [v t p h]. cbn in Hc.
  destruct p; [|discriminate]. destruct h; try discriminate.
  cbn [hreset_am clr map fst snd]. fold (hreset_am am). fold (clr am). rewrite I1, I2.
  split; reflexivity.
Qed.

Lemma clean_hreset : forall M, clean_model M = true -> hreset M = M.
Proof.
  induction M as [|[sec am] M IH]; intros H; [reflexivity|].
  unfold clean_model in H. cbn [forallb snd] in H. apply andb_true_iff in H. destruct H as [Ha Hr].
  cbn [hreset map fst snd]. fold (hreset M). rewrite (IH Hr), (proj1 (clean_hreset_am am Ha)).
  reflexivity.
Qed.

Lemma clean_assoc : forall M sec am, clean_model M = true -> assoc sec M = Some am ->
  forallb (fun ka => clean_ast (snd ka)) am = true.
Proof.
  intros M sec am H Ha. apply assoc_In in Ha. unfold clean_model in H. rewrite forallb_forall in H.
  apply (H _ Ha).
Qed.

Lemma clean_clear : forall M, clean_model M = true -> m_clear_policy M = M.
Proof.
  intros M H. rewrite m_clear_upd.
  rewrite (upd_id s_p clr M) by (intros am Ha; apply (clean_hreset_am am), (clean_assoc M s_p am H Ha)).
  apply upd_id. intros am Ha. apply (clean_hreset_am am), (clean_assoc M s_g am H Ha).
Qed.

Lemma clean_Reparse : forall M, clean_model M = true -> Reparse M.
Proof.
  intros M H. split.
  - rewrite (defs_of_clean M H), (clean_clear M H), (clean_hreset M H). reflexivity.
  - rewrite gdrop_upd. rewrite (hreset_upd s_g (fun _ => []) (fun _ => [])) by reflexivity.
    rewrite (clean_hreset M H). reflexivity.
Qed.

(* ================= 2. the registered role functions ================= *)
Definition gfkeys (s : estate) : list (text * nat) := map fst (f_gfuns (e_fs s)).

Definition NoLeft (s : estate) : Prop :=
  forall k, In k (gfkeys s) -> In k (model_gkeys (e_model s)).

Lemma no_leftover_iff : forall s,
  no_leftover (f_gfuns (e_fs s)) (e_model s) = true <-> NoLeft s.
Proof.
  intros s. unfold no_leftover, NoLeft, gfkeys. rewrite forallb_forall. split.
  - intros H k Hk. apply in_map_iff in Hk. destruct Hk as (kh & <- & Hin).
    apply memb_gkey_In, (H kh Hin).
  - intros H kh Hin. apply memb_gkey_In, H. apply in_map. exact Hin.
Qed.

(* what one call does: the model changes inside p / g only, and every role
   function registered afterwards was registered before or is one of the model's *)
Definition Frame (s s' : estate) : Prop :=
  PG (e_model s) (e_model s') /\
  forall k, In k (gfkeys s') -> In k (gfkeys s) \/ In k (model_gkeys (e_model s)).

Lemma Frame_refl : forall s, Frame s s.
Proof. intros s. split; [apply PG_refl|]. intros k Hk. left. exact Hk. Qed.

Lemma Frame_trans : forall s1 s2 s3, Frame s1 s2 -> Frame s2 s3 -> Frame s1 s3.
Proof.
  intros s1 s2 s3 [P1 G1] [P2 G2]. split; [eapply PG_trans; eassumption|].
  intros k Hk. destruct (G2 k Hk) as [H|H]; [apply G1, H|].
  right. rewrite <- (PG_gkeys _ _ P1). exact H.
Qed.

Lemma Frame_same : forall s s', e_model s' = e_model s -> f_gfuns (e_fs s') = f_gfuns (e_fs s) ->
  Frame s s'.
Proof.
  intros s s' Hm Hg. split; [rewrite Hm; apply PG_refl|].
  intros k Hk. left. unfold gfkeys in *. rewrite <- Hg. exact Hk.
Qed.

Lemma Frame_model : forall s s', PG (e_model s) (e_model s') -> f_gfuns (e_fs s') = f_gfuns (e_fs s) ->
  Frame s s'.
Proof.
  intros s s' Hm Hg. split; [exact Hm|].
  intros k Hk. left. unfold gfkeys in *. rewrite <- Hg. exact Hk.
Qed.

Lemma Frame_NoLeft : forall s s', Frame s s' -> NoLeft s -> NoLeft s'.
Proof.
  intros s s' [P G] H k Hk. rewrite (PG_gkeys _ _ P).
  destruct (G k Hk) as [H0|H0]; [apply H, H0|exact H0].
Qed.

(* ================= 3. the building blocks of the calls ================= *)
Lemma map_proj_assoc_set : forall {B} (f : text * assertion -> B) k a a' (am : amap),
  assoc k am = Some a -> (forall k0, f (k0, a') = f (k0, a)) ->
  map f (assoc_set k a' am) = map f am.
Proof.
  intros B f k a a' am. induction am as [|[k1 a1] am IH]; cbn [assoc assoc_set]; [discriminate|].
  destruct (teqb k k1); intros H Hf.
  - inversion H; subst. cbn [map]. rewrite Hf. reflexivity.
  - cbn [map]. rewrite (IH H Hf). reflexivity.
Qed.

Lemma psk_ins_am : forall key fields am, map psk (ins_am key fields am) = map psk am.
Proof.
  intros key fields am. unfold ins_am. destruct (assoc key am) as [a|] eqn:E; [|reflexivity].
  apply (map_proj_assoc_set psk key a); [exact E|reflexivity].
Qed.

Lemma psk_clr : forall am, map psk (clr am) = map psk am.
Proof. intros am. unfold clr. rewrite map_map. reflexivity. Qed.

Lemma PG_clear : forall M, PG M (m_clear_policy M).
Proof.
  intros M. rewrite m_clear_upd. eapply PG_trans; [apply PG_upd_p, psk_clr|].
  apply PG_upd_g. intros am. apply psk_gsk, psk_clr.
Qed.

(* replacing the policy list of one p / g definition *)
Lemma PG_set_policy : forall M sec pt a p, pg_sec sec = true -> get_ast M sec pt = Some a ->
  PG M (set_ast M sec pt (with_policy a p)).
Proof.
  intros M sec pt a p Hsec Hg. unfold get_ast, set_ast in *.
  destruct (assoc sec M) as [am|] eqn:E; [|discriminate].
  assert (Hs : map psk (assoc_set pt (with_policy a p) am) = map psk am)
    by (apply (map_proj_assoc_set psk pt a); [exact Hg|reflexivity]).
  unfold pg_sec in Hsec. apply orb_true_iff in Hsec.
  destruct Hsec as [E0|E0]; apply teqb_eq in E0; subst sec.
  - apply (PG_p M am); assumption.
  - apply (PG_g M am); [exact E|apply psk_gsk, Hs].
Qed.

Lemma PG_set_handle : forall M pt a h, get_ast M s_g pt = Some a ->
  PG M (set_ast M s_g pt (with_handle a h)).
Proof.
  intros M pt a h Hg. unfold get_ast, set_ast in *.
  destruct (assoc s_g M) as [am|] eqn:E; [|discriminate].
  apply (PG_g M am); [exact E|]. apply (map_proj_assoc_set gsk pt a); [exact Hg|reflexivity].
Qed.

Lemma PG_m_add_policy : forall M sec pt r, pg_sec sec = true -> PG M (fst (m_add_policy M sec pt r)).
Proof.
  intros M sec pt r Hsec. unfold m_add_policy. destruct (get_ast M sec pt) as [a|] eqn:E; [|apply PG_refl].
  destruct (rmem r (a_policy a)); cbn [fst]; [apply PG_refl|]. apply PG_set_policy; assumption.
Qed.

Lemma PG_m_add_policies : forall M sec pt rs, pg_sec sec = true -> PG M (fst (m_add_policies M sec pt rs)).
Proof.
  intros M sec pt rs Hsec. unfold m_add_policies. destruct rs as [|r0 rs0]; [apply PG_refl|].
  destruct (get_ast M sec pt) as [a|] eqn:E; [|apply PG_refl].
  destruct (existsb _ _); cbn [fst]; [apply PG_refl|]. apply PG_set_policy; assumption.
Qed.

Lemma PG_m_remove_policy : forall M sec pt r, pg_sec sec = true -> PG M (fst (m_remove_policy M sec pt r)).
Proof.
  intros M sec pt r Hsec. unfold m_remove_policy. destruct (get_ast M sec pt) as [a|] eqn:E; [|apply PG_refl].
  destruct (rmem r (a_policy a)); cbn [fst]; [|apply PG_refl]. apply PG_set_policy; assumption.
Qed.

Lemma PG_m_remove_policies : forall M sec pt rs, pg_sec sec = true ->
  PG M (fst (m_remove_policies M sec pt rs)).
Proof.
  intros M sec pt rs Hsec. unfold m_remove_policies. destruct rs as [|r0 rs0]; [apply PG_refl|].
  destruct (get_ast M sec pt) as [a|] eqn:E; [|apply PG_refl].
  destruct (forallb _ _); cbn [fst]; [|apply PG_refl]. apply PG_set_policy; assumption.
Qed.

Lemma PG_m_remove_filtered : forall M sec pt idx vals md removed rs, pg_sec sec = true ->
  m_remove_filtered M sec pt idx vals = Some (md, removed, rs) -> PG M md.
Proof.
  intros M sec pt idx vals md removed rs Hsec. unfold m_remove_filtered.
  destruct vals as [|v0 vs0]; [intros H; inversion H; apply PG_refl|].
  destruct (get_ast M sec pt) as [a|] eqn:E; [|intros H; inversion H; apply PG_refl].
  destruct (select_filtered idx (v0 :: vs0) (a_policy a)) as [[|r0 rem]|]; intros H; inversion H; subst.
  - apply PG_refl.
  - apply PG_set_policy; assumption.
Qed.

Lemma gsk_build_links_am : forall am m am' m' e,
  build_links_am am m = (am', m', e) -> map gsk am' = map gsk am.
Proof.
  induction am as [|[k a] am IH]; intros m am' m' e; cbn [build_links_am].
  - intros H; inversion H; reflexivity.
  - destruct (Nat.ltb (count_us (a_value a)) 2); [intros H; inversion H; reflexivity|].
    destruct (link_rules (count_us (a_value a)) true m (a_policy a)) as [m1 [|e1]];
      [|intros H; inversion H; reflexivity].
    destruct (build_links_am am m1) as [[am2 m2] e2] eqn:Hb. intros H; inversion H; subst.
    cbn [map]. rewrite (IH _ _ _ _ Hb). reflexivity.
Qed.

Lemma Frame_build_role_links : forall s, Frame s (fst (build_role_links s)).
Proof.
  intros s. unfold build_role_links. destruct (assoc s_g (e_model s)) as [am|] eqn:E.
  - destruct (build_links_am am []) as [[am' m'] e] eqn:Hb. cbn [fst].
    apply Frame_model; [|reflexivity]. cbn [e_model upd_fs upd_model].
    apply (PG_g _ am); [exact E|]. eapply gsk_build_links_am, Hb.
  - cbn [fst]. apply Frame_same; reflexivity.
Qed.

Lemma Frame_incremental_links : forall s pt ins rs, Frame s (fst (incremental_links s pt ins rs)).
Proof.
  intros s pt ins rs. unfold incremental_links.
  destruct (get_ast (e_model s) s_g pt) as [a|] eqn:E; [|apply Frame_refl].
  destruct (Nat.ltb (count_us (a_value a)) 2); [apply Frame_refl|].
  destruct (link_rules (count_us (a_value a)) ins (f_rm (e_fs s)) rs) as [m' [|e]]; cbn [fst].
  - apply Frame_model; [|reflexivity]. cbn [e_model upd_fs upd_model]. apply PG_set_handle, E.
  - apply Frame_same; reflexivity.
Qed.

Lemma Frame_after_change : forall s sec pt ch ins rs, Frame s (fst (after_change s sec pt ch ins rs)).
Proof.
  intros s sec pt ch ins rs. unfold after_change.
  destruct (negb (teqb sec s_g) || negb (e_auto_build s) || negb ch); [apply Frame_refl|].
  pose proof (Frame_incremental_links s pt ins rs) as H.
  destruct (incremental_links s pt ins rs) as [s' e]. exact H.
Qed.

Lemma Frame_emit : forall s ev, Frame s (emit s ev).
Proof. intros. apply Frame_same; [apply emit_model|rewrite emit_fs; reflexivity]. Qed.

Lemma Frame_emit_mgmt : forall s ch ev, Frame s (emit_mgmt s ch ev).
Proof. intros. apply Frame_same; [apply emit_mgmt_model|rewrite emit_mgmt_fs; reflexivity]. Qed.

Lemma register_g_keys_sub : forall am gf k,
  In k (map fst (fst (register_g am gf))) -> In k (map fst gf) \/ In k (gkeys am).
Proof.
  induction am as [|[k0 a] am IH]; intros gf k; cbn [register_g fst]; [auto|].
  cbn [gkeys map fst snd]. fold (gkeys am).
  destruct (Nat.eqb (count_us (a_value a)) 2) eqn:E2.
  - intros H. apply IH in H. cbn [map fst In] in H. apply Nat.eqb_eq in E2. rewrite E2.
    destruct H as [[H|H]|H]; [right; left; exact H|left; exact H|right; right; exact H].
  - destruct (Nat.eqb (count_us (a_value a)) 3) eqn:E3.
    + intros H. apply IH in H. cbn [map fst In] in H. apply Nat.eqb_eq in E3. rewrite E3.
      destruct H as [[H|H]|H]; [right; left; exact H|left; exact H|right; right; exact H].
    + cbn [fst]. auto.
Qed.

Lemma Frame_register_g : forall s, Frame s (fst (register_g_functions s)).
Proof.
  intros s. unfold register_g_functions. destruct (assoc s_g (e_model s)) as [am|] eqn:E;
    [|apply Frame_refl].
  pose proof (register_g_keys_sub am (f_gfuns (e_fs s))) as H.
  destruct (register_g am (f_gfuns (e_fs s))) as [gf e]. cbn [fst] in *.
  split; [apply PG_refl|]. intros k Hk. unfold gfkeys in *. cbn [e_fs upd_fs f_gfuns] in Hk.
  unfold model_gkeys. rewrite E. apply H, Hk.
Qed.

(* ================= 4. the calls ================= *)
Lemma Frame_step_add : forall s sec pt r, pg_sec sec = true -> Frame s (fst (step_add s sec pt r)).
Proof.
  intros s sec pt r Hsec. unfold step_add.
  destruct (if e_auto_save s then ad_add (e_adapter s) sec pt r else (e_adapter s, Ok true)) as [ad ares].
  destruct ares as [[|]|e|]; cbn [fst]; try (apply Frame_same; reflexivity).
  pose proof (PG_m_add_policy (e_model (upd_adapter s ad)) sec pt r Hsec) as HP.
  destruct (m_add_policy (e_model (upd_adapter s ad)) sec pt r) as [md added]. cbn [fst] in HP.
  eapply Frame_trans; [|apply Frame_after_change].
  eapply Frame_trans; [|apply Frame_emit_mgmt].
  apply Frame_model; [exact HP|reflexivity].
Qed.

Lemma Frame_step_add_many : forall s sec pt rs, pg_sec sec = true ->
  Frame s (fst (step_add_many s sec pt rs)).
Proof.
  intros s sec pt rs Hsec. unfold step_add_many.
  destruct (if e_auto_save s then ad_add_many (e_adapter s) sec pt rs else (e_adapter s, Ok true))
    as [ad ares].
  destruct ares as [[|]|e|]; cbn [fst]; try (apply Frame_same; reflexivity).
  pose proof (PG_m_add_policies (e_model (upd_adapter s ad)) sec pt rs Hsec) as HP.
  destruct (m_add_policies (e_model (upd_adapter s ad)) sec pt rs) as [md added]. cbn [fst] in HP.
  eapply Frame_trans; [|apply Frame_after_change].
  eapply Frame_trans; [|apply Frame_emit_mgmt].
  apply Frame_model; [exact HP|reflexivity].
Qed.

Lemma Frame_step_remove : forall s sec pt r, pg_sec sec = true -> Frame s (fst (step_remove s sec pt r)).
Proof.
  intros s sec pt r Hsec. unfold step_remove.
  destruct (if e_auto_save s then ad_remove (e_adapter s) sec pt r else (e_adapter s, Ok true))
    as [ad ares].
  destruct ares as [[|]|e|]; cbn [fst]; try (apply Frame_same; reflexivity).
  pose proof (PG_m_remove_policy (e_model (upd_adapter s ad)) sec pt r Hsec) as HP.
  destruct (m_remove_policy (e_model (upd_adapter s ad)) sec pt r) as [md removed]. cbn [fst] in HP.
  eapply Frame_trans; [|apply Frame_after_change].
  eapply Frame_trans; [|apply Frame_emit_mgmt].
  apply Frame_model; [exact HP|reflexivity].
Qed.

Lemma Frame_step_remove_many : forall s sec pt rs, pg_sec sec = true ->
  Frame s (fst (step_remove_many s sec pt rs)).
Proof.
  intros s sec pt rs Hsec. unfold step_remove_many.
  destruct (if e_auto_save s then ad_remove_many (e_adapter s) sec pt rs else (e_adapter s, Ok true))
    as [ad ares].
  destruct ares as [[|]|e|]; cbn [fst]; try (apply Frame_same; reflexivity).
  pose proof (PG_m_remove_policies (e_model (upd_adapter s ad)) sec pt rs Hsec) as HP.
  destruct (m_remove_policies (e_model (upd_adapter s ad)) sec pt rs) as [md removed]. cbn [fst] in HP.
  eapply Frame_trans; [|apply Frame_after_change].
  eapply Frame_trans; [|apply Frame_emit_mgmt].
  apply Frame_model; [exact HP|reflexivity].
Qed.

Lemma Frame_step_remove_filtered : forall s sec pt idx vals, pg_sec sec = true ->
  Frame s (fst (step_remove_filtered s sec pt idx vals)).
Proof.
  intros s sec pt idx vals Hsec. unfold step_remove_filtered.
  destruct (if e_auto_save s then ad_remove_filtered (e_adapter s) sec pt idx vals
            else (e_adapter s, Ok true)) as [ad ares].
  destruct ares as [[|]|e|]; cbn [fst]; try (apply Frame_same; reflexivity).
  destruct (m_remove_filtered (e_model (upd_adapter s ad)) sec pt idx vals) as [[[md removed] rs]|] eqn:Em;
    [|apply Frame_same; reflexivity].
  pose proof (PG_m_remove_filtered _ _ _ _ _ _ _ _ Hsec Em) as HP.
  assert (H1 : Frame s (emit_mgmt (upd_model (upd_adapter s ad) md) removed (EvRemoveFiltered sec pt rs))).
  { eapply Frame_trans; [|apply Frame_emit_mgmt]. apply Frame_model; [exact HP|reflexivity]. }
  match goal with |- Frame s (fst (if ?c then _ else _)) => destruct c end; [exact H1|].
  match goal with |- context [incremental_links ?s2 pt false rs] =>
    pose proof (Frame_incremental_links s2 pt false rs) as H2;
    destruct (incremental_links s2 pt false rs) as [s3 e] end.
  cbn [fst] in *. eapply Frame_trans; eassumption.
Qed.

Lemma Frame_seq_or : forall s ra f,
  Frame s (fst ra) -> (forall s1, Frame s1 (fst (f s1))) -> Frame s (fst (seq_or ra f)).
Proof.
  intros s [s1 [a|e|]] f H Hf; cbn [seq_or fst] in *; try exact H.
  specialize (Hf s1). destruct (f s1) as [s2 [b|e|]]; cbn [fst] in *; eapply Frame_trans; eassumption.
Qed.

Lemma Frame_step_rbac : forall s o, Frame s (fst (step_rbac s o)).
Proof.
  intros s o. destruct o; cbn [step_rbac];
    first [ apply Frame_step_add; reflexivity | apply Frame_step_add_many; reflexivity
          | apply Frame_step_remove; reflexivity | apply Frame_step_remove_filtered; reflexivity
          | apply Frame_seq_or;
            [apply Frame_step_remove_filtered; reflexivity
            |intros s1; apply Frame_step_remove_filtered; reflexivity] ].
Qed.

Lemma Frame_step_clear : forall s, Frame s (fst (step_clear s)).
Proof.
  intros s. unfold step_clear.
  destruct (if e_auto_save s then ad_clear (e_adapter s) else (e_adapter s, LROk)) as [ad r].
  destruct r as [|e|]; cbn [fst]; try (apply Frame_same; reflexivity).
  set (s2 := upd_model (upd_adapter s ad) (m_clear_policy (e_model (upd_adapter s ad)))).
  assert (H2 : Frame s s2) by (apply Frame_model; [apply PG_clear|reflexivity]).
  destruct (e_auto_build s2).
  - pose proof (Frame_build_role_links s2) as H3.
    destruct (build_role_links s2) as [s3 [|e]]; cbn [fst] in *.
    + eapply Frame_trans; [|apply Frame_emit]. eapply Frame_trans; eassumption.
    + eapply Frame_trans; eassumption.
  - cbn [fst]. eapply Frame_trans; [exact H2|apply Frame_emit].
Qed.

Lemma Frame_finish_load : forall s ad md r, PG (e_model s) md -> Frame s (fst (finish_load s ad md r)).
Proof.
  intros s ad md r HP. destruct r as [|e|]; cbn [finish_load fst]; try (apply Frame_same; reflexivity).
  set (s1 := upd_model (upd_adapter s ad) md).
  assert (H1 : Frame s s1) by (apply Frame_model; [exact HP|reflexivity]).
  destruct (e_auto_build s1); [|exact H1].
  pose proof (Frame_build_role_links s1) as H2. destruct (build_role_links s1) as [s2 e].
  cbn [fst] in *. eapply Frame_trans; eassumption.
Qed.

Lemma PG_load_mem_lines : forall l M, pg_all l -> PG M (fold_left load_mem_line l M).
Proof.
  induction l as [|ln l IH]; intros M Hpg; cbn [fold_left]; [apply PG_refl|].
  eapply PG_trans; [|apply IH; intros x Hx; apply Hpg; right; exact Hx].
  rewrite C18Q.load_mem_line_upd. destruct ln as [|sec [|pt fields]]; try apply PG_refl.
  apply PG_upd_pg; [|intros am; apply psk_ins_am].
  apply (Hpg (sec :: pt :: fields)). left. reflexivity.
Qed.

Lemma Frame_step_load : forall s, MemPlain s -> Frame s (fst (step_load s)).
Proof.
  intros s (l & Ha & Hpg). unfold step_load. rewrite Ha. cbn [ad_load ad0_load].
  apply Frame_finish_load. eapply PG_trans; [apply PG_clear|]. apply PG_load_mem_lines, Hpg.
Qed.

Lemma Frame_step_save : forall s, Frame s (fst (step_save s)).
Proof.
  intros s. unfold step_save. destruct (ad_is_filtered (e_adapter s)); [apply Frame_refl|].
  destruct (ad_save (e_adapter s) (e_model s)) as [ad [|e|]]; cbn [fst];
    try (apply Frame_same; reflexivity).
  eapply Frame_trans; [|apply Frame_emit]. apply Frame_same; reflexivity.
Qed.

Lemma gsk_freeze : forall fz (am : amap),
  map gsk (map (fun ka : text * assertion => (fst ka, with_handle (snd ka) (fz (a_handle (snd ka))))) am)
  = map gsk am.
Proof. intros fz am. rewrite map_map. reflexivity. Qed.

Lemma Frame_step_set_role_manager : forall s mx, Frame s (fst (step_set_role_manager s mx)).
Proof.
  intros s mx. unfold step_set_role_manager. cbv zeta.
  match goal with |- context [upd_fs (upd_model s ?md) ?fs] =>
    set (s1 := upd_fs (upd_model s md) fs) end.
  assert (H1 : Frame s s1).
  { split.
    - unfold s1. cbn [e_model upd_fs upd_model].
      destruct (assoc s_g (e_model s)) as [am|] eqn:E; [|apply PG_refl].
      apply (PG_g _ am); [exact E|apply gsk_freeze].
    - intros k Hk. left. unfold gfkeys, s1 in *. cbn [e_fs upd_fs f_gfuns] in Hk.
      rewrite map_map in Hk. cbn [fst] in Hk. exact Hk. }
  assert (H2 : Frame s (fst (if e_auto_build s1 then build_role_links s1 else (s1, LOk)))).
  { destruct (e_auto_build s1); [|exact H1].
    eapply Frame_trans; [exact H1|apply Frame_build_role_links]. }
  destruct (if e_auto_build s1 then build_role_links s1 else (s1, LOk)) as [s2 e].
  cbn [fst] in H2. destruct e as [|c]; [|exact H2].
  pose proof (Frame_register_g s2) as H3. destruct (register_g_functions s2) as [s3 e'].
  cbn [fst] in *. eapply Frame_trans; eassumption.
Qed.

Theorem Frame_step : forall s o, obs_op o = true -> MemPlain s -> Frame s (fst (step s o)).
Proof.
  intros s o Hop Hm. unfold obs_op in Hop. apply andb_true_iff in Hop. destruct Hop as [Hc Hpg].
  destruct o; cbn [c09_op] in Hc; cbn [pg_op] in Hpg; try discriminate; cbn [step].
  - apply Frame_step_add, Hpg.
  - apply Frame_step_add_many, Hpg.
  - apply Frame_step_remove, Hpg.
  - apply Frame_step_remove_many, Hpg.
  - apply Frame_step_remove_filtered, Hpg.
  - apply Frame_step_rbac.
  - apply Frame_step_clear.
  - apply Frame_step_load, Hm.
  - apply Frame_step_save.
  - pose proof (Frame_build_role_links s) as H. destruct (build_role_links s) as [s' e]. exact H.
  - apply Frame_step_set_role_manager.
  - apply Frame_refl.
  - cbn [fst]. apply Frame_same; reflexivity.
  - cbn [fst]. apply Frame_same; reflexivity.
  - cbn [fst]. apply Frame_same; reflexivity.
  - cbn [fst]. apply Frame_same; reflexivity.
  - cbn [fst]. apply Frame_same; reflexivity.
Qed.

(* ================= 5. along histories ================= *)
Theorem Frame_run : forall ops s, forallb obs_op ops = true -> Pl s -> Frame s (run_ops s ops).
Proof.
  unfold run_ops. induction ops as [|o ops IH]; intros s Hops H; cbn [fold_left]; [apply Frame_refl|].
  cbn [forallb] in Hops. apply andb_true_iff in Hops. destruct Hops as [Ho Hops].
  eapply Frame_trans; [apply (Frame_step s o Ho), H|].
  apply IH; [exact Hops|]. apply step_Pl; assumption.
Qed.

(* the constructor *)
Theorem new_enforcer_Frame : forall d l w s b,
  new_enforcer d (AMemory l false) w = (s, Ok b) -> pg_all l ->
  NoLeft s /\ (clean_def d = true -> Reparse (e_model s)).
Proof.
  intros d l w s b Hnew Hpg. unfold new_enforcer, new_raw in Hnew.
  match type of Hnew with context [register_g_functions ?st] => set (si := st) in * end.
  pose proof (Frame_register_g si) as H0.
  pose proof (register_g_functions_adapter si) as Had.
  destruct (register_g_functions si) as [s0 [|e]]; [|discriminate].
  cbn [fst] in *. change (e_adapter si) with (AMemory l false) in Had.
  rewrite Had in Hnew. cbn [ad_is_filtered] in Hnew.
  assert (Hm0 : MemPlain s0) by (exists l; split; [exact Had|exact Hpg]).
  pose proof (Frame_step_load s0 Hm0) as H1. rewrite Hnew in H1. cbn [fst] in H1.
  pose proof (Frame_trans _ _ _ H0 H1) as H. split.
  - apply (Frame_NoLeft si s H). intros k [].
  - intros Hcl. apply (PG_Reparse (e_model si) (e_model s) (proj1 H)). apply clean_Reparse, Hcl.
Qed.
