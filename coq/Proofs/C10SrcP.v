(* C10 at the level of the TRANSLATED SOURCE: the headline theorems of Properties/C10.v about the enforcer (parts 1
   and 2: refused / failed incremental calls, failed clear / save, failed loads) restated about `src_step` /
   `src_run_ops` / `src_ask` (Proofs/SrcStepP.v, Proofs/SrcQueryP.v: the Gallina generated each run from
   src/internal_api.rs, src/rbac_api.rs, src/management_api.rs, src/enforcer.rs).  Part 4 of C10 (the file-save
   protocol) is not about `step` and is not restated.
   Proofs: the C10 theorems (Proofs/C10P.v) composed with src_step_eq & co. *)
From CV Require Import Model.Base Model.Effector Model.RoleGraph Model.PathMatch
     Model.Expr Model.Enforce Model.Engine Model.FileSave Model.SpecC14.
From CV Require Import Proofs.BaseP Proofs.C10P.
From CV Require Import Proofs.SrcStepP Proofs.SrcQueryP.

(* add / add-many / remove / remove-many / remove-filtered and every single-call RBAC helper, auto-save on, the
   adapter made to refuse (Ok(false)) or to fail (Err): the translated call returns Ok(false) resp. Err(adapter) and
   the state is the old one with only the script entry consumed; hence every query answers as before *)
Lemma src_c10_rejected_is_identity : forall ptab s o p i r sc,
  op_prim o = Some p -> e_auto_save s = true -> e_adapter s = AScripted i (r :: sc) ->
  r <> RPass ->
  let s' := fst (src_step s o) in
  snd (src_step s o) = (if fail_resp r then Err EAdapter else Ok false) /\
  s' = upd_adapter s (AScripted i sc) /\
  e_model s' = e_model s /\ e_mexprs s' = e_mexprs s /\ e_fs s' = e_fs s /\
  e_wlog s' = e_wlog s /\ e_callbacks s' = e_callbacks s /\
  (forall q, src_ask ptab s' q = src_ask ptab s q).
Proof.
  intros ptab s o p i r sc Ho Hs Ha Hr. cbv zeta. rewrite !src_step_eq.
  pose proof (rejected_is_identity ptab s o p i r sc Ho Hs Ha Hr) as H. cbv zeta in H.
  destruct H as (H1 & H2 & H3 & H4 & H5 & H6 & H7 & H8).
  repeat (split; [assumption|]). intros q. rewrite !src_ask_eq. apply H8.
Qed.

(* the same at any point of any history *)
Lemma src_c10_rejected_any_history : forall ptab s0 ops o p i r sc,
  let s := src_run_ops s0 ops in
  op_prim o = Some p -> e_auto_save s = true -> e_adapter s = AScripted i (r :: sc) -> r <> RPass ->
  fst (src_step s o) = upd_adapter s (AScripted i sc) /\
  snd (src_step s o) = (if fail_resp r then Err EAdapter else Ok false) /\
  (forall q, src_ask ptab (fst (src_step s o)) q = src_ask ptab s q).
Proof.
  intros ptab s0 ops o p i r sc s Ho Hs Ha Hr.
  pose proof (src_c10_rejected_is_identity ptab s o p i r sc Ho Hs Ha Hr) as H. cbv zeta in H.
  destruct H as (A & B & _ & _ & _ & _ & _ & C).
  split; [exact B|]. split; [exact A|exact C].
Qed.

(* the two-call helpers delete_user / delete_role: first adapter call fails -> nothing changes *)
Lemma src_c10_two_call_first_fails : forall ptab s o p1 p2 i r sc,
  op_two o = Some (p1, p2) -> e_auto_save s = true -> e_adapter s = AScripted i (r :: sc) ->
  fail_resp r = true ->
  src_step s o = (upd_adapter s (AScripted i sc), Err EAdapter) /\
  (forall q, src_ask ptab (fst (src_step s o)) q = src_ask ptab s q).
Proof.
  intros ptab s o p1 p2 i r sc Ho Hs Ha Hr. rewrite !src_step_eq.
  destruct (two_call_first_fails ptab s o p1 p2 i r sc Ho Hs Ha Hr) as [H1 H2].
  split; [exact H1|]. intros q. rewrite !src_ask_eq. apply H2.
Qed.

(* clear_policy / save_policy with a failing adapter *)
Lemma src_c10_clear_failed : forall ptab s i r sc,
  e_auto_save s = true -> e_adapter s = AScripted i (r :: sc) -> r <> RPass ->
  src_step s OClear = (upd_adapter s (AScripted i sc), Err EAdapter) /\
  (forall q, src_ask ptab (fst (src_step s OClear)) q = src_ask ptab s q).
Proof.
  intros ptab s i r sc Hs Ha Hr. rewrite !src_step_eq.
  destruct (clear_failed ptab s i r sc Hs Ha Hr) as [H1 H2].
  split; [exact H1|]. intros q. rewrite !src_ask_eq. apply H2.
Qed.

Lemma src_c10_save_failed : forall ptab s i r sc,
  e_adapter s = AScripted i (r :: sc) -> r <> RPass -> ad_is_filtered i = false ->
  src_step s OSave = (upd_adapter s (AScripted i sc), Err EAdapter) /\
  (forall q, src_ask ptab (fst (src_step s OSave)) q = src_ask ptab s q).
Proof.
  intros ptab s i r sc Ha Hr Hf. rewrite !src_step_eq.
  destruct (save_failed ptab s i r sc Ha Hr Hf) as [H1 H2].
  split; [exact H1|]. intros q. rewrite !src_ask_eq. apply H2.
Qed.

(* an unscripted string adapter implements no incremental call: with auto-save on every management call fails and
   changes nothing *)
Lemma src_c10_string_adapter_rejects : forall ptab s o l f,
  is_mgmt o = true -> e_auto_save s = true -> e_adapter s = AString l f ->
  src_step s o = (upd_adapter s (AString l f), Err EAdapter) /\
  (forall q, src_ask ptab (fst (src_step s o)) q = src_ask ptab s q).
Proof.
  intros ptab s o l f Hm Hs Ha. rewrite !src_step_eq.
  destruct (string_adapter_rejects ptab s o l f Hm Hs Ha) as [H1 H2].
  split; [exact H1|]. intros q. rewrite !src_ask_eq. apply H2.
Qed.

(* load_policy / load_filtered_policy with the adapter failing before any rule, after all rules or between the
   policy and the grouping rules: Err(adapter); the previously loaded policy stays in force *)
Lemma src_c10_failed_load_keeps_policy : forall ptab s o i r sc,
  is_load o = true -> e_adapter s = AScripted i (r :: sc) -> r <> RPass ->
  exists i',
    src_step s o = (upd_adapter s (AScripted i' sc), Err EAdapter) /\
    ad_unmark i' = ad_unmark i /\
    (r = RFail \/ r = RRefuse -> i' = i) /\
    (forall q, q <> QIsFiltered -> src_ask ptab (fst (src_step s o)) q = src_ask ptab s q) /\
    (r = RFail \/ r = RRefuse -> forall q, src_ask ptab (fst (src_step s o)) q = src_ask ptab s q).
Proof.
  intros ptab s o i r sc Hl Ha Hr. rewrite !src_step_eq.
  destruct (failed_load_keeps_policy ptab s o i r sc Hl Ha Hr) as (i' & H1 & H2 & H3 & H4 & H5).
  exists i'. split; [exact H1|]. split; [exact H2|]. split; [exact H3|]. split.
  - intros q Hq. rewrite !src_ask_eq. apply H4. exact Hq.
  - intros Hrr q. rewrite !src_ask_eq. apply H5. exact Hrr.
Qed.

(* for ANY adapter: a load that reports an adapter error or panics changed at most the adapter component *)
Lemma src_c10_load_not_ok_keeps_policy : forall ptab s o,
  is_load o = true ->
  snd (src_step s o) = Err EAdapter \/ snd (src_step s o) = Panic ->
  (exists ad, fst (src_step s o) = upd_adapter s ad) /\
  (forall q, q <> QIsFiltered -> src_ask ptab (fst (src_step s o)) q = src_ask ptab s q).
Proof.
  intros ptab s o Hl. rewrite !src_step_eq. intros Hr.
  destruct (load_not_ok_keeps_policy ptab s o Hl Hr) as [H1 H2].
  split; [exact H1|]. intros q Hq. rewrite !src_ask_eq. apply H2. exact Hq.
Qed.
