(* The TRANSLATED SOURCE as one transition function.  `src_step` dispatches every operation of the engine model to the
   Gallina generated each run from /repo's Rust text (Gen/InternalGen.v from src/internal_api.rs, Gen/ApiGen.v from
   src/rbac_api.rs + src/management_api.rs, Gen/EnforcerGen.v from src/enforcer.rs) and `src_enforce*` to the translated
   enforcement loops (Gen/EnforceGen.v).  By the translation theorems of PinChecks/Pc*Gen.v it coincides with the model's
   `step` / `enforce*` for every state and argument; hence every theorem of Properties/C*.v stated over `step`,
   `run_ops`, `enforce` holds verbatim of the translated source (rewrite with src_step_ok / src_run_ops_ok). *)
From CV Require Import Model.Base Model.Effector Model.Expr Model.Enforce Model.Engine.
From CV Require Import Gen.InternalPrims Gen.InternalGen Gen.ApiRt Gen.ApiGen Gen.EnforcerPrims Gen.EnforcerGen.
From CV Require Import Gen.RustStr Gen.RustVec Gen.RustEnf Gen.EnforceGen.
From CV Require Import PinChecks.PcInternalGen PinChecks.PcApiGen PinChecks.PcEnforcerGen PinChecks.PcEnforceGen.

Definition src_step (s : estate) (o : op) : estate * outcome bool :=
  match o with
  | OAdd sec pt r => gen_add_policy_internal s sec pt r
  | OAddMany sec pt rs => gen_add_policies_internal s sec pt rs
  | ORemove sec pt r => gen_remove_policy_internal s sec pt r
  | ORemoveMany sec pt rs => gen_remove_policies_internal s sec pt rs
  | ORemoveFiltered sec pt idx vals => gen_remove_filtered_policy_internal s sec pt idx vals
  | ORbac r => gen_rbac s r
  | OClear => gen_clear_policy s
  | OLoad => gen_load_policy s
  | OLoadFiltered fp fg => gen_load_filtered_policy s (fp, fg)
  | OSave => gen_save_policy s
  | OBuildRoleLinks => gen_build_role_links s
  | OSetModel d => gen_set_model s d
  | OSetAdapter a => gen_set_adapter s a
  | OSetRoleManager mx => gen_set_role_manager s mx
  | OSetEffector => gen_set_effector s tt
  | OAddFunction n u => gen_add_function s n u
  | OEnableEnforce b => gen_enable_enforce s b
  | OEnableAutoSave b => gen_enable_auto_save s b
  | OEnableAutoBuild b => gen_enable_auto_build_role_links s b
  | OEnableAutoNotify b => gen_enable_auto_notify_watcher s b
  end.

Lemma src_step_eq : forall s o, src_step s o = step s o.
Proof.
  intros s o. destruct o; cbn [src_step].
  - rewrite gen_add_policy_internal_ok. reflexivity.
  - rewrite gen_add_policies_internal_ok. reflexivity.
  - rewrite gen_remove_policy_internal_ok. reflexivity.
  - rewrite gen_remove_policies_internal_ok. reflexivity.
  - rewrite gen_remove_filtered_policy_internal_ok. reflexivity.
  - apply gen_rbac_ok.
  - apply gen_clear_policy_ok.
  - apply gen_load_policy_ok.
  - apply gen_load_filtered_policy_ok.
  - apply gen_save_policy_ok.
  - apply gen_build_role_links_ok.
  - apply gen_set_model_ok.
  - apply gen_set_adapter_ok.
  - apply gen_set_role_manager_ok.
  - apply gen_set_effector_ok.
  - apply gen_add_function_ok.
  - apply gen_enable_enforce_ok.
  - apply gen_enable_auto_save_ok.
  - apply gen_enable_auto_build_role_links_ok.
  - apply gen_enable_auto_notify_watcher_ok.
Qed.

Definition src_run_ops (s : estate) (ops : list op) : estate :=
  fold_left (fun st o => fst (src_step st o)) ops s.
(* the results along the way (what each call returned) *)
Fixpoint src_run_results (s : estate) (ops : list op) : list (outcome bool) :=
  match ops with
  | [] => []
  | o :: r => snd (src_step s o) :: src_run_results (fst (src_step s o)) r
  end.
Fixpoint run_results (s : estate) (ops : list op) : list (outcome bool) :=
  match ops with
  | [] => []
  | o :: r => snd (step s o) :: run_results (fst (step s o)) r
  end.

Lemma src_run_ops_eq : forall ops s, src_run_ops s ops = run_ops s ops.
Proof.
  unfold src_run_ops, run_ops. induction ops as [|o r IH]; intros s; [reflexivity|].
  cbn [fold_left]. rewrite src_step_eq. apply IH.
Qed.
Lemma src_run_results_eq : forall ops s, src_run_results s ops = run_results s ops.
Proof.
  induction ops as [|o r IH]; intros s; [reflexivity|].
  cbn [src_run_results run_results]. rewrite src_step_eq, IH. reflexivity.
Qed.

Section SrcEnforce.
  Variable ptab : text -> option expr.
  (* Enforcer::enforce / enforce_with_context over the translated private_enforce* loops *)
  Definition src_enforce (s : estate) (rv : list value) : outcome bool :=
    gen_private_enforce ptab (e_enabled s) (e_model s) (e_mexprs s) (e_fs s) rv.
  Definition src_enforce_with_ctx4 (s : estate) (rk pk ek mk : text) (rv : list value) : outcome bool :=
    gen_private_enforce_with_context ptab (e_enabled s) (e_model s) (e_mexprs s) (e_fs s) rk pk ek mk rv.
  Definition src_enforce_with_ctx (s : estate) (k : text) (rv : list value) : outcome bool :=
    src_enforce_with_ctx4 s (s_r ++ k) (s_p ++ k) (s_e ++ k) (s_m ++ k) rv.

  Lemma src_enforce_eq : forall s rv, src_enforce s rv = enforce ptab s rv.
  Proof. intros s rv. apply gen_private_enforce_plain. Qed.
  Lemma src_enforce_with_ctx4_eq : forall s rk pk ek mk rv,
    src_enforce_with_ctx4 s rk pk ek mk rv = enforce_with_ctx4 ptab s rk pk ek mk rv.
  Proof. intros. apply gen_private_enforce_with_context_ok. Qed.
  Lemma src_enforce_with_ctx_eq : forall s k rv, src_enforce_with_ctx s k rv = enforce_with_ctx ptab s k rv.
  Proof. intros s k rv. apply gen_private_enforce_ctx. Qed.
End SrcEnforce.
