(* C06 — enforcement is total and fails closed on request-controlled input.
   Proofs about Model/Enforce.v (call_fn, builtin, eval_matcher, enforce_core).

   Totality: every exported function of the model is a Gallina function, hence
   total; the content of C06 in the model is therefore (a) the absence of the
   `Panic` / `EPanic` outcome on request-controlled input and (b) fail-closed
   behaviour on errors.  What NO theorem here covers is termination and
   panic-freedom of the third-party `regex` crate and of rhai themselves: the
   model restates their behaviour; that part is validated only by the
   differential run (catch_unwind + watchdog). *)
From CV Require Import Model.Base Model.Effector Model.RoleGraph Model.PathMatch Model.Expr
     Model.Enforce Model.Engine Model.SpecC15.
From CV Require Import Proofs.BaseP Proofs.EffectorP Proofs.ExprP Proofs.EnforceP.
From Coq Require Import Lia.

(* ================================================================== *)
(* A. no registered function panics                                     *)

(* after the repair of key_match / key_get (prefix comparison instead of a
   byte-offset slice) the built-ins return a value for every pair of texts *)
Definition not_panic (r : eres) : Prop := r <> EPanic.

(* a built-in returns a value, or (for a pattern outside the modelled regex
   class, policy side) the model's "unsupported" error: never a panic *)
Lemma ob_res_np o : ob_res o <> EPanic.
Proof. destruct o; cbn; discriminate. Qed.
Lemma ot_res_np o : ot_res o <> EPanic.
Proof. destruct o; cbn; discriminate. Qed.

Lemma builtin_no_panic f ss r : builtin f ss = Some r -> r <> EPanic.
Proof.
  unfold builtin. destruct ss as [|a [|b [|c [|d ss]]]]; try discriminate.
  - repeat match goal with
           | |- (if ?c then _ else _) = _ -> _ => destruct c
           end; intros H; inversion H; subst;
      try discriminate; try apply ob_res_np.
  - repeat match goal with
           | |- (if ?c then _ else _) = _ -> _ => destruct c
           end; intros H; inversion H; subst;
      try discriminate; try apply ot_res_np.
Qed.

Lemma run_ufun_value u ss r : run_ufun u ss = Some r -> exists v, r = EV v.
Proof.
  unfold run_ufun. destruct u; destruct ss as [|a [|b [|c ss]]]; try discriminate;
    intros H; inversion H; eexists; reflexivity.
Qed.

Lemma call_fn_no_panic fs f args r : call_fn fs f args = Some r -> r <> EPanic.
Proof.
  unfold call_fn. destruct (all_strs args) as [ss|]; [|discriminate].
  destruct (match assoc f (f_ufuns fs) with Some u => run_ufun u ss | None => None end) as [r0|] eqn:Eu.
  - intros H. inversion H; subst r0. destruct (assoc f (f_ufuns fs)) as [u|]; [|discriminate].
    destruct (run_ufun_value _ _ _ Eu) as [v ->]. discriminate.
  - destruct (find_gfun (f, length ss) (f_gfuns fs)) as [h|].
    + destruct ss as [|a [|b [|d [|e ss]]]]; try discriminate;
        intros H; inversion H; discriminate.
    + apply builtin_no_panic.
Qed.

(* ================================================================== *)
(* B. the matcher evaluator never panics                                *)

Lemma as_bool_np r : r <> EPanic -> as_bool r <> EPanic.
Proof. destruct r as [[]| |]; cbn; congruence. Qed.

Lemma cmp_values_np c x y : cmp_values c x y <> EPanic.
Proof. destruct x, y; cbn; discriminate. Qed.

Lemma in_go_np (ev : expr -> eres) x : forall xs found,
  Forall (fun y => ev y <> EPanic) xs -> in_go ev x xs found <> EPanic.
Proof.
  induction xs as [|y xs IH]; intros found HF; cbn [in_go]; [discriminate|].
  inversion HF as [|y' xs' Hy Hxs]; subst.
  destruct (ev y) as [v| |] eqn:E; [apply IH, Hxs|discriminate|congruence].
Qed.

Lemma call_go_np call (ev : expr -> eres) f :
  (forall args r, call f args = Some r -> r <> EPanic) ->
  forall xs acc, Forall (fun y => ev y <> EPanic) xs -> call_go call ev f xs acc <> EPanic.
Proof.
  intros Hc. induction xs as [|y xs IH]; intros acc HF; cbn [call_go].
  - destruct (call f (rev acc)) as [r|] eqn:E; [exact (Hc _ _ E)|discriminate].
  - inversion HF as [|y' xs' Hy Hxs]; subst.
    destruct (ev y) as [v| |] eqn:E; [apply IH, Hxs|discriminate|congruence].
Qed.

(* for EVERY parse table (whatever rhai's parser returns for the text given to
   eval()), scope, fuel and expression *)
Theorem eval_no_panic_gen call ptab sc :
  (forall f args r, call f args = Some r -> r <> EPanic) ->
  forall fuel e, eval call ptab sc fuel e <> EPanic.
Proof.
  intros Hc. induction fuel as [|fuel IHf]; intros e;
    induction e as [v|p f|a f IHa|a b IHa IHb|a b IHa IHb|c a b IHa IHb|a b IHa IHb
                    |a b IHa IHb|a IHa|a xs IHa IHxs|f args IHargs|p f] using expr_ind';
    eval_unfold;
    try discriminate;
    try (destruct (assoc (tok p f) sc); discriminate);
    try (destruct (eval call ptab sc _ a) as [[]| |] eqn:Ea; try discriminate; try congruence;
         destruct (eval call ptab sc _ b) as [[]| |] eqn:Eb; try discriminate; try congruence;
         apply cmp_values_np).
  (* fuel = 0 *)
  - pose proof (as_bool_np _ IHa) as Ha. pose proof (as_bool_np _ IHb) as Hb.
    destruct (as_bool (eval call ptab sc 0 a)) as [[| |[]| |]| |]; first [assumption|discriminate].
  - pose proof (as_bool_np _ IHa) as Ha. pose proof (as_bool_np _ IHb) as Hb.
    destruct (as_bool (eval call ptab sc 0 a)) as [[| |[]| |]| |]; first [assumption|discriminate].
  - destruct (eval call ptab sc 0 a) as [x| |] eqn:Ea; [|discriminate|congruence].
    apply in_go_np, IHxs.
  - apply call_go_np; [apply Hc|exact IHargs].
  (* fuel = S fuel *)
  - pose proof (as_bool_np _ IHa) as Ha. pose proof (as_bool_np _ IHb) as Hb.
    destruct (as_bool (eval call ptab sc (S fuel) a)) as [[| |[]| |]| |]; first [assumption|discriminate].
  - pose proof (as_bool_np _ IHa) as Ha. pose proof (as_bool_np _ IHb) as Hb.
    destruct (as_bool (eval call ptab sc (S fuel) a)) as [[| |[]| |]| |]; first [assumption|discriminate].
  - destruct (eval call ptab sc (S fuel) a) as [x| |] eqn:Ea; [|discriminate|congruence].
    apply in_go_np, IHxs.
  - apply call_go_np; [apply Hc|exact IHargs].
  - rewrite eval_EEval.
    destruct (assoc (tok p f) sc) as [[s| | | |]|]; try discriminate.
    destruct (teqb s []); [discriminate|].
    destruct (ptab (escape_assertion s)); [apply IHf|discriminate].
Qed.

Theorem eval_no_panic fs ptab sc fuel e : eval (call_fn fs) ptab sc fuel e <> EPanic.
Proof. apply eval_no_panic_gen. intros f args r. apply call_fn_no_panic. Qed.

Lemma eval_matcher_no_panic ptab fs m sc : eval_matcher ptab fs m sc <> Panic.
Proof.
  unfold eval_matcher. pose proof (eval_no_panic fs ptab sc eval_fuel m) as H.
  destruct (eval (call_fn fs) ptab sc eval_fuel m) as [[]| |]; try discriminate. congruence.
Qed.

Lemma rule_outcome_no_panic ptab fs m et ptoks sc0 pvals :
  rule_outcome ptab fs m et ptoks sc0 pvals <> Panic.
Proof.
  unfold rule_outcome. destruct (negb _); [discriminate|].
  pose proof (eval_matcher_no_panic ptab fs m (bind ptoks (map VStr pvals) sc0)) as H.
  destruct (eval_matcher ptab fs m _); try discriminate. congruence.
Qed.

Lemma perm_combine_no_panic r : forall outs seen,
  Forall (fun o => o <> Panic) outs -> perm_combine r seen outs <> Panic.
Proof.
  induction outs as [|o outs IH]; intros seen HF; cbn [perm_combine]; [discriminate|].
  inversion HF as [|o' outs' Ho Houts]; subst.
  destruct o as [e|c|]; [|discriminate|congruence].
  destruct (forced r (seen ++ [e])); [discriminate|apply IH, Houts].
Qed.

(* ================================================================== *)
(* C. enforce never panics on request-controlled input                   *)

(* The only Panic left is an effect text the effector does not support
   (model side, fixed when the model is loaded; not request-controlled). *)
Theorem enforce_no_panic : forall ptab en md mx fs rk pk ek mk et rv,
  (forall e_ast, get_ast md s_e ek = Some e_ast -> parse_erule (a_value e_ast) <> None) ->
  enforce_core ptab en md mx fs rk pk ek mk et rv <> Panic.
Proof.
  intros ptab en md mx fs rk pk ek mk et rv He. rewrite enforce_is_perm. unfold perm_ref.
  destruct (negb en); [discriminate|].
  destruct (get_ast md s_r rk) as [r_ast|]; [|discriminate].
  destruct (get_ast md s_p pk) as [p_ast|]; [|discriminate].
  destruct (get_ast md s_m mk) as [m_ast|]; [|discriminate].
  destruct (get_ast md s_e ek) as [e_ast|]; [|discriminate].
  destruct (negb (Nat.eqb (length (a_tokens r_ast)) (length rv))); [discriminate|].
  specialize (He e_ast eq_refl).
  destruct (parse_erule (a_value e_ast)) as [er|]; [|congruence].
  destruct (assoc mk mx) as [m|]; [|discriminate].
  destruct (a_policy p_ast) as [|r0 rules].
  - pose proof (eval_matcher_no_panic ptab fs m
                  (bind (a_tokens p_ast) (map (fun _ => VStr []) (a_tokens p_ast))
                        (bind (a_tokens r_ast) rv []))) as H.
    destruct (eval_matcher ptab fs m _); try discriminate. congruence.
  - apply perm_combine_no_panic. apply Forall_forall. intros o Ho.
    apply in_map_iff in Ho. destruct Ho as (pv & <- & _). apply rule_outcome_no_panic.
Qed.

(* the hypothesis is necessary: an unsupported effect text is a panic *)
Theorem enforce_panics_on_bad_effect : forall ptab md mx fs rk pk ek mk et rv r_ast p_ast m_ast e_ast,
  get_ast md s_r rk = Some r_ast -> get_ast md s_p pk = Some p_ast ->
  get_ast md s_m mk = Some m_ast -> get_ast md s_e ek = Some e_ast ->
  length (a_tokens r_ast) = length rv ->
  parse_erule (a_value e_ast) = None ->
  enforce_core ptab true md mx fs rk pk ek mk et rv = Panic.
Proof.
  intros ptab md mx fs rk pk ek mk et rv r_ast p_ast m_ast e_ast Hr Hp Hm He Hlen Hpe.
  rewrite enforce_is_perm. unfold perm_ref. cbn [negb]. rewrite Hr, Hp, Hm, He, Hpe.
  apply Nat.eqb_eq in Hlen. rewrite Hlen. reflexivity.
Qed.

(* at the level of an enforcer state *)
Definition effect_supported (s : estate) (ek : text) : Prop :=
  forall e_ast, get_ast (e_model s) s_e ek = Some e_ast -> parse_erule (a_value e_ast) <> None.

Theorem state_enforce_no_panic ptab s rv : effect_supported s s_e -> enforce ptab s rv <> Panic.
Proof. intros H. apply enforce_no_panic, H. Qed.

Theorem state_enforce_ctx_no_panic ptab s k rv :
  effect_supported s (s_e ++ k) -> enforce_with_ctx ptab s k rv <> Panic.
Proof. intros H. apply enforce_no_panic, H. Qed.

(* ================================================================== *)
(* D. errors never grant                                                 *)

Lemma forced_prefix_none r p l : forced r (p ++ l) = None -> forced r p = None.
Proof.
  destruct r; cbn; rewrite existsb_app; destruct (existsb _ p); cbn; congruence.
Qed.

(* an error that is reached (no earlier prefix of effects already forces the
   result) IS the result *)
Lemma perm_combine_err_reached r c rest : forall effs seen,
  forced r (seen ++ effs) = None ->
  perm_combine r seen (map Ok effs ++ Err c :: rest) = Err c.
Proof.
  induction effs as [|e effs IH]; intros seen Hf; cbn [map app perm_combine]; [reflexivity|].
  assert (H1 : forced r (seen ++ [e]) = None).
  { apply (forced_prefix_none r (seen ++ [e]) effs). rewrite <- app_assoc. exact Hf. }
  rewrite H1. apply IH. rewrite <- app_assoc. exact Hf.
Qed.

(* conversely an error result is an error that was reached *)
Lemma perm_combine_err r c : forall outs seen,
  forced r seen = None ->
  perm_combine r seen outs = Err c ->
  exists effs rest, outs = map Ok effs ++ Err c :: rest /\ forced r (seen ++ effs) = None.
Proof.
  induction outs as [|o outs IH]; intros seen Hs H; cbn [perm_combine] in H; [discriminate|].
  destruct o as [e|c'|]; [| |discriminate].
  - destruct (forced r (seen ++ [e])) eqn:Hf; [discriminate|].
    destruct (IH _ Hf H) as (effs & rest & -> & Hn). exists (e :: effs), rest.
    split; [reflexivity|]. rewrite <- app_assoc in Hn. exact Hn.
  - inversion H; subst. exists [], outs. split; [reflexivity|].
    rewrite app_nil_r. exact Hs.
Qed.

Lemma forced_nil r : forced r [] = None.
Proof. destruct r; reflexivity. Qed.

(* the enforcer: rules `good` evaluate to effects `effs` that do not complete
   the effect stream, then a rule whose evaluation fails with class c: the
   answer is that error *)
Theorem enforce_error_reached :
  forall ptab md mx fs rk pk ek mk et rv r_ast p_ast m_ast e_ast er m good bad rest effs c,
  get_ast md s_r rk = Some r_ast -> get_ast md s_p pk = Some p_ast ->
  get_ast md s_m mk = Some m_ast -> get_ast md s_e ek = Some e_ast ->
  parse_erule (a_value e_ast) = Some er -> assoc mk mx = Some m ->
  length (a_tokens r_ast) = length rv ->
  a_policy p_ast = good ++ bad :: rest ->
  map (rule_outcome ptab fs m et (a_tokens p_ast) (bind (a_tokens r_ast) rv [])) good = map Ok effs ->
  forced er effs = None ->
  rule_outcome ptab fs m et (a_tokens p_ast) (bind (a_tokens r_ast) rv []) bad = Err c ->
  enforce_core ptab true md mx fs rk pk ek mk et rv = Err c.
Proof.
  intros ptab md mx fs rk pk ek mk et rv r_ast p_ast m_ast e_ast er m good bad rest effs c
         Hr Hp Hm He Her Hmx Hlen Hpol Hgood Hf Hbad.
  rewrite enforce_is_perm. unfold perm_ref. cbn [negb]. rewrite Hr, Hp, Hm, He, Her, Hmx.
  apply Nat.eqb_eq in Hlen. rewrite Hlen. cbn [negb]. rewrite Hpol.
  destruct (good ++ bad :: rest) as [|r0 rules] eqn:E; [destruct good; discriminate|].
  rewrite <- E. rewrite map_app. cbn [map]. rewrite Hgood, Hbad.
  apply perm_combine_err_reached. exact Hf.
Qed.

(* the two request-independent causes, spelled out *)
Lemma rule_outcome_bad_arity ptab fs m et ptoks sc0 pvals :
  length ptoks <> length pvals -> rule_outcome ptab fs m et ptoks sc0 pvals = Err EPolicy.
Proof.
  intros H. unfold rule_outcome. apply Nat.eqb_neq in H. rewrite H. reflexivity.
Qed.

Lemma rule_outcome_matcher_error ptab fs m et ptoks sc0 pvals c :
  length ptoks = length pvals ->
  eval_matcher ptab fs m (bind ptoks (map VStr pvals) sc0) = Err c ->
  rule_outcome ptab fs m et ptoks sc0 pvals = Err c.
Proof.
  intros H He. unfold rule_outcome. apply Nat.eqb_eq in H. rewrite H, He. reflexivity.
Qed.

(* a malformed stored rule that is reached yields a policy error, never a grant *)
Theorem enforce_malformed_rule :
  forall ptab md mx fs rk pk ek mk et rv r_ast p_ast m_ast e_ast er m good bad rest effs,
  get_ast md s_r rk = Some r_ast -> get_ast md s_p pk = Some p_ast ->
  get_ast md s_m mk = Some m_ast -> get_ast md s_e ek = Some e_ast ->
  parse_erule (a_value e_ast) = Some er -> assoc mk mx = Some m ->
  length (a_tokens r_ast) = length rv ->
  a_policy p_ast = good ++ bad :: rest ->
  map (rule_outcome ptab fs m et (a_tokens p_ast) (bind (a_tokens r_ast) rv [])) good = map Ok effs ->
  forced er effs = None ->
  length (a_tokens p_ast) <> length bad ->
  enforce_core ptab true md mx fs rk pk ek mk et rv = Err EPolicy.
Proof.
  intros. eapply enforce_error_reached; eauto. apply rule_outcome_bad_arity. assumption.
Qed.

(* the general contrapositive form: a grant (indeed any decision) is never
   produced from a list of per-rule outcomes in which an error or panic
   precedes the point where the effects force the result *)
Theorem grant_has_clean_prefix r outs seen b :
  perm_combine r seen outs = Ok b ->
  exists effs rest, outs = map Ok effs ++ rest /\
    (forced r (seen ++ effs) = Some b \/ (rest = [] /\ decl r (seen ++ effs) = b)).
Proof. apply perm_combine_ok. Qed.

(* an evaluation error with an empty policy (the single evaluation with empty
   policy values) is the result as well *)
Theorem enforce_error_empty_policy :
  forall ptab md mx fs rk pk ek mk et rv r_ast p_ast m_ast e_ast er m c,
  get_ast md s_r rk = Some r_ast -> get_ast md s_p pk = Some p_ast ->
  get_ast md s_m mk = Some m_ast -> get_ast md s_e ek = Some e_ast ->
  parse_erule (a_value e_ast) = Some er -> assoc mk mx = Some m ->
  length (a_tokens r_ast) = length rv ->
  a_policy p_ast = [] ->
  eval_matcher ptab fs m (bind (a_tokens p_ast) (map (fun _ => VStr []) (a_tokens p_ast))
                               (bind (a_tokens r_ast) rv [])) = Err c ->
  enforce_core ptab true md mx fs rk pk ek mk et rv = Err c.
Proof.
  intros ptab md mx fs rk pk ek mk et rv r_ast p_ast m_ast e_ast er m c
         Hr Hp Hm He Her Hmx Hlen Hpol Hev.
  rewrite enforce_is_perm. unfold perm_ref. cbn [negb]. rewrite Hr, Hp, Hm, He, Her, Hmx.
  apply Nat.eqb_eq in Hlen. rewrite Hlen. cbn [negb]. rewrite Hpol, Hev. reflexivity.
Qed.

(* a missing matcher expression or section is an error, never a decision *)
Theorem enforce_missing_section : forall ptab md mx fs rk pk ek mk et rv,
  (get_ast md s_r rk = None \/ get_ast md s_p pk = None \/
   get_ast md s_m mk = None \/ get_ast md s_e ek = None) ->
  enforce_core ptab true md mx fs rk pk ek mk et rv = Err EModel.
Proof.
  intros ptab md mx fs rk pk ek mk et rv H. unfold enforce_core. cbn [negb].
  destruct (get_ast md s_r rk); [|reflexivity].
  destruct (get_ast md s_p pk); [|reflexivity].
  destruct (get_ast md s_m mk); [|reflexivity].
  destruct (get_ast md s_e ek); [|reflexivity].
  destruct H as [H|[H|[H|H]]]; discriminate.
Qed.

(* ================================================================== *)
(* E. the executable predicate                                           *)
Theorem c06_pred_model : forall ptab en md mx fs rk pk ek mk et rv r_ast p_ast m_ast e_ast,
  get_ast md s_r rk = Some r_ast -> get_ast md s_p pk = Some p_ast ->
  get_ast md s_m mk = Some m_ast -> get_ast md s_e ek = Some e_ast ->
  parse_erule (a_value e_ast) <> None ->
  c06_pred en (length (a_tokens r_ast)) (length rv)
           (enforce_core ptab en md mx fs rk pk ek mk et rv) = true.
Proof.
  intros ptab en md mx fs rk pk ek mk et rv r_ast p_ast m_ast e_ast Hr Hp Hm He Hpe.
  unfold c06_pred. destruct en; [|reflexivity].
  destruct (Nat.eqb (length (a_tokens r_ast)) (length rv)) eqn:Hlen.
  - assert (Hnp : enforce_core ptab true md mx fs rk pk ek mk et rv <> Panic).
    { apply enforce_no_panic. intros e_ast' He'. rewrite He in He'. inversion He'; subst. exact Hpe. }
    destruct (enforce_core ptab true md mx fs rk pk ek mk et rv); [reflexivity|reflexivity|congruence].
  - apply Nat.eqb_neq in Hlen.
    rewrite (enforce_arity ptab md mx fs rk pk ek mk et rv r_ast p_ast m_ast e_ast Hr Hp Hm He Hlen).
    reflexivity.
Qed.

(* ================================================================== *)
(* F. the regex-based matchers are defined on every key                  *)
(* The pattern (second argument) comes from the policy or the model; the
   key (first argument) is the request-controlled one.  For every pattern of
   the documented grammar the model's function returns a value for EVERY key
   (any bytes): there is no request-controlled way out of the modelled class. *)
From CV Require Import Proofs.C15P.

Theorem matchers_defined p : grammar p = true -> forall k v,
  key_match2 k (render2 p) <> None /\ key_match3 k (render3 p) <> None /\
  key_match4 k (render3 p) <> None /\ key_match5 k (render3 p) <> None /\
  key_get2 k (render2 p) v <> None /\ key_get3 k (render3 p) v <> None.
Proof.
  intros Hg k v.
  rewrite km2_spec, km3_spec, km4_spec, km5_spec, kg2_spec, kg3_spec by exact Hg.
  repeat split; discriminate.
Qed.

(* ================================================================== *)
(* G. a concrete, non-trivial instance (for the non-vacuity examples)    *)
Definition ex06_matcher : expr :=
  EAnd (EEq (EVar (T "r") (T "sub")) (EVar (T "p") (T "sub")))
       (EAnd (ECall (T "keyMatch") [EVar (T "r") (T "obj"); EVar (T "p") (T "obj")])
             (EEq (EVar (T "r") (T "act")) (EVar (T "p") (T "act")))).

Definition ex06_ast (v : text) (toks : list text) (pol : list rule) : assertion :=
  {| a_value := v; a_tokens := toks; a_policy := pol; a_handle := HOwn |}.

(* the second stored rule is malformed (two values for three tokens) *)
Definition ex06_policy : list rule :=
  [ [T "alice"; T "/data/*"; T "read"]; [T "bob"; T "/x"]; [T "carol"; T "/c"; T "read"] ].

Definition ex06_model (effect : text) : model :=
  [ (s_r, [(s_r, ex06_ast (T "sub, obj, act") [T "r_sub"; T "r_obj"; T "r_act"] [])]);
    (s_p, [(s_p, ex06_ast (T "sub, obj, act") [T "p_sub"; T "p_obj"; T "p_act"] ex06_policy)]);
    (s_e, [(s_e, ex06_ast effect [] [])]);
    (s_m, [(s_m, ex06_ast (T "m") [] [])]) ].

Definition ex06_fs : fstate := {| f_rm := []; f_rm_max := 10; f_gfuns := []; f_ufuns := [] |}.
Definition ex06_ptab : text -> option expr := fun _ => None.

Definition ex06_enforce (effect : text) (rv : list value) : outcome bool :=
  enforce_core ex06_ptab true (ex06_model effect) [(s_m, ex06_matcher)] ex06_fs
               s_r s_p s_e s_m (tok s_p s_eft) rv.
