(* C12 — filtered loading loads exactly the matching subset: proofs. *)
From CV Require Import Model.Base Model.Effector Model.RoleGraph Model.PathMatch
     Model.Expr Model.Enforce Model.Engine Model.SpecC09 Model.SpecC12.
From CV Require Import Proofs.ListAux Proofs.BaseP Proofs.C09P.
From Coq Require Import Lia.

(* ================= the filter tests of the three loaders ================= *)
Lemma get_filtered_out_keeps : forall f r, get_filtered_out f r = negb (keeps f r).
Proof.
  induction f as [|v vs IH]; intros r; cbn [get_filtered_out keeps]; [reflexivity|].
  rewrite IH, negb_andb. f_equal.
  destruct (teqb v []); cbn [orb negb]; [reflexivity|]. destruct r; reflexivity.
Qed.

(* the meaning of keeps, index by index *)
Lemma keeps_spec : forall f r,
  keeps f r = true <->
  forall i v, nth_error f i = Some v -> v = [] \/ nth_error r i = Some v.
Proof.
  induction f as [|v0 vs IH]; intros r; cbn [keeps].
  - split; [|reflexivity]. intros _ i v H. destruct i; discriminate.
  - rewrite andb_true_iff, IH. split.
    + intros [H0 Hr] [|i] v Hv; cbn in Hv.
      * inversion Hv; subst v0. apply orb_true_iff in H0. destruct H0 as [H0|H0].
        -- left. apply teqb_eq. exact H0.
        -- right. destruct r as [|x r]; [discriminate|]. apply teqb_eq in H0. subst. reflexivity.
      * destruct (Hr i v Hv) as [H|H]; [left; exact H|right].
        destruct r; [destruct i; discriminate|exact H].
    + intros H. split.
      * destruct (H 0 v0 eq_refl) as [->|H0]; [reflexivity|].
        destruct r as [|x r]; [discriminate|]. cbn in H0. inversion H0. subst.
        rewrite teqb_refl. apply orb_true_r.
      * intros i v Hv. destruct (H (S i) v Hv) as [H1|H1]; [left; exact H1|right].
        destruct r; [destruct i; discriminate|exact H1].
Qed.

(* ================= ordered-set insert commutes with filtering ================= *)
Lemma filter_rremove : forall (K : rule -> bool) r l,
  filter K (rremove r l) = rremove r (filter K l).
Proof.
  intros. unfold rremove. rewrite !filter_filter. apply filter_ext. intros x. apply andb_comm.
Qed.

Lemma rmem_filter : forall (K : rule -> bool) r l, K r = true -> rmem r (filter K l) = rmem r l.
Proof.
  intros K r l HK. apply rmem_ext. rewrite filter_In. split; [tauto|]. intros H. split; assumption.
Qed.

Lemma filter_oset_insert : forall (K : rule -> bool) pol f,
  filter K (oset_insert pol f) = if K f then oset_insert (filter K pol) f else filter K pol.
Proof.
  intros K pol f. unfold oset_insert. destruct (K f) eqn:HK.
  - rewrite (rmem_filter K f pol HK). destruct (rmem f pol).
    + rewrite filter_app, filter_rremove. cbn [filter]. rewrite HK. reflexivity.
    + rewrite filter_app. cbn [filter]. rewrite HK. reflexivity.
  - destruct (rmem f pol).
    + rewrite filter_app, filter_rremove. cbn [filter]. rewrite HK, app_nil_r.
      apply rremove_notin. intros H. apply filter_In in H. destruct H. congruence.
    + rewrite filter_app. cbn [filter]. rewrite HK. apply app_nil_r.
Qed.

(* ================= assoc-list algebra ================= *)
Lemma assoc_set_twice : forall {A} k (v1 v2 : A) l,
  assoc_set k v2 (assoc_set k v1 l) = assoc_set k v2 l.
Proof.
  intros A k v1 v2 l. induction l as [|[k' v'] l IH]; cbn [assoc_set].
  - rewrite teqb_refl. reflexivity.
  - destruct (teqb k k') eqn:E; cbn [assoc_set]; rewrite E; [reflexivity|]. rewrite IH. reflexivity.
Qed.

Lemma assoc_set_id : forall {A} k (v : A) l, assoc k l = Some v -> assoc_set k v l = l.
Proof.
  intros A k v l. induction l as [|[k' v'] l IH]; cbn [assoc assoc_set]; [discriminate|].
  destruct (teqb k k') eqn:E.
  - intros H. inversion H. reflexivity.
  - intros H. rewrite (IH H). reflexivity.
Qed.

Lemma assoc_set_comm : forall {A} k1 k2 (v1 v2 : A) l,
  k1 <> k2 -> assoc k1 l <> None -> assoc k2 l <> None ->
  assoc_set k1 v1 (assoc_set k2 v2 l) = assoc_set k2 v2 (assoc_set k1 v1 l).
Proof.
  intros A k1 k2 v1 v2 l Hne. induction l as [|[k v] l IH]; cbn [assoc]; [congruence|].
  intros H1 H2. cbn [assoc_set].
  destruct (teqb k1 k) eqn:E1; destruct (teqb k2 k) eqn:E2; cbn [assoc_set]; rewrite ?E1, ?E2;
    try reflexivity.
  - apply teqb_eq in E1. apply teqb_eq in E2. congruence.
  - rewrite IH; [reflexivity|exact H1|exact H2].
Qed.

Lemma map_am_assoc_set : forall G k a (am : amap),
  map_am G (assoc_set k a am) = assoc_set k (G a) (map_am G am).
Proof.
  intros G k a am. induction am as [|[k' a'] am IH]; cbn [assoc_set map_am map fst snd];
    [reflexivity|].
  destruct (teqb k k'); cbn [map fst snd]; [reflexivity|].
  fold (map_am G am). fold (map_am G (assoc_set k a am)). rewrite IH. reflexivity.
Qed.

(* ================= map_sec against one-definition updates ================= *)
Definition G_of (g : list rule -> list rule) (a : assertion) : assertion :=
  with_policy a (g (a_policy a)).
Definition upd_pol (md : model) (s p : text) (U : list rule -> list rule) : model :=
  match get_ast md s p with
  | Some a => set_ast md s p (with_policy a (U (a_policy a)))
  | None => md
  end.

Lemma map_sec_eq : forall md sec g,
  map_sec md sec g = match assoc sec md with
                     | Some am => assoc_set sec (map_am (G_of g) am) md
                     | None => md end.
Proof. reflexivity. Qed.

Lemma load_mem_line_upd_pol : forall md s p f,
  load_mem_line md (s :: p :: f) = upd_pol md s p (fun pol => oset_insert pol f).
Proof. reflexivity. Qed.

Lemma map_sec_upd_same : forall md sec p U U' g,
  (forall pol, g (U pol) = U' (g pol)) ->
  map_sec (upd_pol md sec p U) sec g = upd_pol (map_sec md sec g) sec p U'.
Proof.
  intros md sec p U U' g H. unfold upd_pol, get_ast.
  destruct (assoc sec md) as [am|] eqn:Es.
  - destruct (assoc p am) as [a|] eqn:Ea.
    + unfold set_ast. rewrite Es. rewrite !map_sec_eq. rewrite assoc_set_same, Es.
      rewrite assoc_set_same, assoc_map_am, Ea. cbn [option_map].
      rewrite !assoc_set_twice. f_equal.
      rewrite map_am_assoc_set. f_equal.
      unfold G_of, with_policy. cbn. rewrite H. reflexivity.
    + rewrite !map_sec_eq, Es. rewrite assoc_set_same, assoc_map_am, Ea. reflexivity.
  - rewrite !map_sec_eq, Es, Es. reflexivity.
Qed.

Lemma map_sec_upd_other : forall md sec s p U g, s <> sec ->
  map_sec (upd_pol md s p U) sec g = upd_pol (map_sec md sec g) s p U.
Proof.
  intros md sec s p U g Hne. unfold upd_pol, get_ast. rewrite !map_sec_eq.
  destruct (assoc sec md) as [am|] eqn:Es.
  - rewrite (assoc_set_other sec s) by auto.
    destruct (assoc s md) as [ams|] eqn:Ess; [|rewrite Es; reflexivity].
    destruct (assoc p ams) as [a|] eqn:Ea; [|rewrite Es; reflexivity].
    unfold set_ast. rewrite Ess. rewrite (assoc_set_other s sec) by exact Hne. rewrite Es.
    rewrite (assoc_set_other sec s) by auto. rewrite Ess.
    apply assoc_set_comm; [auto|congruence|congruence].
  - destruct (assoc s md) as [ams|] eqn:Ess; [|rewrite Es; reflexivity].
    destruct (assoc p ams) as [a|] eqn:Ea; [|rewrite Es; reflexivity].
    unfold set_ast. rewrite Ess. rewrite (assoc_set_other s sec) by exact Hne. rewrite Es.
    reflexivity.
Qed.

Lemma with_policy_same : forall a, with_policy a (a_policy a) = a.
Proof. intros []. reflexivity. Qed.

Lemma upd_pol_id : forall md s p U, (forall pol, U pol = pol) -> upd_pol md s p U = md.
Proof.
  intros md s p U H. unfold upd_pol. destruct (get_ast md s p) as [a|] eqn:Ea; [|reflexivity].
  rewrite H, with_policy_same. unfold set_ast, get_ast in *.
  destruct (assoc s md) as [am|] eqn:Es; [|reflexivity].
  rewrite (assoc_set_id _ _ _ Ea). apply assoc_set_id. exact Es.
Qed.

(* ================= the specification commutes with loading one line ================= *)
Lemma filter_spec_load_line : forall fp fg md s p f,
  filter_spec fp fg (load_mem_line md (s :: p :: f)) =
  if get_filtered_out (sec_filter fp fg s) f then filter_spec fp fg md
  else load_mem_line (filter_spec fp fg md) (s :: p :: f).
Proof.
  intros fp fg md s p f. rewrite !load_mem_line_upd_pol, get_filtered_out_keeps.
  unfold filter_spec, sec_filter.
  destruct (teqb s s_p) eqn:Ep.
  - apply teqb_eq in Ep. subst s. destruct (keeps fp f) eqn:HK; cbn [negb].
    + rewrite (map_sec_upd_same md s_p p _ (fun pol => oset_insert pol f)).
      * apply map_sec_upd_other. discriminate.
      * intros pol. rewrite filter_oset_insert, HK. reflexivity.
    + rewrite (map_sec_upd_same md s_p p _ (fun pol => pol)).
      * rewrite upd_pol_id by reflexivity. reflexivity.
      * intros pol. rewrite filter_oset_insert, HK. reflexivity.
  - destruct (teqb s s_g) eqn:Eg.
    + apply teqb_eq in Eg. subst s.
      rewrite (map_sec_upd_other md s_p s_g) by discriminate.
      destruct (keeps fg f) eqn:HK; cbn [negb].
      * apply map_sec_upd_same. intros pol. rewrite filter_oset_insert, HK. reflexivity.
      * rewrite (map_sec_upd_same _ s_g p _ (fun pol => pol)).
        -- rewrite upd_pol_id by reflexivity. reflexivity.
        -- intros pol. rewrite filter_oset_insert, HK. reflexivity.
    + cbn [keeps negb]. apply teqb_neq in Ep. apply teqb_neq in Eg.
      rewrite (map_sec_upd_other md s_p s) by exact Ep.
      apply map_sec_upd_other. exact Eg.
Qed.

(* ================= the three filtered loaders ================= *)
Lemma mem_load_filtered_cons : forall fp fg md s p f rest,
  mem_load_filtered fp fg md ((s :: p :: f) :: rest) =
  (fst (mem_load_filtered fp fg (if get_filtered_out (sec_filter fp fg s) f then md
                                 else load_mem_line md (s :: p :: f)) rest),
   get_filtered_out (sec_filter fp fg s) f ||
   snd (mem_load_filtered fp fg (if get_filtered_out (sec_filter fp fg s) f then md
                                 else load_mem_line md (s :: p :: f)) rest)).
Proof.
  intros. cbn [mem_load_filtered].
  destruct (mem_load_filtered fp fg _ rest) as [md' fl]. reflexivity.
Qed.

Lemma mem_load_filtered_short : forall fp fg md ln rest, length ln < 2 ->
  mem_load_filtered fp fg md (ln :: rest) = mem_load_filtered fp fg md rest.
Proof. intros fp fg md [|x [|y l]] rest H; cbn in *; try reflexivity. lia. Qed.

(* C12 (6), memory format: filtered load = specification of the full load,
   for every starting model and every list of lines *)
Theorem mem_load_filtered_spec : forall fp fg l md,
  fst (mem_load_filtered fp fg (filter_spec fp fg md) l) =
  filter_spec fp fg (fold_left load_mem_line l md).
Proof.
  intros fp fg. induction l as [|ln l IH]; intros md; cbn [fold_left]; [reflexivity|].
  destruct ln as [|s [|p f]].
  - rewrite mem_load_filtered_short by (cbn; lia). apply IH.
  - rewrite mem_load_filtered_short by (cbn; lia). apply IH.
  - rewrite mem_load_filtered_cons. cbn [fst]. rewrite <- IH, filter_spec_load_line. reflexivity.
Qed.

Theorem mem_load_filtered_flag : forall fp fg l md,
  snd (mem_load_filtered fp fg md l) = existsb (line_out fp fg) l.
Proof.
  intros fp fg. induction l as [|ln l IH]; intros md; [reflexivity|].
  destruct ln as [|s [|p f]].
  - rewrite mem_load_filtered_short by (cbn; lia). apply IH.
  - rewrite mem_load_filtered_short by (cbn; lia). apply IH.
  - rewrite mem_load_filtered_cons. cbn [snd existsb line_out].
    rewrite IH, get_filtered_out_keeps. reflexivity.
Qed.

Lemma str_load_filtered_conv : forall fp fg l md,
  str_load_filtered fp fg md l = mem_load_filtered fp fg md (conv l).
Proof.
  intros fp fg. induction l as [|ln l IH]; intros md; [reflexivity|].
  destruct ln as [|[|c kr] fields]; cbn [str_load_filtered conv flat_map to_mem app]; try apply IH.
  fold (conv l). cbn [mem_load_filtered]. rewrite IH. reflexivity.
Qed.

(* ================= C12 (6)+(7) at the adapter level ================= *)
Theorem ad0_load_filtered_spec : forall a L fp fg md,
  stored_lines a = Some L ->
  snd (fst (ad0_load_filtered a fp fg (filter_spec fp fg md))) =
    filter_spec fp fg (snd (fst (ad0_load a md))) /\
  snd (ad0_load_filtered a fp fg (filter_spec fp fg md)) = LROk /\
  ad_is_filtered (fst (fst (ad0_load_filtered a fp fg (filter_spec fp fg md)))) =
    existsb (line_out fp fg) L /\
  stored_lines (fst (fst (ad0_load_filtered a fp fg (filter_spec fp fg md)))) = Some L.
Proof.
  intros a L fp fg md HL.
  destruct a as [| l f | l f | l f |]; cbn in HL; try discriminate; inversion HL; subst L;
    cbn [ad0_load_filtered ad0_load].
  - pose proof (mem_load_filtered_spec fp fg l md) as H1.
    pose proof (mem_load_filtered_flag fp fg l (filter_spec fp fg md)) as H2.
    destruct (mem_load_filtered fp fg (filter_spec fp fg md) l) as [md' fl]. cbn in *.
    subst. repeat split.
  - rewrite str_load_filtered_conv, fold_load_line_conv.
    pose proof (mem_load_filtered_spec fp fg (conv l) md) as H1.
    pose proof (mem_load_filtered_flag fp fg (conv l) (filter_spec fp fg md)) as H2.
    destruct (mem_load_filtered fp fg (filter_spec fp fg md) (conv l)) as [md' fl]. cbn in *.
    subst. repeat split.
  - rewrite str_load_filtered_conv, fold_load_line_conv.
    pose proof (mem_load_filtered_spec fp fg (conv l) md) as H1.
    pose proof (mem_load_filtered_flag fp fg (conv l) (filter_spec fp fg md)) as H2.
    destruct (mem_load_filtered fp fg (filter_spec fp fg md) (conv l)) as [md' fl]. cbn in *.
    subst. repeat split.
Qed.

(* all three bundled adapters are total: a filtered load never panics and
   never fails *)
Theorem load_filtered_total : forall a fp fg md, is_bundled a = true ->
  snd (ad0_load_filtered a fp fg md) = LROk.
Proof.
  intros [| l f | l f | l f |] fp fg md H; cbn in H; try discriminate; cbn [ad0_load_filtered].
  - destruct (mem_load_filtered fp fg md l). reflexivity.
  - destruct (str_load_filtered fp fg md l). reflexivity.
  - destruct (str_load_filtered fp fg md l). reflexivity.
Qed.

(* ================= starting from an emptied model ================= *)
Definition EmptyPG (md : model) : Prop :=
  forall sec (am : amap) k a, is_pg sec = true -> assoc sec md = Some am -> In (k, a) am -> a_policy a = [].

Lemma map_am_id : forall G (am : amap),
  (forall k a, In (k, a) am -> G a = a) -> map_am G am = am.
Proof.
  intros G am H. induction am as [|[k a] am IH]; [reflexivity|].
  cbn [map_am map fst snd]. rewrite (H k a) by (left; reflexivity).
  fold (map_am G am). rewrite IH; [reflexivity|]. intros k' a' Hin. apply (H k'). right. exact Hin.
Qed.

Lemma map_sec_id : forall (md : model) sec g,
  (forall am k a, assoc sec md = Some am -> In (k, a) am -> g (a_policy a) = a_policy a) ->
  map_sec md sec g = md.
Proof.
  intros md sec g H. rewrite map_sec_eq. destruct (assoc sec md) as [am|] eqn:Es; [|reflexivity].
  apply assoc_set_id. rewrite Es. f_equal. symmetry. apply map_am_id. intros k a Hin.
  unfold G_of. rewrite (H am k a eq_refl Hin). apply with_policy_same.
Qed.

Theorem filter_spec_empty : forall fp fg md, EmptyPG md -> filter_spec fp fg md = md.
Proof.
  intros fp fg md H. unfold filter_spec.
  rewrite (map_sec_id md s_p).
  - apply map_sec_id. intros am k a Hs Hin. rewrite (H s_g am k a eq_refl Hs Hin). reflexivity.
  - intros am k a Hs Hin. rewrite (H s_p am k a eq_refl Hs Hin). reflexivity.
Qed.

Lemma assoc_clear_sec : forall (md : model) sec sec',
  assoc sec (clear_sec md sec') =
  if teqb sec' sec then option_map (map_am (fun a => with_policy a [])) (assoc sec md)
  else assoc sec md.
Proof.
  intros md sec sec'. unfold clear_sec. destruct (teqb sec' sec) eqn:E.
  - apply teqb_eq in E. subst sec'. destruct (assoc sec md) as [am|] eqn:Es.
    + rewrite assoc_set_same. reflexivity.
    + rewrite Es. reflexivity.
  - apply teqb_neq in E. destruct (assoc sec' md); [|reflexivity].
    apply assoc_set_other. exact E.
Qed.

Lemma In_map_am : forall G (am : amap) k a,
  In (k, a) (map_am G am) -> exists a', In (k, a') am /\ a = G a'.
Proof.
  intros G am k a H. unfold map_am in H. apply in_map_iff in H.
  destruct H as [[k' a'] [He Hin]]. cbn in He. inversion He; subst. exists a'. auto.
Qed.

Theorem cleared_is_empty : forall md, EmptyPG (m_clear_policy md).
Proof.
  intros md sec am k a Hpg Hs Hin. unfold m_clear_policy in Hs.
  rewrite assoc_clear_sec in Hs. apply is_pg_cases in Hpg. destruct Hpg as [-> | ->].
  - change (teqb s_g s_p) with false in Hs. cbv iota in Hs.
    rewrite assoc_clear_sec, teqb_refl in Hs.
    destruct (assoc s_p md); cbn in Hs; [|discriminate]. inversion Hs; subst am.
    apply In_map_am in Hin. destruct Hin as (a' & _ & ->). reflexivity.
  - rewrite teqb_refl in Hs.
    destruct (assoc s_g (clear_sec md s_p)); cbn in Hs; [|discriminate]. inversion Hs; subst am.
    apply In_map_am in Hin. destruct Hin as (a' & _ & ->). reflexivity.
Qed.

(* C12 (6) as stated: loading filtered into the emptied model = filter_spec of
   the full load; the flag; the adapter contents *)
Theorem load_filtered_is_filter_spec : forall a L fp fg md0,
  stored_lines a = Some L -> EmptyPG md0 ->
  snd (fst (ad0_load_filtered a fp fg md0)) = filter_spec fp fg (snd (fst (ad0_load a md0))) /\
  snd (ad0_load_filtered a fp fg md0) = LROk /\
  ad_is_filtered (fst (fst (ad0_load_filtered a fp fg md0))) = existsb (line_out fp fg) L /\
  stored_lines (fst (fst (ad0_load_filtered a fp fg md0))) = Some L.
Proof.
  intros a L fp fg md0 HL He.
  pose proof (ad0_load_filtered_spec a L fp fg md0 HL) as H.
  rewrite (filter_spec_empty fp fg md0 He) in H. exact H.
Qed.

(* ================= reading the specification ================= *)
Lemma filter_all_true {A} (f : A -> bool) l : (forall x, In x l -> f x = true) -> filter f l = l.
Proof.
  induction l as [|x l IH]; intros H; cbn [filter]; [reflexivity|].
  rewrite (H x) by (left; reflexivity). rewrite IH; [reflexivity|].
  intros y Hy. apply H. right. exact Hy.
Qed.

Lemma mpol_map_sec : forall (md : model) sec g sec' pt,
  mpol (map_sec md sec g) sec' pt =
  if teqb sec sec' then option_map g (mpol md sec' pt) else mpol md sec' pt.
Proof.
  intros md sec g sec' pt. unfold mpol. rewrite map_sec_eq.
  destruct (assoc sec md) as [am|] eqn:Es.
  - rewrite (get_ast_map_sec _ _ _ _ _ _ Es). destruct (teqb sec sec'); [|reflexivity].
    destruct (get_ast md sec' pt); reflexivity.
  - destruct (teqb sec sec') eqn:E; [|reflexivity]. apply teqb_eq in E. subst sec'.
    unfold get_ast. rewrite Es. reflexivity.
Qed.

Theorem mpol_filter_spec : forall fp fg md sec pt,
  mpol (filter_spec fp fg md) sec pt =
  option_map (filter (keeps (sec_filter fp fg sec))) (mpol md sec pt).
Proof.
  intros fp fg md sec pt. unfold filter_spec, sec_filter. rewrite !mpol_map_sec.
  rewrite (teqb_sym s_g sec), (teqb_sym s_p sec).
  destruct (teqb sec s_p) eqn:Ep; destruct (teqb sec s_g) eqn:Eg.
  - apply teqb_eq in Ep. apply teqb_eq in Eg. subst. discriminate.
  - reflexivity.
  - reflexivity.
  - destruct (mpol md sec pt) as [pol|]; [|reflexivity]. cbn [option_map].
    rewrite filter_all_true; reflexivity.
Qed.

Lemma filter_key_lines : forall (K : rule -> bool) sec k pol,
  filter (fun ln => K (skipn 2 ln)) (map (fun r => sec :: k :: r) pol) =
  map (fun r => sec :: k :: r) (filter K pol).
Proof.
  intros. induction pol as [|r pol IH]; [reflexivity|]. cbn [map filter].
  change (skipn 2 (sec :: k :: r)) with r.
  destruct (K r); cbn [map]; rewrite IH; reflexivity.
Qed.

Lemma m_get_all_map_sec_same : forall (md : model) sec (K : rule -> bool),
  m_get_all (map_sec md sec (filter K)) sec =
  filter (fun ln => K (skipn 2 ln)) (m_get_all md sec).
Proof.
  intros md sec K. unfold m_get_all. rewrite map_sec_eq.
  destruct (assoc sec md) as [am|] eqn:Es; [|rewrite Es; reflexivity].
  rewrite assoc_set_same. clear Es. induction am as [|[k a] am IH]; [reflexivity|].
  cbn [map_am map flat_map fst snd]. fold (map_am (G_of (filter K)) am).
  rewrite filter_app, filter_key_lines, IH. reflexivity.
Qed.

Lemma m_get_all_map_sec_other : forall (md : model) sec sec' g, sec <> sec' ->
  m_get_all (map_sec md sec g) sec' = m_get_all md sec'.
Proof.
  intros md sec sec' g Hne. unfold m_get_all. rewrite map_sec_eq.
  destruct (assoc sec md); [|reflexivity]. rewrite assoc_set_other by exact Hne. reflexivity.
Qed.

Theorem m_get_all_filter_spec : forall fp fg md,
  m_get_all (filter_spec fp fg md) s_p =
    filter (fun ln => keeps fp (skipn 2 ln)) (m_get_all md s_p) /\
  m_get_all (filter_spec fp fg md) s_g =
    filter (fun ln => keeps fg (skipn 2 ln)) (m_get_all md s_g).
Proof.
  intros fp fg md. unfold filter_spec. split.
  - rewrite m_get_all_map_sec_other by discriminate. apply m_get_all_map_sec_same.
  - rewrite m_get_all_map_sec_same. rewrite m_get_all_map_sec_other by discriminate. reflexivity.
Qed.

(* ================= C12 (7): the flag against "some rule is missing" ================= *)
Definition KeysND (md : model) : Prop :=
  forall sec ks, is_pg sec = true -> keys md sec = Some ks -> NoDup ks.
(* every stored line of section p / g addresses a definition of the model *)
Definition AllKnown (md : model) (L : list rule) : Prop :=
  forall s p f, In (s :: p :: f) L -> is_pg s = true -> get_ast md s p <> None.
Definition all_known_b (md : model) (L : list rule) : bool :=
  forallb (fun ln => match ln with
                     | s :: p :: _ => negb (is_pg s) ||
                                      match get_ast md s p with Some _ => true | None => false end
                     | _ => true end) L.

Lemma all_known_b_spec : forall md L, all_known_b md L = true -> AllKnown md L.
Proof.
  intros md L H s p f Hin Hpg. unfold all_known_b in H. rewrite forallb_forall in H.
  specialize (H _ Hin). cbn in H. rewrite Hpg in H. cbn in H.
  destruct (get_ast md s p); [discriminate|discriminate].
Qed.

Lemma In_fold_oset_insert : forall X pol r,
  In r (fold_left oset_insert X pol) <-> In r X \/ In r pol.
Proof.
  induction X as [|x X IH]; intros pol r; cbn [fold_left].
  - cbn. tauto.
  - rewrite IH. cbn [In].
    assert (Hins : In r (oset_insert pol x) <-> x = r \/ In r pol).
    { unfold oset_insert. destruct (rmem x pol) eqn:E.
      - rewrite in_app_iff, rremove_In. cbn [In]. apply rmem_In in E.
        destruct (list_eq_dec text_eq_dec r x) as [->|Hne]; [tauto|]. split.
        + intros [[H _]|[H|[]]]; auto.
        + intros [H|H]; [congruence|]. left. split; assumption.
      - rewrite in_app_iff. cbn [In]. tauto. }
    rewrite Hins. tauto.
Qed.

Lemma in_get_all_intro : forall (md : model) s p a f,
  get_ast md s p = Some a -> In f (a_policy a) -> In (s :: p :: f) (m_get_all md s).
Proof.
  intros md s p a f Ha Hf. unfold m_get_all, get_ast in *.
  destruct (assoc s md) as [am|]; [|discriminate].
  apply in_flat_map. exists (p, a). split; [apply assoc_In; exact Ha|].
  cbn [fst snd]. apply in_map_iff. exists f. auto.
Qed.

Lemma in_get_all_elim : forall (md : model) s x, In x (m_get_all md s) ->
  exists (am : amap) k a r, assoc s md = Some am /\ In (k, a) am /\ In r (a_policy a) /\
                            x = s :: k :: r.
Proof.
  intros md s x H. unfold m_get_all in H. destruct (assoc s md) as [am|]; [|destruct H].
  apply in_flat_map in H. destruct H as [[k a] [Hin Hx]]. cbn [fst snd] in Hx.
  apply in_map_iff in Hx. destruct Hx as [r [<- Hr]]. exists am, k, a, r. auto.
Qed.

(* a stored line of a known definition shows up in the full load *)
Lemma stored_in_full : forall md0 L s p f,
  In (s :: p :: f) L -> get_ast md0 s p <> None ->
  In (s :: p :: f) (m_get_all (fold_left load_mem_line L md0) s).
Proof.
  intros md0 L s p f Hin Hk.
  pose proof (mpol_fold_load_mem L md0 s p) as Hm. unfold mpol in Hm.
  destruct (get_ast md0 s p) as [a0|]; [|congruence]. cbn in Hm.
  destruct (get_ast (fold_left load_mem_line L md0) s p) as [a|] eqn:Ea; [|discriminate].
  cbn in Hm. inversion Hm as [Hp]. eapply in_get_all_intro; [exact Ea|].
  rewrite Hp. apply In_fold_oset_insert. left. apply lines_for_In. exact Hin.
Qed.

(* and everything in the full load of an emptied model is a stored line *)
Lemma full_in_stored : forall md0 L s x, EmptyPG md0 -> KeysND md0 -> is_pg s = true ->
  In x (m_get_all (fold_left load_mem_line L md0) s) ->
  exists p f, x = s :: p :: f /\ In (s :: p :: f) L.
Proof.
  intros md0 L s x He Hk Hpg Hx. apply in_get_all_elim in Hx.
  destruct Hx as (am & k & a & r & Hs & Hin & Hr & ->). exists k, r. split; [reflexivity|].
  assert (Hnd : NoDup (map fst am)).
  { apply (Hk s _ Hpg). rewrite <- (keys_fold_load_mem L md0 s). apply keys_of_assoc. exact Hs. }
  pose proof (In_assoc _ _ _ Hnd Hin) as Ha.
  pose proof (mpol_fold_load_mem L md0 s k) as Hm. unfold mpol, get_ast in Hm.
  rewrite Hs, Ha in Hm. cbn [option_map] in Hm.
  destruct (assoc s md0) as [am0|] eqn:Es0; [|discriminate].
  destruct (assoc k am0) as [a0|] eqn:Ea0; [|discriminate]. cbn in Hm. inversion Hm as [Hp].
  rewrite (He s am0 k a0 Hpg Es0 (assoc_In _ _ _ Ea0)) in Hp. rewrite Hp in Hr.
  apply In_fold_oset_insert in Hr. destruct Hr as [Hr|[]]. apply lines_for_In. exact Hr.
Qed.

Lemma line_out_pg : forall fp fg s p f, line_out fp fg (s :: p :: f) = true -> is_pg s = true.
Proof.
  intros fp fg s p f H. cbn [line_out] in H. unfold sec_filter, is_pg in *.
  destruct (teqb s s_p); [reflexivity|]. destruct (teqb s s_g); [reflexivity|]. discriminate.
Qed.

Lemma filter_length_le {A} (f : A -> bool) l : length (filter f l) <= length l.
Proof. induction l as [|y l IH]; cbn [filter length]; [lia|]. destruct (f y); cbn [length]; lia. Qed.

Lemma filter_length_lt {A} (f : A -> bool) l x :
  In x l -> f x = false -> length (filter f l) < length l.
Proof.
  induction l as [|y l IH]; intros Hin Hf; [destruct Hin|]. cbn [filter length].
  destruct Hin as [->|Hin].
  - rewrite Hf. pose proof (filter_length_le f l). lia.
  - specialize (IH Hin Hf). destruct (f y); cbn [length]; lia.
Qed.

Definition full_of (L : list rule) (md0 : model) : model := fold_left load_mem_line L md0.

Theorem flag_iff_rule_missing : forall fp fg L md0,
  EmptyPG md0 -> KeysND md0 -> AllKnown md0 L ->
  existsb (line_out fp fg) L =
  negb (rules_eqb (m_get_all (filter_spec fp fg (full_of L md0)) s_p ++
                   m_get_all (filter_spec fp fg (full_of L md0)) s_g)
                  (m_get_all (full_of L md0) s_p ++ m_get_all (full_of L md0) s_g)).
Proof.
  intros fp fg L md0 He Hk Ha.
  destruct (m_get_all_filter_spec fp fg (full_of L md0)) as [-> ->].
  destruct (existsb (line_out fp fg) L) eqn:Ex; symmetry.
  - apply negb_true_iff. apply existsb_exists in Ex. destruct Ex as [ln [Hin Hout]].
    destruct ln as [|s [|p f]]; try discriminate.
    pose proof (line_out_pg _ _ _ _ _ Hout) as Hpg.
    pose proof (stored_in_full md0 L s p f Hin (Ha s p f Hin Hpg)) as Hfull.
    destruct (rules_eqb _ _) eqn:E; [|reflexivity]. exfalso.
    apply rules_eqb_eq in E. apply (f_equal (@length rule)) in E. rewrite !app_length in E.
    pose proof (filter_length_le (fun ln => keeps fp (skipn 2 ln)) (m_get_all (full_of L md0) s_p)).
    pose proof (filter_length_le (fun ln => keeps fg (skipn 2 ln)) (m_get_all (full_of L md0) s_g)).
    cbn [line_out] in Hout. apply negb_true_iff in Hout. unfold sec_filter in Hout.
    unfold full_of in *.
    apply is_pg_cases in Hpg. destruct Hpg as [-> | ->].
    + cbn in Hout.
      pose proof (filter_length_lt (fun ln => keeps fp (skipn 2 ln)) _ _ Hfull Hout).
      unfold rule in *. lia.
    + cbn in Hout.
      pose proof (filter_length_lt (fun ln => keeps fg (skipn 2 ln)) _ _ Hfull Hout).
      unfold rule in *. lia.
  - apply negb_false_iff. apply rules_eqb_eq.
    assert (Hno : forall ln, In ln L -> line_out fp fg ln = false).
    { intros ln Hin. destruct (line_out fp fg ln) eqn:E; [|reflexivity].
      assert (existsb (line_out fp fg) L = true) by (apply existsb_exists; eauto). congruence. }
    f_equal; apply filter_all_true; intros x Hx.
    + destruct (full_in_stored md0 L s_p x He Hk eq_refl Hx) as (p & f & -> & Hin).
      specialize (Hno _ Hin). cbn in Hno. apply negb_false_iff in Hno. exact Hno.
    + destruct (full_in_stored md0 L s_g x He Hk eq_refl Hx) as (p & f & -> & Hin).
      specialize (Hno _ Hin). cbn in Hno. apply negb_false_iff in Hno. exact Hno.
Qed.

(* the executable predicate holds on the model's own observations *)
Theorem c12_pred_model : forall a L fp fg md0,
  stored_lines a = Some L ->
  EmptyPG md0 -> KeysND md0 -> AllKnown md0 L ->
  c12_pred fp fg
    (m_get_all (snd (fst (ad0_load a md0))) s_p) (m_get_all (snd (fst (ad0_load a md0))) s_g)
    (m_get_all (snd (fst (ad0_load_filtered a fp fg md0))) s_p)
    (m_get_all (snd (fst (ad0_load_filtered a fp fg md0))) s_g)
    (ad_is_filtered (fst (fst (ad0_load_filtered a fp fg md0)))) = true.
Proof.
  intros a L fp fg md0 HL He Hk Ha.
  destruct (load_filtered_is_filter_spec a L fp fg md0 HL He) as (Hm & _ & Hf & _).
  destruct (ad0_load_stored a L md0 HL) as (Hfull & _).
  rewrite Hm, Hf, Hfull. fold (full_of L md0).
  unfold c12_pred, c12_subset, c12_flag.
  rewrite (flag_iff_rule_missing fp fg L md0 He Hk Ha).
  destruct (m_get_all_filter_spec fp fg (full_of L md0)) as [-> ->].
  rewrite Bool.eqb_reflx, andb_true_r. apply andb_true_iff.
  split; apply rules_eqb_eq; reflexivity.
Qed.

(* ================= the enforcer level ================= *)
Lemma ad_load_filtered_bundled : forall a fp fg md, is_bundled a = true ->
  ad_load_filtered a fp fg md = ad0_load_filtered a fp fg md.
Proof. intros [] fp fg md H; cbn in H; try discriminate; reflexivity. Qed.

Lemma m_get_policy_filter : forall md md' sec pt (K : rule -> bool),
  mpol md' sec pt = option_map (filter K) (mpol md sec pt) ->
  m_get_policy md' sec pt = filter K (m_get_policy md sec pt).
Proof.
  intros md md' sec pt K H. rewrite !m_get_policy_mpol, H.
  destruct (mpol md sec pt); reflexivity.
Qed.

Section EnforcerLevel.
  Variable ptab : text -> option expr.

  (* C12 (6)+(7) through the public calls: the policy after load_filtered_policy
     is the filter of the policy after load_policy, the flag is reported by
     is_filtered, the store is untouched, no panic *)
  Theorem step_load_filtered_spec : forall s L fp fg,
    stored_lines (e_adapter s) = Some L ->
    let s' := fst (step s (OLoadFiltered fp fg)) in
    (forall sec pt, m_get_policy (e_model s') sec pt =
                    filter (keeps (sec_filter fp fg sec))
                           (m_get_policy (e_model (fst (step s OLoad))) sec pt)) /\
    ask ptab s' QIsFiltered = AnsBool (existsb (line_out fp fg) L) /\
    stored_lines (e_adapter s') = Some L /\
    snd (step s (OLoadFiltered fp fg)) <> Panic.
  Proof.
    intros s L fp fg HL. cbn [step].
    assert (Hb : is_bundled (e_adapter s) = true)
      by (destruct (e_adapter s); cbn in HL; try discriminate; reflexivity).
    unfold step_load_filtered, step_load.
    rewrite (ad_load_filtered_bundled _ _ _ _ Hb), (ad_load_bundled _ _ Hb).
    destruct (load_filtered_is_filter_spec (e_adapter s) L fp fg (m_clear_policy (e_model s))
                HL (cleared_is_empty _)) as (Hm & Hok & Hf & Hst).
    destruct (ad0_load_stored (e_adapter s) L (m_clear_policy (e_model s)) HL) as (Hfm & Hfr & _).
    destruct (ad0_load_filtered (e_adapter s) fp fg (m_clear_policy (e_model s))) as [[ad md] r].
    destruct (ad0_load (e_adapter s) (m_clear_policy (e_model s))) as [[ad2 md2] r2].
    cbn [fst snd] in *. subst r r2.
    destruct (finish_load s ad md LROk) as [s1 o1] eqn:E1.
    destruct (finish_load s ad2 md2 LROk) as [s2 o2] eqn:E2.
    pose proof (finish_load_ok_store _ _ _ _ _ E1) as [Ha1 Hp1 _ _].
    pose proof (finish_load_ok_store _ _ _ _ _ E2) as [Ha2 Hp2 _ _].
    cbn in Ha1, Hp1, Ha2, Hp2. cbn [fst snd]. repeat split.
    - intros sec pt. apply m_get_policy_filter.
      rewrite Hp1, Hp2, Hm, mpol_filter_spec. reflexivity.
    - cbn [ask]. rewrite Ha1, Hf. reflexivity.
    - rewrite Ha1. exact Hst.
    - cbn [finish_load] in E1. destruct (e_auto_build _) in E1.
      + destruct (build_role_links _) as [s3 [|c]] in E1; inversion E1; discriminate.
      + inversion E1. discriminate.
  Qed.

  (* a full load clears the mark, for all three adapters *)
  Theorem full_load_resets_flag : forall s,
    is_bundled (e_adapter s) = true ->
    ask ptab (fst (step s OLoad)) QIsFiltered = AnsBool false.
  Proof.
    intros s Hb. cbn [step ask]. unfold step_load. rewrite (ad_load_bundled _ _ Hb).
    assert (HL : exists L, stored_lines (e_adapter s) = Some L)
      by (destruct (e_adapter s); cbn in Hb; try discriminate; eexists; reflexivity).
    destruct HL as [L HL].
    destruct (ad0_load_stored (e_adapter s) L (m_clear_policy (e_model s)) HL) as (_ & Hr & _ & Hf).
    destruct (ad0_load (e_adapter s) (m_clear_policy (e_model s))) as [[ad md] r].
    cbn [fst snd] in *. subst r.
    destruct (finish_load s ad md LROk) as [s1 o1] eqn:E1.
    pose proof (finish_load_ok_store _ _ _ _ _ E1) as [Ha1 _ _ _]. cbn in Ha1. cbn [fst].
    rewrite Ha1, Hf. reflexivity.
  Qed.

End EnforcerLevel.

(* ================= C12 (8): the save guard and the constructor ================= *)
Theorem save_guard : forall s, ad_is_filtered (e_adapter s) = true -> step s OSave = (s, Panic).
Proof. intros s H. cbn [step]. unfold step_save. rewrite H. reflexivity. Qed.

Lemma register_g_same : forall s,
  e_model (fst (register_g_functions s)) = e_model s /\
  e_adapter (fst (register_g_functions s)) = e_adapter s.
Proof.
  intros s. unfold register_g_functions. destruct (assoc s_g (e_model s)); [|split; reflexivity].
  destruct (register_g a (f_gfuns (e_fs s))). split; reflexivity.
Qed.

Theorem constructor_skips_load : forall d a w, ad_is_filtered a = true ->
  e_model (fst (new_enforcer d a w)) = d_model d /\
  e_adapter (fst (new_enforcer d a w)) = a /\
  snd (new_enforcer d a w) = lerr_out (snd (new_raw d a w)) true.
Proof.
  intros d a w H. unfold new_enforcer.
  pose proof (register_g_same
    {| e_model := d_model d; e_mexprs := d_mexprs d; e_adapter := a;
       e_fs := {| f_rm := []; f_rm_max := 10; f_gfuns := []; f_ufuns := [] |};
       e_enabled := true; e_auto_save := true; e_auto_build := true; e_auto_notify := true;
       e_callbacks := 1; e_watcher := w; e_wlog := [] |}) as [Hm Ha].
  fold (new_raw d a w) in Hm, Ha. cbn [e_model e_adapter] in Hm, Ha.
  destruct (new_raw d a w) as [s0 [|e]]; cbn [fst snd] in *.
  - rewrite Ha, H. cbn [fst snd]. auto.
  - auto.
Qed.

(* ================= concrete witnesses ================= *)
Local Open Scope string_scope.
Definition c12_mem : list rule :=
  [ L ["p";"p";"alice";"data1";"read"]; L ["p";"p";"bob";"data2";"write"];
    L ["p";"p2";"alice";"write"]; L ["g";"g";"alice";"admin"]; L ["g";"g";"bob";"user"];
    L ["p";"p";"alice";"data2";"read"] ].
Definition c12_txt : list rule := map (fun ln => tl ln) c12_mem.
Definition c12_adapters : list adapter :=
  [AMemory c12_mem false; AFile c12_txt false; AString c12_txt false].
Definition c12_md0 : model := m_clear_policy ex_model.
(* empty / matching / non-matching values, a gap, and a filter longer than the
   p2 rules *)
Definition c12_filters : list (list text * list text) :=
  [ ([], []); (L ["alice"], []); (L ["";"data2"], L ["bob"]); (L ["zed"], L ["";"admin"]);
    (L ["alice";"";"read"], L ["alice";"admin"]) ].

Definition c12_check (a : adapter) (f : list text * list text) : bool :=
  let full := snd (fst (ad0_load a c12_md0)) in
  let r := ad0_load_filtered a (fst f) (snd f) c12_md0 in
  c12_pred (fst f) (snd f) (m_get_all full s_p) (m_get_all full s_g)
           (m_get_all (snd (fst r)) s_p) (m_get_all (snd (fst r)) s_g)
           (ad_is_filtered (fst (fst r))).

Lemma ex_c12_stored : map stored_lines c12_adapters = [Some c12_mem; Some c12_mem; Some c12_mem].
Proof. vm_compute. reflexivity. Qed.

Lemma ex_c12_hyps : all_known_b c12_md0 c12_mem = true /\ keys_ok_b c12_md0 = true.
Proof. vm_compute. repeat split. Qed.

Lemma ex_c12_pred_all :
  forallb (fun a => forallb (c12_check a) c12_filters) c12_adapters = true.
Proof. vm_compute. reflexivity. Qed.

(* what was loaded, concretely: filter (["";"data2"], ["bob"]) *)
Lemma ex_c12_loaded :
  forallb (fun a =>
    let r := ad0_load_filtered a (L ["";"data2"]) (L ["bob"]) c12_md0 in
    rules_eqb (m_get_policy (snd (fst r)) s_p (T "p"))
              [L ["bob";"data2";"write"]; L ["alice";"data2";"read"]] &&
    rules_eqb (m_get_policy (snd (fst r)) s_p (T "p2")) [] &&
    rules_eqb (m_get_policy (snd (fst r)) s_g (T "g")) [L ["bob";"user"]] &&
    ad_is_filtered (fst (fst r))) c12_adapters = true.
Proof. vm_compute. reflexivity. Qed.

(* the empty filter loads everything and leaves the mark off *)
Lemma ex_c12_empty_filter :
  forallb (fun a =>
    let r := ad0_load_filtered a [] [] c12_md0 in
    negb (ad_is_filtered (fst (fst r))) &&
    Nat.eqb (length (m_get_all (snd (fst r)) s_p ++ m_get_all (snd (fst r)) s_g)) 6) c12_adapters = true.
Proof. vm_compute. reflexivity. Qed.

(* a filter longer than a rule (value "read" at index 2, p2 rules have two
   fields): on all three adapters -- the repaired file adapter included -- the
   short rule simply does not match; no panic *)
Lemma ex_c12_long_filter :
  let fp := L ["alice";"";"read"] in
  forallb (fun a =>
    let r := ad0_load_filtered a fp [] c12_md0 in
    match snd r with LROk => true | _ => false end &&
    rules_eqb (m_get_policy (snd (fst r)) s_p (T "p2")) [] &&
    rules_eqb (m_get_policy (snd (fst r)) s_p (T "p"))
              [L ["alice";"data1";"read"]; L ["alice";"data2";"read"]] &&
    ad_is_filtered (fst (fst r))) c12_adapters = true /\
  m_get_policy (snd (fst (ad0_load (AFile c12_txt false) c12_md0))) s_p (T "p2") = [L ["alice";"write"]].
Proof. vm_compute. split; reflexivity. Qed.

(* a dropped line of an UNKNOWN ptype sets the mark although no rule of the
   model is missing: the AllKnown hypothesis of the flag theorem is necessary *)
Definition c12_unknown : list rule := [ L ["p";"p";"alice";"data1";"read"]; L ["p";"p9";"bob"] ].
Lemma flag_needs_all_known :
  let a := AMemory c12_unknown false in
  let fp := L ["alice"] in
  let full := snd (fst (ad0_load a c12_md0)) in
  let r := ad0_load_filtered a fp [] c12_md0 in
  all_known_b c12_md0 c12_unknown = false /\
  m_get_all (snd (fst r)) s_p = m_get_all full s_p /\
  m_get_all (snd (fst r)) s_g = m_get_all full s_g /\
  ad_is_filtered (fst (fst r)) = true /\
  c12_flag (m_get_all full s_p) (m_get_all full s_g)
           (m_get_all (snd (fst r)) s_p) (m_get_all (snd (fst r)) s_g)
           (ad_is_filtered (fst (fst r))) = false.
Proof. vm_compute. repeat split. Qed.

(* the save guard at work, and the reset by a full load *)
Lemma ex_c12_save_guard :
  forallb (fun a =>
    let s := upd_adapter ex_s0 a in
    match step s (OLoadFiltered (L ["alice"]) []) with
    | (s1, Ok true) =>
      ad_is_filtered (e_adapter s1) &&
      match step s1 OSave with
      | (s2, Panic) =>
        match stored_lines (e_adapter s2) with Some l => rules_eqb l c12_mem | None => false end
      | _ => false end &&
      negb (ad_is_filtered (e_adapter (fst (step s1 OLoad)))) &&
      match snd (step (fst (step s1 OLoad)) OSave) with Ok true => true | _ => false end
    | _ => false end) c12_adapters = true.
Proof. vm_compute. reflexivity. Qed.

Lemma ex_c12_constructor :
  let r := new_enforcer ex_def (AMemory c12_mem true) false in
  snd r = Ok true /\ m_get_all (e_model (fst r)) s_p = [] /\ m_get_all (e_model (fst r)) s_g = [] /\
  snd (step (fst r) OSave) = Panic.
Proof. vm_compute. repeat split. Qed.

(* what the mark means in terms of the stored lines *)
Theorem flag_meaning : forall fp fg L,
  existsb (line_out fp fg) L = true <->
  exists s p f, In (s :: p :: f) L /\ is_pg s = true /\ keeps (sec_filter fp fg s) f = false.
Proof.
  intros fp fg L. rewrite existsb_exists. split.
  - intros [ln [Hin Hout]]. destruct ln as [|s [|p f]]; try discriminate.
    exists s, p, f. split; [exact Hin|]. split; [eapply line_out_pg; exact Hout|].
    cbn [line_out] in Hout. apply negb_true_iff in Hout. exact Hout.
  - intros (s & p & f & Hin & _ & Hk). exists (s :: p :: f). split; [exact Hin|].
    cbn [line_out]. rewrite Hk. reflexivity.
Qed.
