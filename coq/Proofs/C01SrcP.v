(* C01 at the level of the TRANSLATED SOURCE: the headline theorems of Properties/C01.v restated about
   Gen/EnforceGen.v (gen_private_enforce / gen_private_enforce_with_context, generated each run from
   Enforcer::private_enforce / private_enforce_with_context of src/enforcer.rs and the macros of src/macros.rs),
   packaged on an enforcer state as src_enforce / src_enforce_with_ctx / src_enforce_with_ctx4 (Proofs/SrcStepP.v).
   Proofs: the translation theorems (PinChecks/PcEnforceGen.v, SrcStepP) composed with Proofs/EnforceP.v. *)
From CV Require Import Model.Base Model.Effector Model.Expr Model.Enforce Model.Engine Model.SpecC01.
From CV Require Import Gen.RustStr Gen.RustVec Gen.RustEnf Gen.EnforceGen PinChecks.PcEnforceGen.
From CV Require Import Proofs.EnforceP Proofs.SrcStepP.

(* the translated loop with four arbitrary section keys (the effect token is the one the source computes:
   pk ++ "_eft") returns exactly the PERM reference decision - for EVERY parse table, flag, store, matcher table,
   function state, keys and request *)
Lemma src_c01_enforce_is_perm : forall ptab enabled md mexprs fs rk pk ek mk rvals,
  gen_private_enforce_with_context ptab enabled md mexprs fs rk pk ek mk rvals =
  perm_ref ptab enabled md mexprs fs rk pk ek mk (tok pk s_eft) rvals.
Proof.
  intros ptab enabled md mexprs fs rk pk ek mk rvals.
  rewrite gen_private_enforce_with_context_ok. apply enforce_is_perm.
Qed.

(* Enforcer::private_enforce: the plain keys *)
Lemma src_c01_enforce_plain_is_perm : forall ptab enabled md mexprs fs rvals,
  gen_private_enforce ptab enabled md mexprs fs rvals =
  perm_ref ptab enabled md mexprs fs s_r s_p s_e s_m (tok s_p s_eft) rvals.
Proof.
  intros ptab enabled md mexprs fs rvals. rewrite gen_private_enforce_ok. apply enforce_is_perm.
Qed.

(* at the level of an enforcer state, for plain and context requests *)
Lemma src_c01_state_plain : forall ptab s rv, src_enforce ptab s rv = perm_ref_plain ptab s rv.
Proof. intros ptab s rv. rewrite src_enforce_eq. apply enforce_is_perm. Qed.

Lemma src_c01_state_ctx : forall ptab s k rv, src_enforce_with_ctx ptab s k rv = perm_ref_ctx ptab s k rv.
Proof. intros ptab s k rv. rewrite src_enforce_with_ctx_eq. apply enforce_is_perm. Qed.

Lemma src_c01_state_ctx4 : forall ptab s rk pk ek mk rv,
  src_enforce_with_ctx4 ptab s rk pk ek mk rv = perm_ref_ctx4 ptab s rk pk ek mk rv.
Proof. intros ptab s rk pk ek mk rv. rewrite src_enforce_with_ctx4_eq. apply enforce_is_perm. Qed.

(* never grants what the semantics deny, never denies what they grant *)
Lemma src_c01_no_false_grant : forall ptab en md mx fs rk pk ek mk rv,
  gen_private_enforce_with_context ptab en md mx fs rk pk ek mk rv = Ok true ->
  perm_ref ptab en md mx fs rk pk ek mk (tok pk s_eft) rv = Ok true.
Proof.
  intros ptab en md mx fs rk pk ek mk rv H. rewrite gen_private_enforce_with_context_ok in H.
  apply enforce_no_false_grant. exact H.
Qed.

Lemma src_c01_no_false_deny : forall ptab en md mx fs rk pk ek mk rv,
  gen_private_enforce_with_context ptab en md mx fs rk pk ek mk rv = Ok false ->
  perm_ref ptab en md mx fs rk pk ek mk (tok pk s_eft) rv = Ok false.
Proof.
  intros ptab en md mx fs rk pk ek mk rv H. rewrite gen_private_enforce_with_context_ok in H.
  apply enforce_no_false_deny. exact H.
Qed.
