(* C18obs, part 5: the main statements for histories, and the examples. *)
From CV Require Import Model.Base Model.Effector Model.RoleGraph Model.PathMatch Model.Expr
     Model.Enforce Model.Engine Model.SpecC05 Model.SpecC09 Model.SpecC18.
From CV Require Import Proofs.ListAux Proofs.BaseP Proofs.RoleGraphP Proofs.ExprP Proofs.ExModels
     Proofs.C09P
     Proofs.C05Links Proofs.C05Sync Proofs.C05Steps Proofs.C05Load Proofs.C05Main
     Proofs.C05Rebuild Proofs.C05P Proofs.C18P Proofs.C18Q Proofs.C18Obs Proofs.C18ObsR
     Proofs.C18ObsH Proofs.C18ObsF.
From Coq Require Import Lia.

(* ================= 1. every reached state ================= *)
Theorem history_state : forall d l w ops,
  is_ok (snd (new_enforcer d (AMemory l false) w)) = true ->
  NoDup l -> forallb pg_mem_line l = true -> keys_ok_b (d_model d) = true ->
  side_ok (fst (new_enforcer d (AMemory l false) w)) = true ->
  obs_hist_ok (fst (new_enforcer d (AMemory l false) w)) ops = true ->
  let s := run_ops (fst (new_enforcer d (AMemory l false) w)) ops in
  Reached s /\ no_leftover (f_gfuns (e_fs s)) (e_model s) = true /\
  (clean_def d = true -> reparse_ok (e_model s) = true).
Proof.
  intros d l w ops Hok Hnd Hpg Hkeys Hside Hh s.
  split; [apply obs_reachable_gen; assumption|].
  unfold obs_hist_ok in Hh. apply andb_true_iff in Hh. destruct Hh as [Hh Hops].
  destruct (new_enforcer d (AMemory l false) w) as [s0 [b| |]] eqn:Hnew; try discriminate.
  cbn [fst] in *.
  assert (Hpl : Pl s0).
  { apply (new_enforcer_Pl d l w s0 b Hnew Hnd); [apply forallb_pg_all, Hpg|apply keys_ok_b_spec, Hkeys]. }
  destruct (new_enforcer_Frame d l w s0 b Hnew (forallb_pg_all l Hpg)) as [Hnl Hrp].
  pose proof (Frame_run ops s0 Hops Hpl) as Hfr. fold s in Hfr. split.
  - apply no_leftover_iff. apply (Frame_NoLeft s0 s Hfr Hnl).
  - intros Hcl. apply reparse_ok_iff. apply (PG_Reparse _ _ (proj1 Hfr)), Hrp, Hcl.
Qed.

(* ================= 2. the three calls succeed in a reached state ================= *)
Theorem reached_reconf_succeeds : forall s o, Reached s -> reconf3 o = true ->
  exists s', step s o = (s', Ok true).
Proof.
  intros s o Hr Ho. destruct o; try discriminate; cbn [step]; try (eexists; reflexivity).
  destruct (rc_store s Hr) as (ad & md & m' & Hl & Hb & Hfl).
  assert (Hbuilt : Built (e_model s) m') by (eapply build_of_idem, Hb).
  destruct (step_set_role_manager s maxd) as [s' r] eqn:Hstep.
  destruct (set_role_manager_core_gen s maxd s' r m' (rc_build s Hr) Hbuilt Hstep) as [Hrr _].
  unfold reg_of in Hrr. rewrite (gdefs_ok_reg _ (frozen_gfuns s) (rc_gdefs s Hr)) in Hrr.
  cbn [lerr_out] in Hrr. subst r. exists s'. reflexivity.
Qed.

(* ================= 3. (4) history followed by a reconfiguration call ================= *)
Theorem after_history_fresh_of : forall d l w ops o s' b,
  is_ok (snd (new_enforcer d (AMemory l false) w)) = true ->
  NoDup l -> forallb pg_mem_line l = true -> keys_ok_b (d_model d) = true ->
  clean_def d = true ->
  side_ok (fst (new_enforcer d (AMemory l false) w)) = true ->
  obs_hist_ok (fst (new_enforcer d (AMemory l false) w)) ops = true ->
  let s := run_ops (fst (new_enforcer d (AMemory l false) w)) ops in
  shallow (f_rm_max (e_fs s)) (f_rm (e_fs s)) ->
  reconf3 o = true -> step s o = (s', Ok b) ->
  exists sf, fresh_of s' = (sf, Ok true) /\
             forall ptab q, ans_eq (ask ptab s' q) (ask ptab sf q).
Proof.
  intros d l w ops o s' b Hok Hnd Hpg Hkeys Hcl Hside Hh s Hsh Ho Hstep.
  destruct (history_state d l w ops Hok Hnd Hpg Hkeys Hside Hh) as (Hr & Hnl & Hrp).
  apply (reached_reconf_fresh_of s o s' b Hr Hsh Hnl (Hrp Hcl) Ho Hstep).
Qed.

Theorem after_history : forall ptab d l w ops o s' b f b',
  is_ok (snd (new_enforcer d (AMemory l false) w)) = true ->
  NoDup l -> forallb pg_mem_line l = true -> keys_ok_b (d_model d) = true ->
  clean_def d = true ->
  side_ok (fst (new_enforcer d (AMemory l false) w)) = true ->
  obs_hist_ok (fst (new_enforcer d (AMemory l false) w)) ops = true ->
  let s := run_ops (fst (new_enforcer d (AMemory l false) w)) ops in
  shallow (f_rm_max (e_fs s)) (f_rm (e_fs s)) ->
  reconf3 o = true -> step s o = (s', Ok b) -> fresh_of s' = (f, Ok b') ->
  forall q, ans_eq (ask ptab s' q) (ask ptab f q).
Proof.
  intros ptab d l w ops o s' b f b' Hok Hnd Hpg Hkeys Hcl Hside Hh s Hsh Ho Hstep Hfr q.
  destruct (after_history_fresh_of d l w ops o s' b Hok Hnd Hpg Hkeys Hcl Hside Hh Hsh Ho Hstep)
    as (sf & Hf & Hans).
  rewrite Hfr in Hf. assert (Hfs : f = sf) by congruence. subst f. apply Hans.
Qed.

(* the same against the enforcer built from the model store used as the
   definition (the form of the Synced theorems); no condition on d *)
Theorem after_history_cur : forall d l w ops o s' b,
  is_ok (snd (new_enforcer d (AMemory l false) w)) = true ->
  NoDup l -> forallb pg_mem_line l = true -> keys_ok_b (d_model d) = true ->
  side_ok (fst (new_enforcer d (AMemory l false) w)) = true ->
  obs_hist_ok (fst (new_enforcer d (AMemory l false) w)) ops = true ->
  let s := run_ops (fst (new_enforcer d (AMemory l false) w)) ops in
  shallow (f_rm_max (e_fs s)) (f_rm (e_fs s)) ->
  reconf3 o = true -> step s o = (s', Ok b) ->
  exists sf, fresh_from (cur_def s') (e_adapter s') s' = (sf, Ok true) /\
             forall ptab q, ans_eq (ask ptab s' q) (ask ptab sf q).
Proof.
  intros d l w ops o s' b Hok Hnd Hpg Hkeys Hside Hh s Hsh Ho Hstep.
  destruct (history_state d l w ops Hok Hnd Hpg Hkeys Hside Hh) as (Hr & Hnl & _).
  apply (reached_reconf_cur s o s' b Hr Hsh Hnl Ho Hstep).
Qed.

(* the executable predicate of C05 / C18 on the pair of answers *)
Lemma ans_eq_pred : forall x y, ans_eq x y -> ans_equiv x y = true.
Proof. exact ans_eq_equiv. Qed.

(* ================= 4. examples ================= *)
Definition y_lines : list rule :=
  [pl admin data1 read; gl alice admin; pl root data2 write; gl admin root].
Definition y_init : estate := fst (new_enforcer rbac_def (AMemory y_lines false) false).
(* incremental calls, among them removals of grouping rules *)
Definition y_ops : list op :=
  [OAdd s_p s_p [bob; data2; read]; OAdd s_g s_g [bob; admin];
   ORemove s_g s_g [admin; root]; OAdd s_g s_g [root; admin];
   ORbac (RDeleteRole alice admin None); ORemove s_p s_p [root; data2; write];
   OAdd s_g s_g [alice; root]].
Definition y_state : estate := run_ops y_init y_ops.

Lemma ex_history_hyps :
  is_ok (snd (new_enforcer rbac_def (AMemory y_lines false) false)) = true /\
  forallb pg_mem_line y_lines = true /\ keys_ok_b (d_model rbac_def) = true /\
  clean_def rbac_def = true /\
  side_ok (fst (new_enforcer rbac_def (AMemory y_lines false) false)) = true /\
  obs_hist_ok (fst (new_enforcer rbac_def (AMemory y_lines false) false)) y_ops = true /\
  shallow_b (f_rm_max (e_fs (run_ops (fst (new_enforcer rbac_def (AMemory y_lines false) false)) y_ops)))
            (f_rm (e_fs (run_ops (fst (new_enforcer rbac_def (AMemory y_lines false) false)) y_ops))) = true.
Proof. vm_compute. repeat split; reflexivity. Qed.

Lemma y_lines_nodup : NoDup y_lines.
Proof. apply nodupb_NoDup. vm_compute. reflexivity. Qed.

(* Synced fails, the observational hypothesis holds *)
Lemma ex_obs_not_synced :
  syncedb y_state = false /\ obs_syncedb y_state = true /\
  store_syncedb y_state = true /\ reparse_ok (e_model y_state) = true /\
  no_leftover (f_gfuns (e_fs y_state)) (e_model y_state) = true /\
  ad_is_filtered (e_adapter y_state) = false /\ e_auto_build y_state = true /\
  gfuns_exactb (f_gfuns (e_fs y_state)) (e_model y_state) = true.
Proof. vm_compute. repeat split; reflexivity. Qed.

(* the role graphs differ (isolated nodes, edge order) ... *)
Lemma ex_graphs_differ :
  rmgr_eqb (f_rm (e_fs y_state)) (f_rm (e_fs (fst (fresh_of y_state)))) = false.
Proof. vm_compute. reflexivity. Qed.

Definition y_queries : list (query) :=
  [QEnforce (req alice data2 read); QEnforce (req bob data1 read); QEnforce (req alice data1 read);
   QRolesFor alice None; QUsersFor admin None; QHasRole bob admin None;
   QImplicitRoles alice None; QImplicitPerms alice None; QImplicitUsers [data1; read];
   QHasLink alice admin None; QHasLink admin root None; QGetPolicy s_g s_g; QGetAll s_p; QIsFiltered].

(* ... and the reconfigured and the fresh enforcer answer alike *)
Lemma ex_answers_equal :
  forallb (fun o =>
    match step y_state o, fresh_of (fst (step y_state o)) with
    | (s', Ok _), (sf, Ok _) =>
      forallb (fun q => ans_equiv (ask no_ptab s' q) (ask no_ptab sf q)) y_queries
    | _, _ => false
    end) [OSetRoleManager 4; OSetEffector; OAddFunction (T "f") UTrue] = true.
Proof. vm_compute. reflexivity. Qed.

(* the main theorem applies to this history *)
Lemma ex_after_history : forall o s' b, reconf3 o = true ->
  step (run_ops (fst (new_enforcer rbac_def (AMemory y_lines false) false)) y_ops) o = (s', Ok b) ->
  exists sf, fresh_of s' = (sf, Ok true) /\
             forall ptab q, ans_eq (ask ptab s' q) (ask ptab sf q).
Proof.
  intros o s' b Ho Hstep. destruct ex_history_hyps as (H1 & H2 & H3 & H4 & H5 & H6 & H7).
  pose proof (after_history_fresh_of rbac_def y_lines false y_ops o s' b H1 y_lines_nodup H2 H3 H4 H5 H6)
    as H. cbv zeta in H. apply H; [|exact Ho|exact Hstep].
  apply shallow_b_sound. exact H7.
Qed.

(* `shallow` is needed: C05's deep state (two g definitions, limit 2, a chain
   of length 2) is reached by incremental calls, satisfies every other
   hypothesis, and after set_effector answers has_link and a decision
   differently from the fresh enforcer *)
Lemma shallow_needed :
  let s0 := fst (new_enforcer (ex_def two_defs) (AMemory [] false) false) in
  let ops := [ OSetRoleManager 2; OAdd s_p s_p [T "d"; T "data"; T "read"];
               OAdd C05P.g g2 [T "a"; T "b"]; OAdd C05P.g C05P.g [T "a"; T "c"];
               OAdd C05P.g C05P.g [T "b"; T "d"] ] in
  let s := run_ops s0 ops in
  let s' := fst (step s OSetEffector) in
  is_ok (snd (new_enforcer (ex_def two_defs) (AMemory [] false) false)) = true /\
  keys_ok_b (d_model (ex_def two_defs)) = true /\ clean_def (ex_def two_defs) = true /\
  side_ok s0 = true /\ obs_hist_ok s0 ops = true /\
  store_syncedb s = true /\ role_sync_b s = true /\ g_exact (e_model s) = true /\
  reparse_ok (e_model s) = true /\
  gfuns_exactb (f_gfuns (e_fs s)) (e_model s) = true /\
  shallow_b (f_rm_max (e_fs s)) (f_rm (e_fs s)) = false /\
  snd (step s OSetEffector) = Ok true /\ snd (fresh_of s') = Ok true /\
  ask no_ptab s' (QHasLink (T "a") (T "d") None) = AnsBool false /\
  ask no_ptab (fst (fresh_of s')) (QHasLink (T "a") (T "d") None) = AnsBool true /\
  ask no_ptab s' (QEnforce deep_req) = AnsDec (Ok false) /\
  ask no_ptab (fst (fresh_of s')) (QEnforce deep_req) = AnsDec (Ok true).
Proof. vm_compute. repeat split; reflexivity. Qed.

(* `reparse_ok` is needed for fresh_of: rules delivered to section r by an
   earlier adapter survive set_adapter (no load ever empties r); the state is
   Synced, the enforcer built from the store-as-definition agrees, the one built
   from the re-parsed definition has lost them *)
Lemma reparse_needed :
  let s := fst (step (mk rbac_def (mem x_rlines)) (OSetAdapter (mem x_lines))) in
  let s' := fst (step s OSetEffector) in
  syncedb s = true /\ obs_syncedb s = true /\ reparse_ok (e_model s) = false /\
  gfuns_exactb (f_gfuns (e_fs s)) (e_model s) = true /\
  snd (fresh_of s') = Ok true /\
  ask no_ptab s' (QGetPolicy s_r s_r) = AnsRules [[bob]; [alice]] /\
  ask no_ptab (fst (fresh_of s')) (QGetPolicy s_r s_r) = AnsRules [] /\
  ask no_ptab (fst (fresh_from (cur_def s') (e_adapter s') s')) (QGetPolicy s_r s_r)
    = AnsRules [[bob]; [alice]].
Proof. vm_compute. repeat split; reflexivity. Qed.

(* the three calls succeed on the example state *)
Lemma ex_reconf_ok :
  snd (step y_state (OSetRoleManager 4)) = Ok true /\ snd (step y_state OSetEffector) = Ok true /\
  snd (step y_state (OAddFunction (T "f") UTrue)) = Ok true /\
  snd (fresh_of (fst (step y_state (OSetRoleManager 4)))) = Ok true /\
  snd (fresh_of (fst (step y_state OSetEffector))) = Ok true /\
  snd (fresh_of (fst (step y_state (OAddFunction (T "f") UTrue)))) = Ok true.
Proof. vm_compute. repeat split; reflexivity. Qed.

(* the hypothesis, unfolded *)
Lemma obs_synced_unfold : forall s, ObsSynced s <->
  ((exists ad md m',
      ad_load (e_adapter s) (m_clear_policy (e_model s)) = (ad, md, LROk) /\
      build_of md = (e_model s, m', LOk) /\
      ad_is_filtered ad = ad_is_filtered (e_adapter s)) /\
   RoleSync s /\ g_exact (e_model s) = true /\
   shallow (f_rm_max (e_fs s)) (f_rm (e_fs s))).
Proof. intros s. reflexivity. Qed.

Lemma obs_hist_ok_unfold : forall s ops,
  obs_hist_ok s ops = hist_ok s ops && forallb (fun o => c09_op o && pg_op o) ops.
Proof. intros. reflexivity. Qed.

Lemma reached_unfold : forall s, Reached s ->
  StoreSynced s /\ RoleSync s /\ g_exact (e_model s) = true /\ e_auto_build s = true /\
  e_auto_save s = true /\ mem_plain (e_adapter s) = true /\ ad_is_filtered (e_adapter s) = false /\
  gdefs_ok (e_model s) = true /\ gfuns_current (f_gfuns (e_fs s)) (e_model s) = true.
Proof. intros s [H1 H2 H3 H4 H5 H6 H7 H8 H9]. repeat (split; [assumption|]). assumption. Qed.
