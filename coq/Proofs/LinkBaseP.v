(* Part 21 (linking), general lemmas.
   A. `rs_for` (Gen/RustVec.v): two translated loops whose bodies agree run alike
      - rs_for_inv_ext   bodies equal on the states of an invariant that LNext preserves;
      - rs_for_agree_or  bodies equal, or the second returns a fixed value E: the loops are equal, or the
                         second returned E.
   B. `eval` (Model/Expr.v): two tables of registered functions that agree wherever the second does not
      answer with an evaluation error evaluate alike, or the second evaluation IS an evaluation error
      (errors propagate through every construct of the expression language). *)
From CV Require Import Model.Base Model.PathMatch Model.Expr.
From CV Require Import Gen.RustStr Gen.RustVec.
From CV Require Import Proofs.BaseP Proofs.ExprP.

(* ------------------------------------------------------------------ *)
(* A. loops                                                            *)

Lemma ls_fold_none : forall {A S R} (body : A -> S -> flow S R) l,
  fold_left (ls_step body) l None = None.
Proof. intros A S R body. induction l as [|x l IH]; [reflexivity|exact IH]. Qed.

Lemma ls_fold_returned : forall {A S R} (body : A -> S -> flow S R) l st r,
  ls_returned st = Some r -> fold_left (ls_step body) l (Some st) = Some st.
Proof.
  intros A S R body. induction l as [|x l IH]; intros st r Hr; [reflexivity|].
  cbn [fold_left ls_step]. destruct (ls_stopped st); [apply (IH st r Hr)|].
  rewrite Hr. apply (IH st r Hr).
Qed.

Section LoopInv.
  Context {A S R : Type}.
  Variable I : S -> Prop.
  Variables b1 b2 : A -> S -> flow S R.
  Hypothesis Hb : forall x s, I s -> b1 x s = b2 x s.
  Hypothesis Hnext : forall x s s', I s -> b2 x s = LNext s' -> I s'.

  Lemma ls_fold_inv_ext : forall l st,
    (ls_stopped st = false -> ls_returned st = None -> I (ls_vars st)) ->
    fold_left (ls_step b1) l (Some st) = fold_left (ls_step b2) l (Some st).
  Proof.
    induction l as [|x l IH]; intros st Hst; [reflexivity|].
    cbn [fold_left ls_step]. destruct (ls_stopped st) eqn:Es; [apply IH; intros H; rewrite Es in H; discriminate|].
    destruct (ls_returned st) as [r|] eqn:Er; [apply IH; intros _ H; rewrite Er in H; discriminate|].
    specialize (Hst eq_refl eq_refl). rewrite (Hb x _ Hst).
    destruct (b2 x (ls_vars st)) as [s'|s'|r|] eqn:E.
    - apply IH. cbn [ls_stopped ls_returned ls_vars]. intros _ _. apply (Hnext x _ _ Hst E).
    - apply IH. cbn [ls_stopped]. intros H. discriminate.
    - apply IH. cbn [ls_returned]. intros _ H. discriminate.
    - rewrite !ls_fold_none. reflexivity.
  Qed.

  Lemma rs_for_inv_ext : forall l s, I s -> rs_for b1 l s = rs_for b2 l s.
  Proof.
    intros l s Hs. unfold rs_for. rewrite ls_fold_inv_ext; [reflexivity|].
    cbn [ls_vars]. intros _ _. exact Hs.
  Qed.
End LoopInv.

Lemma rs_for_ext : forall {A S R} (b1 b2 : A -> S -> flow S R) l s,
  (forall x s, b1 x s = b2 x s) -> rs_for b1 l s = rs_for b2 l s.
Proof.
  intros A S R b1 b2 l s H. apply (rs_for_inv_ext (fun _ => True)); auto.
Qed.


(* what a loop leaves: the invariant of the carried state at the end, a property of the returned value *)
Section LoopRes.
  Context {A S R : Type}.
  Variable I : S -> Prop.
  Variable P : R -> Prop.
  Variable b : A -> S -> flow S R.
  Hypothesis Hnext : forall x s s', I s -> b x s = LNext s' -> I s'.
  Hypothesis Hbreak : forall x s s', I s -> b x s = LBreak s' -> I s'.
  Hypothesis Hret : forall x s r, I s -> b x s = LReturn r -> P r.

  Lemma ls_fold_inv_vars : forall l st st', I (ls_vars st) -> (forall r, ls_returned st = Some r -> P r) ->
    fold_left (ls_step b) l (Some st) = Some st' -> I (ls_vars st') /\ (forall r, ls_returned st' = Some r -> P r).
  Proof.
    induction l as [|x l IH]; intros st st' Hst Hr H; [injection H as <-; split; assumption|].
    cbn [fold_left ls_step] in H. destruct (ls_stopped st); [apply (IH st st' Hst Hr H)|].
    destruct (ls_returned st) as [r0|] eqn:Er0; [apply (IH st st' Hst); [rewrite Er0; exact Hr|exact H]|].
    destruct (b x (ls_vars st)) as [s1|s1|r|] eqn:E.
    - eapply IH; [| |exact H]; cbn [ls_vars ls_returned]; [apply (Hnext x _ _ Hst E)|discriminate].
    - eapply IH; [| |exact H]; cbn [ls_vars ls_returned]; [apply (Hbreak x _ _ Hst E)|discriminate].
    - eapply IH; [| |exact H]; cbn [ls_vars ls_returned]; [exact Hst|].
      intros r' Hr'. injection Hr' as <-. apply (Hret x _ _ Hst E).
    - rewrite ls_fold_none in H. discriminate H.
  Qed.

  Lemma rs_for_inv_done : forall l s s', I s -> rs_for b l s = Done s' -> I s'.
  Proof.
    intros l s s' Hs H. unfold rs_for in H.
    destruct (fold_left (ls_step b) l (Some {| ls_vars := s; ls_stopped := false; ls_returned := None |})) as [st|] eqn:E;
      [|discriminate H].
    assert (Hv : I (ls_vars st) /\ (forall r, ls_returned st = Some r -> P r)).
    { eapply ls_fold_inv_vars; [| |exact E]; cbn [ls_vars ls_returned]; [exact Hs|discriminate]. }
    destruct (ls_returned st); [discriminate H|]. injection H as <-. apply Hv.
  Qed.

  Lemma rs_for_inv_returned : forall l s r, I s -> rs_for b l s = Returned r -> P r.
  Proof.
    intros l s r Hs H. unfold rs_for in H.
    destruct (fold_left (ls_step b) l (Some {| ls_vars := s; ls_stopped := false; ls_returned := None |})) as [st|] eqn:E;
      [|discriminate H].
    assert (Hv : I (ls_vars st) /\ (forall r, ls_returned st = Some r -> P r)).
    { eapply ls_fold_inv_vars; [| |exact E]; cbn [ls_vars ls_returned]; [exact Hs|discriminate]. }
    destruct (ls_returned st) as [r0|] eqn:Er; [|discriminate H]. injection H as <-. apply Hv. reflexivity.
  Qed.
End LoopRes.

Section LoopOr.
  Context {A S R : Type}.
  Variable E : R.
  Variables b1 b2 : A -> S -> flow S R.
  Hypothesis Hb : forall x s, b1 x s = b2 x s \/ b2 x s = LReturn E.

  Lemma ls_fold_agree_or : forall l st,
    fold_left (ls_step b1) l (Some st) = fold_left (ls_step b2) l (Some st) \/
    exists st', fold_left (ls_step b2) l (Some st) = Some st' /\ ls_returned st' = Some E.
  Proof.
    induction l as [|x l IH]; intros st; [left; reflexivity|].
    cbn [fold_left ls_step]. destruct (ls_stopped st) eqn:Es; [apply IH|].
    destruct (ls_returned st) as [r|] eqn:Er; [apply IH|].
    destruct (Hb x (ls_vars st)) as [H|H].
    - rewrite H. destruct (b2 x (ls_vars st)) as [s'|s'|r|]; try apply IH.
      left. rewrite !ls_fold_none. reflexivity.
    - right. rewrite H. eexists. split; [apply (ls_fold_returned b2 l _ E); reflexivity|reflexivity].
  Qed.

  Lemma rs_for_agree_or : forall l s,
    rs_for b1 l s = rs_for b2 l s \/ rs_for b2 l s = Returned E.
  Proof.
    intros l s. unfold rs_for.
    destruct (ls_fold_agree_or l {| ls_vars := s; ls_stopped := false; ls_returned := None |}) as [H|(st' & H & Hr)].
    - left. rewrite H. reflexivity.
    - right. rewrite H, Hr. reflexivity.
  Qed.
End LoopOr.

(* ------------------------------------------------------------------ *)
(* B. evaluation                                                       *)

(* the two results are equal, or the second one is the evaluation error *)
Definition agree_or_err (r1 r2 : eres) : Prop := r1 = r2 \/ r2 = EErr.

Section EvalOr.
  Variables call1 call2 : text -> list value -> option eres.
  Variable ptab : text -> option expr.
  Variable sc : list (text * value).
  Hypothesis Hc : forall f args, call1 f args = call2 f args \/ call2 f args = Some EErr.

  Lemma in_go_agree_or (ev1 ev2 : expr -> eres) x : forall xs found,
    Forall (fun y => agree_or_err (ev1 y) (ev2 y)) xs ->
    agree_or_err (in_go ev1 x xs found) (in_go ev2 x xs found).
  Proof.
    induction xs as [|y xs IH]; intros found HF; cbn [in_go]; [left; reflexivity|].
    inversion HF as [|y' xs' Hy Hxs]; subst. destruct Hy as [Hy|Hy].
    - rewrite Hy. destruct (ev2 y); try (left; reflexivity). apply IH, Hxs.
    - right. rewrite Hy. reflexivity.
  Qed.

  Lemma call_go_agree_or (ev1 ev2 : expr -> eres) f : forall xs acc,
    Forall (fun y => agree_or_err (ev1 y) (ev2 y)) xs ->
    agree_or_err (call_go call1 ev1 f xs acc) (call_go call2 ev2 f xs acc).
  Proof.
    induction xs as [|y xs IH]; intros acc HF; cbn [call_go].
    - destruct (Hc f (rev acc)) as [H|H]; [rewrite H; left; reflexivity|right; rewrite H; reflexivity].
    - inversion HF as [|y' xs' Hy Hxs]; subst. destruct Hy as [Hy|Hy].
      + rewrite Hy. destruct (ev2 y); try (left; reflexivity). apply IH, Hxs.
      + right. rewrite Hy. reflexivity.
  Qed.

  Ltac sub_or IH := destruct IH as [IH|IH]; [rewrite IH|right; rewrite IH; reflexivity].

  Lemma eval_agree_or_err : forall fuel e,
    agree_or_err (eval call1 ptab sc fuel e) (eval call2 ptab sc fuel e).
  Proof.
    induction fuel as [|fuel IHf]; intros e;
      induction e as [v|p f|a f IHa|a b IHa IHb|a b IHa IHb|c a b IHa IHb|a b IHa IHb
                      |a b IHa IHb|a IHa|a xs IHa IHxs|f args IHargs|p f] using expr_ind'.
    all: match goal with
         | |- agree_or_err (eval _ _ _ _ (ELit _)) _ => rewrite !eval_ELit; left; reflexivity
         | |- agree_or_err (eval _ _ _ _ (EVar _ _)) _ => rewrite !eval_EVar; left; reflexivity
         | |- agree_or_err (eval _ _ _ ?fl (EProp _ _)) _ =>
             rewrite !eval_EProp; sub_or IHa; left; reflexivity
         | |- agree_or_err (eval _ _ _ ?fl (EEq _ _)) _ =>
             rewrite !eval_EEq; sub_or IHa; destruct (eval call2 ptab sc fl a) as [x| |]; try (left; reflexivity);
             sub_or IHb; left; reflexivity
         | |- agree_or_err (eval _ _ _ ?fl (ENeq _ _)) _ =>
             rewrite !eval_ENeq; sub_or IHa; destruct (eval call2 ptab sc fl a) as [x| |]; try (left; reflexivity);
             sub_or IHb; left; reflexivity
         | |- agree_or_err (eval _ _ _ ?fl (ECmp _ _ _)) _ =>
             rewrite !eval_ECmp; sub_or IHa; destruct (eval call2 ptab sc fl a) as [x| |]; try (left; reflexivity);
             sub_or IHb; left; reflexivity
         | |- agree_or_err (eval _ _ _ ?fl (EAnd _ _)) _ =>
             rewrite !eval_EAnd; sub_or IHa;
             destruct (eval call2 ptab sc fl a) as [[s|z|[|]| |fs]| |]; cbn [as_bool]; try (left; reflexivity);
             sub_or IHb; left; reflexivity
         | |- agree_or_err (eval _ _ _ ?fl (EOr _ _)) _ =>
             rewrite !eval_EOr; sub_or IHa;
             destruct (eval call2 ptab sc fl a) as [[s|z|[|]| |fs]| |]; cbn [as_bool]; try (left; reflexivity);
             sub_or IHb; left; reflexivity
         | |- agree_or_err (eval _ _ _ ?fl (ENot _)) _ =>
             rewrite !eval_ENot; sub_or IHa; left; reflexivity
         | |- agree_or_err (eval _ _ _ ?fl (EIn _ _)) _ =>
             rewrite !eval_EIn; sub_or IHa; destruct (eval call2 ptab sc fl a) as [x| |]; try (left; reflexivity);
             apply in_go_agree_or, IHxs
         | |- agree_or_err (eval _ _ _ ?fl (ECall _ _)) _ =>
             rewrite !eval_ECall; apply call_go_agree_or, IHargs
         | |- agree_or_err (eval _ _ _ _ (EEval _ _)) _ => idtac
         end.
    - rewrite !eval_EEval. left. reflexivity.
    - rewrite !eval_EEval.
      destruct (assoc (tok p f) sc) as [[s| | | |]|]; try (left; reflexivity).
      destruct (teqb s []); [left; reflexivity|].
      destruct (ptab (escape_assertion s)); [apply IHf|left; reflexivity].
  Qed.
End EvalOr.
