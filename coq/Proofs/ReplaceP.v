(* C16 (9), the delicate part: un-escaping by successive str::replace followed
   by escape_assertion is the identity on escaped values whose token
   occurrences all stand at word boundaries, whatever the order of the
   replacements. *)
From CV Require Import Model.Base Model.PathMatch Model.Expr Model.Csv Model.Ini Model.SpecC16.
From CV Require Import Proofs.ListAux Proofs.BaseP Proofs.CsvP Proofs.IniP Proofs.EscP.
From Coq Require Import Lia.

(* ------------------------------------------------------------------ *)
(* prefixes                                                             *)
(* ------------------------------------------------------------------ *)
Lemma strip_prefix_Some : forall t x rest, strip_prefix t x = Some rest <-> x = t ++ rest.
Proof.
  induction t as [|c t IH]; intros x rest; cbn [strip_prefix app].
  - split; [intros E; inversion E; reflexivity|intros ->; reflexivity].
  - destruct x as [|d x]; [split; discriminate|].
    destruct (Ascii.eqb c d) eqn:E.
    + apply aeqb_true in E. subst d. rewrite IH. split; [intros ->; reflexivity|intros H; inversion H; reflexivity].
    + split; [discriminate|]. intros H. inversion H. subst d. rewrite Ascii.eqb_refl in E. discriminate.
Qed.
Lemma strip_prefix_is_prefix : forall t x, is_prefix t x = match strip_prefix t x with Some _ => true | None => false end.
Proof.
  induction t as [|c t IH]; intros x; cbn [strip_prefix is_prefix]; [reflexivity|].
  destruct x as [|d x]; [reflexivity|]. destruct (Ascii.eqb c d); [apply IH|reflexivity].
Qed.
Lemma is_prefix_app : forall t rest, is_prefix t (t ++ rest) = true.
Proof.
  intros t rest. rewrite strip_prefix_is_prefix.
  destruct (strip_prefix t (t ++ rest)) eqn:E; [reflexivity|].
  assert (H : strip_prefix t (t ++ rest) = Some rest) by (apply strip_prefix_Some; reflexivity).
  rewrite H in E. discriminate.
Qed.

(* ------------------------------------------------------------------ *)
(* replace_all without fuel                                             *)
(* ------------------------------------------------------------------ *)
Lemma replace_all_S : forall f t u x,
  replace_all (S f) t u x =
  match x with
  | [] => []
  | c :: r => match t with
              | [] => x
              | _ => match strip_prefix t x with
                     | Some rest => u ++ replace_all f t u rest
                     | None => c :: replace_all f t u r
                     end
              end
  end.
Proof. reflexivity. Qed.
Lemma replace_all_fuel : forall f1 t u x f2, length x < f1 -> length x < f2 ->
  replace_all f1 t u x = replace_all f2 t u x.
Proof.
  induction f1 as [|f1 IH]; intros t u x f2 H1 H2; [lia|].
  destruct f2 as [|f2]; [lia|]. rewrite !replace_all_S.
  destruct x as [|c r]; [reflexivity|]. destruct t as [|c0 t']; [reflexivity|].
  cbn [length] in H1, H2.
  destruct (strip_prefix (c0 :: t') (c :: r)) as [rest|] eqn:E.
  - f_equal. apply strip_prefix_Some in E.
    assert (length rest < length (c :: r)).
    { rewrite E. rewrite app_length. cbn [length]. lia. }
    cbn [length] in H. apply IH; lia.
  - f_equal. apply IH; lia.
Qed.

(* the canonical form: enough fuel *)
Definition rep (t u x : text) : text := replace_all (S (length x)) t u x.
Lemma apply_table_rep : forall tb v,
  apply_table tb v = fold_left (fun acc tu => rep (fst tu) (snd tu) acc) tb v.
Proof. reflexivity. Qed.
Lemma rep_nil : forall t u, rep t u [] = [].
Proof. reflexivity. Qed.
Lemma rep_occ : forall t u rest, t <> [] -> rep t u (t ++ rest) = u ++ rep t u rest.
Proof.
  intros t u rest Ht. unfold rep. rewrite replace_all_S. destruct t as [|c0 t']; [contradiction|].
  assert (E : strip_prefix (c0 :: t') ((c0 :: t') ++ rest) = Some rest).
  { apply (strip_prefix_Some (c0 :: t')). reflexivity. }
  cbn [app] in *. rewrite E. f_equal.
  apply replace_all_fuel; cbn [length]; rewrite ?app_length; lia.
Qed.
Lemma rep_step : forall t u c r, is_prefix t (c :: r) = false -> rep t u (c :: r) = c :: rep t u r.
Proof.
  intros t u c r H. unfold rep. rewrite replace_all_S. destruct t as [|c0 t']; [discriminate|].
  rewrite strip_prefix_is_prefix in H.
  destruct (strip_prefix (c0 :: t') (c :: r)); [discriminate|]. reflexivity.
Qed.
Lemma prefix_cases : forall t x, is_prefix t x = true -> exists rest, x = t ++ rest.
Proof.
  intros t x H. rewrite strip_prefix_is_prefix in H.
  destruct (strip_prefix t x) as [rest|] eqn:E; [|discriminate].
  exists rest. apply strip_prefix_Some, E.
Qed.

(* ------------------------------------------------------------------ *)
(* tokens                                                               *)
(* ------------------------------------------------------------------ *)
Inductive tokP (t u : text) : Prop :=
| TokP (c : ascii) (ds f : text)
       (Hrp : is_rp c = true) (Hds : forallb is_digit ds = true) (Hf : f_ok f = true)
       (Ht : t = c :: ds ++ underscore :: f) (Hu : u = c :: ds ++ dot :: f).

Lemma split_go_spec : forall c s acc p f,
  (fix go (s : text) (acc : text) : option (text * text) :=
     match s with
     | d :: s' => if is_digit d then go s' (d :: acc)
                  else if Ascii.eqb d underscore then Some (c :: rev acc, s')
                  else None
     | [] => None
     end) s acc = Some (p, f) ->
  exists ds, forallb is_digit ds = true /\ s = ds ++ underscore :: f /\ p = c :: rev acc ++ ds.
Proof.
  intros c. induction s as [|d s IH]; intros acc p f H; [discriminate|].
  destruct (is_digit d) eqn:Ed.
  - apply IH in H. destruct H as [ds [H1 [H2 H3]]]. exists (d :: ds). split; [|split].
    + cbn [forallb]. rewrite Ed, H1. reflexivity.
    + rewrite H2. reflexivity.
    + rewrite H3. cbn [rev]. rewrite <- app_assoc. reflexivity.
  - destruct (Ascii.eqb d underscore) eqn:Eu; [|discriminate]. apply aeqb_true in Eu. subst d.
    inversion H. subst. exists []. rewrite app_nil_r. auto.
Qed.
Lemma untoken_go_spec : forall c t s acc ds f, forallb is_digit ds = true -> s = ds ++ underscore :: f ->
  (fix go (s : text) (acc : text) : text :=
     match s with
     | d :: s' => if is_digit d then go s' (d :: acc)
                  else if Ascii.eqb d underscore then c :: rev acc ++ dot :: s'
                  else t
     | [] => t
     end) s acc = c :: (rev acc ++ ds) ++ dot :: f.
Proof.
  intros c t s acc ds. revert s acc. induction ds as [|d ds IH]; intros s acc f Hd Hs; subst s; cbn [app].
  - rewrite us_not_digit, Ascii.eqb_refl. rewrite app_nil_r. reflexivity.
  - cbn [forallb] in Hd. apply andb_true_iff in Hd. destruct Hd as [Hd Hds]. rewrite Hd.
    rewrite (IH _ (d :: acc) f Hds eq_refl). cbn [rev]. rewrite <- !app_assoc. reflexivity.
Qed.

Lemma tok_ok_tokP : forall t, tok_ok t = true -> tokP t (untoken t).
Proof.
  intros t H. unfold tok_ok in H. destruct (split_tok t) as [[p f]|] eqn:Es; [|discriminate].
  unfold split_tok in Es. destruct t as [|c r]; [discriminate|].
  destruct (is_rp c) eqn:Ec; [|discriminate].
  apply split_go_spec in Es. destruct Es as [ds [Hds [Hr Hp]]]. cbn [rev app] in Hp.
  apply (TokP _ _ c ds f Ec Hds H).
  - rewrite Hr. reflexivity.
  - unfold untoken. rewrite Ec. rewrite (untoken_go_spec c (c :: r) r [] ds f Hds Hr). reflexivity.
Qed.

Lemma tokP_ne : forall t u, tokP t u -> t <> [].
Proof. intros t u [c ds f _ _ _ Ht _] E. rewrite Ht in E. discriminate. Qed.

(* ------------------------------------------------------------------ *)
(* escape_assertion helpers                                             *)
(* ------------------------------------------------------------------ *)
Lemma esc_words : forall w Z, forallb is_word w = true -> esc_go false true (w ++ Z) = w ++ esc_go false true Z.
Proof.
  induction w as [|c w IH]; intros Z H; [reflexivity|].
  cbn [forallb] in H. apply andb_true_iff in H. destruct H as [Hc Hw].
  cbn [app esc_go negb andb]. rewrite Hc. rewrite IH by exact Hw. reflexivity.
Qed.
Lemma tok_ahead_digits_us : forall ds Z, forallb is_digit ds = true -> tok_ahead (ds ++ underscore :: Z) = false.
Proof.
  induction ds as [|d ds IH]; intros Z H; cbn [app tok_ahead].
  - reflexivity.
  - cbn [forallb] in H. apply andb_true_iff in H. destruct H as [Hd H]. rewrite Hd.
    destruct (Ascii.eqb d dot) eqn:E; [apply aeqb_true in E; subst d; discriminate|]. apply IH, H.
Qed.
Lemma word_not_dot : forall c, is_word c = true -> Ascii.eqb c dot = false.
Proof. intros c H. apply aeqb_false. intros E. subst c. discriminate. Qed.
Lemma tok_ahead_words : forall w Z, forallb is_word w = true -> forallb is_digit w = false ->
  tok_ahead (w ++ Z) = false.
Proof.
  induction w as [|c w IH]; intros Z Hw Hd; [discriminate|].
  cbn [forallb] in Hw, Hd. apply andb_true_iff in Hw. destruct Hw as [Hc Hw].
  cbn [app tok_ahead]. rewrite (word_not_dot _ Hc).
  destruct (is_digit c); [|reflexivity]. cbn [andb] in Hd. apply IH; assumption.
Qed.
Lemma digits_words : forall ds, forallb is_digit ds = true -> forallb is_word ds = true.
Proof.
  intros ds H. rewrite forallb_forall in *. intros c Hc. apply digit_is_word, H, Hc.
Qed.

(* the first byte of a field is never a rewriting site *)
Lemma f_ok_first : forall c1 f' Z, f_ok (c1 :: f') = true ->
  is_word c1 = true /\ forallb is_word f' = true /\ (is_rp c1 && tok_ahead (f' ++ Z)) = false.
Proof.
  intros c1 f' Z H. unfold f_ok in H. rewrite !andb_true_iff in H. destruct H as [[_ Hw] Hrp].
  cbn [forallb] in Hw. apply andb_true_iff in Hw. destruct Hw as [Hc Hw]. split; [exact Hc|].
  split; [exact Hw|]. destruct (is_rp c1) eqn:E; [|reflexivity]. cbn [andb].
  apply negb_true_iff in Hrp. cbn [rp_prefix] in Hrp. rewrite E in Hrp. cbn [andb] in Hrp.
  apply tok_ahead_words; assumption.
Qed.

(* escaping the dotted and the underscored form of a token at a boundary *)
Lemma esc_token_dotted : forall t u Z, tokP t u ->
  esc_go false false (u ++ Z) = t ++ esc_go false true Z.
Proof.
  intros t u Z [c ds f Hc Hds Hf Ht Hu]. subst t u.
  cbn [app]. rewrite <- app_assoc. cbn [app]. rewrite esc_site by assumption.
  destruct f as [|c1 f']; [discriminate|].
  destruct (f_ok_first c1 f' Z Hf) as [Hw1 [Hw Hns]].
  cbn [app esc_go negb andb]. rewrite Hns. rewrite Hw1. rewrite esc_words by exact Hw.
  rewrite <- app_assoc. reflexivity.
Qed.
Lemma f_ok_words : forall f, f_ok f = true -> forallb is_word f = true.
Proof. intros f H. unfold f_ok in H. rewrite !andb_true_iff in H. tauto. Qed.
Lemma esc_token_plain : forall t u Z, tokP t u ->
  esc_go false false (t ++ Z) = t ++ esc_go false true Z.
Proof.
  intros t u Z [c ds f Hc Hds Hf Ht Hu]. subst t u.
  cbn [app esc_go negb andb]. rewrite <- app_assoc. cbn [app].
  rewrite tok_ahead_digits_us by exact Hds. rewrite andb_false_r.
  rewrite (rp_is_word _ Hc).
  replace (ds ++ underscore :: f ++ Z) with ((ds ++ underscore :: f) ++ Z)
    by (rewrite <- app_assoc; reflexivity).
  rewrite esc_words; [reflexivity|].
  rewrite forallb_app. rewrite (digits_words _ Hds). cbn [forallb andb]. rewrite us_is_word.
  apply f_ok_words, Hf.
Qed.

(* ------------------------------------------------------------------ *)
(* look-ahead is blind to the replacement                               *)
(* ------------------------------------------------------------------ *)
Lemma tokP_heads : forall t u, tokP t u ->
  exists c t' u', t = c :: t' /\ u = c :: u' /\ is_rp c = true.
Proof. intros t u [c ds f Hc _ _ Ht Hu]. exists c, (ds ++ underscore :: f), (ds ++ dot :: f). auto. Qed.

Lemma rp_not_dot : forall c, is_rp c = true -> Ascii.eqb c dot = false.
Proof. intros c H. apply word_not_dot, rp_is_word, H. Qed.

Lemma is_prefix_head_neq : forall c t' d r, c <> d -> is_prefix (c :: t') (d :: r) = false.
Proof.
  intros c t' d r H. cbn [is_prefix]. assert (E : Ascii.eqb c d = false) by (apply aeqb_false; exact H).
  rewrite E. reflexivity.
Qed.

Lemma tok_ahead_rep : forall t u, tokP t u -> forall n x, length x < n -> tok_ahead (rep t u x) = tok_ahead x.
Proof.
  intros t u Ht. destruct (tokP_heads t u Ht) as [c [t' [u' [Et [Eu Hc]]]]].
  induction n as [|n IH]; intros x Hn; [lia|]. destruct x as [|d r]; [reflexivity|].
  cbn [length] in Hn. destruct (is_prefix t (d :: r)) eqn:Ep.
  - apply prefix_cases in Ep. destruct Ep as [rest Ex]. rewrite Ex.
    rewrite rep_occ by (apply (tokP_ne _ _ Ht)). rewrite Et, Eu. cbn [app tok_ahead].
    rewrite (rp_not_dot _ Hc), (rp_not_digit _ Hc). reflexivity.
  - rewrite rep_step by exact Ep. cbn [tok_ahead]. destruct (Ascii.eqb d dot); [reflexivity|].
    destruct (is_digit d); [apply IH; lia|reflexivity].
Qed.

Lemma tok_ahead_split : forall r, tok_ahead r = true ->
  exists ds r2, r = ds ++ dot :: r2 /\ forallb is_digit ds = true.
Proof.
  induction r as [|c r IH]; intros H; [discriminate|]. cbn [tok_ahead] in H.
  destruct (Ascii.eqb c dot) eqn:E.
  - apply aeqb_true in E. subst c. exists [], r. auto.
  - destruct (is_digit c) eqn:Ed; [|discriminate]. destruct (IH H) as [ds [r2 [E1 E2]]].
    exists (c :: ds), r2. subst r. split; [reflexivity|]. cbn [forallb]. rewrite Ed, E2. reflexivity.
Qed.

Lemma rep_digits_dot : forall t u ds r2, tokP t u -> forallb is_digit ds = true ->
  rep t u (ds ++ dot :: r2) = ds ++ dot :: rep t u r2.
Proof.
  intros t u ds r2 Ht Hds. destruct (tokP_heads t u Ht) as [c [t' [u' [Et [Eu Hc]]]]].
  induction ds as [|d ds IH]; cbn [app].
  - rewrite rep_step; [reflexivity|]. rewrite Et. apply is_prefix_head_neq.
    intros E. subst c. discriminate.
  - cbn [forallb] in Hds. apply andb_true_iff in Hds. destruct Hds as [Hd Hds].
    rewrite rep_step; [rewrite IH by exact Hds; reflexivity|].
    rewrite Et. apply is_prefix_head_neq. intros E. subst c.
    rewrite (rp_not_digit _ Hc) in Hd. discriminate.
Qed.

(* ------------------------------------------------------------------ *)
(* occurrences at word boundaries only                                  *)
(* ------------------------------------------------------------------ *)
Lemma no_inner_occ_app : forall T a pw b,
  no_inner_occ T pw (a ++ b) = true -> no_inner_occ T (pw_after pw a) b = true.
Proof.
  intros T. induction a as [|c a IH]; intros pw b H; [exact H|].
  cbn [app no_inner_occ] in H. apply andb_true_iff in H. destruct H as [_ H].
  cbn [pw_after]. apply IH, H.
Qed.
Lemma no_inner_occ_head : forall T c r t, no_inner_occ T true (c :: r) = true -> In t T ->
  is_prefix t (c :: r) = false.
Proof.
  intros T c r t H Hin. cbn [no_inner_occ negb orb] in H. apply andb_true_iff in H.
  destruct H as [H _]. rewrite forallb_forall in H. apply H in Hin. apply negb_true_iff, Hin.
Qed.

Lemma no_inner_occ_weaken : forall T x, no_inner_occ T true x = true -> no_inner_occ T false x = true.
Proof.
  intros T [|c r] H; [reflexivity|]. cbn [no_inner_occ] in *. apply andb_true_iff in H.
  destruct H as [_ H]. rewrite H. reflexivity.
Qed.

Lemma pw_after_words : forall w pw, w <> [] -> forallb is_word w = true -> pw_after pw w = true.
Proof.
  induction w as [|c w IH]; intros pw Hne H; [contradiction|].
  cbn [forallb] in H. apply andb_true_iff in H. destruct H as [Hc Hw]. cbn [pw_after].
  destruct w as [|c' w']; [exact Hc|]. apply IH; [discriminate|exact Hw].
Qed.
Lemma tokP_words : forall t u, tokP t u -> forallb is_word t = true.
Proof.
  intros t u [c ds f Hc Hds Hf Ht Hu]. subst t. cbn [forallb]. rewrite (rp_is_word _ Hc).
  rewrite forallb_app, (digits_words _ Hds). cbn [forallb andb]. rewrite us_is_word.
  apply f_ok_words, Hf.
Qed.

(* ---- one replacement is invisible after escaping ---- *)
Lemma esc_rep : forall T t u, tokP t u -> In t T ->
  forall n x pw, length x < n -> no_inner_occ T pw x = true ->
  esc_go false pw (rep t u x) = esc_go false pw x.
Proof.
  intros T t u Ht Hin. induction n as [|n IH]; intros x pw Hn Hocc; [lia|].
  destruct x as [|c r]; [reflexivity|]. cbn [length] in Hn.
  destruct (is_prefix t (c :: r)) eqn:Ep.
  - (* an occurrence: necessarily at a boundary *)
    destruct pw; [rewrite (no_inner_occ_head T c r t Hocc Hin) in Ep; discriminate|].
    apply prefix_cases in Ep. destruct Ep as [rest Ex]. rewrite Ex in *.
    rewrite rep_occ by (apply (tokP_ne _ _ Ht)).
    rewrite (esc_token_dotted t u _ Ht), (esc_token_plain t u _ Ht). f_equal.
    apply no_inner_occ_app in Hocc.
    rewrite (pw_after_words t false (tokP_ne _ _ Ht) (tokP_words _ _ Ht)) in Hocc.
    apply IH; [|exact Hocc].
    assert (length (t ++ rest) = S (length r)) by (rewrite <- Ex; reflexivity).
    rewrite app_length in H. pose proof (tokP_ne _ _ Ht). destruct t; [contradiction|cbn [length] in H; lia].
  - rewrite rep_step by exact Ep. cbn [esc_go].
    rewrite (tok_ahead_rep t u Ht (S (length r)) r) by lia.
    cbn [no_inner_occ] in Hocc. apply andb_true_iff in Hocc. destruct Hocc as [_ Hocc'].
    destruct (negb pw && is_rp c && tok_ahead r) eqn:Es.
    + (* a rewriting site: digits and the dot are copied by rep *)
      apply andb_true_iff in Es. destruct Es as [_ Hta].
      destruct (tok_ahead_split r Hta) as [ds [r2 [Er Hds]]]. subst r.
      rewrite rep_digits_dot by assumption. rewrite !esc_rw_digits by exact Hds.
      f_equal. f_equal. f_equal.
      replace (ds ++ dot :: r2) with ((ds ++ [dot]) ++ r2) in Hocc' by (rewrite <- app_assoc; reflexivity).
      apply no_inner_occ_app in Hocc'. rewrite pw_after_app in Hocc'. cbn [pw_after] in Hocc'.
      rewrite dot_not_word in Hocc'.
      apply IH; [|exact Hocc']. rewrite app_length in Hn. cbn [length] in Hn. lia.
    + f_equal. apply IH; [lia|exact Hocc'].
Qed.

(* ---- the boundary property survives a replacement ---- *)
Lemma is_prefix_nil_r : forall t, is_prefix t [] = true -> t = [].
Proof. intros [|c t] H; [reflexivity|discriminate]. Qed.

(* a dot-free text that is a prefix up to a dot is a prefix whatever follows *)
Lemma is_prefix_before_dot : forall a t' Z W, ~ In dot t' ->
  is_prefix t' (a ++ dot :: Z) = true -> is_prefix t' (a ++ W) = true.
Proof.
  induction a as [|x a IH]; intros t' Z W Hd H; cbn [app] in *.
  - destruct t' as [|c t'']; [reflexivity|]. cbn [is_prefix] in H. apply andb_true_iff in H.
    destruct H as [H _]. apply aeqb_true in H. subst c. exfalso. apply Hd. left. reflexivity.
  - destruct t' as [|c t'']; [reflexivity|]. cbn [is_prefix] in *. apply andb_true_iff in H.
    destruct H as [H1 H2]. rewrite H1. cbn [andb]. apply (IH t'' Z W); [|exact H2].
    intros Hin. apply Hd. right. exact Hin.
Qed.

Lemma is_prefix_rep : forall t u, tokP t u -> forall n r t', length r < n -> ~ In dot t' ->
  is_prefix t' (rep t u r) = true -> is_prefix t' r = true.
Proof.
  intros t u Ht. induction n as [|n IH]; intros r t' Hn Hd H; [lia|].
  destruct t' as [|c' t'']; [reflexivity|].
  destruct r as [|c r]; [rewrite rep_nil in H; discriminate|]. cbn [length] in Hn.
  destruct (is_prefix t (c :: r)) eqn:Ep.
  - apply prefix_cases in Ep. destruct Ep as [rest Ex]. rewrite Ex in *.
    rewrite rep_occ in H by (apply (tokP_ne _ _ Ht)).
    destruct Ht as [c0 ds f Hc Hds Hf Et Eu]. subst t u.
    replace ((c0 :: ds ++ dot :: f) ++ rep (c0 :: ds ++ underscore :: f) (c0 :: ds ++ dot :: f) rest)
      with ((c0 :: ds) ++ dot :: (f ++ rep (c0 :: ds ++ underscore :: f) (c0 :: ds ++ dot :: f) rest)) in H
      by (cbn [app]; rewrite <- app_assoc; reflexivity).
    replace ((c0 :: ds ++ underscore :: f) ++ rest) with ((c0 :: ds) ++ underscore :: f ++ rest)
      by (cbn [app]; rewrite <- app_assoc; reflexivity).
    apply (is_prefix_before_dot _ _ _ _ Hd H).
  - rewrite rep_step in H by exact Ep. cbn [is_prefix] in *. apply andb_true_iff in H.
    destruct H as [H1 H2]. rewrite H1. cbn [andb]. apply (IH r t''); [lia| |exact H2].
    intros Hin. apply Hd. right. exact Hin.
Qed.
Lemma is_prefix_app_rep : forall t u, tokP t u -> forall a r t', ~ In dot t' ->
  is_prefix t' (a ++ rep t u r) = true -> is_prefix t' (a ++ r) = true.
Proof.
  intros t u Ht. induction a as [|x a IH]; intros r t' Hd H; cbn [app] in *.
  - apply (is_prefix_rep t u Ht (S (length r))); [lia|exact Hd|exact H].
  - destruct t' as [|c t'']; [reflexivity|]. cbn [is_prefix] in *. apply andb_true_iff in H.
    destruct H as [H1 H2]. rewrite H1. cbn [andb]. apply IH; [|exact H2].
    intros Hin. apply Hd. right. exact Hin.
Qed.

(* positions inside a segment `a` keep the property when what follows changes
   in a way that creates no new prefix *)
Lemma inner_transfer : forall T a pw Z Z',
  (forall t' a', In t' T -> is_prefix t' (a' ++ Z') = true -> is_prefix t' (a' ++ Z) = true) ->
  no_inner_occ T pw (a ++ Z) = true -> no_inner_occ T (pw_after pw a) Z' = true ->
  no_inner_occ T pw (a ++ Z') = true.
Proof.
  intros T. induction a as [|c a IH]; intros pw Z Z' Himp H HZ'; [exact HZ'|].
  cbn [app no_inner_occ pw_after] in *. apply andb_true_iff in H. destruct H as [H1 H2].
  apply andb_true_iff. split; [|apply (IH _ Z Z'); assumption].
  destruct pw; [|reflexivity]. cbn [negb orb] in *. rewrite forallb_forall in *.
  intros t' Hin. specialize (H1 t' Hin). apply negb_true_iff in H1. apply negb_true_iff.
  destruct (is_prefix t' (c :: a ++ Z')) eqn:E; [|reflexivity].
  pose proof (Himp t' (c :: a) Hin E) as H3. cbn [app] in H3. rewrite H3 in H1. discriminate.
Qed.

Definition dotfree_ne (T : list text) : Prop := forall t', In t' T -> ~ In dot t' /\ t' <> [].

Lemma no_inner_occ_rep : forall T t u, tokP t u -> In t T -> dotfree_ne T ->
  forall n x pw, length x < n -> no_inner_occ T pw x = true -> no_inner_occ T pw (rep t u x) = true.
Proof.
  intros T t u Ht Hin HT. induction n as [|n IH]; intros x pw Hn Hocc; [lia|].
  destruct x as [|c r]; [reflexivity|]. cbn [length] in Hn.
  destruct (is_prefix t (c :: r)) eqn:Ep.
  - destruct pw; [rewrite (no_inner_occ_head T c r t Hocc Hin) in Ep; discriminate|].
    apply prefix_cases in Ep. destruct Ep as [rest Ex]. rewrite Ex in *.
    rewrite rep_occ by (apply (tokP_ne _ _ Ht)).
    assert (Hlen : length rest < n).
    { assert (length (t ++ rest) = S (length r)) by (rewrite <- Ex; reflexivity).
      rewrite app_length in H. pose proof (tokP_ne _ _ Ht). destruct t; [contradiction|cbn [length] in H; lia]. }
    pose proof (tokP_words _ _ Ht) as Hw. pose proof (tokP_ne _ _ Ht) as Hne.
    destruct Ht as [c0 ds f Hc Hds Hf Et Eu].
    assert (Ht' : tokP t u) by (apply (TokP _ _ c0 ds f); assumption).
    (* old: (c0 ds) _ f rest ; new: (c0 ds) . f (rep rest) *)
    assert (Hrest : no_inner_occ T true (rep t u rest) = true).
    { apply IH; [exact Hlen|]. apply no_inner_occ_app in Hocc.
      rewrite (pw_after_words t false Hne Hw) in Hocc. exact Hocc. }
    subst t u.
    replace ((c0 :: ds ++ underscore :: f) ++ rest) with ((c0 :: ds) ++ underscore :: f ++ rest) in Hocc
      by (cbn [app]; rewrite <- app_assoc; reflexivity).
    replace ((c0 :: ds ++ dot :: f) ++ rep (c0 :: ds ++ underscore :: f) (c0 :: ds ++ dot :: f) rest)
      with ((c0 :: ds) ++ dot :: f ++ rep (c0 :: ds ++ underscore :: f) (c0 :: ds ++ dot :: f) rest)
      by (cbn [app]; rewrite <- app_assoc; reflexivity).
    set (R := rep (c0 :: ds ++ underscore :: f) (c0 :: ds ++ dot :: f) rest) in *.
    (* the field segment *)
    assert (Hf_seg : no_inner_occ T false (f ++ R) = true).
    { apply (inner_transfer T f false rest R).
      - intros t' a' Ht'in Hp. apply (is_prefix_app_rep _ _ Ht' a' rest t'); [apply HT, Ht'in|exact Hp].
      - pose proof (no_inner_occ_app T ((c0 :: ds) ++ [underscore]) false (f ++ rest)) as Hx.
        rewrite <- app_assoc in Hx. cbn [app] in Hx. specialize (Hx Hocc).
        cbn [pw_after] in Hx. rewrite pw_after_app in Hx. cbn [pw_after] in Hx.
        rewrite us_is_word in Hx. apply no_inner_occ_weaken, Hx.
      - rewrite (pw_after_words f false); [exact Hrest| |apply f_ok_words, Hf].
        intros E. subst f. discriminate. }
    (* the prefix segment *)
    apply (inner_transfer T (c0 :: ds) false (underscore :: f ++ rest) (dot :: f ++ R)).
    + intros t' a' Ht'in Hp. apply (is_prefix_before_dot a' t' (f ++ R)); [apply HT, Ht'in|exact Hp].
    + exact Hocc.
    + rewrite (pw_after_words (c0 :: ds) false); [|discriminate|].
      2:{ cbn [forallb]. rewrite (rp_is_word _ Hc). apply digits_words, Hds. }
      cbn [no_inner_occ negb orb]. apply andb_true_iff. split; [|exact Hf_seg].
      rewrite forallb_forall. intros t' Ht'in. apply negb_true_iff.
      destruct (HT t' Ht'in) as [Hd Hne']. destruct t' as [|c' t'']; [contradiction|].
      cbn [is_prefix]. destruct (Ascii.eqb c' dot) eqn:E; [|reflexivity].
      apply aeqb_true in E. subst c'. exfalso. apply Hd. left. reflexivity.
  - rewrite rep_step by exact Ep.
    change (c :: rep t u r) with ([c] ++ rep t u r). change (c :: r) with ([c] ++ r) in Hocc.
    apply (inner_transfer T [c] pw r (rep t u r)).
    + intros t' a' Ht'in Hp. apply (is_prefix_app_rep _ _ Ht a' r t'); [apply HT, Ht'in|exact Hp].
    + exact Hocc.
    + cbn [pw_after]. apply IH; [lia|]. cbn [app no_inner_occ] in Hocc.
      apply andb_true_iff in Hocc. tauto.
Qed.

(* ------------------------------------------------------------------ *)
(* the whole table, in any order                                        *)
(* ------------------------------------------------------------------ *)
Lemma table_ok_tokP : forall tb, table_ok tb = true -> Forall (fun tu => tokP (fst tu) (snd tu)) tb.
Proof.
  intros tb H. unfold table_ok in H. apply Forall_forall. rewrite forallb_forall in H.
  intros tu Hin. specialize (H _ Hin). apply andb_true_iff in H. destruct H as [H1 H2].
  apply teqb_eq in H2. rewrite H2. apply tok_ok_tokP, H1.
Qed.
Lemma tokP_dotfree : forall t u, tokP t u -> ~ In dot t /\ t <> [].
Proof.
  intros t u Ht. split; [|apply (tokP_ne _ _ Ht)]. pose proof (tokP_words _ _ Ht) as Hw.
  intros Hin. rewrite forallb_forall in Hw. apply Hw in Hin. discriminate.
Qed.

Lemma escape_apply_table_gen : forall T tb v,
  Forall (fun tu => tokP (fst tu) (snd tu)) tb -> (forall tu, In tu tb -> In (fst tu) T) ->
  dotfree_ne T -> no_inner_occ T false v = true ->
  escape_assertion (apply_table tb v) = escape_assertion v.
Proof.
  intros T tb. induction tb as [|[t u] tb IH]; intros v Htb HT Hdf Hocc; [reflexivity|].
  inversion Htb as [|x xs Htu Htb']; subst x xs. cbn [fst snd] in Htu.
  rewrite apply_table_rep. cbn [fold_left fst snd]. rewrite <- apply_table_rep.
  assert (Hin : In t T) by (apply (HT (t, u)); left; reflexivity).
  rewrite IH.
  - unfold escape_assertion. apply (esc_rep T t u Htu Hin (S (length v))); [lia|exact Hocc].
  - exact Htb'.
  - intros tu Htu'. apply HT. right. exact Htu'.
  - exact Hdf.
  - apply (no_inner_occ_rep T t u Htu Hin Hdf (S (length v))); [lia|exact Hocc].
Qed.

(* the value written by to_text is read back as the stored value *)
Theorem escape_apply_table : forall tb v, table_ok tb = true -> value_totext_ok tb v = true ->
  escape_assertion (apply_table tb v) = v.
Proof.
  intros tb v Htb Hv. unfold value_totext_ok in Hv. apply andb_true_iff in Hv. destruct Hv as [Hocc Hs].
  apply negb_true_iff in Hs. pose proof (table_ok_tokP tb Htb) as HP.
  rewrite (escape_apply_table_gen (map fst tb) tb v HP).
  - apply escape_no_site, Hs.
  - intros tu Hin. apply in_map, Hin.
  - intros t' Hin. apply in_map_iff in Hin. destruct Hin as [tu [E Hin]]. subst t'.
    rewrite Forall_forall in HP. apply (tokP_dotfree _ _ (HP _ Hin)).
  - exact Hocc.
Qed.

(* the hypotheses do not depend on the order of the table (a HashMap in the
   real code): the conclusion holds for every permutation *)
Lemma no_inner_occ_ext : forall T T' pw x, (forall t, In t T' -> In t T) ->
  no_inner_occ T pw x = true -> no_inner_occ T' pw x = true.
Proof.
  intros T T' pw x Hsub. revert pw. induction x as [|c r IH]; intros pw H; [reflexivity|].
  cbn [no_inner_occ] in *. apply andb_true_iff in H. destruct H as [H1 H2].
  rewrite (IH _ H2), andb_true_r. destruct pw; [|reflexivity]. cbn [negb orb] in *.
  rewrite forallb_forall in *. intros t Ht. apply H1, Hsub, Ht.
Qed.
Theorem escape_apply_table_any_order : forall tb tb' v,
  (forall tu, In tu tb' -> In tu tb) ->
  table_ok tb = true -> value_totext_ok tb v = true ->
  escape_assertion (apply_table tb' v) = v.
Proof.
  intros tb tb' v Hsub Htb Hv. apply escape_apply_table.
  - unfold table_ok in *. rewrite forallb_forall in *. intros tu Hin. apply Htb, Hsub, Hin.
  - unfold value_totext_ok in *. apply andb_true_iff in Hv. destruct Hv as [H1 H2].
    rewrite H2, andb_true_r. apply (no_inner_occ_ext (map fst tb)); [|exact H1].
    intros t Ht. apply in_map_iff in Ht. destruct Ht as [tu [E Hin]]. subst t. apply in_map, Hsub, Hin.
Qed.
