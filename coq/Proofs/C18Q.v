(* C18, continued: a successful reload leaves the state Synced, so the
   single-call theorems chain along sequences of reconfiguration calls. *)
From CV Require Import Model.Base Model.Effector Model.RoleGraph Model.PathMatch Model.Expr
     Model.Enforce Model.Engine Model.SpecC18.
From CV Require Import Proofs.BaseP Proofs.ExprP Proofs.ExModels Proofs.C18P.
From Coq Require Import Lia.

(* ================= K. section-wise updates ================= *)
Definition upd (sec : text) (f : amap -> amap) (Y : model) : model :=
  match assoc sec Y with Some am => assoc_set sec (f am) Y | None => Y end.

Lemma assoc_upd : forall sec f Y sec',
  assoc sec' (upd sec f Y) =
  if teqb sec' sec then option_map f (assoc sec Y) else assoc sec' Y.
Proof.
  intros sec f Y sec'. unfold upd. destruct (assoc sec Y) as [am|] eqn:Hs.
  - rewrite assoc_set_lookup. destruct (teqb sec' sec); reflexivity.
  - destruct (teqb sec' sec) eqn:E; [|reflexivity]. apply teqb_eq in E. subst. rewrite Hs. reflexivity.
Qed.

Lemma upd_upd : forall sec f g Y, upd sec f (upd sec g Y) = upd sec (fun am => f (g am)) Y.
Proof.
  intros sec f g Y. unfold upd at 1. rewrite assoc_upd, teqb_refl. unfold upd.
  destruct (assoc sec Y) as [am|]; cbn [option_map]; [|reflexivity].
  apply assoc_set_twice.
Qed.

Lemma upd_ext : forall sec f g Y,
  (forall am, assoc sec Y = Some am -> f am = g am) -> upd sec f Y = upd sec g Y.
Proof.
  intros sec f g Y H. unfold upd. destruct (assoc sec Y) as [am|]; [|reflexivity].
  rewrite (H am eq_refl). reflexivity.
Qed.

Lemma upd_id : forall sec f Y, (forall am, assoc sec Y = Some am -> f am = am) -> upd sec f Y = Y.
Proof.
  intros sec f Y H. unfold upd. destruct (assoc sec Y) as [am|] eqn:Hs; [|reflexivity].
  rewrite (H am eq_refl). apply assoc_set_id, Hs.
Qed.

Lemma assoc_set_comm : forall {A} k1 k2 (v1 v2 : A) l,
  k1 <> k2 -> assoc k1 l <> None -> assoc k2 l <> None ->
  assoc_set k1 v1 (assoc_set k2 v2 l) = assoc_set k2 v2 (assoc_set k1 v1 l).
Proof.
  intros A k1 k2 v1 v2 l Hne. induction l as [|[k v] l IH]; cbn [assoc]; [congruence|].
  intros H1 H2. cbn [assoc_set].
  destruct (teqb k1 k) eqn:E1; destruct (teqb k2 k) eqn:E2; cbn [assoc_set]; rewrite ?E1, ?E2.
  - apply teqb_eq in E1, E2. congruence.
  - reflexivity.
  - reflexivity.
  - rewrite IH; auto.
Qed.

Lemma upd_comm : forall s1 s2 f g Y, s1 <> s2 -> upd s1 f (upd s2 g Y) = upd s2 g (upd s1 f Y).
Proof.
  intros s1 s2 f g Y Hne. unfold upd at 1 3. rewrite !assoc_upd.
  assert (E12 : teqb s1 s2 = false) by (apply teqb_neq; auto).
  assert (E21 : teqb s2 s1 = false) by (apply teqb_neq; auto).
  rewrite E12, E21. unfold upd.
  destruct (assoc s1 Y) as [a1|] eqn:H1; destruct (assoc s2 Y) as [a2|] eqn:H2; try reflexivity.
  apply assoc_set_comm; [exact Hne|rewrite H1; discriminate|rewrite H2; discriminate].
Qed.

(* ---- the model operations as section updates ---- *)
Definition clr (am : amap) : amap := map (fun ka => (fst ka, with_policy (snd ka) [])) am.
Definition hcm (am : amap) : amap := map sethc am.
Definition ins_am (key : text) (fields : rule) (am : amap) : amap :=
  match assoc key am with
  | Some a => assoc_set key (with_policy a (oset_insert (a_policy a) fields)) am
  | None => am
  end.

Lemma clear_sec_upd : forall Y sec, clear_sec Y sec = upd sec clr Y.
Proof. reflexivity. Qed.

Definition hc (Y : model) : model := upd s_g hcm Y.

Lemma ins_upd : forall Y sec key fields,
  match get_ast Y sec key with
  | Some a => set_ast Y sec key (with_policy a (oset_insert (a_policy a) fields))
  | None => Y
  end = upd sec (ins_am key fields) Y.
Proof.
  intros Y sec key fields. unfold get_ast, set_ast, upd, ins_am.
  destruct (assoc sec Y) as [am|] eqn:Hs; [|reflexivity].
  destruct (assoc key am) as [a|]; [reflexivity|]. symmetry. apply assoc_set_id, Hs.
Qed.

Lemma load_line_upd : forall Y ln,
  load_line Y ln = match ln with
                   | (c :: krest) :: fields => upd [c] (ins_am (c :: krest) fields) Y
                   | _ => Y
                   end.
Proof.
  intros Y ln. unfold load_line. destruct ln as [|[|c krest] fields]; try reflexivity.
  apply ins_upd.
Qed.

Lemma load_mem_line_upd : forall Y ln,
  load_mem_line Y ln = match ln with
                       | sec :: pt :: fields => upd sec (ins_am pt fields) Y
                       | _ => Y
                       end.
Proof.
  intros Y ln. unfold load_mem_line. destruct ln as [|sec [|pt fields]]; try reflexivity.
  apply ins_upd.
Qed.

(* amap-level identities *)
Lemma map_snd_assoc_set : forall (f : assertion -> assertion) key a (am : amap),
  map (fun ka => (fst ka, f (snd ka))) (assoc_set key a am) =
  assoc_set key (f a) (map (fun ka => (fst ka, f (snd ka))) am).
Proof.
  intros f key a am. induction am as [|[k v] am IH]; cbn [assoc_set map fst snd]; [reflexivity|].
  destruct (teqb key k); cbn [map fst snd]; [reflexivity|]. rewrite IH. reflexivity.
Qed.

Lemma assoc_map_snd' : forall (f : assertion -> assertion) key (am : amap),
  assoc key (map (fun ka => (fst ka, f (snd ka))) am) = option_map f (assoc key am).
Proof.
  intros f key am. induction am as [|[k v] am IH]; cbn [map assoc fst snd]; [reflexivity|].
  destruct (teqb key k); [reflexivity|exact IH].
Qed.

Lemma hcm_ins : forall key fields am, hcm (ins_am key fields am) = ins_am key fields (hcm am).
Proof.
  intros key fields am. unfold hcm, ins_am, sethc.
  rewrite (assoc_map_snd' (fun a => with_handle a HCur)).
  destruct (assoc key am) as [a|]; cbn [option_map]; [|reflexivity].
  rewrite (map_snd_assoc_set (fun a => with_handle a HCur)). reflexivity.
Qed.

Lemma clr_ins : forall key fields am, clr (ins_am key fields am) = clr am.
Proof.
  intros key fields am. unfold ins_am. destruct (assoc key am) as [a|] eqn:Ha; [|reflexivity].
  unfold clr. rewrite (map_snd_assoc_set (fun a => with_policy a [])).
  apply assoc_set_id. rewrite (assoc_map_snd' (fun a => with_policy a [])), Ha. reflexivity.
Qed.

Lemma clr_hcm : forall am, clr (hcm am) = hcm (clr am).
Proof. intros am. unfold clr, hcm, sethc. rewrite !map_map. apply map_ext. intros [k a]. reflexivity. Qed.

Lemma clr_clr : forall am, clr (clr am) = clr am.
Proof. intros am. unfold clr. rewrite map_map. apply map_ext. intros [k a]. reflexivity. Qed.

Lemma pg_distinct : s_p <> s_g.
Proof. discriminate. Qed.

Lemma m_clear_upd : forall Y, m_clear_policy Y = upd s_g clr (upd s_p clr Y).
Proof. reflexivity. Qed.

(* F1: clearing commutes with redirecting the g handles *)
Lemma clear_hc : forall Y, m_clear_policy (hc Y) = hc (m_clear_policy Y).
Proof.
  intros Y. rewrite !m_clear_upd. unfold hc.
  rewrite (upd_comm s_p s_g clr hcm Y pg_distinct). rewrite !upd_upd.
  apply upd_ext. intros am _. apply clr_hcm.
Qed.

(* F3 *)
Lemma clear_clear : forall Y, m_clear_policy (m_clear_policy Y) = m_clear_policy Y.
Proof.
  intros Y. rewrite !m_clear_upd.
  rewrite (upd_comm s_p s_g clr clr (upd s_p clr Y) pg_distinct). rewrite !upd_upd.
  rewrite (upd_ext s_p (fun am => clr (clr am)) clr Y) by (intros; apply clr_clr).
  apply upd_ext. intros am _. apply clr_clr.
Qed.

(* F2: a line keyed in p or g is forgotten by clearing *)
Lemma clear_ins : forall Y sec key fields, pg_sec sec = true ->
  m_clear_policy (upd sec (ins_am key fields) Y) = m_clear_policy Y.
Proof.
  intros Y sec key fields Hpg. unfold pg_sec in Hpg. apply orb_true_iff in Hpg.
  rewrite !m_clear_upd. destruct Hpg as [E|E]; apply teqb_eq in E; subst sec.
  - rewrite upd_upd. rewrite (upd_ext s_p (fun am => clr (ins_am key fields am)) clr Y);
      [reflexivity|]. intros; apply clr_ins.
  - rewrite (upd_comm s_p s_g clr (ins_am key fields) Y pg_distinct). rewrite upd_upd.
    apply upd_ext. intros; apply clr_ins.
Qed.

(* F4: loading commutes with redirecting the g handles *)
Lemma hc_ins : forall Y sec key fields,
  hc (upd sec (ins_am key fields) Y) = upd sec (ins_am key fields) (hc Y).
Proof.
  intros Y sec key fields. unfold hc. destruct (teqb s_g sec) eqn:E.
  - apply teqb_eq in E. subst sec. rewrite !upd_upd. apply upd_ext. intros; apply hcm_ins.
  - apply teqb_neq in E. apply upd_comm. exact E.
Qed.

Lemma hc_load_line : forall Y ln, hc (load_line Y ln) = load_line (hc Y) ln.
Proof.
  intros Y ln. rewrite !load_line_upd. destruct ln as [|[|c krest] fields]; try reflexivity.
  apply hc_ins.
Qed.

Lemma hc_load_mem_line : forall Y ln, hc (load_mem_line Y ln) = load_mem_line (hc Y) ln.
Proof.
  intros Y ln. rewrite !load_mem_line_upd. destruct ln as [|sec [|pt fields]]; try reflexivity.
  apply hc_ins.
Qed.

Lemma clear_load_line : forall Y ln, pg_text_line ln = true ->
  m_clear_policy (load_line Y ln) = m_clear_policy Y.
Proof.
  intros Y ln Hpg. rewrite load_line_upd. destruct ln as [|[|c krest] fields]; try reflexivity.
  apply clear_ins. exact Hpg.
Qed.

Lemma clear_load_mem_line : forall Y ln, pg_mem_line ln = true ->
  m_clear_policy (load_mem_line Y ln) = m_clear_policy Y.
Proof.
  intros Y ln Hpg. rewrite load_mem_line_upd. destruct ln as [|sec [|pt fields]]; try reflexivity.
  apply clear_ins. exact Hpg.
Qed.

Lemma fold_commute : forall (f : model -> rule -> model) (g : model -> model) l,
  (forall Y ln, In ln l -> g (f Y ln) = f (g Y) ln) ->
  forall Y, g (fold_left f l Y) = fold_left f l (g Y).
Proof.
  intros f g l. induction l as [|ln l IH]; intros H Y; cbn [fold_left]; [reflexivity|].
  rewrite IH; [|intros; apply H; right; assumption]. rewrite H; [reflexivity|left; reflexivity].
Qed.

Lemma fold_absorb : forall (f : model -> rule -> model) (g : model -> model) l,
  (forall Y ln, In ln l -> g (f Y ln) = g Y) ->
  forall Y, g (fold_left f l Y) = g Y.
Proof.
  intros f g l. induction l as [|ln l IH]; intros H Y; cbn [fold_left]; [reflexivity|].
  rewrite IH; [|intros; apply H; right; assumption]. apply H. left. reflexivity.
Qed.

(* an unscripted adapter: the loaded model commutes with hc, and clearing
   forgets what was loaded *)
Lemma ad_load_hc : forall a X a' X' r, ad_unscripted a = true ->
  ad_load a X = (a', X', r) -> ad_load a (hc X) = (a', hc X', r).
Proof.
  intros a X a' X' r Hu. destruct a; try discriminate; cbn [ad_load ad0_load];
    intros H; inversion H; subst; try reflexivity.
  - rewrite (fold_commute load_mem_line hc); [reflexivity|]. intros; apply hc_load_mem_line.
  - rewrite (fold_commute load_line hc); [reflexivity|]. intros; apply hc_load_line.
  - rewrite (fold_commute load_line hc); [reflexivity|]. intros; apply hc_load_line.
Qed.

Lemma ad_load_clear : forall a X a' X' r, ad_unscripted a = true -> pg_lines a = true ->
  ad_load a X = (a', X', r) -> m_clear_policy X' = m_clear_policy X.
Proof.
  intros a X a' X' r Hu Hpg. destruct a; try discriminate; cbn [ad_load ad0_load pg_lines] in *;
    intros H; inversion H; subst; try reflexivity; rewrite forallb_forall in Hpg.
  - apply (fold_absorb load_mem_line m_clear_policy). intros Y ln Hin.
    apply clear_load_mem_line, Hpg, Hin.
  - apply (fold_absorb load_line m_clear_policy). intros Y ln Hin.
    apply clear_load_line, Hpg, Hin.
  - apply (fold_absorb load_line m_clear_policy). intros Y ln Hin.
    apply clear_load_line, Hpg, Hin.
Qed.

Lemma ad_load_lines : forall a X a' X' r, ad_unscripted a = true ->
  ad_load a X = (a', X', r) -> ad_unscripted a' = true /\ pg_lines a' = pg_lines a.
Proof.
  intros a X a' X' r Hu. destruct a; try discriminate; cbn [ad_load ad0_load];
    intros H; inversion H; subst; split; reflexivity.
Qed.

(* a successful build is `hc` of its input *)
Lemma build_of_hc : forall Y md' m', build_of Y = (md', m', LOk) -> md' = hc Y.
Proof.
  intros Y md' m'. unfold build_of, hc, upd. destruct (assoc s_g Y) as [am|].
  - destruct (build_links_am am []) as [[am' m2] e2] eqn:Hb. intros H.
    assert (He : e2 = LOk) by congruence. subst e2.
    rewrite (build_links_am_ok _ _ _ _ Hb) in H. inversion H. reflexivity.
  - intros H; inversion H; reflexivity.
Qed.

(* ================= L. a reload leaves the state Synced ================= *)
Theorem load_build_synced : forall a md0 ad md md' m',
  ad_unscripted a = true -> pg_lines a = true ->
  ad_load a (m_clear_policy md0) = (ad, md, LROk) ->
  build_of md = (md', m', LOk) ->
  ad_load ad (m_clear_policy md') = (ad, md', LROk) /\ build_of md' = (md', m', LOk) /\
  ad_is_filtered ad = false.
Proof.
  intros a md0 ad md md' m' Hu Hpg Hl Hb.
  destruct (ad_load_unscripted _ _ _ _ _ Hu Hl) as (_ & Hnf & Hl2).
  destruct (ad_load_lines _ _ _ _ _ Hu Hl) as (Hu' & Hpg'). rewrite Hpg in Hpg'.
  pose proof (build_of_hc _ _ _ Hb) as Hmd'. subst md'.
  assert (Hc : m_clear_policy (hc md) = hc (m_clear_policy md0)).
  { rewrite clear_hc, (ad_load_clear _ _ _ _ _ Hu Hpg Hl), clear_clear. reflexivity. }
  rewrite Hc. split; [|split; [|exact Hnf]].
  - apply (ad_load_hc ad _ ad md LROk Hu' Hl2).
  - eapply build_of_idem, Hb.
Qed.

Theorem reload_synced : forall s s' b,
  e_auto_build s = true -> ad_unscripted (e_adapter s) = true -> pg_lines (e_adapter s) = true ->
  step_load s = (s', Ok b) ->
  Synced s' /\ ad_is_filtered (e_adapter s') = false /\
  ad_unscripted (e_adapter s') = true /\ pg_lines (e_adapter s') = true.
Proof.
  intros s s' b Hab Hu Hpg Hstep. apply step_load_ok in Hstep; [|exact Hab].
  destruct Hstep as (ad & md & md' & m' & Hl & Hb & Hc).
  destruct (load_build_synced _ _ _ _ _ _ Hu Hpg Hl Hb) as (H1 & H2 & H3).
  destruct (ad_load_lines _ _ _ _ _ Hu Hl) as (Hu' & Hpg').
  assert (Hm : e_model s' = md') by (apply (f_equal k_model) in Hc; exact Hc).
  assert (Ha : e_adapter s' = ad) by (apply (f_equal k_adapter) in Hc; exact Hc).
  assert (Hr : f_rm (e_fs s') = m') by (apply (f_equal k_rm) in Hc; exact Hc).
  rewrite Ha. split; [|split; [exact H3|split; [exact Hu'|congruence]]].
  exists ad, md'. rewrite Hm, Ha, Hr. auto.
Qed.

(* ================= M. chaining ================= *)
Definition Settled (s : estate) : Prop :=
  Synced s /\ e_auto_build s = true /\ ad_unscripted (e_adapter s) = true /\
  pg_lines (e_adapter s) = true /\ ad_is_filtered (e_adapter s) = false /\
  gdefs_ok (e_model s) = true /\ gfuns_current (f_gfuns (e_fs s)) (e_model s) = true.

Lemma reg_keys_gdefs : forall ks gf G, reg_keys ks gf = (G, LOk) ->
  forallb (fun kc : text * nat => Nat.eqb (snd kc) 2 || Nat.eqb (snd kc) 3) ks = true.
Proof.
  induction ks as [|[k c] ks IH]; intros gf G; cbn [reg_keys forallb snd]; [reflexivity|].
  destruct (Nat.eqb c 2); [intros H; rewrite (IH _ _ H); reflexivity|].
  destruct (Nat.eqb c 3); [intros H; rewrite (IH _ _ H); reflexivity|discriminate].
Qed.

Lemma reg_keys_current : forall ks gf G, reg_keys ks gf = (G, LOk) ->
  forallb (fun k => match find_gfun k G with Some HCur => true | _ => false end) ks = true.
Proof.
  intros ks gf G H. apply forallb_forall. intros k Hk.
  rewrite (find_reg_keys ks gf G H k). apply memb_gkey_In in Hk. rewrite Hk. reflexivity.
Qed.

Lemma gkeys_load_build : forall a X ad md md' m' e,
  ad_load a (m_clear_policy X) = (ad, md, LROk) -> build_of md = (md', m', e) ->
  model_gkeys md' = model_gkeys X.
Proof.
  intros a X ad md md' m' e Hl Hb.
  rewrite (model_gkeys_build_of _ _ _ _ Hb), (model_gkeys_ad_load _ _ _ _ _ Hl).
  apply model_gkeys_clear.
Qed.

(* the constructor establishes the invariant *)
Theorem settled_new : forall d a w s b,
  new_enforcer d a w = (s, Ok b) ->
  ad_unscripted a = true -> pg_lines a = true -> ad_is_filtered a = false -> Settled s.
Proof.
  intros d a w s b Hnew Hu Hpg Hnf. unfold new_enforcer, new_raw in Hnew.
  match type of Hnew with context [register_g_functions ?st] =>
    destruct (register_g_functions st) as [sr e] eqn:Hr end.
  apply register_g_functions_core in Hr. cbn [e_model e_fs f_gfuns] in Hr. unfold reg_of in Hr.
  destruct Hr as [He Hc]. destruct e as [|c]; [|discriminate].
  assert (Hsa : e_adapter sr = a) by (apply (f_equal k_adapter) in Hc; exact Hc).
  assert (Hsm : e_model sr = d_model d) by (apply (f_equal k_model) in Hc; exact Hc).
  assert (Hsb : e_auto_build sr = true) by (apply (f_equal k_auto_build) in Hc; exact Hc).
  assert (Hsg : f_gfuns (e_fs sr) = fst (reg_keys (model_gkeys (d_model d)) []))
    by (apply (f_equal k_gfuns) in Hc; exact Hc).
  rewrite Hsa, Hnf in Hnew.
  pose proof Hnew as Hload. apply step_load_ok in Hload; [|exact Hsb].
  destruct Hload as (ad & md & md' & m' & Hl & Hb & Hc0). rewrite Hsa, Hsm in Hl.
  assert (Hu' : ad_unscripted (e_adapter sr) = true) by (rewrite Hsa; exact Hu).
  assert (Hpg' : pg_lines (e_adapter sr) = true) by (rewrite Hsa; exact Hpg).
  destruct (reload_synced sr s b Hsb Hu' Hpg' Hnew) as (H1 & H2 & H3 & H4).
  assert (Hm : e_model s = md') by (apply (f_equal k_model) in Hc0; exact Hc0).
  assert (Hg : f_gfuns (e_fs s) = f_gfuns (e_fs sr)) by (apply (f_equal k_gfuns) in Hc0; exact Hc0).
  assert (Hab : e_auto_build s = true) by (apply (f_equal k_auto_build) in Hc0; exact Hc0).
  pose proof (gkeys_load_build _ _ _ _ _ _ _ Hl Hb) as Hks.
  destruct (reg_keys (model_gkeys (d_model d)) []) as [G e0] eqn:HG. cbn [fst snd] in *. subst e0.
  repeat split; try assumption.
  - unfold gdefs_ok. rewrite Hm, Hks. eapply reg_keys_gdefs, HG.
  - unfold gfuns_current. rewrite Hm, Hks, Hg, Hsg. eapply reg_keys_current, HG.
Qed.

(* every successful reconfiguration call (and reload, and toggle other than
   switching auto-build off) preserves it *)
Theorem settled_step : forall s o s' b,
  Settled s -> reconf_ok o = true -> step s o = (s', Ok b) -> Settled s'.
Proof.
  intros s o s' b (Hsy & Hab & Hu & Hpg & Hnf & Hgd & Hgc) Hok Hstep.
  destruct o; cbn [reconf_ok] in Hok; try discriminate.
  - (* OLoad *)
    cbn [step] in Hstep.
    pose proof Hstep as Hload. apply step_load_ok in Hload; [|exact Hab].
    destruct Hload as (ad & md & md' & m' & Hl & Hb & Hc).
    destruct (reload_synced s s' b Hab Hu Hpg Hstep) as (H1 & H2 & H3 & H4).
    assert (Hm : e_model s' = md') by (apply (f_equal k_model) in Hc; exact Hc).
    assert (Hg : f_gfuns (e_fs s') = f_gfuns (e_fs s)) by (apply (f_equal k_gfuns) in Hc; exact Hc).
    assert (Hab' : e_auto_build s' = true) by (apply (f_equal k_auto_build) in Hc; exact Hc).
    pose proof (gkeys_load_build _ _ _ _ _ _ _ Hl Hb) as Hks.
    repeat split; try assumption.
    + unfold gdefs_ok in *. rewrite Hm, Hks. exact Hgd.
    + unfold gfuns_current in *. rewrite Hm, Hks, Hg. exact Hgc.
  - (* OSetModel *)
    destruct (set_model_core s d s' b Hab Hstep) as (ad & md & md' & m' & G & Hl & Hb & HG & Hc).
    destruct (load_build_synced _ _ _ _ _ _ Hu Hpg Hl Hb) as (L1 & L2 & L3).
    destruct (ad_load_lines _ _ _ _ _ Hu Hl) as (Hu' & Hpg').
    assert (Hm : e_model s' = md') by (apply (f_equal k_model) in Hc; exact Hc).
    assert (Ha : e_adapter s' = ad) by (apply (f_equal k_adapter) in Hc; exact Hc).
    assert (Hr : f_rm (e_fs s') = m') by (apply (f_equal k_rm) in Hc; exact Hc).
    assert (Hg : f_gfuns (e_fs s') = G) by (apply (f_equal k_gfuns) in Hc; exact Hc).
    assert (Hab' : e_auto_build s' = true) by (apply (f_equal k_auto_build) in Hc; exact Hc).
    pose proof (gkeys_load_build _ _ _ _ _ _ _ Hl Hb) as Hks.
    unfold Settled. rewrite Ha, Hm, Hg.
    split; [exists ad, md'; rewrite Hm, Ha, Hr; auto|].
    split; [exact Hab'|]. split; [exact Hu'|]. split; [congruence|]. split; [exact L3|]. split.
    + unfold gdefs_ok. rewrite Hks. eapply reg_keys_gdefs, HG.
    + unfold gfuns_current. rewrite Hks. eapply reg_keys_current, HG.
  - (* OSetAdapter *)
    apply andb_true_iff in Hok. destruct Hok as [Hok Hnfa]. apply andb_true_iff in Hok.
    destruct Hok as [Hua Hpga]. apply negb_true_iff in Hnfa.
    cbn [step] in Hstep. unfold step_set_adapter in Hstep.
    pose proof Hstep as Hload. apply step_load_ok in Hload; [|exact Hab].
    destruct Hload as (ad & md & md' & m' & Hl & Hb & Hc).
    cbn [upd_adapter e_adapter e_model e_fs] in Hl, Hc.
    destruct (reload_synced (upd_adapter s a) s' b Hab Hua Hpga Hstep) as (H1 & H2 & H3 & H4).
    assert (Hm : e_model s' = md') by (apply (f_equal k_model) in Hc; exact Hc).
    assert (Hg : f_gfuns (e_fs s') = f_gfuns (e_fs s)) by (apply (f_equal k_gfuns) in Hc; exact Hc).
    assert (Hab' : e_auto_build s' = true) by (apply (f_equal k_auto_build) in Hc; exact Hc).
    pose proof (gkeys_load_build _ _ _ _ _ _ _ Hl Hb) as Hks.
    repeat split; try assumption.
    + unfold gdefs_ok in *. rewrite Hm, Hks. exact Hgd.
    + unfold gfuns_current in *. rewrite Hm, Hks, Hg. exact Hgc.
  - (* OSetRoleManager *)
    cbn [step] in Hstep.
    assert (Hbuilt : Built (e_model s) (f_rm (e_fs s))).
    { destruct Hsy as (ad & md & _ & Hb & _). eapply build_of_idem, Hb. }
    destruct (set_role_manager_core s maxd s' (Ok b) Hab Hbuilt Hstep) as [Hr Hc].
    unfold reg_of in Hr, Hc.
    destruct (reg_keys (model_gkeys (e_model s)) (frozen_gfuns s)) as [G e] eqn:HG.
    cbn [fst snd] in *. assert (He : e = LOk) by (destruct e; [reflexivity|discriminate]). subst e.
    assert (Hm : e_model s' = e_model s) by (apply (f_equal k_model) in Hc; exact Hc).
    assert (Ha : e_adapter s' = e_adapter s) by (apply (f_equal k_adapter) in Hc; exact Hc).
    assert (Hrm : f_rm (e_fs s') = f_rm (e_fs s)) by (apply (f_equal k_rm) in Hc; exact Hc).
    assert (Hg : f_gfuns (e_fs s') = G) by (apply (f_equal k_gfuns) in Hc; exact Hc).
    assert (Hab' : e_auto_build s' = true) by (apply (f_equal k_auto_build) in Hc; exact Hc).
    unfold Settled. rewrite Ha, Hm, Hg.
    split; [destruct Hsy as (ad & md & Hl & Hb & Hfl); exists ad, md; rewrite Hm, Ha, Hrm; auto|].
    repeat split; try assumption.
    unfold gfuns_current. eapply reg_keys_current, HG.
  - (* OSetEffector *)
    cbn [step] in Hstep. inversion Hstep; subst. repeat split; assumption.
  - (* OAddFunction *)
    cbn [step] in Hstep. inversion Hstep; subst. clear Hstep.
    split; [destruct Hsy as (ad & md & Hl & Hb & Hfl); exists ad, md; auto|].
    repeat split; assumption.
  - (* OEnableEnforce *)
    cbn [step] in Hstep. inversion Hstep; subst. clear Hstep.
    split; [destruct Hsy as (ad & md & Hl & Hb & Hfl); exists ad, md; auto|].
    repeat split; assumption.
  - (* OEnableAutoSave *)
    cbn [step] in Hstep. inversion Hstep; subst. clear Hstep.
    split; [destruct Hsy as (ad & md & Hl & Hb & Hfl); exists ad, md; auto|].
    repeat split; assumption.
  - (* OEnableAutoBuild true *)
    destruct b0; [|discriminate]. cbn [step] in Hstep. inversion Hstep; subst. clear Hstep.
    split; [destruct Hsy as (ad & md & Hl & Hb & Hfl); exists ad, md; auto|].
    repeat split; assumption.
  - (* OEnableAutoNotify *)
    cbn [step] in Hstep. inversion Hstep; subst. clear Hstep.
    split; [destruct Hsy as (ad & md & Hl & Hb & Hfl); exists ad, md; auto|].
    repeat split; assumption.
Qed.

(* along every sequence of such calls that all succeed *)
Theorem settled_run : forall ops s,
  Settled s -> forallb reconf_ok ops = true -> run_all_ok s ops = true ->
  Settled (run_ops s ops).
Proof.
  induction ops as [|o ops IH]; intros s Hs Hok Hrun; [exact Hs|].
  cbn [forallb] in Hok. apply andb_true_iff in Hok. destruct Hok as [Ho Hr].
  cbn [run_all_ok] in Hrun. unfold run_ops. cbn [fold_left].
  destruct (step s o) as [s' r] eqn:Hstep. destruct r as [b|e|]; try discriminate.
  cbn [fst]. apply (IH s'); [|exact Hr|exact Hrun].
  eapply settled_step; eassumption.
Qed.

(* a settled state is observably the enforcer built now from its own model
   store, adapter and components, provided nothing it can evaluate calls a
   leftover role function *)
Theorem settled_fresh : forall ptab s,
  Settled s ->
  let safe := fun f => safe_name (f_gfuns (e_fs s)) (e_model s) f = true in
  (forall k m, assoc k (e_mexprs s) = Some m -> calls_in safe m) ->
  (forall t e', ptab t = Some e' -> calls_in safe e') ->
  exists sf, fresh_from (cur_def s) (e_adapter s) s = (sf, Ok true) /\ obs_eq ptab s sf.
Proof.
  intros ptab s (Hsy & Hab & Hu & Hpg & Hnf & Hgd & Hgc) safe Hmx Hpt.
  apply (synced_fresh_calls ptab s Hsy Hnf Hgd safe); try assumption.
  apply gf_exact_on_current, Hgc.
Qed.

(* MAIN for sequences: from a freshly constructed enforcer, after any sequence
   of successful reconfiguration calls, the enforcer is observably the one
   built now *)
Theorem reconfigured_run_fresh : forall ptab d a w s0 b0 ops,
  new_enforcer d a w = (s0, Ok b0) ->
  ad_unscripted a = true -> pg_lines a = true -> ad_is_filtered a = false ->
  forallb reconf_ok ops = true -> run_all_ok s0 ops = true ->
  let s := run_ops s0 ops in
  let safe := fun f => safe_name (f_gfuns (e_fs s)) (e_model s) f = true in
  (forall k m, assoc k (e_mexprs s) = Some m -> calls_in safe m) ->
  (forall t e', ptab t = Some e' -> calls_in safe e') ->
  exists sf, fresh_from (cur_def s) (e_adapter s) s = (sf, Ok true) /\ obs_eq ptab s sf.
Proof.
  intros ptab d a w s0 b0 ops Hnew Hu Hpg Hnf Hok Hrun s safe Hmx Hpt.
  apply settled_fresh; try assumption.
  apply settled_run; try assumption.
  eapply settled_new; eassumption.
Qed.

(* ================= N. examples ================= *)
Definition x_ops : list op :=
  [OSetModel rbac2_def; OSetRoleManager 3; OSetAdapter (mem x_lines2);
   OAddFunction (T "f") UTrue; OSetEffector; OSetModel rbac_def].

(* three kinds of reconfiguration in a row, ending with a switch back to the
   model without g2 (whose role function stays registered) *)
Lemma ex_sequence : 
  let s := run_ops x_rbac x_ops in
  exists sf, fresh_from (cur_def s) (e_adapter s) s = (sf, Ok true) /\ obs_eq no_ptab s sf.
Proof.
  apply (reconfigured_run_fresh no_ptab rbac_def (mem x_lines) false x_rbac true x_ops).
  - vm_compute. reflexivity.
  - reflexivity.
  - vm_compute. reflexivity.
  - reflexivity.
  - vm_compute. reflexivity.
  - vm_compute. reflexivity.
  - assert (Hx : e_mexprs (run_ops x_rbac x_ops) = d_mexprs rbac_def) by (vm_compute; reflexivity).
    rewrite Hx. intros k m H. cbn [rbac_def d_mexprs assoc] in H.
    destruct (teqb k s_m); [|discriminate]. inversion H; subst m. clear H.
    intros f Hf. cbn in Hf. destruct Hf as [<-|[]]. vm_compute. reflexivity.
  - intros t e' H. discriminate.
Qed.

Lemma ex_sequence_leftover :
  no_leftover (f_gfuns (e_fs (run_ops x_rbac x_ops))) (e_model (run_ops x_rbac x_ops)) = false /\
  f_rm_max (e_fs (run_ops x_rbac x_ops)) = 3.
Proof. vm_compute. split; reflexivity. Qed.

(* the quirk behind `pg_lines` and `clean_def`: a line keyed r (or e, m) is
   inserted into that assertion's rule set, and no load, clear or
   reconfiguration ever empties it. The state is still Synced (pg_lines is a
   hypothesis of convenience), but the rules of the OLD adapter survive a
   set_adapter, while an enforcer built from the re-parsed model has none *)
Definition x_rlines : list rule :=
  [[s_r; s_r; alice]; pl admin data1 read; [s_r; s_r; bob]; gl alice admin; [s_r; s_r; alice]].
Lemma ex_stale_rules_outside_pg :
  let s1 := mk rbac_def (mem x_rlines) in
  let s2 := fst (step s1 (OSetAdapter (mem x_lines))) in
  pg_lines (mem x_rlines) = false /\ syncedb s1 = true /\ syncedb s2 = true /\
  ask no_ptab s2 (QGetPolicy s_r s_r) = AnsRules [[bob]; [alice]] /\
  ask no_ptab (fst (fresh_from (cur_def s1) (mem x_lines) s2)) (QGetPolicy s_r s_r)
    = AnsRules [[bob]; [alice]] /\
  ask no_ptab (fst (fresh_of s2)) (QGetPolicy s_r s_r) = AnsRules [].
Proof. vm_compute. repeat split; reflexivity. Qed.

(* --- hypothesis gfuns_current: a FAILED set_role_manager (here the rebuild
   stumbles over a malformed grouping rule) has already replaced the manager
   but not re-registered the role functions: g() keeps consulting the replaced
   manager. After a later, successful set_adapter with entirely different
   content the decisions still follow the OLD links (alice -> admin), while
   get_role_manager().has_link and a fresh enforcer follow the new ones
   (bob -> admin) --- *)
Definition x_broken :=
  fst (step (run_ops x_rbac [OEnableAutoBuild false; OAdd s_g s_g [bob]; OEnableAutoBuild true])
            (OSetRoleManager 5)).
Definition x_lines3 : list rule := [pl admin data1 read; gl bob admin].
Lemma set_adapter_needs_gfuns_current :
  let s' := fst (step x_broken (OSetAdapter (mem x_lines3))) in
  let sf := fst (fresh_from (cur_def x_broken) (mem x_lines3) s') in
  snd (step (run_ops x_rbac [OEnableAutoBuild false; OAdd s_g s_g [bob]; OEnableAutoBuild true])
            (OSetRoleManager 5)) = Err EPolicy /\
  gfuns_current (f_gfuns (e_fs x_broken)) (e_model x_broken) = false /\
  gdefs_ok (e_model x_broken) = true /\
  no_leftover (f_gfuns (e_fs x_broken)) (e_model x_broken) = true /\
  e_auto_build x_broken = true /\
  snd (step x_broken (OSetAdapter (mem x_lines3))) = Ok true /\
  enforce no_ptab s' (req alice data1 read) = Ok true /\
  enforce no_ptab s' (req bob data1 read) = Ok false /\
  ask no_ptab s' (QHasLink alice admin None) = AnsBool false /\
  ask no_ptab s' (QHasLink bob admin None) = AnsBool true /\
  snd (fresh_from (cur_def x_broken) (mem x_lines3) s') = Ok true /\
  enforce no_ptab sf (req alice data1 read) = Ok false /\
  enforce no_ptab sf (req bob data1 read) = Ok true.
Proof. vm_compute. repeat split; reflexivity. Qed.
