(* Proofs for C07: tenants are isolated in domain models. *)
From CV Require Import Model.Base Model.Effector Model.RoleGraph Model.PathMatch Model.Expr
     Model.Enforce Model.Engine Model.SpecC13 Model.SpecC07.
From CV Require Import Proofs.ListAux Proofs.BaseP Proofs.EffectorP Proofs.RoleGraphP
     Proofs.ExprP Proofs.EnforceP Proofs.C13P.
From Coq Require Import Lia Relations.

(* ================= A. filters are blind to foreign rules ================= *)

Lemma filter_snoc_out {A} (f : A -> bool) l x : f x = false -> filter f (l ++ [x]) = filter f l.
Proof.
  intros H. rewrite filter_app. cbn [filter]. rewrite H. apply app_nil_r.
Qed.

Lemma filter_ins_new_out (f : rule -> bool) : forall rs l,
  (forall r, In r rs -> f r = false) -> filter f (fold_left ins_new rs l) = filter f l.
Proof.
  induction rs as [|r rs IH]; intros l H; cbn [fold_left]; [reflexivity|].
  rewrite IH by (intros x Hx; apply H; right; exact Hx).
  unfold ins_new. destruct (rmem r l); [reflexivity|].
  apply filter_snoc_out, H. left. reflexivity.
Qed.

Lemma filter_rremove_out (f : rule -> bool) r l : f r = false -> filter f (rremove r l) = filter f l.
Proof.
  intros H. unfold rremove. induction l as [|x l IH]; cbn [filter]; [reflexivity|].
  destruct (reqb x r) eqn:E; cbn [negb].
  - apply reqb_eq in E. subst x. rewrite H. exact IH.
  - cbn [filter]. rewrite IH. reflexivity.
Qed.

Lemma filter_fold_rremove_out (f : rule -> bool) : forall rs l,
  (forall r, In r rs -> f r = false) ->
  filter f (fold_left (fun l r => rremove r l) rs l) = filter f l.
Proof.
  induction rs as [|r rs IH]; intros l H; cbn [fold_left]; [reflexivity|].
  rewrite IH by (intros x Hx; apply H; right; exact Hx).
  apply filter_rremove_out, H. left. reflexivity.
Qed.

Lemma filter_filter_out {A} (f g : A -> bool) l :
  (forall x, In x l -> g x = true -> f x = false) ->
  filter f (filter (fun x => negb (g x)) l) = filter f l.
Proof.
  induction l as [|x l IH]; intros H; cbn [filter]; [reflexivity|].
  assert (IH' : filter f (filter (fun x => negb (g x)) l) = filter f l).
  { apply IH. intros y Hy. apply H. right. exact Hy. }
  destruct (g x) eqn:E; cbn [negb filter].
  - rewrite (H x (or_introl eq_refl) E). exact IH'.
  - rewrite IH'. reflexivity.
Qed.

(* a successful field filter pins every column it names *)
Lemma nth_nil : forall k, nth k (@nil text) [] = [].
Proof. destruct k; reflexivity. Qed.

Lemma fmatch_pins : forall vals fields k (v : text),
  fmatch vals fields = Some true -> nth k vals [] = v -> v <> [] -> nth k fields [] = v.
Proof.
  induction vals as [|v0 vs IH]; intros fields k v Hm Hk Hv.
  - rewrite nth_nil in Hk. congruence.
  - cbn [fmatch] in Hm. destruct k as [|k]; cbn [nth] in Hk.
    + subst v0. apply teqb_neq in Hv. rewrite Hv in Hm.
      destruct fields as [|f fs]; [discriminate|].
      destruct (teqb f v) eqn:E; [|discriminate]. apply teqb_eq in E. exact E.
    + destruct (teqb v0 []).
      * specialize (IH (tl fields) k v Hm Hk Hv).
        destruct fields as [|f fs]; [rewrite nth_nil in IH; congruence|exact IH].
      * destruct fields as [|f fs]; [discriminate|].
        destruct (teqb f v0); [|discriminate]. cbn [nth]. apply (IH fs k v Hm Hk Hv).
Qed.

Lemma nth_skipn : forall idx k (r : rule), nth k (skipn idx r) [] = nth (idx + k) r [].
Proof.
  induction idx as [|idx IH]; intros k r; [reflexivity|].
  destruct r as [|x r]; cbn [skipn plus nth]; [apply nth_nil|apply IH].
Qed.

Lemma fsel_pins : forall idx vals (r : rule) c (v : text),
  fsel idx vals r = true -> idx <= c -> nth (c - idx) vals [] = v -> v <> [] ->
  nth c r [] = v.
Proof.
  intros idx vals r c v H Hle Hk Hv. unfold fsel in H.
  destruct (fmatch vals (skipn idx r)) as [[|]|] eqn:E; try discriminate.
  pose proof (fmatch_pins vals (skipn idx r) (c - idx) v E Hk Hv) as Hn.
  rewrite nth_skipn in Hn. replace (idx + (c - idx)) with c in Hn by lia. exact Hn.
Qed.

(* ================= B. link updates stay inside their domain ================= *)

Lemma add_link_other : forall m a b d' d,
  dom_key d' <> dom_key d -> graph_of (add_link m a b d') d = graph_of m d.
Proof.
  intros m a b d' d Hne. unfold add_link. destruct (teqb a b); [reflexivity|].
  apply graph_of_assoc_set_other, Hne.
Qed.

Lemma delete_link_other : forall m a b d' d,
  dom_key d' <> dom_key d -> graph_of (fst (delete_link m a b d')) d = graph_of m d.
Proof.
  intros m a b d' d Hne. unfold delete_link. destruct (teqb a b); [reflexivity|].
  destruct (graph_of m d') as [g|]; [|reflexivity].
  destruct (has_node g a && has_node g b); cbn [fst]; [|reflexivity].
  apply graph_of_assoc_set_other, Hne.
Qed.

Lemma link_rule_other : forall insert m (r : rule) (d' d : text),
  nth 2 r [] = d' -> d' <> d ->
  graph_of (fst (link_rule 3 insert m r)) (Some d) = graph_of m (Some d).
Proof.
  intros insert m r d' d Hr Hne. unfold link_rule. cbv zeta.
  change (Nat.leb 4 3) with false. change (Nat.eqb 3 2) with false. cbv iota.
  destruct (Nat.ltb (length r) 3); [reflexivity|]. rewrite Hr.
  destruct insert.
  - cbn [fst]. apply add_link_other. cbn [dom_key]. exact Hne.
  - pose proof (delete_link_other m (nth 0 r []) (nth 1 r []) (Some d') (Some d)) as H.
    destruct (delete_link m (nth 0 r []) (nth 1 r []) (Some d')) as [m' [|]]; cbn [fst] in *;
      apply H; cbn [dom_key]; exact Hne.
Qed.

Lemma link_rules_other : forall insert (rs : list rule) m (d' d : text),
  (forall r, In r rs -> nth 2 r [] = d') -> d' <> d ->
  graph_of (fst (link_rules 3 insert m rs)) (Some d) = graph_of m (Some d).
Proof.
  intros insert. induction rs as [|r rs IH]; intros m d' d Hrs Hne; cbn [link_rules]; [reflexivity|].
  pose proof (link_rule_other insert m r d' d (Hrs r (or_introl eq_refl)) Hne) as H1.
  destruct (link_rule 3 insert m r) as [m' [|e]]; cbn [fst] in *.
  - rewrite (IH m' d' d); [exact H1| |exact Hne]. intros x Hx. apply Hrs. right. exact Hx.
  - exact H1.
Qed.

(* ================= C. one confined step preserves the view (item 8) ================= *)

Definition DomScope (s : estate) : Prop :=
  Scope 3 r_toks4 (fun t => toks_eqb t p_toks4 || toks_eqb t p_toks5) is_erule rbac_dom_matcher s.

Lemma rbac_dom_any_spec s : rbac_dom_any s = true <-> DomScope s.
Proof. apply scope_core_spec. Qed.

Definition incol (c : nat) (d : text) (r : rule) : bool := teqb (nth c r []) d.

Lemma view_unfold d s :
  view d s = (filter (incol 1 d) (m_get_policy (e_model s) s_p s_p),
              filter (incol 2 d) (m_get_policy (e_model s) s_g s_g),
              graph_of (f_rm (e_fs s)) (Some d)).
Proof. reflexivity. Qed.

Lemma sp_ne_sg : s_p <> s_g.
Proof. discriminate. Qed.

Lemma view_of_shape : forall s s' sec pt pol' ins rs d d',
  DomScope s -> mgmt_shape s s' sec pt pol' ins rs ->
  is_pp sec pt || is_gg sec pt = true ->
  filter (incol (dcol sec) d) pol' = filter (incol (dcol sec) d) (m_get_policy (e_model s) sec pt) ->
  (is_gg sec pt = true -> forall r, In r rs -> nth 2 r [] = d') -> d' <> d ->
  view d s' = view d s.
Proof.
  intros s s' sec pt pol' ins rs d d' Hsc [Hf Ho Hp Hrm] Htab Hfil Hrs Hne.
  rewrite !view_unfold. apply orb_true_iff in Htab. destruct Htab as [Htab|Htab].
  - apply andb_true_iff in Htab. destruct Htab as [E1 E2].
    apply teqb_eq in E1. apply teqb_eq in E2. subst sec pt.
    change (dcol s_p) with 1 in Hfil. rewrite Hp, Hfil.
    rewrite (Ho s_g s_g) by (left; exact sg_ne_sp).
    destruct Hrm as [Hrm|[Hbad _]]; [rewrite Hrm; reflexivity|discriminate Hbad].
  - pose proof Htab as Hgg. apply andb_true_iff in Htab. destruct Htab as [E1 E2].
    apply teqb_eq in E1. apply teqb_eq in E2. subst sec pt.
    change (dcol s_g) with 2 in Hfil. rewrite Hp, Hfil.
    rewrite (Ho s_p s_p) by (left; exact sp_ne_sg).
    f_equal.
    destruct Hrm as [Hrm|[_ [Hrm|(_ & a & Ha & Hrm)]]]; try (rewrite Hrm; reflexivity).
    destruct (sc_g _ _ _ _ _ _ Hsc) as (ga & Hg & Hcnt & _).
    rewrite Hg in Ha. inversion Ha; subst a. rewrite Hrm, Hcnt.
    apply (link_rules_other ins rs _ d' d (Hrs Hgg) Hne).
Qed.

Lemma rule_in_spec sec pt d' r : rule_in sec pt d' r = true ->
  is_pp sec pt || is_gg sec pt = true /\ nth (dcol sec) r [] = d'.
Proof.
  unfold rule_in. intros H. apply andb_true_iff in H. destruct H as [H1 H2].
  apply teqb_eq in H2. auto.
Qed.

Lemma is_gg_dcol sec pt : is_gg sec pt = true -> dcol sec = 2.
Proof.
  unfold is_gg. intros H. apply andb_true_iff in H. destruct H as [H _].
  apply teqb_eq in H. subst sec. reflexivity.
Qed.

Lemma incol_out c (d d' : text) (r : rule) : nth c r [] = d' -> d' <> d -> incol c d r = false.
Proof. intros H Hne. unfold incol. rewrite H. apply teqb_neq, Hne. Qed.

Lemma rbac_base_step : forall s r o', rbac_base r = Some o' -> step s (ORbac r) = step s o'.
Proof.
  intros s r o' H. destruct r; cbn [rbac_base] in H; inversion H; reflexivity.
Qed.

Lemma confined_base_step : forall s o d d',
  DomScope s -> confined_base d' o = true -> d' <> d ->
  view d (fst (step s o)) = view d s /\ st_frame s (fst (step s o)).
Proof.
  intros s o d d' Hsc Hc Hne.
  destruct o; cbn [confined_base] in Hc; try discriminate; cbn [step].
  - (* OAdd *)
    apply rule_in_spec in Hc. destruct Hc as [Htab Hcol].
    destruct (step_add s sec pt r) as [s' out] eqn:Hs. cbn [fst].
    apply step_add_shape in Hs. destruct Hs as (pol' & Hpol & Hsh).
    split; [|apply (ms_frame _ _ _ _ _ _ _ Hsh)].
    apply (view_of_shape s s' sec pt pol' true [r] d d' Hsc Hsh Htab); [| |exact Hne].
    + destruct Hpol as [->| ->]; [reflexivity|].
      apply filter_snoc_out, (incol_out _ d d' r Hcol Hne).
    + intros Hgg x [<-|[]]. rewrite <- (is_gg_dcol sec pt Hgg). exact Hcol.
  - (* OAddMany *)
    rewrite forallb_forall in Hc.
    destruct rs as [|r0 rs0].
    { (* the empty batch changes nothing but the adapter *)
      destruct (step_add_many s sec pt []) as [s' out] eqn:Hs. cbn [fst].
      apply step_add_many_shape in Hs. destruct Hs as (pol' & Hpol & Hsh).
      assert (Hp' : pol' = m_get_policy (e_model s) sec pt) by (destruct Hpol; assumption).
      destruct Hsh as [Hf Ho Hp Hrm]. split; [|exact Hf].
      rewrite !view_unfold.
      assert (Hall : forall sec' pt', m_get_policy (e_model s') sec' pt' =
                                      m_get_policy (e_model s) sec' pt').
      { intros sec' pt'. destruct (text_eq_dec sec' sec) as [->|]; [|apply Ho; auto].
        destruct (text_eq_dec pt' pt) as [->|]; [|apply Ho; auto]. rewrite Hp. exact Hp'. }
      rewrite !Hall. f_equal.
      destruct Hrm as [Hrm|[_ [Hrm|(_ & a & _ & Hrm)]]]; rewrite Hrm; reflexivity. }
    pose proof (Hc r0 (or_introl eq_refl)) as Htab. apply rule_in_spec in Htab.
    destruct Htab as [Htab _].
    destruct (step_add_many s sec pt (r0 :: rs0)) as [s' out] eqn:Hs. cbn [fst].
    apply step_add_many_shape in Hs. destruct Hs as (pol' & Hpol & Hsh).
    split; [|apply (ms_frame _ _ _ _ _ _ _ Hsh)].
    apply (view_of_shape s s' sec pt pol' true (r0 :: rs0) d d' Hsc Hsh Htab); [| |exact Hne].
    + destruct Hpol as [->| ->]; [reflexivity|].
      apply filter_ins_new_out. intros x Hx. apply Hc, rule_in_spec in Hx.
      apply (incol_out _ d d' x (proj2 Hx) Hne).
    + intros Hgg x Hx. apply Hc, rule_in_spec in Hx.
      rewrite <- (is_gg_dcol sec pt Hgg). apply Hx.
  - (* ORemove *)
    apply rule_in_spec in Hc. destruct Hc as [Htab Hcol].
    destruct (step_remove s sec pt r) as [s' out] eqn:Hs. cbn [fst].
    apply step_remove_shape in Hs. destruct Hs as (pol' & Hpol & Hsh).
    split; [|apply (ms_frame _ _ _ _ _ _ _ Hsh)].
    apply (view_of_shape s s' sec pt pol' false [r] d d' Hsc Hsh Htab); [| |exact Hne].
    + destruct Hpol as [->| ->]; [reflexivity|].
      apply filter_rremove_out, (incol_out _ d d' r Hcol Hne).
    + intros Hgg x [<-|[]]. rewrite <- (is_gg_dcol sec pt Hgg). exact Hcol.
  - (* ORemoveMany *)
    rewrite forallb_forall in Hc.
    destruct rs as [|r0 rs0].
    { destruct (step_remove_many s sec pt []) as [s' out] eqn:Hs. cbn [fst].
      apply step_remove_many_shape in Hs. destruct Hs as (pol' & Hpol & Hsh).
      assert (Hp' : pol' = m_get_policy (e_model s) sec pt) by (destruct Hpol; assumption).
      destruct Hsh as [Hf Ho Hp Hrm]. split; [|exact Hf].
      rewrite !view_unfold.
      assert (Hall : forall sec' pt', m_get_policy (e_model s') sec' pt' =
                                      m_get_policy (e_model s) sec' pt').
      { intros sec' pt'. destruct (text_eq_dec sec' sec) as [->|]; [|apply Ho; auto].
        destruct (text_eq_dec pt' pt) as [->|]; [|apply Ho; auto]. rewrite Hp. exact Hp'. }
      rewrite !Hall. f_equal.
      destruct Hrm as [Hrm|[_ [Hrm|(_ & a & _ & Hrm)]]]; rewrite Hrm; reflexivity. }
    pose proof (Hc r0 (or_introl eq_refl)) as Htab. apply rule_in_spec in Htab.
    destruct Htab as [Htab _].
    destruct (step_remove_many s sec pt (r0 :: rs0)) as [s' out] eqn:Hs. cbn [fst].
    apply step_remove_many_shape in Hs. destruct Hs as (pol' & Hpol & Hsh).
    split; [|apply (ms_frame _ _ _ _ _ _ _ Hsh)].
    apply (view_of_shape s s' sec pt pol' false (r0 :: rs0) d d' Hsc Hsh Htab); [| |exact Hne].
    + destruct Hpol as [->| ->]; [reflexivity|].
      apply filter_fold_rremove_out. intros x Hx. apply Hc, rule_in_spec in Hx.
      apply (incol_out _ d d' x (proj2 Hx) Hne).
    + intros Hgg x Hx. apply Hc, rule_in_spec in Hx.
      rewrite <- (is_gg_dcol sec pt Hgg). apply Hx.
  - (* ORemoveFiltered *)
    unfold filter_in in Hc.
    apply andb_true_iff in Hc. destruct Hc as [Hc Hv]. apply andb_true_iff in Hc.
    destruct Hc as [Hc Hle]. apply andb_true_iff in Hc. destruct Hc as [Htab Hd'].
    apply teqb_eq in Hv. apply Nat.leb_le in Hle. apply negb_true_iff, teqb_neq in Hd'.
    assert (Hpin : forall r, fsel idx vals r = true -> nth (dcol sec) r [] = d').
    { intros r Hr. apply (fsel_pins idx vals r (dcol sec) d' Hr Hle Hv Hd'). }
    destruct (step_remove_filtered s sec pt idx vals) as [s' out] eqn:Hs. cbn [fst].
    apply step_remove_filtered_shape in Hs. cbv zeta in Hs.
    destruct Hs as (pol' & rs & Hsh & Hincl & Hpol & _).
    split; [|apply (ms_frame _ _ _ _ _ _ _ Hsh)].
    apply (view_of_shape s s' sec pt pol' false rs d d' Hsc Hsh Htab); [| |exact Hne].
    + destruct Hpol as [->|[_ ->]]; [reflexivity|].
      apply filter_filter_out. intros x _ Hx. apply (incol_out _ d d' x (Hpin x Hx) Hne).
    + intros Hgg x Hx. apply Hincl, filter_In in Hx.
      rewrite <- (is_gg_dcol sec pt Hgg). apply Hpin, Hx.
Qed.

Theorem view_preserved : forall s o d d',
  rbac_dom_any s = true -> confined d' o = true -> d' <> d ->
  view d (fst (step s o)) = view d s.
Proof.
  intros s o d d' Hsc Hc Hne. apply rbac_dom_any_spec in Hsc.
  destruct o; try (apply (confined_base_step s _ d d' Hsc Hc Hne)).
  cbn [confined] in Hc. destruct (rbac_base r) as [o'|] eqn:Hb; [|discriminate].
  rewrite (rbac_base_step s r o' Hb). apply (confined_base_step s o' d d' Hsc Hc Hne).
Qed.

Theorem confined_frame : forall s o d',
  rbac_dom_any s = true -> confined d' o = true -> st_frame s (fst (step s o)).
Proof.
  intros s o d' Hsc Hc. apply rbac_dom_any_spec in Hsc.
  (* any observed domain different from d' will do: use d' ++ "x" *)
  assert (Hne : d' <> d' ++ [ascii_of_nat 120]).
  { intros E. apply (f_equal (@length ascii)) in E. rewrite app_length in E. cbn in E. lia. }
  destruct o; try (apply (confined_base_step s _ _ d' Hsc Hc Hne)).
  cbn [confined] in Hc. destruct (rbac_base r) as [o'|] eqn:Hb; [|discriminate].
  rewrite (rbac_base_step s r o' Hb). apply (confined_base_step s o' _ d' Hsc Hc Hne).
Qed.

(* ================= D. decisions depend on the view only (item 9) ================= *)

(* dropping undetermined effects changes no declarative result *)
Definition strip (l : list eff) : list eff := filter (fun e => negb (eff_eqb e Indet)) l.

Lemma existsb_strip : forall (f : eff -> bool) l, f Indet = false ->
  existsb f l = existsb f (strip l).
Proof.
  intros f l Hf. unfold strip. induction l as [|e l IH]; [reflexivity|].
  destruct e; cbn [filter eff_eqb negb existsb]; rewrite ?Hf, ?IH; reflexivity.
Qed.

Lemma decl_strip : forall r l, decl r l = decl r (strip l).
Proof.
  intros r l. destruct r; cbn [decl].
  - apply existsb_strip. reflexivity.
  - f_equal. apply existsb_strip. reflexivity.
  - rewrite <- !existsb_strip by reflexivity. reflexivity.
  - unfold strip. induction l as [|e l IH]; [reflexivity|].
    destruct e; cbn [filter eff_eqb negb first_decided]; rewrite ?IH; reflexivity.
Qed.

(* inserting or removing undetermined effects anywhere is invisible *)
Corollary decl_indet_invariant : forall r l1 l2, strip l1 = strip l2 -> decl r l1 = decl r l2.
Proof. intros r l1 l2 H. rewrite (decl_strip r l1), (decl_strip r l2), H. reflexivity. Qed.

Lemma has_link_graph : forall mx m1 m2 a b d,
  graph_of m1 d = graph_of m2 d -> has_link mx m1 a b d = has_link mx m2 a b d.
Proof. intros mx m1 m2 a b d H. unfold has_link. rewrite H. reflexivity. Qed.

Lemma get_roles_graph : forall m1 m2 n d,
  graph_of m1 d = graph_of m2 d -> get_roles m1 n d = get_roles m2 n d.
Proof. intros m1 m2 n d H. unfold get_roles. rewrite H. reflexivity. Qed.

Lemma get_users_graph : forall m1 m2 n d,
  graph_of m1 d = graph_of m2 d -> get_users m1 n d = get_users m2 n d.
Proof. intros m1 m2 n d H. unfold get_users. rewrite H. reflexivity. Qed.

Lemma implicit_roles_go_graph : forall m1 m2 d, graph_of m1 d = graph_of m2 d ->
  forall fuel q res, implicit_roles_go fuel m1 d q res = implicit_roles_go fuel m2 d q res.
Proof.
  intros m1 m2 d H. induction fuel as [|fuel IH]; intros q res; cbn [implicit_roles_go]; [reflexivity|].
  destruct q as [|n q']; [reflexivity|]. rewrite (get_roles_graph m1 m2 n d H). apply IH.
Qed.

(* two configurations that differ only in what they store *)
Definition same_conf (s1 s2 : estate) : Prop :=
  the_erule s1 = the_erule s2 /\ the_ptoks s1 = the_ptoks s2 /\
  f_rm_max (e_fs s1) = f_rm_max (e_fs s2).

Lemma view_parts : forall d s1 s2, view d s1 = view d s2 ->
  filter (incol 1 d) (p_rules s1) = filter (incol 1 d) (p_rules s2) /\
  filter (incol 2 d) (g_rules s1) = filter (incol 2 d) (g_rules s2) /\
  graph_of (f_rm (e_fs s1)) (Some d) = graph_of (f_rm (e_fs s2)) (Some d).
Proof.
  intros d s1 s2 H. rewrite !view_unfold in H. inversion H. auto.
Qed.

Lemma match4_foreign : forall s u d o a (r : rule), incol 1 d r = false -> match4 s u d o a r = false.
Proof.
  intros s u d o a r H. unfold match4, incol in *. rewrite teqb_sym in H. rewrite H.
  rewrite andb_false_r. reflexivity.
Qed.

Lemma rule_effect_false : forall et pt r, rule_effect et pt r false = Indet.
Proof. reflexivity. Qed.

(* the effects of a request, up to undetermined ones, are those of the rules
   of its own domain *)
Lemma strip_effs4 : forall s (u d o a : text), d <> [] ->
  strip (effs4 s u d o a) =
  strip (map (fun r => rule_effect (tok s_p s_eft) (the_ptoks s) r (match4 s u d o a r))
             (filter (incol 1 d) (p_rules s))).
Proof.
  intros s u d o a Hd. unfold effs4.
  assert (Hgen : forall l,
    strip (map (fun r => rule_effect (tok s_p s_eft) (the_ptoks s) r (match4 s u d o a r)) l) =
    strip (map (fun r => rule_effect (tok s_p s_eft) (the_ptoks s) r (match4 s u d o a r))
               (filter (incol 1 d) l))).
  { induction l as [|r l IH]; [reflexivity|]. cbn [map filter].
    destruct (incol 1 d r) eqn:E.
    - cbn [map]. unfold strip in *. cbn [filter]. rewrite IH. reflexivity.
    - rewrite (match4_foreign s u d o a r E), rule_effect_false.
      unfold strip in *. cbn [filter eff_eqb negb]. exact IH. }
  destruct (p_rules s) as [|r0 rules] eqn:Hpol; [|apply Hgen].
  cbn [filter map]. unfold match4. cbn [nth].
  apply teqb_neq in Hd. rewrite Hd, !andb_false_r. reflexivity.
Qed.

Theorem decided_by_view : forall ptab s1 s2 d,
  rbac_dom_any s1 = true -> rbac_dom_any s2 = true -> same_conf s1 s2 ->
  p_arity_ok s1 -> p_arity_ok s2 ->
  view d s1 = view d s2 -> d <> [] ->
  forall sub obj act,
    enforce ptab s1 [VStr sub; VStr d; VStr obj; VStr act] =
    enforce ptab s2 [VStr sub; VStr d; VStr obj; VStr act].
Proof.
  intros ptab s1 s2 d Hs1 Hs2 (Her & Hpt & Hmx) Ha1 Ha2 Hv Hd sub obj act.
  rewrite (enforce_dom_closed ptab s1 sub d obj act Hs1 Ha1).
  rewrite (enforce_dom_closed ptab s2 sub d obj act Hs2 Ha2).
  f_equal. rewrite Her. apply decl_indet_invariant.
  rewrite !strip_effs4 by exact Hd.
  destruct (view_parts d s1 s2 Hv) as (Hp & _ & Hg).
  rewrite Hp, Hpt. f_equal. apply map_ext. intros r. f_equal.
  unfold match4. rewrite Hmx. rewrite (has_link_graph _ _ _ sub (nth 0 r []) (Some d) Hg).
  reflexivity.
Qed.

(* ---- role queries of the domain ---- *)
Theorem roles_by_view : forall s1 s2 d n,
  rbac_dom_any s1 = true -> rbac_dom_any s2 = true -> view d s1 = view d s2 ->
  roles_for_user s1 n (Some d) = roles_for_user s2 n (Some d) /\
  users_for_role s1 n (Some d) = users_for_role s2 n (Some d) /\
  implicit_roles s1 n (Some d) = implicit_roles s2 n (Some d).
Proof.
  intros s1 s2 d n Hs1 Hs2 Hv. apply rbac_dom_any_spec in Hs1. apply rbac_dom_any_spec in Hs2.
  destruct (view_parts d s1 s2 Hv) as (_ & _ & Hg).
  destruct (rbac_roles_for_user _ _ _ _ _ s1 n (Some d) Hs1) as [R1 U1].
  destruct (rbac_roles_for_user _ _ _ _ _ s2 n (Some d) Hs2) as [R2 U2].
  rewrite R1, R2, U1, U2. split; [apply get_roles_graph, Hg|]. split; [apply get_users_graph, Hg|].
  unfold implicit_roles, graph_size. rewrite Hg. apply implicit_roles_go_graph, Hg.
Qed.

Theorem has_link_by_view : forall s1 s2 d a b,
  f_rm_max (e_fs s1) = f_rm_max (e_fs s2) -> view d s1 = view d s2 ->
  has_link (f_rm_max (e_fs s1)) (f_rm (e_fs s1)) a b (Some d) =
  has_link (f_rm_max (e_fs s2)) (f_rm (e_fs s2)) a b (Some d).
Proof.
  intros s1 s2 d a b Hmx Hv. destruct (view_parts d s1 s2 Hv) as (_ & _ & Hg).
  rewrite Hmx. apply has_link_graph, Hg.
Qed.

Lemma filter_fsel_dom : forall s (x d : text), two_fields s -> d <> [] ->
  filter (fsel 0 [x; d]) (p_rules s) = filter (fsel 0 [x; d]) (filter (incol 1 d) (p_rules s)).
Proof.
  intros s x d H2 Hd. unfold two_fields in H2. induction (p_rules s) as [|r l IH]; [reflexivity|].
  cbn [filter].
  assert (IH' : filter (fsel 0 [x; d]) l = filter (fsel 0 [x; d]) (filter (incol 1 d) l)).
  { apply IH. intros r' Hr'. apply H2. right. exact Hr'. }
  destruct (H2 r (or_introl eq_refl)) as (f & y & rest & ->).
  unfold incol at 1. cbn [nth]. destruct (teqb y d) eqn:E.
  - cbn [filter]. rewrite IH'. reflexivity.
  - rewrite fsel_two, E. apply teqb_neq in Hd. rewrite Hd. cbn [orb]. rewrite andb_false_r.
    exact IH'.
Qed.

Theorem perms_by_view : forall s1 s2 d n,
  rbac_dom_any s1 = true -> rbac_dom_any s2 = true ->
  two_fields s1 -> two_fields s2 -> view d s1 = view d s2 -> d <> [] ->
  perms_for_user s1 n (Some d) = perms_for_user s2 n (Some d) /\
  implicit_perms s1 n (Some d) = implicit_perms s2 n (Some d).
Proof.
  intros s1 s2 d n Hs1 Hs2 H1 H2 Hv Hd.
  destruct (view_parts d s1 s2 Hv) as (Hp & _ & _).
  destruct (roles_by_view s1 s2 d n Hs1 Hs2 Hv) as (_ & _ & Hir).
  assert (Hf : forall x, filter (fsel 0 [x; d]) (p_rules s1) = filter (fsel 0 [x; d]) (p_rules s2)).
  { intros x. rewrite (filter_fsel_dom s1 x d H1 Hd), (filter_fsel_dom s2 x d H2 Hd), Hp.
    reflexivity. }
  split.
  - rewrite (perms_for_user_dom s1 n d H1), (perms_for_user_dom s2 n d H2), Hf. reflexivity.
  - rewrite (implicit_perms_dom_exact s1 n d H1), (implicit_perms_dom_exact s2 n d H2), Hir.
    f_equal. apply flat_map_ext. intros x. apply Hf.
Qed.

(* ================= E. isolation over histories (item 10) ================= *)

Definition foreign (d : text) (o : op) : Prop := exists d', d' <> d /\ confined d' o = true.

Lemma foreign_opb : forall d o d', foreign_op d o d' = true -> foreign d o.
Proof.
  intros d o d' H. unfold foreign_op in H. apply andb_true_iff in H. destruct H as [H1 H2].
  exists d'. split; [|exact H2]. apply teqb_neq. apply negb_true_iff. exact H1.
Qed.

Lemma frame_same_conf : forall s s', st_frame s s' -> DomScope s -> same_conf s s'.
Proof.
  intros s s' (Hf & (F1 & _) & _) Hsc. unfold same_conf, the_erule, the_ptoks.
  destruct (sc_e _ _ _ _ _ _ Hsc) as (ea & He & _). destruct (sc_p _ _ _ _ _ _ Hsc) as (pa & Hp & _).
  pose proof (Hf s_e s_e) as H1. rewrite He in H1. destruct H1 as (ea' & He' & (Hv & _)).
  pose proof (Hf s_p s_p) as H2. rewrite Hp in H2. destruct H2 as (pa' & Hp' & (_ & Ht & _)).
  rewrite He, He', Hp, Hp', Hv, Ht, F1. auto.
Qed.

Theorem isolation_view : forall d ops s,
  rbac_dom_any s = true -> Forall (foreign d) ops ->
  view d (run_ops s ops) = view d s /\ rbac_dom_any (run_ops s ops) = true /\
  same_conf s (run_ops s ops).
Proof.
  intros d. unfold run_ops. induction ops as [|o ops IH]; intros s Hsc Hall; cbn [fold_left].
  - split; [reflexivity|]. split; [exact Hsc|]. repeat split.
  - inversion Hall as [|o' ops' (d' & Hne & Hc) Hrest]; subst.
    pose proof (view_preserved s o d d' Hsc Hc Hne) as Hv.
    pose proof (confined_frame s o d' Hsc Hc) as Hf.
    assert (Hsc' : rbac_dom_any (fst (step s o)) = true).
    { apply (scope_core_frame _ _ _ _ _ s _ Hsc Hf). }
    destruct (IH (fst (step s o)) Hsc' Hrest) as (Hv' & Hs' & Hc').
    split; [rewrite Hv'; exact Hv|]. split; [exact Hs'|].
    apply rbac_dom_any_spec in Hsc.
    destruct (frame_same_conf s _ Hf Hsc) as (A1 & A2 & A3). destruct Hc' as (B1 & B2 & B3).
    repeat split; congruence.
Qed.

(* whatever other tenants do, the decisions and role queries of domain d do not
   change (the arity conditions are needed at both ends: see
   malformed_foreign_rule_breaks_tenant) *)
Theorem isolation : forall ptab d ops s,
  rbac_dom_any s = true -> Forall (foreign d) ops -> d <> [] ->
  let s' := run_ops s ops in
  (p_arity_ok s -> p_arity_ok s' ->
   forall sub obj act,
     enforce ptab s' [VStr sub; VStr d; VStr obj; VStr act] =
     enforce ptab s [VStr sub; VStr d; VStr obj; VStr act]) /\
  (forall n, roles_for_user s' n (Some d) = roles_for_user s n (Some d) /\
             users_for_role s' n (Some d) = users_for_role s n (Some d) /\
             implicit_roles s' n (Some d) = implicit_roles s n (Some d)) /\
  (forall a b, has_link (f_rm_max (e_fs s')) (f_rm (e_fs s')) a b (Some d) =
               has_link (f_rm_max (e_fs s)) (f_rm (e_fs s)) a b (Some d)) /\
  (two_fields s -> two_fields s' ->
   forall n, perms_for_user s' n (Some d) = perms_for_user s n (Some d) /\
             implicit_perms s' n (Some d) = implicit_perms s n (Some d)).
Proof.
  intros ptab d ops s Hsc Hall Hd s'.
  destruct (isolation_view d ops s Hsc Hall) as (Hv & Hsc' & Hconf). fold s' in Hv, Hsc', Hconf.
  split; [|split; [|split]].
  - intros Ha Ha' sub obj act. symmetry.
    apply (decided_by_view ptab s s' d Hsc Hsc' Hconf Ha Ha' (eq_sym Hv) Hd).
  - intros n. apply (roles_by_view s' s d n Hsc' Hsc Hv).
  - intros a b. apply has_link_by_view; [|exact Hv]. symmetry. apply Hconf.
  - intros H2 H2' n. apply (perms_by_view s' s d n Hsc' Hsc H2' H2 Hv Hd).
Qed.

(* ================= F. the executable predicate holds of the model ================= *)

Lemma dec_eqb_refl : forall x, dec_eqb x x = true.
Proof. intros [[|]|[]|]; reflexivity. Qed.

Lemma list_eqb_refl : forall {A} (eqb : A -> A -> bool), (forall x, eqb x x = true) ->
  forall l, list_eqb eqb l l = true.
Proof.
  intros A eqb H. induction l as [|x l IH]; [reflexivity|]. cbn [list_eqb]. rewrite H, IH. reflexivity.
Qed.

Lemma answer_eqb_refl : forall a, answer_eqb a a = true.
Proof.
  intros [o|l|l|l|l|b|]; cbn [answer_eqb].
  - apply dec_eqb_refl.
  - apply list_eqb_refl, reqb_refl.
  - unfold bag_eqb. rewrite Nat.eqb_refl. cbn [andb]. apply forallb_forall. intros r _.
    apply Nat.eqb_refl.
  - apply list_eqb_refl, teqb_refl.
  - apply seteqb_spec. intros e. reflexivity.
  - apply eqb_reflx.
  - reflexivity.
Qed.

Lemma dom_query_enforce : forall d rv, dom_query d (QEnforce rv) = true ->
  exists sub obj act, rv = [VStr sub; VStr d; VStr obj; VStr act].
Proof.
  intros d rv H. cbn [dom_query] in H.
  destruct rv as [|[a| | | |] [|[b| | | |] [|[c| | | |] [|[e| | | |] [|v rv]]]]]; try discriminate.
  apply teqb_eq in H. subst b. exists a, c, e. reflexivity.
Qed.

Lemma arity_ok_two_fields : forall s, DomScope s -> p_arity_ok s -> two_fields s.
Proof.
  intros s Hsc Har r Hr. specialize (Har r Hr).
  destruct (sc_p _ _ _ _ _ _ Hsc) as (pa & Hp & Hpt).
  unfold the_ptoks in Har. rewrite Hp in Har.
  apply orb_true_iff in Hpt. destruct Hpt as [H|H]; apply toks_eqb_eq in H; rewrite H in Har.
  - destruct (length4 r Har) as (x & y & z & w & ->). eauto.
  - destruct (length5 r Har) as (x & y & z & w & v & ->). eauto.
Qed.

Theorem dom_query_stable : forall ptab d ops s q,
  rbac_dom_any s = true -> Forall (foreign d) ops -> d <> [] ->
  p_arity_ok s -> p_arity_ok (run_ops s ops) ->
  dom_query d q = true ->
  ask ptab (run_ops s ops) q = ask ptab s q.
Proof.
  intros ptab d ops s q Hsc Hall Hd Ha Ha' Hq.
  destruct (isolation ptab d ops s Hsc Hall Hd) as (He & Hr & Hl & Hp).
  destruct (isolation_view d ops s Hsc Hall) as (_ & Hsc' & _).
  pose proof (arity_ok_two_fields s (proj1 (rbac_dom_any_spec s) Hsc) Ha) as H2.
  pose proof (arity_ok_two_fields _ (proj1 (rbac_dom_any_spec _) Hsc') Ha') as H2'.
  destruct q; try discriminate.
  - apply dom_query_enforce in Hq. destruct Hq as (sub & obj & act & ->).
    cbn [ask]. rewrite (He Ha Ha'). reflexivity.
  - destruct d0 as [d0|]; [|discriminate]. cbn [dom_query] in Hq. apply teqb_eq in Hq. subst d0.
    cbn [ask]. rewrite (proj1 (Hr n)). reflexivity.
  - destruct d0 as [d0|]; [|discriminate]. cbn [dom_query] in Hq. apply teqb_eq in Hq. subst d0.
    cbn [ask]. rewrite (proj1 (proj2 (Hr n))). reflexivity.
  - destruct d0 as [d0|]; [|discriminate]. cbn [dom_query] in Hq. apply teqb_eq in Hq. subst d0.
    cbn [ask]. rewrite (proj1 (Hr n)). reflexivity.
  - destruct d0 as [d0|]; [|discriminate]. cbn [dom_query] in Hq. apply teqb_eq in Hq. subst d0.
    cbn [ask]. rewrite (proj2 (proj2 (Hr n))). reflexivity.
  - destruct d0 as [d0|]; [|discriminate]. cbn [dom_query] in Hq. apply teqb_eq in Hq. subst d0.
    cbn [ask]. rewrite (proj1 (Hp H2 H2' n)). reflexivity.
  - destruct d0 as [d0|]; [|discriminate]. cbn [dom_query] in Hq. apply teqb_eq in Hq. subst d0.
    cbn [ask]. rewrite (proj2 (Hp H2 H2' n)). reflexivity.
  - destruct d0 as [d0|]; [|discriminate]. cbn [dom_query] in Hq. apply teqb_eq in Hq. subst d0.
    cbn [ask]. rewrite Hl. reflexivity.
Qed.

Theorem c07_pred_model : forall ptab d ops s qs,
  rbac_dom_any s = true -> Forall (foreign d) ops -> d <> [] ->
  p_arity_ok s -> p_arity_ok (run_ops s ops) ->
  forallb (dom_query d) qs = true ->
  c07_pred (map (ask ptab s) qs) (map (ask ptab (run_ops s ops)) qs) = true.
Proof.
  intros ptab d ops s qs Hsc Hall Hd Ha Ha' Hqs. unfold c07_pred.
  induction qs as [|q qs IH]; [reflexivity|]. cbn [forallb] in Hqs.
  apply andb_true_iff in Hqs. destruct Hqs as [Hq Hqs]. cbn [map list_eqb].
  rewrite (dom_query_stable ptab d ops s q Hsc Hall Hd Ha Ha' Hq), answer_eqb_refl.
  apply IH, Hqs.
Qed.

(* ================= G. examples and witnesses ================= *)

Lemma p_arityb_ok : forall n s, p_arityb n s = true -> length (the_ptoks s) = n -> p_arity_ok s.
Proof.
  intros n s H Hn r Hr. rewrite Hn. apply (proj1 (p_arityb_spec n s) H r Hr).
Qed.

(* "rbac_with_domains_model.conf", parsed *)
Definition exd_model (eft : text) (ptoks : list text) : model :=
  [ (s_r, [(s_r, mk_ast (T "sub, dom, obj, act") r_toks4)]);
    (s_p, [(s_p, mk_ast (T "sub, dom, obj, act") ptoks)]);
    (s_g, [(s_g, mk_ast (T "_, _, _") [])]);
    (s_e, [(s_e, mk_ast eft [])]);
    (s_m, [(s_m, mk_ast (T "g(r_sub, p_sub, r_dom) && r_dom == p_dom && r_obj == p_obj && r_act == p_act") [])]) ].
Definition exd_def : modeldef :=
  {| d_model := exd_model s_allow_override p_toks4; d_mexprs := [(s_m, rbac_dom_matcher)] |}.
Definition exd0 : estate := fst (new_enforcer exd_def ANull false).

Definition d1 := T "tenant1".
Definition d2 := T "tenant2".

(* the same user and role names in both tenants, with different meanings *)
Definition exd_ops : list op :=
  [ ORbac (RAddRole (T "alice") (T "admin") (Some d1));
    ORbac (RAddRole (T "bob") (T "admin") (Some d2));
    ORbac (RAddRole (T "admin") (T "root") (Some d1));
    ORbac (RAddPermission (T "admin") [d1; T "data"; T "read"]);
    ORbac (RAddPermission (T "root") [d1; T "data"; T "own"]);
    ORbac (RAddPermission (T "admin") [d2; T "data"; T "write"]) ].
Definition exd1 : estate := run_ops exd0 exd_ops.

(* what tenant2 does afterwards *)
Definition exd_foreign : list op :=
  [ OAdd s_p s_p [T "admin"; d2; T "data"; T "own"];
    ORbac (RAddRole (T "alice") (T "admin") (Some d2));
    ORbac (RAddRole (T "admin") (T "root") (Some d2));
    OAddMany s_g s_g [[T "carol"; T "admin"; d2]; [T "dave"; T "root"; d2]];
    ORbac (RDeleteRoles (T "bob") (Some d2));
    ORemoveFiltered s_p s_p 0 [[]; d2; T "data"; T "write"];
    ORemove s_g s_g [T "carol"; T "admin"; d2];
    ORbac (RDeletePermission [d2; T "data"]);
    ORemoveFiltered s_g s_g 2 [d2] ].
Definition exd2 : estate := run_ops exd1 exd_foreign.

Example exd_in_scope :
  rbac_dom_any exd1 = true /\ rbac_dom_eq exd1 = true /\ p_arityb 4 exd1 = true /\
  p_arityb 4 exd2 = true /\ length (the_ptoks exd1) = 4 /\ length (the_ptoks exd2) = 4 /\
  shallowb (f_rm_max (e_fs exd1)) (f_rm (e_fs exd1)) (Some d1) = true /\
  nonempty_names exd1 (T "alice") (Some d1) = true.
Proof. vm_compute. repeat split; reflexivity. Qed.

Example exd_foreign_confined : Forall (foreign d1) exd_foreign.
Proof.
  repeat (constructor; [apply (foreign_opb d1 _ d2); vm_compute; reflexivity|]). constructor.
Qed.

Example exd_history_not_trivial :
  p_rules exd2 <> p_rules exd1 /\ g_rules exd2 <> g_rules exd1 /\
  view d2 exd2 <> view d2 exd1 /\ view d1 exd2 = view d1 exd1.
Proof. vm_compute. repeat split; try reflexivity; discriminate. Qed.

Example exd_answers :
  enforce ptab0 exd1 [VStr (T "alice"); VStr d1; VStr (T "data"); VStr (T "own")] = Ok true /\
  enforce ptab0 exd1 [VStr (T "alice"); VStr d2; VStr (T "data"); VStr (T "write")] = Ok false /\
  enforce ptab0 exd1 [VStr (T "bob"); VStr d2; VStr (T "data"); VStr (T "write")] = Ok true /\
  enforce ptab0 exd1 [VStr (T "bob"); VStr d1; VStr (T "data"); VStr (T "read")] = Ok false /\
  implicit_roles exd1 (T "alice") (Some d1) = [T "admin"; T "root"] /\
  implicit_roles exd1 (T "alice") (Some d2) = [] /\
  implicit_perms exd1 (T "alice") (Some d1) =
    Some [[T "admin"; d1; T "data"; T "read"]; [T "root"; d1; T "data"; T "own"]].
Proof. vm_compute. repeat split; reflexivity. Qed.

(* the same with an eft column and deny-override *)
Definition exd_def_deny : modeldef :=
  {| d_model := exd_model s_deny_override p_toks5; d_mexprs := [(s_m, rbac_dom_matcher)] |}.
Definition exe1 : estate :=
  run_ops (fst (new_enforcer exd_def_deny ANull false))
          [ ORbac (RAddRole (T "alice") (T "admin") (Some d1));
            OAdd s_p s_p [T "admin"; d1; T "data"; T "write"; T "deny"];
            OAdd s_p s_p [T "admin"; d2; T "data"; T "read"; T "deny"] ].
Example exe_in_scope :
  rbac_dom_any exe1 = true /\ the_erule exe1 = DenyOverride /\ p_arityb 5 exe1 = true /\
  enforce ptab0 exe1 [VStr (T "alice"); VStr d1; VStr (T "data"); VStr (T "read")] = Ok true /\
  enforce ptab0 exe1 [VStr (T "alice"); VStr d1; VStr (T "data"); VStr (T "write")] = Ok false.
Proof. vm_compute. repeat split; reflexivity. Qed.

(* FINDING (the arity conditions are necessary): a malformed rule stored by
   tenant2 turns tenant1's refusals into errors *)
Example malformed_foreign_rule_breaks_tenant :
  confined d2 (OAdd s_p s_p [T "x"; d2]) = true /\
  view d1 (fst (step exd1 (OAdd s_p s_p [T "x"; d2]))) = view d1 exd1 /\
  enforce ptab0 exd1 [VStr (T "bob"); VStr d1; VStr (T "data"); VStr (T "read")] = Ok false /\
  enforce ptab0 (fst (step exd1 (OAdd s_p s_p [T "x"; d2])))
          [VStr (T "bob"); VStr d1; VStr (T "data"); VStr (T "read")] = Err EPolicy.
Proof. vm_compute. repeat split; reflexivity. Qed.

(* WITNESS (d <> "" is necessary): the empty-store evaluation makes the
   all-empty request of the empty domain depend on whether ANY tenant has rules *)
Example empty_domain_not_isolated :
  let o := OAdd s_p s_p [T "admin"; d2; T "data"; T "read"] in
  confined d2 o = true /\ view [] (fst (step exd0 o)) = view [] exd0 /\
  enforce ptab0 exd0 [VStr []; VStr []; VStr []; VStr []] = Ok true /\
  enforce ptab0 (fst (step exd0 o)) [VStr []; VStr []; VStr []; VStr []] = Ok false.
Proof. vm_compute. repeat split; reflexivity. Qed.

(* WITNESS (the filter must pin a NON-EMPTY domain): the empty domain is a
   wildcard for delete_roles_for_user_in_domain *)
Example delete_roles_empty_domain_crosses_tenants :
  let o := ORbac (RDeleteRoles (T "alice") (Some [])) in
  confined [] o = false /\ snd (step exd1 o) = Ok true /\
  view d1 (fst (step exd1 o)) <> view d1 exd1 /\
  enforce ptab0 (fst (step exd1 o)) [VStr (T "alice"); VStr d1; VStr (T "data"); VStr (T "own")]
  = Ok false.
Proof. vm_compute. repeat split; try reflexivity. discriminate. Qed.

Example c07_pred_example :
  let qs := [QEnforce [VStr (T "alice"); VStr d1; VStr (T "data"); VStr (T "own")];
             QEnforce [VStr (T "bob"); VStr d1; VStr (T "data"); VStr (T "read")];
             QRolesFor (T "alice") (Some d1); QUsersFor (T "admin") (Some d1);
             QImplicitRoles (T "alice") (Some d1); QImplicitPerms (T "alice") (Some d1);
             QHasLink (T "alice") (T "root") (Some d1)] in
  forallb (dom_query d1) qs = true /\
  c07_pred (map (ask ptab0 exd1) qs) (map (ask ptab0 exd2) qs) = true /\
  c07_pred (map (ask ptab0 exd1) [QPermsFor (T "admin") (Some d2)])
           (map (ask ptab0 exd2) [QPermsFor (T "admin") (Some d2)]) = false.
Proof. vm_compute. repeat split; reflexivity. Qed.

(* delete_user spans every tenant (by design: it takes no domain); the
   hypotheses of the domain-variant corollary of C13 are satisfiable *)
Definition exd_del : estate := fst (step exd1 (ORbac (RDeleteUser (T "alice")))).
Example delete_user_dom_example :
  step exd1 (ORbac (RDeleteUser (T "alice"))) = (exd_del, Ok true) /\
  quiet_adapter exd1 = true /\ links_mirror_domb exd_del = true /\
  links_mirror_domb exd1 = true /\
  enforce ptab0 exd_del [VStr (T "alice"); VStr d1; VStr (T "data"); VStr (T "own")] = Ok false.
Proof. vm_compute. repeat split; reflexivity. Qed.
