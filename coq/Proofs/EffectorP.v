(* Proofs about Model/Effector.v (C02). *)
From CV Require Import Model.Base Model.Effector.
From Coq Require Import Lia.

Lemma first_decided_app_indet p l :
  existsb (fun e => negb (eff_eqb e Indet)) p = false ->
  first_decided (p ++ l) = first_decided l.
Proof.
  induction p as [|e p IH]; cbn; intros H; [reflexivity|].
  destruct e; cbn in H; try discriminate. apply IH, H.
Qed.

Lemma first_decided_app_decided p l :
  existsb (fun e => negb (eff_eqb e Indet)) p = true ->
  first_decided (p ++ l) = first_decided p.
Proof.
  induction p as [|e p IH]; cbn; intros H; [discriminate|].
  destruct e; cbn in *; auto.
Qed.

(* forced is sound and complete w.r.t. "every continuation has the same
   declarative result" *)
Lemma forced_sound r p b :
  forced r p = Some b -> forall l, decl r (p ++ l) = b.
Proof.
  destruct r; cbn; intros H l; rewrite ?existsb_app.
  - destruct (existsb is_allow p); inversion H; reflexivity.
  - destruct (existsb is_deny p); inversion H; reflexivity.
  - destruct (existsb is_deny p); inversion H; cbn.
    apply andb_false_r.
  - destruct (existsb _ p) eqn:E; inversion H; subst.
    apply first_decided_app_decided, E.
Qed.

Lemma forced_complete r p :
  forced r p = None -> exists l1 l2, decl r (p ++ l1) <> decl r (p ++ l2).
Proof.
  destruct r; cbn; intros H.
  - destruct (existsb is_allow p) eqn:E; [discriminate|].
    exists [Allow], []. rewrite !existsb_app, E. cbn. discriminate.
  - destruct (existsb is_deny p) eqn:E; [discriminate|].
    exists [Deny], []. rewrite !existsb_app, E. cbn. discriminate.
  - destruct (existsb is_deny p) eqn:E; [discriminate|].
    exists [Allow], [Deny]. rewrite !existsb_app, E. cbn.
    rewrite orb_true_r. cbn. rewrite andb_false_r. discriminate.
  - destruct (existsb _ p) eqn:E; [discriminate|].
    exists [Allow], [Deny]. rewrite !first_decided_app_indet by exact E.
    cbn. discriminate.
Qed.

(* invariant of a not-yet-complete stream that has consumed prefix p *)
Definition Inv (r : erule) (c : nat) (p : list eff) (s : stream) : Prop :=
  done s = false /\ idx s = length p /\ cap s = c /\ srule s = r /\
  res s = decl r p /\ forced r p = None.

Lemma inv_init r c : Inv r c [] (new_stream_r r c).
Proof. destruct r; cbn; repeat split; reflexivity. Qed.

Lemma push_core_spec r c p s e :
  Inv r c p s ->
  let dr := push_core s e in
  snd dr = decl r (p ++ [e]) /\
  (fst dr = true -> forced r (p ++ [e]) = Some (snd dr)) /\
  (fst dr = false -> forced r (p ++ [e]) = None).
Proof.
  intros (Hd & Hi & Hc & Hr & Hres & Hf).
  unfold push_core. rewrite Hr, Hd, Hres. clear Hd Hi Hc Hr Hres.
  destruct r; cbn in Hf |- *; rewrite ?existsb_app.
  - destruct (existsb is_allow p) eqn:E; [discriminate|].
    destruct e; cbn; repeat split; auto; discriminate.
  - destruct (existsb is_deny p) eqn:E; [discriminate|].
    destruct e; cbn; repeat split; auto; discriminate.
  - destruct (existsb is_deny p) eqn:E; [discriminate|].
    destruct e; cbn; rewrite ?orb_true_r, ?orb_false_r, ?andb_true_r, ?andb_false_r;
      repeat split; auto; discriminate.
  - destruct (existsb _ p) eqn:E; [discriminate|].
    rewrite !first_decided_app_indet by exact E.
    destruct e; cbn; rewrite ?orb_true_r, ?orb_false_r; repeat split; auto;
      try discriminate.
    pose proof (first_decided_app_indet p [] E) as H0. rewrite app_nil_r in H0. exact H0.
Qed.

(* one push from an Inv state *)
Lemma push_step r c p s e :
  Inv r c p s ->
  let s' := push s e in
  cap s' = c /\ srule s' = r /\ res s' = decl r (p ++ [e]) /\
  (length p + 1 = c -> done s' = true) /\
  (length p + 1 <> c ->
     (done s' = true -> forced r (p ++ [e]) = Some (res s')) /\
     (done s' = false -> Inv r c (p ++ [e]) s')).
Proof.
  intros HI. pose proof (push_core_spec r c p s e HI) as (H1 & H2 & H3).
  destruct HI as (Hd & Hi & Hc & Hr & Hres & Hf).
  unfold push. destruct (push_core s e) as [d r'] eqn:E. cbn in H1, H2, H3.
  rewrite Hi, Hc.
  destruct (Nat.eqb (length p + 1) c) eqn:En.
  - apply Nat.eqb_eq in En. cbn.
    split; [auto|]. split; [auto|]. split; [auto|].
    split; [auto|]. intros; lia.
  - apply Nat.eqb_neq in En. cbn.
    split; [auto|]. split; [auto|]. split; [auto|].
    split; [intros; lia|]. intros _. split.
    + intros Hd'. subst d. auto.
    + intros Hd'. subst d. unfold Inv. cbn.
      rewrite app_length. cbn. repeat split; auto; lia.
Qed.

Lemma run_spec r c : forall l p s,
  Inv r c p s -> l <> [] -> length p + length l = c ->
  done (run s l) = true /\ res (run s l) = decl r (p ++ l).
Proof.
  induction l as [|e l IH]; intros p s HI Hne Hlen; [contradiction|].
  cbn [run]. pose proof (push_step r c p s e HI) as (Hc & Hr & Hres & Hlast & Hmid).
  cbn in Hlast, Hmid, Hc, Hr, Hres.
  destruct (done (push s e)) eqn:Hd.
  - split; [exact Hd|].
    destruct (Nat.eq_dec (length p + 1) c) as [En|En].
    + cbn in Hlen. destruct l; [|exfalso; cbn in Hlen; lia]. exact Hres.
    + destruct (Hmid En) as (Hf & _). specialize (Hf eq_refl).
      pose proof (forced_sound _ _ _ Hf l) as Hs. rewrite <- app_assoc in Hs.
      cbn in Hs. symmetry. exact Hs.
  - destruct (Nat.eq_dec (length p + 1) c) as [En|En].
    + specialize (Hlast En). congruence.
    + destruct (Hmid En) as (_ & HI'). specialize (HI' eq_refl).
      destruct l as [|e' l'].
      { cbn in Hlen. lia. }
      specialize (IH (p ++ [e]) (push s e) HI').
      rewrite <- app_assoc in IH. cbn in IH. apply IH; [discriminate|].
      rewrite app_length. cbn in *. lia.
Qed.

Theorem run_result r l :
  l <> [] ->
  let s := run (new_stream_r r (length l)) l in
  done s = true /\ next s = Some (decl r l).
Proof.
  intros Hne s.
  destruct (run_spec r (length l) l [] _ (inv_init r _) Hne eq_refl) as (Hd & Hr).
  subst s. unfold next. rewrite Hd, Hr. auto.
Qed.

(* running a prefix without completion keeps the invariant *)
Lemma run_prefix_inv r c : forall l1 p s,
  Inv r c p s -> done (run s l1) = false -> Inv r c (p ++ l1) (run s l1).
Proof.
  induction l1 as [|e l1 IH]; intros p s HI Hnd.
  - rewrite app_nil_r. exact HI.
  - cbn [run] in *. pose proof (push_step r c p s e HI) as (_ & _ & _ & Hlast & Hmid).
    cbn in Hlast, Hmid.
    destruct (done (push s e)) eqn:Hd; [congruence|].
    destruct (Nat.eq_dec (length p + 1) c) as [En|En].
    + specialize (Hlast En). congruence.
    + destruct (Hmid En) as (_ & HI'). specialize (HI' eq_refl).
      specialize (IH _ _ HI' Hnd). rewrite <- app_assoc in IH. exact IH.
Qed.

(* completion signalled strictly before the announced capacity is final:
   no continuation of the sequence (of any length) changes the result *)
Theorem early_final r c l1 e :
  let s0 := new_stream_r r c in
  done (run s0 l1) = false ->
  done (push (run s0 l1) e) = true ->
  length l1 + 1 < c ->
  forall l2, decl r (l1 ++ e :: l2) = res (push (run s0 l1) e).
Proof.
  intros s0 Hnd Hd Hlt l2.
  pose proof (run_prefix_inv r c l1 [] s0 (inv_init r c) Hnd) as HI. cbn in HI.
  pose proof (push_step r c l1 _ e HI) as (_ & _ & _ & _ & Hmid). cbn in Hmid.
  destruct (Hmid ltac:(lia)) as (Hf & _). specialize (Hf Hd).
  pose proof (forced_sound _ _ _ Hf l2) as Hs. rewrite <- app_assoc in Hs. exact Hs.
Qed.

(* ---- pushing everything, flag ignored ---- *)
Lemma push_all_length : forall l s, length (snd (push_all s l)) = length l.
Proof.
  induction l as [|e l IH]; intros s; cbn; [reflexivity|].
  specialize (IH (push s e)). destruct (push_all (push s e) l). cbn in *. lia.
Qed.

Lemma push_keeps r c s e :
  cap s = c -> srule s = r -> cap (push s e) = c /\ srule (push s e) = r.
Proof.
  intros Hc Hr. unfold push. destruct (push_core s e).
  destruct (Nat.eqb _ _); cbn; auto.
Qed.

Lemma push_done_sticky s e : done s = true -> done (push s e) = true.
Proof.
  intros Hd. unfold push, push_core. rewrite Hd.
  destruct (srule s), e; destruct (Nat.eqb _ _); reflexivity.
Qed.

Lemma push_idx s e :
  idx s < cap s ->
  (idx s + 1 = cap s /\ done (push s e) = true /\ idx (push s e) = cap s) \/
  (idx s + 1 < cap s /\ idx (push s e) = idx s + 1).
Proof.
  intros Hlt. unfold push. destruct (push_core s e).
  destruct (Nat.eqb (idx s + 1) (cap s)) eqn:E.
  - apply Nat.eqb_eq in E. left. cbn. auto.
  - apply Nat.eqb_neq in E. right. cbn. lia.
Qed.

Lemma push_all_done_sticky : forall l s,
  done s = true -> done (fst (push_all s l)) = true /\ Forall (eq true) (snd (push_all s l)).
Proof.
  induction l as [|e l IH]; intros s Hd; cbn; [auto|].
  pose proof (push_done_sticky s e Hd) as Hd'.
  specialize (IH _ Hd'). destruct (push_all (push s e) l). cbn in *.
  destruct IH. split; auto.
Qed.

Lemma push_all_cap c : forall l s,
  cap s = c -> idx s + length l = c -> l <> [] ->
  done (fst (push_all s l)) = true /\ last (snd (push_all s l)) false = true.
Proof.
  induction l as [|e l IH]; intros s Hc Hlen Hne; [contradiction|].
  cbn [push_all].
  assert (Hlt : idx s < cap s) by (cbn in Hlen; lia).
  destruct (push_all (push s e) l) as [s'' fl] eqn:E.
  destruct (push_idx s e Hlt) as [(H1 & H2 & H3)|(H1 & H2)].
  - assert (l = []) by (destruct l; [reflexivity|cbn in Hlen; lia]). subst l.
    cbn in E. inversion E; subst. cbn. auto.
  - destruct l as [|e' l'].
    { cbn in Hlen. lia. }
    specialize (IH (push s e)). rewrite E in IH. cbn [fst snd] in IH.
    destruct IH as (Hd & Hl).
    + unfold push. destruct (push_core s e). destruct (Nat.eqb _ _); cbn; auto.
    + rewrite H2. cbn in *. lia.
    + discriminate.
    + cbn [fst snd]. split; [exact Hd|].
      destruct fl as [|f fl'].
      { pose proof (push_all_length (e' :: l') (push s e)) as HL. rewrite E in HL.
        cbn in HL. lia. }
      exact Hl.
Qed.

(* always complete once the announced number of effects has been pushed,
   even if the caller ignores the flag *)
Theorem cap_complete r l :
  l <> [] ->
  let sf := push_all (new_stream_r r (length l)) l in
  done (fst sf) = true /\ last (snd sf) false = true.
Proof.
  intros Hne. apply (push_all_cap (length l)); auto.
Qed.

(* next is readable exactly when done *)
Lemma next_readable s : (exists b, next s = Some b) <-> done s = true.
Proof.
  unfold next. destruct (done s); split; intros H; eauto; try discriminate.
  destruct H; discriminate.
Qed.

(* ---- flags of push_all agree with run up to the first completion ---- *)
Lemma first_true_shift : forall fl i j,
  first_true fl i = Some j -> first_true fl (S i) = Some (S j).
Proof.
  induction fl as [|b fl IH]; cbn; intros i j H; [discriminate|].
  destruct b; [inversion H; reflexivity|]. apply IH, H.
Qed.

Lemma first_true_none_shift : forall fl i j,
  first_true fl i = None -> first_true fl j = None.
Proof.
  induction fl as [|b fl IH]; cbn; intros i j H; [reflexivity|].
  destruct b; [discriminate|]. eapply IH, H.
Qed.

Lemma flags_forced r c : forall l p s,
  Inv r c p s -> length p + length l = c ->
  match first_true (snd (push_all s l)) 0 with
  | Some i => i + 1 < length l ->
              forced r (p ++ firstn (i + 1) l) = Some (res (run s l))
  | None => l = []
  end.
Proof.
  induction l as [|e l IH]; intros p s HI Hlen; cbn [push_all run]; [reflexivity|].
  pose proof (push_step r c p s e HI) as (_ & _ & _ & Hlast & Hmid).
  cbn zeta in Hlast, Hmid.
  destruct (push_all (push s e) l) as [s'' fl] eqn:E. cbn [snd first_true].
  destruct (done (push s e)) eqn:Hd.
  - cbn [length]. intros Hlt. cbn [firstn Nat.add].
    destruct (Hmid ltac:(cbn in Hlen; lia)) as (Hf & _). exact (Hf eq_refl).
  - assert (En : length p + 1 <> c).
    { intros En. specialize (Hlast En). congruence. }
    destruct (Hmid En) as (_ & HI'). specialize (HI' eq_refl).
    specialize (IH (p ++ [e]) (push s e) HI').
    rewrite E in IH. cbn [snd] in IH.
    assert (Hlen' : length (p ++ [e]) + length l = c).
    { rewrite app_length. cbn in *. lia. }
    specialize (IH Hlen').
    destruct (first_true fl 0) as [i|] eqn:Ef.
    + rewrite (first_true_shift _ _ _ Ef). cbn [length]. intros Hlt.
      replace (S i + 1) with (S (i + 1)) by lia. cbn [firstn].
      rewrite <- app_assoc in IH. cbn [app] in IH. apply IH. lia.
    + subst l. cbn in Hlen. exfalso. lia.
Qed.

(* the model's own observation satisfies the C02 predicate, for every rule and
   every sequence: so an implementation observation equal to the model's
   satisfies it too *)
Theorem c02_pred_model r l : c02_pred r l (observe_effector r l) = true.
Proof.
  unfold c02_pred. destruct l as [|e0 l0] eqn:El; [reflexivity|]. rewrite <- El.
  assert (Hne : l <> []) by (subst; discriminate).
  unfold observe_effector.
  pose proof (cap_complete r l Hne) as (Hcd & Hlast). cbn zeta in Hcd, Hlast.
  pose proof (push_all_length l (new_stream_r r (length l))) as Hlen.
  pose proof (run_result r l Hne) as (Hrd & Hrn). cbn zeta in Hrd, Hrn.
  pose proof (flags_forced r (length l) l [] _ (inv_init r _) eq_refl) as Hft.
  destruct (push_all (new_stream_r r (length l)) l) as [sa fl] eqn:E.
  cbn [fst snd] in *. cbn [o_flags o_run o_all].
  rewrite Hrn. cbn [obool_eqb]. rewrite Bool.eqb_reflx. rewrite Hlen, Nat.eqb_refl.
  rewrite Hlast. cbn [andb].
  destruct (first_true fl 0) as [i|] eqn:Ef; [|congruence].
  destruct (Nat.ltb (i + 1) (length l)) eqn:Elt; [|reflexivity].
  apply Nat.ltb_lt in Elt. specialize (Hft Elt). cbn [app] in Hft. rewrite Hft.
  unfold next in Hrn. rewrite Hrd in Hrn. inversion Hrn as [Hres].
  rewrite Hres. cbn. apply Bool.eqb_reflx.
Qed.

(* parse_erule recognises exactly the four texts *)
Lemma parse_erule_text r : parse_erule (erule_text r) = Some r.
Proof. destruct r; vm_compute; reflexivity. Qed.
