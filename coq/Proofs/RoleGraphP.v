(* Proofs about Model/RoleGraph.v (C03). *)
From CV Require Import Model.Base Model.RoleGraph Proofs.ListAux Proofs.BaseP.
From Coq Require Import Lia Relations.

Definition edges_of (m : rmgr) (d : option text) : list (text * text) :=
  match graph_of m d with Some g => edges g | None => [] end.
Definition Edge (m : rmgr) (d : option text) (x y : text) : Prop := In (x, y) (edges_of m d).
Inductive path {A} (R : A -> A -> Prop) : nat -> A -> A -> Prop :=
| path0 : forall a, path R 0 a a
| pathS : forall k a b c, R a b -> path R k b c -> path R (S k) a c.
Definition wf_graph (g : dgraph) : Prop :=
  NoDup (nodes g) /\ NoDup (edges g) /\
  (forall x y, In (x, y) (edges g) -> In x (nodes g) /\ In y (nodes g) /\ x <> y).
Definition wf (m : rmgr) : Prop :=
  NoDup (map fst m) /\ forall k g, In (k, g) m -> wf_graph g.

(* ---- pairs ---- *)
Lemma peqb_eq : forall p q, peqb p q = true <-> p = q.
Proof.
  intros [a b] [c d]. unfold peqb. cbn [fst snd]. rewrite andb_true_iff, !teqb_eq.
  split.
  - intros [H1 H2]. subst. reflexivity.
  - intros H. inversion H. split; reflexivity.
Qed.

Lemma peqb_refl : forall p, peqb p p = true.
Proof. intros p. apply peqb_eq. reflexivity. Qed.

Lemma peqb_neq : forall p q, peqb p q = false <-> p <> q.
Proof.
  intros p q. split.
  - intros H E. apply peqb_eq in E. rewrite E in H. discriminate.
  - intros H. destruct (peqb p q) eqn:E; [|reflexivity].
    apply peqb_eq in E. contradiction.
Qed.

Lemma memb_peqb_In : forall p l, memb peqb p l = true <-> In p l.
Proof. apply memb_In_gen. exact peqb_eq. Qed.

Lemma has_node_In : forall g n, has_node g n = true <-> In n (nodes g).
Proof. intros g n. apply memb_In. Qed.

Lemma has_edge_In : forall g a b, has_edge g a b = true <-> In (a, b) (edges g).
Proof. intros g a b. apply memb_peqb_In. Qed.

(* ---- graph-level operations ---- *)
Lemma add_node_nodes : forall g n x, In x (nodes (add_node g n)) <-> x = n \/ In x (nodes g).
Proof.
  intros g n x. unfold add_node. destruct (has_node g n) eqn:E.
  - apply has_node_In in E. split; [auto|]. intros [->|H]; assumption.
  - cbn [nodes]. rewrite in_app_iff. cbn [In]. split.
    + intros [H|[H|[]]]; auto.
    + intros [H|H]; auto.
Qed.

Lemma add_node_edges : forall g n, edges (add_node g n) = edges g.
Proof. intros g n. unfold add_node. destruct (has_node g n); reflexivity. Qed.

Lemma add_node_NoDup : forall g n, NoDup (nodes g) -> NoDup (nodes (add_node g n)).
Proof.
  intros g n Hnd. unfold add_node. destruct (has_node g n) eqn:E; [exact Hnd|].
  cbn [nodes]. apply NoDup_snoc; [exact Hnd|].
  intros H. apply has_node_In in H. rewrite H in E. discriminate.
Qed.

Lemma g_add_link_nodes : forall g a b x,
  In x (nodes (g_add_link g a b)) <-> x = a \/ x = b \/ In x (nodes g).
Proof.
  intros g a b x. unfold g_add_link.
  destruct (has_edge _ a b); cbn [nodes]; rewrite !add_node_nodes; tauto.
Qed.

Lemma g_add_link_edges : forall g a b p,
  In p (edges (g_add_link g a b)) <-> p = (a, b) \/ In p (edges g).
Proof.
  intros g a b p. unfold g_add_link.
  destruct (has_edge _ a b) eqn:E; cbn [edges]; rewrite ?add_node_edges.
  - apply has_edge_In in E. rewrite !add_node_edges in E.
    split; [auto|]. intros [->|H]; assumption.
  - cbn [In]. split; intros [H|H]; auto.
Qed.

Lemma wf_empty_graph : wf_graph empty_graph.
Proof.
  unfold wf_graph, empty_graph. cbn [nodes edges].
  split; [constructor|]. split; [constructor|]. intros x y [].
Qed.

Lemma wf_g_add_link : forall g a b, a <> b -> wf_graph g -> wf_graph (g_add_link g a b).
Proof.
  intros g a b Hab (Hn & He & Hc). split; [|split].
  - unfold g_add_link. destruct (has_edge _ a b); cbn [nodes];
      apply add_node_NoDup, add_node_NoDup, Hn.
  - unfold g_add_link. destruct (has_edge _ a b) eqn:E; cbn [edges];
      rewrite ?add_node_edges; [exact He|].
    constructor; [|exact He].
    intros H.
    assert (E2 : has_edge (add_node (add_node g a) b) a b = true).
    { apply has_edge_In. rewrite !add_node_edges. exact H. }
    rewrite E2 in E. discriminate.
  - intros x y Hin. apply g_add_link_edges in Hin. rewrite !g_add_link_nodes.
    destruct Hin as [Heq|Hin].
    + inversion Heq; subst. auto.
    + destruct (Hc x y Hin) as (H1 & H2 & H3). auto.
Qed.

Lemma g_del_link_edges : forall g a b p,
  In p (edges (g_del_link g a b)) <-> In p (edges g) /\ p <> (a, b).
Proof.
  intros g a b p. unfold g_del_link. cbn [edges]. rewrite filter_In.
  rewrite negb_true_iff, peqb_neq. reflexivity.
Qed.

Lemma wf_g_del_link : forall g a b, wf_graph g -> wf_graph (g_del_link g a b).
Proof.
  intros g a b (Hn & He & Hc). split; [|split].
  - exact Hn.
  - unfold g_del_link. cbn [edges]. apply NoDup_filter, He.
  - intros x y Hin. apply g_del_link_edges in Hin. destruct Hin as [Hin _].
    unfold g_del_link. cbn [nodes]. apply Hc, Hin.
Qed.

(* ---- manager-level: well-formedness (item 1) ---- *)
Lemma wf_nil : wf [].
Proof. split; [constructor|]. intros k g []. Qed.

Lemma wf_graph_of : forall m d g, wf m -> graph_of m d = Some g -> wf_graph g.
Proof.
  intros m d g [_ Hw] Hg. unfold graph_of in Hg. apply assoc_In in Hg.
  apply (Hw _ _ Hg).
Qed.

Lemma wf_assoc_set : forall m k g, wf m -> wf_graph g -> wf (assoc_set k g m).
Proof.
  intros m k g [Hnd Hw] Hg. split.
  - apply assoc_set_NoDup, Hnd.
  - intros k' g' Hin. apply assoc_set_In in Hin. destruct Hin as [[_ ->]|Hin].
    + exact Hg.
    + apply (Hw _ _ Hin).
Qed.

Lemma wf_add_link : forall m a b d, wf m -> wf (add_link m a b d).
Proof.
  intros m a b d Hwf. unfold add_link. destruct (teqb a b) eqn:E; [exact Hwf|].
  apply teqb_neq in E. apply wf_assoc_set; [exact Hwf|].
  apply wf_g_add_link; [exact E|].
  destruct (graph_of m d) as [g|] eqn:Hg.
  - apply (wf_graph_of _ _ _ Hwf Hg).
  - apply wf_empty_graph.
Qed.

Lemma wf_delete_link : forall m a b d, wf m -> wf (fst (delete_link m a b d)).
Proof.
  intros m a b d Hwf. unfold delete_link.
  destruct (teqb a b); [exact Hwf|].
  destruct (graph_of m d) as [g|] eqn:Hg; [|exact Hwf].
  destruct (has_node g a && has_node g b); cbn [fst]; [|exact Hwf].
  apply wf_assoc_set; [exact Hwf|]. apply wf_g_del_link.
  apply (wf_graph_of _ _ _ Hwf Hg).
Qed.

Theorem wf_lstep : forall m o, wf m -> wf (fst (lstep m o)).
Proof.
  intros m [a b d|a b d|] Hwf; cbn [lstep fst].
  - apply wf_add_link, Hwf.
  - apply wf_delete_link, Hwf.
  - apply wf_nil.
Qed.

Lemma wf_fold : forall h m, wf m -> wf (fold_left (fun m o => fst (lstep m o)) h m).
Proof.
  induction h as [|o h IH]; intros m Hwf; cbn [fold_left]; [exact Hwf|].
  apply IH, wf_lstep, Hwf.
Qed.

Theorem wf_lrun : forall h, wf (lrun h).
Proof. intros h. apply wf_fold, wf_nil. Qed.

(* ---- domain locality (item 7) ---- *)
Lemma graph_of_assoc_set_same : forall m d g, graph_of (assoc_set (dom_key d) g m) d = Some g.
Proof. intros m d g. unfold graph_of. apply assoc_set_same. Qed.

Lemma graph_of_assoc_set_other : forall m d d' g,
  dom_key d' <> dom_key d -> graph_of (assoc_set (dom_key d') g m) d = graph_of m d.
Proof. intros m d d' g Hne. unfold graph_of. apply assoc_set_other, Hne. Qed.

Theorem domain_local : forall m o d, wf m ->
  (match o with LAdd _ _ d' | LDel _ _ d' => dom_key d' <> dom_key d | LClear => False end) ->
  graph_of (fst (lstep m o)) d = graph_of m d.
Proof.
  intros m [a b d'|a b d'|] d Hwf Hne; cbn [lstep fst]; [| |destruct Hne].
  - unfold add_link. destruct (teqb a b); [reflexivity|].
    apply graph_of_assoc_set_other, Hne.
  - unfold delete_link. destruct (teqb a b); [reflexivity|].
    destruct (graph_of m d') as [g|]; [|reflexivity].
    destruct (has_node g a && has_node g b); cbn [fst]; [|reflexivity].
    apply graph_of_assoc_set_other, Hne.
Qed.

(* ---- refinement of the link-set specification (item 2) ---- *)
Definition agree (m : rmgr) (d : option text) (acc : links) : Prop :=
  forall p, In p (edges_of m d) <-> In p acc.

Lemma lset_add_In : forall l q p, In p (lset_add l q) <-> p = q \/ In p l.
Proof.
  intros l q p. unfold lset_add. destruct (memb peqb q l) eqn:E.
  - apply memb_peqb_In in E. split; [auto|]. intros [->|H]; assumption.
  - cbn [In]. split; intros [H|H]; auto.
Qed.

Lemma lset_del_In : forall l q p, In p (lset_del l q) <-> In p l /\ p <> q.
Proof.
  intros l q p. unfold lset_del. rewrite filter_In, negb_true_iff, peqb_neq. reflexivity.
Qed.

Lemma graph_of_key : forall m d d', dom_key d' = dom_key d -> graph_of m d' = graph_of m d.
Proof. intros m d d' H. unfold graph_of. rewrite H. reflexivity. Qed.

Lemma edges_of_assoc_set_same : forall m d d' g,
  dom_key d' = dom_key d -> edges_of (assoc_set (dom_key d') g m) d = edges g.
Proof.
  intros m d d' g H. unfold edges_of. rewrite H, graph_of_assoc_set_same. reflexivity.
Qed.

Lemma edges_of_assoc_set_other : forall m d d' g,
  dom_key d' <> dom_key d -> edges_of (assoc_set (dom_key d') g m) d = edges_of m d.
Proof.
  intros m d d' g H. unfold edges_of. rewrite graph_of_assoc_set_other by exact H. reflexivity.
Qed.

Lemma agree_add_same : forall m a b d d' acc,
  dom_key d' = dom_key d -> a <> b -> agree m d acc ->
  agree (add_link m a b d') d (lset_add acc (a, b)).
Proof.
  intros m a b d d' acc Hk Hab Hag p. unfold add_link.
  apply teqb_neq in Hab. rewrite Hab.
  rewrite edges_of_assoc_set_same by exact Hk.
  rewrite g_add_link_edges, lset_add_In, <- (Hag p).
  unfold edges_of. rewrite (graph_of_key m d d' Hk).
  destruct (graph_of m d); reflexivity.
Qed.

Lemma agree_add_other : forall m a b d d' acc,
  dom_key d' <> dom_key d -> agree m d acc -> agree (add_link m a b d') d acc.
Proof.
  intros m a b d d' acc Hk Hag p. unfold add_link.
  destruct (teqb a b); [apply Hag|].
  rewrite edges_of_assoc_set_other by exact Hk. apply Hag.
Qed.

Lemma agree_add_refl : forall m a d d' acc, agree m d acc -> agree (add_link m a a d') d acc.
Proof.
  intros m a d d' acc Hag. unfold add_link. rewrite teqb_refl. exact Hag.
Qed.

Lemma agree_del_same : forall m a b d d' acc,
  wf m -> dom_key d' = dom_key d -> agree m d acc ->
  agree (fst (delete_link m a b d')) d (lset_del acc (a, b)).
Proof.
  intros m a b d d' acc Hwf Hk Hag p. rewrite lset_del_In, <- (Hag p).
  unfold delete_link. rewrite (graph_of_key m d d' Hk).
  destruct (teqb a b) eqn:Eab.
  { apply teqb_eq in Eab. subst b. cbn [fst]. split; [|tauto]. intros Hin. split; [exact Hin|].
    intros ->. unfold edges_of in Hin. destruct (graph_of m d) as [g|] eqn:Hg; [|destruct Hin].
    destruct (wf_graph_of _ _ _ Hwf Hg) as (_ & _ & Hc).
    destruct (Hc a a Hin) as (_ & _ & Hne). apply Hne. reflexivity. }
  destruct (graph_of m d) as [g|] eqn:Hg.
  - destruct (has_node g a && has_node g b) eqn:E; cbn [fst].
    + rewrite edges_of_assoc_set_same by exact Hk.
      rewrite g_del_link_edges. unfold edges_of. rewrite Hg. reflexivity.
    + unfold edges_of. rewrite Hg. split; [|tauto]. intros Hin. split; [exact Hin|].
      intros ->. destruct (wf_graph_of _ _ _ Hwf Hg) as (_ & _ & Hc).
      destruct (Hc a b Hin) as (Ha & Hb & _).
      apply has_node_In in Ha. apply has_node_In in Hb. rewrite Ha, Hb in E. discriminate.
  - cbn [fst]. unfold edges_of. rewrite Hg. cbn [In]. tauto.
Qed.

Lemma agree_del_other : forall m a b d d' acc,
  dom_key d' <> dom_key d -> agree m d acc -> agree (fst (delete_link m a b d')) d acc.
Proof.
  intros m a b d d' acc Hk Hag p. unfold delete_link.
  destruct (teqb a b); [apply Hag|].
  destruct (graph_of m d') as [g|]; [|apply Hag].
  destruct (has_node g a && has_node g b); cbn [fst]; [|apply Hag].
  rewrite edges_of_assoc_set_other by exact Hk. apply Hag.
Qed.

Lemma refine_gen : forall h m acc d, wf m -> agree m d acc ->
  agree (fold_left (fun m o => fst (lstep m o)) h m) d (spec_links h (dom_key d) acc).
Proof.
  induction h as [|o h IH]; intros m acc d Hwf Hag; cbn [fold_left spec_links]; [exact Hag|].
  destruct o as [a b d'|a b d'|].
  - apply IH; [apply (wf_lstep m (LAdd a b d')), Hwf|]. cbn [lstep fst].
    destruct (teqb (dom_key d') (dom_key d)) eqn:Ek; cbn [andb].
    + apply teqb_eq in Ek. destruct (teqb a b) eqn:Eab; cbn [negb].
      * apply teqb_eq in Eab. subst b. apply agree_add_refl, Hag.
      * apply teqb_neq in Eab. apply agree_add_same; assumption.
    + apply teqb_neq in Ek. apply agree_add_other; assumption.
  - apply IH; [apply (wf_lstep m (LDel a b d')), Hwf|]. cbn [lstep].
    destruct (teqb (dom_key d') (dom_key d)) eqn:Ek.
    + apply teqb_eq in Ek. apply agree_del_same; assumption.
    + apply teqb_neq in Ek. apply agree_del_other; assumption.
  - apply IH; [apply wf_nil|]. cbn [lstep fst]. unfold rm_clear. intros p.
    unfold edges_of, graph_of. cbn [assoc In]. tauto.
Qed.

Theorem links_refine : forall h d a b,
  In (a, b) (edges_of (lrun h) d) <-> In (a, b) (spec_links h (dom_key d) []).
Proof.
  intros h d a b. apply (refine_gen h [] [] d wf_nil).
  intros p. unfold edges_of, graph_of. cbn [assoc In]. tauto.
Qed.

(* ---- get_roles / get_users (item 6) ---- *)
Lemma succs_In : forall g n x, In x (succs g n) <-> In (n, x) (edges g).
Proof.
  intros g n x. unfold succs. rewrite in_map_iff. split.
  - intros [[u v] [Hv Hin]]. apply filter_In in Hin. destruct Hin as [Hin Hu].
    cbn [fst snd] in *. apply teqb_eq in Hu. subst. exact Hin.
  - intros Hin. exists (n, x). split; [reflexivity|]. apply filter_In.
    split; [exact Hin|]. cbn [fst]. apply teqb_refl.
Qed.

Lemma preds_In : forall g n x, In x (preds g n) <-> In (x, n) (edges g).
Proof.
  intros g n x. unfold preds. rewrite in_map_iff. split.
  - intros [[u v] [Hv Hin]]. apply filter_In in Hin. destruct Hin as [Hin Hu].
    cbn [fst snd] in *. apply teqb_eq in Hu. subst. exact Hin.
  - intros Hin. exists (x, n). split; [reflexivity|]. apply filter_In.
    split; [exact Hin|]. cbn [snd]. apply teqb_refl.
Qed.

Lemma NoDup_map_snd_fst_fixed : forall (l : list (text * text)) n,
  NoDup l -> NoDup (map snd (filter (fun e => teqb (fst e) n) l)).
Proof.
  intros l n Hnd. induction Hnd as [|[u v] l Hx Hl IH]; cbn [filter map]; [constructor|].
  cbn [fst]. destruct (teqb u n) eqn:E; [|exact IH]. cbn [map snd].
  apply teqb_eq in E. subst u. constructor; [|exact IH].
  intros Hin. apply in_map_iff in Hin. destruct Hin as [[u' v'] [Hv Hin]].
  apply filter_In in Hin. destruct Hin as [Hin Hu]. cbn [fst snd] in *.
  apply teqb_eq in Hu. subst. contradiction.
Qed.

Lemma NoDup_map_fst_snd_fixed : forall (l : list (text * text)) n,
  NoDup l -> NoDup (map fst (filter (fun e => teqb (snd e) n) l)).
Proof.
  intros l n Hnd. induction Hnd as [|[u v] l Hx Hl IH]; cbn [filter map]; [constructor|].
  cbn [snd]. destruct (teqb v n) eqn:E; [|exact IH]. cbn [map fst].
  apply teqb_eq in E. subst v. constructor; [|exact IH].
  intros Hin. apply in_map_iff in Hin. destruct Hin as [[u' v'] [Hv Hin]].
  apply filter_In in Hin. destruct Hin as [Hin Hu]. cbn [fst snd] in *.
  apply teqb_eq in Hu. subst. contradiction.
Qed.

Theorem get_roles_spec : forall m n d x, wf m -> In x (get_roles m n d) <-> Edge m d n x.
Proof.
  intros m n d x Hwf. unfold get_roles, Edge, edges_of.
  destruct (graph_of m d) as [g|] eqn:Hg; [|reflexivity].
  destruct (has_node g n) eqn:E; [apply succs_In|].
  split; [intros []|]. intros Hin.
  destruct (wf_graph_of _ _ _ Hwf Hg) as (_ & _ & Hc).
  destruct (Hc _ _ Hin) as (Hn & _). apply has_node_In in Hn. rewrite Hn in E. discriminate.
Qed.

Theorem get_users_spec : forall m n d x, wf m -> In x (get_users m n d) <-> Edge m d x n.
Proof.
  intros m n d x Hwf. unfold get_users, Edge, edges_of.
  destruct (graph_of m d) as [g|] eqn:Hg; [|reflexivity].
  destruct (has_node g n) eqn:E; [apply preds_In|].
  split; [intros []|]. intros Hin.
  destruct (wf_graph_of _ _ _ Hwf Hg) as (_ & _ & Hc).
  destruct (Hc _ _ Hin) as (_ & Hn & _). apply has_node_In in Hn. rewrite Hn in E. discriminate.
Qed.

Theorem get_roles_NoDup : forall m n d, wf m -> NoDup (get_roles m n d).
Proof.
  intros m n d Hwf. unfold get_roles.
  destruct (graph_of m d) as [g|] eqn:Hg; [|constructor].
  destruct (has_node g n); [|constructor].
  apply NoDup_map_snd_fst_fixed. apply (wf_graph_of _ _ _ Hwf Hg).
Qed.

Theorem get_users_NoDup : forall m n d, wf m -> NoDup (get_users m n d).
Proof.
  intros m n d Hwf. unfold get_users.
  destruct (graph_of m d) as [g|] eqn:Hg; [|constructor].
  destruct (has_node g n); [|constructor].
  apply NoDup_map_fst_snd_fixed. apply (wf_graph_of _ _ _ Hwf Hg).
Qed.

(* ---- paths ---- *)
Section Paths.
  Context {A : Type} (R : A -> A -> Prop).

  Lemma path_snoc : forall k a b c, path R k a b -> R b c -> path R (S k) a c.
  Proof.
    intros k a b c Hp Hr. induction Hp as [a|k a b' c' Hab Hp IH].
    - apply (pathS R 0 a c c Hr). apply path0.
    - apply (pathS R (S k) a b' c Hab). apply IH, Hr.
  Qed.

  Lemma path_snoc_inv : forall k a c, path R (S k) a c -> exists b, path R k a b /\ R b c.
  Proof.
    induction k as [|k IH]; intros a c Hp.
    - inversion Hp as [|k' a' b c' Hab Hp']; subst. inversion Hp'; subst.
      exists a. split; [apply path0|exact Hab].
    - inversion Hp as [|k' a' b c' Hab Hp']; subst.
      destruct (IH _ _ Hp') as [b' [Hp2 Hr]]. exists b'. split; [|exact Hr].
      apply (pathS R k a b b' Hab Hp2).
  Qed.

  Lemma path_app : forall i j a b c, path R i a b -> path R j b c -> path R (i + j) a c.
  Proof.
    intros i j a b c Hp Hq. induction Hp as [a|k a b' c' Hab Hp IH]; cbn [plus]; [exact Hq|].
    apply (pathS R (k + j) a b' c Hab). apply IH, Hq.
  Qed.

  Lemma path_clos : forall k a b, path R k a b -> a = b \/ clos_trans A R a b.
  Proof.
    intros k a b Hp. induction Hp as [a|k a b c Hab Hp IH]; [left; reflexivity|].
    right. destruct IH as [->|IH]; [apply t_step, Hab|].
    apply (t_trans A R a b c); [apply t_step, Hab|exact IH].
  Qed.

  Lemma clos_path : forall a b, clos_trans A R a b -> exists k, path R (S k) a b.
  Proof.
    intros a b H. induction H as [a b Hab|a b c _ [i Hi] _ [j Hj]].
    - exists 0. apply (pathS R 0 a b b Hab). apply path0.
    - exists (i + S j). apply (path_app (S i) (S j) a b c Hi Hj).
  Qed.

  Lemma path0_inv : forall a b, path R 0 a b -> a = b.
  Proof. intros a b H. inversion H. reflexivity. Qed.
End Paths.

Lemma path_impl : forall {A} (R R' : A -> A -> Prop), (forall x y, R x y -> R' x y) ->
  forall k a b, path R k a b -> path R' k a b.
Proof.
  intros A R R' Himp k a b Hp. induction Hp as [a|k a b c Hab Hp IH]; [apply path0|].
  apply (pathS R' k a b c); [apply Himp, Hab|exact IH].
Qed.

Lemma clos_trans_impl : forall {A} (R R' : A -> A -> Prop), (forall x y, R x y -> R' x y) ->
  forall a b, clos_trans A R a b -> clos_trans A R' a b.
Proof.
  intros A R R' Himp a b H. induction H as [a b Hab|a b c _ IH1 _ IH2].
  - apply t_step, Himp, Hab.
  - apply (t_trans A R' a b c IH1 IH2).
Qed.

(* ---- within (item 8) ---- *)
Lemma add_new_In : forall xs acc x, In x (add_new xs acc) <-> In x xs \/ In x acc.
Proof.
  induction xs as [|y xs IH]; intros acc x; cbn [add_new In]; [tauto|].
  destruct (memb teqb y acc) eqn:E; rewrite IH.
  - apply memb_In in E. split; [tauto|]. intros [[->|H]|H]; auto.
  - rewrite in_app_iff. cbn [In]. tauto.
Qed.

Lemma add_new_NoDup : forall xs acc, NoDup acc -> NoDup (add_new xs acc).
Proof.
  induction xs as [|y xs IH]; intros acc Hnd; cbn [add_new]; [exact Hnd|].
  destruct (memb teqb y acc) eqn:E; apply IH; [exact Hnd|].
  apply memb_not_In in E. apply NoDup_snoc; assumption.
Qed.

Lemma lsuccs_In : forall l n x, In x (lsuccs l n) <-> In (n, x) l.
Proof.
  intros l n x. apply (succs_In {| nodes := []; edges := l |} n x).
Qed.

Lemma within_NoDup : forall l k a, NoDup (within l k a).
Proof.
  intros l k a. induction k as [|k IH]; cbn [within].
  - constructor; [intros []|constructor].
  - apply add_new_NoDup, IH.
Qed.

Theorem within_spec : forall l k a b,
  In b (within l k a) <-> exists j, j <= k /\ path (fun x y => In (x, y) l) j a b.
Proof.
  intros l k a. induction k as [|k IH]; intros b; cbn [within].
  - cbn [In]. split.
    + intros [->|[]]. exists 0. split; [lia|apply path0].
    + intros [j [Hj Hp]]. assert (j = 0) by lia. subst j. left. apply (path0_inv _ _ _ Hp).
  - rewrite add_new_In, in_flat_map. split.
    + intros [[c [Hc Hb]]|Hb].
      * apply IH in Hc. destruct Hc as [j [Hj Hp]]. apply lsuccs_In in Hb.
        exists (S j). split; [lia|]. apply (path_snoc _ j a c b Hp Hb).
      * apply IH in Hb. destruct Hb as [j [Hj Hp]]. exists j. split; [lia|exact Hp].
    + intros [j [Hj Hp]]. destruct (Nat.eq_dec j (S k)) as [->|Hne].
      * apply path_snoc_inv in Hp. destruct Hp as [c [Hp Hcb]]. left. exists c. split.
        -- apply IH. exists k. split; [lia|exact Hp].
        -- apply lsuccs_In, Hcb.
      * right. apply IH. exists j. split; [lia|exact Hp].
Qed.

(* ---- discover ---- *)
Lemma discover_In : forall ss disc x, In x (discover ss disc) <-> In x ss /\ ~ In x disc.
Proof.
  induction ss as [|s r IH]; intros disc x; cbn [discover In]; [tauto|].
  destruct (memb teqb s disc) eqn:E.
  - apply memb_In in E. rewrite IH. split; [tauto|].
    intros [[->|H] Hn]; [contradiction|tauto].
  - apply memb_not_In in E. cbn [In]. rewrite IH. cbn [In]. split.
    + intros [->|[Hr Hn]]; [tauto|]. split; [tauto|]. intros H. apply Hn. right. exact H.
    + intros [[->|Hr] Hn]; [tauto|].
      destruct (text_eq_dec s x) as [->|Hne]; [tauto|]. right. split; [exact Hr|].
      intros [H|H]; contradiction.
Qed.

Lemma discover_NoDup : forall ss disc, NoDup (discover ss disc).
Proof.
  induction ss as [|s r IH]; intros disc; cbn [discover]; [constructor|].
  destruct (memb teqb s disc); [apply IH|]. constructor; [|apply IH].
  intros H. apply discover_In in H. destruct H as [_ H]. apply H. left. reflexivity.
Qed.

Lemma bfs_visit_S : forall fuel g maxd q disc depth rem,
  bfs_visit (S fuel) g maxd q disc depth rem =
  if Nat.leb maxd depth then []
  else match q with
       | [] => []
       | v :: q' =>
         v :: bfs_visit fuel g maxd (q' ++ discover (succs g v) disc)
                (disc ++ discover (succs g v) disc)
                (if Nat.eqb (rem - 1) 0 then depth + 1 else depth)
                (rem - 1 + length (discover (succs g v) disc))
       end.
Proof. reflexivity. Qed.

(* ---- BFS on one graph ---- *)
Section BFS.
  Variable g : dgraph.
  Hypothesis Hwf : wf_graph g.
  Variable maxd : nat.
  Variable a : text.

  Let R (x y : text) : Prop := In (x, y) (edges g).
  Definition reach_g (v : text) : Prop := a = v \/ clos_trans text R a v.

  Lemma reach_g_step : forall v w, reach_g v -> R v w -> reach_g w.
  Proof.
    intros v w [<-|H] Hr; right; [apply t_step, Hr|].
    apply (t_trans text R a v w H). apply t_step, Hr.
  Qed.

  (* soundness: only reachable nodes are ever discovered *)
  Lemma bfs_sound_gen : forall fuel q disc depth rem,
    (forall v, In v disc -> reach_g v) -> incl q disc ->
    forall b, In b (bfs_visit fuel g maxd q disc depth rem) -> reach_g b.
  Proof.
    induction fuel as [|fuel IH]; intros q disc depth rem Hd Hq b Hb; [destruct Hb|].
    rewrite bfs_visit_S in Hb. destruct (Nat.leb maxd depth); [destruct Hb|].
    destruct q as [|v q']; [destruct Hb|].
    assert (Hv : reach_g v) by (apply Hd, Hq; left; reflexivity).
    destruct Hb as [<-|Hb]; [exact Hv|].
    apply IH in Hb; [exact Hb| |].
    - intros w Hw. apply in_app_or in Hw. destruct Hw as [Hw|Hw]; [apply Hd, Hw|].
      apply discover_In in Hw. destruct Hw as [Hw _]. apply succs_In in Hw.
      apply (reach_g_step v w Hv Hw).
    - intros w Hw. apply in_app_or in Hw. apply in_or_app.
      destruct Hw as [Hw|Hw]; [left; apply Hq; right; exact Hw|right; exact Hw].
  Qed.

  Lemma bfs_from_sound : forall b, In b (bfs_from g maxd a) -> reach_g b.
  Proof.
    intros b Hb. unfold bfs_from in Hb. apply bfs_sound_gen in Hb; [exact Hb| |].
    - intros v [<-|[]]. left. reflexivity.
    - apply incl_refl.
  Qed.

  (* shape of the BFS state: disc = P ++ q, duplicate-free, inside nodes g *)
  Definition shape (P q : list text) : Prop :=
    NoDup (P ++ q) /\ incl (P ++ q) (nodes g).

  Lemma step_disc : forall (P : list text) v q' nw,
    (P ++ v :: q') ++ nw = (P ++ [v]) ++ q' ++ nw.
  Proof. intros P v q' nw. rewrite <- !app_assoc. reflexivity. Qed.

  Lemma step_rem : forall (v : text) q' (nw : list text),
    length (v :: q') - 1 + length nw = length (q' ++ nw).
  Proof. intros v q' nw. rewrite app_length. cbn [length]. lia. Qed.

  Lemma shape_step : forall P v q',
    shape P (v :: q') ->
    shape (P ++ [v]) (q' ++ discover (succs g v) (P ++ v :: q')).
  Proof.
    intros P v q' [Hnd Hin]. unfold shape. rewrite <- step_disc. split.
    - apply NoDup_app_intro; [exact Hnd|apply discover_NoDup|].
      intros x Hx Hn. apply discover_In in Hn. destruct Hn as [_ Hn]. contradiction.
    - intros x Hx. apply in_app_or in Hx. destruct Hx as [Hx|Hx]; [apply Hin, Hx|].
      apply discover_In in Hx. destruct Hx as [Hx _]. apply succs_In in Hx.
      destruct Hwf as (_ & _ & Hc). apply (Hc v x Hx).
  Qed.

  Lemma shape_len : forall P q, shape P q -> length P + length q <= length (nodes g).
  Proof.
    intros P q [Hnd Hin]. rewrite <- app_length. apply NoDup_incl_length; assumption.
  Qed.

  (* item 5: fuel never runs out *)
  Lemma fuel_gen : forall fuel extra P q depth,
    shape P q -> length (nodes g) < fuel + length P ->
    bfs_visit (fuel + extra) g maxd q (P ++ q) depth (length q) =
    bfs_visit fuel g maxd q (P ++ q) depth (length q).
  Proof.
    induction fuel as [|fuel IH]; intros extra P q depth Hs Hf.
    - apply shape_len in Hs. lia.
    - cbn [plus]. rewrite !bfs_visit_S. destruct (Nat.leb maxd depth); [reflexivity|].
      destruct q as [|v q']; [reflexivity|]. f_equal.
      set (nw := discover (succs g v) (P ++ v :: q')).
      rewrite step_disc, step_rem. apply IH.
      + apply shape_step, Hs.
      + rewrite app_length. cbn [length]. lia.
  Qed.

  Lemma shape_init : In a (nodes g) -> shape [] [a].
  Proof.
    intros Ha. split; cbn [app].
    - constructor; [intros []|constructor].
    - intros x [<-|[]]. exact Ha.
  Qed.

  (* item 4: completeness invariant, indexed by the BFS level k of the queue front *)
  Definition Inv (k : nat) (P A B : list text) (depth : nat) : Prop :=
    (forall u v, In u P -> R u v -> In v (P ++ A ++ B)) /\
    (forall j v, j <= k -> path R j a v -> In v P \/ In v A) /\
    (forall j v, j < k -> path R j a v -> In v P) /\
    depth <= k /\
    (A = [] -> B = []).

  Lemma inv_closed : forall k P depth, Inv k P [] [] depth ->
    forall j b, path R j a b -> In b P.
  Proof.
    intros k P depth (I2 & I3 & _ & _ & _).
    assert (Ha : In a P).
    { destruct (I3 0 a) as [H|[]]; [lia|apply path0|exact H]. }
    assert (Hc : forall j u b, path R j u b -> In u P -> In b P).
    { intros j u b Hp. induction Hp as [u|j u v w Huv Hp IH]; intros Hu; [exact Hu|].
      apply IH. specialize (I2 u v Hu Huv). rewrite app_nil_r in I2. exact I2. }
    intros j b Hp. apply (Hc j a b Hp Ha).
  Qed.

  Lemma inv_step_succ : forall k P A B depth v A' B' nw,
    Inv k P A B depth -> In v (A ++ B) ->
    (forall x, In x (P ++ A ++ B) -> In x ((P ++ [v]) ++ A' ++ B')) ->
    (forall x, In x nw -> In x ((P ++ [v]) ++ A' ++ B')) ->
    nw = discover (succs g v) (P ++ A ++ B) ->
    forall u w, In u (P ++ [v]) -> R u w -> In w ((P ++ [v]) ++ A' ++ B').
  Proof.
    intros k P A B depth v A' B' nw (I2 & _) Hv Hold Hnew Hnw u w Hu Huw.
    apply in_app_or in Hu. destruct Hu as [Hu|[<-|[]]].
    - apply Hold. apply (I2 u w Hu Huw).
    - destruct (in_dec text_eq_dec w (P ++ A ++ B)) as [Hin|Hnin]; [apply Hold, Hin|].
      apply Hnew. rewrite Hnw. apply discover_In. split; [|exact Hnin].
      apply succs_In. exact Huw.
  Qed.

  Lemma inv_step_same : forall k P v v2 A B depth,
    Inv k P (v :: v2 :: A) B depth ->
    Inv k (P ++ [v]) (v2 :: A)
        (B ++ discover (succs g v) (P ++ (v :: v2 :: A) ++ B)) depth.
  Proof.
    intros k P v v2 A B depth HI.
    set (nw := discover (succs g v) (P ++ (v :: v2 :: A) ++ B)).
    pose proof HI as (I2 & I3 & I4 & I5 & I6).
    split; [|split; [|split; [|split]]].
    - apply (inv_step_succ k P (v :: v2 :: A) B depth v (v2 :: A) (B ++ nw) nw HI).
      + left. reflexivity.
      + intros x Hx. rewrite !in_app_iff in *. cbn [In] in *. tauto.
      + intros x Hx. rewrite !in_app_iff. tauto.
      + reflexivity.
    - intros j w Hj Hp. destruct (I3 j w Hj Hp) as [H|[<-|H]].
      + left. apply in_or_app. left. exact H.
      + left. apply in_or_app. right. left. reflexivity.
      + right. exact H.
    - intros j w Hj Hp. apply in_or_app. left. apply (I4 j w Hj Hp).
    - exact I5.
    - discriminate.
  Qed.

  Lemma inv_step_next : forall k P v B depth depth',
    Inv k P [v] B depth -> depth' <= depth + 1 ->
    Inv (S k) (P ++ [v]) (B ++ discover (succs g v) (P ++ [v] ++ B)) [] depth'.
  Proof.
    intros k P v B depth depth' HI Hd.
    set (nw := discover (succs g v) (P ++ [v] ++ B)).
    pose proof HI as (I2 & I3 & I4 & I5 & I6).
    assert (J2 : forall u w, In u (P ++ [v]) -> R u w -> In w ((P ++ [v]) ++ (B ++ nw) ++ [])).
    { apply (inv_step_succ k P [v] B depth v (B ++ nw) [] nw HI).
      - left. reflexivity.
      - intros x Hx. rewrite !in_app_iff in *. cbn [In] in *. tauto.
      - intros x Hx. rewrite !in_app_iff. tauto.
      - reflexivity. }
    assert (J4 : forall j w, j <= k -> path R j a w -> In w (P ++ [v])).
    { intros j w Hj Hp. apply in_or_app. destruct (I3 j w Hj Hp) as [H|[<-|[]]].
      - left. exact H.
      - right. left. reflexivity. }
    split; [|split; [|split; [|split]]].
    - exact J2.
    - intros j w Hj Hp. destruct (Nat.eq_dec j (S k)) as [->|Hne].
      + apply path_snoc_inv in Hp. destruct Hp as [u [Hp Huw]].
        assert (Hu : In u (P ++ [v])) by (apply (J4 k u); [lia|exact Hp]).
        specialize (J2 u w Hu Huw). rewrite app_nil_r in J2.
        apply in_app_or in J2. exact J2.
      + left. apply (J4 j w); [lia|exact Hp].
    - intros j w Hj Hp. apply (J4 j w); [lia|exact Hp].
    - lia.
    - reflexivity.
  Qed.

  Lemma complete_gen : forall fuel k P q A B depth,
    q = A ++ B -> shape P q -> Inv k P A B depth ->
    length (nodes g) < fuel + length P ->
    forall j b, j < maxd -> path R j a b ->
    In b P \/ In b (bfs_visit fuel g maxd q (P ++ q) depth (length q)).
  Proof.
    induction fuel as [|fuel IH]; intros k P q A B depth Hq Hs HI Hf j b Hj Hp.
    - apply shape_len in Hs. lia.
    - rewrite bfs_visit_S. destruct (Nat.leb maxd depth) eqn:E.
      + apply Nat.leb_le in E. left. destruct HI as (_ & _ & I4 & I5 & _).
        apply (I4 j b); [lia|exact Hp].
      + destruct A as [|v A'].
        * destruct HI as (I2 & I3 & I4 & I5 & I6). rewrite (I6 eq_refl) in *.
          left. refine (inv_closed k P depth _ j b Hp).
          repeat split; auto.
        * subst q. cbn [app].
          set (nw := discover (succs g v) (P ++ v :: A' ++ B)).
          rewrite step_disc, step_rem.
          assert (Hs' : shape (P ++ [v]) ((A' ++ B) ++ nw)) by apply shape_step, Hs.
          assert (Hf' : length (nodes g) < fuel + length (P ++ [v])).
          { rewrite app_length. cbn [length]. lia. }
          assert (Hres : In b (P ++ [v]) \/
                         In b (bfs_visit fuel g maxd ((A' ++ B) ++ nw)
                                 ((P ++ [v]) ++ (A' ++ B) ++ nw)
                                 (if Nat.eqb (length (v :: A' ++ B) - 1) 0 then depth + 1 else depth)
                                 (length ((A' ++ B) ++ nw)))).
          { destruct A' as [|v2 A''].
            - refine (IH (S k) (P ++ [v]) _ (B ++ nw) [] _ _ Hs' _ Hf' j b Hj Hp).
              + rewrite app_nil_r. reflexivity.
              + apply (inv_step_next k P v B depth); [exact HI|].
                destruct (Nat.eqb _ 0); lia.
            - refine (IH k (P ++ [v]) _ (v2 :: A'') (B ++ nw) _ _ Hs' _ Hf' j b Hj Hp).
              + rewrite app_assoc. reflexivity.
              + cbn [length app Nat.sub Nat.eqb]. apply inv_step_same, HI. }
          destruct Hres as [Hres|Hres].
          -- apply in_app_or in Hres. destruct Hres as [Hres|[<-|[]]].
             ++ left. exact Hres.
             ++ right. left. reflexivity.
          -- right. right. exact Hres.
  Qed.

  Lemma inv_init : Inv 0 [] [a] [] 0.
  Proof.
    split; [|split; [|split; [|split]]].
    - intros u v [].
    - intros j v Hj Hp. assert (j = 0) by lia. subst j.
      right. left. apply (path0_inv _ _ _ Hp).
    - intros j v Hj. lia.
    - lia.
    - discriminate.
  Qed.

  Lemma bfs_from_complete : forall j b,
    In a (nodes g) -> j < maxd -> path R j a b -> In b (bfs_from g maxd a).
  Proof.
    intros j b Ha Hj Hp. unfold bfs_from.
    destruct (complete_gen (S (length (nodes g))) 0 [] [a] [a] [] 0 eq_refl
                (shape_init Ha) inv_init ltac:(cbn [length]; lia) j b Hj Hp) as [[]|H].
    exact H.
  Qed.

  Lemma fuel_enough_g : forall extra, In a (nodes g) ->
    bfs_visit (S (length (nodes g)) + extra) g maxd [a] [a] 0 1 = bfs_from g maxd a.
  Proof.
    intros extra Ha. unfold bfs_from.
    apply (fuel_gen (S (length (nodes g))) extra [] [a] 0 (shape_init Ha)).
    cbn [length]. lia.
  Qed.
End BFS.

(* ---- manager-level BFS theorems (items 3, 4, 5) ---- *)
Lemma Edge_graph : forall m d g x y, graph_of m d = Some g -> (Edge m d x y <-> In (x, y) (edges g)).
Proof. intros m d g x y Hg. unfold Edge, edges_of. rewrite Hg. reflexivity. Qed.

Theorem has_link_sound : forall maxd m a b d, wf m -> has_link maxd m a b d = true ->
  a = b \/ clos_trans text (Edge m d) a b.
Proof.
  intros maxd m a b d Hwf H. unfold has_link in H.
  destruct (teqb a b) eqn:E; [left; apply teqb_eq, E|].
  destruct (graph_of m d) as [g|] eqn:Hg; [|discriminate].
  destruct (has_node g a); [|discriminate].
  apply memb_In in H. apply bfs_from_sound in H. destruct H as [H|H]; [left; exact H|].
  right. apply (clos_trans_impl (fun x y => In (x, y) (edges g))); [|exact H].
  intros x y Hxy. apply (Edge_graph m d g x y Hg), Hxy.
Qed.

Theorem has_link_complete : forall maxd m a b d k, wf m -> path (Edge m d) k a b -> k < maxd ->
  has_link maxd m a b d = true.
Proof.
  intros maxd m a b d k Hwf Hp Hk. unfold has_link.
  destruct (teqb a b) eqn:E; [reflexivity|]. apply teqb_neq in E.
  destruct Hp as [a|k a x b Hax Hp]; [contradiction|].
  assert (Hp' : path (Edge m d) (S k) a b) by apply (pathS _ k a x b Hax Hp).
  unfold Edge, edges_of in Hax.
  destruct (graph_of m d) as [g|] eqn:Hg; [|destruct Hax].
  pose proof (wf_graph_of _ _ _ Hwf Hg) as Hg_wf.
  assert (Ha : In a (nodes g)).
  { destruct Hg_wf as (_ & _ & Hc). apply (Hc a x Hax). }
  assert (Hn : has_node g a = true) by apply has_node_In, Ha.
  rewrite Hn. apply memb_In.
  apply (bfs_from_complete g Hg_wf maxd a (S k) b Ha Hk).
  apply (path_impl (Edge m d)); [|exact Hp'].
  intros u v Huv. apply (Edge_graph m d g u v Hg), Huv.
Qed.

Theorem fuel_enough : forall g maxd a extra, wf_graph g -> In a (nodes g) ->
  bfs_visit (S (length (nodes g)) + extra) g maxd [a] [a] 0 1 = bfs_from g maxd a.
Proof. intros g maxd a extra Hwf Ha. apply fuel_enough_g; assumption. Qed.

(* ---- simple paths (for item 9) ---- *)
Section Chains.
  Variable R : text -> text -> Prop.

  Fixpoint chain (a : text) (vs : list text) (b : text) : Prop :=
    match vs with
    | [] => a = b
    | v :: r => R a v /\ chain v r b
    end.

  Lemma path_chain : forall k a b, path R k a b -> exists vs, length vs = k /\ chain a vs b.
  Proof.
    intros k a b Hp. induction Hp as [a|k a b c Hab Hp [vs [Hl Hc]]].
    - exists []. split; reflexivity.
    - exists (b :: vs). cbn [length chain]. split; [lia|]. split; assumption.
  Qed.

  Lemma chain_path : forall vs a b, chain a vs b -> path R (length vs) a b.
  Proof.
    induction vs as [|v r IH]; intros a b Hc; cbn [chain length] in *.
    - subst. apply path0.
    - destruct Hc as [Hav Hc]. apply (pathS R _ a v b Hav). apply IH, Hc.
  Qed.

  Lemma chain_suffix : forall l1 x l2 a b, chain a (l1 ++ x :: l2) b -> chain x l2 b.
  Proof.
    induction l1 as [|v r IH]; intros x l2 a b Hc; cbn [app chain] in Hc.
    - apply Hc.
    - destruct Hc as [_ Hc]. apply (IH x l2 v b Hc).
  Qed.

  Lemma chain_simple : forall vs a b, chain a vs b ->
    exists vs', chain a vs' b /\ NoDup (a :: vs') /\ incl vs' vs.
  Proof.
    induction vs as [|v r IH]; intros a b Hc; cbn [chain] in Hc.
    - exists []. cbn [chain]. split; [exact Hc|]. split; [|apply incl_refl].
      constructor; [intros []|constructor].
    - destruct Hc as [Hav Hc]. destruct (IH v b Hc) as [vs' (Hc' & Hnd & Hin)].
      destruct (in_dec text_eq_dec a (v :: vs')) as [Ha|Ha].
      + destruct Ha as [->|Ha].
        * exists vs'. split; [exact Hc'|]. split; [exact Hnd|].
          apply incl_tl, Hin.
        * apply in_split in Ha. destruct Ha as [l1 [l2 ->]].
          exists l2. split; [apply (chain_suffix l1 a l2 v b Hc')|]. split.
          -- inversion Hnd as [|v' l' _ Hnd']; subst. apply (NoDup_app_r l1 _ Hnd').
          -- intros x Hx. right. apply Hin. apply in_or_app. right. right. exact Hx.
      + exists (v :: vs'). cbn [chain]. split; [split; assumption|]. split.
        * constructor; assumption.
        * intros x [<-|Hx]; [left; reflexivity|right; apply Hin, Hx].
  Qed.

  Lemma chain_range : forall vs a b, chain a vs b -> forall v, In v vs -> exists u, R u v.
  Proof.
    induction vs as [|w r IH]; intros a b Hc v Hv; [destruct Hv|].
    cbn [chain] in Hc. destruct Hc as [Haw Hc]. destruct Hv as [<-|Hv].
    - exists a. exact Haw.
    - apply (IH w b Hc v Hv).
  Qed.
End Chains.

Lemma short_path : forall (l : links) k a b,
  path (fun x y => In (x, y) l) k a b ->
  exists j, j <= length l /\ path (fun x y => In (x, y) l) j a b.
Proof.
  intros l k a b Hp. apply path_chain in Hp. destruct Hp as [vs [_ Hc]].
  apply chain_simple in Hc. destruct Hc as [vs' (Hc & Hnd & _)].
  exists (length vs'). split; [|apply chain_path, Hc].
  rewrite <- (map_length snd l). apply NoDup_incl_length.
  - inversion Hnd; assumption.
  - intros v Hv. destruct (chain_range _ vs' a b Hc v Hv) as [u Hu].
    apply (in_map snd) in Hu. exact Hu.
Qed.

Theorem reachable_spec : forall l a b,
  reachable l a b = true <-> (a = b \/ clos_trans text (fun x y => In (x, y) l) a b).
Proof.
  intros l a b. unfold reachable, reach_within. rewrite memb_In, within_spec. split.
  - intros [j [_ Hp]]. apply (path_clos _ j a b Hp).
  - intros [->|H].
    + exists 0. split; [lia|apply path0].
    + apply clos_path in H. destruct H as [k Hp]. apply (short_path l (S k) a b Hp).
Qed.

(* ---- the property predicate holds of the model (item 10) ---- *)
Lemma subsetb_incl : forall x y, subsetb teqb x y = true <-> incl x y.
Proof.
  intros x y. unfold subsetb. rewrite forallb_forall. split.
  - intros H e He. apply memb_In, H, He.
  - intros H e He. apply memb_In, H, He.
Qed.

Lemma seteqb_spec : forall x y, seteqb teqb x y = true <-> (forall e, In e x <-> In e y).
Proof.
  intros x y. unfold seteqb. rewrite andb_true_iff, !subsetb_incl. split.
  - intros [H1 H2] e. split; [apply H1|apply H2].
  - intros H. split; intros e He; apply H, He.
Qed.

Lemma lpreds_In : forall (l : links) n x,
  In x (map fst (filter (fun e => teqb (snd e) n) l)) <-> In (x, n) l.
Proof. intros l n x. exact (preds_In {| nodes := []; edges := l |} n x). Qed.

Theorem c03_pred_model : forall maxd h q, c03_pred maxd h q (answer maxd (lrun h) q) = true.
Proof.
  intros maxd h q. pose proof (wf_lrun h) as Hwf.
  destruct q as [a b d|n d|n d]; cbn [answer c03_pred].
  - set (l := spec_links h (dom_key d) []).
    assert (Hl : forall x y, In (x, y) l <-> Edge (lrun h) d x y).
    { intros x y. symmetry. apply links_refine. }
    destruct (teqb a b) eqn:E.
    { unfold has_link. rewrite E. reflexivity. }
    destruct (reach_within l (maxd - 1) a b) eqn:E1.
    { unfold reach_within in E1. apply memb_In, within_spec in E1.
      destruct E1 as [j [Hj Hp]]. apply (has_link_complete maxd (lrun h) a b d j Hwf).
      - apply (path_impl (fun x y => In (x, y) l)); [|exact Hp].
        intros x y Hxy. apply Hl, Hxy.
      - destruct maxd as [|maxd']; [|lia]. assert (j = 0) by lia. subst j.
        apply path0_inv in Hp. apply teqb_neq in E. contradiction. }
    destruct (reachable l a b) eqn:E2; [reflexivity|].
    apply negb_true_iff. destruct (has_link maxd (lrun h) a b d) eqn:E3; [|reflexivity].
    exfalso. apply has_link_sound in E3; [|exact Hwf].
    assert (Hr : reachable l a b = true).
    { apply reachable_spec. destruct E3 as [E3|E3]; [left; exact E3|right].
      apply (clos_trans_impl (Edge (lrun h) d)); [|exact E3].
      intros x y Hxy. apply Hl, Hxy. }
    rewrite Hr in E2. discriminate.
  - apply seteqb_spec. intros e. rewrite get_roles_spec by exact Hwf.
    rewrite lsuccs_In. apply links_refine.
  - apply seteqb_spec. intros e. rewrite get_users_spec by exact Hwf.
    rewrite lpreds_In. apply links_refine.
Qed.

(* ---- non-vacuity examples (item 11) ---- *)
Definition ex_node (i : nat) : text := repeat "n"%char (S i).
Definition ex_chain (n : nat) : list lop :=
  map (fun i => LAdd (ex_node i) (ex_node (S i)) None) (seq 0 n).

(* a diamond a->b, a->c, b->d, c->d with a back edge d->a, plus noise *)
Definition ex_diamond : list lop :=
  [ LAdd (T "a") (T "b") None; LAdd (T "a") (T "c") None;
    LAdd (T "b") (T "d") None; LAdd (T "c") (T "d") None;
    LAdd (T "d") (T "a") None;
    LAdd (T "a") (T "a") None;                       (* ignored self link *)
    LAdd (T "a") (T "b") None;                       (* duplicate *)
    LAdd (T "d") (T "e") (Some (T "other"));         (* another domain *)
    LAdd (T "c") (T "x") None; LDel (T "c") (T "x") None ].

Example diamond_down : has_link 10 (lrun ex_diamond) (T "a") (T "d") None = true.
Proof. vm_compute. reflexivity. Qed.
Example diamond_cycle : has_link 10 (lrun ex_diamond) (T "d") (T "c") None = true.
Proof. vm_compute. reflexivity. Qed.
Example diamond_deleted : has_link 10 (lrun ex_diamond) (T "a") (T "x") None = false.
Proof. vm_compute. reflexivity. Qed.
Example diamond_other_domain : has_link 10 (lrun ex_diamond) (T "a") (T "e") None = false.
Proof. vm_compute. reflexivity. Qed.
Example diamond_roles : get_roles (lrun ex_diamond) (T "a") None = [T "c"; T "b"].
Proof. vm_compute. reflexivity. Qed.
Example diamond_users : get_users (lrun ex_diamond) (T "d") None = [T "c"; T "b"].
Proof. vm_compute. reflexivity. Qed.
Example diamond_bfs_terminates :
  bfs_from {| nodes := [T "a"; T "b"; T "c"; T "d"];
              edges := [(T "d", T "a"); (T "c", T "d"); (T "b", T "d");
                        (T "a", T "c"); (T "a", T "b")] |} 10 (T "a")
  = [T "a"; T "c"; T "b"; T "d"].
Proof. vm_compute. reflexivity. Qed.

Example chain9 : has_link 10 (lrun (ex_chain 9)) (ex_node 0) (ex_node 9) None = true.
Proof. vm_compute. reflexivity. Qed.
Example chain10 : has_link 10 (lrun (ex_chain 10)) (ex_node 0) (ex_node 10) None = false.
Proof. vm_compute. reflexivity. Qed.

(* the predicate rejects wrong answers, and leaves "beyond the limit" open *)
Example pred_rejects_false_negative :
  c03_pred 10 (ex_chain 9) (QHas (ex_node 0) (ex_node 9) None) (ABool false) = false.
Proof. vm_compute. reflexivity. Qed.
Example pred_rejects_false_positive :
  c03_pred 10 ex_diamond (QHas (T "a") (T "x") None) (ABool true) = false.
Proof. vm_compute. reflexivity. Qed.
Example pred_beyond_limit_open :
  c03_pred 10 (ex_chain 10) (QHas (ex_node 0) (ex_node 10) None) (ABool false) = true /\
  c03_pred 10 (ex_chain 10) (QHas (ex_node 0) (ex_node 10) None) (ABool true) = true.
Proof. vm_compute. split; reflexivity. Qed.
Example pred_rejects_wrong_roles :
  c03_pred 10 ex_diamond (QRoles (T "a") None) (ANames [T "b"]) = false.
Proof. vm_compute. reflexivity. Qed.

(* the depth counter only advances when the queue drains to one element:
   with two parallel chains the walk goes beyond maxd levels *)
Example wide_graph_overshoots :
  has_link 2 (lrun [LAdd (T "a") (T "b") None; LAdd (T "a") (T "c") None;
                    LAdd (T "b") (T "d") None; LAdd (T "c") (T "e") None;
                    LAdd (T "d") (T "f") None; LAdd (T "e") (T "g") None])
           (T "a") (T "g") None = true.
Proof. vm_compute. reflexivity. Qed.
