(* C14 — change notifications are a faithful changelog.  Proofs. *)
From CV Require Import Model.Base Model.Effector Model.RoleGraph Model.PathMatch
     Model.Expr Model.Enforce Model.Engine Model.SpecC14.
From CV Require Import Proofs.ListAux Proofs.BaseP Proofs.C10P.
From Coq Require Import Lia.

(* ====================================================================== *)
(* ideal ordered sets vs the model's list operations                      *)
(* ====================================================================== *)
Lemma os_mem_rmem r l : os_mem r l = rmem r l.
Proof. reflexivity. Qed.

Lemma filter_filter {A} (f g : A -> bool) l :
  filter f (filter g l) = filter (fun x => g x && f x) l.
Proof.
  induction l as [|x l IH]; cbn [filter]; [reflexivity|].
  destruct (g x); cbn [filter andb]; [destruct (f x)|]; rewrite IH; reflexivity.
Qed.

Lemma filter_ext_in' {A} (f g : A -> bool) l :
  (forall x, In x l -> f x = g x) -> filter f l = filter g l.
Proof.
  induction l as [|x l IH]; intros H; cbn [filter]; [reflexivity|].
  rewrite (H x (or_introl eq_refl)). rewrite IH; [reflexivity|].
  intros y Hy. apply H. right. exact Hy.
Qed.

Lemma reqb_sym a b : reqb a b = reqb b a.
Proof.
  destruct (reqb a b) eqn:E; symmetry.
  - apply reqb_eq in E. subst. apply reqb_refl.
  - apply reqb_neq. apply reqb_neq in E. auto.
Qed.

(* removing a batch one by one = filtering the batch out *)
Lemma fold_rremove rs : forall l,
  fold_left (fun l r => rremove r l) rs l = os_remove_many l rs.
Proof.
  unfold os_remove_many. induction rs as [|r rs IH]; intros l; cbn [fold_left].
  - cbn [os_mem existsb negb]. induction l as [|x l IHl]; cbn [filter]; [reflexivity|].
    rewrite <- IHl. reflexivity.
  - rewrite IH. unfold rremove. rewrite filter_filter. apply filter_ext_in'.
    intros x _. cbn [os_mem existsb]. rewrite negb_orb. reflexivity.
Qed.

Lemma fold_ins_new rs l : fold_left ins_new rs l = os_add_many l rs.
Proof. reflexivity. Qed.

(* the rules a filter selects are the matching ones, in order *)
Definition fmatch_true (idx : nat) (vals : list text) (r : rule) : bool :=
  match fmatch vals (skipn idx r) with Some true => true | _ => false end.

Lemma select_filtered_filter idx vals : forall l rem,
  select_filtered idx vals l = Some rem -> rem = filter (fmatch_true idx vals) l.
Proof.
  induction l as [|r l IH]; intros rem; cbn [select_filtered filter].
  - intros H. inversion H. reflexivity.
  - unfold fmatch_true at 1. destruct (fmatch vals (skipn idx r)) as [b|]; [|intros H; discriminate H].
    destruct (select_filtered idx vals l) as [s|]; [|intros H; discriminate H].
    intros H. inversion H. rewrite (IH s eq_refl). destruct b; reflexivity.
Qed.

Lemma os_mem_In r l : os_mem r l = true <-> In r l.
Proof. apply memb_reqb_In. Qed.

(* the payload of a filtered removal is exactly "old minus new" *)
Lemma os_diff_filter f (l : list rule) :
  os_diff l (os_remove_many l (filter f l)) = filter f l.
Proof.
  unfold os_diff, os_remove_many. apply filter_ext_in'. intros x Hx.
  destruct (f x) eqn:Ef.
  - destruct (os_mem x (filter _ l)) eqn:E; [|reflexivity].
    apply os_mem_In in E. apply filter_In in E. destruct E as [_ E].
    assert (M : os_mem x (filter f l) = true) by (apply os_mem_In, filter_In; split; assumption).
    rewrite M in E. discriminate E.
  - assert (M : os_mem x (filter (fun y => negb (os_mem y (filter f l))) l) = true).
    { apply os_mem_In, filter_In. split; [exact Hx|].
      destruct (os_mem x (filter f l)) eqn:E; [|reflexivity].
      apply os_mem_In, filter_In in E. destruct E as [_ E]. rewrite E in Ef. discriminate Ef. }
    rewrite M. reflexivity.
Qed.

(* ====================================================================== *)
(* views of the model that ignore handles                                 *)
(* ====================================================================== *)
Definition amap_view {B} (g : text -> assertion -> B) (am : amap) : list B :=
  map (fun ka => g (fst ka) (snd ka)) am.

Lemma amap_view_assoc_set {B} (g : text -> assertion -> B) k a a' : forall am,
  assoc k am = Some a -> (forall k', g k' a' = g k' a) ->
  amap_view g (assoc_set k a' am) = amap_view g am.
Proof.
  intros am Ha Hg. induction am as [|[k' v] am IH]; cbn [assoc] in Ha; [discriminate Ha|].
  cbn [assoc_set]. destruct (teqb k k') eqn:E.
  - inversion Ha; subst. unfold amap_view. cbn [map fst snd]. rewrite Hg. reflexivity.
  - unfold amap_view in *. cbn [map fst snd]. rewrite (IH Ha). reflexivity.
Qed.

Lemma amap_view_map {B} (g : text -> assertion -> B) (h : assertion -> assertion) am :
  (forall k a, g k (h a) = g k a) ->
  amap_view g (map (fun ka => (fst ka, h (snd ka))) am) = amap_view g am.
Proof.
  intros Hg. unfold amap_view. rewrite map_map. apply map_ext. intros [k a]. cbn [fst snd]. apply Hg.
Qed.

Lemma build_links_am_view {B} (g : text -> assertion -> B) :
  (forall k a h, g k (with_handle a h) = g k a) ->
  forall am m am' m' e, build_links_am am m = (am', m', e) -> amap_view g am' = amap_view g am.
Proof.
  intros Hg. induction am as [|[k a] am IH]; intros m am' m' e; cbn [build_links_am].
  - intros H. inversion H. reflexivity.
  - destruct (Nat.ltb (count_us (a_value a)) 2); [intros H; inversion H; reflexivity|].
    destruct (link_rules (count_us (a_value a)) true m (a_policy a)) as [m1 [|e1]].
    + destruct (build_links_am am m1) as [[am2 m2] e2] eqn:E2. intros H. inversion H; subst.
      unfold amap_view in *. cbn [map fst snd]. rewrite Hg. rewrite (IH _ _ _ _ E2). reflexivity.
    + intros H. inversion H. reflexivity.
Qed.

(* a view of a whole section *)
Definition sec_view {B} (g : text -> assertion -> B) (md : model) (sec : text) : list B :=
  match assoc sec md with Some am => amap_view g am | None => [] end.

Lemma sec_view_assoc_set_same {B} (g : text -> assertion -> B) md sec am :
  sec_view g (assoc_set sec am md) sec = amap_view g am.
Proof. unfold sec_view. rewrite assoc_set_same. reflexivity. Qed.
Lemma sec_view_assoc_set_other {B} (g : text -> assertion -> B) md sec sec' am :
  sec <> sec' -> sec_view g (assoc_set sec am md) sec' = sec_view g md sec'.
Proof. intros H. unfold sec_view. rewrite assoc_set_other by exact H. reflexivity. Qed.

(* replacing a section by one with the same view *)
Lemma sec_view_replace {B} (g : text -> assertion -> B) md sec sec' am am' :
  assoc sec md = Some am -> amap_view g am' = amap_view g am ->
  sec_view g (assoc_set sec am' md) sec' = sec_view g md sec'.
Proof.
  intros Ha Hv. destruct (text_eq_dec sec sec') as [<-|Hne].
  - rewrite sec_view_assoc_set_same. unfold sec_view. rewrite Ha. exact Hv.
  - apply sec_view_assoc_set_other, Hne.
Qed.

Lemma sec_view_set_ast {B} (g : text -> assertion -> B) md sec pt a a' sec' :
  get_ast md sec pt = Some a -> (forall k', g k' a' = g k' a) ->
  sec_view g (set_ast md sec pt a') sec' = sec_view g md sec'.
Proof.
  unfold get_ast, set_ast. destruct (assoc sec md) as [am|] eqn:Es; [|intros H; discriminate H].
  intros Ha Hg. apply (sec_view_replace g md sec sec' am); [exact Es|].
  apply (amap_view_assoc_set g pt a a' am Ha Hg).
Qed.

Definition pol_entry (sec : text) (k : text) (a : assertion) : (text * text) * list rule :=
  ((sec, k), a_policy a).

Lemma sec_store_view md sec : sec_store md sec = sec_view (pol_entry sec) md sec.
Proof. reflexivity. Qed.

Definition gvals (md : model) : list text := sec_view (fun _ a => a_value a) md s_g.

Lemma gdefs_ok_gvals md : gdefs_ok md = forallb (fun v => Nat.leb 2 (count_us v)) (gvals md).
Proof.
  unfold gdefs_ok, gvals, sec_view, amap_view. destruct (assoc s_g md) as [am|]; [|reflexivity].
  induction am as [|[k a] am IH]; cbn [forallb map fst snd]; [reflexivity|]. rewrite IH. reflexivity.
Qed.

(* what all the handle-only model changes preserve *)
Definition same_policies (md md' : model) : Prop :=
  store_of md' = store_of md /\ gvals md' = gvals md /\
  (forall sec, m_get_all md' sec = m_get_all md sec).

Lemma m_get_all_view md sec :
  m_get_all md sec = concat (sec_view (fun k a => map (fun r => sec :: k :: r) (a_policy a)) md sec).
Proof.
  unfold m_get_all, sec_view, amap_view. destruct (assoc sec md) as [am|]; [|reflexivity].
  rewrite flat_map_concat_map. reflexivity.
Qed.

Lemma same_policies_refl md : same_policies md md.
Proof. repeat split. Qed.

Lemma same_policies_trans a b c : same_policies a b -> same_policies b c -> same_policies a c.
Proof.
  intros [A1 [A2 A3]] [B1 [B2 B3]]. split; [|split].
  - rewrite B1. exact A1.
  - rewrite B2. exact A2.
  - intros sec. rewrite B3. apply A3.
Qed.

(* replacing one section by a handle-variant *)
Lemma same_policies_replace md sec am am' :
  assoc sec md = Some am ->
  (forall B (g : text -> assertion -> B), (forall k a h, g k (with_handle a h) = g k a) ->
     amap_view g am' = amap_view g am) ->
  same_policies md (assoc_set sec am' md).
Proof.
  intros Ha Hv. split; [|split].
  - unfold store_of. rewrite !sec_store_view.
    rewrite (sec_view_replace _ md sec s_p am am' Ha) by (apply Hv; reflexivity).
    rewrite (sec_view_replace _ md sec s_g am am' Ha) by (apply Hv; reflexivity).
    reflexivity.
  - unfold gvals. apply (sec_view_replace _ md sec s_g am am' Ha). apply Hv. reflexivity.
  - intros sec'. rewrite !m_get_all_view. f_equal.
    apply (sec_view_replace _ md sec sec' am am' Ha). apply Hv. reflexivity.
Qed.

Lemma same_policies_set_handle md sec pt a h :
  get_ast md sec pt = Some a -> same_policies md (set_ast md sec pt (with_handle a h)).
Proof.
  intros Ha. unfold set_ast. pose proof Ha as Ha'. unfold get_ast in Ha'.
  destruct (assoc sec md) as [am|] eqn:Es; [|discriminate Ha'].
  apply (same_policies_replace md sec am _ Es). intros B g Hg.
  apply (amap_view_assoc_set g pt a _ am Ha'). intros k'. apply Hg.
Qed.

Lemma incremental_links_policies s pt ins rs s' e :
  incremental_links s pt ins rs = (s', e) -> same_policies (e_model s) (e_model s').
Proof.
  intros H. destruct (incremental_links_cases _ _ _ _ _ _ H) as [_ [_ [_ [_ [_ M]]]]].
  destruct M as [[M _]|[_ [a [Ha M]]]]; rewrite M.
  - apply same_policies_refl.
  - apply same_policies_set_handle, Ha.
Qed.

Lemma build_role_links_policies s s' e :
  build_role_links s = (s', e) -> same_policies (e_model s) (e_model s').
Proof.
  unfold build_role_links. destruct (assoc s_g (e_model s)) as [am|] eqn:Ea.
  - destruct (build_links_am am []) as [[am' m'] e'] eqn:Eb. intros H. inversion H; subst.
    cbn [upd_fs upd_model e_model]. apply (same_policies_replace _ s_g am am' Ea).
    intros B g Hg. eapply build_links_am_view; [exact Hg|exact Eb].
  - intros H. inversion H; subst. apply same_policies_refl.
Qed.

(* ====================================================================== *)
(* the primary's store under the model operations                         *)
(* ====================================================================== *)
Lemma s_p_neq_g : s_p <> s_g.
Proof. discriminate. Qed.

Lemma st_upd_view sec pt a a' f tl : forall am,
  assoc pt am = Some a -> a_policy a' = f (a_policy a) ->
  amap_view (pol_entry sec) (assoc_set pt a' am) ++ tl
  = st_upd (amap_view (pol_entry sec) am ++ tl) sec pt f.
Proof.
  intros am Ha Hp. induction am as [|[k v] am IH]; cbn [assoc] in Ha; [discriminate Ha|].
  cbn [assoc_set]. unfold amap_view in *. cbn [map fst snd app st_upd pol_entry].
  unfold key_eqb. cbn [fst snd]. rewrite teqb_refl. cbn [andb].
  destruct (teqb pt k) eqn:E.
  - inversion Ha; subst. cbn [map fst snd app]. unfold pol_entry at 1. rewrite Hp. reflexivity.
  - cbn [map fst snd app pol_entry]. rewrite (IH Ha). reflexivity.
Qed.

Lemma st_upd_app_absent sec pt f l2 : forall l1,
  (forall e, In e l1 -> fst (fst e) <> sec) ->
  st_upd (l1 ++ l2) sec pt f = l1 ++ st_upd l2 sec pt f.
Proof.
  induction l1 as [|[k l] l1 IH]; intros H; cbn [app st_upd]; [reflexivity|].
  assert (E : key_eqb sec pt k = false).
  { unfold key_eqb. destruct (teqb sec (fst k)) eqn:E; [|reflexivity].
    apply teqb_eq in E. exfalso. apply (H (k, l) (or_introl eq_refl)). cbn [fst]. symmetry. exact E. }
  rewrite E. rewrite IH; [reflexivity|]. intros e He. apply H. right. exact He.
Qed.

Lemma st_upd_absent sec pt f st :
  (forall e, In e st -> fst (fst e) <> sec) -> st_upd st sec pt f = st.
Proof.
  intros H. rewrite <- (app_nil_r st) at 1. rewrite st_upd_app_absent by exact H.
  cbn [st_upd]. apply app_nil_r.
Qed.

Lemma sec_store_keys md sec e : In e (sec_store md sec) -> fst (fst e) = sec.
Proof.
  unfold sec_store. destruct (assoc sec md) as [am|]; [|intros []].
  intros H. apply in_map_iff in H. destruct H as [ka [<- _]]. reflexivity.
Qed.

Lemma sec_store_assoc_set_same md sec am :
  sec_store (assoc_set sec am md) sec = amap_view (pol_entry sec) am.
Proof. unfold sec_store. rewrite assoc_set_same. reflexivity. Qed.
Lemma sec_store_assoc_set_other md sec sec' am :
  sec <> sec' -> sec_store (assoc_set sec am md) sec' = sec_store md sec'.
Proof. intros H. unfold sec_store. rewrite assoc_set_other by exact H. reflexivity. Qed.

(* replacing the policy of one definition = updating the replica's list *)
Lemma store_of_set_ast md sec pt a a' f :
  get_ast md sec pt = Some a -> a_policy a' = f (a_policy a) ->
  store_of (set_ast md sec pt a') = st_upd (store_of md) sec pt f.
Proof.
  unfold get_ast, set_ast. destruct (assoc sec md) as [am|] eqn:Es; [|intros H; discriminate H].
  intros Ha Hp. unfold store_of.
  destruct (text_eq_dec sec s_p) as [->|Hnp].
  - rewrite sec_store_assoc_set_same, (sec_store_assoc_set_other _ s_p s_g) by exact s_p_neq_g.
    unfold sec_store at 2. rewrite Es. apply (st_upd_view s_p pt a a' f); assumption.
  - destruct (text_eq_dec sec s_g) as [->|Hng].
    + rewrite sec_store_assoc_set_same, (sec_store_assoc_set_other _ s_g s_p)
        by (intros E; apply s_p_neq_g; symmetry; exact E).
      rewrite st_upd_app_absent.
      2:{ intros e He. rewrite (sec_store_keys _ _ _ He). exact s_p_neq_g. }
      f_equal. unfold sec_store. rewrite Es.
      pose proof (st_upd_view s_g pt a a' f [] am Ha Hp) as V. rewrite !app_nil_r in V. exact V.
    + rewrite !sec_store_assoc_set_other by assumption.
      symmetry. apply st_upd_absent. intros e He. apply in_app_or in He.
      destruct He as [He|He]; rewrite (sec_store_keys _ _ _ He); auto.
Qed.

Lemma gvals_set_policy md sec pt a l :
  get_ast md sec pt = Some a -> gvals (set_ast md sec pt (with_policy a l)) = gvals md.
Proof. intros Ha. unfold gvals. apply (sec_view_set_ast _ md sec pt a _ s_g Ha). reflexivity. Qed.

(* clear *)
Lemma clear_sec_store md sec sec' :
  sec_store (clear_sec md sec) sec' =
  if teqb sec sec' then map (fun e => (fst e, [])) (sec_store md sec') else sec_store md sec'.
Proof.
  unfold clear_sec. destruct (assoc sec md) as [am|] eqn:Es.
  - destruct (teqb sec sec') eqn:E.
    + apply teqb_eq in E. subst sec'. rewrite sec_store_assoc_set_same. unfold sec_store. rewrite Es.
      unfold amap_view. rewrite !map_map. reflexivity.
    + apply sec_store_assoc_set_other. apply teqb_neq, E.
  - destruct (teqb sec sec') eqn:E; [|reflexivity].
    apply teqb_eq in E. subst sec'. unfold sec_store. rewrite Es. reflexivity.
Qed.

Lemma store_of_clear md : store_of (m_clear_policy md) = map (fun e => (fst e, [])) (store_of md).
Proof.
  unfold store_of, m_clear_policy. rewrite !clear_sec_store. rewrite map_app.
  reflexivity.
Qed.

Lemma gvals_clear_sec md sec : gvals (clear_sec md sec) = gvals md.
Proof.
  unfold gvals, clear_sec. destruct (assoc sec md) as [am|] eqn:Es; [|reflexivity].
  apply (sec_view_replace _ md sec s_g am _ Es).
  unfold amap_view. rewrite map_map. reflexivity.
Qed.
Lemma gvals_clear md : gvals (m_clear_policy md) = gvals md.
Proof. unfold m_clear_policy. rewrite !gvals_clear_sec. reflexivity. Qed.

(* ====================================================================== *)
(* one model operation = one replica update                               *)
(* ====================================================================== *)
(* the notification a call must carry, from the call and the store before it;
   for a filtered removal: what get_filtered_policy would have listed *)
Definition expected_event (p : prim) (md : model) : event :=
  match p with
  | PAdd sec pt r => EvAdd sec pt r
  | PAddMany sec pt rs => EvAddMany sec pt rs
  | PRemove sec pt r => EvRemove sec pt r
  | PRemoveMany sec pt rs => EvRemoveMany sec pt rs
  | PRemoveFiltered sec pt idx vals =>
    EvRemoveFiltered sec pt (match m_get_filtered md sec pt idx vals with Some l => l | None => [] end)
  end.

Lemma prim_mop_spec p md md' ch ev lrs :
  prim_mop p md = Some (md', ch, ev, lrs) ->
  gvals md' = gvals md /\
  (ch = false -> md' = md) /\
  (ch = true -> ev = expected_event p md /\ store_of md' = apply_event (store_of md) ev) /\
  (prim_guarded p = false -> ch = false -> lrs = []).
Proof.
  destruct p as [sec pt r|sec pt rs|sec pt r|sec pt rs|sec pt idx vals];
    cbn [prim_mop expected_event prim_guarded].
  - unfold m_add_policy. destruct (get_ast md sec pt) as [a|] eqn:Ea.
    + destruct (rmem r (a_policy a)) eqn:Er; intros H; inversion H; subst md' ch ev lrs.
      * repeat split; try discriminate; auto.
      * split; [apply gvals_set_policy, Ea|]. split; [discriminate|]. split; [|discriminate].
        intros _. split; [reflexivity|]. cbn [apply_event].
        apply (store_of_set_ast md sec pt a _ (fun l => os_add l r) Ea).
        cbn [with_policy a_policy]. unfold os_add. rewrite os_mem_rmem, Er. reflexivity.
    + intros H; inversion H; subst md' ch ev lrs. repeat split; try discriminate; auto.
  - unfold m_add_policies. destruct rs as [|r0 rs0].
    { intros H; inversion H; subst md' ch ev lrs. repeat split; try discriminate; auto. }
    cbv iota. generalize (r0 :: rs0). clear r0 rs0. intros rs.
    destruct (get_ast md sec pt) as [a|] eqn:Ea.
    + destruct (existsb (fun r => rmem r (a_policy a)) rs) eqn:Er; intros H; inversion H; subst md' ch ev lrs.
      * repeat split; try discriminate; auto.
      * split; [apply gvals_set_policy, Ea|]. split; [discriminate|]. split; [|discriminate].
        intros _. split; [reflexivity|]. cbn [apply_event].
        apply (store_of_set_ast md sec pt a _ (fun l => os_add_many l rs) Ea). reflexivity.
    + intros H; inversion H; subst md' ch ev lrs. repeat split; try discriminate; auto.
  - unfold m_remove_policy. destruct (get_ast md sec pt) as [a|] eqn:Ea.
    + destruct (rmem r (a_policy a)) eqn:Er; intros H; inversion H; subst md' ch ev lrs.
      * split; [apply gvals_set_policy, Ea|]. split; [discriminate|]. split; [|discriminate].
        intros _. split; [reflexivity|]. cbn [apply_event].
        apply (store_of_set_ast md sec pt a _ (fun l => os_remove l r) Ea). reflexivity.
      * repeat split; try discriminate; auto.
    + intros H; inversion H; subst md' ch ev lrs. repeat split; try discriminate; auto.
  - unfold m_remove_policies. destruct rs as [|r0 rs0].
    { intros H; inversion H; subst md' ch ev lrs. repeat split; try discriminate; auto. }
    cbv iota. generalize (r0 :: rs0). clear r0 rs0. intros rs.
    destruct (get_ast md sec pt) as [a|] eqn:Ea.
    + destruct (forallb (fun r => rmem r (a_policy a)) rs) eqn:Er; intros H; inversion H; subst md' ch ev lrs.
      * split; [apply gvals_set_policy, Ea|]. split; [discriminate|]. split; [|discriminate].
        intros _. split; [reflexivity|]. cbn [apply_event].
        apply (store_of_set_ast md sec pt a _ (fun l => os_remove_many l rs) Ea).
        cbn [with_policy a_policy]. apply fold_rremove.
      * repeat split; try discriminate; auto.
    + intros H; inversion H; subst md' ch ev lrs. repeat split; try discriminate; auto.
  - unfold m_remove_filtered, m_get_filtered, m_get_policy.
    destruct vals as [|v0 vs0].
    { intros H; inversion H; subst md' ch ev lrs. repeat split; try discriminate; auto. }
    cbv iota. generalize (v0 :: vs0). clear v0 vs0. intros vals.
    destruct (get_ast md sec pt) as [a|] eqn:Ea.
    + destruct (select_filtered idx vals (a_policy a)) as [[|r1 rem]|] eqn:Es;
        intros H; inversion H; subst md' ch ev lrs.
      * repeat split; try discriminate; auto.
      * split; [apply gvals_set_policy, Ea|]. split; [discriminate|]. split; [|discriminate].
        intros _. split; [reflexivity|]. cbn [apply_event].
        apply (store_of_set_ast md sec pt a _ (fun l => os_remove_many l (r1 :: rem)) Ea).
        cbn [with_policy a_policy]. exact (fold_rremove (r1 :: rem) (a_policy a)).
    + intros H; inversion H; subst md' ch ev lrs. repeat split; try discriminate; auto.
Qed.

(* ====================================================================== *)
(* the payload test of the predicate                                      *)
(* ====================================================================== *)
Lemma rules_eqb_refl l : rules_eqb l l = true.
Proof. apply (list_eqb_eq reqb reqb_eq). reflexivity. Qed.
Lemma rules_eqb_eq a b : rules_eqb a b = true <-> a = b.
Proof. apply (list_eqb_eq reqb reqb_eq). Qed.

Lemma st_get_app l1 l2 sec pt :
  st_get (l1 ++ l2) sec pt = match st_get l1 sec pt with Some x => Some x | None => st_get l2 sec pt end.
Proof.
  induction l1 as [|[k l] l1 IH]; cbn [app st_get]; [reflexivity|].
  destruct (key_eqb sec pt k); [reflexivity|exact IH].
Qed.

Lemma st_get_sec_store md s sec pt old :
  st_get (sec_store md s) sec pt = Some old -> old = m_get_policy md sec pt.
Proof.
  unfold sec_store, m_get_policy, get_ast. destruct (assoc s md) as [am|] eqn:Es; [|intros H; discriminate H].
  intros H.
  assert (K : sec = s /\ exists a, assoc pt am = Some a /\ old = a_policy a).
  { clear Es. induction am as [|[k a] am IH]; cbn [map st_get fst snd] in H; [discriminate H|].
    unfold key_eqb in H. cbn [fst snd] in H.
    destruct (teqb sec s) eqn:E1; cbn [andb] in H.
    - destruct (teqb pt k) eqn:E2.
      + inversion H; subst. split; [apply teqb_eq, E1|]. exists a. cbn [assoc]. rewrite E2. split; reflexivity.
      + destruct (IH H) as [K1 [a' [K2 K3]]]. split; [exact K1|]. exists a'. cbn [assoc]. rewrite E2.
        split; assumption.
    - destruct (IH H) as [K1 _]. subst. rewrite teqb_refl in E1. discriminate E1. }
  destruct K as [-> [a [Ka ->]]]. rewrite Es, Ka. reflexivity.
Qed.

Lemma st_get_store_of md sec pt old :
  st_get (store_of md) sec pt = Some old -> old = m_get_policy md sec pt.
Proof.
  unfold store_of. rewrite st_get_app.
  destruct (st_get (sec_store md s_p) sec pt) as [x|] eqn:E.
  - intros H. inversion H; subst. eapply st_get_sec_store, E.
  - apply st_get_sec_store.
Qed.

Lemma prim_mop_call_event p md md' ev lrs :
  prim_mop p md = Some (md', true, ev, lrs) -> call_event (store_of md) p ev = true.
Proof.
  destruct p as [sec pt r|sec pt rs|sec pt r|sec pt rs|sec pt idx vals]; cbn [prim_mop].
  - destruct (m_add_policy md sec pt r) as [m b]. intros H. inversion H; subst. cbn [call_event].
    rewrite !teqb_refl, reqb_refl. reflexivity.
  - destruct (m_add_policies md sec pt rs) as [m b]. intros H. inversion H; subst. cbn [call_event].
    rewrite !teqb_refl, rules_eqb_refl. reflexivity.
  - destruct (m_remove_policy md sec pt r) as [m b]. intros H. inversion H; subst. cbn [call_event].
    rewrite !teqb_refl, reqb_refl. reflexivity.
  - destruct (m_remove_policies md sec pt rs) as [m b]. intros H. inversion H; subst. cbn [call_event].
    rewrite !teqb_refl, rules_eqb_refl. reflexivity.
  - unfold m_remove_filtered. destruct vals as [|v0 vs0]; [intros H; discriminate H|].
    cbv iota. generalize (v0 :: vs0). clear v0 vs0. intros vals.
    destruct (get_ast md sec pt) as [a|] eqn:Ea; [|intros H; discriminate H].
    destruct (select_filtered idx vals (a_policy a)) as [[|r1 rem]|] eqn:Es; intros H; try discriminate H.
    inversion H; subst md' ev lrs. cbn [call_event]. rewrite !teqb_refl. cbn [is_nil negb andb].
    destruct (st_get (store_of md) sec pt) as [old|] eqn:Eg; [|reflexivity].
    apply st_get_store_of in Eg. unfold m_get_policy in Eg. rewrite Ea in Eg. subst old.
    rewrite (select_filtered_filter _ _ _ _ Es). rewrite os_diff_filter. apply rules_eqb_refl.
Qed.

(* the removed rules of a filtered removal: what the old store lists under
   the filter, and exactly old minus new *)
Lemma removed_is_old_minus_new md md' sec pt idx vals rem :
  m_remove_filtered md sec pt idx vals = Some (md', true, rem) ->
  m_get_filtered md sec pt idx vals = Some rem /\
  rem = filter (fmatch_true idx vals) (m_get_policy md sec pt) /\
  m_get_policy md' sec pt = os_remove_many (m_get_policy md sec pt) rem /\
  rem = os_diff (m_get_policy md sec pt) (m_get_policy md' sec pt).
Proof.
  unfold m_remove_filtered, m_get_filtered, m_get_policy.
  destruct vals as [|v0 vs0]; [intros H; discriminate H|].
  cbv iota. generalize (v0 :: vs0). clear v0 vs0. intros vals.
  destruct (get_ast md sec pt) as [a|] eqn:Ea; [|intros H; discriminate H].
  destruct (select_filtered idx vals (a_policy a)) as [[|r1 rem']|] eqn:Es; intros H; try discriminate H.
  inversion H; subst md' rem. split; [reflexivity|].
  pose proof (select_filtered_filter _ _ _ _ Es) as Ef. split; [exact Ef|].
  assert (G : get_ast (set_ast md sec pt (with_policy a (fold_left (fun l r => rremove r l) (r1 :: rem') (a_policy a))))
                      sec pt = Some (with_policy a (fold_left (fun l r => rremove r l) (r1 :: rem') (a_policy a)))).
  { unfold get_ast, set_ast in *. destruct (assoc sec md) as [am|]; [|discriminate Ea].
    rewrite assoc_set_same. apply assoc_set_same. }
  cbn [fold_left] in G. rewrite G. cbn [with_policy a_policy].
  change (fold_left (fun l r => rremove r l) rem' (rremove r1 (a_policy a)))
    with (fold_left (fun l r => rremove r l) (r1 :: rem') (a_policy a)).
  rewrite fold_rremove. split; [reflexivity|].
  rewrite Ef at 2. rewrite Ef at 1. symmetry. apply os_diff_filter.
Qed.

(* ====================================================================== *)
(* frame: the flags are changed by the toggles only                       *)
(* ====================================================================== *)
Lemma flags_build_role_links s s' e : build_role_links s = (s', e) -> flags s' = flags s /\ e_wlog s' = e_wlog s.
Proof.
  unfold build_role_links. destruct (assoc s_g (e_model s)) as [am|].
  - destruct (build_links_am am []) as [[am' m'] e']. intros H. inversion H. split; reflexivity.
  - intros H. inversion H. split; reflexivity.
Qed.

Lemma flags_register_g s s' e : register_g_functions s = (s', e) ->
  flags s' = flags s /\ e_wlog s' = e_wlog s /\ e_model s' = e_model s.
Proof.
  unfold register_g_functions. destruct (assoc s_g (e_model s)) as [am|].
  - destruct (register_g am (f_gfuns (e_fs s))) as [gf e']. intros H. inversion H. repeat split.
  - intros H. inversion H. repeat split.
Qed.

Lemma flags_finish_load s ad md r :
  flags (fst (finish_load s ad md r)) = flags s /\ e_wlog (fst (finish_load s ad md r)) = e_wlog s.
Proof.
  destruct r; cbn [finish_load]; try (split; reflexivity).
  destruct (e_auto_build (upd_model (upd_adapter s ad) md)); [|split; reflexivity].
  destruct (build_role_links (upd_model (upd_adapter s ad) md)) as [s2 e] eqn:E.
  cbn [fst]. destruct (flags_build_role_links _ _ _ E) as [F W]. rewrite F, W. split; reflexivity.
Qed.

Lemma flags_step_load s : flags (fst (step_load s)) = flags s /\ e_wlog (fst (step_load s)) = e_wlog s.
Proof.
  unfold step_load. destruct (ad_load (e_adapter s) (m_clear_policy (e_model s))) as [[ad md] r].
  apply flags_finish_load.
Qed.

Lemma flags_step_load_filtered s fp fg :
  flags (fst (step_load_filtered s fp fg)) = flags s /\ e_wlog (fst (step_load_filtered s fp fg)) = e_wlog s.
Proof.
  unfold step_load_filtered.
  destruct (ad_load_filtered (e_adapter s) fp fg (m_clear_policy (e_model s))) as [[ad md] r].
  apply flags_finish_load.
Qed.

Lemma flags_tail_gen g s sec pt ch ins rs :
  flags (fst (tail_gen g s sec pt ch ins rs)) = flags s /\
  e_wlog (fst (tail_gen g s sec pt ch ins rs)) = e_wlog s /\
  same_policies (e_model s) (e_model (fst (tail_gen g s sec pt ch ins rs))).
Proof.
  destruct (tail_gen g s sec pt ch ins rs) as [s' res] eqn:E. cbn [fst].
  destruct (tail_gen_cases _ _ _ _ _ _ _ _ _ E) as [[-> _]|[_ [_ [_ [e [Hi _]]]]]].
  - repeat split.
  - destruct (incremental_links_cases _ _ _ _ _ _ Hi) as [_ [_ [F [W _]]]].
    split; [exact F|]. split; [exact W|]. eapply incremental_links_policies, Hi.
Qed.

Lemma emit_log s ev : e_watcher s = true -> e_wlog (emit s ev) = e_wlog s ++ repeat ev (e_callbacks s).
Proof. intros H. unfold emit. rewrite H. reflexivity. Qed.

Lemma emit_mgmt_log s ch ev : e_watcher s = true ->
  e_wlog (emit_mgmt s ch ev) = e_wlog s ++ (if ch && e_auto_notify s then repeat ev (e_callbacks s) else []).
Proof.
  intros H. unfold emit_mgmt. destruct (ch && e_auto_notify s).
  - apply emit_log, H.
  - symmetry. apply app_nil_r.
Qed.

Lemma gdefs_ok_get md pt a :
  gdefs_ok md = true -> get_ast md s_g pt = Some a -> Nat.ltb (count_us (a_value a)) 2 = false.
Proof.
  unfold gdefs_ok, get_ast. destruct (assoc s_g md) as [am|]; [|intros _ H; discriminate H].
  intros Hf Ha. apply assoc_In in Ha. rewrite forallb_forall in Hf. specialize (Hf _ Ha).
  cbn [snd] in Hf. apply Nat.leb_le in Hf. apply Nat.ltb_ge. exact Hf.
Qed.

(* ====================================================================== *)
(* one internal management call: events, store, result                    *)
(* ====================================================================== *)
Definition prim_events (s : estate) (p : prim) (ch : bool) : list event :=
  if ch && e_auto_notify s then repeat (expected_event p (e_model s)) (e_callbacks s) else [].

Lemma step_prim_effect s p s' res :
  step_prim s p = (s', res) -> e_watcher s = true ->
  exists ch : bool,
    flags s' = flags s /\ gvals (e_model s') = gvals (e_model s) /\
    e_wlog s' = e_wlog s ++ prim_events s p ch /\
    store_of (e_model s') =
      (if ch then apply_event (store_of (e_model s)) (expected_event p (e_model s))
       else store_of (e_model s)) /\
    (ch = false -> forall sec, m_get_all (e_model s') sec = m_get_all (e_model s) sec) /\
    (forall b, res = Ok b -> b = ch) /\
    (res = Err EAdapter \/ res = Panic -> ch = false /\ e_model s' = e_model s /\ e_fs s' = e_fs s) /\
    (forall e, res = Err e -> e <> EAdapter ->
       prim_guarded p = true \/ gdefs_ok (e_model s) = true -> ch = true) /\
    (ch = true -> call_event (store_of (e_model s)) p (expected_event p (e_model s)) = true).
Proof.
  intros Hs Hw. pose proof (step_prim_run s p) as R. rewrite Hs in R. cbn [fst snd] in R.
  inversion R as [ad r Ha Hr E1 E2|ad Ha Hm E1 E2|ad md ch ev lrs s2 r Ha Hm Ht E1 E2]; subst.
  - (* rejected by the adapter *)
    exists false. unfold prim_events. cbn [andb]. rewrite app_nil_r.
    repeat split; try reflexivity.
    + intros b Hb. subst res. destruct b; [exfalso; apply Hr; reflexivity|reflexivity].
    + intros e He Hne. subst res. exfalso. apply Hne. eapply ad_call_err, Ha.
    + intros H; discriminate H.
  - exists false. unfold prim_events. cbn [andb]. rewrite app_nil_r.
    repeat split; try reflexivity.
    + intros b Hb. discriminate Hb.
    + intros e He. discriminate He.
    + intros H; discriminate H.
  - exists ch.
    destruct (prim_mop_spec _ _ _ _ _ _ Hm) as [G [Hf [Ht' Hu]]].
    set (s1 := emit_mgmt (upd_model (upd_adapter s ad) md) ch ev) in *.
    assert (M1 : e_model s1 = md) by (unfold s1; rewrite (proj1 (emit_mgmt_frame _ _ _)); reflexivity).
    assert (F1 : flags s1 = flags s) by (unfold s1; rewrite flags_emit_mgmt; reflexivity).
    assert (Ffs : e_fs s1 = e_fs s).
    { unfold s1. destruct (emit_mgmt_frame (upd_model (upd_adapter s ad) md) ch ev) as [_ [_ [_ F]]].
      rewrite F. reflexivity. }
    pose proof (flags_tail_gen (prim_guarded p) s1 (prim_sec p) (prim_pt p) ch (prim_insert p) lrs) as T.
    rewrite Ht in T. cbn [fst] in T. destruct T as [F2 [W2 [P1 [P2 P3]]]]. rewrite M1 in P1, P2, P3.
    assert (Ev : ch = true -> ev = expected_event p (e_model s)) by (intros H; apply Ht', H).
    assert (Ce : ch = true -> call_event (store_of (e_model s)) p (expected_event p (e_model s)) = true).
    { intros Hc. rewrite <- (Ev Hc). subst ch. eapply prim_mop_call_event, Hm. }
    split; [rewrite F2; exact F1|]. split; [rewrite P2; exact G|].
    split.
    { rewrite W2. unfold s1. rewrite emit_mgmt_log by exact Hw.
      cbn [upd_model upd_adapter e_wlog e_auto_notify e_callbacks]. unfold prim_events.
      destruct ch; cbn [andb]; [|reflexivity]. rewrite (Ev eq_refl). reflexivity. }
    split.
    { rewrite P1. destruct ch.
      - destruct (Ht' eq_refl) as [-> S]. exact S.
      - rewrite (Hf eq_refl). reflexivity. }
    split.
    { intros Hc sec. rewrite P3. rewrite (Hf Hc). reflexivity. }
    destruct (tail_gen_cases _ _ _ _ _ _ _ _ _ Ht) as [[E1 E2]|[Hsec [Hab [Hg [le [Hi Hres]]]]]].
    + subst res. split; [intros b Hb; inversion Hb; reflexivity|]. split; [|split; [|exact Ce]].
      * intros [H|H]; discriminate H.
      * intros e He. discriminate He.
    + subst res. split.
      { intros b Hb. destruct le; cbn [lerr_out] in Hb; [inversion Hb; reflexivity|discriminate Hb]. }
      split.
      { intros [H|H]; destruct le as [|e']; cbn [lerr_out] in H; try discriminate H.
        inversion H; subst e'. exfalso. apply (incremental_links_err _ _ _ _ _ _ Hi). reflexivity. }
      split; [|exact Ce].
      intros e He Hne [Hgd|Hgd]; [apply Hg, Hgd|].
      destruct ch; [reflexivity|]. exfalso.
      destruct le as [|e']; cbn [lerr_out] in He; [discriminate He|].
      destruct (prim_guarded p) eqn:Eg; [specialize (Hg eq_refl); discriminate Hg|].
      rewrite (Hu eq_refl eq_refl) in Hi. rewrite (Hf eq_refl) in M1.
      unfold incremental_links in Hi. rewrite M1 in Hi.
      destruct (get_ast (e_model s) s_g (prim_pt p)) as [a|] eqn:Ea; [|discriminate Hi].
      rewrite (gdefs_ok_get _ _ _ Hgd Ea) in Hi. cbn [link_rules] in Hi. discriminate Hi.
Qed.

(* ====================================================================== *)
(* Part 5a: exactly one callback while notifications are on               *)
(* ====================================================================== *)
Definition NotifyInv (s : estate) : Prop :=
  e_callbacks s = if e_auto_notify s then 1 else 0.

Lemma flags_step_prim s p : flags (fst (step_prim s p)) = flags s.
Proof.
  pose proof (step_prim_run s p) as R.
  inversion R as [ad r Ha Hr E1 E2|ad Ha Hm E1 E2|ad md ch ev lrs s2 r Ha Hm Ht E1 E2].
  - reflexivity.
  - reflexivity.
  - pose proof (flags_tail_gen (prim_guarded p) (emit_mgmt (upd_model (upd_adapter s ad) md) ch ev)
                               (prim_sec p) (prim_pt p) ch (prim_insert p) lrs) as T.
    rewrite Ht in T. cbn [fst] in T. destruct T as [F _]. rewrite F, flags_emit_mgmt. reflexivity.
Qed.

Lemma flags_seq_or s p1 p2 :
  flags (fst (seq_or (step_prim s p1) (fun s' => step_prim s' p2))) = flags s.
Proof.
  unfold seq_or. pose proof (flags_step_prim s p1) as F1.
  destruct (step_prim s p1) as [s1 [a|e|]]; cbn [fst] in *; try exact F1.
  pose proof (flags_step_prim s1 p2) as F2.
  destruct (step_prim s1 p2) as [s2 [b|e|]]; cbn [fst] in *; rewrite F2; exact F1.
Qed.

Lemma flags_step_clear s : flags (fst (step_clear s)) = flags s.
Proof.
  unfold step_clear.
  destruct (if e_auto_save s then ad_clear (e_adapter s) else (e_adapter s, LROk)) as [ad r].
  destruct r; try reflexivity.
  destruct (e_auto_build _).
  - destruct (build_role_links _) as [s3 [|e]] eqn:E; cbn [fst];
      destruct (flags_build_role_links _ _ _ E) as [F _].
    + rewrite flags_emit, F. reflexivity.
    + rewrite F. reflexivity.
  - cbn [fst]. rewrite flags_emit. reflexivity.
Qed.

Lemma flags_step_save s : flags (fst (step_save s)) = flags s.
Proof.
  unfold step_save. destruct (ad_is_filtered (e_adapter s)); [reflexivity|].
  destruct (ad_save (e_adapter s) (e_model s)) as [ad [|e|]]; try reflexivity.
  cbn [fst]. rewrite flags_emit. reflexivity.
Qed.

Lemma flags_step_set_model s d : flags (fst (step_set_model s d)) = flags s.
Proof.
  unfold step_set_model.
  match goal with |- context [step_load ?s0] => pose proof (flags_step_load s0) as [F _];
    destruct (step_load s0) as [s1 [b|e|]] end; cbn [fst] in *; try exact F.
  destruct (register_g_functions s1) as [s2 e] eqn:E. cbn [fst].
  destruct (flags_register_g _ _ _ E) as [F2 _]. rewrite F2. exact F.
Qed.

Lemma flags_step_set_role_manager s mx : flags (fst (step_set_role_manager s mx)) = flags s.
Proof.
  unfold step_set_role_manager.
  match goal with |- context [if e_auto_build ?s1 then build_role_links ?s1 else (?s1, LOk)] =>
    set (s1' := s1);
    assert (F1 : flags s1' = flags s) by reflexivity;
    destruct (if e_auto_build s1' then build_role_links s1' else (s1', LOk)) as [s2 e] eqn:E end.
  assert (F2 : flags s2 = flags s).
  { destruct (e_auto_build s1').
    - destruct (flags_build_role_links _ _ _ E) as [F _]. rewrite F. exact F1.
    - inversion E; subst. exact F1. }
  destruct e as [|c]; [|exact F2].
  destruct (register_g_functions s2) as [s3 e'] eqn:E3. cbn [fst].
  destruct (flags_register_g _ _ _ E3) as [F3 _]. rewrite F3. exact F2.
Qed.

Definition is_toggle (o : op) : bool :=
  match o with
  | OEnableEnforce _ | OEnableAutoSave _ | OEnableAutoBuild _ | OEnableAutoNotify _ => true
  | _ => false
  end.

Lemma flags_step s o : is_toggle o = false -> flags (fst (step s o)) = flags s.
Proof.
  intros Ht. destruct o; try discriminate Ht; cbn [step]; try reflexivity.
  - rewrite step_add_prim. apply flags_step_prim.
  - rewrite step_add_many_prim. apply flags_step_prim.
  - rewrite step_remove_prim. apply flags_step_prim.
  - rewrite step_remove_many_prim. apply flags_step_prim.
  - rewrite step_remove_filtered_prim. apply flags_step_prim.
  - change (step_rbac s r) with (step s (ORbac r)).
    destruct (op_prim (ORbac r)) as [p|] eqn:Ep.
    + rewrite (step_op_prim s _ p Ep). apply flags_step_prim.
    + destruct (op_two (ORbac r)) as [[p1 p2]|] eqn:E2.
      * rewrite (step_op_two s _ p1 p2 E2). apply flags_seq_or.
      * destruct r; discriminate.
  - apply flags_step_clear.
  - apply flags_step_load.
  - apply flags_step_load_filtered.
  - apply flags_step_save.
  - destruct (build_role_links s) as [s' e] eqn:E. cbn [fst]. apply (flags_build_role_links _ _ _ E).
  - apply flags_step_set_model.
  - unfold step_set_adapter. rewrite (proj1 (flags_step_load _)). reflexivity.
  - apply flags_step_set_role_manager.
Qed.

Lemma flags_notify s s' : flags s' = flags s ->
  e_auto_notify s' = e_auto_notify s /\ e_callbacks s' = e_callbacks s /\ e_watcher s' = e_watcher s /\
  e_auto_save s' = e_auto_save s /\ e_auto_build s' = e_auto_build s.
Proof. unfold flags. intros H. inversion H. repeat split; assumption. Qed.

Theorem notify_inv_step : forall s o, NotifyInv s -> NotifyInv (fst (step s o)).
Proof.
  intros s o Hi. destruct (is_toggle o) eqn:Et.
  - destruct o; try discriminate Et; cbn [step fst]; unfold NotifyInv in *;
      cbn [upd_flags e_callbacks e_auto_notify]; try exact Hi.
    destruct b; cbn [negb]; [|reflexivity].
    destruct (e_auto_notify s); cbn [negb]; rewrite Hi; reflexivity.
  - destruct (flags_notify _ _ (flags_step s o Et)) as [N [C _]].
    unfold NotifyInv. rewrite N, C. exact Hi.
Qed.

Theorem notify_inv_new : forall d a w, NotifyInv (fst (new_enforcer d a w)).
Proof.
  intros d a w. unfold new_enforcer.
  destruct (new_raw d a w) as [s e] eqn:E. unfold new_raw in E.
  destruct (flags_register_g _ _ _ E) as [F _].
  assert (I : NotifyInv s).
  { destruct (flags_notify _ _ F) as [N [C _]]. unfold NotifyInv. rewrite N, C. reflexivity. }
  destruct e as [|c]; [|exact I].
  destruct (ad_is_filtered (e_adapter s)); [exact I|].
  destruct (flags_notify _ _ (proj1 (flags_step_load s))) as [N [C _]].
  unfold NotifyInv. rewrite N, C. exact I.
Qed.

Theorem notify_inv_run : forall ops s, NotifyInv s -> NotifyInv (run_ops s ops).
Proof.
  induction ops as [|o ops IH]; intros s Hi; [exact Hi|].
  unfold run_ops. cbn [fold_left]. apply IH. apply notify_inv_step, Hi.
Qed.

Theorem notify_inv_reachable : forall d a w ops, NotifyInv (run_ops (fst (new_enforcer d a w)) ops).
Proof. intros. apply notify_inv_run, notify_inv_new. Qed.

(* enabling twice registers once *)
Theorem double_enable_ok : forall d a w k,
  e_callbacks (run_ops (fst (new_enforcer d a w)) (repeat (OEnableAutoNotify true) k)) = 1 /\
  e_auto_notify (run_ops (fst (new_enforcer d a w)) (repeat (OEnableAutoNotify true) k)) = true.
Proof.
  intros d a w k.
  assert (N : forall s, e_auto_notify s = true ->
                        e_auto_notify (run_ops s (repeat (OEnableAutoNotify true) k)) = true).
  { induction k as [|k IH]; intros s Hs; [exact Hs|].
    cbn [repeat]. unfold run_ops. cbn [fold_left]. apply IH. reflexivity. }
  assert (N0 : e_auto_notify (fst (new_enforcer d a w)) = true).
  { unfold new_enforcer. destruct (new_raw d a w) as [s e] eqn:E. unfold new_raw in E.
    destruct (flags_notify _ _ (proj1 (flags_register_g _ _ _ E))) as [N1 _].
    destruct e as [|c]; [|exact N1].
    destruct (ad_is_filtered (e_adapter s)); [exact N1|].
    destruct (flags_notify _ _ (proj1 (flags_step_load s))) as [N2 _]. rewrite N2. exact N1. }
  pose proof (notify_inv_reachable d a w (repeat (OEnableAutoNotify true) k)) as I.
  unfold NotifyInv in I. rewrite (N _ N0) in I. split; [exact I|apply N, N0].
Qed.


(* ====================================================================== *)
(* Parts 5b/6/7: one public call — log, replica, predicate                *)
(* ====================================================================== *)
Record step_ok (s : estate) (o : op) (evs : list event) : Prop := {
  so_log : e_wlog (fst (step s o)) = e_wlog s ++ evs;
  so_store : store_of (e_model (fst (step s o))) = replay evs (store_of (e_model s));
  so_gvals : gvals (e_model (fst (step s o))) = gvals (e_model s);
  so_events : events_ok (e_auto_notify s) (store_of (e_model s))
                        (m_get_all (e_model s) s_p) (m_get_all (e_model s) s_g)
                        o (snd (step s o)) evs = true
}.

Lemma prim_events_on s p ch : NotifyInv s -> e_auto_notify s = true ->
  prim_events s p ch = if ch then [expected_event p (e_model s)] else [].
Proof.
  intros Hi Hn. unfold prim_events. unfold NotifyInv in Hi. rewrite Hn in *. rewrite Hi.
  destruct ch; reflexivity.
Qed.

Lemma single_ok_of st c res (ch : bool) ev :
  (forall b, res = Ok b -> b = ch) ->
  (res = Err EAdapter \/ res = Panic -> ch = false) ->
  (forall e, res = Err e -> e <> EAdapter -> ch = true) ->
  (ch = true -> call_event st c ev = true) ->
  single_ok st c res (if ch then [ev] else []) = true.
Proof.
  intros H1 H2 H3 H4. destruct res as [[|]|e|]; cbn [single_ok].
  - rewrite <- (H1 true eq_refl). apply H4. symmetry. apply H1. reflexivity.
  - rewrite <- (H1 false eq_refl). reflexivity.
  - destruct e; cbn [is_late_err];
      try (rewrite (H3 _ eq_refl) by discriminate; apply H4; apply (H3 _ eq_refl); discriminate).
    rewrite (H2 (or_introl eq_refl)). reflexivity.
  - rewrite (H2 (or_intror eq_refl)). reflexivity.
Qed.

Lemma events_ok_prim n st op_ og o c res evs :
  op_prim o = Some c -> n = true ->
  events_ok n st op_ og o res evs = single_ok st c res evs.
Proof. intros H ->. unfold events_ok. cbn [negb]. rewrite H. reflexivity. Qed.

Lemma op_prim_two_excl o c : op_prim o = Some c -> op_two o = None.
Proof.
  destruct o; cbn [op_prim op_two]; try reflexivity. destruct r; cbn [rbac_prim rbac_two]; try reflexivity;
    intros H; discriminate H.
Qed.

Lemma events_ok_two n st op_ og o c1 c2 res evs :
  op_two o = Some (c1, c2) -> n = true ->
  events_ok n st op_ og o res evs = two_ok st c1 c2 res evs.
Proof.
  intros H ->. unfold events_ok. cbn [negb]. rewrite H.
  destruct (op_prim o) as [c|] eqn:E; [|reflexivity].
  rewrite (op_prim_two_excl o c E) in H. discriminate H.
Qed.

Lemma gdefs_ok_of_gvals md md' : gvals md' = gvals md -> gdefs_ok md' = gdefs_ok md.
Proof. intros H. rewrite !gdefs_ok_gvals, H. reflexivity. Qed.

Section OneStep.
  Variable s : estate.
  Hypothesis Hw : e_watcher s = true.
  Hypothesis Hi : NotifyInv s.
  Hypothesis Hg : gdefs_ok (e_model s) = true.

  Lemma step_ok_prim o c : op_prim o = Some c -> e_auto_notify s = true -> exists evs, step_ok s o evs.
  Proof.
    intros Ho Hn.
    destruct (step_prim s c) as [s' res] eqn:E.
    destruct (step_prim_effect s c s' res E Hw) as [ch [F [G [L [S [_ [R1 [R2 [R3 Ce]]]]]]]]].
    rewrite (prim_events_on s c ch Hi Hn) in L.
    exists (if ch then [expected_event c (e_model s)] else []).
    constructor; rewrite (step_op_prim s o c Ho), E; cbn [fst snd].
    - exact L.
    - rewrite S. destruct ch; reflexivity.
    - exact G.
    - rewrite (events_ok_prim _ _ _ _ o c _ _ Ho Hn). apply single_ok_of.
      + exact R1.
      + intros H. apply R2, H.
      + intros e He Hne. apply (R3 e He Hne). right. exact Hg.
      + exact Ce.
  Qed.

  Lemma step_ok_two o c1 c2 : op_two o = Some (c1, c2) -> e_auto_notify s = true ->
    exists evs, step_ok s o evs.
  Proof.
    intros Ho Hn.
    destruct (step_prim s c1) as [s1 res1] eqn:E1.
    destruct (step_prim_effect s c1 s1 res1 E1 Hw) as [ch1 [F1 [G1 [L1 [S1 [_ [R1 [_ [_ Ce1]]]]]]]]].
    rewrite (prim_events_on s c1 ch1 Hi Hn) in L1.
    destruct (flags_notify _ _ F1) as [N1 [C1 [W1 _]]].
    assert (Hw1 : e_watcher s1 = true) by (rewrite W1; exact Hw).
    assert (Hn1 : e_auto_notify s1 = true) by (rewrite N1; exact Hn).
    assert (Hi1 : NotifyInv s1) by (unfold NotifyInv; rewrite N1, C1; exact Hi).
    set (ev1 := expected_event c1 (e_model s)) in *.
    set (st := store_of (e_model s)) in *.
    destruct res1 as [a| |].
    - (* the second call runs *)
      destruct (step_prim s1 c2) as [s2 res2] eqn:E2.
      destruct (step_prim_effect s1 c2 s2 res2 E2 Hw1) as [ch2 [F2 [G2 [L2 [S2 [_ [R2 [_ [_ Ce2]]]]]]]]].
      rewrite (prim_events_on s1 c2 ch2 Hi1 Hn1) in L2.
      set (ev2 := expected_event c2 (e_model s1)) in *.
      exists ((if ch1 then [ev1] else []) ++ (if ch2 then [ev2] else [])).
      assert (Est : step s o = (s2, match res2 with Ok b => Ok (a || b) | other => other end)).
      { rewrite (step_op_two s o c1 c2 Ho), E1. unfold seq_or. rewrite E2. destruct res2; reflexivity. }
      constructor; rewrite Est; cbn [fst snd].
      + rewrite L2, L1, app_assoc. reflexivity.
      + rewrite S2, S1. unfold replay. rewrite fold_left_app. fold st.
        destruct ch1, ch2; reflexivity.
      + rewrite G2. exact G1.
      + rewrite (events_ok_two _ _ _ _ o c1 c2 _ _ Ho Hn). unfold two_ok. fold st. apply andb_true_iff. split.
        * rewrite S1 in Ce2. fold st in Ce2.
          destruct ch1, ch2; cbn [app]; try reflexivity.
          -- rewrite (Ce1 eq_refl), (Ce2 eq_refl). reflexivity.
          -- rewrite (Ce1 eq_refl). reflexivity.
          -- rewrite (Ce2 eq_refl). apply orb_true_r.
        * rewrite <- (R1 a eq_refl).
          destruct res2 as [b| |]; try reflexivity. rewrite <- (R2 b eq_refl).
          destruct a, b; reflexivity.
    - exists (if ch1 then [ev1] else []).
      assert (Est : step s o = (s1, Err e)).
      { rewrite (step_op_two s o c1 c2 Ho), E1. reflexivity. }
      constructor; rewrite Est; cbn [fst snd].
      + exact L1.
      + rewrite S1. destruct ch1; reflexivity.
      + exact G1.
      + rewrite (events_ok_two _ _ _ _ o c1 c2 _ _ Ho Hn). unfold two_ok. fold st. rewrite andb_true_r.
        destruct ch1; [|reflexivity]. rewrite (Ce1 eq_refl). reflexivity.
    - exists (if ch1 then [ev1] else []).
      assert (Est : step s o = (s1, Panic)).
      { rewrite (step_op_two s o c1 c2 Ho), E1. reflexivity. }
      constructor; rewrite Est; cbn [fst snd].
      + exact L1.
      + rewrite S1. destruct ch1; reflexivity.
      + exact G1.
      + rewrite (events_ok_two _ _ _ _ o c1 c2 _ _ Ho Hn). unfold two_ok. fold st. rewrite andb_true_r.
        destruct ch1; [|reflexivity]. rewrite (Ce1 eq_refl). reflexivity.
  Qed.
End OneStep.

(* ---- clear ---- *)
Lemma assoc_g_clear md :
  assoc s_g (m_clear_policy md) =
  match assoc s_g md with
  | Some am => Some (map (fun ka => (fst ka, with_policy (snd ka) [])) am)
  | None => None
  end.
Proof.
  unfold m_clear_policy.
  assert (E : assoc s_g (clear_sec md s_p) = assoc s_g md).
  { unfold clear_sec. destruct (assoc s_p md); [|reflexivity].
    apply assoc_set_other. exact s_p_neq_g. }
  unfold clear_sec at 1. rewrite E. destruct (assoc s_g md) as [am|]; [|exact E].
  apply assoc_set_same.
Qed.

Lemma build_links_am_empty : forall am m,
  (forall ka, In ka am -> Nat.ltb (count_us (a_value (snd ka))) 2 = false /\ a_policy (snd ka) = []) ->
  exists am', build_links_am am m = (am', m, LOk).
Proof.
  induction am as [|[k a] am IH]; intros m H; cbn [build_links_am].
  - exists []. reflexivity.
  - destruct (H (k, a) (or_introl eq_refl)) as [H1 H2]. cbn [snd] in H1, H2. rewrite H1, H2.
    cbn [link_rules]. destruct (IH m) as [am' E].
    { intros ka Hk. apply H. right. exact Hk. }
    rewrite E. eexists. reflexivity.
Qed.

Lemma build_role_links_cleared s1 :
  gdefs_ok (e_model s1) = true ->
  exists s3, build_role_links (upd_model s1 (m_clear_policy (e_model s1))) = (s3, LOk).
Proof.
  intros Hg. unfold build_role_links. cbn [upd_model e_model]. rewrite assoc_g_clear.
  unfold gdefs_ok in Hg. destruct (assoc s_g (e_model s1)) as [am|]; [|eexists; reflexivity].
  destruct (build_links_am_empty (map (fun ka => (fst ka, with_policy (snd ka) [])) am) []) as [am' E].
  { intros ka Hk. apply in_map_iff in Hk. destruct Hk as [[k a] [<- Hk]]. cbn [fst snd with_policy a_value a_policy].
    rewrite forallb_forall in Hg. specialize (Hg _ Hk). cbn [snd] in Hg.
    split; [|reflexivity]. apply Nat.ltb_ge. apply Nat.leb_le. exact Hg. }
  rewrite E. eexists. reflexivity.
Qed.

Lemma step_ok_clear s :
  e_watcher s = true -> NotifyInv s -> gdefs_ok (e_model s) = true -> e_auto_notify s = true ->
  exists evs, step_ok s OClear evs.
Proof.
  intros Hw Hi Hg Hn. unfold NotifyInv in Hi. rewrite Hn in Hi.
  assert (EO : forall res evs,
    events_ok (e_auto_notify s) (store_of (e_model s)) (m_get_all (e_model s) s_p)
              (m_get_all (e_model s) s_g) OClear res evs
    = match res with Ok _ => match evs with [EvClear] => true | _ => false end | _ => is_nil evs end).
  { intros res evs. unfold events_ok. rewrite Hn. reflexivity. }
  assert (Step : step s OClear = step_clear s) by reflexivity.
  unfold step_clear in Step.
  destruct (if e_auto_save s then ad_clear (e_adapter s) else (e_adapter s, LROk)) as [ad r].
  destruct r as [|e|].
  - set (s1 := upd_adapter s ad) in *.
    assert (Hg1 : gdefs_ok (e_model s1) = true) by exact Hg.
    destruct (build_role_links_cleared s1 Hg1) as [s3 B].
    assert (K : exists s4, step s OClear = (emit s4 EvClear, Ok true) /\
                           e_wlog s4 = e_wlog s /\ flags s4 = flags s /\
                           same_policies (m_clear_policy (e_model s)) (e_model s4)).
    { destruct (e_auto_build (upd_model s1 (m_clear_policy (e_model s1)))).
      - rewrite B in Step. exists s3. split; [exact Step|].
        destruct (flags_build_role_links _ _ _ B) as [F W].
        split; [exact W|]. split; [exact F|]. apply (build_role_links_policies _ _ _ B).
      - eexists. split; [exact Step|]. repeat split. }
    destruct K as [s4 [E [W [F [P1 [P2 _]]]]]]. destruct (flags_notify _ _ F) as [_ [C4 [W4 _]]].
    exists [EvClear]. constructor; rewrite E; cbn [fst snd].
    + rewrite emit_log by (rewrite W4; exact Hw). rewrite C4, Hi, W. reflexivity.
    + rewrite (proj1 (emit_frame s4 EvClear)). rewrite P1, store_of_clear. reflexivity.
    + rewrite (proj1 (emit_frame s4 EvClear)). rewrite P2. apply gvals_clear.
    + rewrite EO. reflexivity.
  - exists []. constructor; rewrite Step; cbn [fst snd lres_out]; try rewrite app_nil_r; try reflexivity.
    rewrite EO. reflexivity.
  - exists []. constructor; rewrite Step; cbn [fst snd lres_out]; try rewrite app_nil_r; try reflexivity.
    rewrite EO. reflexivity.
Qed.

(* ---- save ---- *)
Lemma step_ok_save s :
  e_watcher s = true -> NotifyInv s -> exists evs, step_ok s OSave evs.
Proof.
  intros Hw Hi. unfold NotifyInv in Hi.
  assert (EO : forall res evs,
    events_ok (e_auto_notify s) (store_of (e_model s)) (m_get_all (e_model s) s_p)
              (m_get_all (e_model s) s_g) OSave res evs
    = if negb (e_auto_notify s) then is_nil evs
      else match res with
           | Ok _ => match evs with
                     | [EvSave snap] => rules_eqb snap (m_get_all (e_model s) s_p ++ m_get_all (e_model s) s_g)
                     | _ => false end
           | _ => is_nil evs end).
  { intros res evs. reflexivity. }
  assert (Step : step s OSave = step_save s) by reflexivity.
  unfold step_save in Step.
  destruct (ad_is_filtered (e_adapter s)).
  { exists []. constructor; rewrite Step; cbn [fst snd]; try rewrite app_nil_r; try reflexivity.
    rewrite EO. destruct (e_auto_notify s); reflexivity. }
  destruct (ad_save (e_adapter s) (e_model s)) as [ad [|e|]].
  - exists (repeat (EvSave (m_get_all (e_model s) s_p ++ m_get_all (e_model s) s_g)) (e_callbacks s)).
    constructor; rewrite Step; cbn [fst snd].
    + rewrite emit_log by exact Hw. reflexivity.
    + rewrite (proj1 (emit_frame _ _)). cbn [upd_adapter e_model].
      rewrite Hi. destruct (e_auto_notify s); reflexivity.
    + rewrite (proj1 (emit_frame _ _)). reflexivity.
    + rewrite EO, Hi. destruct (e_auto_notify s); cbn [negb repeat is_nil]; [|reflexivity].
      apply rules_eqb_refl.
  - exists []. constructor; rewrite Step; cbn [fst snd lres_out]; try rewrite app_nil_r; try reflexivity.
    rewrite EO. destruct (e_auto_notify s); reflexivity.
  - exists []. constructor; rewrite Step; cbn [fst snd lres_out]; try rewrite app_nil_r; try reflexivity.
    rewrite EO. destruct (e_auto_notify s); reflexivity.
Qed.

(* ---- the operations that neither change the policy nor notify ---- *)
Lemma set_role_manager_effect s mx :
  e_wlog (fst (step_set_role_manager s mx)) = e_wlog s /\
  same_policies (e_model s) (e_model (fst (step_set_role_manager s mx))).
Proof.
  unfold step_set_role_manager.
  match goal with |- context [if e_auto_build ?s1 then build_role_links ?s1 else (?s1, LOk)] =>
    set (s1' := s1) end.
  assert (W1 : e_wlog s1' = e_wlog s) by reflexivity.
  assert (P1 : same_policies (e_model s) (e_model s1')).
  { unfold s1'. cbn [upd_fs upd_model e_model].
    destruct (assoc s_g (e_model s)) as [am|] eqn:Ea; [|apply same_policies_refl].
    apply (same_policies_replace _ s_g am _ Ea). intros B g Hg.
    apply (amap_view_map g (fun a => with_handle a (freeze_handle (f_rm (e_fs s)) (f_rm_max (e_fs s)) (a_handle a)))).
    intros k a. apply Hg. }
  destruct (if e_auto_build s1' then build_role_links s1' else (s1', LOk)) as [s2 e] eqn:E.
  assert (K : e_wlog s2 = e_wlog s /\ same_policies (e_model s) (e_model s2)).
  { destruct (e_auto_build s1').
    - destruct (flags_build_role_links _ _ _ E) as [_ W]. split; [rewrite W; exact W1|].
      eapply same_policies_trans; [exact P1|]. eapply build_role_links_policies, E.
    - inversion E; subst. split; assumption. }
  destruct e as [|c]; [|exact K].
  destruct (register_g_functions s2) as [s3 e'] eqn:E3. cbn [fst].
  destruct (flags_register_g _ _ _ E3) as [_ [W3 M3]]. rewrite W3, M3. exact K.
Qed.

Definition quiet_op (o : op) : bool :=
  match o with
  | OBuildRoleLinks | OSetRoleManager _ | OSetEffector | OAddFunction _ _
  | OEnableEnforce _ | OEnableAutoSave _ | OEnableAutoBuild _ | OEnableAutoNotify _ => true
  | _ => false
  end.

Lemma quiet_effect s o : quiet_op o = true ->
  e_wlog (fst (step s o)) = e_wlog s /\ same_policies (e_model s) (e_model (fst (step s o))).
Proof.
  intros Hq. destruct o; try discriminate Hq; cbn [step]; try (split; [reflexivity|apply same_policies_refl]).
  - destruct (build_role_links s) as [s' e] eqn:E. cbn [fst]. split.
    + apply (flags_build_role_links _ _ _ E).
    + eapply build_role_links_policies, E.
  - apply set_role_manager_effect.
Qed.

Lemma step_ok_quiet s o : quiet_op o = true -> step_ok s o [].
Proof.
  intros Hq. destruct (quiet_effect s o Hq) as [W [P1 [P2 _]]].
  constructor.
  - rewrite W, app_nil_r. reflexivity.
  - rewrite P1. reflexivity.
  - exact P2.
  - unfold events_ok. destruct (negb (e_auto_notify s)); [reflexivity|].
    generalize (snd (step s o)). intros res.
    destruct o; try discriminate Hq; cbn [op_prim op_two]; destruct res as [[|]|e|]; reflexivity.
Qed.

Lemma notified_cases o : notified_op o = true ->
  (exists c, op_prim o = Some c) \/ (exists c1 c2, op_two o = Some (c1, c2)) \/
  o = OClear \/ o = OSave \/ quiet_op o = true.
Proof.
  intros H. destruct o; try discriminate H; cbn [op_prim op_two quiet_op]; eauto 6.
  destruct r; cbn [rbac_prim rbac_two]; eauto 6.
Qed.

Lemma mutating_prim o c : op_prim o = Some c -> mutating o = true.
Proof. intros H. unfold mutating, is_mgmt. rewrite H. reflexivity. Qed.
Lemma mutating_two o c1 c2 : op_two o = Some (c1, c2) -> mutating o = true.
Proof. intros H. unfold mutating, is_mgmt. rewrite H. destruct (op_prim o); reflexivity. Qed.

(* the step lemma everything below rests on *)
Theorem step_ok_all : forall s o,
  e_watcher s = true -> NotifyInv s -> gdefs_ok (e_model s) = true ->
  notified_op o = true -> (mutating o = true -> e_auto_notify s = true) ->
  exists evs, step_ok s o evs.
Proof.
  intros s o Hw Hi Hg Hn Hm.
  destruct (notified_cases o Hn) as [[c Hc]|[[c1 [c2 Hc]]|[->|[->|Hq]]]].
  - apply (step_ok_prim s Hw Hi Hg o c Hc). apply Hm. eapply mutating_prim, Hc.
  - apply (step_ok_two s Hw Hi o c1 c2 Hc). apply Hm. eapply mutating_two, Hc.
  - apply step_ok_clear; auto.
  - apply step_ok_save; auto.
  - exists []. apply step_ok_quiet, Hq.
Qed.

(* ====================================================================== *)
(* Part 6: the replica follows the primary                                *)
(* ====================================================================== *)
Lemma flat_map_nil {A B} (f : A -> list B) l : (forall x, In x l -> f x = []) -> flat_map f l = [].
Proof.
  induction l as [|x l IH]; intros H; cbn [flat_map]; [reflexivity|].
  rewrite (H x (or_introl eq_refl)). apply IH. intros y Hy. apply H. right. exact Hy.
Qed.

Lemma st_flat_sec_store_same md sec : st_flat sec (sec_store md sec) = m_get_all md sec.
Proof.
  unfold st_flat, sec_store, m_get_all. destruct (assoc sec md) as [am|]; [|reflexivity].
  induction am as [|[k a] am IH]; cbn [map flat_map fst snd]; [reflexivity|].
  rewrite teqb_refl, IH. reflexivity.
Qed.

Lemma st_flat_sec_store_other md sec sec' : sec' <> sec -> st_flat sec (sec_store md sec') = [].
Proof.
  intros Hne. unfold st_flat. apply flat_map_nil. intros e He. cbv beta.
  assert (K : fst (fst e) = sec') by exact (sec_store_keys _ _ _ He). rewrite K. apply teqb_neq in Hne. rewrite Hne. reflexivity.
Qed.

Lemma st_flat_app sec a b : st_flat sec (a ++ b) = st_flat sec a ++ st_flat sec b.
Proof. unfold st_flat. apply flat_map_app. Qed.

Lemma st_flat_store_of_p md : st_flat s_p (store_of md) = m_get_all md s_p.
Proof.
  unfold store_of. rewrite st_flat_app.
  rewrite st_flat_sec_store_same, st_flat_sec_store_other, app_nil_r; [reflexivity|].
  intros E. apply s_p_neq_g. symmetry. exact E.
Qed.
Lemma st_flat_store_of_g md : st_flat s_g (store_of md) = m_get_all md s_g.
Proof.
  unfold store_of. rewrite st_flat_app.
  rewrite st_flat_sec_store_same, st_flat_sec_store_other; [reflexivity|exact s_p_neq_g].
Qed.

Lemma watcher_step s o : e_watcher (fst (step s o)) = e_watcher s.
Proof.
  destruct (is_toggle o) eqn:Et.
  - destruct o; try discriminate Et; reflexivity.
  - apply (flags_notify _ _ (flags_step s o Et)).
Qed.

Lemma notify_step s o : e_auto_notify (fst (step s o)) = next_notify (e_auto_notify s) o.
Proof.
  destruct (is_toggle o) eqn:Et.
  - destruct o; try discriminate Et; reflexivity.
  - rewrite (proj1 (flags_notify _ _ (flags_step s o Et))). destruct o; try reflexivity. discriminate Et.
Qed.

Lemma toggles_ok_cons n o rest : toggles_ok n (o :: rest) = true ->
  (mutating o = true -> n = true) /\ toggles_ok (next_notify n o) rest = true.
Proof.
  destruct o; cbn [toggles_ok next_notify];
    try (intros H; apply andb_true_iff in H; destruct H as [H1 H2]; split; [|exact H2];
         intros Hm; rewrite Hm in H1; exact H1).
  intros H. split; [intros Hm; discriminate Hm|exact H].
Qed.

Lemma toggles_ok_app n a b : toggles_ok n (a ++ b) = true -> toggles_ok n a = true.
Proof.
  revert n. induction a as [|o a IH]; intros n H; [reflexivity|].
  cbn [app] in H. destruct o; cbn [toggles_ok] in *;
    try (apply andb_true_iff in H; destruct H as [H1 H2]; rewrite H1; cbn [andb]; apply IH, H2).
  apply IH, H.
Qed.

(* what the history-level statements assume of the starting state *)
Definition C14Inv (s : estate) : Prop :=
  e_watcher s = true /\ NotifyInv s /\ gdefs_ok (e_model s) = true.

Lemma c14inv_step s o evs : C14Inv s -> step_ok s o evs -> C14Inv (fst (step s o)).
Proof.
  intros [Hw [Hi Hg]] K. split; [|split].
  - rewrite watcher_step. exact Hw.
  - apply notify_inv_step, Hi.
  - rewrite (gdefs_ok_of_gvals _ _ (so_gvals _ _ _ K)). exact Hg.
Qed.

Theorem replica_eq : forall ops s0,
  C14Inv s0 -> forallb notified_op ops = true -> toggles_ok (e_auto_notify s0) ops = true ->
  exists evs,
    e_wlog (run_ops s0 ops) = e_wlog s0 ++ evs /\
    store_of (e_model (run_ops s0 ops)) = replay evs (store_of (e_model s0)).
Proof.
  induction ops as [|o ops IH]; intros s0 Inv Hn Ht.
  - exists []. split; [rewrite app_nil_r; reflexivity|reflexivity].
  - cbn [forallb] in Hn. apply andb_true_iff in Hn. destruct Hn as [Hn1 Hn2].
    destruct (toggles_ok_cons _ _ _ Ht) as [Hm Ht2].
    destruct Inv as [Hw [Hi Hg]].
    destruct (step_ok_all s0 o Hw Hi Hg Hn1 Hm) as [evs1 K].
    assert (Inv1 : C14Inv (fst (step s0 o))) by (eapply c14inv_step; [repeat split; assumption|exact K]).
    rewrite <- notify_step in Ht2.
    destruct (IH (fst (step s0 o)) Inv1 Hn2 Ht2) as [evs2 [L2 S2]].
    exists (evs1 ++ evs2). unfold run_ops in *. cbn [fold_left]. split.
    + rewrite L2, (so_log _ _ _ K), app_assoc. reflexivity.
    + rewrite S2, (so_store _ _ _ K). unfold replay. rewrite fold_left_app. reflexivity.
Qed.

(* the watcher log after the history, minus what it held before *)
Definition new_events (s0 s : estate) : list event := skipn (length (e_wlog s0)) (e_wlog s).

Lemma skipn_app_exact {A} (a b : list A) : skipn (length a) (a ++ b) = b.
Proof. induction a as [|x a IH]; [reflexivity|exact IH]. Qed.

(* the form of the statement: at every prefix of the history, folding the
   events delivered so far into the initial store gives the primary's p and g
   listings, in order *)
Theorem replica_eq_listing : forall ops1 ops2 s0,
  C14Inv s0 -> forallb notified_op (ops1 ++ ops2) = true ->
  toggles_ok (e_auto_notify s0) (ops1 ++ ops2) = true ->
  let s := run_ops s0 ops1 in
  let replica := replay (new_events s0 s) (store_of (e_model s0)) in
  replica = store_of (e_model s) /\
  st_flat s_p replica = m_get_all (e_model s) s_p /\
  st_flat s_g replica = m_get_all (e_model s) s_g.
Proof.
  intros ops1 ops2 s0 Inv Hn Ht. cbv zeta.
  rewrite forallb_app in Hn. apply andb_true_iff in Hn. destruct Hn as [Hn1 _].
  apply toggles_ok_app in Ht.
  destruct (replica_eq ops1 s0 Inv Hn1 Ht) as [evs [L S]].
  unfold new_events. rewrite L, skipn_app_exact, <- S.
  split; [reflexivity|]. split; [apply st_flat_store_of_p|apply st_flat_store_of_g].
Qed.

(* ====================================================================== *)
(* Part 7: the model's traces satisfy the executable predicate            *)
(* ====================================================================== *)
Fixpoint model_trace (s : estate) (ops : list op) : list obs :=
  match ops with
  | [] => []
  | o :: rest =>
    let s' := fst (step s o) in
    {| o_op := o; o_res := snd (step s o);
       o_events := new_events s s';
       o_p := m_get_all (e_model s') s_p; o_g := m_get_all (e_model s') s_g |}
      :: model_trace s' rest
  end.

Lemma c14_go_model : forall ops s,
  C14Inv s -> forallb notified_op ops = true -> toggles_ok (e_auto_notify s) ops = true ->
  c14_go (e_auto_notify s) (store_of (e_model s)) (m_get_all (e_model s) s_p)
         (m_get_all (e_model s) s_g) (model_trace s ops) = true.
Proof.
  induction ops as [|o ops IH]; intros s Inv Hn Ht; [reflexivity|].
  cbn [forallb] in Hn. apply andb_true_iff in Hn. destruct Hn as [Hn1 Hn2].
  destruct (toggles_ok_cons _ _ _ Ht) as [Hm Ht2].
  destruct Inv as [Hw [Hi Hg]].
  destruct (step_ok_all s o Hw Hi Hg Hn1 Hm) as [evs K].
  assert (Inv1 : C14Inv (fst (step s o))) by (eapply c14inv_step; [repeat split; assumption|exact K]).
  cbn [model_trace c14_go o_op o_res o_events o_p o_g].
  assert (Ev : new_events s (fst (step s o)) = evs).
  { unfold new_events. rewrite (so_log _ _ _ K). apply skipn_app_exact. }
  rewrite Ev, <- (so_store _ _ _ K), (so_events _ _ _ K).
  rewrite st_flat_store_of_p, st_flat_store_of_g, !rules_eqb_refl. cbn [andb].
  rewrite <- notify_step. apply IH; [exact Inv1|exact Hn2|]. rewrite notify_step. exact Ht2.
Qed.

Theorem c14_pred_model : forall ops s,
  C14Inv s -> forallb notified_op ops = true -> toggles_ok (e_auto_notify s) ops = true ->
  c14_pred (e_auto_notify s) (store_of (e_model s)) (model_trace s ops) = true.
Proof.
  intros ops s Inv Hn Ht. unfold c14_pred. rewrite st_flat_store_of_p, st_flat_store_of_g.
  apply c14_go_model; assumption.
Qed.

(* ====================================================================== *)
(* Part 5b: delivery count and payload, per public call                   *)
(* ====================================================================== *)
Definition late_ok (c : prim) (md : model) : Prop := prim_guarded c = true \/ gdefs_ok md = true.

Theorem delivery_single : forall s o c s' res,
  op_prim o = Some c -> e_watcher s = true -> NotifyInv s -> e_auto_notify s = true ->
  step s o = (s', res) ->
  match res with
  | Ok true => e_wlog s' = e_wlog s ++ [expected_event c (e_model s)]
  | Ok false => e_wlog s' = e_wlog s
  | Err EAdapter => e_wlog s' = e_wlog s
  | Err _ => late_ok c (e_model s) -> e_wlog s' = e_wlog s ++ [expected_event c (e_model s)]
  | Panic => e_wlog s' = e_wlog s
  end.
Proof.
  intros s o c s' res Ho Hw Hi Hn Hs. rewrite (step_op_prim s o c Ho) in Hs.
  destruct (step_prim_effect s c s' res Hs Hw) as [ch [_ [_ [L [_ [_ [R1 [R2 [R3 _]]]]]]]]].
  rewrite (prim_events_on s c ch Hi Hn) in L.
  destruct res as [[|]|e|].
  - rewrite <- (R1 true eq_refl) in L. exact L.
  - rewrite <- (R1 false eq_refl), app_nil_r in L. exact L.
  - destruct e; try (intros Hl; rewrite (R3 _ eq_refl) in L; [exact L|discriminate|exact Hl]).
    rewrite (proj1 (R2 (or_introl eq_refl))), app_nil_r in L. exact L.
  - rewrite (proj1 (R2 (or_intror eq_refl))), app_nil_r in L. exact L.
Qed.

(* with notifications off no management call reaches the watcher *)
Theorem delivery_off : forall s o,
  is_mgmt o = true -> e_watcher s = true -> e_auto_notify s = false ->
  e_wlog (fst (step s o)) = e_wlog s.
Proof.
  intros s o Hm Hw Hn.
  assert (P : forall s1 c, e_watcher s1 = true -> e_auto_notify s1 = false ->
                           e_wlog (fst (step_prim s1 c)) = e_wlog s1 /\ flags (fst (step_prim s1 c)) = flags s1).
  { intros s1 c Hw1 Hn1. destruct (step_prim s1 c) as [s2 res] eqn:E.
    destruct (step_prim_effect s1 c s2 res E Hw1) as [ch [F [_ [L _]]]].
    unfold prim_events in L. rewrite Hn1, andb_false_r, app_nil_r in L. split; [exact L|exact F]. }
  unfold is_mgmt in Hm. destruct (op_prim o) as [c|] eqn:Ep.
  - rewrite (step_op_prim s o c Ep). apply P; assumption.
  - destruct (op_two o) as [[c1 c2]|] eqn:Et; [|discriminate Hm].
    rewrite (step_op_two s o c1 c2 Et). unfold seq_or.
    destruct (P s c1 Hw Hn) as [L1 F1]. destruct (step_prim s c1) as [s1 [a|e|]]; cbn [fst] in *; try exact L1.
    destruct (flags_notify _ _ F1) as [N1 [_ [W1 _]]].
    destruct (P s1 c2) as [L2 _]; [rewrite W1; exact Hw|rewrite N1; exact Hn|].
    destruct (step_prim s1 c2) as [s2 [b|e|]]; cbn [fst] in *; rewrite L2; exact L1.
Qed.

(* the payload of a filtered removal, in terms of the public read API *)
Theorem filtered_payload : forall md sec pt idx vals md' rem lrs ev,
  prim_mop (PRemoveFiltered sec pt idx vals) md = Some (md', true, ev, lrs) ->
  ev = EvRemoveFiltered sec pt rem ->
  m_get_filtered md sec pt idx vals = Some rem /\
  rem = filter (fmatch_true idx vals) (m_get_policy md sec pt) /\
  m_get_policy md' sec pt = os_remove_many (m_get_policy md sec pt) rem /\
  rem = os_diff (m_get_policy md sec pt) (m_get_policy md' sec pt) /\
  rem <> [].
Proof.
  intros md sec pt idx vals md' rem lrs ev H He. cbn [prim_mop] in H.
  destruct (m_remove_filtered md sec pt idx vals) as [[[m b] rm]|] eqn:E; [|discriminate H].
  subst ev. inversion H; subst m b rm lrs.
  destruct (removed_is_old_minus_new _ _ _ _ _ _ _ E) as [A [B [C D]]].
  repeat split; try assumption.
  intros ->. unfold m_remove_filtered in E. destruct vals; [discriminate E|].
  destruct (get_ast md sec pt); [|discriminate E].
  destruct (select_filtered idx (t :: vals) (a_policy a)) as [[|]|]; discriminate E.
Qed.

(* clear_policy and save_policy *)
Theorem delivery_clear : forall s s' res,
  e_watcher s = true -> step s OClear = (s', res) ->
  e_wlog s' = e_wlog s ++ match res with Ok _ => repeat EvClear (e_callbacks s) | _ => [] end.
Proof.
  intros s s' res Hw Hs. cbn [step] in Hs. unfold step_clear in Hs.
  destruct (if e_auto_save s then ad_clear (e_adapter s) else (e_adapter s, LROk)) as [ad r].
  destruct r as [|e|]; try (inversion Hs; subst; cbn [lres_out]; rewrite app_nil_r; reflexivity).
  destruct (e_auto_build _).
  - destruct (build_role_links _) as [s3 [|e]] eqn:E; inversion Hs; subst;
      destruct (flags_build_role_links _ _ _ E) as [F W]; destruct (flags_notify _ _ F) as [_ [C [W3 _]]].
    + rewrite emit_log by (rewrite W3; exact Hw). rewrite W, C. reflexivity.
    + rewrite W, app_nil_r. reflexivity.
  - inversion Hs; subst. rewrite emit_log by exact Hw. reflexivity.
Qed.

Theorem delivery_save : forall s s' res,
  e_watcher s = true -> step s OSave = (s', res) ->
  e_model s' = e_model s /\
  e_wlog s' = e_wlog s ++
    match res with
    | Ok _ => repeat (EvSave (m_get_all (e_model s) s_p ++ m_get_all (e_model s) s_g)) (e_callbacks s)
    | _ => []
    end.
Proof.
  intros s s' res Hw Hs. cbn [step] in Hs. unfold step_save in Hs.
  destruct (ad_is_filtered (e_adapter s)).
  { inversion Hs; subst. rewrite app_nil_r. split; reflexivity. }
  destruct (ad_save (e_adapter s) (e_model s)) as [ad [|e|]]; inversion Hs; subst; cbn [lres_out].
  - split; [rewrite (proj1 (emit_frame _ _)); reflexivity|]. rewrite emit_log by exact Hw. reflexivity.
  - rewrite app_nil_r. split; reflexivity.
  - rewrite app_nil_r. split; reflexivity.
Qed.

(* the snapshot of a save is the replica's listing *)
Theorem save_snapshot_is_replica : forall s,
  m_get_all (e_model s) s_p ++ m_get_all (e_model s) s_g
  = st_flat s_p (store_of (e_model s)) ++ st_flat s_g (store_of (e_model s)).
Proof. intros s. rewrite st_flat_store_of_p, st_flat_store_of_g. reflexivity. Qed.

(* ====================================================================== *)
(* Examples                                                               *)
(* ====================================================================== *)
Definition ex_s0 : estate := ex_new (AMemory [] false).

Lemma ex_s0_inv : C14Inv ex_s0.
Proof. unfold C14Inv, NotifyInv. vm_compute. repeat split. Qed.

(* adds, a rejected re-add, batches (one rejected), RBAC helpers, another
   policy type, a filtered removal, saves, toggles off/on/on, a two-call
   helper delivering two events, removals (one rejected), a late error (the
   grouping rule [carol] is too short), clear, and more after it *)
Definition ex_hist : list op :=
  [ OAdd s_p s_p [alice; data1; read];
    OAdd s_p s_p [alice; data1; read];
    OAddMany s_p s_p [[bob; data2; write]; [carol; data1; read]];
    OAddMany s_p s_p [[bob; data2; read]; [carol; data1; read]];
    ORbac (RAddRole alice admin None);
    ORbac (RAddRole bob admin None);
    OAdd s_p (T "p2") [admin; write];
    OAdd s_p s_p [alice; data2; read];
    ORemoveFiltered s_p s_p 1 [data1];
    OSave;
    OEnableAutoNotify false; OSave; OEnableAutoNotify true; OEnableAutoNotify true;
    ORbac (RDeleteUser alice);
    ORemove s_p s_p [bob; data2; write];
    ORemoveMany s_p s_p [[bob; data2; write]];
    OEnableAutoSave false;
    OAdd s_g s_g [carol];
    OClear;
    OAdd s_p s_p [alice; data1; read];
    OSave ].

Example ex_hist_hyps : forallb notified_op ex_hist = true /\ toggles_ok (e_auto_notify ex_s0) ex_hist = true.
Proof. vm_compute. split; reflexivity. Qed.

Example ex_hist_results :
  map o_res (model_trace ex_s0 ex_hist) =
  [Ok true; Ok false; Ok true; Ok false; Ok true; Ok true; Ok true; Ok true; Ok true; Ok true;
   Ok true; Ok true; Ok true; Ok true; Ok true; Ok true; Ok false; Ok true; Err EPolicy; Ok true;
   Ok true; Ok true] /\
  map (fun o => length (o_events o)) (model_trace ex_s0 ex_hist) =
  [1; 0; 1; 0; 1; 1; 1; 1; 1; 1; 0; 0; 0; 0; 2; 1; 0; 0; 1; 1; 1; 1].
Proof. vm_compute. split; reflexivity. Qed.

Example ex_hist_payloads :
  nth 8 (map o_events (model_trace ex_s0 ex_hist)) [] =
    [EvRemoveFiltered s_p s_p [[alice; data1; read]; [carol; data1; read]]] /\
  nth 9 (map o_events (model_trace ex_s0 ex_hist)) [] =
    [EvSave [[s_p; s_p; bob; data2; write]; [s_p; s_p; alice; data2; read]; [s_p; T "p2"; admin; write];
             [s_g; s_g; alice; admin]; [s_g; s_g; bob; admin]]] /\
  nth 14 (map o_events (model_trace ex_s0 ex_hist)) [] =
    [EvRemoveFiltered s_g s_g [[alice; admin]]; EvRemoveFiltered s_p s_p [[alice; data2; read]]] /\
  nth 19 (map o_events (model_trace ex_s0 ex_hist)) [] = [EvClear].
Proof. vm_compute. repeat split. Qed.

Example ex_hist_pred :
  c14_pred (e_auto_notify ex_s0) (store_of (e_model ex_s0)) (model_trace ex_s0 ex_hist) = true.
Proof. vm_compute. reflexivity. Qed.

Example ex_hist_replica :
  replay (new_events ex_s0 (run_ops ex_s0 ex_hist)) (store_of (e_model ex_s0))
  = [((s_p, s_p), [[alice; data1; read]]); ((s_p, T "p2"), []); ((s_g, s_g), [])] /\
  store_of (e_model (run_ops ex_s0 ex_hist))
  = [((s_p, s_p), [[alice; data1; read]]); ((s_p, T "p2"), []); ((s_g, s_g), [])].
Proof. vm_compute. split; reflexivity. Qed.

(* the predicate is not trivially true: it rejects a duplicated delivery, a
   dropped one, and a wrong payload *)
Definition ex_tamper (f : list event -> list event) (k : nat) (tr : list obs) : list obs :=
  map (fun io => if Nat.eqb (fst io) k
                 then {| o_op := o_op (snd io); o_res := o_res (snd io); o_events := f (o_events (snd io));
                         o_p := o_p (snd io); o_g := o_g (snd io) |}
                 else snd io)
      (combine (seq 0 (length tr)) tr).

Example c14_pred_rejects :
  c14_pred true (store_of (e_model ex_s0)) (ex_tamper (fun l => l ++ l) 0 (model_trace ex_s0 ex_hist)) = false /\
  c14_pred true (store_of (e_model ex_s0)) (ex_tamper (fun _ => []) 2 (model_trace ex_s0 ex_hist)) = false /\
  c14_pred true (store_of (e_model ex_s0))
           (ex_tamper (fun _ => [EvRemoveFiltered s_p s_p [[alice; data1; read]]]) 8
                      (model_trace ex_s0 ex_hist)) = false /\
  c14_pred true (store_of (e_model ex_s0)) (ex_tamper (fun _ => [EvClear]) 1 (model_trace ex_s0 ex_hist)) = false.
Proof. vm_compute. repeat split. Qed.

(* two registered callbacks (what a second enable_auto_notify_watcher(true)
   produced before the repair): every change is delivered twice and the
   predicate fails.  NotifyInv is what excludes this state *)
Example double_callback_refuted :
  let s := upd_flags ex_s0 true true true true 2 in
  e_wlog (fst (step s (OAdd s_p s_p [alice; data1; read])))
    = [EvAdd s_p s_p [alice; data1; read]; EvAdd s_p s_p [alice; data1; read]] /\
  c14_pred true (store_of (e_model s)) (model_trace s [OAdd s_p s_p [alice; data1; read]]) = false.
Proof. vm_compute. split; reflexivity. Qed.

(* a mutating call made while notifications are off is not replicated: the
   toggle condition of replica_eq is necessary *)
Example replica_needs_notify_on :
  let ops := [OEnableAutoNotify false; OAdd s_p s_p [alice; data1; read]; OEnableAutoNotify true] in
  forallb notified_op ops = true /\ toggles_ok true ops = false /\
  new_events ex_s0 (run_ops ex_s0 ops) = [] /\
  store_of (e_model (run_ops ex_s0 ops)) <> replay (new_events ex_s0 (run_ops ex_s0 ops)) (store_of (e_model ex_s0)).
Proof. vm_compute. repeat split. intros H. discriminate H. Qed.

(* loads are not notified: outside the changelog *)
Example replica_excludes_load :
  let s := ex_new (AMemory [[s_p; s_p; alice; data1; read]] true) in   (* marked filtered: not loaded at start *)
  m_get_all (e_model s) s_p = [] /\
  new_events s (run_ops s [OLoad]) = [] /\
  m_get_all (e_model (run_ops s [OLoad])) s_p = [[s_p; s_p; alice; data1; read]].
Proof. vm_compute. repeat split. Qed.

(* a role definition with fewer than two placeholders: clear_policy empties
   adapter and model, then the role-link rebuild fails, and NO notification
   is sent; a filtered grouping removal that removes nothing reports an error *)
Definition ex_bad : estate :=
  fst (step (fst (new_enforcer ex_bad_def (AMemory [] false) true)) (OAdd s_p s_p [alice; data1; read])).

Example clear_needs_gdefs :
  e_watcher ex_bad = true /\ e_callbacks ex_bad = 1 /\ e_auto_notify ex_bad = true /\
  gdefs_ok (e_model ex_bad) = false /\
  m_get_all (e_model ex_bad) s_p = [[s_p; s_p; alice; data1; read]] /\
  snd (step ex_bad OClear) = Err EModel /\
  m_get_all (e_model (fst (step ex_bad OClear))) s_p = [] /\
  e_adapter (fst (step ex_bad OClear)) = AMemory [] false /\
  new_events ex_bad (fst (step ex_bad OClear)) = [].
Proof. vm_compute. repeat split. Qed.

Example late_rule_needs_gdefs :
  let s := fst (step ex_bad (OEnableAutoSave false)) in
  let r := step s (ORemoveFiltered s_g s_g 0 [alice]) in
  snd r = Err EModel /\ new_events s (fst r) = [] /\ e_model (fst r) = e_model s.
Proof. vm_compute. repeat split. Qed.

(* ====================================================================== *)
(* the invariant holds for every enforcer that was constructed            *)
(* ====================================================================== *)
Lemma gvals_load_line md ln : gvals (load_line md ln) = gvals md.
Proof.
  unfold load_line. destruct ln as [|[|c k] f]; try reflexivity.
  destruct (get_ast md [c] (c :: k)) as [a|] eqn:Ea; [|reflexivity].
  apply gvals_set_policy, Ea.
Qed.
Lemma gvals_load_mem_line md ln : gvals (load_mem_line md ln) = gvals md.
Proof.
  unfold load_mem_line. destruct ln as [|sec [|pt f]]; try reflexivity.
  destruct (get_ast md sec pt) as [a|] eqn:Ea; [|reflexivity].
  apply gvals_set_policy, Ea.
Qed.
Lemma gvals_fold_load (f : model -> rule -> model) l : (forall md ln, gvals (f md ln) = gvals md) ->
  forall md, gvals (fold_left f l md) = gvals md.
Proof.
  intros Hf. induction l as [|ln l IH]; intros md; [reflexivity|].
  cbn [fold_left]. rewrite IH. apply Hf.
Qed.

Lemma gvals_ad0_load a md : gvals (snd (fst (ad0_load a md))) = gvals md.
Proof.
  destruct a; cbn [ad0_load fst snd]; try reflexivity.
  - apply gvals_fold_load, gvals_load_mem_line.
  - apply gvals_fold_load, gvals_load_line.
  - apply gvals_fold_load, gvals_load_line.
Qed.

Lemma gvals_step_load s : gvals (e_model (fst (step_load s))) = gvals (e_model s).
Proof.
  unfold step_load.
  destruct (ad_load (e_adapter s) (m_clear_policy (e_model s))) as [[ad md] r] eqn:Ea.
  destruct r as [|e|]; cbn [finish_load]; try reflexivity.
  assert (G : gvals md = gvals (e_model s)).
  { rewrite <- (gvals_clear (e_model s)). unfold ad_load in Ea.
    pose proof (gvals_ad0_load (e_adapter s) (m_clear_policy (e_model s))) as G0.
    destruct (e_adapter s) as [|l f|l f|l f|i [|[| | | |] sc]];
      try (rewrite Ea in G0; exact G0); try discriminate Ea.
    - pose proof (gvals_ad0_load i (m_clear_policy (e_model s))) as G1.
      destruct (ad0_load i _) as [[i' m'] r']. inversion Ea; subst. exact G1.
    - pose proof (gvals_ad0_load i (m_clear_policy (e_model s))) as G1.
      destruct (ad0_load i _) as [[i' m'] r']. inversion Ea; subst. exact G1.
    - destruct (ad0_load i _) as [[i' m'] r']. discriminate Ea.
    - destruct (ad0_load i _) as [[i' m'] r']. discriminate Ea. }
  destruct (e_auto_build _).
  - destruct (build_role_links _) as [s2 e] eqn:E. cbn [fst].
    destruct (build_role_links_policies _ _ _ E) as [_ [P _]]. rewrite P. exact G.
  - exact G.
Qed.

Theorem c14_inv_new_enforcer : forall d a,
  gdefs_ok (d_model d) = true -> C14Inv (fst (new_enforcer d a true)).
Proof.
  intros d a Hg.
  assert (K : e_watcher (fst (new_enforcer d a true)) = true /\
              gvals (e_model (fst (new_enforcer d a true))) = gvals (d_model d)).
  { unfold new_enforcer. destruct (new_raw d a true) as [s e] eqn:E. unfold new_raw in E.
    destruct (flags_register_g _ _ _ E) as [F [_ M]]. destruct (flags_notify _ _ F) as [_ [_ [W _]]].
    cbn [e_watcher e_model] in W, M.
    assert (K0 : e_watcher s = true /\ gvals (e_model s) = gvals (d_model d)) by (rewrite M; split; [exact W|reflexivity]).
    destruct e as [|c]; [|exact K0]. destruct (ad_is_filtered (e_adapter s)); [exact K0|].
    split.
    - rewrite (proj1 (proj2 (proj2 (flags_notify _ _ (proj1 (flags_step_load s)))))). apply K0.
    - rewrite gvals_step_load. apply K0. }
  destruct K as [W G]. split; [exact W|]. split; [apply notify_inv_new|].
  rewrite (gdefs_ok_of_gvals _ _ G). exact Hg.
Qed.

(* Enforcer::new succeeds only on such models *)
Lemma register_g_ok : forall am gf gf',
  register_g am gf = (gf', LOk) ->
  forallb (fun ka => Nat.leb 2 (count_us (a_value (snd ka)))) am = true.
Proof.
  induction am as [|[k a] am IH]; intros gf gf'; cbn [register_g forallb snd]; [reflexivity|].
  destruct (Nat.eqb (count_us (a_value a)) 2) eqn:E2.
  - apply Nat.eqb_eq in E2. rewrite E2. intros H. cbn [Nat.leb andb]. eapply IH, H.
  - destruct (Nat.eqb (count_us (a_value a)) 3) eqn:E3; [|intros H; discriminate H].
    apply Nat.eqb_eq in E3. rewrite E3. intros H. cbn [Nat.leb andb]. eapply IH, H.
Qed.

Theorem new_enforcer_ok_gdefs : forall d a w b,
  snd (new_enforcer d a w) = Ok b -> gdefs_ok (d_model d) = true.
Proof.
  intros d a w b H. unfold new_enforcer in H.
  destruct (new_raw d a w) as [s e] eqn:E. destruct e as [|c]; [|discriminate H].
  unfold new_raw, register_g_functions in E. cbn [e_model e_fs f_gfuns] in E.
  unfold gdefs_ok. destruct (assoc s_g (d_model d)) as [am|]; [|reflexivity].
  destruct (register_g am []) as [gf e'] eqn:Er. inversion E; subst. eapply register_g_ok, Er.
Qed.
