(* C11, part 6: the role manager's own has_link cache never changes an answer.
   Proofs about Model/RmCache.v. *)
From CV Require Import Model.Base Model.RoleGraph Model.RmCache.
From CV Require Import Proofs.ListAux Proofs.BaseP Proofs.RoleGraphP.
From Coq Require Import Lia.

Lemma rkey_eqb_eq : forall x y, rkey_eqb x y = true <-> x = y.
Proof.
  intros [[a b] k] [[a' b'] k']. unfold rkey_eqb. cbn [fst snd].
  rewrite !andb_true_iff, !teqb_eq. split.
  - intros [[-> ->] ->]. reflexivity.
  - intros H. inversion H. auto.
Qed.

Lemma rkey_of_eq : forall a b d a' b' d',
  rkey_of a b d = rkey_of a' b' d' -> a = a' /\ b = b' /\ dom_key d = dom_key d'.
Proof. intros a b d a' b' d' H. unfold rkey_of in H. inversion H. auto. Qed.

Lemma has_link_key : forall maxd m a b d d', dom_key d = dom_key d' ->
  has_link maxd m a b d = has_link maxd m a b d'.
Proof. intros maxd m a b d d' H. unfold has_link. rewrite (graph_of_key m d' d H). reflexivity. Qed.

Lemma assoc_set_same_value : forall {A} k (v : A) l, assoc k l = Some v -> assoc_set k v l = l.
Proof.
  intros A k v l. induction l as [|[k' v'] l IH]; cbn [assoc assoc_set]; [discriminate|].
  destruct (teqb k k'); intros H.
  - inversion H; subst. reflexivity.
  - rewrite (IH H). reflexivity.
Qed.

Lemma filter_all : forall {A} (f : A -> bool) l, (forall x, In x l -> f x = true) -> filter f l = l.
Proof.
  intros A f l. induction l as [|x l IH]; cbn [filter]; intros H; [reflexivity|].
  rewrite (H x (or_introl eq_refl)). rewrite IH; [reflexivity|]. intros y Hy. apply H. right. exact Hy.
Qed.

(* a write that does not clear did not change the manager at all *)
Lemma add_link_noop : forall m a b d, wf m -> link_added m a b d = false -> add_link m a b d = m.
Proof.
  intros m a b d Hwf. unfold link_added, add_link, edge_present.
  destruct (teqb a b); [reflexivity|]. cbn [negb andb].
  destruct (graph_of m d) as [g|] eqn:Hg; [|discriminate].
  intros H. apply negb_false_iff in H.
  pose proof (wf_graph_of m d g Hwf Hg) as (_ & _ & Hends).
  apply has_edge_In in H. destruct (Hends a b H) as (Ha & Hb & _).
  unfold g_add_link, add_node.
  apply has_node_In in Ha. rewrite Ha. apply has_node_In in Hb. rewrite Hb.
  apply has_edge_In in H. rewrite H.
  apply assoc_set_same_value. exact Hg.
Qed.

Lemma delete_link_noop : forall m a b d, link_removed m a b d = false ->
  fst (delete_link m a b d) = m.
Proof.
  intros m a b d. unfold link_removed, delete_link.
  destruct (teqb a b); [reflexivity|]. cbn [negb andb].
  destruct (graph_of m d) as [g|] eqn:Hg; [|reflexivity].
  destruct (has_node g a && has_node g b); [|reflexivity]. cbn [andb fst].
  intros H. assert (Hg' : g_del_link g a b = g).
  { unfold g_del_link. rewrite filter_all.
    - destruct g; reflexivity.
    - intros e He. apply negb_true_iff. apply peqb_neq. intros ->.
      apply has_edge_In in He. congruence. }
  rewrite Hg'. apply assoc_set_same_value. exact Hg.
Qed.

(* ---- the invariant ---- *)
Definition RcInv (maxd : nat) (c : rmc) : Prop :=
  wf (rc_rm c) /\
  forall a b d r, rc_get (rkey_of a b d) (rc_cache c) = Some r -> has_link maxd (rc_rm c) a b d = r.

Lemma rcinv_init : forall maxd m, wf m -> RcInv maxd {| rc_rm := m; rc_cache := [] |}.
Proof. intros maxd m Hwf. split; [exact Hwf|]. intros a b d r H. discriminate. Qed.

Definition rc_sub (c' c : list (rkey * bool)) : Prop :=
  forall k r, rc_get k c' = Some r -> rc_get k c = Some r.

(* whatever the cache forgets, the rest stays right *)
Lemma rcinv_sub : forall maxd c cache', rc_sub cache' (rc_cache c) -> RcInv maxd c ->
  RcInv maxd {| rc_rm := rc_rm c; rc_cache := cache' |}.
Proof.
  intros maxd c cache' Hs [Hwf Hc]. split; [exact Hwf|]. cbn [rc_rm rc_cache].
  intros a b d r H. apply Hc, Hs, H.
Qed.

Lemma rc_write_inv : forall maxd c o, RcInv maxd c -> RcInv maxd (fst (rc_write c o)).
Proof.
  intros maxd c o [Hwf Hc]. destruct o as [a b d|a b d|]; cbn [rc_write fst].
  - unfold rc_add_link. split; cbn [rc_rm rc_cache]; [apply wf_add_link, Hwf|].
    destruct (link_added (rc_rm c) a b d) eqn:E; [intros; discriminate|].
    rewrite (add_link_noop _ _ _ _ Hwf E). exact Hc.
  - unfold rc_delete_link.
    pose proof (wf_delete_link (rc_rm c) a b d Hwf) as Hwf'.
    pose proof (delete_link_noop (rc_rm c) a b d) as Hn.
    destruct (delete_link (rc_rm c) a b d) as [m' ok]. cbn [fst] in *.
    split; cbn [rc_rm rc_cache]; [exact Hwf'|].
    destruct (link_removed (rc_rm c) a b d); [intros; discriminate|].
    rewrite (Hn eq_refl). exact Hc.
  - split; cbn [rc_clear rc_rm rc_cache]; [apply wf_nil|]. intros; discriminate.
Qed.

Lemma rc_write_refines : forall c o,
  rc_rm (fst (rc_write c o)) = fst (lstep (rc_rm c) o) /\ snd (rc_write c o) = snd (lstep (rc_rm c) o).
Proof.
  intros c o. destruct o as [a b d|a b d|]; cbn [rc_write lstep fst snd]; try (split; reflexivity).
  unfold rc_delete_link. destruct (delete_link (rc_rm c) a b d) as [m' ok]. split; reflexivity.
Qed.

(* a query: the uncached answer, the manager untouched, the invariant kept *)
Lemma rc_has_link_spec : forall maxd c a b d, RcInv maxd c ->
  snd (rc_has_link maxd c a b d) = has_link maxd (rc_rm c) a b d /\
  rc_rm (fst (rc_has_link maxd c a b d)) = rc_rm c /\
  RcInv maxd (fst (rc_has_link maxd c a b d)).
Proof.
  intros maxd c a b d [Hwf Hc]. unfold rc_has_link.
  destruct (teqb a b) eqn:Eab.
  - cbn [fst snd]. split; [|split; [reflexivity|split; assumption]].
    unfold has_link. rewrite Eab. reflexivity.
  - destruct (rc_get (rkey_of a b d) (rc_cache c)) as [r|] eqn:Hg; cbn [fst snd].
    + split; [symmetry; apply Hc, Hg|]. split; [reflexivity|split; assumption].
    + split; [reflexivity|]. split; [reflexivity|]. split; [exact Hwf|].
      cbn [rc_rm rc_cache rc_get]. intros a' b' d' r.
      destruct (rkey_eqb (rkey_of a' b' d') (rkey_of a b d)) eqn:E.
      * apply rkey_eqb_eq in E. apply rkey_of_eq in E. destruct E as (-> & -> & Hd).
        intros H; inversion H; subst r. apply has_link_key, Hd.
      * apply Hc.
Qed.

(* MAIN: along every history of writes and queries the cached manager returns
   what the uncached one returns *)
Theorem rc_run_same : forall maxd h c, RcInv maxd c -> rc_run maxd c h = rm_run maxd (rc_rm c) h.
Proof.
  intros maxd. induction h as [|[o|a b d] h IH]; intros c Hinv; cbn [rc_run rm_run]; [reflexivity| |].
  - pose proof (rc_write_refines c o) as [H1 H2].
    pose proof (rc_write_inv maxd c o Hinv) as H3.
    destruct (rc_write c o) as [c' r]. destruct (lstep (rc_rm c) o) as [m' r'].
    cbn [fst snd] in *. subst. f_equal. apply IH, H3.
  - pose proof (rc_has_link_spec maxd c a b d Hinv) as (H1 & H2 & H3).
    destruct (rc_has_link maxd c a b d) as [c' r]. cbn [fst snd] in *. subst r.
    f_equal. rewrite <- H2. apply IH, H3.
Qed.

Theorem rc_same_answers : forall maxd h,
  rc_run maxd {| rc_rm := []; rc_cache := [] |} h = rm_run maxd [] h.
Proof. intros maxd h. apply (rc_run_same maxd h _ (rcinv_init maxd [] wf_nil)). Qed.

(* ---- witnesses: both conditional clears are needed ---- *)
Definition ta := T "a". Definition tb := T "b".
Lemma rc_needs_clear_on_add :
  let h := [RCHas ta tb None; RCWrite (LAdd ta tb None); RCHas ta tb None] in
  rc_run_noclear 10 {| rc_rm := []; rc_cache := [] |} h = [false; true; false] /\
  rm_run 10 [] h = [false; true; true] /\
  rc_run 10 {| rc_rm := []; rc_cache := [] |} h = [false; true; true].
Proof. vm_compute. repeat split; reflexivity. Qed.

Lemma rc_needs_clear_on_delete :
  let h := [RCWrite (LAdd ta tb None); RCHas ta tb None; RCWrite (LDel ta tb None); RCHas ta tb None] in
  rc_run_noclear 10 {| rc_rm := []; rc_cache := [] |} h = [true; true; true; true] /\
  rm_run 10 [] h = [true; true; true; false].
Proof. vm_compute. repeat split; reflexivity. Qed.

(* a hit is possible (non-vacuity): the second query is served from the cache *)
Lemma rc_hit_example :
  let c := fst (rc_has_link 10 (rc_add_link {| rc_rm := []; rc_cache := [] |} ta tb None) ta tb None) in
  rc_cache c = [(rkey_of ta tb None, true)] /\
  rc_has_link 10 c ta tb (Some DEFAULT_DOMAIN) = (c, true).
Proof. vm_compute. split; reflexivity. Qed.
