(* Proofs for C08: granting never revokes and revoking never grants. *)
From CV Require Import Model.Base Model.Effector Model.RoleGraph Model.PathMatch Model.Expr
     Model.Enforce Model.Engine Model.SpecC08.
From CV Require Import Proofs.BaseP Proofs.ListAux Proofs.EffectorP Proofs.RoleGraphP
     Proofs.ExprP Proofs.EnforceP.
From Coq Require Import Lia Relations.

(* ================= A. graph-independent expressions ================= *)

Lemma gfree_list_spec gn xs :
  Forall (fun y => gfree gn y = true ->
                   no_eval y = true /\ forall f, In f (fnames y) -> ~ In f gn) xs ->
  forallb (gfree gn) xs = true ->
  forallb no_eval xs = true /\ forall f, In f (flat_map fnames xs) -> ~ In f gn.
Proof.
  induction 1 as [|y xs Hy Hxs IH]; cbn [forallb flat_map]; intros H.
  - split; [reflexivity|intros f []].
  - apply andb_true_iff in H. destruct H as [H1 H2].
    destruct (Hy H1) as [N1 F1]. destruct (IH H2) as [N2 F2]. split.
    + rewrite N1, N2. reflexivity.
    + intros f Hf. apply in_app_or in Hf. destruct Hf as [Hf|Hf]; auto.
Qed.

Lemma gfree_spec gn e :
  gfree gn e = true -> no_eval e = true /\ forall f, In f (fnames e) -> ~ In f gn.
Proof.
  induction e as [v|p f|a f IHa|a b IHa IHb|a b IHa IHb|c a b IHa IHb|a b IHa IHb
                  |a b IHa IHb|a IHa|a xs IHa IHxs|f args IHargs|p f] using expr_ind';
    cbn [gfree no_eval fnames]; intros H;
    try (split; [reflexivity|intros g []]; fail);
    try (apply IHa; exact H);
    try (apply andb_true_iff in H; destruct H as [Ha Hb];
         destruct (IHa Ha) as [Na Fa]; destruct (IHb Hb) as [Nb Fb];
         split; [rewrite Na, Nb; reflexivity
                |intros g Hg; apply in_app_or in Hg; destruct Hg; auto]; fail).
  - apply andb_true_iff in H. destruct H as [Ha Hb].
    destruct (IHa Ha) as [Na Fa].
    destruct (gfree_list_spec gn xs IHxs Hb) as [Nb Fb]. split.
    + rewrite Na, Nb. reflexivity.
    + intros g Hg. apply in_app_or in Hg. destruct Hg; auto.
  - apply andb_true_iff in H. destruct H as [Hf Hb].
    destruct (gfree_list_spec gn args IHargs Hb) as [Nb Fb]. split; [exact Nb|].
    intros g [<-|Hg]; [|auto].
    apply negb_true_iff in Hf. apply memb_not_In in Hf. exact Hf.
  - discriminate.
Qed.

(* a graph-independent expression evaluates alike under call tables that
   agree outside the role functions *)
Lemma gfree_eval gn call1 call2 ptab sc fuel e :
  (forall f args, ~ In f gn -> call1 f args = call2 f args) ->
  gfree gn e = true ->
  eval call1 ptab sc fuel e = eval call2 ptab sc fuel e.
Proof.
  intros Hout H. destruct (gfree_spec gn e H) as [Hn Hf].
  apply eval_ext_calls; [exact Hn| |reflexivity].
  intros f args Hin. apply Hout, Hf, Hin.
Qed.

(* the syntactic class implies the semantic one, whatever the role names *)
Lemma callfree_gfree gn e : callfree e = true -> gfree gn e = true.
Proof.
  induction e as [v|p f|a f IHa|a b IHa IHb|a b IHa IHb|c a b IHa IHb|a b IHa IHb
                  |a b IHa IHb|a IHa|a xs IHa IHxs|f args IHargs|p f] using expr_ind';
    cbn [callfree gfree]; intros H; try reflexivity; try discriminate;
    try (apply IHa; exact H);
    try (apply andb_true_iff in H; destruct H as [Ha Hb]; rewrite IHa, IHb by assumption;
         reflexivity).
  apply andb_true_iff in H. destruct H as [Ha Hb]. rewrite IHa by exact Ha. cbn [andb].
  apply forallb_forall. intros y Hy. rewrite Forall_forall in IHxs.
  apply IHxs; [exact Hy|]. rewrite forallb_forall in Hb. apply Hb, Hy.
Qed.

Lemma forallb_callfree_gfree gn xs :
  forallb callfree xs = true -> forallb (gfree gn) xs = true.
Proof.
  rewrite !forallb_forall. intros H y Hy. apply callfree_gfree, H, Hy.
Qed.

Lemma negfree_negfree_g gn e : negfree e = true -> negfree_g gn e = true.
Proof.
  induction e as [v|p f|a f IHa|a b IHa IHb|a b IHa IHb|c a b IHa IHb|a b IHa IHb
                  |a b IHa IHb|a IHa|a xs IHa IHxs|f args IHargs|p f] using expr_ind';
    cbn [negfree negfree_g gfree]; intros H; try reflexivity; try discriminate.
  - rewrite IHa by exact H. apply orb_true_r.
  - apply andb_true_iff in H. destruct H as [Ha Hb].
    rewrite !callfree_gfree by assumption. reflexivity.
  - apply andb_true_iff in H. destruct H as [Ha Hb].
    rewrite IHa, IHb by assumption. apply orb_true_r.
  - apply andb_true_iff in H. destruct H as [Ha Hb].
    rewrite IHa, IHb by assumption. apply orb_true_r.
  - apply andb_true_iff in H. destruct H as [Ha Hb].
    rewrite callfree_gfree by exact Ha. rewrite forallb_callfree_gfree by exact Hb. reflexivity.
  - rewrite forallb_callfree_gfree by exact H. apply orb_true_r.
Qed.

(* ================= B. monotone evaluation ================= *)

Definition harderr (r : eres) : Prop := r = EErr \/ r = EPanic.

(* r: value under the smaller graph, r': under the larger one.  Equal, or one
   of them is an error, or both are booleans and the larger graph can only
   turn false into true.  (Errors are NOT preserved exactly: && and || are
   short-circuit operators, see `link_can_raise_error`.) *)
Definition mono_res (r r' : eres) : Prop :=
  r = r' \/ harderr r \/ harderr r' \/
  exists b b', r = EV (VBool b) /\ r' = EV (VBool b') /\ (b = true -> b' = true).

Lemma mono_refl r : mono_res r r.
Proof. left. reflexivity. Qed.

Lemma mono_bools b b' : (b = true -> b' = true) -> mono_res (EV (VBool b)) (EV (VBool b')).
Proof. intros H. right. right. right. exists b, b'. auto. Qed.

Lemma as_bool_cases r : harderr (as_bool r) \/ exists b, as_bool r = EV (VBool b).
Proof.
  destruct r as [[s|z|b| |fs]| |]; cbn [as_bool];
    try (left; left; reflexivity); try (left; right; reflexivity).
  right. exists b. reflexivity.
Qed.

Lemma mono_false_l r : mono_res (EV (VBool false)) (as_bool r).
Proof.
  destruct (as_bool_cases r) as [H|[b H]].
  - right. right. left. exact H.
  - rewrite H. apply mono_bools. discriminate.
Qed.

Lemma mono_true_r r : mono_res (as_bool r) (EV (VBool true)).
Proof.
  destruct (as_bool_cases r) as [H|[b H]].
  - right. left. exact H.
  - rewrite H. apply mono_bools. reflexivity.
Qed.

Lemma as_bool_mono r r' : mono_res r r' -> mono_res (as_bool r) (as_bool r').
Proof.
  intros [E|[E|[E|(b & b' & E1 & E2 & Hb)]]].
  - subst. apply mono_refl.
  - right. left. destruct E as [-> | ->]; [left|right]; reflexivity.
  - right. right. left. destruct E as [-> | ->]; [left|right]; reflexivity.
  - subst. cbn [as_bool]. apply mono_bools, Hb.
Qed.

Definition and_res (x y : eres) : eres :=
  match as_bool x with EV (VBool true) => as_bool y | o => o end.
Definition or_res (x y : eres) : eres :=
  match as_bool x with EV (VBool false) => as_bool y | o => o end.
Definition prop_res (f : text) (x : eres) : eres :=
  match x with
  | EV (VMap fs) => EV (match assoc f fs with Some s => of_scalar s | None => VUnit end)
  | EV _ => EErr
  | other => other
  end.

Lemma eval_EAnd' call ptab sc fuel a b :
  eval call ptab sc fuel (EAnd a b) =
  and_res (eval call ptab sc fuel a) (eval call ptab sc fuel b).
Proof.
  rewrite eval_EAnd. unfold and_res.
  destruct (as_bool (eval call ptab sc fuel a)) as [[s|z|[|]| |fs]| |]; reflexivity.
Qed.
Lemma eval_EOr' call ptab sc fuel a b :
  eval call ptab sc fuel (EOr a b) =
  or_res (eval call ptab sc fuel a) (eval call ptab sc fuel b).
Proof.
  rewrite eval_EOr. unfold or_res.
  destruct (as_bool (eval call ptab sc fuel a)) as [[s|z|[|]| |fs]| |]; reflexivity.
Qed.
Lemma eval_EProp' call ptab sc fuel a f :
  eval call ptab sc fuel (EProp a f) = prop_res f (eval call ptab sc fuel a).
Proof.
  rewrite eval_EProp. unfold prop_res.
  destruct (eval call ptab sc fuel a) as [[s|z|b| |fs]| |]; reflexivity.
Qed.

Lemma and_mono x x' y y' :
  mono_res x x' -> mono_res y y' -> mono_res (and_res x y) (and_res x' y').
Proof.
  unfold and_res.
  intros [E|[E|[E|(b & b' & E1 & E2 & Hb)]]] Hy.
  - subst x'. destruct x as [[s|z|[|]| |fs]| |]; cbn [as_bool]; try apply mono_refl.
    apply as_bool_mono, Hy.
  - right. left. destruct E as [-> | ->]; [left|right]; reflexivity.
  - right. right. left. destruct E as [-> | ->]; [left|right]; reflexivity.
  - subst. destruct b, b'; cbn [as_bool].
    + apply as_bool_mono, Hy.
    + specialize (Hb eq_refl). discriminate.
    + apply mono_false_l.
    + apply mono_refl.
Qed.

Lemma or_mono x x' y y' :
  mono_res x x' -> mono_res y y' -> mono_res (or_res x y) (or_res x' y').
Proof.
  unfold or_res.
  intros [E|[E|[E|(b & b' & E1 & E2 & Hb)]]] Hy.
  - subst x'. destruct x as [[s|z|[|]| |fs]| |]; cbn [as_bool]; try apply mono_refl.
    apply as_bool_mono, Hy.
  - right. left. destruct E as [-> | ->]; [left|right]; reflexivity.
  - right. right. left. destruct E as [-> | ->]; [left|right]; reflexivity.
  - subst. destruct b, b'; cbn [as_bool].
    + apply mono_refl.
    + specialize (Hb eq_refl). discriminate.
    + apply mono_true_r.
    + apply as_bool_mono, Hy.
Qed.

Lemma prop_mono x x' (f : text) :
  mono_res x x' -> mono_res (prop_res f x) (prop_res f x').
Proof.
  unfold prop_res.
  intros [E|[E|[E|(b & b' & E1 & E2 & Hb)]]].
  - subst. apply mono_refl.
  - right. left. destruct E as [-> | ->]; [left|right]; reflexivity.
  - right. right. left. destruct E as [-> | ->]; [left|right]; reflexivity.
  - subst. apply mono_refl.
Qed.

Definition ores (o : option eres) : eres := match o with Some r => r | None => EErr end.

Section Mono.
  Variables call1 call2 : text -> list value -> option eres.
  Variable gn : list text.
  Variable ptab : text -> option expr.
  Variable sc : list (text * value).
  Hypothesis Hout : forall f args, ~ In f gn -> call1 f args = call2 f args.
  Hypothesis Hin : forall f args, mono_res (ores (call1 f args)) (ores (call2 f args)).

  Lemma call_go_mono (ev1 ev2 : expr -> eres) f xs :
    Forall (fun y => ev1 y = ev2 y) xs ->
    forall acc, mono_res (call_go call1 ev1 f xs acc) (call_go call2 ev2 f xs acc).
  Proof.
    induction 1 as [|y xs Hy Hxs IH]; intros acc; cbn [call_go].
    - apply (Hin f (rev acc)).
    - rewrite Hy. destruct (ev2 y); try apply mono_refl. apply IH.
  Qed.

  Theorem eval_mono fuel e :
    negfree_g gn e = true ->
    mono_res (eval call1 ptab sc fuel e) (eval call2 ptab sc fuel e).
  Proof.
    induction e as [v|p f|a f IHa|a b IHa IHb|a b IHa IHb|c a b IHa IHb|a b IHa IHb
                    |a b IHa IHb|a IHa|a xs IHa IHxs|f args IHargs|p f] using expr_ind';
      intros H;
      (match goal with
       | |- mono_res (eval _ _ _ _ ?e) _ =>
         destruct (gfree gn e) eqn:G;
           [left; apply (gfree_eval gn); [exact Hout|exact G]|]
       end);
      cbn [negfree_g] in H; rewrite G in H; cbn [orb] in H; try discriminate.
    - rewrite !eval_EProp'. apply prop_mono, IHa, H.
    - apply andb_true_iff in H. destruct H as [Ha Hb].
      rewrite !eval_EAnd'. apply and_mono; [apply IHa, Ha|apply IHb, Hb].
    - apply andb_true_iff in H. destruct H as [Ha Hb].
      rewrite !eval_EOr'. apply or_mono; [apply IHa, Ha|apply IHb, Hb].
    - rewrite !eval_ECall. apply call_go_mono.
      rewrite forallb_forall in H. apply Forall_forall. intros y Hy.
      apply (gfree_eval gn); [exact Hout|apply H, Hy].
  Qed.
End Mono.

(* ================= C. has_link is monotone on shallow graphs ================= *)

Definition shallow (maxd : nat) (l : links) : Prop :=
  forall a b, reachable l a b = true -> reach_within l (maxd - 1) a b = true.

Lemma clos_trans_ends {A} (R : A -> A -> Prop) a b :
  clos_trans A R a b -> (exists y, R a y) /\ (exists x, R x b).
Proof.
  induction 1 as [a b Hab|a b c _ [Ha _] _ [_ Hc]].
  - split; [exists b|exists a]; exact Hab.
  - split; assumption.
Qed.

Lemma reach_within_refl l k a : reach_within l k a a = true.
Proof.
  unfold reach_within. apply memb_In, within_spec. exists 0. split; [lia|apply path0].
Qed.

Lemma shallowb_sound maxd l : shallowb maxd l = true -> shallow maxd l.
Proof.
  intros H a b Hr. destruct (text_eq_dec a b) as [->|Hne]; [apply reach_within_refl|].
  pose proof Hr as Hr'. apply reachable_spec in Hr'. destruct Hr' as [E|Hct]; [contradiction|].
  apply clos_trans_ends in Hct. destruct Hct as [[y Hy] [x Hx]].
  unfold shallowb in H. rewrite forallb_forall in H.
  assert (Ha : In a (link_names l)).
  { unfold link_names. apply in_or_app. left. apply (in_map fst) in Hy. exact Hy. }
  assert (Hb : In b (link_names l)).
  { unfold link_names. apply in_or_app. right. apply (in_map snd) in Hx. exact Hx. }
  specialize (H a Ha). rewrite forallb_forall in H. specialize (H b Hb).
  rewrite Hr in H. exact H.
Qed.

Lemma shallow_nil maxd : shallow maxd [].
Proof.
  intros a b Hr. apply reachable_spec in Hr. destruct Hr as [->|Hct]; [apply reach_within_refl|].
  apply clos_trans_ends in Hct. destruct Hct as [[y []] _].
Qed.

Lemma shallow_rm_sound maxd m :
  shallow_rm maxd m = true -> forall d, shallow maxd (edges_of m d).
Proof.
  intros H d. unfold edges_of, graph_of.
  destruct (assoc (dom_key d) m) as [g|] eqn:Hg; [|apply shallow_nil].
  apply assoc_In in Hg. unfold shallow_rm in H. rewrite forallb_forall in H.
  apply shallowb_sound. apply (H _ Hg).
Qed.

Lemma has_link_refl maxd m a d : has_link maxd m a a d = true.
Proof. unfold has_link. rewrite teqb_refl. reflexivity. Qed.

(* on a shallow well-formed graph has_link IS reachability *)
Lemma has_link_shallow maxd m a b d :
  wf m -> shallow maxd (edges_of m d) ->
  has_link maxd m a b d = reachable (edges_of m d) a b.
Proof.
  intros Hwf Hsh. destruct (reachable (edges_of m d) a b) eqn:Hr.
  - apply Hsh in Hr. unfold reach_within in Hr. apply memb_In, within_spec in Hr.
    destruct Hr as [j [Hj Hp]].
    destruct maxd as [|k].
    + assert (j = 0) by lia. subst j. apply path0_inv in Hp. subst b. apply has_link_refl.
    + apply (has_link_complete (S k) m a b d j Hwf); [exact Hp|lia].
  - destruct (has_link maxd m a b d) eqn:Hl; [|reflexivity].
    apply has_link_sound in Hl; [|exact Hwf].
    assert (Hr' : reachable (edges_of m d) a b = true) by (apply reachable_spec; exact Hl).
    rewrite Hr' in Hr. discriminate.
Qed.

Theorem has_link_mono maxd m m' a b d :
  wf m -> wf m' ->
  (forall x y, Edge m d x y -> Edge m' d x y) ->
  shallow maxd (edges_of m' d) ->
  has_link maxd m a b d = true -> has_link maxd m' a b d = true.
Proof.
  intros Hwf Hwf' Hinc Hsh Hl.
  rewrite (has_link_shallow maxd m' a b d Hwf' Hsh). apply reachable_spec.
  apply has_link_sound in Hl; [|exact Hwf]. destruct Hl as [E|Hct]; [left; exact E|right].
  apply (clos_trans_impl (Edge m d)); [exact Hinc|exact Hct].
Qed.

(* without shallowness it is false: limit 2, links a->b, a->c, b->d, c->e.
   The depth counter lags on the wide front and d (2 steps away, i.e. beyond
   the limit) is found; adding a->e drains the front earlier and d is lost. *)
Definition mns_before : rmgr :=
  lrun [LAdd (T "a") (T "b") None; LAdd (T "a") (T "c") None;
        LAdd (T "b") (T "d") None; LAdd (T "c") (T "e") None].
Definition mns_after : rmgr := add_link mns_before (T "a") (T "e") None.

Example mono_needs_shallow :
  has_link 2 mns_before (T "a") (T "d") None = true /\
  has_link 2 mns_after (T "a") (T "d") None = false /\
  shallow_rm 2 mns_after = false.
Proof. vm_compute. repeat split; reflexivity. Qed.

(* ================= D. the registered functions are monotone ================= *)

Lemma find_gfun_None f n l :
  ~ In f (map (fun kh : (text * nat) * handle => fst (fst kh)) l) -> find_gfun (f, n) l = None.
Proof.
  induction l as [|[[k a] h] l IH]; cbn [find_gfun map fst]; intros H; [reflexivity|].
  unfold gkey_eqb. cbn [fst snd]. destruct (teqb f k) eqn:E.
  - apply teqb_eq in E. subst. exfalso. apply H. left. reflexivity.
  - cbn [andb]. apply IH. intros Hin. apply H. right. exact Hin.
Qed.

Definition iserr {A} (o : outcome A) : Prop := match o with Ok _ => False | _ => True end.

(* outcomes of the matcher / of one rule under the smaller and the larger graph *)
Definition rel_ob (o o' : outcome bool) : Prop :=
  o = o' \/ iserr o \/ iserr o' \/ (o = Ok false /\ o' = Ok true).
Definition rel_oe (o o' : outcome eff) : Prop :=
  o = o' \/ iserr o \/ iserr o' \/ (o = Ok Indet /\ exists e', o' = Ok e').

Section CallMono.
  Variable fs : fstate.
  Variable m' : rmgr.
  Hypothesis Hm : forall a b d,
    has_link (f_rm_max fs) (f_rm fs) a b d = true -> has_link (f_rm_max fs) m' a b d = true.

  Lemma call_fn_out f args :
    ~ In f (gnames fs) -> call_fn fs f args = call_fn (set_rm fs m') f args.
  Proof.
    intros Hf. unfold call_fn, set_rm. cbn [f_ufuns f_gfuns].
    destruct (all_strs args) as [ss|]; [|reflexivity].
    destruct (match assoc f (f_ufuns fs) with Some u => run_ufun u ss | None => None end);
      [reflexivity|].
    rewrite (find_gfun_None f (length ss) (f_gfuns fs) Hf). reflexivity.
  Qed.

  Lemma call_fn_in f args :
    mono_res (ores (call_fn fs f args)) (ores (call_fn (set_rm fs m') f args)).
  Proof.
    unfold call_fn, set_rm. cbn [f_ufuns f_gfuns].
    destruct (all_strs args) as [ss|]; [|apply mono_refl].
    destruct (match assoc f (f_ufuns fs) with Some u => run_ufun u ss | None => None end);
      [apply mono_refl|].
    destruct (find_gfun (f, length ss) (f_gfuns fs)) as [h|]; [|apply mono_refl].
    destruct ss as [|a [|b [|d [|x ss]]]]; try apply mono_refl; cbn [ores];
      destruct h as [| |fm fmx]; cbn [handle_has_link f_rm f_rm_max]; try apply mono_refl;
      apply mono_bools, Hm.
  Qed.

  Variable ptab : text -> option expr.

  Lemma eval_matcher_mono m sc :
    negfree_g (gnames fs) m = true ->
    rel_ob (eval_matcher ptab fs m sc) (eval_matcher ptab (set_rm fs m') m sc).
  Proof.
    intros Hnf. unfold eval_matcher.
    destruct (eval_mono (call_fn fs) (call_fn (set_rm fs m')) (gnames fs) ptab sc
                        call_fn_out call_fn_in eval_fuel m Hnf)
      as [E|[E|[E|(b & b' & E1 & E2 & Hb)]]].
    - rewrite E. left. reflexivity.
    - right. left. destruct E as [E|E]; rewrite E; exact I.
    - right. right. left. destruct E as [E|E]; rewrite E; exact I.
    - rewrite E1, E2. destruct b, b'.
      + left. reflexivity.
      + specialize (Hb eq_refl). discriminate.
      + right. right. right. split; reflexivity.
      + left. reflexivity.
  Qed.

  Lemma rule_outcome_mono m et ptoks sc0 pvals :
    negfree_g (gnames fs) m = true ->
    rel_oe (rule_outcome ptab fs m et ptoks sc0 pvals)
           (rule_outcome ptab (set_rm fs m') m et ptoks sc0 pvals).
  Proof.
    intros Hnf. unfold rule_outcome.
    destruct (negb (Nat.eqb (length ptoks) (length pvals))); [left; reflexivity|].
    destruct (eval_matcher_mono m (bind ptoks (map VStr pvals) sc0) Hnf)
      as [E|[E|[E|[E1 E2]]]].
    - rewrite E. left. reflexivity.
    - right. left. destruct (eval_matcher ptab fs m _); [destruct E|exact I|exact I].
    - right. right. left.
      destruct (eval_matcher ptab (set_rm fs m') m _); [destruct E|exact I|exact I].
    - rewrite E1, E2. right. right. right. split; [reflexivity|].
      eexists. reflexivity.
  Qed.
End CallMono.

(* ================= E. allow-override as a plain scan ================= *)

Fixpoint ao_combine (outs : list (outcome eff)) : outcome bool :=
  match outs with
  | [] => Ok false
  | Ok e :: rest => if is_allow e then Ok true else ao_combine rest
  | Err c :: _ => Err c
  | Panic :: _ => Panic
  end.

Lemma perm_combine_ao : forall outs seen,
  existsb is_allow seen = false ->
  perm_combine AllowOverride seen outs = ao_combine outs.
Proof.
  induction outs as [|o outs IH]; intros seen Hs; cbn [perm_combine ao_combine].
  - cbn [decl]. rewrite Hs. reflexivity.
  - destruct o as [e|c|]; [|reflexivity|reflexivity].
    cbn [forced]. rewrite existsb_app, Hs. cbn [existsb orb]. rewrite orb_false_r.
    destruct (is_allow e) eqn:E; [reflexivity|].
    apply IH. rewrite existsb_app, Hs. cbn [existsb orb]. rewrite E. reflexivity.
Qed.

(* smaller graph grants => larger graph does not deny (and conversely) *)
Lemma ao_mono : forall outs outs',
  Forall2 rel_oe outs outs' ->
  ao_combine outs = Ok true -> ao_combine outs' <> Ok false.
Proof.
  induction 1 as [|o o' outs outs' Ho Hrest IH]; cbn [ao_combine]; intros H; [discriminate|].
  destruct Ho as [E|[E|[E|[E1 (e' & E2)]]]].
  - subst o'. destruct o as [e|c|]; [|discriminate|discriminate].
    destruct (is_allow e); [discriminate|]. apply IH, H.
  - destruct o; [destruct E|discriminate|discriminate].
  - destruct o'; [destruct E|discriminate|discriminate].
  - subst. cbn [is_allow eff_eqb] in H. destruct (is_allow e'); [discriminate|]. apply IH, H.
Qed.

Lemma ao_app outs more : ao_combine outs = Ok true -> ao_combine (outs ++ more) = Ok true.
Proof.
  induction outs as [|o outs IH]; cbn [ao_combine app]; intros H; [discriminate|].
  destruct o as [e|c|]; [|discriminate|discriminate].
  destruct (is_allow e); [reflexivity|]. apply IH, H.
Qed.

Lemma ao_filter {A} (f : A -> outcome eff) keep : forall l,
  ao_combine (map f l) = Ok false -> ao_combine (map f (filter keep l)) = Ok false.
Proof.
  induction l as [|x l IH]; cbn [map filter ao_combine]; intros H; [reflexivity|].
  destruct (f x) as [e|c|] eqn:Ef; [|discriminate|discriminate].
  destruct (is_allow e) eqn:Ea; [discriminate|].
  destruct (keep x); [|apply IH, H].
  cbn [map ao_combine]. rewrite Ef, Ea. apply IH, H.
Qed.

(* ================= F. enforce through its decision core ================= *)

(* the part of the reference semantics that looks at the rules *)
Definition decide (ptab : text -> option expr) (fs : fstate) (m : expr) (et : text)
           (ptoks : list text) (sc0 : list (text * value)) (er : erule) (rules : list rule)
  : outcome bool :=
  match rules with
  | [] =>
    match eval_matcher ptab fs m (bind ptoks (map (fun _ => VStr []) ptoks) sc0) with
    | Ok b => Ok (decl er [if b then Allow else Indet])
    | Err e => Err e
    | Panic => Panic
    end
  | _ => perm_combine er [] (map (rule_outcome ptab fs m et ptoks sc0) rules)
  end.

Lemma perm_ref_decide ptab en md mx fs rk pk ek mk et rv :
  perm_ref ptab en md mx fs rk pk ek mk et rv =
  if negb en then Ok true
  else match get_ast md s_r rk, get_ast md s_p pk, get_ast md s_m mk, get_ast md s_e ek with
       | Some r_ast, Some p_ast, Some m_ast, Some e_ast =>
         if negb (Nat.eqb (length (a_tokens r_ast)) (length rv)) then Err ERequest
         else match parse_erule (a_value e_ast), assoc mk mx with
              | None, _ => Panic
              | Some _, None => Err EEvalc
              | Some er, Some m =>
                decide ptab fs m et (a_tokens p_ast) (bind (a_tokens r_ast) rv []) er
                       (a_policy p_ast)
              end
       | _, _, _, _ => Err EModel
       end.
Proof.
  unfold perm_ref, decide. destruct (negb en); [reflexivity|].
  destruct (get_ast md s_r rk) as [r_ast|]; [|reflexivity].
  destruct (get_ast md s_p pk) as [p_ast|]; [|reflexivity].
  destruct (get_ast md s_m mk) as [m_ast|]; [|reflexivity].
  destruct (get_ast md s_e ek) as [e_ast|]; [|reflexivity].
  destruct (negb (Nat.eqb (length (a_tokens r_ast)) (length rv))); [reflexivity|].
  destruct (parse_erule (a_value e_ast)) as [er|]; [|reflexivity].
  destruct (assoc mk mx) as [m|]; [|reflexivity].
  destruct (a_policy p_ast); reflexivity.
Qed.

(* two states that differ in the p rules and/or the role graph only: a
   reflexive relation between the decision cores lifts to the decisions *)
Lemma enforce_rel (R : outcome bool -> outcome bool -> Prop) ptab s s' rv :
  (forall x, R x x) ->
  e_enabled s' = e_enabled s -> e_mexprs s' = e_mexprs s ->
  get_ast (e_model s') s_r s_r = get_ast (e_model s) s_r s_r ->
  get_ast (e_model s') s_m s_m = get_ast (e_model s) s_m s_m ->
  get_ast (e_model s') s_e s_e = get_ast (e_model s) s_e s_e ->
  (match get_ast (e_model s) s_p s_p, get_ast (e_model s') s_p s_p with
   | Some p, Some p' =>
     a_tokens p' = a_tokens p /\
     forall er m sc0, effect_rule s = Some er -> plain_matcher s = Some m ->
       R (decide ptab (e_fs s) m (tok s_p s_eft) (a_tokens p) sc0 er (a_policy p))
         (decide ptab (e_fs s') m (tok s_p s_eft) (a_tokens p) sc0 er (a_policy p'))
   | None, None => True
   | _, _ => False
   end) ->
  R (enforce ptab s rv) (enforce ptab s' rv).
Proof.
  intros Rrefl Hen Hmx Hr Hm He Hp.
  unfold enforce, enforce_plain. rewrite !enforce_is_perm, !perm_ref_decide.
  rewrite Hen, Hmx, Hr, Hm, He.
  unfold effect_rule, plain_matcher in Hp.
  destruct (negb (e_enabled s)); [apply Rrefl|].
  destruct (get_ast (e_model s) s_r s_r) as [r_ast|]; [|apply Rrefl].
  destruct (get_ast (e_model s) s_p s_p) as [p|], (get_ast (e_model s') s_p s_p) as [p'|];
    try destruct Hp; try apply Rrefl.
  destruct (get_ast (e_model s) s_m s_m) as [m_ast|]; [|apply Rrefl].
  destruct (get_ast (e_model s) s_e s_e) as [e_ast|]; [|apply Rrefl].
  destruct (negb (Nat.eqb (length (a_tokens r_ast)) (length rv))); [apply Rrefl|].
  destruct (parse_erule (a_value e_ast)) as [er|]; [|apply Rrefl].
  destruct (assoc s_m (e_mexprs s)) as [m|]; [|apply Rrefl].
  match goal with H : a_tokens p' = a_tokens p |- _ => rewrite H end.
  auto.
Qed.

(* ================= G. what a single add / remove step does ================= *)

Ltac splits := repeat match goal with |- _ /\ _ => split end.

Lemma get_ast_set_same md sec k a0 a :
  get_ast md sec k = Some a0 -> get_ast (set_ast md sec k a) sec k = Some a.
Proof.
  unfold get_ast, set_ast. destruct (assoc sec md) as [am|] eqn:E; [|discriminate].
  intros _. rewrite assoc_set_same. apply assoc_set_same.
Qed.

Lemma get_ast_set_other md sec k a sec' k' :
  sec <> sec' \/ k <> k' -> get_ast (set_ast md sec k a) sec' k' = get_ast md sec' k'.
Proof.
  intros Hne. unfold get_ast, set_ast. destruct (assoc sec md) as [am|] eqn:E; [|reflexivity].
  destruct (text_eq_dec sec sec') as [<-|Hs].
  - rewrite assoc_set_same, E. destruct Hne as [Hne|Hne]; [contradiction|].
    apply assoc_set_other, Hne.
  - rewrite assoc_set_other by exact Hs. reflexivity.
Qed.

Lemma sg_ne_sp : s_g <> s_p. Proof. apply teqb_neq. reflexivity. Qed.
Lemma sp_ne_sr : s_p <> s_r. Proof. apply teqb_neq. reflexivity. Qed.
Lemma sp_ne_sm : s_p <> s_m. Proof. apply teqb_neq. reflexivity. Qed.
Lemma sp_ne_se : s_p <> s_e. Proof. apply teqb_neq. reflexivity. Qed.
Lemma sr_ne_sg : s_r <> s_g. Proof. apply teqb_neq. reflexivity. Qed.
Lemma sm_ne_sg : s_m <> s_g. Proof. apply teqb_neq. reflexivity. Qed.
Lemma se_ne_sg : s_e <> s_g. Proof. apply teqb_neq. reflexivity. Qed.
Lemma sp_ne_sg : s_p <> s_g. Proof. apply teqb_neq. reflexivity. Qed.

(* the parts of a state that enforcement reads are untouched by the
   notification machinery *)
Lemma emit_mgmt_model s c ev : e_model (emit_mgmt s c ev) = e_model s.
Proof. unfold emit_mgmt, emit. destruct (c && e_auto_notify s), (e_watcher s); reflexivity. Qed.
Lemma emit_mgmt_fs s c ev : e_fs (emit_mgmt s c ev) = e_fs s.
Proof. unfold emit_mgmt, emit. destruct (c && e_auto_notify s), (e_watcher s); reflexivity. Qed.
Lemma emit_mgmt_mexprs s c ev : e_mexprs (emit_mgmt s c ev) = e_mexprs s.
Proof. unfold emit_mgmt, emit. destruct (c && e_auto_notify s), (e_watcher s); reflexivity. Qed.
Lemma emit_mgmt_enabled s c ev : e_enabled (emit_mgmt s c ev) = e_enabled s.
Proof. unfold emit_mgmt, emit. destruct (c && e_auto_notify s), (e_watcher s); reflexivity. Qed.
Lemma emit_mgmt_auto_build s c ev : e_auto_build (emit_mgmt s c ev) = e_auto_build s.
Proof. unfold emit_mgmt, emit. destruct (c && e_auto_notify s), (e_watcher s); reflexivity. Qed.

(* a successful, effective add outside the g section *)
Lemma step_add_nong s sec pt r s' :
  sec <> s_g -> step_add s sec pt r = (s', Ok true) ->
  exists a, get_ast (e_model s) sec pt = Some a /\ rmem r (a_policy a) = false /\
    e_model s' = set_ast (e_model s) sec pt (with_policy a (a_policy a ++ [r])) /\
    e_fs s' = e_fs s /\ e_mexprs s' = e_mexprs s /\ e_enabled s' = e_enabled s.
Proof.
  intros Hsec. apply teqb_neq in Hsec. unfold step_add.
  destruct (if e_auto_save s then ad_add (e_adapter s) sec pt r else (e_adapter s, Ok true))
    as [ad ares].
  destruct ares as [[|]|c|]; try (intros H; discriminate H).
  cbn [upd_adapter e_model].
  destruct (m_add_policy (e_model s) sec pt r) as [md added] eqn:Hm.
  unfold after_change. rewrite Hsec. cbn [negb orb]. intros H. inversion H; subst; clear H.
  unfold m_add_policy in Hm. destruct (get_ast (e_model s) sec pt) as [a|]; [|inversion Hm].
  destruct (rmem r (a_policy a)) eqn:Hmem; inversion Hm; subst. exists a.
  rewrite emit_mgmt_model, emit_mgmt_fs, emit_mgmt_mexprs, emit_mgmt_enabled.
  cbn [upd_model upd_adapter e_model e_fs e_mexprs e_enabled]. splits; try reflexivity; assumption.
Qed.

Lemma step_remove_nong s sec pt r s' :
  sec <> s_g -> step_remove s sec pt r = (s', Ok true) ->
  exists a, get_ast (e_model s) sec pt = Some a /\ rmem r (a_policy a) = true /\
    e_model s' = set_ast (e_model s) sec pt (with_policy a (rremove r (a_policy a))) /\
    e_fs s' = e_fs s /\ e_mexprs s' = e_mexprs s /\ e_enabled s' = e_enabled s.
Proof.
  intros Hsec. apply teqb_neq in Hsec. unfold step_remove.
  destruct (if e_auto_save s then ad_remove (e_adapter s) sec pt r else (e_adapter s, Ok true))
    as [ad ares].
  destruct ares as [[|]|c|]; try (intros H; discriminate H).
  cbn [upd_adapter e_model].
  destruct (m_remove_policy (e_model s) sec pt r) as [md removed] eqn:Hm.
  unfold after_change. rewrite Hsec. cbn [negb orb]. intros H. inversion H; subst; clear H.
  unfold m_remove_policy in Hm. destruct (get_ast (e_model s) sec pt) as [a|]; [|inversion Hm].
  destruct (rmem r (a_policy a)) eqn:Hmem; inversion Hm; subst. exists a.
  rewrite emit_mgmt_model, emit_mgmt_fs, emit_mgmt_mexprs, emit_mgmt_enabled.
  cbn [upd_model upd_adapter e_model e_fs e_mexprs e_enabled]. splits; try reflexivity; assumption.
Qed.

(* incremental role-link maintenance *)
Lemma incremental_links_spec s pt ins rs s' :
  incremental_links s pt ins rs = (s', LOk) ->
  e_mexprs s' = e_mexprs s /\ e_enabled s' = e_enabled s /\
  (forall sec k, sec <> s_g -> get_ast (e_model s') sec k = get_ast (e_model s) sec k) /\
  ((get_ast (e_model s) s_g pt = None /\ s' = s) \/
   exists a m', get_ast (e_model s) s_g pt = Some a /\
     link_rules (count_us (a_value a)) ins (f_rm (e_fs s)) rs = (m', LOk) /\
     e_fs s' = set_rm (e_fs s) m' /\
     e_model s' = set_ast (e_model s) s_g pt (with_handle a HCur)).
Proof.
  unfold incremental_links. destruct (get_ast (e_model s) s_g pt) as [a|] eqn:Ha.
  - destruct (Nat.ltb (count_us (a_value a)) 2); [intros H; discriminate H|].
    destruct (link_rules (count_us (a_value a)) ins (f_rm (e_fs s)) rs) as [m' [|e]] eqn:Hl;
      intros H; inversion H; subst; clear H.
    cbn [upd_fs upd_model e_mexprs e_enabled e_model e_fs].
    split; [reflexivity|]. split; [reflexivity|]. split.
    + intros sec k Hs. apply get_ast_set_other. left. auto.
    + right. exists a, m'. splits; try reflexivity; assumption.
  - intros H. inversion H; subst. split; [reflexivity|]. split; [reflexivity|].
    split; [reflexivity|]. left. split; reflexivity.
Qed.

Lemma with_policy_value a p : a_value (with_policy a p) = a_value a.
Proof. reflexivity. Qed.

(* a successful, effective add / remove of a grouping rule with auto-build on *)
Lemma step_add_g s pt r s' :
  e_auto_build s = true -> step_add s s_g pt r = (s', Ok true) ->
  exists a m', get_ast (e_model s) s_g pt = Some a /\ rmem r (a_policy a) = false /\
    link_rules (count_us (a_value a)) true (f_rm (e_fs s)) [r] = (m', LOk) /\
    e_fs s' = set_rm (e_fs s) m' /\ e_mexprs s' = e_mexprs s /\ e_enabled s' = e_enabled s /\
    (forall sec k, sec <> s_g -> get_ast (e_model s') sec k = get_ast (e_model s) sec k) /\
    e_model s' = set_ast (set_ast (e_model s) s_g pt (with_policy a (a_policy a ++ [r])))
                         s_g pt (with_handle (with_policy a (a_policy a ++ [r])) HCur).
Proof.
  intros Hab. unfold step_add.
  destruct (if e_auto_save s then ad_add (e_adapter s) s_g pt r else (e_adapter s, Ok true))
    as [ad ares].
  destruct ares as [[|]|c|]; try (intros H; discriminate H).
  cbn [upd_adapter e_model].
  destruct (m_add_policy (e_model s) s_g pt r) as [md added] eqn:Hm.
  unfold after_change. rewrite emit_mgmt_auto_build. cbn [upd_model upd_adapter e_auto_build].
  rewrite Hab.
  destruct added.
  2:{ cbn [negb]. intros H. discriminate H. }
  cbn [negb].
  destruct (incremental_links _ pt true [r]) as [s3 e] eqn:Hinc.
  destruct e as [|c]; cbn [lerr_out]; intros H; inversion H; subst; clear H.
  apply incremental_links_spec in Hinc.
  rewrite emit_mgmt_model, emit_mgmt_fs, emit_mgmt_mexprs, emit_mgmt_enabled in Hinc.
  cbn [upd_model upd_adapter e_model e_fs e_mexprs e_enabled] in Hinc.
  destruct Hinc as (Hmx & Hen & Hother & Hcase).
  unfold m_add_policy in Hm. destruct (get_ast (e_model s) s_g pt) as [a|] eqn:Ha; [|inversion Hm].
  destruct (rmem r (a_policy a)) eqn:Hmem; inversion Hm; subst md; clear Hm.
  assert (Hnew : get_ast (set_ast (e_model s) s_g pt (with_policy a (a_policy a ++ [r]))) s_g pt
                 = Some (with_policy a (a_policy a ++ [r]))).
  { apply (get_ast_set_same _ _ _ a), Ha. }
  destruct Hcase as [[Hnone _]|(a2 & m' & Ha2 & Hl & Hfs & Hmd)].
  { rewrite Hnew in Hnone. discriminate. }
  rewrite Hnew in Ha2. inversion Ha2; subst a2; clear Ha2.
  exists a, m'. rewrite with_policy_value in Hl.
  splits; try assumption; try reflexivity.
  intros sec k Hs. rewrite Hother by exact Hs. apply get_ast_set_other. left. auto.
Qed.

Lemma step_remove_g s pt r s' :
  e_auto_build s = true -> step_remove s s_g pt r = (s', Ok true) ->
  exists a m', get_ast (e_model s) s_g pt = Some a /\ rmem r (a_policy a) = true /\
    link_rules (count_us (a_value a)) false (f_rm (e_fs s)) [r] = (m', LOk) /\
    e_fs s' = set_rm (e_fs s) m' /\ e_mexprs s' = e_mexprs s /\ e_enabled s' = e_enabled s /\
    (forall sec k, sec <> s_g -> get_ast (e_model s') sec k = get_ast (e_model s) sec k) /\
    e_model s' = set_ast (set_ast (e_model s) s_g pt (with_policy a (rremove r (a_policy a))))
                         s_g pt (with_handle (with_policy a (rremove r (a_policy a))) HCur).
Proof.
  intros Hab. unfold step_remove.
  destruct (if e_auto_save s then ad_remove (e_adapter s) s_g pt r else (e_adapter s, Ok true))
    as [ad ares].
  destruct ares as [[|]|c|]; try (intros H; discriminate H).
  cbn [upd_adapter e_model].
  destruct (m_remove_policy (e_model s) s_g pt r) as [md removed] eqn:Hm.
  unfold after_change. rewrite emit_mgmt_auto_build. cbn [upd_model upd_adapter e_auto_build].
  rewrite Hab. change (teqb s_g s_g) with true. cbn [negb orb].
  destruct removed.
  2:{ cbn [negb]. intros H. discriminate H. }
  cbn [negb].
  destruct (incremental_links _ pt false [r]) as [s3 e] eqn:Hinc.
  destruct e as [|c]; cbn [lerr_out]; intros H; inversion H; subst; clear H.
  apply incremental_links_spec in Hinc.
  rewrite emit_mgmt_model, emit_mgmt_fs, emit_mgmt_mexprs, emit_mgmt_enabled in Hinc.
  cbn [upd_model upd_adapter e_model e_fs e_mexprs e_enabled] in Hinc.
  destruct Hinc as (Hmx & Hen & Hother & Hcase).
  unfold m_remove_policy in Hm.
  destruct (get_ast (e_model s) s_g pt) as [a|] eqn:Ha; [|inversion Hm].
  destruct (rmem r (a_policy a)) eqn:Hmem; inversion Hm; subst md; clear Hm.
  assert (Hnew : get_ast (set_ast (e_model s) s_g pt (with_policy a (rremove r (a_policy a)))) s_g pt
                 = Some (with_policy a (rremove r (a_policy a)))).
  { apply (get_ast_set_same _ _ _ a), Ha. }
  destruct Hcase as [[Hnone _]|(a2 & m' & Ha2 & Hl & Hfs & Hmd)].
  { rewrite Hnew in Hnone. discriminate. }
  rewrite Hnew in Ha2. inversion Ha2; subst a2; clear Ha2.
  exists a, m'. rewrite with_policy_value in Hl.
  splits; try assumption; try reflexivity.
  intros sec k Hs. rewrite Hother by exact Hs. apply get_ast_set_other. left. auto.
Qed.

(* ================= H. link maintenance only grows / shrinks the edge sets ================= *)

Lemma agree_self m d : agree m d (edges_of m d).
Proof. intros p. reflexivity. Qed.

Lemma add_link_incl m a b d' d x y :
  Edge m d x y -> Edge (add_link m a b d') d x y.
Proof.
  unfold Edge. intros H.
  destruct (text_eq_dec a b) as [->|Hab].
  { apply (agree_add_refl m b d d' _ (agree_self m d)). exact H. }
  destruct (text_eq_dec (dom_key d') (dom_key d)) as [Hk|Hk].
  - apply (agree_add_same m a b d d' _ Hk Hab (agree_self m d)).
    apply lset_add_In. right. exact H.
  - apply (agree_add_other m a b d d' _ Hk (agree_self m d)). exact H.
Qed.

Lemma delete_link_incl m a b d' d x y :
  wf m -> Edge (fst (delete_link m a b d')) d x y -> Edge m d x y.
Proof.
  unfold Edge. intros Hwf H.
  destruct (text_eq_dec (dom_key d') (dom_key d)) as [Hk|Hk].
  - apply (agree_del_same m a b d d' _ Hwf Hk (agree_self m d)) in H.
    apply lset_del_In in H. apply H.
  - apply (agree_del_other m a b d d' _ Hk (agree_self m d)) in H. exact H.
Qed.

Lemma link_rule_fst cnt ins m r :
  fst (link_rule cnt ins m r) = m \/
  exists a b d, fst (link_rule cnt ins m r) =
                if ins then add_link m a b d else fst (delete_link m a b d).
Proof.
  unfold link_rule. destruct (Nat.ltb (length r) cnt); [left; reflexivity|].
  cbv zeta. destruct (Nat.leb 4 cnt); [left; reflexivity|].
  right. exists (nth 0 r []), (nth 1 r []), (if Nat.eqb cnt 2 then None else Some (nth 2 r [])).
  destruct ins; [reflexivity|].
  destruct (delete_link m (nth 0 r []) (nth 1 r []) _) as [m' [|]]; reflexivity.
Qed.

Lemma link_rule_wf cnt ins m r : wf m -> wf (fst (link_rule cnt ins m r)).
Proof.
  intros Hwf. destruct (link_rule_fst cnt ins m r) as [E|(a & b & d & E)]; rewrite E.
  - exact Hwf.
  - destruct ins; [apply wf_add_link|apply wf_delete_link]; exact Hwf.
Qed.

Lemma link_rules_wf cnt ins : forall rs m, wf m -> wf (fst (link_rules cnt ins m rs)).
Proof.
  induction rs as [|r rs IH]; intros m Hwf; cbn [link_rules]; [exact Hwf|].
  pose proof (link_rule_wf cnt ins m r Hwf) as H1.
  destruct (link_rule cnt ins m r) as [m1 [|e]]; cbn [fst] in *; [apply IH, H1|exact H1].
Qed.

Lemma link_rules_add_incl cnt : forall rs m d x y,
  Edge m d x y -> Edge (fst (link_rules cnt true m rs)) d x y.
Proof.
  induction rs as [|r rs IH]; intros m d x y H; cbn [link_rules]; [exact H|].
  assert (H1 : Edge (fst (link_rule cnt true m r)) d x y).
  { destruct (link_rule_fst cnt true m r) as [E|(a & b & d' & E)]; rewrite E;
      [exact H|apply add_link_incl, H]. }
  destruct (link_rule cnt true m r) as [m1 [|e]]; cbn [fst] in *; [apply IH, H1|exact H1].
Qed.

Lemma link_rules_del_incl cnt : forall rs m d x y, wf m ->
  Edge (fst (link_rules cnt false m rs)) d x y -> Edge m d x y.
Proof.
  induction rs as [|r rs IH]; intros m d x y Hwf H; cbn [link_rules] in H; [exact H|].
  pose proof (link_rule_wf cnt false m r Hwf) as Hwf1.
  assert (H1 : Edge (fst (link_rule cnt false m r)) d x y -> Edge m d x y).
  { destruct (link_rule_fst cnt false m r) as [E|(a & b & d' & E)]; rewrite E;
      [auto|apply delete_link_incl, Hwf]. }
  destruct (link_rule cnt false m r) as [m1 [|e]]; cbn [fst] in *; apply H1; [|exact H].
  apply (IH m1 d x y Hwf1 H).
Qed.

(* ================= I. permission rules under allow-override ================= *)

Lemma ao_of s er : is_allow_override s = true -> effect_rule s = Some er -> er = AllowOverride.
Proof.
  unfold is_allow_override. intros H E. rewrite E in H. destruct er; try discriminate. reflexivity.
Qed.

Lemma m_get_policy_ast md sec k a : get_ast md sec k = Some a -> m_get_policy md sec k = a_policy a.
Proof. unfold m_get_policy. intros ->. reflexivity. Qed.

(* adding a permission rule: every grant stays a grant *)
Theorem add_rule_keeps_grants ptab s r s' rv :
  step s (OAdd s_p s_p r) = (s', Ok true) ->
  is_allow_override s = true ->
  m_get_policy (e_model s) s_p s_p <> [] ->
  enforce ptab s rv = Ok true -> enforce ptab s' rv = Ok true.
Proof.
  cbn [step]. intros Hstep Hao Hne.
  destruct (step_add_nong s s_p s_p r s' sp_ne_sg Hstep) as (a & Ha & Hmem & Hmd & Hfs & Hmx & Hen).
  apply (enforce_rel (fun x y => x = Ok true -> y = Ok true)); auto; rewrite ?Hmd.
  - apply get_ast_set_other. left. exact sp_ne_sr.
  - apply get_ast_set_other. left. exact sp_ne_sm.
  - apply get_ast_set_other. left. exact sp_ne_se.
  - rewrite (get_ast_set_same _ _ _ a _ Ha), Ha. split; [reflexivity|].
    intros er m sc0 Her _. rewrite (ao_of s er Hao Her), Hfs. cbn [with_policy a_policy].
    rewrite (m_get_policy_ast _ _ _ _ Ha) in Hne.
    destruct (a_policy a) as [|r0 l]; [contradiction|].
    unfold decide. cbn [app]. rewrite !perm_combine_ao by reflexivity.
    change (r0 :: l ++ [r]) with ((r0 :: l) ++ [r]). rewrite map_app. apply ao_app.
Qed.

(* removing a permission rule: every denial stays a denial *)
Theorem remove_rule_keeps_denials ptab s r s' rv :
  step s (ORemove s_p s_p r) = (s', Ok true) ->
  is_allow_override s = true ->
  m_get_policy (e_model s') s_p s_p <> [] ->
  enforce ptab s rv = Ok false -> enforce ptab s' rv = Ok false.
Proof.
  cbn [step]. intros Hstep Hao Hne.
  destruct (step_remove_nong s s_p s_p r s' sp_ne_sg Hstep)
    as (a & Ha & Hmem & Hmd & Hfs & Hmx & Hen).
  rewrite Hmd in Hne.
  rewrite (m_get_policy_ast _ _ _ _ (get_ast_set_same _ _ _ a _ Ha)) in Hne.
  cbn [with_policy a_policy] in Hne.
  apply (enforce_rel (fun x y => x = Ok false -> y = Ok false)); auto; rewrite ?Hmd.
  - apply get_ast_set_other. left. exact sp_ne_sr.
  - apply get_ast_set_other. left. exact sp_ne_sm.
  - apply get_ast_set_other. left. exact sp_ne_se.
  - rewrite (get_ast_set_same _ _ _ a _ Ha), Ha. split; [reflexivity|].
    intros er m sc0 Her _. rewrite (ao_of s er Hao Her), Hfs. cbn [with_policy a_policy].
    unfold decide.
    destruct (rremove r (a_policy a)) as [|q0 ql] eqn:Erem; [contradiction|].
    destruct (a_policy a) as [|r0 l] eqn:Epol; [discriminate Erem|].
    rewrite !perm_combine_ao by reflexivity. rewrite <- Erem. unfold rremove. apply ao_filter.
Qed.

(* ================= J. role links under allow-override ================= *)

Lemma Forall2_map_same {A B} (R : B -> B -> Prop) (f g : A -> B) l :
  (forall x, R (f x) (g x)) -> Forall2 R (map f l) (map g l).
Proof. intros H. induction l as [|x l IH]; cbn [map]; constructor; auto. Qed.

(* s1 has the smaller role graph, s2 the larger one; everything else that
   enforcement reads is the same *)
Lemma graph_mono_enforce ptab s1 s2 rv :
  e_enabled s2 = e_enabled s1 -> e_mexprs s2 = e_mexprs s1 ->
  (forall sec k, sec <> s_g -> get_ast (e_model s2) sec k = get_ast (e_model s1) sec k) ->
  e_fs s2 = set_rm (e_fs s1) (f_rm (e_fs s2)) ->
  (forall a b d, has_link (f_rm_max (e_fs s1)) (f_rm (e_fs s1)) a b d = true ->
                 has_link (f_rm_max (e_fs s1)) (f_rm (e_fs s2)) a b d = true) ->
  is_allow_override s1 = true -> matcher_negfree s1 = true ->
  enforce ptab s1 rv = Ok true -> enforce ptab s2 rv <> Ok false.
Proof.
  intros Hen Hmx Hother Hfs Hmono Hao Hnf.
  apply (enforce_rel (fun x y => x = Ok true -> y <> Ok false)).
  - intros x Hx. rewrite Hx. discriminate.
  - exact Hen.
  - exact Hmx.
  - apply Hother, sr_ne_sg.
  - apply Hother, sm_ne_sg.
  - apply Hother, se_ne_sg.
  - rewrite (Hother s_p s_p sp_ne_sg).
    destruct (get_ast (e_model s1) s_p s_p) as [p|]; [|exact I]. split; [reflexivity|].
    intros er m sc0 Her Hm. rewrite (ao_of s1 er Hao Her), Hfs.
    unfold matcher_negfree in Hnf. rewrite Hm in Hnf.
    set (m2 := f_rm (e_fs s2)) in *.
    unfold decide. destruct (a_policy p) as [|r0 l].
    + destruct (eval_matcher_mono (e_fs s1) m2 Hmono ptab m
                  (bind (a_tokens p) (map (fun _ => VStr []) (a_tokens p)) sc0) Hnf)
        as [E|[E|[E|[E1 E2]]]].
      * rewrite E. intros Hx. rewrite Hx. discriminate.
      * destruct (eval_matcher ptab (e_fs s1) m _); [destruct E| |]; intros Hx; discriminate Hx.
      * destruct (eval_matcher ptab (set_rm (e_fs s1) m2) m _); [destruct E| |];
          intros _; discriminate.
      * rewrite E1. cbn. intros Hx. discriminate Hx.
    + rewrite !perm_combine_ao by reflexivity. apply ao_mono.
      apply Forall2_map_same. intros x. apply rule_outcome_mono; assumption.
Qed.

Lemma set_rm_back fs fs' m' : fs' = set_rm fs m' -> fs = set_rm fs' (f_rm fs).
Proof. intros ->. destruct fs. reflexivity. Qed.

Lemma set_rm_rm fs m' : f_rm (set_rm fs m') = m'.
Proof. reflexivity. Qed.

(* adding a role link: no grant becomes a denial *)
Theorem add_link_keeps_grants ptab s pt r s' rv :
  step s (OAdd s_g pt r) = (s', Ok true) ->
  e_auto_build s = true -> wf (f_rm (e_fs s)) -> shallow_state s' = true ->
  is_allow_override s = true -> matcher_negfree s = true ->
  enforce ptab s rv = Ok true -> enforce ptab s' rv <> Ok false.
Proof.
  cbn [step]. intros Hstep Hab Hwf Hsh Hao Hnf.
  destruct (step_add_g s pt r s' Hab Hstep)
    as (a & m' & Ha & Hmem & Hl & Hfs & Hmx & Hen & Hother & _).
  assert (Em : m' = fst (link_rules (count_us (a_value a)) true (f_rm (e_fs s)) [r]))
    by (rewrite Hl; reflexivity).
  apply graph_mono_enforce; try assumption.
  - rewrite Hfs. reflexivity.
  - rewrite Hfs, set_rm_rm. intros x y d.
    unfold shallow_state in Hsh. rewrite Hfs in Hsh. cbn [set_rm f_rm f_rm_max] in Hsh.
    apply has_link_mono.
    + exact Hwf.
    + rewrite Em. apply link_rules_wf, Hwf.
    + intros u v Huv. rewrite Em. apply link_rules_add_incl, Huv.
    + apply shallow_rm_sound, Hsh.
Qed.

(* removing a role link: no denial becomes a grant *)
Theorem remove_link_keeps_denials ptab s pt r s' rv :
  step s (ORemove s_g pt r) = (s', Ok true) ->
  e_auto_build s = true -> wf (f_rm (e_fs s)) -> shallow_state s = true ->
  is_allow_override s = true -> matcher_negfree s = true ->
  enforce ptab s rv = Ok false -> enforce ptab s' rv <> Ok true.
Proof.
  cbn [step]. intros Hstep Hab Hwf Hsh Hao Hnf Hden Hgr.
  destruct (step_remove_g s pt r s' Hab Hstep)
    as (a & m' & Ha & Hmem & Hl & Hfs & Hmx & Hen & Hother & _).
  assert (Em : m' = fst (link_rules (count_us (a_value a)) false (f_rm (e_fs s)) [r]))
    by (rewrite Hl; reflexivity).
  revert Hden. apply (graph_mono_enforce ptab s' s rv); auto.
  - intros sec k Hs. symmetry. apply Hother, Hs.
  - apply (set_rm_back _ _ m'). exact Hfs.
  - rewrite Hfs. cbn [set_rm f_rm f_rm_max]. intros x y d. apply has_link_mono.
    + rewrite Em. apply link_rules_wf, Hwf.
    + exact Hwf.
    + intros u v Huv. rewrite Em in Huv. apply (link_rules_del_incl _ _ _ _ _ _ Hwf Huv).
    + apply shallow_rm_sound, Hsh.
  - unfold is_allow_override, effect_rule in *. rewrite (Hother s_e s_e se_ne_sg). exact Hao.
  - unfold matcher_negfree, plain_matcher in *. rewrite Hmx, Hfs. exact Hnf.
Qed.

(* when no evaluation error occurs the statements are the plain ones *)
Corollary add_link_keeps_grants_strict ptab s pt r s' rv :
  step s (OAdd s_g pt r) = (s', Ok true) ->
  e_auto_build s = true -> wf (f_rm (e_fs s)) -> shallow_state s' = true ->
  is_allow_override s = true -> matcher_negfree s = true ->
  (exists b, enforce ptab s' rv = Ok b) ->
  enforce ptab s rv = Ok true -> enforce ptab s' rv = Ok true.
Proof.
  intros Hstep Hab Hwf Hsh Hao Hnf [b Hb] Hg.
  pose proof (add_link_keeps_grants ptab s pt r s' rv Hstep Hab Hwf Hsh Hao Hnf Hg) as H.
  rewrite Hb in *. destruct b; [reflexivity|contradiction].
Qed.

Corollary remove_link_keeps_denials_strict ptab s pt r s' rv :
  step s (ORemove s_g pt r) = (s', Ok true) ->
  e_auto_build s = true -> wf (f_rm (e_fs s)) -> shallow_state s = true ->
  is_allow_override s = true -> matcher_negfree s = true ->
  (exists b, enforce ptab s' rv = Ok b) ->
  enforce ptab s rv = Ok false -> enforce ptab s' rv = Ok false.
Proof.
  intros Hstep Hab Hwf Hsh Hao Hnf [b Hb] Hd.
  pose proof (remove_link_keeps_denials ptab s pt r s' rv Hstep Hab Hwf Hsh Hao Hnf Hd) as H.
  rewrite Hb in *. destruct b; [contradiction|reflexivity].
Qed.

(* ================= K. rules with a deny effect, every effect rule ================= *)

(* effects that the effect rule ignores: indeterminate always, deny under
   allow-override *)
Definition ign (er : erule) (e : eff) : bool :=
  match e, er with
  | Indet, _ => true
  | Deny, AllowOverride => true
  | _, _ => false
  end.
Definition norm (er : erule) (l : list eff) : list eff := filter (fun e => negb (ign er e)) l.

Lemma existsb_norm (q : eff -> bool) er p :
  (forall e, ign er e = true -> q e = false) -> existsb q (norm er p) = existsb q p.
Proof.
  intros Hq. induction p as [|e p IH]; cbn [norm filter existsb]; [reflexivity|].
  destruct (ign er e) eqn:E; cbn [negb].
  - rewrite (Hq e E). cbn [orb]. exact IH.
  - cbn [existsb]. fold (norm er p). rewrite IH. reflexivity.
Qed.

Lemma first_decided_norm p : first_decided (norm Priority p) = first_decided p.
Proof.
  induction p as [|e p IH]; [reflexivity|]. destruct e; cbn; auto.
Qed.

Lemma forced_norm er p : forced er (norm er p) = forced er p.
Proof.
  destruct er; cbn [forced].
  - rewrite existsb_norm; [reflexivity|]. intros [| |]; cbn; congruence.
  - rewrite existsb_norm; [reflexivity|]. intros [| |]; cbn; congruence.
  - rewrite existsb_norm; [reflexivity|]. intros [| |]; cbn; congruence.
  - rewrite existsb_norm, first_decided_norm; [reflexivity|]. intros [| |]; cbn; congruence.
Qed.

Lemma decl_norm er p : decl er (norm er p) = decl er p.
Proof.
  destruct er; cbn [decl].
  - rewrite existsb_norm; [reflexivity|]. intros [| |]; cbn; congruence.
  - rewrite existsb_norm; [reflexivity|]. intros [| |]; cbn; congruence.
  - rewrite !existsb_norm; [reflexivity| |]; intros [| |]; cbn; congruence.
  - apply first_decided_norm.
Qed.

Lemma norm_app er p q : norm er (p ++ q) = norm er p ++ norm er q.
Proof. apply filter_app. Qed.

Lemma perm_combine_norm er : forall outs s1 s2,
  norm er s1 = norm er s2 -> perm_combine er s1 outs = perm_combine er s2 outs.
Proof.
  induction outs as [|o outs IH]; intros s1 s2 H; cbn [perm_combine].
  - rewrite <- (decl_norm er s1), <- (decl_norm er s2), H. reflexivity.
  - destruct o as [e|c|]; [|reflexivity|reflexivity].
    assert (H' : norm er (s1 ++ [e]) = norm er (s2 ++ [e])) by (rewrite !norm_app, H; reflexivity).
    rewrite <- (forced_norm er (s1 ++ [e])), <- (forced_norm er (s2 ++ [e])), H'.
    destruct (forced er (norm er (s2 ++ [e]))); [reflexivity|]. apply IH, H'.
Qed.

Lemma forced_true_allow er seen e :
  forced er seen = None -> forced er (seen ++ [e]) = Some true -> e = Allow.
Proof.
  destruct er; cbn [forced]; rewrite ?existsb_app; cbn [existsb].
  - destruct (existsb is_allow seen); [discriminate|]. intros _. destruct e; cbn; auto; discriminate.
  - destruct (existsb is_deny seen); [discriminate|]. intros _.
    destruct e; cbn; auto; discriminate.
  - destruct (existsb is_deny seen); [discriminate|]. intros _.
    destruct e; cbn; auto; discriminate.
  - destruct (existsb (fun e0 => negb (eff_eqb e0 Indet)) seen) eqn:E; [discriminate|]. intros _.
    rewrite (first_decided_app_indet seen [e] E). destruct e; cbn; auto; discriminate.
Qed.

Lemma ign_of_unforced er seen e :
  forced er (seen ++ [e]) = None -> e <> Allow -> ign er e = true.
Proof.
  destruct e; [contradiction|reflexivity|]. intros H _.
  destruct er; cbn [forced] in H; rewrite ?existsb_app in H; cbn in H;
    rewrite ?orb_true_r in H; try discriminate. reflexivity.
Qed.

(* outcomes that are not a successful allow *)
Definition dlike (o : outcome eff) : Prop := match o with Ok Allow => False | _ => True end.

(* dropping rules that cannot allow never loses a grant *)
Lemma perm_filter_true {A} er (f : A -> outcome eff) keep : forall l seen,
  forced er seen = None ->
  (forall x, In x l -> keep x = false -> dlike (f x)) ->
  perm_combine er seen (map f l) = Ok true ->
  perm_combine er seen (map f (filter keep l)) = Ok true.
Proof.
  induction l as [|x l IH]; intros seen Hf Hd H; [exact H|].
  cbn [map perm_combine] in H. cbn [filter].
  assert (Hd' : forall y, In y l -> keep y = false -> dlike (f y)) by (intros y Hy; apply Hd; right; exact Hy).
  destruct (f x) as [e|c|] eqn:Ef; [|discriminate|discriminate].
  destruct (forced er (seen ++ [e])) as [b|] eqn:Efo.
  - destruct (keep x) eqn:Ek.
    + cbn [map perm_combine]. rewrite Ef, Efo. exact H.
    + exfalso. inversion H; subst b.
      pose proof (forced_true_allow er seen e Hf Efo) as ->.
      specialize (Hd x (or_introl eq_refl) Ek). rewrite Ef in Hd. exact Hd.
  - destruct (keep x) eqn:Ek.
    + cbn [map perm_combine]. rewrite Ef, Efo. apply IH; assumption.
    + rewrite (perm_combine_norm er _ seen (seen ++ [e])).
      * apply IH; assumption.
      * rewrite norm_app. cbn [norm filter].
        assert (Hi : ign er e = true).
        { apply (ign_of_unforced er seen e Efo). intros ->.
          specialize (Hd x (or_introl eq_refl) Ek). rewrite Ef in Hd. exact Hd. }
        rewrite Hi. cbn [negb]. rewrite app_nil_r. reflexivity.
Qed.

Lemma deny_rule_dlike ptab s p fs m sc0 r :
  get_ast (e_model s) s_p s_p = Some p -> deny_rule s r = true ->
  dlike (rule_outcome ptab fs m (tok s_p s_eft) (a_tokens p) sc0 r).
Proof.
  intros Hp Hd. unfold deny_rule in Hd. rewrite Hp in Hd. unfold rule_outcome.
  destruct (negb (Nat.eqb (length (a_tokens p)) (length r))); [exact I|].
  destruct (eval_matcher ptab fs m _) as [b|c|]; [|exact I|exact I].
  unfold rule_effect. destruct b; [|exact I].
  destruct (index_of (tok s_p s_eft) (a_tokens p)) as [j|]; [|discriminate].
  rewrite Hd. exact I.
Qed.

Lemma rremove_notin r : forall l, rmem r l = false -> rremove r l = l.
Proof.
  induction l as [|x l IH]; cbn [rmem memb existsb rremove filter]; intros H; [reflexivity|].
  apply orb_false_iff in H. destruct H as [H1 H2].
  assert (E : reqb x r = false).
  { apply reqb_neq. apply reqb_neq in H1. auto. }
  rewrite E. cbn [negb]. f_equal. apply IH, H2.
Qed.

(* adding a deny rule never grants *)
Theorem add_deny_never_grants ptab s r s' rv :
  step s (OAdd s_p s_p r) = (s', Ok true) ->
  deny_rule s r = true ->
  m_get_policy (e_model s) s_p s_p <> [] ->
  enforce ptab s' rv = Ok true -> enforce ptab s rv = Ok true.
Proof.
  cbn [step]. intros Hstep Hdr Hne.
  destruct (step_add_nong s s_p s_p r s' sp_ne_sg Hstep) as (a & Ha & Hmem & Hmd & Hfs & Hmx & Hen).
  apply (enforce_rel (fun x y => y = Ok true -> x = Ok true)); auto; rewrite ?Hmd.
  - apply get_ast_set_other. left. exact sp_ne_sr.
  - apply get_ast_set_other. left. exact sp_ne_sm.
  - apply get_ast_set_other. left. exact sp_ne_se.
  - rewrite (get_ast_set_same _ _ _ a _ Ha), Ha. split; [reflexivity|].
    intros er m sc0 _ _. rewrite Hfs. cbn [with_policy a_policy].
    rewrite (m_get_policy_ast _ _ _ _ Ha) in Hne.
    assert (Efil : filter (fun x => negb (reqb x r)) (a_policy a ++ [r]) = a_policy a).
    { rewrite filter_app. cbn [filter]. rewrite reqb_refl. cbn [negb]. rewrite app_nil_r.
      apply (rremove_notin r), Hmem. }
    destruct (a_policy a) as [|r0 l] eqn:Epol; [contradiction|].
    unfold decide. cbn [app]. intros H.
    rewrite <- Efil. apply perm_filter_true; [destruct er; reflexivity| |exact H].
    intros x Hx Hk. apply negb_false_iff, reqb_eq in Hk. subst x.
    apply (deny_rule_dlike ptab s a); assumption.
Qed.

(* removing a deny rule never denies *)
Theorem remove_deny_never_denies ptab s r s' rv :
  step s (ORemove s_p s_p r) = (s', Ok true) ->
  deny_rule s r = true ->
  m_get_policy (e_model s') s_p s_p <> [] ->
  enforce ptab s rv = Ok true -> enforce ptab s' rv = Ok true.
Proof.
  cbn [step]. intros Hstep Hdr Hne.
  destruct (step_remove_nong s s_p s_p r s' sp_ne_sg Hstep)
    as (a & Ha & Hmem & Hmd & Hfs & Hmx & Hen).
  rewrite Hmd in Hne.
  rewrite (m_get_policy_ast _ _ _ _ (get_ast_set_same _ _ _ a _ Ha)) in Hne.
  cbn [with_policy a_policy] in Hne.
  apply (enforce_rel (fun x y => x = Ok true -> y = Ok true)); auto; rewrite ?Hmd.
  - apply get_ast_set_other. left. exact sp_ne_sr.
  - apply get_ast_set_other. left. exact sp_ne_sm.
  - apply get_ast_set_other. left. exact sp_ne_se.
  - rewrite (get_ast_set_same _ _ _ a _ Ha), Ha. split; [reflexivity|].
    intros er m sc0 _ _. rewrite Hfs. cbn [with_policy a_policy].
    unfold decide.
    destruct (rremove r (a_policy a)) as [|q0 ql] eqn:Erem; [contradiction|].
    destruct (a_policy a) as [|r0 l] eqn:Epol; [discriminate Erem|].
    rewrite <- Erem. unfold rremove. intros H.
    apply perm_filter_true; [destruct er; reflexivity| |exact H].
    intros x Hx Hk. apply negb_false_iff, reqb_eq in Hk. subst x.
    apply (deny_rule_dlike ptab s a); assumption.
Qed.

(* the same without the non-emptiness side condition, in the weaker form
   "a denial never becomes a grant" / "a grant never becomes a denial" *)
Lemma filter_none {A} (l : list A) : filter (fun _ => false) l = [].
Proof. induction l as [|x l IH]; [reflexivity|exact IH]. Qed.

Lemma all_dlike_true {A} er (f : A -> outcome eff) l :
  (forall x, In x l -> dlike (f x)) ->
  perm_combine er [] (map f l) = Ok true -> er = DenyOverride.
Proof.
  intros Hd H.
  apply (perm_filter_true er f (fun _ => false)) in H; [|destruct er; reflexivity|auto].
  rewrite filter_none in H. cbn [map perm_combine] in H.
  destruct er; cbn in H; try discriminate. reflexivity.
Qed.

Lemma decide_nil_deny_override ptab fs m et ptoks sc0 :
  decide ptab fs m et ptoks sc0 DenyOverride [] <> Ok false.
Proof.
  unfold decide. destruct (eval_matcher ptab fs m _) as [[|]|c|]; cbn; discriminate.
Qed.

Theorem add_deny_never_grants_weak ptab s r s' rv :
  step s (OAdd s_p s_p r) = (s', Ok true) ->
  deny_rule s r = true ->
  enforce ptab s rv = Ok false -> enforce ptab s' rv <> Ok true.
Proof.
  intros Hstep Hdr Hden Hgr.
  destruct (m_get_policy (e_model s) s_p s_p) as [|r0 l] eqn:Epol.
  2:{ assert (Hne : m_get_policy (e_model s) s_p s_p <> []) by (rewrite Epol; discriminate).
      rewrite (add_deny_never_grants ptab s r s' rv Hstep Hdr Hne Hgr) in Hden. discriminate. }
  revert Hden Hgr. cbn [step] in Hstep.
  destruct (step_add_nong s s_p s_p r s' sp_ne_sg Hstep) as (a & Ha & Hmem & Hmd & Hfs & Hmx & Hen).
  apply (enforce_rel (fun x y => x = Ok false -> y = Ok true -> False)); auto; rewrite ?Hmd.
  - intros x H1 H2. rewrite H1 in H2. discriminate.
  - apply get_ast_set_other. left. exact sp_ne_sr.
  - apply get_ast_set_other. left. exact sp_ne_sm.
  - apply get_ast_set_other. left. exact sp_ne_se.
  - rewrite (get_ast_set_same _ _ _ a _ Ha), Ha. split; [reflexivity|].
    intros er m sc0 _ _. rewrite Hfs. cbn [with_policy a_policy].
    rewrite (m_get_policy_ast _ _ _ _ Ha) in Epol. rewrite Epol. cbn [app].
    intros Hx Hy. unfold decide at 1 in Hy.
    apply all_dlike_true in Hy.
    + subst er. exact (decide_nil_deny_override _ _ _ _ _ _ Hx).
    + intros x [<-|[]]. apply (deny_rule_dlike ptab s a); assumption.
Qed.

Theorem remove_deny_never_denies_weak ptab s r s' rv :
  step s (ORemove s_p s_p r) = (s', Ok true) ->
  deny_rule s r = true ->
  enforce ptab s rv = Ok true -> enforce ptab s' rv <> Ok false.
Proof.
  intros Hstep Hdr Hgr Hden.
  destruct (m_get_policy (e_model s') s_p s_p) as [|r0 l] eqn:Epol.
  2:{ assert (Hne : m_get_policy (e_model s') s_p s_p <> []) by (rewrite Epol; discriminate).
      rewrite (remove_deny_never_denies ptab s r s' rv Hstep Hdr Hne Hgr) in Hden. discriminate. }
  revert Hgr Hden. cbn [step] in Hstep.
  destruct (step_remove_nong s s_p s_p r s' sp_ne_sg Hstep)
    as (a & Ha & Hmem & Hmd & Hfs & Hmx & Hen).
  rewrite Hmd in Epol.
  rewrite (m_get_policy_ast _ _ _ _ (get_ast_set_same _ _ _ a _ Ha)) in Epol.
  cbn [with_policy a_policy] in Epol.
  apply (enforce_rel (fun x y => x = Ok true -> y = Ok false -> False)); auto; rewrite ?Hmd.
  - intros x H1 H2. rewrite H1 in H2. discriminate.
  - apply get_ast_set_other. left. exact sp_ne_sr.
  - apply get_ast_set_other. left. exact sp_ne_sm.
  - apply get_ast_set_other. left. exact sp_ne_se.
  - rewrite (get_ast_set_same _ _ _ a _ Ha), Ha. split; [reflexivity|].
    intros er m sc0 _ _. rewrite Hfs. cbn [with_policy a_policy]. rewrite Epol.
    intros Hx Hy.
    assert (Hall : forall x, In x (a_policy a) -> x = r).
    { intros x Hx'. destruct (reqb x r) eqn:E; [apply reqb_eq, E|].
      assert (Hin : In x (rremove r (a_policy a))).
      { unfold rremove. apply filter_In. split; [exact Hx'|]. rewrite E. reflexivity. }
      rewrite Epol in Hin. destruct Hin. }
    destruct (a_policy a) as [|q0 ql] eqn:Ea.
    { unfold rmem in Hmem. cbn in Hmem. discriminate. }
    unfold decide at 1 in Hx. apply all_dlike_true in Hx.
    + subst er. exact (decide_nil_deny_override _ _ _ _ _ _ Hy).
    + intros x Hx'. rewrite (Hall x Hx'). apply (deny_rule_dlike ptab s a); assumption.
Qed.

(* ================= L. the executable predicate holds of the model ================= *)

Lemma forallb2_map {A B C} (f : B -> C -> bool) (g : A -> B) (h : A -> C) l :
  (forall x, f (g x) (h x) = true) -> forallb2 f (map g l) (map h l) = true.
Proof.
  intros H. induction l as [|x l IH]; cbn [map forallb2]; [reflexivity|].
  rewrite H, IH. reflexivity.
Qed.

Lemma implb_grant_nodeny b a :
  (b = Ok true -> a <> Ok false) -> implb (is_grant b) (negb (is_denial a)) = true.
Proof.
  destruct b as [[|]|c|], a as [[|]|c'|]; cbn; try reflexivity.
  intros H. exfalso. exact (H eq_refl eq_refl).
Qed.
Lemma implb_deny_nogrant b a :
  (b = Ok false -> a <> Ok true) -> implb (is_denial b) (negb (is_grant a)) = true.
Proof.
  destruct b as [[|]|c|], a as [[|]|c'|]; cbn; try reflexivity.
  intros H. exfalso. exact (H eq_refl eq_refl).
Qed.
Lemma implb_grant_grant b a :
  (b = Ok true -> a = Ok true) -> implb (is_grant b) (is_grant a) = true.
Proof.
  destruct b as [[|]|c|]; cbn; try reflexivity. intros H. rewrite (H eq_refl). reflexivity.
Qed.
Lemma implb_deny_deny b a :
  (b = Ok false -> a = Ok false) -> implb (is_denial b) (is_denial a) = true.
Proof.
  destruct b as [[|]|c|]; cbn; try reflexivity. intros H. rewrite (H eq_refl). reflexivity.
Qed.

Theorem c08_pred_add_link ptab s pt r s' rvs :
  step s (OAdd s_g pt r) = (s', Ok true) ->
  e_auto_build s = true -> wf (f_rm (e_fs s)) -> shallow_state s' = true ->
  is_allow_override s = true -> matcher_negfree s = true ->
  c08_pred KGrow (map (enforce ptab s) rvs) (map (enforce ptab s') rvs) = true.
Proof.
  intros. apply forallb2_map. intros rv. apply implb_grant_nodeny.
  eapply add_link_keeps_grants; eassumption.
Qed.

Theorem c08_pred_remove_link ptab s pt r s' rvs :
  step s (ORemove s_g pt r) = (s', Ok true) ->
  e_auto_build s = true -> wf (f_rm (e_fs s)) -> shallow_state s = true ->
  is_allow_override s = true -> matcher_negfree s = true ->
  c08_pred KShrink (map (enforce ptab s) rvs) (map (enforce ptab s') rvs) = true.
Proof.
  intros. apply forallb2_map. intros rv. apply implb_deny_nogrant.
  eapply remove_link_keeps_denials; eassumption.
Qed.

Theorem c08_pred_add_rule ptab s r s' rvs :
  step s (OAdd s_p s_p r) = (s', Ok true) ->
  is_allow_override s = true -> m_get_policy (e_model s) s_p s_p <> [] ->
  c08_pred KGrowStrict (map (enforce ptab s) rvs) (map (enforce ptab s') rvs) = true.
Proof.
  intros. apply forallb2_map. intros rv. apply implb_grant_grant.
  eapply add_rule_keeps_grants; eassumption.
Qed.

Theorem c08_pred_remove_rule ptab s r s' rvs :
  step s (ORemove s_p s_p r) = (s', Ok true) ->
  is_allow_override s = true -> m_get_policy (e_model s') s_p s_p <> [] ->
  c08_pred KShrinkStrict (map (enforce ptab s) rvs) (map (enforce ptab s') rvs) = true.
Proof.
  intros. apply forallb2_map. intros rv. apply implb_deny_deny.
  eapply remove_rule_keeps_denials; eassumption.
Qed.

(* deny rules: the decisions AFTER adding are the "before" side *)
Theorem c08_pred_add_deny ptab s r s' rvs :
  step s (OAdd s_p s_p r) = (s', Ok true) -> deny_rule s r = true ->
  c08_pred KShrink (map (enforce ptab s) rvs) (map (enforce ptab s') rvs) = true.
Proof.
  intros. apply forallb2_map. intros rv. apply implb_deny_nogrant.
  eapply add_deny_never_grants_weak; eassumption.
Qed.

Theorem c08_pred_remove_deny ptab s r s' rvs :
  step s (ORemove s_p s_p r) = (s', Ok true) -> deny_rule s r = true ->
  c08_pred KGrow (map (enforce ptab s) rvs) (map (enforce ptab s') rvs) = true.
Proof.
  intros. apply forallb2_map. intros rv. apply implb_grant_nodeny.
  eapply remove_deny_never_denies_weak; eassumption.
Qed.

(* ================= M. examples: non-vacuity and necessity of the hypotheses ================= *)

Definition mk_ast (v : text) (toks : list text) : assertion :=
  {| a_value := v; a_tokens := toks; a_policy := []; a_handle := HOwn |}.
(* request (sub, obj, act); policy columns ptoks; role definitions gdefs *)
Definition ex_def (eft : text) (ptoks : list text) (gdefs : list (text * text)) (m : expr)
  : modeldef :=
  {| d_model := [ (s_r, [(s_r, mk_ast (T "sub, obj, act") [T "r_sub"; T "r_obj"; T "r_act"])]);
                  (s_p, [(s_p, mk_ast (T "sub, obj, act") ptoks)]);
                  (s_g, map (fun kv => (fst kv, mk_ast (snd kv) [])) gdefs);
                  (s_e, [(s_e, mk_ast eft [])]);
                  (s_m, [(s_m, mk_ast [] [])]) ];
     d_mexprs := [(s_m, m)] |}.
Definition ex_start (d : modeldef) : estate := fst (new_enforcer d ANull false).
Definition no_ptab : text -> option expr := fun _ => None.
Definition p3 : list text := [T "p_sub"; T "p_obj"; T "p_act"].
Definition p4 : list text := [T "p_sub"; T "p_obj"; T "p_act"; T "p_eft"].
Definition req (a b c : string) : list value := [VStr (T a); VStr (T b); VStr (T c)].
Definition rsub := EVar s_r (T "sub").
Definition robj := EVar s_r (T "obj").
Definition ract := EVar s_r (T "act").
Definition psub := EVar s_p (T "sub").
Definition pobj := EVar s_p (T "obj").
Definition pact := EVar s_p (T "act").
(* g(r.sub, p.sub) && r.obj == p.obj && r.act == p.act *)
Definition m_rbac : expr := EAnd (EAnd (ECall (T "g") [rsub; psub]) (EEq robj pobj)) (EEq ract pact).
(* r.sub == p.sub && r.obj == p.obj && r.act == p.act *)
Definition m_acl : expr := EAnd (EAnd (EEq rsub psub) (EEq robj pobj)) (EEq ract pact).
Definition g_users : list (text * text) := [(T "g", T "_, _")].

Example negfree_rbac : negfree m_rbac = true /\ negfree m_acl = true.
Proof. vm_compute. split; reflexivity. Qed.

Definition ex_s0 : estate := ex_start (ex_def s_allow_override p3 g_users m_rbac).
Definition ex_s1 : estate :=
  run_ops ex_s0 [OAdd s_p s_p [T "admin"; T "data"; T "read"];
                 OAdd s_p s_p [T "carol"; T "data"; T "write"];
                 OAdd s_g s_g [T "bob"; T "admin"]].
Definition ex_reqs : list (list value) :=
  [req "bob" "data" "read"; req "alice" "data" "read"; req "carol" "data" "write";
   req "bob" "data" "write"].

Lemma ex_s1_wf : wf (f_rm (e_fs ex_s1)).
Proof.
  assert (E : f_rm (e_fs ex_s1) = lrun [LAdd (T "bob") (T "admin") None])
    by (vm_compute; reflexivity).
  rewrite E. apply wf_lrun.
Qed.

(* all hypotheses of add_link_keeps_grants hold and the conclusion is not
   trivial: bob keeps his grant, alice gains one *)
Example ex_add_link :
  let '(s', o) := step ex_s1 (OAdd s_g s_g [T "alice"; T "admin"]) in
  o = Ok true /\ e_auto_build ex_s1 = true /\ shallow_state s' = true /\
  is_allow_override ex_s1 = true /\ matcher_negfree ex_s1 = true /\
  map (enforce no_ptab ex_s1) ex_reqs = [Ok true; Ok false; Ok true; Ok false] /\
  map (enforce no_ptab s') ex_reqs = [Ok true; Ok true; Ok true; Ok false].
Proof. vm_compute. repeat split; reflexivity. Qed.

Example ex_remove_link :
  let '(s', o) := step ex_s1 (ORemove s_g s_g [T "bob"; T "admin"]) in
  o = Ok true /\ shallow_state ex_s1 = true /\
  map (enforce no_ptab s') ex_reqs = [Ok false; Ok false; Ok true; Ok false].
Proof. vm_compute. repeat split; reflexivity. Qed.

Example ex_add_rule :
  let '(s', o) := step ex_s1 (OAdd s_p s_p [T "alice"; T "data"; T "read"]) in
  o = Ok true /\ m_get_policy (e_model ex_s1) s_p s_p <> [] /\
  map (enforce no_ptab s') ex_reqs = [Ok true; Ok true; Ok true; Ok false].
Proof. vm_compute. repeat split; try reflexivity. discriminate. Qed.

Example ex_remove_rule :
  let '(s', o) := step ex_s1 (ORemove s_p s_p [T "carol"; T "data"; T "write"]) in
  o = Ok true /\ m_get_policy (e_model s') s_p s_p <> [] /\
  map (enforce no_ptab s') ex_reqs = [Ok true; Ok false; Ok false; Ok false].
Proof. vm_compute. repeat split; try reflexivity. discriminate. Qed.

(* --- necessity of "the policy is not empty": with no rule at all the matcher
   is evaluated once on empty strings, so the all-empty request is granted by
   an ACL matcher; the first rule added revokes that grant, and removing the
   last rule grants it again *)
Definition ex_acl0 : estate := ex_start (ex_def s_allow_override p3 [] m_acl).
Example add_rule_needs_nonempty :
  let '(s', o) := step ex_acl0 (OAdd s_p s_p [T "alice"; T "data"; T "read"]) in
  o = Ok true /\ is_allow_override ex_acl0 = true /\
  enforce no_ptab ex_acl0 (req "" "" "") = Ok true /\
  enforce no_ptab s' (req "" "" "") = Ok false.
Proof. vm_compute. repeat split; reflexivity. Qed.

Example remove_rule_needs_nonempty :
  let s1 := run_ops ex_acl0 [OAdd s_p s_p [T "alice"; T "data"; T "read"]] in
  let '(s', o) := step s1 (ORemove s_p s_p [T "alice"; T "data"; T "read"]) in
  o = Ok true /\ enforce no_ptab s1 (req "" "" "") = Ok false /\
  enforce no_ptab s' (req "" "" "") = Ok true.
Proof. vm_compute. repeat split; reflexivity. Qed.

(* --- errors are not preserved: (g(r.sub,p.sub) && r.obj.owner) || r.act == p.act
   with a string object.  Without the link the && short-circuits and the request
   is granted through the right disjunct; with the link r.obj.owner is evaluated
   and fails.  Hence the conclusion "is not a denial" instead of "is a grant". *)
Definition m_ill : expr :=
  EOr (EAnd (ECall (T "g") [rsub; psub]) (EProp robj (T "owner"))) (EEq ract pact).
Definition ex_ill : estate :=
  run_ops (ex_start (ex_def s_allow_override p3 g_users m_ill))
          [OAdd s_p s_p [T "admin"; T "data"; T "read"]].
Example link_can_raise_error :
  let '(s', o) := step ex_ill (OAdd s_g s_g [T "alice"; T "admin"]) in
  o = Ok true /\ matcher_negfree ex_ill = true /\ is_allow_override ex_ill = true /\
  shallow_state s' = true /\
  enforce no_ptab ex_ill (req "alice" "data" "read") = Ok true /\
  enforce no_ptab s' (req "alice" "data" "read") = Err EEvalc.
Proof. vm_compute. repeat split; reflexivity. Qed.

(* --- necessity of shallowness ("hierarchies below the depth limit"): with
   the hierarchy limit set to 2, a is granted d's permission although d is two
   links away (the depth counter lags on the wide front); adding a->e revokes it *)
Definition ex_deep : estate :=
  run_ops ex_s0 [OSetRoleManager 2; OAdd s_p s_p [T "d"; T "data"; T "read"];
                 OAdd s_g s_g [T "a"; T "b"]; OAdd s_g s_g [T "a"; T "c"];
                 OAdd s_g s_g [T "b"; T "d"]; OAdd s_g s_g [T "c"; T "e"]].
Example add_link_needs_shallow :
  let '(s', o) := step ex_deep (OAdd s_g s_g [T "a"; T "e"]) in
  o = Ok true /\ e_auto_build ex_deep = true /\ is_allow_override ex_deep = true /\
  matcher_negfree ex_deep = true /\ shallow_state s' = false /\
  enforce no_ptab ex_deep (req "a" "data" "read") = Ok true /\
  enforce no_ptab s' (req "a" "data" "read") = Ok false.
Proof. vm_compute. repeat split; reflexivity. Qed.

(* --- == false is a negation: g(r.sub, p.sub) == false is rejected by the class,
   and rightly so *)
Definition m_eqfalse : expr :=
  EAnd (EEq (ECall (T "g") [rsub; psub]) (ELit (SBool false))) (EEq robj pobj).
Definition ex_eqf : estate :=
  run_ops (ex_start (ex_def s_allow_override p3 g_users m_eqfalse))
          [OAdd s_p s_p [T "admin"; T "data"; T "read"]].
Example eq_false_is_negation :
  let '(s', o) := step ex_eqf (OAdd s_g s_g [T "alice"; T "admin"]) in
  o = Ok true /\ matcher_negfree ex_eqf = false /\
  enforce no_ptab ex_eqf (req "alice" "data" "read") = Ok true /\
  enforce no_ptab s' (req "alice" "data" "read") = Ok false.
Proof. vm_compute. repeat split; reflexivity. Qed.

(* --- links are allow-override only: under deny-override a new link makes a
   deny rule applicable *)
Definition ex_do : estate :=
  run_ops (ex_start (ex_def s_deny_override p4 g_users m_rbac))
          [OAdd s_p s_p [T "admin"; T "data"; T "read"; T "deny"];
           OAdd s_p s_p [T "bob"; T "data"; T "read"; T "allow"]].
Example link_under_deny_override_revokes :
  let '(s', o) := step ex_do (OAdd s_g s_g [T "alice"; T "admin"]) in
  o = Ok true /\ matcher_negfree ex_do = true /\ shallow_state s' = true /\
  is_allow_override ex_do = false /\
  enforce no_ptab ex_do (req "alice" "data" "read") = Ok true /\
  enforce no_ptab s' (req "alice" "data" "read") = Ok false.
Proof. vm_compute. repeat split; reflexivity. Qed.

(* deny rules, non-vacuity: adding (alice, data, read, deny) revokes alice's
   grant; removing the admin deny rule changes nothing for the others *)
Example ex_add_deny :
  let '(s', o) := step ex_do (OAdd s_p s_p [T "alice"; T "data"; T "read"; T "deny"]) in
  o = Ok true /\ deny_rule ex_do [T "alice"; T "data"; T "read"; T "deny"] = true /\
  m_get_policy (e_model ex_do) s_p s_p <> [] /\
  enforce no_ptab ex_do (req "alice" "data" "read") = Ok true /\
  enforce no_ptab s' (req "alice" "data" "read") = Ok false /\
  enforce no_ptab s' (req "bob" "data" "read") = Ok true.
Proof. vm_compute. repeat split; try reflexivity. discriminate. Qed.

Example ex_remove_deny :
  let '(s', o) := step ex_do (ORemove s_p s_p [T "admin"; T "data"; T "read"; T "deny"]) in
  o = Ok true /\ deny_rule ex_do [T "admin"; T "data"; T "read"; T "deny"] = true /\
  m_get_policy (e_model s') s_p s_p <> [] /\
  enforce no_ptab ex_do (req "admin" "data" "read") = Ok false /\
  enforce no_ptab s' (req "admin" "data" "read") = Ok true.
Proof. vm_compute. repeat split; try reflexivity. discriminate. Qed.

(* necessity of non-emptiness for the strong deny statements: under
   deny-override the matcher  p.sub == "" && r.sub.x  fails on the empty
   pseudo-rule only; adding a deny rule turns the error into a grant *)
Definition m_errempty : expr := EAnd (EEq psub (ELit (SStr []))) (EProp rsub (T "x")).
Definition ex_ee : estate := ex_start (ex_def s_deny_override p4 [] m_errempty).
Example add_deny_needs_nonempty :
  let '(s', o) := step ex_ee (OAdd s_p s_p [T "admin"; T "data"; T "read"; T "deny"]) in
  o = Ok true /\ deny_rule ex_ee [T "admin"; T "data"; T "read"; T "deny"] = true /\
  enforce no_ptab ex_ee (req "alice" "data" "read") = Err EEvalc /\
  enforce no_ptab s' (req "alice" "data" "read") = Ok true.
Proof. vm_compute. repeat split; reflexivity. Qed.

(* ================= N. the shared role manager is well-formed in every reachable state ================= *)

Definition rm_wf (s : estate) : Prop := wf (f_rm (e_fs s)).

Lemma emit_fs s ev : e_fs (emit s ev) = e_fs s.
Proof. unfold emit. destruct (e_watcher s); reflexivity. Qed.

Lemma incremental_links_wf s pt ins rs : rm_wf s -> rm_wf (fst (incremental_links s pt ins rs)).
Proof.
  unfold rm_wf, incremental_links. intros Hwf.
  destruct (get_ast (e_model s) s_g pt) as [a|]; [|exact Hwf].
  destruct (Nat.ltb _ 2); [exact Hwf|].
  pose proof (link_rules_wf (count_us (a_value a)) ins rs _ Hwf) as H.
  destruct (link_rules _ ins _ rs) as [m' [|e]]; cbn [fst] in *; exact H.
Qed.

Lemma after_change_wf s sec pt ch ins rs : rm_wf s -> rm_wf (fst (after_change s sec pt ch ins rs)).
Proof.
  intros Hwf. unfold after_change. destruct (_ || _); [exact Hwf|].
  pose proof (incremental_links_wf s pt ins rs Hwf) as H.
  destruct (incremental_links s pt ins rs) as [s' e]. exact H.
Qed.

Lemma build_links_am_wf : forall am m, wf m -> wf (snd (fst (build_links_am am m))).
Proof.
  induction am as [|[k a] am IH]; intros m Hwf; cbn [build_links_am]; [exact Hwf|].
  destruct (Nat.ltb _ 2); [exact Hwf|].
  pose proof (link_rules_wf (count_us (a_value a)) true (a_policy a) m Hwf) as H1.
  destruct (link_rules _ true m (a_policy a)) as [m1 [|e]]; cbn [fst snd] in *; [|exact H1].
  specialize (IH m1 H1). destruct (build_links_am am m1) as [[am2 m2] e2]. exact IH.
Qed.

Lemma build_role_links_wf s : rm_wf (fst (build_role_links s)).
Proof.
  unfold rm_wf, build_role_links. destruct (assoc s_g (e_model s)) as [am|]; [|apply wf_nil].
  pose proof (build_links_am_wf am [] wf_nil) as H.
  destruct (build_links_am am []) as [[am' m'] e]. exact H.
Qed.

Lemma step_add_wf s sec pt r : rm_wf s -> rm_wf (fst (step_add s sec pt r)).
Proof.
  intros Hwf. unfold step_add.
  destruct (if e_auto_save s then _ else _) as [ad ares].
  destruct ares as [[|]|c|]; try exact Hwf.
  destruct (m_add_policy _ sec pt r) as [md added].
  apply after_change_wf. unfold rm_wf. rewrite emit_mgmt_fs. exact Hwf.
Qed.

Lemma step_add_many_wf s sec pt rs : rm_wf s -> rm_wf (fst (step_add_many s sec pt rs)).
Proof.
  intros Hwf. unfold step_add_many.
  destruct (if e_auto_save s then _ else _) as [ad ares].
  destruct ares as [[|]|c|]; try exact Hwf.
  destruct (m_add_policies _ sec pt rs) as [md added].
  apply after_change_wf. unfold rm_wf. rewrite emit_mgmt_fs. exact Hwf.
Qed.

Lemma step_remove_wf s sec pt r : rm_wf s -> rm_wf (fst (step_remove s sec pt r)).
Proof.
  intros Hwf. unfold step_remove.
  destruct (if e_auto_save s then _ else _) as [ad ares].
  destruct ares as [[|]|c|]; try exact Hwf.
  destruct (m_remove_policy _ sec pt r) as [md removed].
  apply after_change_wf. unfold rm_wf. rewrite emit_mgmt_fs. exact Hwf.
Qed.

Lemma step_remove_many_wf s sec pt rs : rm_wf s -> rm_wf (fst (step_remove_many s sec pt rs)).
Proof.
  intros Hwf. unfold step_remove_many.
  destruct (if e_auto_save s then _ else _) as [ad ares].
  destruct ares as [[|]|c|]; try exact Hwf.
  destruct (m_remove_policies _ sec pt rs) as [md removed].
  apply after_change_wf. unfold rm_wf. rewrite emit_mgmt_fs. exact Hwf.
Qed.

Lemma step_remove_filtered_wf s sec pt idx vals :
  rm_wf s -> rm_wf (fst (step_remove_filtered s sec pt idx vals)).
Proof.
  intros Hwf. unfold step_remove_filtered.
  destruct (if e_auto_save s then _ else _) as [ad ares].
  destruct ares as [[|]|c|]; try exact Hwf.
  destruct (m_remove_filtered _ sec pt idx vals) as [[[md removed] rem]|]; [|exact Hwf].
  cbv zeta.
  assert (H2 : rm_wf (emit_mgmt (upd_model (upd_adapter s ad) md) removed
                                (EvRemoveFiltered sec pt rem))).
  { unfold rm_wf. rewrite emit_mgmt_fs. exact Hwf. }
  destruct (_ || _); [exact H2|].
  pose proof (incremental_links_wf _ pt false rem H2) as H.
  destruct (incremental_links _ pt false rem) as [s3 e]. exact H.
Qed.

Lemma seq_or_wf ra f :
  rm_wf (fst ra) -> (forall s, rm_wf s -> rm_wf (fst (f s))) -> rm_wf (fst (seq_or ra f)).
Proof.
  intros Ha Hf. unfold seq_or. destruct ra as [s [a|c|]]; try exact Ha.
  cbn [fst] in Ha. specialize (Hf s Ha). destruct (f s) as [s' [b|c|]]; exact Hf.
Qed.

Lemma step_rbac_wf s o : rm_wf s -> rm_wf (fst (step_rbac s o)).
Proof.
  intros Hwf. destruct o; cbn [step_rbac];
    try (apply step_add_wf, Hwf); try (apply step_add_many_wf, Hwf);
    try (apply step_remove_wf, Hwf); try (apply step_remove_filtered_wf, Hwf);
    apply seq_or_wf; try (apply step_remove_filtered_wf, Hwf);
    intros s' Hs'; apply step_remove_filtered_wf, Hs'.
Qed.

Lemma finish_load_wf s ad md r : rm_wf s -> rm_wf (fst (finish_load s ad md r)).
Proof.
  intros Hwf. unfold finish_load. destruct r as [|e|]; try exact Hwf.
  cbv zeta. destruct (e_auto_build _); [|exact Hwf].
  pose proof (build_role_links_wf (upd_model (upd_adapter s ad) md)) as H.
  destruct (build_role_links _) as [s2 e]. exact H.
Qed.

Lemma step_load_wf s : rm_wf s -> rm_wf (fst (step_load s)).
Proof.
  intros Hwf. unfold step_load. destruct (ad_load _ _) as [[ad md] r]. apply finish_load_wf, Hwf.
Qed.

Lemma step_load_filtered_wf s fp fg : rm_wf s -> rm_wf (fst (step_load_filtered s fp fg)).
Proof.
  intros Hwf. unfold step_load_filtered. destruct (ad_load_filtered _ _ _ _) as [[ad md] r].
  apply finish_load_wf, Hwf.
Qed.

Lemma register_g_functions_rm s : f_rm (e_fs (fst (register_g_functions s))) = f_rm (e_fs s).
Proof.
  unfold register_g_functions. destruct (assoc s_g (e_model s)) as [am|]; [|reflexivity].
  destruct (register_g am _) as [gf e]. reflexivity.
Qed.

Lemma step_set_model_wf s d : rm_wf s -> rm_wf (fst (step_set_model s d)).
Proof.
  intros Hwf. unfold step_set_model. cbv zeta.
  match goal with |- context [step_load ?s0] =>
    pose proof (step_load_wf s0 Hwf) as H; destruct (step_load s0) as [s1 [b|c|]] end;
    try exact H.
  cbn [fst] in H.
  pose proof (register_g_functions_rm s1) as E.
  destruct (register_g_functions s1) as [s2 e]. cbn [fst] in *. unfold rm_wf. rewrite E. exact H.
Qed.

Lemma step_set_role_manager_wf s maxd : rm_wf (fst (step_set_role_manager s maxd)).
Proof.
  unfold step_set_role_manager. cbv zeta.
  match goal with |- context [if e_auto_build ?s1 then build_role_links ?s1 else (?s1, LOk)] =>
    assert (H : rm_wf (fst (if e_auto_build s1 then build_role_links s1 else (s1, LOk))));
      [destruct (e_auto_build s1); [apply build_role_links_wf|apply wf_nil]|];
      destruct (if e_auto_build s1 then build_role_links s1 else (s1, LOk)) as [s2 e]
  end.
  cbn [fst] in H. destruct e as [|c]; [|exact H].
  pose proof (register_g_functions_rm s2) as E.
  destruct (register_g_functions s2) as [s3 e']. cbn [fst] in *. unfold rm_wf. rewrite E. exact H.
Qed.

Theorem step_wf s o : rm_wf s -> rm_wf (fst (step s o)).
Proof.
  intros Hwf. destruct o; cbn [step]; try exact Hwf.
  - apply step_add_wf, Hwf.
  - apply step_add_many_wf, Hwf.
  - apply step_remove_wf, Hwf.
  - apply step_remove_many_wf, Hwf.
  - apply step_remove_filtered_wf, Hwf.
  - apply step_rbac_wf, Hwf.
  - unfold step_clear. destruct (if e_auto_save s then _ else _) as [ad r].
    destruct r as [|e|]; try exact Hwf. cbv zeta.
    destruct (e_auto_build _).
    + pose proof (build_role_links_wf
                    (upd_model (upd_adapter s ad) (m_clear_policy (e_model (upd_adapter s ad)))))
        as H.
      destruct (build_role_links _) as [s3 [|e]]; [|exact H].
      cbn [fst]. unfold rm_wf. rewrite emit_fs. exact H.
    + cbn [fst]. unfold rm_wf. rewrite emit_fs. exact Hwf.
  - apply step_load_wf, Hwf.
  - apply step_load_filtered_wf, Hwf.
  - unfold step_save. destruct (ad_is_filtered _); [exact Hwf|].
    destruct (ad_save _ _) as [ad [|e|]]; try exact Hwf.
    cbn [fst]. unfold rm_wf. rewrite emit_fs. exact Hwf.
  - pose proof (build_role_links_wf s) as H. destruct (build_role_links s) as [s' e]. exact H.
  - apply step_set_model_wf, Hwf.
  - unfold step_set_adapter. apply step_load_wf. exact Hwf.
  - apply step_set_role_manager_wf.
Qed.

Lemma run_ops_wf : forall ops s, rm_wf s -> rm_wf (run_ops s ops).
Proof.
  unfold run_ops. induction ops as [|o ops IH]; intros s Hwf; cbn [fold_left]; [exact Hwf|].
  apply IH, step_wf, Hwf.
Qed.

Lemma new_enforcer_wf d a w : rm_wf (fst (new_enforcer d a w)).
Proof.
  unfold new_enforcer.
  assert (H : rm_wf (fst (new_raw d a w))).
  { unfold new_raw, rm_wf. rewrite register_g_functions_rm. apply wf_nil. }
  destruct (new_raw d a w) as [s [|e]]; [|exact H]. cbn [fst] in H.
  destruct (ad_is_filtered _); [exact H|]. apply step_load_wf, H.
Qed.

(* every state reachable from a fresh enforcer by any history *)
Theorem reachable_rm_wf d a w ops : wf (f_rm (e_fs (run_ops (fst (new_enforcer d a w)) ops))).
Proof. apply run_ops_wf, new_enforcer_wf. Qed.

(* the link theorems on every reachable state: well-formedness is discharged *)
Corollary add_link_keeps_grants_reachable ptab d ad w ops pt r s' rv :
  let s := run_ops (fst (new_enforcer d ad w)) ops in
  step s (OAdd s_g pt r) = (s', Ok true) ->
  e_auto_build s = true -> shallow_state s' = true ->
  is_allow_override s = true -> matcher_negfree s = true ->
  enforce ptab s rv = Ok true -> enforce ptab s' rv <> Ok false.
Proof.
  intros s Hstep Hab Hsh Hao Hnf.
  apply (add_link_keeps_grants ptab s pt r s' rv Hstep Hab); try assumption.
  apply reachable_rm_wf.
Qed.

Corollary remove_link_keeps_denials_reachable ptab d ad w ops pt r s' rv :
  let s := run_ops (fst (new_enforcer d ad w)) ops in
  step s (ORemove s_g pt r) = (s', Ok true) ->
  e_auto_build s = true -> shallow_state s = true ->
  is_allow_override s = true -> matcher_negfree s = true ->
  enforce ptab s rv = Ok false -> enforce ptab s' rv <> Ok true.
Proof.
  intros s Hstep Hab Hsh Hao Hnf.
  apply (remove_link_keeps_denials ptab s pt r s' rv Hstep Hab); try assumption.
  apply reachable_rm_wf.
Qed.
