(* Part 21 (linking), the ADD half of the capstone: add_named_policy / add_named_grouping_policy of the
   management API down to the translated leaves of the crate.

     MgmtApi::add_named_[grouping_]policy     Gen/ApiGen.v        gen_add_named_policy, gen_add_named_grouping_policy
       -> InternalApi::add_policy_internal    Gen/InternalGen.v   gen_add_policy_internal
            -> Adapter::add_policy            Gen/AdaptersGen.v   gen_mem_add_policy        (MemoryAdapter)
                                              Gen/FsaveGen.v      gen_file_add_policy, gen_str_add_policy
            -> Model::add_policy              Gen/Model2Gen.v     gen_m_add_policy
            -> emit(PolicyChange, ..), emit(ClearCache, ..)
                                              Gen/Enforcer2Gen.v  gen_enf_emit
            -> Enforcer::build_incremental_role_links
                                              Gen/Enforcer2Gen.v  gen_enf_build_incremental_role_links
                 -> DefaultModel:: / Assertion::build_incremental_role_links
                                              Gen/LinksGen.v      gen_model_ / gen_ast_build_incremental_role_links
                      -> rm.write().add_link / delete_link
                                              Gen/RoleManagerGen.v gen_add_link, gen_delete_link

   Each `*_skel` is the generated function with the primitives it calls abstracted, computed from the generated
   term (`pattern`); `lk_*` is the skeleton applied to the translated callees.  Where two layers were translated
   over different representations of the same Rust value, the callee runs on the representation its layer uses
   and the result is read back (renf_of / rm_conc, rm_back / mem_in, inc_in: representation changes only).

   MISSING LINK (named hypothesis of the capstone): src/adapter/null_adapter.rs is neither translated nor
   pinned; `null_add` stands for NullAdapter::add_policy and ML_null_adapter says that it returns Ok(true). *)
From CV Require Import Model.Base Model.Csv Model.RoleGraph Model.Expr Model.Enforce Model.Engine Model.FileSave.
From CV Require Import Gen.RustStr Gen.RustVec Gen.RustIter.
From CV Require Import Gen.InternalPrims Gen.InternalGen Gen.ApiRt Gen.ApiGen.
From CV Require Import Gen.AdaptersPrims Gen.AdaptersGen Gen.FsRt Gen.FsaveGen.
From CV Require Import Gen.Model2Rt Gen.Model2Gen.
From CV Require Import Gen.LinksPrims Gen.LinksGen.
From CV Require Import Gen.EnforcerPrims Gen.CachedRt Gen.Enforcer2Rt Gen.Enforcer2Gen.
From CV Require Import Proofs.BaseP Proofs.RoleGraphP Proofs.C13P Proofs.AdaptersP Proofs.FsaveP Proofs.Enforcer2P.
From CV Require Import Proofs.LinkBaseP Proofs.LinkRmP Proofs.LinkInvP Proofs.LinkEnforceP.
From CV Require Import PinChecks.PcRoleManagerGen PinChecks.PcAdaptersGen PinChecks.PcFsaveGen PinChecks.PcModel2Gen.
From CV Require Import PinChecks.PcLinksGen PinChecks.PcEnforcer2Gen PinChecks.PcInternalGen PinChecks.PcApiGen.

(* ------------------------------------------------------------------ *)
(* the skeletons                                                       *)

Definition api_add_named_policy_skel :=
  ltac:(let t := eval cbv delta [gen_add_named_policy] in gen_add_named_policy in
        let t := eval pattern step_add in t in
        match t with ?f _ => exact f end).
Definition api_add_named_grouping_policy_skel :=
  ltac:(let t := eval cbv delta [gen_add_named_grouping_policy] in gen_add_named_grouping_policy in
        let t := eval pattern step_add in t in
        match t with ?f _ => exact f end).
Definition internal_add_skel :=
  ltac:(let t := eval cbv delta [gen_add_policy_internal gen_add_policy_internal_cc] in gen_add_policy_internal in
        let t := eval pattern ad_add, m_add_policy, emit, emit_clear_cache, build_incremental_role_links in t in
        match t with ?f _ _ _ _ _ => exact f end).
Definition enf_bil_skel :=
  ltac:(let t := eval cbv delta [gen_enf_build_incremental_role_links] in gen_enf_build_incremental_role_links in
        let t := eval pattern LinksGen.gen_model_build_incremental_role_links in t in
        match t with ?f _ => exact f end).
Definition links_incr_skel :=
  ltac:(let t := eval cbv delta [gen_model_build_incremental_role_links gen_ast_build_incremental_role_links]
                 in gen_model_build_incremental_role_links in
        let t := eval pattern rs_rm_add_link, rs_rm_delete_link in t in
        match t with ?f _ _ => exact f end).

Lemma api_add_named_policy_skel_gen : api_add_named_policy_skel step_add = gen_add_named_policy.
Proof. reflexivity. Qed.
Lemma api_add_named_grouping_policy_skel_gen : api_add_named_grouping_policy_skel step_add = gen_add_named_grouping_policy.
Proof. reflexivity. Qed.
Lemma internal_add_skel_gen :
  internal_add_skel ad_add m_add_policy emit emit_clear_cache build_incremental_role_links = gen_add_policy_internal.
Proof. reflexivity. Qed.
Lemma enf_bil_skel_gen :
  enf_bil_skel LinksGen.gen_model_build_incremental_role_links = gen_enf_build_incremental_role_links.
Proof. reflexivity. Qed.
Lemma links_incr_skel_gen :
  links_incr_skel rs_rm_add_link rs_rm_delete_link = gen_model_build_incremental_role_links.
Proof. reflexivity. Qed.

(* ------------------------------------------------------------------ *)
(* representation changes                                              *)

(* the Rust-level enforcer (Gen/Enforcer2Rt.v renf) of a model state: one PolicyChange callback list of the
   recorded length, the role closures and the added functions as registrations *)
Definition renf_of (s : estate) : renf :=
  {| r_model := {| d_model := e_model s; d_mexprs := e_mexprs s |};
     r_adapter := e_adapter s;
     r_fm := map (fun nu => (fst nu, OfUser (snd nu))) (f_ufuns (e_fs s));
     r_eft := tt;
     r_rm := (f_rm (e_fs s), f_rm_max (e_fs s));
     r_enabled := e_enabled s; r_auto_save := e_auto_save s; r_auto_build := e_auto_build s;
     r_auto_notify := e_auto_notify s;
     r_watcher := if e_watcher s then Some (e_wlog s) else None;
     r_events := [(KPolicyChange, repeat CbNotify (e_callbacks s))];
     r_engine := map (fun kh => (fst kh, FnLink (snd kh))) (f_gfuns (e_fs s)) |}.

Lemma eng_links_of : forall gf, eng_links (map (fun kh => (fst kh, FnLink (snd kh))) gf) = gf.
Proof. induction gf as [|[k h] gf IH]; [reflexivity|]. cbn [map eng_links fst snd]. rewrite IH. reflexivity. Qed.
Lemma fm_users_of : forall uf, fm_users (map (fun nu => (fst nu, OfUser (snd nu))) uf) = uf.
Proof. induction uf as [|[n u] uf IH]; [reflexivity|]. cbn [map fm_users fst snd]. rewrite IH. reflexivity. Qed.

(* abs (renf_of s) is s up to the watcher log of an enforcer without a watcher (which nothing reads) *)
Lemma abs_renf_of : forall s,
  abs (renf_of s) = upd_wlog s (if e_watcher s then e_wlog s else []).
Proof.
  intros [md mx ad [rm rmx gf uf] en sv bl nt cb wt wl].
  unfold abs, renf_of, abs_fs, upd_wlog.
  cbn [r_model r_adapter r_fm r_eft r_rm r_enabled r_auto_save r_auto_build r_auto_notify r_watcher r_events r_engine
       d_model d_mexprs e_model e_mexprs e_adapter e_fs e_enabled e_auto_save e_auto_build e_auto_notify e_callbacks
       e_watcher e_wlog f_rm f_rm_max f_gfuns f_ufuns fst snd].
  rewrite eng_links_of, fm_users_of. unfold hm_get_or. cbn [hm_get evkind_eqb]. rewrite repeat_length.
  destruct wt; reflexivity.
Qed.

(* MemoryAdapter: (policy, is_filtered) <-> AMemory; FileAdapter / StringAdapter: the flag <-> AFile / AString *)
Definition mem_in (a : adapter) (x : option ((list rule * bool) * bool)) : adapter * outcome bool :=
  match x with Some ((l, f), b) => (AMemory l f, Ok b) | None => (a, Panic) end.
Definition inc_in (mk : bool -> adapter) (a : adapter) (x : option ((text * bool) * res casbin_error bool))
  : adapter * outcome bool :=
  match x with Some ((_, f), r) => (mk f, out_of r) | None => (a, Panic) end.

(* ------------------------------------------------------------------ *)
Section Add.
  Variable ord : list text -> list text.
  Hypothesis Hord : ord_ok ord.
  (* NullAdapter::add_policy (src/adapter/null_adapter.rs: not translated) *)
  Variable null_add : text -> text -> rule -> outcome bool.
  Hypothesis ML_null_adapter : forall sec pt r, null_add sec pt r = Ok true.

  (* ---- Adapter::add_policy ---- *)
  (* dynamic dispatch on the adapter behind `Box<dyn Adapter>`; the path of a FileAdapter and the text of a
     StringAdapter are not read by add_policy ([]).  A scripted adapter inside a scripted adapter is not a
     state of the harness; the model's answer for it is kept. *)
  Definition lk_ad0_add (a : adapter) (sec pt : text) (r : rule) : adapter * outcome bool :=
    match a with
    | AMemory l f => mem_in a (gen_mem_add_policy l f sec pt r)
    | AFile l f => inc_in (AFile l) a (gen_file_add_policy [] f sec pt r)
    | AString l f => inc_in (AString l) a (gen_str_add_policy [] f sec pt r)
    | ANull => (a, null_add sec pt r)
    | AScripted _ _ => (a, Ok true)
    end.
  (* the fault-injecting wrapper of the test harness (a user's Adapter): Engine.scripted *)
  Definition lk_ad_add (a : adapter) (sec pt : text) (r : rule) : adapter * outcome bool :=
    scripted a (fun x => lk_ad0_add x sec pt r).

  Theorem link_ad0_add : forall a sec pt r, lk_ad0_add a sec pt r = ad0_add a sec pt r.
  Proof.
    intros [|l f|l f|l f|i sc] sec pt r; cbn [lk_ad0_add].
    - rewrite ML_null_adapter. reflexivity.
    - pose proof (gen_mem_add_policy_ok l f sec pt r) as H. unfold ad0_add in *.
      destruct (rmem (mem_line sec pt r) l); cbn [mem_out] in H; injection H as ->; reflexivity.
    - reflexivity.
    - reflexivity.
    - reflexivity.
  Qed.

  Lemma scripted_ext : forall a f g, (forall x, f x = g x) -> scripted a f = scripted a g.
  Proof.
    intros a f g H. destruct a as [|l fl|l fl|l fl|i sc]; cbn [scripted]; try apply H.
    destruct sc as [|[| | | |] sc]; try rewrite H; reflexivity.
  Qed.

  Theorem link_ad_add : forall a sec pt r, lk_ad_add a sec pt r = ad_add a sec pt r.
  Proof. intros a sec pt r. unfold lk_ad_add, ad_add. apply scripted_ext. intros x. apply link_ad0_add. Qed.

  (* ---- Model::add_policy ---- *)
  Definition lk_m_add_policy (md : model) (sec pt : text) (r : rule) : model * bool :=
    match gen_m_add_policy md sec pt r with Some x => x | None => (md, false) end.
  Theorem link_m_add_policy : forall md sec pt r, lk_m_add_policy md sec pt r = m_add_policy md sec pt r.
  Proof. intros md sec pt r. unfold lk_m_add_policy. rewrite gen_m_add_policy_ok. reflexivity. Qed.

  (* ---- emit(Event::PolicyChange, d): only the watcher can change ---- *)
  Definition lk_emit (s : estate) (ev : event) : estate :=
    match r_watcher (gen_enf_emit (renf_of s) KPolicyChange ev) with
    | Some l => upd_wlog s l
    | None => s
    end.
  Theorem link_emit : forall s ev, lk_emit s ev = emit s ev.
  Proof.
    intros s ev. unfold lk_emit.
    pose proof (gen_enf_emit_ok (renf_of s) ev) as H. rewrite abs_renf_of in H.
    set (x' := gen_enf_emit (renf_of s) KPolicyChange ev) in *.
    pose proof (f_equal e_watcher H) as Hw. pose proof (f_equal e_wlog H) as Hl.
    unfold emit in *. cbn [abs e_watcher e_wlog] in Hw, Hl.
    destruct s as [md mx ad fs en sv bl nt cb wt wl].
    cbn [upd_wlog e_watcher e_wlog e_callbacks] in *.
    destruct wt; cbn [upd_wlog e_watcher e_wlog e_callbacks] in *.
    - destruct (r_watcher x') as [l|]; [|discriminate Hw]. subst l. reflexivity.
    - destruct (r_watcher x') as [l|]; [discriminate Hw|reflexivity].
  Qed.

  (* ---- emit(Event::ClearCache, EventData::ClearCache) on the plain Enforcer: no callback is registered for it
          (the event data is not looked at: EvClear stands for it) ---- *)
  Definition lk_emit_clear_cache (s : estate) : estate :=
    match r_watcher (gen_enf_emit (renf_of s) KClearCache EvClear) with
    | Some l => upd_wlog s l
    | None => s
    end.
  Theorem link_emit_clear_cache_fn : forall s, lk_emit_clear_cache s = emit_clear_cache s.
  Proof.
    intros s. unfold lk_emit_clear_cache, emit_clear_cache.
    destruct (gen_enf_emit_clear_cache (renf_of s) EvClear eq_refl) as [E _]. rewrite E.
    destruct s as [md mx ad fs en sv bl nt cb [|] wl]; reflexivity.
  Qed.

  (* ---- rm.write().add_link / delete_link through the translated DefaultRoleManager ---- *)
  Definition lk_rs_add_link (m : rmgr) (a b : text) (d : option text) : rmgr := lk_rm_add_link m a b d.
  (* Result<()> by error class: RbacError::NotFound *)
  Definition lk_rs_delete_link (m : rmgr) (a b : text) (d : option text) : rmgr * lerr :=
    match lk_rm_delete_link ord m a b d with
    | (m', true) => (m', LOk)
    | (m', false) => (m', LErr ERbac)
    end.

  Lemma link_rs_add_link : forall m a b d, wf m -> lk_rs_add_link m a b d = rs_rm_add_link m a b d.
  Proof. intros m a b d Hwf. apply link_rm_add_link, Hwf. Qed.
  Lemma link_rs_delete_link : forall m a b d, wf m -> lk_rs_delete_link m a b d = rs_rm_delete_link m a b d.
  Proof.
    intros m a b d Hwf. unfold lk_rs_delete_link, rs_rm_delete_link.
    rewrite (link_rm_delete_link ord Hord) by exact Hwf. reflexivity.
  Qed.
  Lemma wf_rs_add : forall m a b d, wf m -> wf (rs_rm_add_link m a b d).
  Proof. intros m a b d H. apply wf_add_link, H. Qed.
  Lemma wf_rs_del : forall m a b d, wf m -> wf (fst (rs_rm_delete_link m a b d)).
  Proof.
    intros m a b d H. unfold rs_rm_delete_link. pose proof (wf_delete_link m a b d H) as H'.
    destruct (delete_link m a b d) as [m' [|]]; exact H'.
  Qed.

  (* ---- DefaultModel::build_incremental_role_links (with Assertion::build_incremental_role_links) ---- *)
  Definition lk_links_incr := links_incr_skel lk_rs_add_link lk_rs_delete_link.

  Theorem link_links_incr : forall h d md m, wf m ->
    lk_links_incr h d md m = gen_model_build_incremental_role_links h d md m.
  Proof.
    intros h d md m Hwf. rewrite <- links_incr_skel_gen. unfold lk_links_incr, links_incr_skel. cbv beta.
    repeat (first
      [ reflexivity
      | match goal with
        | |- context [rs_for ?b1 ?l ?s] =>
          match goal with
          | |- context [rs_for ?b2 l s] =>
            lazymatch b1 with b2 => fail | _ => idtac end;
            let H := fresh "Hl" in
            assert (H : rs_for b1 l s = rs_for b2 l s);
            [ apply (rs_for_inv_ext wf b1 b2);
              [ intros x st Hst; cbv beta;
                repeat (first [ reflexivity
                              | rewrite link_rs_add_link by assumption
                              | rewrite link_rs_delete_link by assumption
                              | destr_inner ])
              | intros x st st' Hst; cbv beta;
                repeat destr_inner; intros Heq; try discriminate Heq; injection Heq as <-;
                first [ assumption
                      | apply wf_rs_add; assumption
                      | match goal with
                        | E : rs_rm_delete_link _ _ _ _ = (?r, _) |- wf ?r =>
                            change r with (fst (r, LOk)); rewrite <- E; apply wf_rs_del; assumption
                        end ]
              | assumption ]
            | rewrite H; clear H ]
          end
        end
      | destr_inner ]).
  Qed.

  (* ---- Enforcer::build_incremental_role_links: the model store and the manager are what it writes ---- *)
  Definition lk_bil (s : estate) (d : event) : estate * lerr :=
    let r := enf_bil_skel lk_links_incr (renf_of s) d in
    (upd_fs (upd_model s (d_model (r_model (fst r)))) (set_rm (e_fs s) (fst (r_rm (fst r)))),
     match snd r with Ok _ => LOk | Err e => LErr e | Panic => LOk end).

  Theorem link_bil : forall s d, rm_wf s -> lk_bil s d = build_incremental_role_links s d.
  Proof.
    intros s d Hwf. unfold lk_bil, enf_bil_skel. cbv beta.
    change (d_model (r_model (renf_of s))) with (e_model s).
    change (fst (r_rm (renf_of s))) with (f_rm (e_fs s)).
    unfold rm_handle_cur. rewrite (link_links_incr HCur d (e_model s) (f_rm (e_fs s)) Hwf).
    pose proof (gen_model_build_incremental_role_links_model s d) as H.
    destruct (gen_model_build_incremental_role_links HCur d (e_model s) (f_rm (e_fs s))) as [[[md' m'] e]|];
      [|contradiction].
    rewrite H. destruct e as [|c]; reflexivity.
  Qed.

  (* ---- InternalApi::add_policy_internal ---- *)
  Definition lk_add_policy_internal := internal_add_skel lk_ad_add lk_m_add_policy lk_emit lk_emit_clear_cache lk_bil.

  Lemma e_fs_emit : forall s ev, e_fs (emit s ev) = e_fs s.
  Proof. intros s ev. unfold emit. destruct (e_watcher s); reflexivity. Qed.

  Theorem link_add_policy_internal : forall s sec pt r, rm_wf s ->
    lk_add_policy_internal s sec pt r = gen_add_policy_internal s sec pt r.
  Proof.
    intros s sec pt r Hwf. rewrite <- internal_add_skel_gen. unfold lk_add_policy_internal, internal_add_skel.
    cbv beta.
    repeat (first
      [ reflexivity
      | rewrite link_ad_add
      | rewrite link_m_add_policy
      | rewrite link_emit
      | rewrite link_emit_clear_cache_fn
      | rewrite link_bil by (unfold rm_wf, emit_clear_cache; rewrite ?e_fs_emit; exact Hwf)
      | progress cbv beta iota zeta
      | destr_inner ]).
  Qed.

  Corollary lk_add_policy_internal_step : forall s sec pt r, rm_wf s ->
    lk_add_policy_internal s sec pt r = step_add s sec pt r.
  Proof. intros s sec pt r Hwf. rewrite (link_add_policy_internal s sec pt r Hwf). apply gen_add_policy_internal_ok. Qed.

  (* ---- MgmtApi::add_named_policy / add_named_grouping_policy ---- *)
  Definition lk_add_named_policy := api_add_named_policy_skel lk_add_policy_internal.
  Definition lk_add_named_grouping_policy := api_add_named_grouping_policy_skel lk_add_policy_internal.

  Theorem link_add_named_policy : forall s pt r, rm_wf s ->
    lk_add_named_policy s pt r = gen_add_named_policy s pt r.
  Proof.
    intros s pt r Hwf. unfold lk_add_named_policy, api_add_named_policy_skel, gen_add_named_policy. cbv beta.
    apply lk_add_policy_internal_step, Hwf.
  Qed.
  Theorem link_add_named_grouping_policy : forall s pt r, rm_wf s ->
    lk_add_named_grouping_policy s pt r = gen_add_named_grouping_policy s pt r.
  Proof.
    intros s pt r Hwf.
    unfold lk_add_named_grouping_policy, api_add_named_grouping_policy_skel, gen_add_named_grouping_policy. cbv beta.
    rewrite (lk_add_policy_internal_step _ _ _ _ Hwf). reflexivity.
  Qed.

  (* section "p" or "g" *)
  Definition lk_add (grouping : bool) (s : estate) (pt : text) (r : rule) : estate * outcome bool :=
    if grouping then lk_add_named_grouping_policy s pt r else lk_add_named_policy s pt r.

  Theorem lk_add_step : forall g s pt r, rm_wf s ->
    lk_add g s pt r = step s (OAdd (if g then s_g else s_p) pt r).
  Proof.
    intros [|] s pt r Hwf; cbn [lk_add].
    - rewrite (link_add_named_grouping_policy s pt r Hwf). apply gen_add_named_grouping_policy_ok.
    - rewrite (link_add_named_policy s pt r Hwf). apply gen_add_named_policy_ok.
  Qed.
End Add.
