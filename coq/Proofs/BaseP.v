(* Generic facts about Model/Base.v: boolean equalities, memb, assoc lists. *)
From CV Require Import Model.Base.
From CV Require Import Proofs.ListAux.
From Coq Require Import Lia.

(* ---- teqb ---- *)
Lemma teqb_eq : forall a b, teqb a b = true <-> a = b.
Proof.
  induction a as [|x a IH]; intros [|y b]; cbn [teqb]; split; intros H;
    try reflexivity; try discriminate.
  - apply andb_true_iff in H. destruct H as [Hx Hr].
    apply Ascii.eqb_eq in Hx. apply IH in Hr. subst. reflexivity.
  - inversion H; subst. apply andb_true_iff. split.
    + apply Ascii.eqb_refl.
    + apply IH. reflexivity.
Qed.

Lemma teqb_refl : forall a, teqb a a = true.
Proof. intros a. apply teqb_eq. reflexivity. Qed.

Lemma teqb_neq : forall a b, teqb a b = false <-> a <> b.
Proof.
  intros a b. split.
  - intros H E. apply teqb_eq in E. rewrite E in H. discriminate.
  - intros H. destruct (teqb a b) eqn:E; [|reflexivity].
    apply teqb_eq in E. contradiction.
Qed.

Lemma teqb_sym : forall a b, teqb a b = teqb b a.
Proof.
  intros a b. destruct (teqb a b) eqn:E; symmetry.
  - apply teqb_eq in E. subst. apply teqb_refl.
  - apply teqb_neq. apply teqb_neq in E. auto.
Qed.

Lemma teqb_spec : forall a b, reflect (a = b) (teqb a b).
Proof.
  intros a b. destruct (teqb a b) eqn:E; constructor.
  - apply teqb_eq, E.
  - apply teqb_neq, E.
Qed.

Lemma text_eq_dec : forall a b : text, {a = b} + {a <> b}.
Proof.
  intros a b. destruct (teqb a b) eqn:E.
  - left. apply teqb_eq, E.
  - right. apply teqb_neq, E.
Qed.

(* ---- list_eqb / reqb ---- *)
Lemma list_eqb_eq : forall {A} (eqb : A -> A -> bool),
  (forall x y, eqb x y = true <-> x = y) ->
  forall a b, list_eqb eqb a b = true <-> a = b.
Proof.
  intros A eqb Heq.
  induction a as [|x a IH]; intros [|y b]; cbn [list_eqb]; split; intros H;
    try reflexivity; try discriminate.
  - apply andb_true_iff in H. destruct H as [Hx Hr].
    apply Heq in Hx. apply IH in Hr. subst. reflexivity.
  - inversion H; subst. apply andb_true_iff. split.
    + apply Heq. reflexivity.
    + apply IH. reflexivity.
Qed.

Lemma reqb_eq : forall a b, reqb a b = true <-> a = b.
Proof. apply list_eqb_eq. exact teqb_eq. Qed.

Lemma reqb_refl : forall a, reqb a a = true.
Proof. intros a. apply reqb_eq. reflexivity. Qed.

Lemma reqb_neq : forall a b, reqb a b = false <-> a <> b.
Proof.
  intros a b. split.
  - intros H E. apply reqb_eq in E. rewrite E in H. discriminate.
  - intros H. destruct (reqb a b) eqn:E; [|reflexivity].
    apply reqb_eq in E. contradiction.
Qed.

(* ---- memb ---- *)
Lemma memb_In_gen : forall {A} (eqb : A -> A -> bool),
  (forall x y, eqb x y = true <-> x = y) ->
  forall x l, memb eqb x l = true <-> In x l.
Proof.
  intros A eqb Heq x l. unfold memb. rewrite existsb_exists. split.
  - intros [y [Hin Hy]]. apply Heq in Hy. subst. exact Hin.
  - intros Hin. exists x. split; [exact Hin|]. apply Heq. reflexivity.
Qed.

Lemma memb_In : forall x l, memb teqb x l = true <-> In x l.
Proof. apply memb_In_gen. exact teqb_eq. Qed.

Lemma memb_not_In : forall x l, memb teqb x l = false <-> ~ In x l.
Proof.
  intros x l. split.
  - intros H Hin. apply memb_In in Hin. rewrite Hin in H. discriminate.
  - intros H. destruct (memb teqb x l) eqn:E; [|reflexivity].
    apply memb_In in E. contradiction.
Qed.

Lemma memb_reqb_In : forall x l, memb reqb x l = true <-> In x l.
Proof. apply memb_In_gen. exact reqb_eq. Qed.

(* ---- assoc / assoc_set / assoc_remove ---- *)
Lemma assoc_set_same : forall {A} k (v : A) l, assoc k (assoc_set k v l) = Some v.
Proof.
  intros A k v l. induction l as [|[k' v'] l IH]; cbn [assoc_set assoc].
  - rewrite teqb_refl. reflexivity.
  - destruct (teqb k k') eqn:E; cbn [assoc]; rewrite E; [reflexivity|exact IH].
Qed.

Lemma assoc_set_other : forall {A} k k' (v : A) l,
  k <> k' -> assoc k' (assoc_set k v l) = assoc k' l.
Proof.
  intros A k k' v l Hne. induction l as [|[k2 v2] l IH]; cbn [assoc_set assoc].
  - assert (E : teqb k' k = false) by (apply teqb_neq; auto).
    rewrite E. reflexivity.
  - destruct (teqb k k2) eqn:E; cbn [assoc].
    + apply teqb_eq in E. subst k2.
      assert (E : teqb k' k = false) by (apply teqb_neq; auto).
      rewrite E. reflexivity.
    + rewrite IH. reflexivity.
Qed.

Lemma assoc_remove_same : forall {A} k (l : list (text * A)), assoc k (assoc_remove k l) = None.
Proof.
  intros A k l. induction l as [|[k' v'] l IH]; cbn [assoc_remove assoc]; [reflexivity|].
  destruct (teqb k k') eqn:E; [exact IH|]. cbn [assoc]. rewrite E. exact IH.
Qed.

Lemma assoc_remove_other : forall {A} k k' (l : list (text * A)),
  k <> k' -> assoc k' (assoc_remove k l) = assoc k' l.
Proof.
  intros A k k' l Hne. induction l as [|[k2 v2] l IH]; cbn [assoc_remove assoc]; [reflexivity|].
  destruct (teqb k k2) eqn:E; cbn [assoc].
  - apply teqb_eq in E. subst k2.
    assert (E : teqb k' k = false) by (apply teqb_neq; auto).
    rewrite E. exact IH.
  - rewrite IH. reflexivity.
Qed.

Lemma assoc_In : forall {A} k (v : A) l, assoc k l = Some v -> In (k, v) l.
Proof.
  intros A k v l. induction l as [|[k' v'] l IH]; cbn [assoc]; intros H; [discriminate|].
  destruct (teqb k k') eqn:E.
  - apply teqb_eq in E. inversion H; subst. left. reflexivity.
  - right. apply IH, H.
Qed.

Lemma assoc_None : forall {A} k (l : list (text * A)), assoc k l = None <-> ~ In k (map fst l).
Proof.
  intros A k l. induction l as [|[k' v'] l IH]; cbn [assoc map fst In].
  - split; auto.
  - destruct (teqb k k') eqn:E.
    + apply teqb_eq in E. subst. split; [discriminate|]. intros H. exfalso. apply H. left. reflexivity.
    + apply teqb_neq in E. rewrite IH. split.
      * intros H [H1|H1]; [apply E; auto | contradiction].
      * intros H H1. apply H. right. exact H1.
Qed.

Lemma In_assoc : forall {A} k (v : A) l, NoDup (map fst l) -> In (k, v) l -> assoc k l = Some v.
Proof.
  intros A k v l. induction l as [|[k' v'] l IH]; cbn [assoc map fst]; intros Hnd Hin.
  - destruct Hin.
  - inversion Hnd as [|x xs Hnin Hnd']; subst.
    destruct Hin as [Heq|Hin].
    + inversion Heq; subst. rewrite teqb_refl. reflexivity.
    + destruct (teqb k k') eqn:E.
      * apply teqb_eq in E. subst. exfalso. apply Hnin.
        apply (in_map fst) in Hin. exact Hin.
      * apply IH; assumption.
Qed.

Lemma assoc_set_keys : forall {A} k (v : A) l,
  map fst (assoc_set k v l) = if memb teqb k (map fst l) then map fst l else map fst l ++ [k].
Proof.
  intros A k v l. induction l as [|[k' v'] l IH]; cbn [assoc_set map fst memb existsb app].
  - reflexivity.
  - destruct (teqb k k') eqn:E; cbn [map fst orb].
    + reflexivity.
    + rewrite IH. unfold memb. destruct (existsb (teqb k) (map fst l)); reflexivity.
Qed.

Lemma assoc_set_NoDup : forall {A} k (v : A) l,
  NoDup (map fst l) -> NoDup (map fst (assoc_set k v l)).
Proof.
  intros A k v l Hnd. rewrite assoc_set_keys.
  destruct (memb teqb k (map fst l)) eqn:E; [exact Hnd|].
  apply memb_not_In in E.
  apply NoDup_snoc; assumption.
Qed.

Lemma assoc_set_In : forall {A} k (v : A) l k' v',
  In (k', v') (assoc_set k v l) -> (k' = k /\ v' = v) \/ In (k', v') l.
Proof.
  intros A k v l k' v'. induction l as [|[k2 v2] l IH]; cbn [assoc_set].
  - intros [H|[]]. inversion H; subst. left. split; reflexivity.
  - destruct (teqb k k2) eqn:E.
    + apply teqb_eq in E. subst k2. intros [H|H].
      * inversion H; subst. left. split; reflexivity.
      * right. right. exact H.
    + intros [H|H].
      * right. left. exact H.
      * destruct (IH H) as [H1|H1]; [left; exact H1|right; right; exact H1].
Qed.

(* two searches with pointwise equal tests / over lists with the same members *)
Lemma existsb_ext_pt : forall {A} (f g : A -> bool) l, (forall x, f x = g x) -> existsb f l = existsb g l.
Proof.
  intros A f g l H. induction l as [|x l IH]; cbn [existsb]; [reflexivity|]. rewrite H, IH. reflexivity.
Qed.
Lemma existsb_same_members : forall {A} (p q : A -> bool) l1 l2,
  (forall x, In x l1 <-> In x l2) -> (forall x, p x = q x) -> existsb p l1 = existsb q l2.
Proof.
  intros A p q l1 l2 Hl Hp. apply Bool.eq_iff_eq_true. rewrite !existsb_exists. split.
  - intros [x [Hx E]]. exists x. split; [apply Hl, Hx|rewrite <- Hp; exact E].
  - intros [x [Hx E]]. exists x. split; [apply Hl, Hx|rewrite Hp; exact E].
Qed.
