(* Part 14 of rs2coq: what the pieces of the regex matcher (Gen/Regex.v) and of the
   runtime (Gen/RegexRt.v, Gen/RustVec.v) are in the VOCABULARY OF THE HAND MODELS
   (Model/Csv.v span_ws / span_not / column_of, Model/Expr.v tok_ahead / is_word,
   Proofs/EscEvalM.v): independent of the generated file; used by
   PinChecks/PcRegexGen.v. *)
From CV Require Import Model.Base Model.Csv Model.Expr.
From CV Require Import Gen.RustStr Gen.RustVec Gen.RustIter Gen.Regex Gen.RegexRt.
From CV Require Import Proofs.BaseP Proofs.CsvP Proofs.EscP Proofs.RegexP Proofs.EscEvalM.
From Coq Require Import Lia.

Lemma span_is_ws : forall s, span is_ws s = span_ws s.
Proof. induction s as [|x s IH]; [reflexivity|]. cbn [span span_ws]. rewrite IH. reflexivity. Qed.
Definition nota (x c : ascii) : bool := negb (Ascii.eqb c x).
Lemma span_nota : forall x s, span (nota x) s = span_not x s.
Proof.
  intros x. induction s as [|c s IH]; [reflexivity|]. cbn [span span_not]. unfold nota at 1.
  destruct (Ascii.eqb c x); cbn [negb]; [reflexivity|]. rewrite IH. reflexivity.
Qed.

Lemma span_not_ws : forall s,
  span_not comma s = (fst (span_ws s) ++ fst (span_not comma (snd (span_ws s))), snd (span_not comma (snd (span_ws s)))).
Proof.
  induction s as [|x s IH]; [reflexivity|]. cbn [span_ws]. destruct (is_ws x) eqn:E.
  - cbn [span_not]. replace (Ascii.eqb x comma) with false
      by (symmetry; apply aeqb_false, ws_not_comma, E).
    rewrite IH. destruct (span_ws s) as [w r]. cbn [fst snd app]. reflexivity.
  - cbn [fst snd app]. destruct (span_not comma (x :: s)); reflexivity.
Qed.



(* blanks, then the comma-free run (second alternative of ESC_C), followed by something that accepts it *)
Lemma ws_then_notcomma : forall n1 i1 n2 i2,
  (forall x, class_mem n1 i1 x = is_ws x) -> (forall x, class_mem n2 i2 x = nota comma x) ->
  forall k b s c r,
  k (rev (fst (span_not comma s)) ++ b) (snd (span_not comma s)) c = Some r ->
  mt (RCat (RStar true (RSet n1 i1)) (RStar true (RSet n2 i2))) b s c k = Some r.
Proof.
  intros n1 i1 n2 i2 H1 H2 k b s c r Hk. rewrite mt_cat.
  apply (mt_star_class_ok _ _ is_ws H1). apply (mt_star_class_ok _ _ (nota comma) H2).
  rewrite span_is_ws, span_nota. rewrite span_not_ws in Hk. cbn [fst snd] in Hk.
  rewrite rev_app_distr, <- app_assoc in Hk. exact Hk.
Qed.

(* after the opening quote (first alternative of ESC_C): the quote-free run, an optional quote, blanks *)
Lemma after_quote : forall n1 i1 q n2 i2,
  (forall x, class_mem n1 i1 x = nota dquote x) -> q = dquote -> (forall x, class_mem n2 i2 x = is_ws x) ->
  forall k b s c r,
  (match snd (span_not dquote s) with
   | x :: r3 => k (rev (fst (span_ws r3)) ++ x :: rev (fst (span_not dquote s)) ++ b) (snd (span_ws r3)) c
   | [] => k (rev (fst (span_not dquote s)) ++ b) [] c
   end) = Some r ->
  mt (RCat (RStar true (RSet n1 i1)) (RCat (ROpt true (RChar q)) (RStar true (RSet n2 i2)))) b s c k = Some r.
Proof.
  intros n1 i1 q n2 i2 H1 -> H2 k b s c r Hk. rewrite mt_cat.
  apply (mt_star_class_ok _ _ (nota dquote) H1). rewrite span_nota.
  destruct (span_not dquote s) as [body r2] eqn:E. cbn [fst snd] in *.
  rewrite mt_cat, mt_opt_greedy, mt_char.
  destruct r2 as [|x r3].
  - apply (mt_star_class_ok _ _ is_ws H2). cbn [span fst snd rev app]. exact Hk.
  - assert (Hx : x = dquote).
    { pose proof (span_rest (nota dquote) s x r3) as Hr. rewrite span_nota, E in Hr.
      specialize (Hr eq_refl). unfold nota in Hr. apply negb_false_iff in Hr. apply aeqb_true, Hr. }
    subst x. rewrite Ascii.eqb_refl.
    rewrite (mt_star_class_ok _ _ is_ws H2 _ _ _ _ r); [reflexivity|].
    rewrite span_is_ws. exact Hk.
Qed.

Ltac rev_norm := repeat first [ rewrite rev_app_distr | rewrite <- app_assoc | progress cbn [rev app] ].

(* a loop that pushes one value per item is a map *)
Lemma rs_for_push_map : forall {A B R} (body : A -> list B -> flow (list B) R) (f : A -> B),
  (forall x acc, body x acc = LNext (rs_push acc (f x))) ->
  forall l acc, rs_for body l acc = Done (acc ++ map f l).
Proof.
  intros A B R body f Hb l. unfold rs_for.
  assert (H : forall acc, fold_left (ls_step body) l
            (Some {| ls_vars := acc; ls_stopped := false; ls_returned := None |}) =
          Some {| ls_vars := acc ++ map f l; ls_stopped := false; ls_returned := @None R |}).
  { induction l as [|x l IH]; intros acc; cbn [fold_left map].
    - rewrite app_nil_r. reflexivity.
    - unfold ls_step at 2. cbn [ls_stopped ls_returned ls_vars]. rewrite Hb. rewrite IH.
      unfold rs_push. rewrite <- app_assoc. reflexivity. }
  intros acc. rewrite H. reflexivity.
Qed.

(* the quote stripping of a trimmed column *)
Definition unq (t : text) : text :=
  match t with
  | c :: r =>
    if Ascii.eqb c dquote then
      match rev r with
      | d :: m => if Ascii.eqb d dquote then rev m else t
      | [] => t
      end
    else t
  | [] => []
  end.
Lemma column_of_unq : forall sp, column_of sp = unq (rs_trim sp).
Proof. reflexivity. Qed.

Lemma unq_spec : forall t,
  unq t = if Nat.leb 2 (rs_len t) && rs_starts_with_char t dquote && rs_ends_with_char t dquote
          then firstn (length t - 1 - 1) (skipn 1 t) else t.
Proof.
  intros [|c r]; [reflexivity|]. unfold unq, rs_len, rs_starts_with_char, rs_ends_with_char.
  cbn [length rev]. destruct (Ascii.eqb c dquote) eqn:Ec; [|rewrite andb_false_r; reflexivity].
  rewrite andb_true_r.
  destruct (rev r) as [|d m] eqn:Er.
  - apply (f_equal (@rev ascii)) in Er. rewrite rev_involutive in Er. subst r. reflexivity.
  - apply (f_equal (@rev ascii)) in Er. rewrite rev_involutive in Er. subst r.
    cbn [rev app]. rewrite app_length. cbn [length]. replace (Nat.leb 2 (S (length (rev m) + 1))) with true
      by (symmetry; apply Nat.leb_le; lia).
    cbn [andb].
    destruct (Ascii.eqb d dquote); [|reflexivity].
    cbn [skipn]. replace (S (length (rev m) + 1) - 1 - 1) with (length (rev m)) by lia.
    rewrite firstn_app, Nat.sub_diag, firstn_all. cbn [firstn]. symmetry. apply app_nil_r.
Qed.
Lemma rs_strip_ok : forall t, Nat.leb 2 (rs_len t) = true ->
  rs_usize_sub (rs_len t) 1 = Some (length t - 1) /\
  rs_slice t 1 (length t - 1) = Some (firstn (length t - 1 - 1) (skipn 1 t)).
Proof.
  intros t H. apply Nat.leb_le in H. unfold rs_len in *. split.
  - unfold rs_usize_sub. replace (Nat.leb 1 (length t)) with true by (symmetry; apply Nat.leb_le; lia). reflexivity.
  - unfold rs_slice. replace (Nat.leb 1 (length t - 1)) with true by (symmetry; apply Nat.leb_le; lia).
    replace (Nat.leb (length t - 1) (length t)) with true by (symmetry; apply Nat.leb_le; lia). reflexivity.
Qed.

Definition is_ascii (c : ascii) : bool := Nat.ltb (nat_of_ascii c) 128.
Lemma word_agree : forall c, is_ascii c = true -> rx_is_word c = is_word c.
Proof. intros c. destruct c as [[] [] [] [] [] [] [] []]; intros H; try reflexivity; discriminate H. Qed.

Lemma mt_wordb : forall b s c k, mt RWordB b s c k = if at_wordb b s then k b s c else None.
Proof. reflexivity. Qed.

Lemma tok_ahead_span : forall s,
  tok_ahead s = match snd (span is_digit s) with x :: _ => Ascii.eqb x dot | [] => false end.
Proof.
  induction s as [|c s IH]; [reflexivity|]. cbn [tok_ahead span].
  destruct (Ascii.eqb c dot) eqn:Ed.
  - apply aeqb_true in Ed. subst c. reflexivity.
  - destruct (is_digit c) eqn:E.
    + rewrite IH. destruct (span is_digit s) as [a r]. reflexivity.
    + cbn [snd]. rewrite Ed. reflexivity.
Qed.

(* a letter followed by digits, then something that cannot start with a digit *)
Lemma letter_digits : forall ch n i, (forall x, class_mem n i x = is_digit x) ->
  forall k, (forall b x s c, is_digit x = true -> k b (x :: s) c = None) ->
  forall b s c,
  mt (RCat (RChar ch) (RStar true (RSet n i))) b s c k =
  match s with
  | x :: s' => if Ascii.eqb x ch
               then k (rev (fst (span is_digit s')) ++ x :: b) (snd (span is_digit s')) c else None
  | [] => None
  end.
Proof.
  intros ch n i Hc k Hk b s c. rewrite mt_cat, mt_char. destruct s as [|x s']; [reflexivity|].
  destruct (Ascii.eqb x ch); [|reflexivity].
  apply (mt_star_class_cut _ _ is_digit Hc k Hk).
Qed.

Lemma strip_word_lit : forall w s, strip_word w s = strip_lit w s.
Proof. reflexivity. Qed.

Lemma has_rparen_span : forall s,
  has_rparen s = match snd (span (nota rparen) s) with _ :: _ => true | [] => false end.
Proof.
  induction s as [|c s IH]; [reflexivity|]. cbn [has_rparen existsb span]. unfold nota at 1.
  destruct (Ascii.eqb c rparen); cbn [negb orb]; [reflexivity|].
  fold (has_rparen s). rewrite IH. destruct (span (nota rparen) s). reflexivity.
Qed.

Lemma esc_eval_in0 : forall arg t, forallb (nota rparen) arg = true ->
  esc_eval_go (EIn 0) (arg ++ rparen :: t) = arg ++ rparen :: rparen :: esc_eval_go (EScan false) t.
Proof.
  induction arg as [|a arg IH]; intros t H; cbn [app esc_eval_go].
  - rewrite Ascii.eqb_refl. reflexivity.
  - cbn [forallb] in H. apply andb_true_iff in H. destruct H as [Ha H]. unfold nota in Ha.
    apply negb_true_iff in Ha. rewrite Ha. rewrite IH by exact H. reflexivity.
Qed.
