(* Part 21 (linking), role manager.  The hand model of the engine (Model/Engine.v) keeps a role manager as
   an `rmgr` (Model/RoleGraph.v: add_link / delete_link / has_link / get_roles / get_users / clear); these
   are the primitives behind Gen/LinksPrims.v (rs_rm_add_link, rs_rm_delete_link), Gen/EnforcerPrims.v
   (rm_clear), Model/Enforce.v (handle_has_link) and Model/Engine.v (handle_get_roles / handle_get_users).
   The TRANSLATED DefaultRoleManager (Gen/RoleManagerGen.v) runs on its own record `rm_state` and is proved
   (PinChecks/PcRoleManagerGen.v) equal to the role manager WITH matching functions (Model/RoleGraphM.v) on
   `rm_abs` under `rm_inv`; Proofs/RoleGraphMA.v embeds the plain manager into that one (`embed`).

   This file closes the triangle:
     rm_conc lvl m     the Rust-level DefaultRoleManager that holds the links of the plain manager m
                       (no matching function; the index maps are the exact ones)
     rm_back g         the plain manager that a Rust-level manager without Match edges stands for
     rm_rep lvl m g    g REPRESENTS m: rm_inv g, rm_abs g = embed m, hierarchy bound lvl
   and proves every translated method equal to the model's function through it, for every well-formed m
   (wf, an invariant of every reachable state: Proofs/C13P.v wf_step / wf_new_enforcer).  `rm_conc` /
   `rm_back` are representation changes only (proved inverse to each other); they contain no call of a
   model function. *)
From CV Require Import Model.Base Model.RoleGraph Model.RoleGraphM.
From CV Require Import Gen.RustStr Gen.RustVec Gen.RustIter Gen.Petgraph Gen.RoleManagerGen.
From CV Require Import Proofs.BaseP Proofs.RoleGraphP Proofs.RoleGraphMA Proofs.RoleGraphMP Proofs.PetgraphP.
From CV Require Import PinChecks.PcRoleManagerGen.
From Coq Require Import Lia Permutation.

(* ------------------------------------------------------------------ *)
(* representation changes                                              *)

Definition idx_of_graph (g : dgraph) : hashmap node_index := map (fun n => (n, n)) (nodes g).

Definition rm_conc (lvl : nat) (m : rmgr) : rm_state :=
  {| rm_all_domains := map embed_kg m;
     rm_all_domains_indices := map (fun kg => (fst kg, idx_of_graph (snd kg))) m;
     rm_max_hierarchy_level := lvl;
     rm_role_matching_fn := None;
     rm_domain_matching_fn := None |}.

Definition unembed_g (g : mgraph) : dgraph :=
  {| nodes := m_nodes g; edges := map (fun e => (e_src e, e_dst e)) (m_edges g) |}.
Definition rm_back (g : rm_state) : rmgr :=
  map (fun kg => (fst kg, unembed_g (snd kg))) (rm_all_domains g).

(* g represents the plain manager m with hierarchy bound lvl *)
Definition rm_rep (lvl : nat) (m : rmgr) (g : rm_state) : Prop :=
  rm_inv g /\ rm_abs g = embed m /\ rm_max_hierarchy_level g = lvl.

Lemma unembed_edges : forall es : list (text * text),
  map (fun e => (e_src e, e_dst e)) (map link_edge es) = es.
Proof.
  induction es as [|[a b] es IH]; [reflexivity|].
  cbn [map]. rewrite IH. reflexivity.
Qed.

Lemma unembed_embed_g : forall g, unembed_g (embed_g g) = g.
Proof.
  intros [ns es]. unfold unembed_g, embed_g. cbn [m_nodes m_edges nodes edges].
  rewrite unembed_edges. reflexivity.
Qed.

Lemma rm_back_embed : forall g m, rm_abs g = embed m -> rm_back g = m.
Proof.
  intros g m H. unfold rm_back.
  assert (E : rm_all_domains g = map embed_kg m).
  { change (rm_all_domains g) with (r_doms (rm_abs g)). rewrite H. reflexivity. }
  rewrite E, map_map. clear H E. induction m as [|[k x] m IH]; [reflexivity|].
  cbn [map]. rewrite IH. unfold embed_kg. cbn [fst snd]. rewrite unembed_embed_g. reflexivity.
Qed.

Lemma rm_abs_conc : forall lvl m, rm_abs (rm_conc lvl m) = embed m.
Proof. reflexivity. Qed.

Lemma rm_back_conc : forall lvl m, rm_back (rm_conc lvl m) = m.
Proof. intros lvl m. apply rm_back_embed, rm_abs_conc. Qed.

Lemma idx_of_graph_ok : forall g, idx_ok (idx_of_graph g) (embed_g g).
Proof.
  intros g n. unfold idx_of_graph, m_has_node, embed_g. cbn [m_nodes].
  induction (nodes g) as [|x l IH]; [reflexivity|].
  cbn [map assoc memb existsb]. change (existsb (teqb n) l) with (memb teqb n l).
  destruct (teqb n x) eqn:E.
  - apply teqb_eq in E. subst x. reflexivity.
  - cbn [orb]. exact IH.
Qed.

Lemma pg_wf_embed : forall g, wf_graph g -> pg_wf (embed_g g).
Proof.
  intros g (Hn & _ & Hc). split; [exact Hn|].
  intros e He. cbn [embed_g m_edges m_nodes] in *. apply in_map_iff in He.
  destruct He as ([a b] & <- & Hin). cbn [link_edge e_src e_dst fst snd].
  destruct (Hc a b Hin) as (Ha & Hb & _). split; assumption.
Qed.

Lemma assoc_idx : forall k (m : rmgr),
  assoc k (map (fun kg => (fst kg, idx_of_graph (snd kg))) m) = option_map idx_of_graph (assoc k m).
Proof.
  intros k m. induction m as [|[k' g] m IH]; cbn [map fst snd assoc option_map]; [reflexivity|].
  destruct (teqb k k'); [reflexivity|exact IH].
Qed.

Lemma rm_inv_conc : forall lvl m, wf m -> rm_inv (rm_conc lvl m).
Proof.
  intros lvl m [_ Hw] dk. cbn [rm_conc rm_all_domains rm_all_domains_indices].
  rewrite assoc_embed, assoc_idx. destruct (assoc dk m) as [g|] eqn:E; cbn [option_map]; [|exact I].
  apply assoc_In in E. split; [apply pg_wf_embed, (Hw _ _ E)|apply idx_of_graph_ok].
Qed.

Theorem rm_rep_conc : forall lvl m, wf m -> rm_rep lvl m (rm_conc lvl m).
Proof. intros lvl m Hwf. split; [apply rm_inv_conc, Hwf|]. split; reflexivity. Qed.

Lemma rm_rep_back : forall lvl m g, rm_rep lvl m g -> rm_back g = m.
Proof. intros lvl m g (_ & A & _). apply rm_back_embed, A. Qed.

(* DefaultRoleManager::new(lvl) represents the empty manager *)
Theorem rm_rep_new : forall lvl, rm_rep lvl [] (gen_new lvl).
Proof.
  intros lvl. destruct (gen_new_ok lvl) as (A & I & L). split; [exact I|]. split; [|exact L].
  rewrite A. reflexivity.
Qed.

(* enough iterations of the `while let` of has_link for every graph of the manager *)
Definition rm_fuel_ok (fuel : nat) (m : rmgr) : Prop :=
  forall dk g, assoc dk m = Some g -> length (nodes g) < fuel.

Lemma fuel_ok_rep : forall fuel lvl m g, rm_rep lvl m g -> rm_fuel_ok fuel m -> fuel_ok fuel g.
Proof.
  intros fuel lvl m g (_ & A & _) Hf dk mg Hdk.
  assert (E : rm_all_domains g = map embed_kg m).
  { change (rm_all_domains g) with (r_doms (rm_abs g)). rewrite A. reflexivity. }
  rewrite E, assoc_embed in Hdk. destruct (assoc dk m) as [x|] eqn:Ex; [|discriminate].
  injection Hdk as <-. cbn [embed_g m_nodes]. apply (Hf dk x Ex).
Qed.

Lemma rm_fuel_exists : forall m, exists F, forall fuel, F <= fuel -> rm_fuel_ok fuel m.
Proof.
  induction m as [|[k g] m (F & HF)].
  - exists 0. intros fuel _ dk g H. discriminate.
  - exists (S (length (nodes g)) + F). intros fuel Hf dk g' H. cbn [assoc] in H.
    destruct (teqb dk k).
    + injection H as <-. lia.
    + apply (HF fuel ltac:(lia) dk g' H).
Qed.

(* ------------------------------------------------------------------ *)
(* the translated methods on a represented manager                     *)

Section Methods.
  Variable ord : list text -> list text.
  Hypothesis Hord : ord_ok ord.

  (* add_link *)
  Theorem link_rm_add_link_rep : forall lvl m g a b d, wf m -> rm_rep lvl m g ->
    exists g', gen_add_link g a b d = Some g' /\ rm_rep lvl (add_link m a b d) g'.
  Proof.
    intros lvl m g a b d Hwf (I & A & L).
    destruct (gen_add_link_ok g a b d I) as (g' & E & A' & I' & L').
    exists g'. split; [exact E|]. split; [exact I'|]. split; [|congruence].
    rewrite A', A. apply m_add_link_embed.
  Qed.

  (* delete_link: the state and the success flag (Err = RbacError::NotFound) *)
  Theorem link_rm_delete_link_rep : forall lvl m g a b d, wf m -> rm_rep lvl m g ->
    exists g' r, gen_delete_link ord g a b d = Some (g', r) /\
                 rm_rep lvl (fst (delete_link m a b d)) g' /\ rs_is_ok r = snd (delete_link m a b d).
  Proof.
    intros lvl m g a b d Hwf (I & A & L).
    destruct (gen_delete_link_ok ord g a b d Hord I) as (g' & r & E & A' & R & I' & L').
    exists g', r. split; [exact E|]. rewrite A, (m_delete_link_embed m a b d Hwf) in A', R.
    cbn [fst snd] in A', R. split; [|exact R]. split; [exact I'|]. split; [exact A'|congruence].
  Qed.

  (* clear *)
  Theorem link_rm_clear_rep : forall lvl m g, rm_rep lvl m g ->
    exists g', gen_clear g = Some g' /\ rm_rep lvl [] g'.
  Proof.
    intros lvl m g (I & A & L). destruct (gen_clear_ok g) as (g' & E & A' & I' & L').
    exists g'. split; [exact E|]. split; [exact I'|]. split; [|congruence].
    rewrite A', A. reflexivity.
  Qed.

  (* has_link *)
  Theorem link_rm_has_link_rep : forall fuel lvl m g a b d, rm_rep lvl m g -> rm_fuel_ok fuel m ->
    gen_has_link ord fuel g a b d = Some (has_link lvl m a b d).
  Proof.
    intros fuel lvl m g a b d Hrep Hf. pose proof (fuel_ok_rep fuel lvl m g Hrep Hf) as Hfo.
    destruct Hrep as (I & A & L).
    rewrite (gen_has_link_ok ord fuel g a b d Hord I Hfo), A, L. f_equal. apply m_has_link_embed.
  Qed.

  (* get_roles / get_users: HashSet results, equal as sets *)
  Theorem link_rm_get_roles_rep : forall lvl m g n d, rm_rep lvl m g ->
    exists l, gen_get_roles ord g n d = Some l /\ forall y, In y l <-> In y (get_roles m n d).
  Proof.
    intros lvl m g n d (I & A & L). destruct (gen_get_roles_ok ord g n d Hord I) as (l & E & Hin).
    exists l. split; [exact E|]. intros y. rewrite Hin, A, m_get_roles_embed. reflexivity.
  Qed.

  Theorem link_rm_get_users_rep : forall lvl m g n d, rm_rep lvl m g ->
    exists l, gen_get_users ord g n d = Some l /\ forall y, In y l <-> In y (get_users m n d).
  Proof.
    intros lvl m g n d (I & A & L). destruct (gen_get_users_ok ord g n d Hord I) as (l & E & Hin).
    exists l. split; [exact E|]. intros y. rewrite Hin, A, m_get_users_embed. reflexivity.
  Qed.

  (* ---- the same, as FUNCTIONS on the plain manager: run the translated method on the
          representation and read the result back ---- *)
  Definition lk_rm_add_link (m : rmgr) (a b : text) (d : option text) : rmgr :=
    match gen_add_link (rm_conc 0 m) a b d with
    | Some g' => rm_back g'
    | None => m
    end.
  (* Result<()> by error class: the only error of delete_link is RbacError::NotFound *)
  Definition lk_rm_delete_link (m : rmgr) (a b : text) (d : option text) : rmgr * bool :=
    match gen_delete_link ord (rm_conc 0 m) a b d with
    | Some (g', r) => (rm_back g', rs_is_ok r)
    | None => (m, false)
    end.
  Definition lk_rm_clear (m : rmgr) : rmgr :=
    match gen_clear (rm_conc 0 m) with
    | Some g' => rm_back g'
    | None => m
    end.
  Definition lk_rm_has_link (fuel lvl : nat) (m : rmgr) (a b : text) (d : option text) : bool :=
    match gen_has_link ord fuel (rm_conc lvl m) a b d with
    | Some v => v
    | None => false
    end.
  Definition lk_rm_get_roles (m : rmgr) (n : text) (d : option text) : list text :=
    match gen_get_roles ord (rm_conc 0 m) n d with Some l => l | None => [] end.
  Definition lk_rm_get_users (m : rmgr) (n : text) (d : option text) : list text :=
    match gen_get_users ord (rm_conc 0 m) n d with Some l => l | None => [] end.

  Theorem link_rm_add_link : forall m a b d, wf m -> lk_rm_add_link m a b d = add_link m a b d.
  Proof.
    intros m a b d Hwf. unfold lk_rm_add_link.
    destruct (link_rm_add_link_rep 0 m (rm_conc 0 m) a b d Hwf (rm_rep_conc 0 m Hwf)) as (g' & E & Hr).
    rewrite E. apply (rm_rep_back 0 _ _ Hr).
  Qed.

  Theorem link_rm_delete_link : forall m a b d, wf m -> lk_rm_delete_link m a b d = delete_link m a b d.
  Proof.
    intros m a b d Hwf. unfold lk_rm_delete_link.
    destruct (link_rm_delete_link_rep 0 m (rm_conc 0 m) a b d Hwf (rm_rep_conc 0 m Hwf)) as (g' & r & E & Hr & R).
    rewrite E, (rm_rep_back 0 _ _ Hr), R. destruct (delete_link m a b d); reflexivity.
  Qed.

  Theorem link_rm_clear : forall m, wf m -> lk_rm_clear m = rm_clear m.
  Proof.
    intros m Hwf. unfold lk_rm_clear.
    destruct (link_rm_clear_rep 0 m (rm_conc 0 m) (rm_rep_conc 0 m Hwf)) as (g' & E & Hr).
    rewrite E. apply (rm_rep_back 0 _ _ Hr).
  Qed.

  Theorem link_rm_has_link : forall fuel lvl m a b d, wf m -> rm_fuel_ok fuel m ->
    lk_rm_has_link fuel lvl m a b d = has_link lvl m a b d.
  Proof.
    intros fuel lvl m a b d Hwf Hf. unfold lk_rm_has_link.
    rewrite (link_rm_has_link_rep fuel lvl m (rm_conc lvl m) a b d (rm_rep_conc lvl m Hwf) Hf). reflexivity.
  Qed.

  Theorem link_rm_get_roles : forall m n d, wf m ->
    forall y, In y (lk_rm_get_roles m n d) <-> In y (get_roles m n d).
  Proof.
    intros m n d Hwf. unfold lk_rm_get_roles.
    destruct (link_rm_get_roles_rep 0 m (rm_conc 0 m) n d (rm_rep_conc 0 m Hwf)) as (l & E & Hin).
    rewrite E. exact Hin.
  Qed.

  Theorem link_rm_get_users : forall m n d, wf m ->
    forall y, In y (lk_rm_get_users m n d) <-> In y (get_users m n d).
  Proof.
    intros m n d Hwf. unfold lk_rm_get_users.
    destruct (link_rm_get_users_rep 0 m (rm_conc 0 m) n d (rm_rep_conc 0 m Hwf)) as (l & E & Hin).
    rewrite E. exact Hin.
  Qed.

  (* ---- through gen_history_ok: a manager that is the `lrun` of a link history is represented by the
          translated mutators run on that history from DefaultRoleManager::new ---- *)
  Theorem link_rm_history : forall lvl (h : list lop),
    exists g, gen_run ord (gen_new lvl) (map mop_of h) = Some (g, lrun_flags [] h) /\ rm_rep lvl (lrun h) g.
  Proof.
    intros lvl h. destruct (gen_history_ok ord lvl (map mop_of h) Hord) as (g & E & A & I & L).
    exists g. rewrite conservative_flags in E. split; [exact E|].
    split; [exact I|]. split; [|exact L]. rewrite A. apply mrun_embed.
  Qed.
End Methods.

(* non-vacuity: a concrete manager *)
Definition ex_rm : rmgr :=
  lrun [LAdd (T "alice") (T "admin") None; LAdd (T "admin") (T "root") None; LAdd (T "bob") (T "admin") (Some (T "d1"))].
Example link_rm_ex :
  wf ex_rm /\ rm_fuel_ok 4 ex_rm /\ ord_ok (@rev text) /\
  lk_rm_has_link (@rev text) 4 10 ex_rm (T "alice") (T "root") None = true /\
  lk_rm_has_link (@rev text) 4 10 ex_rm (T "bob") (T "root") None = false /\
  lk_rm_add_link ex_rm (T "x") (T "y") None = add_link ex_rm (T "x") (T "y") None /\
  lk_rm_delete_link (@rev text) ex_rm (T "alice") (T "admin") None = delete_link ex_rm (T "alice") (T "admin") None.
Proof.
  split; [apply wf_lrun|]. split.
  { intros dk g H. vm_compute in H. repeat match type of H with
      | (if ?c then _ else _) = _ => destruct c; [injection H as <-; vm_compute; lia|] end. discriminate. }
  split; [exact ord_ok_rev|]. vm_compute. repeat split.
Qed.
