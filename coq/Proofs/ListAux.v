(* Generic list lemmas (no model dependency). *)
From Coq Require Import List Arith Lia.
Import ListNotations.

Lemma NoDup_snoc : forall {A} (l : list A) x, NoDup l -> ~ In x l -> NoDup (l ++ [x]).
Proof.
  intros A l x Hnd Hnin. induction l as [|y l IH]; cbn [app].
  - constructor; [intros []|constructor].
  - inversion Hnd as [|y' l' Hy Hl]; subst. constructor.
    + rewrite in_app_iff. intros [H|[H|[]]]; [contradiction|].
      subst. apply Hnin. left. reflexivity.
    + apply IH; [exact Hl|]. intros H. apply Hnin. right. exact H.
Qed.

Lemma NoDup_app_intro : forall {A} (l1 l2 : list A),
  NoDup l1 -> NoDup l2 -> (forall x, In x l1 -> ~ In x l2) -> NoDup (l1 ++ l2).
Proof.
  intros A l1 l2 H1 H2 Hd. induction l1 as [|y l IH]; cbn [app]; [exact H2|].
  inversion H1 as [|y' l' Hy Hl]; subst. constructor.
  - rewrite in_app_iff. intros [H|H]; [contradiction|].
    apply (Hd y); [left; reflexivity|exact H].
  - apply IH; [exact Hl|]. intros x Hx. apply Hd. right. exact Hx.
Qed.

Lemma NoDup_app_l : forall {A} (l1 l2 : list A), NoDup (l1 ++ l2) -> NoDup l1.
Proof.
  intros A l1 l2. induction l1 as [|y l IH]; cbn [app]; intros H; [constructor|].
  inversion H as [|y' l' Hy Hl]; subst. constructor.
  - intros Hin. apply Hy. apply in_or_app. left. exact Hin.
  - apply IH, Hl.
Qed.

Lemma NoDup_app_r : forall {A} (l1 l2 : list A), NoDup (l1 ++ l2) -> NoDup l2.
Proof.
  intros A l1 l2. induction l1 as [|y l IH]; cbn [app]; intros H; [exact H|].
  inversion H; subst. apply IH. assumption.
Qed.

Lemma NoDup_app_disj : forall {A} (l1 l2 : list A) x,
  NoDup (l1 ++ l2) -> In x l1 -> ~ In x l2.
Proof.
  intros A l1 l2 x. induction l1 as [|y l IH]; cbn [app]; intros H Hin; [destruct Hin|].
  inversion H as [|y' l' Hy Hl]; subst. destruct Hin as [->|Hin].
  - intros H2. apply Hy. apply in_or_app. right. exact H2.
  - apply IH; assumption.
Qed.

Lemma NoDup_filter : forall {A} (f : A -> bool) l, NoDup l -> NoDup (filter f l).
Proof.
  intros A f l Hnd. induction Hnd as [|x l Hx Hl IH]; cbn [filter]; [constructor|].
  destruct (f x); [|exact IH]. constructor; [|exact IH].
  intros H. apply filter_In in H. apply Hx, H.
Qed.
