(* C05 — the role graph always reflects the stored grouping rules.
   Main theorems: preservation of RoleSync by every operation, the lift to
   histories, the initial state. (Rebuild-is-a-no-op lives in C05Rebuild.v.) *)
From CV Require Import Model.Base Model.Effector Model.RoleGraph Model.Expr Model.Enforce Model.Engine
     Model.SpecC05.
From CV Require Import Proofs.ListAux Proofs.BaseP Proofs.RoleGraphP Proofs.C05Links Proofs.C05Sync
     Proofs.C05Steps Proofs.C05Load.
From Coq Require Import Lia.

(* operations after which the invariant is not claimed: switching automatic
   link building off (staleness is then by design), and a set_model whose
   load failed (the new model is installed, the old role graph stays) *)
Definition op_allowed (s : estate) (o : op) : bool :=
  match o with
  | OEnableAutoBuild false => false
  | OSetModel d => is_ok (snd (step s o))
  | _ => true
  end.

Lemma side_ok_spec : forall s, side_ok s = true <->
  g_exact (e_model s) = true /\ defs_disjoint (e_model s) = true.
Proof. intros s. unfold side_ok. apply andb_true_iff. Qed.

(* (3) preservation, one step *)
Theorem step_sync : forall s o,
  RoleSync s -> e_auto_build s = true ->
  side_ok s = true -> side_ok (fst (step s o)) = true ->
  op_allowed s o = true ->
  RoleSync (fst (step s o)).
Proof.
  intros s o Hrs Hb Hpre Hpost Hop.
  apply side_ok_spec in Hpre. destruct Hpre as [Hex Hdj].
  apply side_ok_spec in Hpost. destruct Hpost as [Hex' _].
  assert (Hdel : forall sec, del_cond s sec) by (intros sec _; split; assumption).
  destruct o as [sec pt r|sec pt rs|sec pt r|sec pt rs|sec pt idx vals|ro| | |fp fg| | |d|a|mx|
                 |n u|b|b|b|b]; cbn [step] in *.
  - apply step_add_sync; auto.
  - apply step_add_many_sync; auto.
  - apply step_remove_sync; auto.
  - apply step_remove_many_sync; auto.
  - apply step_remove_filtered_sync; auto.
  - apply step_rbac_sync; auto. destruct ro; cbn [rbac_post]; auto.
  - apply step_clear_sync; auto.
  - apply step_load_sync; auto.
  - apply step_load_filtered_sync; auto.
  - apply step_save_sync; auto.
  - apply (step_build_sync s Hrs Hex').
  - apply step_set_model_sync; auto.
  - apply step_set_adapter_sync; auto.
  - apply step_set_role_manager_sync; auto.
  - exact Hrs.
  - exact Hrs.
  - exact Hrs.
  - exact Hrs.
  - exact Hrs.
  - exact Hrs.
Qed.

Theorem step_auto : forall s o, e_auto_build s = true -> op_allowed s o = true ->
  e_auto_build (fst (step s o)) = true.
Proof.
  intros s o Hb Hop.
  destruct o as [sec pt r|sec pt rs|sec pt r|sec pt rs|sec pt idx vals|ro| | |fp fg| | |d|a|mx|
                 |n u|b|b|b|b]; cbn [step fst].
  - rewrite step_add_auto. exact Hb.
  - rewrite step_add_many_auto. exact Hb.
  - rewrite step_remove_auto. exact Hb.
  - rewrite step_remove_many_auto. exact Hb.
  - rewrite step_remove_filtered_auto. exact Hb.
  - rewrite step_rbac_auto. exact Hb.
  - rewrite step_clear_auto. exact Hb.
  - rewrite step_load_auto. exact Hb.
  - rewrite step_load_filtered_auto. exact Hb.
  - rewrite step_save_auto. exact Hb.
  - pose proof (build_role_links_auto s) as H. destruct (build_role_links s) as [s' e].
    cbn [fst] in *. rewrite H. exact Hb.
  - rewrite step_set_model_auto. exact Hb.
  - unfold step_set_adapter. rewrite step_load_auto. exact Hb.
  - apply step_set_role_manager_auto, Hb.
  - exact Hb.
  - exact Hb.
  - exact Hb.
  - exact Hb.
  - destruct b; [reflexivity|discriminate].
  - exact Hb.
Qed.

(* the side conditions along a history, decidable *)
Fixpoint hist_ok (s : estate) (ops : list op) : bool :=
  match ops with
  | [] => true
  | o :: r => op_allowed s o && side_ok (fst (step s o)) && hist_ok (fst (step s o)) r
  end.

Definition SyncInv (s : estate) : Prop :=
  RoleSync s /\ e_auto_build s = true /\ side_ok s = true.

Theorem run_ops_sync : forall ops s, SyncInv s -> hist_ok s ops = true -> SyncInv (run_ops s ops).
Proof.
  induction ops as [|o ops IH]; intros s Hinv Hh; [exact Hinv|].
  cbn [hist_ok] in Hh. apply andb_true_iff in Hh. destruct Hh as [Hh Hrest].
  apply andb_true_iff in Hh. destruct Hh as [Hop Hside].
  destruct Hinv as (Hrs & Hb & Hpre).
  unfold run_ops. cbn [fold_left]. apply IH; [|exact Hrest].
  split; [|split].
  - apply step_sync; assumption.
  - apply step_auto; assumption.
  - exact Hside.
Qed.

(* the initial state *)
Theorem new_enforcer_inv : forall d a w,
  is_ok (snd (new_enforcer d a w)) = true -> ad_is_filtered a = false ->
  side_ok (fst (new_enforcer d a w)) = true ->
  SyncInv (fst (new_enforcer d a w)).
Proof.
  intros d a w Hok Hnf Hside. pose proof Hside as Hs. apply side_ok_spec in Hs. destruct Hs as [Hex _].
  destruct (new_enforcer_sync d a w _ eq_refl Hok Hnf Hex) as [Hrs Hb].
  split; [exact Hrs|]. split; assumption.
Qed.

Corollary history_sync : forall d a w ops,
  is_ok (snd (new_enforcer d a w)) = true -> ad_is_filtered a = false ->
  side_ok (fst (new_enforcer d a w)) = true ->
  hist_ok (fst (new_enforcer d a w)) ops = true ->
  SyncInv (run_ops (fst (new_enforcer d a w)) ops).
Proof.
  intros d a w ops Hok Hnf Hside Hh. apply run_ops_sync; [|exact Hh].
  apply new_enforcer_inv; assumption.
Qed.

(* ---------- single-definition models need no disjointness ---------- *)
Lemma forallb_const_true : forall {A} (l : list A), forallb (fun _ => true) l = true.
Proof. intros A l. induction l; [reflexivity|exact IHl]. Qed.

Lemma single_def_disjoint : forall md, single_def md = true -> defs_disjoint md = true.
Proof.
  intros md H. unfold single_def in H. unfold defs_disjoint.
  destruct (gsec md) as [|ka [|kb am]]; try discriminate.
  cbn [defs_disjoint_am all_links flat_map memb existsb negb]. rewrite forallb_const_true. reflexivity.
Qed.

Lemma no_def_disjoint : forall md, gsec md = [] -> defs_disjoint md = true.
Proof. intros md H. unfold defs_disjoint. rewrite H. reflexivity. Qed.

Corollary step_sync_single : forall s o,
  RoleSync s -> e_auto_build s = true ->
  single_def (e_model s) = true -> single_def (e_model (fst (step s o))) = true ->
  g_exact (e_model s) = true -> g_exact (e_model (fst (step s o))) = true ->
  op_allowed s o = true ->
  RoleSync (fst (step s o)).
Proof.
  intros s o Hrs Hb H1 H1' Hex Hex' Hop. apply step_sync; auto.
  - apply side_ok_spec. split; [exact Hex|apply single_def_disjoint, H1].
  - apply side_ok_spec. split; [exact Hex'|apply single_def_disjoint, H1'].
Qed.

(* histories over single-definition models: no disjointness condition *)
Fixpoint hist_ok_single (s : estate) (ops : list op) : bool :=
  match ops with
  | [] => true
  | o :: r => op_allowed s o && g_exact (e_model (fst (step s o))) &&
              single_def (e_model (fst (step s o))) && hist_ok_single (fst (step s o)) r
  end.

Lemma hist_ok_single_ok : forall ops s, hist_ok_single s ops = true -> hist_ok s ops = true.
Proof.
  induction ops as [|o ops IH]; intros s H; [reflexivity|]. cbn [hist_ok_single hist_ok] in *.
  apply andb_true_iff in H. destruct H as [H H4]. apply andb_true_iff in H. destruct H as [H H3].
  apply andb_true_iff in H. destruct H as [H1 H2].
  rewrite H1, (IH _ H4). unfold side_ok. rewrite H2, (single_def_disjoint _ H3). reflexivity.
Qed.

Corollary run_ops_sync_single : forall ops s,
  RoleSync s -> e_auto_build s = true -> g_exact (e_model s) = true -> single_def (e_model s) = true ->
  hist_ok_single s ops = true -> RoleSync (run_ops s ops).
Proof.
  intros ops s Hrs Hb Hex H1 Hh.
  apply (run_ops_sync ops s); [|apply hist_ok_single_ok, Hh].
  split; [exact Hrs|]. split; [exact Hb|]. apply side_ok_spec.
  split; [exact Hex|apply single_def_disjoint, H1].
Qed.
