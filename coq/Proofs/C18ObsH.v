(* C18obs, part 3: the hypothesis holds in every state reached from a freshly
   constructed enforcer by incremental management calls (C05 for the role
   graph, C09 for the store), and the composition with the three
   reconfiguration calls. *)
From CV Require Import Model.Base Model.Effector Model.RoleGraph Model.PathMatch Model.Expr
     Model.Enforce Model.Engine Model.SpecC05 Model.SpecC09 Model.SpecC18.
From CV Require Import Proofs.ListAux Proofs.BaseP Proofs.RoleGraphP Proofs.ExprP Proofs.ExModels
     Proofs.C09P
     Proofs.C05Links Proofs.C05Sync Proofs.C05Steps Proofs.C05Load Proofs.C05Main
     Proofs.C05Rebuild Proofs.C05P Proofs.C18P Proofs.C18Q Proofs.C18Obs Proofs.C18ObsR.
From Coq Require Import Lia.

(* ================= 1. a model is determined by its cleared form and its p/g policies ========= *)
Lemma with_policy_nil_inj : forall x y,
  with_policy x [] = with_policy y [] -> a_policy x = a_policy y -> x = y.
Proof.
  intros [v t p h] [v' t' p' h'] H Hp. unfold with_policy in H. cbn in *.
  inversion H; subst. reflexivity.
Qed.

Lemma map_fst_clr : forall am, map fst (clr am) = map fst am.
Proof. intros am. unfold clr. rewrite map_map. reflexivity. Qed.

Lemma amap_ext_clr : forall a1 a2 : amap,
  clr a1 = clr a2 -> NoDup (map fst a2) ->
  (forall k, option_map a_policy (assoc k a1) = option_map a_policy (assoc k a2)) -> a1 = a2.
Proof.
  induction a1 as [|[k1 x] a1 IH]; intros [|[k2 y] a2] Hc Hnd Hp; cbn [clr map] in Hc;
    try discriminate; [reflexivity|].
  assert (Hk : k1 = k2) by (apply (f_equal (fun l => map fst (firstn 1 l))) in Hc; cbn in Hc; congruence).
  assert (Hxy : with_policy x [] = with_policy y []).
  { apply (f_equal (fun l => match l with ka :: _ => Some (snd ka) | [] => None end)) in Hc.
    cbn [snd] in Hc. congruence. }
  assert (Hrest : clr a1 = clr a2) by (apply (f_equal (@tl _)) in Hc; exact Hc).
  subst k2.
  assert (Hx : x = y).
  { apply with_policy_nil_inj; [exact Hxy|]. specialize (Hp k1). cbn [assoc] in Hp.
    rewrite teqb_refl in Hp. cbn [option_map] in Hp. congruence. }
  subst y. f_equal. inversion Hnd as [|k0 ks Hnin Hnd']; subst.
  apply IH; [exact Hrest|exact Hnd'|]. intros k. destruct (teqb k k1) eqn:E.
  - apply teqb_eq in E. subst k.
    assert (H2 : assoc k1 a2 = None) by (apply assoc_None; exact Hnin).
    assert (H1 : assoc k1 a1 = None).
    { apply assoc_None. rewrite <- (map_fst_clr a1), Hrest, map_fst_clr. exact Hnin. }
    rewrite H1, H2. reflexivity.
  - specialize (Hp k). cbn [assoc] in Hp. rewrite E in Hp. exact Hp.
Qed.

Lemma sec_eq_of_clear : forall (A M : model) sec, is_pg sec = true ->
  option_map clr (assoc sec A) = option_map clr (assoc sec M) -> KeysOkP M ->
  (forall pt, mpol A sec pt = mpol M sec pt) -> assoc sec A = assoc sec M.
Proof.
  intros A M sec Hpg Hc Hk Hp.
  destruct (assoc sec A) as [a1|] eqn:EA; destruct (assoc sec M) as [a2|] eqn:EM;
    cbn [option_map] in Hc; try discriminate; [|reflexivity].
  f_equal. apply amap_ext_clr.
  - congruence.
  - assert (Hks : keys M sec = Some (map fst a2)) by (unfold keys; rewrite EM; reflexivity).
    apply (Hk sec _ Hpg Hks).
  - intros k. specialize (Hp k). unfold mpol, get_ast in Hp. rewrite EA, EM in Hp. exact Hp.
Qed.

Lemma model_ext_pg : forall A M, m_clear_policy A = m_clear_policy M -> KeysOkP M ->
  (forall sec pt, is_pg sec = true -> mpol A sec pt = mpol M sec pt) -> A = M.
Proof.
  intros A M Hc Hk Hp.
  assert (Epg : teqb s_p s_g = false) by reflexivity.
  assert (Egp : teqb s_g s_p = false) by reflexivity.
  assert (Hsp : assoc s_p A = assoc s_p M).
  { apply sec_eq_of_clear; [reflexivity| |exact Hk|intros pt; apply Hp; reflexivity].
    pose proof (f_equal (assoc s_p) Hc) as H. rewrite !m_clear_upd, !assoc_upd in H.
    rewrite Epg, !teqb_refl in H. exact H. }
  assert (Hsg : assoc s_g A = assoc s_g M).
  { apply sec_eq_of_clear; [reflexivity| |exact Hk|intros pt; apply Hp; reflexivity].
    pose proof (f_equal (assoc s_g) Hc) as H. rewrite !m_clear_upd, !assoc_upd in H.
    rewrite Egp, !teqb_refl in H. exact H. }
  rewrite !m_clear_upd in Hc. apply upd_eq_inv in Hc.
  - apply upd_eq_inv in Hc; assumption.
  - rewrite !assoc_upd, Egp. exact Hsg.
Qed.

(* ================= 2. the store component from C09's invariant ================= *)
Lemma hc_id : forall M, handles_cur (gsec M) -> hc M = M.
Proof.
  intros M H. unfold hc. apply upd_id. intros am Ha. change (hcm am) with (set_cur am).
  apply set_cur_id. unfold gsec in H. rewrite Ha in H. exact H.
Qed.

Lemma mpol_hc : forall X sec pt, mpol (hc X) sec pt = mpol X sec pt.
Proof.
  intros X sec pt. unfold hc, upd. destruct (assoc s_g X) as [am|] eqn:E; [|reflexivity].
  destruct (pol_eq_assoc_set_sk X s_g am (hcm am) E) as [Hp _].
  - unfold hcm. rewrite map_map. reflexivity.
  - apply Hp.
Qed.

Definition pg_all (l : list rule) : Prop := forall ln, In ln l -> pg_mem_line ln = true.

Lemma store_from_lines : forall l M,
  pg_all l -> SyncLM l M -> KeysOkP M -> handles_cur (gsec M) ->
  hc (fold_left load_mem_line l (m_clear_policy M)) = M.
Proof.
  intros l M Hpg [Hnd Hsy] Hk Hh.
  apply model_ext_pg; [|exact Hk|].
  - rewrite clear_hc.
    rewrite (fold_absorb load_mem_line m_clear_policy l)
      by (intros Y ln Hin; apply clear_load_mem_line, Hpg, Hin).
    rewrite clear_clear, <- clear_hc, (hc_id M Hh). reflexivity.
  - intros sec pt Hsec. rewrite mpol_hc, (mpol_load_cleared l M sec pt Hnd Hsec).
    destruct (mpol M sec pt) as [pol|] eqn:E; cbn [option_map]; [|reflexivity].
    rewrite (Hsy sec pt pol Hsec E). reflexivity.
Qed.

Lemma build_of_exact : forall X, g_exact (hc X) = true -> exists m', build_of X = (hc X, m', LOk).
Proof.
  intros X Hex. unfold g_exact, gsec, hc in Hex. rewrite assoc_upd, teqb_refl in Hex.
  unfold build_of, hc, upd. destruct (assoc s_g X) as [am|]; cbn [option_map] in Hex.
  - change (hcm am) with (hmap (fun _ => HCur) am) in Hex. rewrite g_exact_am_hmap in Hex.
    destruct (build_links_ok am [] wf_nil Hex) as (m' & Hb & _). rewrite Hb.
    exists m'. reflexivity.
  - exists []. reflexivity.
Qed.

Theorem store_synced_reach : forall s l,
  e_adapter s = AMemory l false -> pg_all l ->
  SyncLM l (e_model s) -> KeysOkP (e_model s) ->
  RoleSync s -> g_exact (e_model s) = true -> StoreSynced s.
Proof.
  intros s l Ha Hpg Hsy Hk Hrs Hex. pose proof Hrs as ((_ & _ & Hh) & _).
  unfold StoreSynced. rewrite Ha. cbn [ad_load ad0_load ad_is_filtered].
  set (X := fold_left load_mem_line l (m_clear_policy (e_model s))).
  assert (HX : hc X = e_model s) by (apply store_from_lines; assumption).
  destruct (build_of_exact X) as [m' Hb]; [rewrite HX; exact Hex|].
  exists (AMemory l false), X, m'. rewrite HX in Hb. auto.
Qed.

(* ================= 3. the adapter stays a plain, unfiltered memory adapter of p/g lines ====== *)
Definition MemPlain (s : estate) : Prop :=
  exists l, e_adapter s = AMemory l false /\ pg_all l.

Lemma mem_plain_MemPlain : forall s, mem_plain (e_adapter s) = true -> MemPlain s.
Proof.
  intros s H. unfold mem_plain in H. destruct (e_adapter s) as [|l f| | |] eqn:E in H |- *; try discriminate.
  apply andb_true_iff in H. destruct H as [Hf Hl]. destruct f; [discriminate|].
  exists l. split; [exact E|]. rewrite forallb_forall in Hl. exact Hl.
Qed.

Lemma after_change_adapter : forall s sec pt ch ins rs,
  e_adapter (fst (after_change s sec pt ch ins rs)) = e_adapter s.
Proof.
  intros. destruct (after_change s sec pt ch ins rs) as [s' o] eqn:E.
  apply same_store_after_change in E. exact (ss_ad _ _ E).
Qed.

Lemma emit_mgmt_adapter : forall s ch ev, e_adapter (emit_mgmt s ch ev) = e_adapter s.
Proof. intros. exact (ss_ad _ _ (same_store_emit_mgmt s ch ev)). Qed.

Lemma step_add_adapter : forall s sec pt r, e_auto_save s = true ->
  e_adapter (fst (step_add s sec pt r)) = fst (ad_add (e_adapter s) sec pt r).
Proof.
  intros s sec pt r Hs. unfold step_add. rewrite Hs.
  destruct (ad_add (e_adapter s) sec pt r) as [ad ares].
  destruct ares as [[|]|e|]; cbn [fst]; try reflexivity.
  destruct (m_add_policy (e_model (upd_adapter s ad)) sec pt r) as [md added].
  rewrite after_change_adapter, emit_mgmt_adapter. reflexivity.
Qed.

Lemma step_add_many_adapter : forall s sec pt rs, e_auto_save s = true ->
  e_adapter (fst (step_add_many s sec pt rs)) = fst (ad_add_many (e_adapter s) sec pt rs).
Proof.
  intros s sec pt rs Hs. unfold step_add_many. rewrite Hs.
  destruct (ad_add_many (e_adapter s) sec pt rs) as [ad ares].
  destruct ares as [[|]|e|]; cbn [fst]; try reflexivity.
  destruct (m_add_policies (e_model (upd_adapter s ad)) sec pt rs) as [md added].
  rewrite after_change_adapter, emit_mgmt_adapter. reflexivity.
Qed.

Lemma step_remove_adapter : forall s sec pt r, e_auto_save s = true ->
  e_adapter (fst (step_remove s sec pt r)) = fst (ad_remove (e_adapter s) sec pt r).
Proof.
  intros s sec pt r Hs. unfold step_remove. rewrite Hs.
  destruct (ad_remove (e_adapter s) sec pt r) as [ad ares].
  destruct ares as [[|]|e|]; cbn [fst]; try reflexivity.
  destruct (m_remove_policy (e_model (upd_adapter s ad)) sec pt r) as [md removed].
  rewrite after_change_adapter, emit_mgmt_adapter. reflexivity.
Qed.

Lemma step_remove_many_adapter : forall s sec pt rs, e_auto_save s = true ->
  e_adapter (fst (step_remove_many s sec pt rs)) = fst (ad_remove_many (e_adapter s) sec pt rs).
Proof.
  intros s sec pt rs Hs. unfold step_remove_many. rewrite Hs.
  destruct (ad_remove_many (e_adapter s) sec pt rs) as [ad ares].
  destruct ares as [[|]|e|]; cbn [fst]; try reflexivity.
  destruct (m_remove_policies (e_model (upd_adapter s ad)) sec pt rs) as [md removed].
  rewrite after_change_adapter, emit_mgmt_adapter. reflexivity.
Qed.

Lemma step_remove_filtered_adapter : forall s sec pt idx vals, e_auto_save s = true ->
  e_adapter (fst (step_remove_filtered s sec pt idx vals)) =
  fst (ad_remove_filtered (e_adapter s) sec pt idx vals).
Proof.
  intros s sec pt idx vals Hs. unfold step_remove_filtered. rewrite Hs.
  destruct (ad_remove_filtered (e_adapter s) sec pt idx vals) as [ad ares].
  destruct ares as [[|]|e|]; cbn [fst]; try reflexivity.
  destruct (m_remove_filtered (e_model (upd_adapter s ad)) sec pt idx vals) as [[[md removed] rs]|];
    [|reflexivity].
  match goal with |- e_adapter (fst (if ?c then _ else _)) = _ => destruct c end.
  - cbn [fst]. rewrite emit_mgmt_adapter. reflexivity.
  - match goal with |- context [incremental_links ?s2 pt false rs] =>
      destruct (incremental_links s2 pt false rs) as [s3 e] eqn:Eil end.
    cbn [fst]. apply same_store_incremental_links in Eil. rewrite (ss_ad _ _ Eil).
    rewrite emit_mgmt_adapter. reflexivity.
Qed.

(* the five incremental adapter calls keep the lines inside p and g *)
Lemma pg_mem_line_mem_line : forall sec pt r, pg_mem_line (mem_line sec pt r) = pg_sec sec.
Proof. reflexivity. Qed.

Lemma MemPlain_add : forall s sec pt r, MemPlain s -> e_auto_save s = true -> pg_sec sec = true ->
  MemPlain (fst (step_add s sec pt r)).
Proof.
  intros s sec pt r (l & Ha & Hpg) Hs Hsec. unfold MemPlain. rewrite (step_add_adapter _ _ _ _ Hs), Ha.
  cbn [ad_add scripted ad0_add]. destruct (rmem (mem_line sec pt r) l); cbn [fst].
  - exists l. split; [reflexivity|exact Hpg].
  - exists (l ++ [mem_line sec pt r]). split; [reflexivity|]. intros ln Hin.
    apply in_app_or in Hin. destruct Hin as [Hin|[<-|[]]]; [apply Hpg, Hin|exact Hsec].
Qed.

Lemma MemPlain_add_many : forall s sec pt rs, MemPlain s -> e_auto_save s = true -> pg_sec sec = true ->
  MemPlain (fst (step_add_many s sec pt rs)).
Proof.
  intros s sec pt rs (l & Ha & Hpg) Hs Hsec. unfold MemPlain.
  rewrite (step_add_many_adapter _ _ _ _ Hs), Ha. cbn [ad_add_many scripted ad0_add_many].
  destruct (existsb (fun ln => rmem ln l) (map (mem_line sec pt) rs)); cbn [fst].
  - exists l. split; [reflexivity|exact Hpg].
  - eexists. split; [reflexivity|]. intros ln Hin. apply C05Sync.fold_ins_new_In in Hin.
    destruct Hin as [Hin|Hin]; [apply Hpg, Hin|]. apply in_map_iff in Hin.
    destruct Hin as (r & <- & _). exact Hsec.
Qed.

Lemma MemPlain_remove : forall s sec pt r, MemPlain s -> e_auto_save s = true ->
  MemPlain (fst (step_remove s sec pt r)).
Proof.
  intros s sec pt r (l & Ha & Hpg) Hs. unfold MemPlain. rewrite (step_remove_adapter _ _ _ _ Hs), Ha.
  cbn [ad_remove scripted ad0_remove]. destruct (rmem (mem_line sec pt r) l); cbn [fst].
  - eexists. split; [reflexivity|]. intros ln Hin. apply C05Sync.rremove_In in Hin. apply Hpg, Hin.
  - exists l. split; [reflexivity|exact Hpg].
Qed.

Lemma MemPlain_remove_many : forall s sec pt rs, MemPlain s -> e_auto_save s = true ->
  MemPlain (fst (step_remove_many s sec pt rs)).
Proof.
  intros s sec pt rs (l & Ha & Hpg) Hs. unfold MemPlain.
  rewrite (step_remove_many_adapter _ _ _ _ Hs), Ha. cbn [ad_remove_many scripted ad0_remove_many].
  destruct (forallb (fun ln => rmem ln l) (map (mem_line sec pt) rs)); cbn [fst].
  - eexists. split; [reflexivity|]. intros ln Hin. apply C05Sync.fold_rremove_In in Hin.
    apply Hpg, Hin.
  - exists l. split; [reflexivity|exact Hpg].
Qed.

Lemma MemPlain_remove_filtered : forall s sec pt idx vals, MemPlain s -> e_auto_save s = true ->
  MemPlain (fst (step_remove_filtered s sec pt idx vals)).
Proof.
  intros s sec pt idx vals (l & Ha & Hpg) Hs. unfold MemPlain.
  rewrite (step_remove_filtered_adapter _ _ _ _ _ Hs), Ha.
  cbn [ad_remove_filtered scripted ad0_remove_filtered].
  destruct vals as [|v0 vs0]; cbn [fst]; [exists l; split; [reflexivity|exact Hpg]|].
  destruct (mem_filter_lines sec pt idx (v0 :: vs0) l) as [[kept res]|] eqn:E; cbn [fst].
  - exists kept. split; [reflexivity|]. intros ln Hin.
    apply Hpg. apply (proj1 (mfl_sub _ _ _ _ _ _ _ E)), Hin.
  - exists l. split; [reflexivity|exact Hpg].
Qed.

(* ---- clear / save / load ---- *)
Lemma MemPlain_same_adapter : forall s s', e_adapter s' = e_adapter s -> MemPlain s -> MemPlain s'.
Proof. intros s s' H (l & Ha & Hpg). exists l. split; [congruence|exact Hpg]. Qed.

Lemma MemPlain_clear : forall s, MemPlain s -> e_auto_save s = true -> MemPlain (fst (step_clear s)).
Proof.
  intros s (l & Ha & Hpg) Hs. unfold step_clear. rewrite Hs, Ha.
  cbn [ad_clear scripted_unit ad0_clear].
  set (s1 := upd_adapter s (AMemory [] false)).
  assert (H1 : MemPlain s1) by (exists []; split; [reflexivity|intros ln []]).
  set (s2 := upd_model s1 (m_clear_policy (e_model s1))).
  assert (H2 : MemPlain s2) by (apply (MemPlain_same_adapter s1); [reflexivity|exact H1]).
  destruct (e_auto_build s2).
  - destruct (build_role_links s2) as [s3 [|e]] eqn:Eb; cbn [fst];
      apply same_store_build_role_links in Eb.
    + apply (MemPlain_same_adapter s2); [|exact H2].
      rewrite (ss_ad _ _ (same_store_emit s3 EvClear)). exact (ss_ad _ _ Eb).
    + apply (MemPlain_same_adapter s2); [exact (ss_ad _ _ Eb)|exact H2].
  - cbn [fst]. apply (MemPlain_same_adapter s2); [|exact H2].
    exact (ss_ad _ _ (same_store_emit s2 EvClear)).
Qed.

Lemma mem_lines_of_pg : forall (am : amap) sec, pg_sec sec = true ->
  (forall k, In k (map fst am) -> first_is sec k = true) ->
  pg_all (mem_lines_of am).
Proof.
  intros am sec Hsec Hk ln Hin. unfold mem_lines_of in Hin. apply in_flat_map in Hin.
  destruct Hin as ([k a] & Hka & Hin). cbn [fst snd] in Hin.
  assert (Hf : first_is sec k = true) by (apply Hk; apply (in_map fst) in Hka; exact Hka).
  unfold first_is in Hf. destruct (first_char k) as [c|]; [|discriminate].
  apply teqb_eq in Hf. subst c. apply in_map_iff in Hin. destruct Hin as (r & <- & _). exact Hsec.
Qed.

Lemma mem_lines_pg : forall md, KeysOkP md -> pg_all (mem_lines md).
Proof.
  intros md Hk ln Hin. unfold mem_lines in Hin. apply C05Sync.fold_ins_new_In in Hin.
  destruct Hin as [[]|Hin]. apply in_app_or in Hin. destruct Hin as [Hin|Hin].
  - destruct (assoc s_p md) as [am|] eqn:E; [|destruct Hin].
    apply (mem_lines_of_pg am s_p eq_refl); [|exact Hin].
    assert (Hks : keys md s_p = Some (map fst am)) by (unfold keys; rewrite E; reflexivity).
    apply (Hk s_p _ eq_refl Hks).
  - destruct (assoc s_g md) as [am|] eqn:E; [|destruct Hin].
    apply (mem_lines_of_pg am s_g eq_refl); [|exact Hin].
    assert (Hks : keys md s_g = Some (map fst am)) by (unfold keys; rewrite E; reflexivity).
    apply (Hk s_g _ eq_refl Hks).
Qed.

Lemma MemPlain_save : forall s, MemPlain s -> KeysOkP (e_model s) -> MemPlain (fst (step_save s)).
Proof.
  intros s (l & Ha & Hpg) Hk. unfold step_save. rewrite Ha. cbn [ad_is_filtered ad_save scripted_unit ad0_save].
  cbn [fst]. apply (MemPlain_same_adapter (upd_adapter s (AMemory (mem_lines (e_model s)) false))).
  - exact (ss_ad _ _ (same_store_emit _ _)).
  - exists (mem_lines (e_model s)). split; [reflexivity|apply mem_lines_pg, Hk].
Qed.

Lemma MemPlain_load : forall s, MemPlain s -> MemPlain (fst (step_load s)).
Proof.
  intros s (l & Ha & Hpg). unfold step_load. rewrite Ha. cbn [ad_load ad0_load].
  destruct (finish_load s (AMemory l false) _ LROk) as [s' o] eqn:Ef.
  apply finish_load_ok_store in Ef. cbn [fst].
  exists l. split; [|exact Hpg]. rewrite (ss_ad _ _ Ef). reflexivity.
Qed.

(* ---- every call of the incremental histories ---- *)
Definition Pl (s : estate) : Prop := Inv s /\ MemPlain s.

Lemma Pl_seq_or : forall ra f,
  Pl (fst ra) -> (forall s, Pl s -> Pl (fst (f s))) -> Pl (fst (seq_or ra f)).
Proof.
  intros [s1 [a|e|]] f H Hf; cbn [seq_or fst] in *; try exact H.
  specialize (Hf s1 H). destruct (f s1) as [s2 [b|e|]]; exact Hf.
Qed.

Lemma Pl_add : forall s sec pt r, pg_sec sec = true -> Pl s -> Pl (fst (step_add s sec pt r)).
Proof.
  intros s sec pt r Hsec [Hi Hm]. split; [apply step_add_inv, Hi|].
  apply MemPlain_add; [exact Hm|apply Hi|exact Hsec].
Qed.
Lemma Pl_add_many : forall s sec pt rs, pg_sec sec = true -> Pl s -> Pl (fst (step_add_many s sec pt rs)).
Proof.
  intros s sec pt rs Hsec [Hi Hm]. split; [apply step_add_many_inv, Hi|].
  apply MemPlain_add_many; [exact Hm|apply Hi|exact Hsec].
Qed.
Lemma Pl_remove : forall s sec pt r, Pl s -> Pl (fst (step_remove s sec pt r)).
Proof.
  intros s sec pt r [Hi Hm]. split; [apply step_remove_inv, Hi|].
  apply MemPlain_remove; [exact Hm|apply Hi].
Qed.
Lemma Pl_remove_many : forall s sec pt rs, Pl s -> Pl (fst (step_remove_many s sec pt rs)).
Proof.
  intros s sec pt rs [Hi Hm]. split; [apply step_remove_many_inv, Hi|].
  apply MemPlain_remove_many; [exact Hm|apply Hi].
Qed.
Lemma Pl_remove_filtered : forall s sec pt idx vals, Pl s -> Pl (fst (step_remove_filtered s sec pt idx vals)).
Proof.
  intros s sec pt idx vals [Hi Hm]. split; [apply step_remove_filtered_inv, Hi|].
  apply MemPlain_remove_filtered; [exact Hm|apply Hi].
Qed.

Lemma Pl_rbac : forall s o, Pl s -> Pl (fst (step_rbac s o)).
Proof.
  intros s o H. destruct o; cbn [step_rbac];
    first [ apply Pl_add; [reflexivity|exact H] | apply Pl_add_many; [reflexivity|exact H]
          | apply Pl_remove; exact H | apply Pl_remove_filtered; exact H
          | apply Pl_seq_or;
            [apply Pl_remove_filtered; exact H
            |intros s' H'; apply Pl_remove_filtered; exact H'] ].
Qed.

Theorem step_Pl : forall s o, obs_op o = true -> Pl s -> Pl (fst (step s o)).
Proof.
  intros s o Hop [Hi Hm]. unfold obs_op in Hop. apply andb_true_iff in Hop. destruct Hop as [Hc Hpg].
  split; [apply step_preserves_Inv; assumption|].
  pose proof Hi as (Hs & Hk & _).
  destruct o; cbn [c09_op] in Hc; cbn [pg_op] in Hpg; try discriminate; cbn [step].
  - apply MemPlain_add; assumption.
  - apply MemPlain_add_many; assumption.
  - apply MemPlain_remove; assumption.
  - apply MemPlain_remove_many; assumption.
  - apply MemPlain_remove_filtered; assumption.
  - apply Pl_rbac. split; assumption.
  - apply MemPlain_clear; assumption.
  - apply MemPlain_load; assumption.
  - apply MemPlain_save; assumption.
  - destruct (build_role_links s) as [s' e] eqn:Eb. cbn [fst].
    apply same_store_build_role_links in Eb.
    apply (MemPlain_same_adapter s); [exact (ss_ad _ _ Eb)|exact Hm].
  - apply (MemPlain_same_adapter s); [|exact Hm].
    exact (ss_ad _ _ (same_store_set_role_manager s maxd)).
  - exact Hm.
  - cbn [fst]. apply (MemPlain_same_adapter s); [reflexivity|exact Hm].
  - cbn [fst]. apply (MemPlain_same_adapter s); [reflexivity|exact Hm].
  - cbn [fst]. apply (MemPlain_same_adapter s); [reflexivity|exact Hm].
  - cbn [fst]. apply (MemPlain_same_adapter s); [reflexivity|exact Hm].
  - cbn [fst]. apply (MemPlain_same_adapter s); [reflexivity|exact Hm].
Qed.

Theorem run_ops_Pl : forall ops s, forallb obs_op ops = true -> Pl s -> Pl (run_ops s ops).
Proof.
  unfold run_ops. induction ops as [|o ops IH]; intros s Hops H; cbn [fold_left]; [exact H|].
  cbn [forallb] in Hops. apply andb_true_iff in Hops. destruct Hops as [Ho Hops].
  apply IH; [exact Hops|]. apply step_Pl; assumption.
Qed.

(* the constructor *)
Theorem new_enforcer_Pl : forall d l w s b,
  new_enforcer d (AMemory l false) w = (s, Ok b) ->
  NoDup l -> pg_all l -> KeysOkP (d_model d) -> Pl s.
Proof.
  intros d l w s b Hnew Hnd Hpg Hk. split.
  - apply (new_enforcer_Inv_ok d (AMemory l false) w l s b); auto.
  - unfold new_enforcer, new_raw in Hnew.
    match type of Hnew with context [register_g_functions ?st] =>
      pose proof (register_g_functions_adapter st) as Had;
      destruct (register_g_functions st) as [s0 [|e]] end; [|discriminate].
    cbn [fst e_adapter] in Had. rewrite Had in Hnew. cbn [ad_is_filtered] in Hnew.
    assert (H0 : MemPlain s0) by (exists l; split; [exact Had|exact Hpg]).
    pose proof (MemPlain_load s0 H0) as H1. rewrite Hnew in H1. exact H1.
Qed.

(* ================= 4. reachability ================= *)
(* the calls allowed along a history: C05's hist_ok (no enable_auto_build(false),
   no set_model with a failing load, side conditions g_exact / defs_disjoint in
   every reached state) AND C09's class of calls restricted to sections p, g *)
Definition obs_hist_ok (s : estate) (ops : list op) : bool :=
  hist_ok s ops && forallb obs_op ops.

Lemma obs_op_c09 : forall ops, forallb obs_op ops = true -> forallb c09_op ops = true.
Proof.
  intros ops H. rewrite forallb_forall in *. intros o Ho. specialize (H o Ho).
  unfold obs_op in H. apply andb_true_iff in H. apply H.
Qed.

Lemma forallb_pg_all : forall l, forallb pg_mem_line l = true -> pg_all l.
Proof. intros l H. rewrite forallb_forall in H. exact H. Qed.

Lemma gdefs_ok_of_g_exact : forall md, g_exact md = true -> gdefs_ok md = true.
Proof.
  intros md H. unfold gdefs_ok, model_gkeys. unfold g_exact, gsec in H.
  destruct (assoc s_g md) as [am|]; [|reflexivity].
  unfold g_exact_am in H. rewrite forallb_forall in H. apply forallb_forall.
  intros kc Hin. unfold gkeys in Hin. apply in_map_iff in Hin. destruct Hin as (ka & <- & Hka).
  specialize (H ka Hka). unfold def_exact in H. apply andb_true_iff in H. cbn [snd]. apply H.
Qed.

Lemma gfuns_current_of_registered : forall s, RoleSync s ->
  gfuns_current (f_gfuns (e_fs s)) (e_model s) = true.
Proof.
  intros s (_ & Hreg). unfold gfuns_current, model_gkeys. unfold gsec in Hreg.
  destruct (assoc s_g (e_model s)) as [am|]; [|reflexivity].
  apply forallb_forall. intros k Hin. unfold gkeys in Hin. apply in_map_iff in Hin.
  destruct Hin as ([k0 a] & <- & Hka). cbn [fst snd]. rewrite (Hreg k0 a Hka). reflexivity.
Qed.

(* what holds in every reached state *)
Record Reached (s : estate) : Prop := {
  rc_store : StoreSynced s;
  rc_sync : RoleSync s;
  rc_exact : g_exact (e_model s) = true;
  rc_build : e_auto_build s = true;
  rc_save : e_auto_save s = true;
  rc_plain : mem_plain (e_adapter s) = true;
  rc_unfiltered : ad_is_filtered (e_adapter s) = false;
  rc_gdefs : gdefs_ok (e_model s) = true;
  rc_gcur : gfuns_current (f_gfuns (e_fs s)) (e_model s) = true;
}.

Lemma MemPlain_mem_plain : forall s, MemPlain s -> mem_plain (e_adapter s) = true.
Proof.
  intros s (l & Ha & Hpg). rewrite Ha. cbn [mem_plain negb andb]. apply forallb_forall. exact Hpg.
Qed.

Theorem reached_of_invariants : forall s, SyncInv s -> Pl s -> Reached s.
Proof.
  intros s (Hrs & Hab & Hside) ((Hs & Hk & l' & Hm' & Hsy) & (l & Ha & Hpg)).
  apply side_ok_spec in Hside. destruct Hside as [Hex _].
  assert (l' = l) by (rewrite Ha in Hm'; cbn in Hm'; congruence). subst l'.
  constructor; try assumption.
  - apply (store_synced_reach s l); assumption.
  - apply MemPlain_mem_plain. exists l. auto.
  - rewrite Ha. reflexivity.
  - apply gdefs_ok_of_g_exact, Hex.
  - apply gfuns_current_of_registered, Hrs.
Qed.

Theorem obs_reachable_gen : forall d l w ops,
  is_ok (snd (new_enforcer d (AMemory l false) w)) = true ->
  NoDup l -> forallb pg_mem_line l = true -> keys_ok_b (d_model d) = true ->
  side_ok (fst (new_enforcer d (AMemory l false) w)) = true ->
  obs_hist_ok (fst (new_enforcer d (AMemory l false) w)) ops = true ->
  Reached (run_ops (fst (new_enforcer d (AMemory l false) w)) ops).
Proof.
  intros d l w ops Hok Hnd Hpg Hkeys Hside Hh.
  unfold obs_hist_ok in Hh. apply andb_true_iff in Hh. destruct Hh as [Hh Hops].
  apply reached_of_invariants.
  - apply history_sync; auto.
  - apply run_ops_Pl; [exact Hops|].
    destruct (new_enforcer d (AMemory l false) w) as [s0 [b| |]] eqn:Hnew; try discriminate.
    cbn [fst]. apply (new_enforcer_Pl d l w s0 b Hnew Hnd).
    + apply forallb_pg_all, Hpg.
    + apply keys_ok_b_spec, Hkeys.
Qed.

(* (3) the hypothesis of the reconfiguration theorems holds in every reached
   state whose hierarchies are below the depth limit *)
Theorem obs_reachable : forall d l w ops,
  is_ok (snd (new_enforcer d (AMemory l false) w)) = true ->
  NoDup l -> forallb pg_mem_line l = true -> keys_ok_b (d_model d) = true ->
  side_ok (fst (new_enforcer d (AMemory l false) w)) = true ->
  obs_hist_ok (fst (new_enforcer d (AMemory l false) w)) ops = true ->
  let s := run_ops (fst (new_enforcer d (AMemory l false) w)) ops in
  shallow (f_rm_max (e_fs s)) (f_rm (e_fs s)) ->
  ObsSynced s.
Proof.
  intros d l w ops Hok Hnd Hpg Hkeys Hside Hh s Hsh.
  destruct (obs_reachable_gen d l w ops Hok Hnd Hpg Hkeys Hside Hh) as [H1 H2 H3 _ _ _ _ _ _].
  split; [exact H1|]. split; [exact H2|]. split; [exact H3|exact Hsh].
Qed.

(* ================= 5. composition with the three reconfiguration calls ================= *)
Definition reconf3 (o : op) : bool :=
  match o with OSetRoleManager _ | OSetEffector | OAddFunction _ _ => true | _ => false end.

Lemma reached_obs : forall s, Reached s -> shallow (f_rm_max (e_fs s)) (f_rm (e_fs s)) -> ObsSynced s.
Proof.
  intros s [H1 H2 H3 _ _ _ _ _ _] Hsh. split; [exact H1|]. split; [exact H2|]. split; [exact H3|exact Hsh].
Qed.

Lemma reached_gfuns_exact : forall s, Reached s ->
  no_leftover (f_gfuns (e_fs s)) (e_model s) = true ->
  gfuns_exactb (f_gfuns (e_fs s)) (e_model s) = true.
Proof.
  intros s [_ _ _ _ _ _ _ Hgd Hgc] Hnl. unfold gfuns_exactb. rewrite Hgd, Hgc, Hnl. reflexivity.
Qed.

(* against the enforcer built from the model store used as the definition *)
Theorem reached_reconf_cur : forall s o s' b,
  Reached s -> shallow (f_rm_max (e_fs s)) (f_rm (e_fs s)) ->
  no_leftover (f_gfuns (e_fs s)) (e_model s) = true ->
  reconf3 o = true -> step s o = (s', Ok b) ->
  exists sf, fresh_from (cur_def s') (e_adapter s') s' = (sf, Ok true) /\
             forall ptab q, ans_eq (ask ptab s' q) (ask ptab sf q).
Proof.
  intros s o s' b Hr Hsh Hnl Ho Hstep.
  pose proof (reached_obs s Hr Hsh) as Hobs.
  pose proof (reached_gfuns_exact s Hr Hnl) as Hgx.
  pose proof (rc_unfiltered s Hr) as Hnf. pose proof (rc_build s Hr) as Hab.
  destruct o; try discriminate.
  - destruct (obs_set_role_manager_fresh s maxd s' b Hstep Hobs Hab Hnf Hnl) as (sf & Hf & Hans & _).
    exists sf. auto.
  - apply (obs_set_effector_fresh s s' b Hstep Hobs Hnf Hgx).
  - destruct (obs_add_function_fresh s name u s' b Hstep Hobs Hnf Hgx) as (sf & Hf & Hans & _).
    exists sf. auto.
Qed.

(* against fresh_of: the enforcer built from the re-parsed definition *)
Theorem reached_reconf_fresh_of : forall s o s' b,
  Reached s -> shallow (f_rm_max (e_fs s)) (f_rm (e_fs s)) ->
  no_leftover (f_gfuns (e_fs s)) (e_model s) = true ->
  reparse_ok (e_model s) = true ->
  reconf3 o = true -> step s o = (s', Ok b) ->
  exists sf, fresh_of s' = (sf, Ok true) /\
             forall ptab q, ans_eq (ask ptab s' q) (ask ptab sf q).
Proof.
  intros s o s' b Hr Hsh Hnl Hrp Ho Hstep.
  pose proof (reached_obs s Hr Hsh) as Hobs.
  pose proof (reached_gfuns_exact s Hr Hnl) as Hgx.
  pose proof (rc_unfiltered s Hr) as Hnf. pose proof (rc_build s Hr) as Hab.
  destruct o; try discriminate.
  - destruct (obs_set_role_manager_fresh_of s maxd s' b Hstep Hobs Hab Hnf Hnl Hrp)
      as (sf & Hf & Hans & _).
    exists sf. auto.
  - apply (obs_set_effector_fresh_of s s' b Hstep Hobs Hnf Hgx Hrp).
  - apply (obs_add_function_fresh_of s name u s' b Hstep Hobs Hnf Hgx Hrp).
Qed.
