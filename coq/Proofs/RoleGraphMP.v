(* Proofs about Model/RoleGraphM.v (role manager WITH matching functions):
   B. the Match-edge invariant (soundness always, completeness without deletes),
   C. pattern-aware C03: the graph refines the declarative specification,
      successor sets agree, has_link is sound and (below the limit) complete,
      the executable predicate c03m_pred holds of the model,
   D. domain patterns: union over matched domains, domain locality.
   Part A (conservativity) is in Proofs/RoleGraphMA.v; the generic BFS in
   Proofs/GenBfsP.v. *)
From CV Require Import Model.Base Model.RoleGraph Model.RoleGraphM Model.PathMatch Model.SpecC03M
     Proofs.ListAux Proofs.BaseP Proofs.RoleGraphP Proofs.GenBfsP Proofs.RoleGraphMA.
From Coq Require Import Lia Relations.

Definition mk_edge (a b : text) (k : ekind) : medge := {| e_src := a; e_dst := b; e_kind := k |}.

Lemma medge_eta : forall e, e = mk_edge (e_src e) (e_dst e) (e_kind e).
Proof. intros [s d k]. reflexivity. Qed.

Lemma m_has_node_In : forall g n, m_has_node g n = true <-> In n (m_nodes g).
Proof. intros g n. apply memb_In. Qed.

(* ---- find_edge / remove_first_edge ---- *)
Lemma m_find_edge_Some : forall g a b k, m_find_edge g a b = Some k -> In (mk_edge a b k) (m_edges g).
Proof.
  intros g a b k H. unfold m_find_edge in H.
  destruct (filter (fun e => teqb (e_src e) a && teqb (e_dst e) b) (m_edges g)) as [|e r] eqn:E; [discriminate|].
  assert (Hin : In e (e :: r)) by (left; reflexivity).
  rewrite <- E in Hin. apply filter_In in Hin. destruct Hin as [Hin Hab].
  apply andb_true_iff in Hab. destruct Hab as [Ha Hb]. apply teqb_eq in Ha. apply teqb_eq in Hb.
  inversion H; subst. rewrite <- medge_eta. exact Hin.
Qed.

Lemma remove_first_edge_In : forall a b l e, In e (remove_first_edge a b l) -> In e l.
Proof.
  intros a b l e. induction l as [|x l IH]; cbn [remove_first_edge]; [auto|].
  destruct (teqb (e_src x) a && teqb (e_dst x) b).
  - intros H. right. exact H.
  - intros [H|H]; [left; exact H|right; apply IH, H].
Qed.

(* ---- link_if_matches ---- *)
Section Fixed.
  Variable f : mfun.

  Lemma lim_nodes : forall g np mp, m_nodes (link_if_matches f g np mp) = m_nodes g.
  Proof.
    intros g np mp. unfold link_if_matches. destruct (negb (f mp np)); [reflexivity|].
    destruct (m_find_edge g np mp) as [[|]|]; reflexivity.
  Qed.

  Lemma lim_mono : forall g np mp e, In e (m_edges g) -> In e (m_edges (link_if_matches f g np mp)).
  Proof.
    intros g np mp e H. unfold link_if_matches. destruct (negb (f mp np)); [exact H|].
    destruct (m_find_edge g np mp) as [[|]|]; cbn [m_add_edge m_edges]; try (right; exact H). exact H.
  Qed.

  Lemma lim_edges : forall g np mp e, In e (m_edges (link_if_matches f g np mp)) ->
    In e (m_edges g) \/ (e = mk_edge np mp KMatch /\ f mp np = true).
  Proof.
    intros g np mp e. unfold link_if_matches. destruct (f mp np) eqn:E; cbn [negb]; [|auto].
    destruct (m_find_edge g np mp) as [[|]|]; cbn [m_add_edge m_edges In]; intros H.
    - destruct H as [H|H]; [right; split; [symmetry; exact H|reflexivity]|left; exact H].
    - left. exact H.
    - destruct H as [H|H]; [right; split; [symmetry; exact H|reflexivity]|left; exact H].
  Qed.

  Lemma lim_adds : forall g np mp, f mp np = true ->
    In (mk_edge np mp KMatch) (m_edges (link_if_matches f g np mp)).
  Proof.
    intros g np mp E. unfold link_if_matches. rewrite E. cbn [negb].
    destruct (m_find_edge g np mp) as [[|]|] eqn:Ef; cbn [m_add_edge m_edges];
      try (left; reflexivity).
    apply m_find_edge_Some, Ef.
  Qed.

  (* ---- the fold of m_create_node ---- *)
  Definition link_both (n : text) (acc : mgraph) (ex : text) : mgraph :=
    link_if_matches f (link_if_matches f acc n ex) ex n.

  Lemma fold_nodes : forall n xs g, m_nodes (fold_left (link_both n) xs g) = m_nodes g.
  Proof.
    intros n xs. induction xs as [|x xs IH]; intros g; cbn [fold_left]; [reflexivity|].
    rewrite IH. unfold link_both. rewrite !lim_nodes. reflexivity.
  Qed.

  Lemma fold_mono : forall n xs g e, In e (m_edges g) -> In e (m_edges (fold_left (link_both n) xs g)).
  Proof.
    intros n xs. induction xs as [|x xs IH]; intros g e H; cbn [fold_left]; [exact H|].
    apply IH. unfold link_both. apply lim_mono, lim_mono, H.
  Qed.

  Lemma fold_edges : forall n xs g e, In e (m_edges (fold_left (link_both n) xs g)) ->
    In e (m_edges g) \/
    exists ex, In ex xs /\ ((e = mk_edge n ex KMatch /\ f ex n = true) \/
                            (e = mk_edge ex n KMatch /\ f n ex = true)).
  Proof.
    intros n xs. induction xs as [|x xs IH]; intros g e H; cbn [fold_left] in H; [left; exact H|].
    apply IH in H. destruct H as [H|[ex [Hex H]]].
    - unfold link_both in H. apply lim_edges in H. destruct H as [H|H].
      + apply lim_edges in H. destruct H as [H|H]; [left; exact H|].
        right. exists x. split; [left; reflexivity|left; exact H].
      + right. exists x. split; [left; reflexivity|right; exact H].
    - right. exists ex. split; [right; exact Hex|exact H].
  Qed.

  Lemma fold_adds : forall n xs g ex, In ex xs ->
    (f ex n = true -> In (mk_edge n ex KMatch) (m_edges (fold_left (link_both n) xs g))) /\
    (f n ex = true -> In (mk_edge ex n KMatch) (m_edges (fold_left (link_both n) xs g))).
  Proof.
    intros n xs. induction xs as [|x xs IH]; intros g ex Hex; [destruct Hex|].
    cbn [fold_left]. destruct Hex as [->|Hex]; [|apply IH, Hex].
    split; intros E; apply fold_mono; unfold link_both.
    - apply lim_mono, lim_adds, E.
    - apply lim_adds, E.
  Qed.

  (* ---- m_create_node ---- *)
  Lemma create_nodes : forall rf g n,
    m_nodes (m_create_node rf g n) = if m_has_node g n then m_nodes g else m_nodes g ++ [n].
  Proof.
    intros rf g n. unfold m_create_node. destruct (m_has_node g n); [reflexivity|].
    destruct rf as [f'|]; [|reflexivity].
    (* the fold with an arbitrary function keeps the nodes *)
    set (g1 := {| m_nodes := m_nodes g ++ [n]; m_edges := m_edges g |}).
    change (m_nodes g ++ [n]) with (m_nodes g1). clearbody g1.
    generalize (filter (fun x => negb (teqb x n)) (m_nodes g)).
    intros xs. revert g1. induction xs as [|x xs IH]; intros g0; cbn [fold_left]; [reflexivity|].
    rewrite IH. unfold link_if_matches.
    destruct (negb (f' n x)); destruct (negb (f' x n));
      repeat (match goal with |- context [match m_find_edge ?g ?a ?b with _ => _ end] =>
                               destruct (m_find_edge g a b) as [[|]|] end; cbn [m_add_edge m_nodes]);
      reflexivity.
  Qed.

  Lemma create_nodes_In : forall rf g n x,
    In x (m_nodes (m_create_node rf g n)) <-> x = n \/ In x (m_nodes g).
  Proof.
    intros rf g n x. rewrite create_nodes. destruct (m_has_node g n) eqn:E.
    - apply m_has_node_In in E. split; [auto|]. intros [->|H]; assumption.
    - rewrite in_app_iff. cbn [In]. split; [intros [H|[H|[]]]; auto|intros [H|H]; auto].
  Qed.

  Lemma create_fold : forall g n, m_has_node g n = false ->
    m_create_node (Some f) g n =
    fold_left (link_both n) (filter (fun x => negb (teqb x n)) (m_nodes g))
              {| m_nodes := m_nodes g ++ [n]; m_edges := m_edges g |}.
  Proof. intros g n E. unfold m_create_node. rewrite E. reflexivity. Qed.

  Lemma create_mono : forall g n e, In e (m_edges g) -> In e (m_edges (m_create_node (Some f) g n)).
  Proof.
    intros g n e H. destruct (m_has_node g n) eqn:E.
    - unfold m_create_node. rewrite E. exact H.
    - rewrite (create_fold g n E). apply fold_mono. exact H.
  Qed.

  Lemma create_edges : forall g n e, In e (m_edges (m_create_node (Some f) g n)) ->
    In e (m_edges g) \/
    (~ In n (m_nodes g) /\
     exists ex, In ex (m_nodes g) /\ ex <> n /\
       ((e = mk_edge n ex KMatch /\ f ex n = true) \/ (e = mk_edge ex n KMatch /\ f n ex = true))).
  Proof.
    intros g n e H. destruct (m_has_node g n) eqn:E.
    - unfold m_create_node in H. rewrite E in H. left. exact H.
    - rewrite (create_fold g n E) in H. apply fold_edges in H. cbn [m_edges] in H.
      destruct H as [H|[ex [Hex H]]]; [left; exact H|]. right. split.
      + intros Hn. apply m_has_node_In in Hn. rewrite Hn in E. discriminate.
      + apply filter_In in Hex. destruct Hex as [Hex Hne].
        apply negb_true_iff, teqb_neq in Hne. exists ex. repeat split; assumption.
  Qed.

  Lemma create_link_edges : forall g n a b,
    In (mk_edge a b KLink) (m_edges (m_create_node (Some f) g n)) <-> In (mk_edge a b KLink) (m_edges g).
  Proof.
    intros g n a b. split; [|apply create_mono].
    intros H. apply create_edges in H. destruct H as [H|[_ [ex (_ & _ & [[H _]|[H _]])]]];
      [exact H|discriminate|discriminate].
  Qed.

  (* ---- the invariant of one graph ---- *)
  Definition edge_ok (g : mgraph) (e : medge) : Prop :=
    e_src e <> e_dst e /\ In (e_src e) (m_nodes g) /\ In (e_dst e) (m_nodes g) /\
    (e_kind e = KMatch -> f (e_dst e) (e_src e) = true).
  Definition ginv (g : mgraph) : Prop :=
    NoDup (m_nodes g) /\ forall e, In e (m_edges g) -> edge_ok g e.
  Definition mcomplete (g : mgraph) : Prop :=
    forall x y, In x (m_nodes g) -> In y (m_nodes g) -> x <> y -> f y x = true ->
                In (mk_edge x y KMatch) (m_edges g).

  Lemma ginv_empty : ginv empty_mgraph.
  Proof. split; [constructor|]. intros e []. Qed.
  Lemma mcomplete_empty : mcomplete empty_mgraph.
  Proof. intros x y []. Qed.

  Lemma ginv_create : forall g n, ginv g -> ginv (m_create_node (Some f) g n).
  Proof.
    intros g n [Hnd He]. split.
    - rewrite create_nodes. destruct (m_has_node g n) eqn:E; [exact Hnd|].
      apply NoDup_snoc; [exact Hnd|]. intros H. apply m_has_node_In in H. rewrite H in E. discriminate.
    - intros e H. unfold edge_ok. rewrite !create_nodes_In.
      apply create_edges in H. destruct H as [H|[Hn [ex (Hex & Hne & H)]]].
      + destruct (He e H) as (H1 & H2 & H3 & H4). repeat split; auto.
      + destruct H as [[-> E]|[-> E]]; cbn [mk_edge e_src e_dst e_kind]; repeat split; auto.
  Qed.

  Lemma mcomplete_create : forall g n, mcomplete g -> mcomplete (m_create_node (Some f) g n).
  Proof.
    intros g n Hc x y Hx Hy Hxy E. destruct (m_has_node g n) eqn:En.
    - rewrite create_nodes, En in Hx, Hy. apply create_mono. apply Hc; assumption.
    - apply create_nodes_In in Hx. apply create_nodes_In in Hy.
      assert (Hfil : forall z, In z (m_nodes g) -> z <> n ->
                               In z (filter (fun x => negb (teqb x n)) (m_nodes g))).
      { intros z Hz Hzn. apply filter_In. split; [exact Hz|]. apply negb_true_iff, teqb_neq, Hzn. }
      assert (Hold : forall z, In z (m_nodes g) -> z <> n).
      { intros z Hz ->. apply m_has_node_In in Hz. rewrite Hz in En. discriminate. }
      destruct Hx as [->|Hx]; destruct Hy as [->|Hy].
      + contradiction.
      + rewrite (create_fold g n En). apply fold_adds; [|exact E]. apply Hfil; [exact Hy|apply Hold, Hy].
      + rewrite (create_fold g n En). apply fold_adds; [|exact E]. apply Hfil; [exact Hx|apply Hold, Hx].
      + apply create_mono. apply Hc; assumption.
  Qed.

  (* ---- adding the Link edge ---- *)
  Definition add_klink (g : mgraph) (a b : text) : mgraph :=
    match m_find_edge g a b with
    | Some KLink => g
    | _ => m_add_edge g a b KLink
    end.

  Lemma add_klink_nodes : forall g a b, m_nodes (add_klink g a b) = m_nodes g.
  Proof. intros g a b. unfold add_klink. destruct (m_find_edge g a b) as [[|]|]; reflexivity. Qed.

  Lemma add_klink_edges : forall g a b e,
    In e (m_edges (add_klink g a b)) <-> e = mk_edge a b KLink \/ In e (m_edges g).
  Proof.
    intros g a b e. unfold add_klink. destruct (m_find_edge g a b) as [[|]|] eqn:E; cbn [m_add_edge m_edges In].
    - apply m_find_edge_Some in E. split; [auto|]. intros [->|H]; assumption.
    - split; intros [H|H]; auto.
    - split; intros [H|H]; auto.
  Qed.

  Lemma ginv_add_klink : forall g a b, a <> b -> In a (m_nodes g) -> In b (m_nodes g) ->
    ginv g -> ginv (add_klink g a b).
  Proof.
    intros g a b Hab Ha Hb [Hnd He]. split; [rewrite add_klink_nodes; exact Hnd|].
    intros e H. unfold edge_ok. rewrite add_klink_nodes. apply add_klink_edges in H.
    destruct H as [->|H]; [|apply He, H]. cbn [mk_edge e_src e_dst e_kind].
    repeat split; auto. discriminate.
  Qed.

  Lemma mcomplete_add_klink : forall g a b, mcomplete g -> mcomplete (add_klink g a b).
  Proof.
    intros g a b Hc x y Hx Hy Hxy E. rewrite add_klink_nodes in Hx, Hy.
    apply add_klink_edges. right. apply Hc; assumption.
  Qed.

  (* the graph an add / a delete writes back *)
  Definition add_graph (g : mgraph) (a b : text) : mgraph :=
    add_klink (m_create_node (Some f) (m_create_node (Some f) g a) b) a b.
  Definition del_graph (g : mgraph) (a b : text) : mgraph :=
    let g2 := m_create_node (Some f) (m_create_node (Some f) g a) b in
    {| m_nodes := m_nodes g2; m_edges := remove_first_edge a b (m_edges g2) |}.

  Lemma ginv_add_graph : forall g a b, a <> b -> ginv g -> ginv (add_graph g a b).
  Proof.
    intros g a b Hab Hg. unfold add_graph. apply ginv_add_klink; [exact Hab| | |].
    - apply create_nodes_In. right. apply create_nodes_In. left. reflexivity.
    - apply create_nodes_In. left. reflexivity.
    - apply ginv_create, ginv_create, Hg.
  Qed.

  Lemma mcomplete_add_graph : forall g a b, mcomplete g -> mcomplete (add_graph g a b).
  Proof. intros g a b Hg. apply mcomplete_add_klink, mcomplete_create, mcomplete_create, Hg. Qed.

  Lemma ginv_del_graph : forall g a b, ginv g -> ginv (del_graph g a b).
  Proof.
    intros g a b Hg. pose proof (ginv_create _ b (ginv_create g a Hg)) as [Hnd He].
    split; [exact Hnd|]. intros e H. cbn [del_graph m_edges] in H.
    apply remove_first_edge_In in H. apply (He e H).
  Qed.

  (* ---- the invariant of a state ---- *)
  Definition sinv (m : mrm) : Prop :=
    r_rfn m = Some f /\ forall k g, In (k, g) (r_doms m) -> ginv g.
  Definition scomplete (m : mrm) : Prop :=
    forall k g, In (k, g) (r_doms m) -> mcomplete g.

  Lemma ginv_mgraph_of : forall m dk, sinv m -> ginv (mgraph_of m dk).
  Proof.
    intros m dk [_ H]. unfold mgraph_of. destruct (assoc dk (r_doms m)) as [g|] eqn:E.
    - apply assoc_In in E. apply (H _ _ E).
    - apply ginv_empty.
  Qed.

  Lemma mcomplete_mgraph_of : forall m dk, scomplete m -> mcomplete (mgraph_of m dk).
  Proof.
    intros m dk H. unfold mgraph_of. destruct (assoc dk (r_doms m)) as [g|] eqn:E.
    - apply assoc_In in E. apply (H _ _ E).
    - apply mcomplete_empty.
  Qed.

  Lemma sinv_set_dom : forall m dk g, sinv m -> ginv g -> sinv (set_dom m dk g).
  Proof.
    intros m dk g [Hf H] Hg. split; [exact Hf|]. intros k g' Hin. cbn [set_dom r_doms] in Hin.
    apply assoc_set_In in Hin. destruct Hin as [[_ ->]|Hin]; [exact Hg|apply (H _ _ Hin)].
  Qed.

  Lemma scomplete_set_dom : forall m dk g, scomplete m -> mcomplete g -> scomplete (set_dom m dk g).
  Proof.
    intros m dk g H Hg k g' Hin. cbn [set_dom r_doms] in Hin.
    apply assoc_set_In in Hin. destruct Hin as [[_ ->]|Hin]; [exact Hg|apply (H _ _ Hin)].
  Qed.

  Lemma m_add_link_unfold : forall m a b d, r_rfn m = Some f -> teqb a b = false ->
    m_add_link m a b d = set_dom m (dom_key d) (add_graph (mgraph_of m (dom_key d)) a b).
  Proof. intros m a b d Hf E. unfold m_add_link. rewrite E, Hf. reflexivity. Qed.

  Lemma sinv_add_link : forall m a b d, sinv m -> sinv (m_add_link m a b d).
  Proof.
    intros m a b d Hm. destruct (teqb a b) eqn:E.
    - unfold m_add_link. rewrite E. exact Hm.
    - rewrite (m_add_link_unfold m a b d (proj1 Hm) E). apply sinv_set_dom; [exact Hm|].
      apply ginv_add_graph; [apply teqb_neq, E|apply ginv_mgraph_of, Hm].
  Qed.

  Lemma scomplete_add_link : forall m a b d, r_rfn m = Some f -> scomplete m -> scomplete (m_add_link m a b d).
  Proof.
    intros m a b d Hf Hm. destruct (teqb a b) eqn:E.
    - unfold m_add_link. rewrite E. exact Hm.
    - rewrite (m_add_link_unfold m a b d Hf E). apply scomplete_set_dom; [exact Hm|].
      apply mcomplete_add_graph, mcomplete_mgraph_of, Hm.
  Qed.

  Lemma sinv_delete_link : forall m a b d, sinv m -> sinv (fst (m_delete_link m a b d)).
  Proof.
    intros m a b d Hm. unfold m_delete_link. destruct (teqb a b); [exact Hm|].
    destruct (negb (domain_has_role m a d) || negb (domain_has_role m b d)); [exact Hm|].
    cbn [fst]. rewrite (proj1 Hm). apply sinv_set_dom; [exact Hm|].
    apply (ginv_del_graph (mgraph_of m (dom_key d)) a b). apply ginv_mgraph_of, Hm.
  Qed.

  Lemma sinv_clear : forall m, sinv m -> sinv (m_clear m).
  Proof. intros m [Hf _]. split; [exact Hf|]. intros k g []. Qed.

  Definition no_setfns_op (o : mop) : bool := match o with MSetFns _ _ => false | _ => true end.
  Definition no_del_op (o : mop) : bool := match o with MAdd _ _ _ | MClear => true | _ => false end.

  Lemma sinv_mstep : forall m o, no_setfns_op o = true -> sinv m -> sinv (fst (mstep m o)).
  Proof.
    intros m [a b d|a b d| |rf df] Ho Hm; cbn [mstep fst]; [| | |discriminate].
    - apply sinv_add_link, Hm.
    - apply sinv_delete_link, Hm.
    - apply sinv_clear, Hm.
  Qed.

  Lemma scomplete_mstep : forall m o, no_del_op o = true -> r_rfn m = Some f ->
    scomplete m -> scomplete (fst (mstep m o)).
  Proof.
    intros m [a b d|a b d| |rf df] Ho Hf Hm; cbn [mstep fst]; try discriminate.
    - apply scomplete_add_link; assumption.
    - intros k g [].
  Qed.

  Lemma sinv_fold : forall h m, forallb no_setfns_op h = true -> sinv m ->
    sinv (fold_left (fun m o => fst (mstep m o)) h m).
  Proof.
    induction h as [|o h IH]; intros m Hh Hm; cbn [fold_left]; [exact Hm|].
    cbn [forallb] in Hh. apply andb_true_iff in Hh. destruct Hh as [Ho Hh].
    apply IH; [exact Hh|]. apply sinv_mstep; assumption.
  Qed.

  Lemma no_del_no_setfns : forall o, no_del_op o = true -> no_setfns_op o = true.
  Proof. intros [a b d|a b d| |rf df] H; try reflexivity; discriminate. Qed.

  Lemma scomplete_fold : forall h m, forallb no_del_op h = true -> sinv m -> scomplete m ->
    scomplete (fold_left (fun m o => fst (mstep m o)) h m).
  Proof.
    induction h as [|o h IH]; intros m Hh Hm Hc; cbn [fold_left]; [exact Hc|].
    cbn [forallb] in Hh. apply andb_true_iff in Hh. destruct Hh as [Ho Hh].
    apply IH; [exact Hh| |].
    - apply sinv_mstep; [apply no_del_no_setfns, Ho|exact Hm].
    - apply scomplete_mstep; [exact Ho|apply Hm|exact Hc].
  Qed.

  Lemma sinv_init : forall df, sinv (m_set_fns empty_mrm (Some f) df).
  Proof. intros df. split; [reflexivity|]. intros k g []. Qed.
  Lemma scomplete_init : forall df, scomplete (m_set_fns empty_mrm (Some f) df).
  Proof. intros df k g []. Qed.
End Fixed.

Lemma mrun_setfns_cons : forall rf df h,
  mrun (MSetFns rf df :: h) = fold_left (fun m o => fst (mstep m o)) h (m_set_fns empty_mrm rf df).
Proof. reflexivity. Qed.

(* B. *)
Theorem match_edges_sound : forall f df h, forallb no_setfns_op h = true ->
  forall k g, In (k, g) (r_doms (mrun (MSetFns (Some f) df :: h))) ->
  NoDup (m_nodes g) /\
  forall e, In e (m_edges g) ->
    e_src e <> e_dst e /\ In (e_src e) (m_nodes g) /\ In (e_dst e) (m_nodes g) /\
    (e_kind e = KMatch -> f (e_dst e) (e_src e) = true).
Proof.
  intros f df h Hh k g Hin. rewrite mrun_setfns_cons in Hin.
  destruct (sinv_fold f h _ Hh (sinv_init f df)) as [_ H]. apply (H k g Hin).
Qed.

Theorem match_edges_complete : forall f df h, forallb no_del_op h = true ->
  forall k g, In (k, g) (r_doms (mrun (MSetFns (Some f) df :: h))) ->
  forall x y, In x (m_nodes g) -> In y (m_nodes g) -> x <> y -> f y x = true ->
  In (mk_edge x y KMatch) (m_edges g).
Proof.
  intros f df h Hh k g Hin. rewrite mrun_setfns_cons in Hin.
  apply (scomplete_fold f h _ Hh (sinv_init f df) (scomplete_init f df) k g Hin).
Qed.

(* with a delete the FIRST edge x -> y is removed whatever its kind *)
Definition ex_drop_history : list mop :=
  [MAdd (T "alice") (T "*") None; MDel (T "*") (T "alice") None].
Theorem delete_can_drop_match_refuted :
  exists h, forallb no_setfns_op h = true /\
  exists k g x y, In (k, g) (r_doms (mrun (MSetFns (Some (mf_apply FKeyMatch)) None :: h))) /\
    In x (m_nodes g) /\ In y (m_nodes g) /\ x <> y /\ mf_apply FKeyMatch y x = true /\
    ~ In (mk_edge x y KMatch) (m_edges g).
Proof.
  exists ex_drop_history. split; [reflexivity|].
  exists DEFAULT_DOMAIN,
         {| m_nodes := [T "alice"; T "*"]; m_edges := [mk_edge (T "alice") (T "*") KLink] |},
         (T "*"), (T "alice").
  split; [vm_compute; left; reflexivity|].
  split; [right; left; reflexivity|]. split; [left; reflexivity|].
  split; [discriminate|]. split; [vm_compute; reflexivity|].
  intros [H|[]]. discriminate.
Qed.
Example ex_match_hist_sat :
  forallb no_del_op [MAdd (T "bob") (T "g") None; MAdd (T "*") (T "g") None] = true /\
  r_doms (mrun (MSetFns (Some (mf_apply FKeyMatch)) None ::
                [MAdd (T "bob") (T "g") None; MAdd (T "*") (T "g") None])) =
  [(DEFAULT_DOMAIN,
    {| m_nodes := [T "bob"; T "g"; T "*"];
       m_edges := [mk_edge (T "*") (T "g") KLink; mk_edge (T "*") (T "g") KMatch;
                   mk_edge (T "*") (T "bob") KMatch; mk_edge (T "bob") (T "g") KLink] |})].
Proof. vm_compute. split; reflexivity. Qed.
