(* C09 — stored policy and in-memory policy stay identical: proofs. *)
From CV Require Import Model.Base Model.Effector Model.RoleGraph Model.PathMatch
     Model.Expr Model.Enforce Model.Engine Model.SpecC09.
From CV Require Import Proofs.ListAux Proofs.BaseP.
From Coq Require Import Lia.

(* ================= ordered-set helpers ================= *)
Lemma rmem_In : forall r l, rmem r l = true <-> In r l.
Proof. intros. unfold rmem. apply memb_reqb_In. Qed.
Lemma rmem_nIn : forall r l, rmem r l = false <-> ~ In r l.
Proof.
  intros r l. split.
  - intros H Hin. apply rmem_In in Hin. congruence.
  - intros H. destruct (rmem r l) eqn:E; [|reflexivity]. apply rmem_In in E. contradiction.
Qed.

Lemma rmem_ext : forall r l l', (In r l <-> In r l') -> rmem r l = rmem r l'.
Proof.
  intros r l l' H. destruct (rmem r l') eqn:E.
  - apply rmem_In. apply H. apply rmem_In. exact E.
  - apply rmem_nIn. intros Hin. apply H in Hin. apply rmem_In in Hin. congruence.
Qed.

Lemma rremove_In : forall x r l, In x (rremove r l) <-> In x l /\ x <> r.
Proof.
  intros x r l. unfold rremove. rewrite filter_In. split; intros [H1 H2]; split; auto.
  - intros ->. rewrite reqb_refl in H2. discriminate.
  - apply negb_true_iff. apply reqb_neq. exact H2.
Qed.

Lemma rremove_notin : forall r l, ~ In r l -> rremove r l = l.
Proof.
  intros r l. unfold rremove. induction l as [|x l IH]; cbn [filter]; intros H; [reflexivity|].
  destruct (reqb x r) eqn:E; cbn [negb].
  - apply reqb_eq in E. subst. exfalso. apply H. left. reflexivity.
  - rewrite IH; [reflexivity|]. intros Hin. apply H. right. exact Hin.
Qed.

Lemma NoDup_rremove : forall r l, NoDup l -> NoDup (rremove r l).
Proof. intros. unfold rremove. apply NoDup_filter. assumption. Qed.

Lemma NoDup_ins_new : forall l r, NoDup l -> NoDup (ins_new l r).
Proof.
  intros l r H. unfold ins_new. destruct (rmem r l) eqn:E; [exact H|].
  apply NoDup_snoc; [exact H|]. apply rmem_nIn. exact E.
Qed.

Lemma NoDup_fold_ins_new : forall rs l, NoDup l -> NoDup (fold_left ins_new rs l).
Proof.
  induction rs as [|r rs IH]; intros l H; cbn [fold_left]; [exact H|].
  apply IH. apply NoDup_ins_new. exact H.
Qed.

Lemma NoDup_fold_rremove : forall rs l, NoDup l -> NoDup (fold_left (fun l r => rremove r l) rs l).
Proof.
  induction rs as [|r rs IH]; intros l H; cbn [fold_left]; [exact H|].
  apply IH. apply NoDup_rremove. exact H.
Qed.

Lemma oset_insert_fresh : forall l r, ~ In r l -> oset_insert l r = l ++ [r].
Proof. intros l r H. unfold oset_insert. apply rmem_nIn in H. rewrite H. reflexivity. Qed.

Lemma fold_oset_insert_app : forall rs l, NoDup (l ++ rs) -> fold_left oset_insert rs l = l ++ rs.
Proof.
  induction rs as [|r rs IH]; intros l H; cbn [fold_left].
  - rewrite app_nil_r. reflexivity.
  - assert (Hr : ~ In r l).
    { intros Hin. apply (NoDup_app_disj l (r :: rs) r H Hin). left. reflexivity. }
    rewrite oset_insert_fresh by exact Hr.
    rewrite IH; rewrite <- app_assoc; cbn [app]; [reflexivity|exact H].
Qed.

Lemma fold_oset_insert_nil : forall rs, NoDup rs -> fold_left oset_insert rs [] = rs.
Proof. intros rs H. rewrite fold_oset_insert_app; [reflexivity|exact H]. Qed.

Lemma fold_ins_new_nodup : forall rs l, NoDup (l ++ rs) -> fold_left ins_new rs l = l ++ rs.
Proof.
  induction rs as [|r rs IH]; intros l H; cbn [fold_left].
  - rewrite app_nil_r. reflexivity.
  - assert (Hr : ~ In r l).
    { intros Hin. apply (NoDup_app_disj l (r :: rs) r H Hin). left. reflexivity. }
    unfold ins_new at 2. apply rmem_nIn in Hr. rewrite Hr.
    rewrite IH; rewrite <- app_assoc; cbn [app]; [reflexivity|exact H].
Qed.

(* boolean reflections *)
Lemma nodupb_NoDup : forall l, nodupb l = true <-> NoDup l.
Proof.
  induction l as [|x l IH]; cbn [nodupb].
  - split; [constructor|reflexivity].
  - rewrite andb_true_iff, negb_true_iff, IH, rmem_nIn. split.
    + intros [H1 H2]. constructor; assumption.
    + intros H. inversion H; subst. split; assumption.
Qed.

Lemma tnodupb_NoDup : forall l, tnodupb l = true <-> NoDup l.
Proof.
  induction l as [|x l IH]; cbn [tnodupb].
  - split; [constructor|reflexivity].
  - rewrite andb_true_iff, negb_true_iff, IH, memb_not_In. split.
    + intros [H1 H2]. constructor; assumption.
    + intros H. inversion H; subst. split; assumption.
Qed.

Lemma rules_eqb_eq : forall a b, rules_eqb a b = true <-> a = b.
Proof. apply list_eqb_eq. exact reqb_eq. Qed.

(* ================= lines_for ================= *)
Lemma line_of_mem_line : forall sec pt sec' pt' r,
  line_of sec' pt' (mem_line sec pt r) = teqb sec sec' && teqb pt pt'.
Proof. reflexivity. Qed.

Lemma line_of_shape : forall sec pt ln, line_of sec pt ln = true ->
  ln = sec :: pt :: skipn 2 ln.
Proof.
  intros sec pt [|s [|p f]]; cbn [line_of]; try discriminate.
  intros H. apply andb_true_iff in H. destruct H as [H1 H2].
  apply teqb_eq in H1. apply teqb_eq in H2. subst. reflexivity.
Qed.

Lemma line_of_inv : forall sec pt ln, line_of sec pt ln = true -> exists f, ln = sec :: pt :: f.
Proof. intros sec pt ln H. exists (skipn 2 ln). apply line_of_shape, H. Qed.

Lemma lines_for_nil : forall sec pt, lines_for sec pt [] = [].
Proof. reflexivity. Qed.

Lemma lines_for_cons : forall sec pt ln l,
  lines_for sec pt (ln :: l) =
  if line_of sec pt ln then skipn 2 ln :: lines_for sec pt l else lines_for sec pt l.
Proof. intros. unfold lines_for. cbn [filter]. destruct (line_of sec pt ln); reflexivity. Qed.

Lemma lines_for_app : forall sec pt l1 l2,
  lines_for sec pt (l1 ++ l2) = lines_for sec pt l1 ++ lines_for sec pt l2.
Proof. intros. unfold lines_for. rewrite filter_app, map_app. reflexivity. Qed.

Lemma lines_for_In : forall sec pt l r,
  In r (lines_for sec pt l) <-> In (sec :: pt :: r) l.
Proof.
  intros sec pt l r. unfold lines_for. rewrite in_map_iff. split.
  - intros [ln [Hs Hin]]. apply filter_In in Hin. destruct Hin as [Hin Hl].
    apply line_of_shape in Hl. rewrite Hs in Hl. rewrite <- Hl. exact Hin.
  - intros Hin. exists (sec :: pt :: r). split; [reflexivity|].
    apply filter_In. split; [exact Hin|]. cbn [line_of]. rewrite !teqb_refl. reflexivity.
Qed.

Lemma lines_for_In_gen : forall sec pt l ln, line_of sec pt ln = true ->
  (In (skipn 2 ln) (lines_for sec pt l) <-> In ln l).
Proof.
  intros sec pt l ln H. rewrite lines_for_In. rewrite <- (line_of_shape _ _ _ H). reflexivity.
Qed.

Lemma NoDup_lines_for : forall sec pt l, NoDup l -> NoDup (lines_for sec pt l).
Proof.
  intros sec pt l H. induction H as [|ln l Hn Hl IH].
  - constructor.
  - rewrite lines_for_cons. destruct (line_of sec pt ln) eqn:E; [|exact IH].
    constructor; [|exact IH]. rewrite lines_for_In_gen by exact E. exact Hn.
Qed.

(* "same key" test used everywhere *)
Definition same_key (sec' pt' sec pt : text) : bool := teqb sec sec' && teqb pt pt'.

Lemma same_key_true : forall sec' pt' sec pt,
  same_key sec' pt' sec pt = true <-> sec' = sec /\ pt' = pt.
Proof.
  intros. unfold same_key. rewrite andb_true_iff, !teqb_eq. split; intros [-> ->]; auto.
Qed.

(* a line-level update acts on the view of (sec, pt) by U, elsewhere not at all *)
Definition lines_upd (l : list rule) (sec pt : text) (U : list rule -> list rule) (l' : list rule) : Prop :=
  forall sec' pt', lines_for sec' pt' l' =
                   if same_key sec' pt' sec pt then U (lines_for sec pt l) else lines_for sec' pt' l.

Lemma lines_for_ins_new_gen : forall sec pt l ln,
  lines_for sec pt (ins_new l ln) =
  if line_of sec pt ln then ins_new (lines_for sec pt l) (skipn 2 ln) else lines_for sec pt l.
Proof.
  intros sec pt l ln. unfold ins_new at 1. destruct (line_of sec pt ln) eqn:E.
  - unfold ins_new.
    assert (Hm : rmem ln l = rmem (skipn 2 ln) (lines_for sec pt l)).
    { destruct (rmem (skipn 2 ln) (lines_for sec pt l)) eqn:E2.
      - apply rmem_In. apply rmem_In in E2. apply (lines_for_In_gen _ _ _ _ E). exact E2.
      - apply rmem_nIn. apply rmem_nIn in E2. intros H. apply E2.
        apply (lines_for_In_gen _ _ _ _ E). exact H. }
    rewrite Hm. destruct (rmem (skipn 2 ln) (lines_for sec pt l)); [reflexivity|].
    rewrite lines_for_app, lines_for_cons, E. reflexivity.
  - destruct (rmem ln l); [reflexivity|].
    rewrite lines_for_app, lines_for_cons, E. cbn. rewrite app_nil_r. reflexivity.
Qed.

Lemma lines_upd_ins_new : forall l sec pt r,
  lines_upd l sec pt (fun p => ins_new p r) (ins_new l (mem_line sec pt r)).
Proof.
  intros l sec pt r sec' pt'. rewrite lines_for_ins_new_gen, line_of_mem_line.
  fold (same_key sec' pt' sec pt). destruct (same_key sec' pt' sec pt) eqn:E; [|reflexivity].
  apply same_key_true in E. destruct E as [-> ->]. reflexivity.
Qed.

Lemma lines_for_rremove_gen : forall sec pt l ln,
  lines_for sec pt (rremove ln l) =
  if line_of sec pt ln then rremove (skipn 2 ln) (lines_for sec pt l) else lines_for sec pt l.
Proof.
  intros sec pt l ln. induction l as [|x l IH].
  - cbn. destruct (line_of sec pt ln); reflexivity.
  - unfold rremove at 1. cbn [filter]. fold (rremove ln l).
    destruct (reqb x ln) eqn:Ex; cbn [negb].
    + apply reqb_eq in Ex. subst x. rewrite IH. rewrite lines_for_cons.
      destruct (line_of sec pt ln) eqn:E; [|reflexivity].
      unfold rremove at 2. cbn [filter]. rewrite reqb_refl. cbn [negb]. reflexivity.
    + rewrite !lines_for_cons, IH. destruct (line_of sec pt x) eqn:Ex2.
      * destruct (line_of sec pt ln) eqn:E; [|reflexivity].
        unfold rremove at 2. cbn [filter].
        assert (Hne : reqb (skipn 2 x) (skipn 2 ln) = false).
        { apply reqb_neq. intros Heq. apply reqb_neq in Ex. apply Ex.
          rewrite (line_of_shape _ _ _ Ex2), (line_of_shape _ _ _ E), Heq. reflexivity. }
        rewrite Hne. cbn [negb]. reflexivity.
      * reflexivity.
Qed.

Lemma lines_upd_rremove : forall l sec pt r,
  lines_upd l sec pt (rremove r) (rremove (mem_line sec pt r) l).
Proof.
  intros l sec pt r sec' pt'. rewrite lines_for_rremove_gen, line_of_mem_line.
  fold (same_key sec' pt' sec pt). destruct (same_key sec' pt' sec pt) eqn:E; [|reflexivity].
  apply same_key_true in E. destruct E as [-> ->]. reflexivity.
Qed.

Lemma lines_for_fold_ins_new : forall sec pt X l,
  lines_for sec pt (fold_left ins_new X l) =
  fold_left ins_new (lines_for sec pt X) (lines_for sec pt l).
Proof.
  intros sec pt X. induction X as [|ln X IH]; intros l; cbn [fold_left]; [reflexivity|].
  rewrite IH, lines_for_ins_new_gen, lines_for_cons.
  destruct (line_of sec pt ln); reflexivity.
Qed.

Lemma lines_for_fold_rremove : forall sec pt X l,
  lines_for sec pt (fold_left (fun l r => rremove r l) X l) =
  fold_left (fun l r => rremove r l) (lines_for sec pt X) (lines_for sec pt l).
Proof.
  intros sec pt X. induction X as [|ln X IH]; intros l; cbn [fold_left]; [reflexivity|].
  rewrite IH, lines_for_rremove_gen, lines_for_cons.
  destruct (line_of sec pt ln); reflexivity.
Qed.

Lemma lines_for_map_mem_line : forall sec' pt' sec pt rs,
  lines_for sec' pt' (map (mem_line sec pt) rs) = if same_key sec' pt' sec pt then rs else [].
Proof.
  intros. induction rs as [|r rs IH]; cbn [map].
  - rewrite lines_for_nil. destruct (same_key sec' pt' sec pt); reflexivity.
  - rewrite lines_for_cons, line_of_mem_line, IH. fold (same_key sec' pt' sec pt).
    destruct (same_key sec' pt' sec pt); reflexivity.
Qed.

(* ================= the five set operations at list level ================= *)
Definition addmany_l (pol : list rule) (rs : list rule) : list rule :=
  if existsb (fun r => rmem r pol) rs then pol else fold_left ins_new rs pol.
Definition removemany_l (pol : list rule) (rs : list rule) : list rule :=
  if forallb (fun r => rmem r pol) rs then fold_left (fun l r => rremove r l) rs pol else pol.
Definition fm (idx : nat) (vals : list text) (r : rule) : bool :=
  match fmatch vals (skipn idx r) with Some true => true | _ => false end.
Definition rf_l (idx : nat) (vals : list text) (pol : list rule) : list rule :=
  match vals with [] => pol | _ => filter (fun r => negb (fm idx vals r)) pol end.

Lemma rmem_mem_line : forall sec pt r l,
  rmem (mem_line sec pt r) l = rmem r (lines_for sec pt l).
Proof.
  intros. apply eq_true_iff_eq. rewrite !rmem_In. unfold mem_line.
  rewrite lines_for_In. reflexivity.
Qed.

Lemma existsb_map {A B} (f : A -> B) (p : B -> bool) l :
  existsb p (map f l) = existsb (fun x => p (f x)) l.
Proof. induction l as [|x l IH]; cbn; [reflexivity|]. rewrite IH. reflexivity. Qed.
Lemma forallb_map {A B} (f : A -> B) (p : B -> bool) l :
  forallb p (map f l) = forallb (fun x => p (f x)) l.
Proof. induction l as [|x l IH]; cbn; [reflexivity|]. rewrite IH. reflexivity. Qed.

Lemma existsb_ext' {A} (f g : A -> bool) l : (forall x, f x = g x) -> existsb f l = existsb g l.
Proof. intros H. induction l as [|x l IH]; cbn; [reflexivity|]. rewrite H, IH. reflexivity. Qed.
Lemma forallb_ext' {A} (f g : A -> bool) l : (forall x, f x = g x) -> forallb f l = forallb g l.
Proof. intros H. induction l as [|x l IH]; cbn; [reflexivity|]. rewrite H, IH. reflexivity. Qed.

Lemma lines_upd_id : forall l sec pt, lines_upd l sec pt (fun p => p) l.
Proof.
  intros l sec pt sec' pt'. destruct (same_key sec' pt' sec pt) eqn:E; [|reflexivity].
  apply same_key_true in E. destruct E as [-> ->]. reflexivity.
Qed.

Lemma lines_upd_addmany : forall l sec pt rs,
  lines_upd l sec pt (fun p => addmany_l p rs) (addmany_l l (map (mem_line sec pt) rs)).
Proof.
  intros l sec pt rs sec' pt'. unfold addmany_l.
  rewrite existsb_map.
  rewrite (existsb_ext' _ (fun r => rmem r (lines_for sec pt l)))
    by (intros r; apply rmem_mem_line).
  destruct (existsb (fun r => rmem r (lines_for sec pt l)) rs).
  - apply lines_upd_id.
  - rewrite lines_for_fold_ins_new, lines_for_map_mem_line.
    destruct (same_key sec' pt' sec pt) eqn:E; [|reflexivity].
    apply same_key_true in E. destruct E as [-> ->]. reflexivity.
Qed.

Lemma lines_upd_removemany : forall l sec pt rs,
  lines_upd l sec pt (fun p => removemany_l p rs) (removemany_l l (map (mem_line sec pt) rs)).
Proof.
  intros l sec pt rs sec' pt'. unfold removemany_l.
  rewrite forallb_map.
  rewrite (forallb_ext' _ (fun r => rmem r (lines_for sec pt l)))
    by (intros r; apply rmem_mem_line).
  destruct (forallb (fun r => rmem r (lines_for sec pt l)) rs).
  - rewrite lines_for_fold_rremove, lines_for_map_mem_line.
    destruct (same_key sec' pt' sec pt) eqn:E; [|reflexivity].
    apply same_key_true in E. destruct E as [-> ->]. reflexivity.
  - apply lines_upd_id.
Qed.

Lemma NoDup_addmany : forall l rs, NoDup l -> NoDup (addmany_l l rs).
Proof.
  intros l rs H. unfold addmany_l. destruct (existsb _ rs); [exact H|].
  apply NoDup_fold_ins_new. exact H.
Qed.
Lemma NoDup_removemany : forall l rs, NoDup l -> NoDup (removemany_l l rs).
Proof.
  intros l rs H. unfold removemany_l. destruct (forallb _ rs); [|exact H].
  apply NoDup_fold_rremove. exact H.
Qed.

(* ---- filtered removal ---- *)
Lemma select_filtered_filter : forall idx vals l s,
  select_filtered idx vals l = Some s -> s = filter (fm idx vals) l.
Proof.
  intros idx vals. induction l as [|r l IH]; intros s; cbn [select_filtered filter].
  - intros H. inversion H. reflexivity.
  - unfold fm at 1. destruct (fmatch vals (skipn idx r)) as [b|]; [|discriminate].
    destruct (select_filtered idx vals l) as [s'|]; [|discriminate].
    intros H. inversion H; subst. rewrite (IH s' eq_refl). destruct b; reflexivity.
Qed.

Lemma filter_filter {A} (f g : A -> bool) l :
  filter f (filter g l) = filter (fun x => g x && f x) l.
Proof.
  induction l as [|x l IH]; cbn [filter]; [reflexivity|].
  destruct (g x); cbn [filter andb]; [|exact IH].
  destruct (f x); rewrite IH; reflexivity.
Qed.

Lemma fold_rremove_filter : forall rem pol,
  fold_left (fun l r => rremove r l) rem pol = filter (fun x => negb (rmem x rem)) pol.
Proof.
  induction rem as [|r rem IH]; intros pol; cbn [fold_left].
  - cbn. induction pol as [|x pol IHp]; cbn [filter]; [reflexivity|]. rewrite <- IHp. reflexivity.
  - rewrite IH. unfold rremove. rewrite filter_filter. apply filter_ext.
    intros x. unfold rmem, memb. cbn [existsb]. rewrite negb_orb. reflexivity.
Qed.

Lemma fold_rremove_selected : forall (m : rule -> bool) pol,
  fold_left (fun l r => rremove r l) (filter m pol) pol = filter (fun r => negb (m r)) pol.
Proof.
  intros m pol. rewrite fold_rremove_filter. apply filter_ext_in. intros x Hx.
  f_equal. destruct (m x) eqn:E.
  - apply rmem_In. apply filter_In. split; assumption.
  - apply rmem_nIn. intros H. apply filter_In in H. destruct H as [_ H]. congruence.
Qed.

Lemma filter_nil_all {A} (m : A -> bool) l :
  filter m l = [] -> filter (fun r => negb (m r)) l = l.
Proof.
  induction l as [|x l IH]; cbn [filter]; [reflexivity|].
  destruct (m x); [discriminate|]. cbn [negb]. intros H. rewrite IH by exact H. reflexivity.
Qed.

Lemma mfl_lines_for : forall sec pt idx vals l kept res,
  mem_filter_lines sec pt idx vals l = Some (kept, res) ->
  forall sec' pt', lines_for sec' pt' kept =
    if same_key sec' pt' sec pt
    then filter (fun r => negb (fm idx vals r)) (lines_for sec' pt' l)
    else lines_for sec' pt' l.
Proof.
  intros sec pt idx vals. induction l as [|ln l IH]; intros kept res H sec' pt'.
  - cbn in H. inversion H. cbn. destruct (same_key sec' pt' sec pt); reflexivity.
  - cbn [mem_filter_lines] in H.
    destruct (line_of sec' pt' ln) eqn:El.
    + destruct (line_of_inv _ _ _ El) as [f ->]. cbn [nth] in H.
      fold (same_key sec' pt' sec pt) in H.
      rewrite lines_for_cons, El. cbn [skipn].
      destruct (same_key sec' pt' sec pt) eqn:Ek.
      * replace (idx + 2) with (S (S idx)) in H by lia. cbn [skipn] in H.
        cbn [filter]. unfold fm at 1.
        destruct (fmatch vals (skipn idx f)) as [b|]; [|discriminate].
        destruct (mem_filter_lines sec pt idx vals l) as [[kept' res']|]; [|discriminate].
        specialize (IH kept' res' eq_refl sec' pt'). rewrite Ek in IH.
        inversion H; subst. destruct b; cbn [negb].
        -- exact IH.
        -- rewrite lines_for_cons, El, IH. reflexivity.
      * destruct (mem_filter_lines sec pt idx vals l) as [[kept' res']|]; [|discriminate].
        specialize (IH kept' res' eq_refl sec' pt'). rewrite Ek in IH.
        inversion H; subst. rewrite lines_for_cons, El, IH. reflexivity.
    + rewrite lines_for_cons, El.
      destruct (if teqb sec (nth 0 ln []) && teqb pt (nth 1 ln [])
                then fmatch vals (skipn (idx + 2) ln) else Some false) as [b|]; [|discriminate].
      destruct (mem_filter_lines sec pt idx vals l) as [[kept' res']|]; [|discriminate].
      specialize (IH kept' res' eq_refl sec' pt').
      inversion H; subst. destruct b.
      * rewrite IH. reflexivity.
      * rewrite lines_for_cons, El, IH. reflexivity.
Qed.

Lemma lines_upd_mfl : forall sec pt idx vals l kept res, vals <> [] ->
  mem_filter_lines sec pt idx vals l = Some (kept, res) ->
  lines_upd l sec pt (rf_l idx vals) kept.
Proof.
  intros sec pt idx vals l kept res Hv H sec' pt'.
  rewrite (mfl_lines_for _ _ _ _ _ _ _ H).
  destruct (same_key sec' pt' sec pt) eqn:E; [|reflexivity].
  apply same_key_true in E. destruct E as [-> ->].
  unfold rf_l. destruct vals; [contradiction|reflexivity].
Qed.

Lemma mfl_res_false : forall sec pt idx vals l kept,
  mem_filter_lines sec pt idx vals l = Some (kept, false) -> kept = l.
Proof.
  intros sec pt idx vals. induction l as [|ln l IH]; intros kept H.
  - cbn in H. inversion H. reflexivity.
  - cbn [mem_filter_lines] in H.
    destruct (if teqb sec (nth 0 ln []) && teqb pt (nth 1 ln [])
              then fmatch vals (skipn (idx + 2) ln) else Some false) as [b|]; [|discriminate].
    destruct (mem_filter_lines sec pt idx vals l) as [[kept' res']|]; [|discriminate].
    inversion H as [[Hk Hr]]. apply orb_false_iff in Hr. destruct Hr as [-> ->].
    rewrite (IH kept' eq_refl). reflexivity.
Qed.

Lemma mfl_sub : forall sec pt idx vals l kept res,
  mem_filter_lines sec pt idx vals l = Some (kept, res) ->
  (forall x, In x kept -> In x l) /\ (NoDup l -> NoDup kept).
Proof.
  intros sec pt idx vals. induction l as [|ln l IH]; intros kept res H.
  - cbn in H. inversion H. split; auto.
  - cbn [mem_filter_lines] in H.
    destruct (if teqb sec (nth 0 ln []) && teqb pt (nth 1 ln [])
              then fmatch vals (skipn (idx + 2) ln) else Some false) as [b|]; [|discriminate].
    destruct (mem_filter_lines sec pt idx vals l) as [[kept' res']|]; [|discriminate].
    destruct (IH kept' res' eq_refl) as [Hin Hnd].
    inversion H; subst. destruct b.
    + split.
      * intros x Hx. right. apply Hin, Hx.
      * intros Hn. inversion Hn; subst. apply Hnd. assumption.
    + split.
      * intros x [Hx|Hx]; [left; exact Hx|right; apply Hin, Hx].
      * intros Hn. inversion Hn as [|y l' Hy Hl]; subst. constructor.
        -- intros Hx. apply Hy. apply Hin, Hx.
        -- apply Hnd, Hl.
Qed.

Lemma mfl_select : forall sec pt idx vals l kept res,
  mem_filter_lines sec pt idx vals l = Some (kept, res) ->
  exists rem, select_filtered idx vals (lines_for sec pt l) = Some rem.
Proof.
  intros sec pt idx vals. induction l as [|ln l IH]; intros kept res H.
  - exists []. reflexivity.
  - cbn [mem_filter_lines] in H. rewrite lines_for_cons.
    destruct (line_of sec pt ln) eqn:El.
    + destruct (line_of_inv _ _ _ El) as [f ->]. cbn [nth] in H. rewrite !teqb_refl in H.
      cbn [andb] in H.
      replace (idx + 2) with (S (S idx)) in H by lia. cbn [skipn] in H.
      cbn [select_filtered skipn].
      destruct (fmatch vals (skipn idx f)) as [b|]; [|discriminate].
      destruct (mem_filter_lines sec pt idx vals l) as [[kept' res']|]; [|discriminate].
      destruct (IH kept' res' eq_refl) as [rem Hrem]. rewrite Hrem. eexists. reflexivity.
    + destruct (if teqb sec (nth 0 ln []) && teqb pt (nth 1 ln [])
                then fmatch vals (skipn (idx + 2) ln) else Some false) as [b|]; [|discriminate].
      destruct (mem_filter_lines sec pt idx vals l) as [[kept' res']|]; [|discriminate].
      apply (IH kept' res' eq_refl).
Qed.

(* ================= the model as a policy store ================= *)
Definition mpol (md : model) (sec pt : text) : option (list rule) :=
  option_map a_policy (get_ast md sec pt).
Definition keys (md : model) (sec : text) : option (list text) :=
  option_map (map fst) (assoc sec md).
Definition keys_eq (md md' : model) : Prop := forall sec, keys md' sec = keys md sec.
Definition pol_eq (md md' : model) : Prop := forall sec pt, mpol md' sec pt = mpol md sec pt.
Definition mpol_upd (md : model) (sec pt : text) (U : list rule -> list rule) (md' : model) : Prop :=
  forall sec' pt', mpol md' sec' pt' =
                   if same_key sec' pt' sec pt then option_map U (mpol md sec pt) else mpol md sec' pt'.

Lemma m_get_policy_mpol : forall md sec pt,
  m_get_policy md sec pt = match mpol md sec pt with Some p => p | None => [] end.
Proof. intros. unfold m_get_policy, mpol. destruct (get_ast md sec pt); reflexivity. Qed.

Lemma keys_eq_refl : forall md, keys_eq md md. Proof. intros md sec. reflexivity. Qed.
Lemma keys_eq_trans : forall a b c, keys_eq a b -> keys_eq b c -> keys_eq a c.
Proof. intros a b c H1 H2 sec. rewrite H2, H1. reflexivity. Qed.
Lemma pol_eq_refl : forall md, pol_eq md md. Proof. intros md sec pt. reflexivity. Qed.
Lemma pol_eq_trans : forall a b c, pol_eq a b -> pol_eq b c -> pol_eq a c.
Proof. intros a b c H1 H2 sec pt. rewrite H2, H1. reflexivity. Qed.

Lemma assoc_set_keys_present : forall {A} k (v v0 : A) l,
  assoc k l = Some v0 -> map fst (assoc_set k v l) = map fst l.
Proof.
  intros A k v v0 l H. rewrite assoc_set_keys.
  assert (Hin : In k (map fst l)).
  { apply assoc_In in H. apply (in_map fst) in H. exact H. }
  apply memb_In in Hin. rewrite Hin. reflexivity.
Qed.

Lemma get_ast_set_ast : forall md sec pt a0 a sec' pt',
  get_ast md sec pt = Some a0 ->
  get_ast (set_ast md sec pt a) sec' pt' =
  if same_key sec' pt' sec pt then Some a else get_ast md sec' pt'.
Proof.
  intros md sec pt a0 a sec' pt' H. unfold get_ast, set_ast, same_key in *.
  destruct (assoc sec md) as [am|] eqn:Es; [|discriminate].
  destruct (teqb sec sec') eqn:E1; cbn [andb].
  - apply teqb_eq in E1. subst sec'. rewrite assoc_set_same.
    destruct (teqb pt pt') eqn:E2.
    + apply teqb_eq in E2. subst pt'. apply assoc_set_same.
    + apply teqb_neq in E2. rewrite assoc_set_other by exact E2. rewrite Es. reflexivity.
  - apply teqb_neq in E1. rewrite assoc_set_other by exact E1. reflexivity.
Qed.

Lemma keys_set_ast : forall md sec pt a0 a,
  get_ast md sec pt = Some a0 -> keys_eq md (set_ast md sec pt a).
Proof.
  intros md sec pt a0 a H sec'. unfold keys, get_ast, set_ast in *.
  destruct (assoc sec md) as [am|] eqn:Es; [|discriminate].
  destruct (teqb sec sec') eqn:E1.
  - apply teqb_eq in E1. subst sec'. rewrite assoc_set_same, Es. cbn [option_map].
    rewrite (assoc_set_keys_present _ _ _ _ H). reflexivity.
  - apply teqb_neq in E1. rewrite assoc_set_other by exact E1. reflexivity.
Qed.

Lemma mpol_upd_set : forall md sec pt a U,
  get_ast md sec pt = Some a ->
  mpol_upd md sec pt U (set_ast md sec pt (with_policy a (U (a_policy a)))).
Proof.
  intros md sec pt a U H sec' pt'. unfold mpol.
  rewrite (get_ast_set_ast _ _ _ _ _ _ _ H), H.
  destruct (same_key sec' pt' sec pt); reflexivity.
Qed.

Lemma mpol_upd_none : forall md sec pt U,
  (forall pol, mpol md sec pt = Some pol -> U pol = pol) -> mpol_upd md sec pt U md.
Proof.
  intros md sec pt U H sec' pt'. destruct (same_key sec' pt' sec pt) eqn:E; [|reflexivity].
  apply same_key_true in E. destruct E as [-> ->].
  destruct (mpol md sec pt) as [pol|] eqn:Ep; [|reflexivity].
  cbn [option_map]. rewrite (H pol eq_refl). reflexivity.
Qed.

Lemma pol_eq_set_handle : forall md sec pt a h,
  get_ast md sec pt = Some a -> pol_eq md (set_ast md sec pt (with_handle a h)).
Proof.
  intros md sec pt a h H sec' pt'. unfold mpol.
  rewrite (get_ast_set_ast _ _ _ _ _ _ _ H).
  destruct (same_key sec' pt' sec pt) eqn:E; [|reflexivity].
  apply same_key_true in E. destruct E as [-> ->]. rewrite H. reflexivity.
Qed.

(* ---- the four exact set operations ---- *)
Lemma m_add_policy_upd : forall md sec pt r md' b,
  m_add_policy md sec pt r = (md', b) ->
  mpol_upd md sec pt (fun p => ins_new p r) md' /\ keys_eq md md'.
Proof.
  intros md sec pt r md' b H. unfold m_add_policy in H.
  destruct (get_ast md sec pt) as [a|] eqn:Ea.
  - destruct (rmem r (a_policy a)) eqn:Em; inversion H; subst.
    + split; [|apply keys_eq_refl]. apply mpol_upd_none. intros pol Hp.
      unfold mpol in Hp. rewrite Ea in Hp. inversion Hp; subst.
      unfold ins_new. rewrite Em. reflexivity.
    + split; [|eapply keys_set_ast; exact Ea].
      replace (a_policy a ++ [r]) with ((fun p => ins_new p r) (a_policy a))
        by (unfold ins_new; rewrite Em; reflexivity).
      apply mpol_upd_set. exact Ea.
  - inversion H; subst. split; [|apply keys_eq_refl]. apply mpol_upd_none.
    intros pol Hp. unfold mpol in Hp. rewrite Ea in Hp. discriminate.
Qed.

Lemma m_add_policies_upd : forall md sec pt rs md' b,
  m_add_policies md sec pt rs = (md', b) ->
  mpol_upd md sec pt (fun p => addmany_l p rs) md' /\ keys_eq md md'.
Proof.
  intros md sec pt rs md' b H. unfold m_add_policies in H.
  destruct rs as [|r0 rs0] eqn:Ers.
  - inversion H; subst. split; [|apply keys_eq_refl]. apply mpol_upd_none. reflexivity.
  - rewrite <- Ers in *. clear Ers.
    destruct (get_ast md sec pt) as [a|] eqn:Ea.
    + destruct (existsb (fun r => rmem r (a_policy a)) rs) eqn:Em; inversion H; subst.
      * split; [|apply keys_eq_refl]. apply mpol_upd_none. intros pol Hp.
        unfold mpol in Hp. rewrite Ea in Hp. inversion Hp; subst.
        unfold addmany_l. rewrite Em. reflexivity.
      * split; [|eapply keys_set_ast; exact Ea].
        replace (fold_left ins_new rs (a_policy a)) with ((fun p => addmany_l p rs) (a_policy a))
          by (unfold addmany_l; rewrite Em; reflexivity).
        apply mpol_upd_set. exact Ea.
    + inversion H; subst. split; [|apply keys_eq_refl]. apply mpol_upd_none.
      intros pol Hp. unfold mpol in Hp. rewrite Ea in Hp. discriminate.
Qed.

Lemma m_remove_policy_upd : forall md sec pt r md' b,
  m_remove_policy md sec pt r = (md', b) ->
  mpol_upd md sec pt (rremove r) md' /\ keys_eq md md'.
Proof.
  intros md sec pt r md' b H. unfold m_remove_policy in H.
  destruct (get_ast md sec pt) as [a|] eqn:Ea.
  - destruct (rmem r (a_policy a)) eqn:Em; inversion H; subst.
    + split; [|eapply keys_set_ast; exact Ea]. apply mpol_upd_set. exact Ea.
    + split; [|apply keys_eq_refl]. apply mpol_upd_none. intros pol Hp.
      unfold mpol in Hp. rewrite Ea in Hp. inversion Hp; subst.
      apply rremove_notin. apply rmem_nIn. exact Em.
  - inversion H; subst. split; [|apply keys_eq_refl]. apply mpol_upd_none.
    intros pol Hp. unfold mpol in Hp. rewrite Ea in Hp. discriminate.
Qed.

Lemma m_remove_policies_upd : forall md sec pt rs md' b,
  m_remove_policies md sec pt rs = (md', b) ->
  mpol_upd md sec pt (fun p => removemany_l p rs) md' /\ keys_eq md md'.
Proof.
  intros md sec pt rs md' b H. unfold m_remove_policies in H.
  destruct rs as [|r0 rs0] eqn:Ers.
  - inversion H; subst. split; [|apply keys_eq_refl]. apply mpol_upd_none. reflexivity.
  - rewrite <- Ers in *. clear Ers.
    destruct (get_ast md sec pt) as [a|] eqn:Ea.
    + destruct (forallb (fun r => rmem r (a_policy a)) rs) eqn:Em; inversion H; subst.
      * split; [|eapply keys_set_ast; exact Ea].
        replace (fold_left (fun l r => rremove r l) rs (a_policy a))
          with ((fun p => removemany_l p rs) (a_policy a))
          by (unfold removemany_l; rewrite Em; reflexivity).
        apply mpol_upd_set. exact Ea.
      * split; [|apply keys_eq_refl]. apply mpol_upd_none. intros pol Hp.
        unfold mpol in Hp. rewrite Ea in Hp. inversion Hp; subst.
        unfold removemany_l. rewrite Em. reflexivity.
    + inversion H; subst. split; [|apply keys_eq_refl]. apply mpol_upd_none.
      intros pol Hp. unfold mpol in Hp. rewrite Ea in Hp. discriminate.
Qed.

Lemma m_remove_filtered_upd : forall md sec pt idx vals md' b rem,
  m_remove_filtered md sec pt idx vals = Some (md', b, rem) ->
  mpol_upd md sec pt (rf_l idx vals) md' /\ keys_eq md md'.
Proof.
  intros md sec pt idx vals md' b rem H. unfold m_remove_filtered in H.
  destruct vals as [|v0 vs0] eqn:Ev.
  - inversion H; subst. split; [|apply keys_eq_refl]. apply mpol_upd_none. reflexivity.
  - rewrite <- Ev in *.
    assert (Hrf : forall pol, rf_l idx vals pol = filter (fun r => negb (fm idx vals r)) pol).
    { intros pol. unfold rf_l. rewrite Ev. reflexivity. }
    clear Ev.
    destruct (get_ast md sec pt) as [a|] eqn:Ea.
    + destruct (select_filtered idx vals (a_policy a)) as [sel|] eqn:Es; [|discriminate].
      pose proof (select_filtered_filter _ _ _ _ Es) as Hsel.
      destruct sel as [|s0 sel0] eqn:Esel.
      * inversion H; subst. split; [|apply keys_eq_refl]. apply mpol_upd_none. intros pol Hp.
        unfold mpol in Hp. rewrite Ea in Hp. inversion Hp; subst.
        rewrite Hrf. apply filter_nil_all. symmetry. exact Hsel.
      * rewrite <- Esel in *. clear Esel. inversion H; subst md' b rem.
        split; [|eapply keys_set_ast; exact Ea].
        replace (fold_left (fun l r => rremove r l) sel (a_policy a))
          with (rf_l idx vals (a_policy a))
          by (rewrite Hrf, Hsel; symmetry; apply fold_rremove_selected).
        apply mpol_upd_set. exact Ea.
    + inversion H; subst. split; [|apply keys_eq_refl]. apply mpol_upd_none.
      intros pol Hp. unfold mpol in Hp. rewrite Ea in Hp. discriminate.
Qed.

Lemma m_remove_filtered_none : forall md sec pt idx vals,
  m_remove_filtered md sec pt idx vals = None ->
  exists pol, mpol md sec pt = Some pol /\ select_filtered idx vals pol = None.
Proof.
  intros md sec pt idx vals H. unfold m_remove_filtered in H.
  destruct vals as [|v0 vs0] eqn:Ev; [discriminate|]. rewrite <- Ev in *.
  unfold mpol. destruct (get_ast md sec pt) as [a|]; [|discriminate].
  exists (a_policy a). split; [reflexivity|].
  destruct (select_filtered idx vals (a_policy a)) as [[|]|]; try discriminate. reflexivity.
Qed.

(* ---- rewriting a whole section entry-wise ---- *)
Definition map_am (G : assertion -> assertion) (am : amap) : amap :=
  map (fun ka => (fst ka, G (snd ka))) am.

Lemma assoc_map_am : forall G k am, assoc k (map_am G am) = option_map G (assoc k am).
Proof.
  intros G k am. induction am as [|[k' a] am IH]; cbn [map_am map assoc fst snd]; [reflexivity|].
  destruct (teqb k k'); [reflexivity|exact IH].
Qed.

Lemma map_fst_map_am : forall G am, map fst (map_am G am) = map fst am.
Proof. intros. unfold map_am. rewrite map_map. reflexivity. Qed.

Lemma get_ast_map_sec : forall md sec am G sec' pt',
  assoc sec md = Some am ->
  get_ast (assoc_set sec (map_am G am) md) sec' pt' =
  if teqb sec sec' then option_map G (get_ast md sec' pt') else get_ast md sec' pt'.
Proof.
  intros md sec am G sec' pt' H. unfold get_ast.
  destruct (teqb sec sec') eqn:E.
  - apply teqb_eq in E. subst sec'. rewrite assoc_set_same, H. apply assoc_map_am.
  - apply teqb_neq in E. rewrite assoc_set_other by exact E. reflexivity.
Qed.

Lemma keys_assoc_set_sec : forall md sec (am am' : amap),
  assoc sec md = Some am -> map fst am' = map fst am -> keys_eq md (assoc_set sec am' md).
Proof.
  intros md sec am am' H Hk sec'. unfold keys.
  destruct (teqb sec sec') eqn:E.
  - apply teqb_eq in E. subst sec'. rewrite assoc_set_same, H. cbn. rewrite Hk. reflexivity.
  - apply teqb_neq in E. rewrite assoc_set_other by exact E. reflexivity.
Qed.

Lemma mpol_clear_sec : forall md sec sec' pt',
  mpol (clear_sec md sec) sec' pt' =
  if teqb sec sec' then option_map (fun _ => []) (mpol md sec' pt') else mpol md sec' pt'.
Proof.
  intros md sec sec' pt'. unfold clear_sec, mpol.
  destruct (assoc sec md) as [am|] eqn:Es.
  - change (map (fun ka => (fst ka, with_policy (snd ka) [])) am)
      with (map_am (fun a => with_policy a []) am).
    rewrite (get_ast_map_sec _ _ _ _ _ _ Es).
    destruct (teqb sec sec'); [|reflexivity]. destruct (get_ast md sec' pt'); reflexivity.
  - destruct (teqb sec sec') eqn:E; [|reflexivity]. apply teqb_eq in E. subst sec'.
    unfold get_ast. rewrite Es. reflexivity.
Qed.

Lemma keys_clear_sec : forall md sec, keys_eq md (clear_sec md sec).
Proof.
  intros md sec. unfold clear_sec. destruct (assoc sec md) as [am|] eqn:Es; [|apply keys_eq_refl].
  apply (keys_assoc_set_sec _ _ _ _ Es).
  change (map (fun ka => (fst ka, with_policy (snd ka) [])) am)
    with (map_am (fun a => with_policy a []) am). apply map_fst_map_am.
Qed.

Lemma s_p_neq_s_g : s_p <> s_g. Proof. discriminate. Qed.

Lemma is_pg_cases : forall sec, is_pg sec = true <-> sec = s_p \/ sec = s_g.
Proof. intros. unfold is_pg. rewrite orb_true_iff, !teqb_eq. reflexivity. Qed.

Lemma mpol_clear_policy : forall md sec pt,
  mpol (m_clear_policy md) sec pt =
  if is_pg sec then option_map (fun _ => []) (mpol md sec pt) else mpol md sec pt.
Proof.
  intros md sec pt. unfold m_clear_policy, is_pg. rewrite !mpol_clear_sec.
  rewrite (teqb_sym s_g sec), (teqb_sym s_p sec).
  destruct (teqb sec s_p) eqn:Ep; destruct (teqb sec s_g) eqn:Eg; cbn [orb]; try reflexivity.
  apply teqb_eq in Ep. apply teqb_eq in Eg. subst. discriminate.
Qed.

Lemma keys_clear_policy : forall md, keys_eq md (m_clear_policy md).
Proof.
  intros md. unfold m_clear_policy.
  eapply keys_eq_trans; [apply keys_clear_sec|apply keys_clear_sec].
Qed.

(* ---- role-link maintenance never touches a policy list ---- *)
Definition sk (ka : text * assertion) : text * list rule := (fst ka, a_policy (snd ka)).

Lemma build_links_am_sk : forall am m am' m' e,
  build_links_am am m = (am', m', e) -> map sk am' = map sk am.
Proof.
  induction am as [|[k a] am IH]; intros m am' m' e H; cbn [build_links_am] in H.
  - inversion H. reflexivity.
  - destruct (Nat.ltb (count_us (a_value a)) 2); [inversion H; reflexivity|].
    destruct (link_rules (count_us (a_value a)) true m (a_policy a)) as [m1 [|e1]].
    + destruct (build_links_am am m1) as [[am2 m2] e2] eqn:E2.
      inversion H; subst. cbn [map]. rewrite (IH _ _ _ _ E2). reflexivity.
    + inversion H; reflexivity.
Qed.

Lemma sk_assoc : forall (am am' : amap) k, map sk am' = map sk am ->
  option_map a_policy (assoc k am') = option_map a_policy (assoc k am).
Proof.
  induction am as [|[k1 a1] am IH]; intros [|[k2 a2] am'] k H; cbn [map] in H; try discriminate.
  - reflexivity.
  - inversion H as [[Hk Hp Hr]]. cbn [sk fst snd] in *. subst k2. cbn [assoc].
    destruct (teqb k k1); [cbn; rewrite Hp; reflexivity|]. apply IH. exact Hr.
Qed.

Lemma sk_keys : forall (am am' : amap), map sk am' = map sk am -> map fst am' = map fst am.
Proof.
  intros am am' H. apply (f_equal (map fst)) in H. rewrite !map_map in H. exact H.
Qed.

Lemma pol_eq_assoc_set_sk : forall (md : model) sec (am am' : amap),
  assoc sec md = Some am -> map sk am' = map sk am ->
  pol_eq md (assoc_set sec am' md) /\ keys_eq md (assoc_set sec am' md).
Proof.
  intros md sec am am' H Hsk. split.
  - intros sec' pt'. unfold mpol, get_ast.
    destruct (teqb sec sec') eqn:E.
    + apply teqb_eq in E. subst sec'. rewrite assoc_set_same, H. apply sk_assoc. exact Hsk.
    + apply teqb_neq in E. rewrite assoc_set_other by exact E. reflexivity.
  - apply (keys_assoc_set_sec _ _ _ _ H). apply sk_keys. exact Hsk.
Qed.

(* what a management call may change besides model and adapter is irrelevant
   here: two states "agree on the store" *)
Record same_store (s s' : estate) : Prop := {
  ss_ad : e_adapter s' = e_adapter s;
  ss_pol : pol_eq (e_model s) (e_model s');
  ss_keys : keys_eq (e_model s) (e_model s');
  ss_save : e_auto_save s' = e_auto_save s;
}.

Lemma same_store_refl : forall s, same_store s s.
Proof. intros s. constructor; [reflexivity|apply pol_eq_refl|apply keys_eq_refl|reflexivity]. Qed.
Lemma same_store_trans : forall a b c, same_store a b -> same_store b c -> same_store a c.
Proof.
  intros a b c [A1 P1 K1 S1] [A2 P2 K2 S2]. constructor.
  - congruence.
  - eapply pol_eq_trans; eassumption.
  - eapply keys_eq_trans; eassumption.
  - congruence.
Qed.

Lemma same_store_upd_fs : forall s fs, same_store s (upd_fs s fs).
Proof. intros. constructor; [reflexivity|apply pol_eq_refl|apply keys_eq_refl|reflexivity]. Qed.
Lemma same_store_upd_wlog : forall s w, same_store s (upd_wlog s w).
Proof. intros. constructor; [reflexivity|apply pol_eq_refl|apply keys_eq_refl|reflexivity]. Qed.

Lemma same_store_emit : forall s ev, same_store s (emit s ev).
Proof.
  intros. unfold emit. destruct (e_watcher s); [apply same_store_upd_wlog|apply same_store_refl].
Qed.
Lemma same_store_emit_mgmt : forall s ch ev, same_store s (emit_mgmt s ch ev).
Proof.
  intros. unfold emit_mgmt. destruct (ch && e_auto_notify s);
    [apply same_store_emit|apply same_store_refl].
Qed.

Lemma same_store_build_role_links : forall s s' e,
  build_role_links s = (s', e) -> same_store s s'.
Proof.
  intros s s' e H. unfold build_role_links in H.
  destruct (assoc s_g (e_model s)) as [am|] eqn:Eg.
  - destruct (build_links_am am []) as [[am' m'] e'] eqn:Eb. inversion H; subst.
    destruct (pol_eq_assoc_set_sk _ _ _ _ Eg (build_links_am_sk _ _ _ _ _ Eb)) as [Hp Hk].
    constructor; cbn; [reflexivity|exact Hp|exact Hk|reflexivity].
  - inversion H; subst. apply same_store_upd_fs.
Qed.

Lemma same_store_incremental_links : forall s pt ins rs s' e,
  incremental_links s pt ins rs = (s', e) -> same_store s s'.
Proof.
  intros s pt ins rs s' e H. unfold incremental_links in H.
  destruct (get_ast (e_model s) s_g pt) as [a|] eqn:Ea.
  - destruct (Nat.ltb (count_us (a_value a)) 2); [inversion H; apply same_store_refl|].
    destruct (link_rules (count_us (a_value a)) ins (f_rm (e_fs s)) rs) as [m' [|e']].
    + inversion H; subst. constructor; cbn; [reflexivity| | |reflexivity].
      * apply pol_eq_set_handle. exact Ea.
      * eapply keys_set_ast. exact Ea.
    + inversion H; subst. apply same_store_upd_fs.
  - inversion H. apply same_store_refl.
Qed.

Lemma same_store_after_change : forall s sec pt ch ins rs s' o,
  after_change s sec pt ch ins rs = (s', o) -> same_store s s'.
Proof.
  intros s sec pt ch ins rs s' o H. unfold after_change in H.
  destruct (negb (teqb sec s_g) || negb (e_auto_build s) || negb ch).
  - inversion H. apply same_store_refl.
  - destruct (incremental_links s pt ins rs) as [s1 e] eqn:E. inversion H; subst.
    eapply same_store_incremental_links. exact E.
Qed.

Lemma same_store_register_g : forall s s' e, register_g_functions s = (s', e) -> same_store s s'.
Proof.
  intros s s' e H. unfold register_g_functions in H.
  destruct (assoc s_g (e_model s)); [|inversion H; apply same_store_refl].
  destruct (register_g a (f_gfuns (e_fs s))). inversion H. apply same_store_upd_fs.
Qed.

(* ================= loading ================= *)
Lemma load_mem_line_upd : forall md s p f,
  mpol_upd md s p (fun pol => oset_insert pol f) (load_mem_line md (s :: p :: f)) /\
  keys_eq md (load_mem_line md (s :: p :: f)).
Proof.
  intros md s p f. cbn [load_mem_line]. destruct (get_ast md s p) as [a|] eqn:Ea.
  - split; [|eapply keys_set_ast; exact Ea].
    apply (mpol_upd_set md s p a (fun pol => oset_insert pol f) Ea).
  - split; [|apply keys_eq_refl]. apply mpol_upd_none. intros pol Hp.
    unfold mpol in Hp. rewrite Ea in Hp. discriminate.
Qed.

Lemma load_mem_line_short : forall md ln, length ln < 2 -> load_mem_line md ln = md.
Proof. intros md [|x [|y l]] H; cbn in *; try reflexivity. lia. Qed.

Lemma line_of_short : forall sec pt ln, length ln < 2 -> line_of sec pt ln = false.
Proof. intros sec pt [|x [|y l]] H; cbn in *; try reflexivity. lia. Qed.

Lemma keys_load_mem_line : forall md ln, keys_eq md (load_mem_line md ln).
Proof.
  intros md [|s [|p f]]; try apply keys_eq_refl. apply load_mem_line_upd.
Qed.

Lemma keys_fold_load_mem : forall l md, keys_eq md (fold_left load_mem_line l md).
Proof.
  induction l as [|ln l IH]; intros md; cbn [fold_left]; [apply keys_eq_refl|].
  eapply keys_eq_trans; [apply keys_load_mem_line|apply IH].
Qed.

Lemma mpol_fold_load_mem : forall l md sec pt,
  mpol (fold_left load_mem_line l md) sec pt =
  option_map (fun pol => fold_left oset_insert (lines_for sec pt l) pol) (mpol md sec pt).
Proof.
  induction l as [|ln l IH]; intros md sec pt; cbn [fold_left].
  - rewrite lines_for_nil. cbn. destruct (mpol md sec pt); reflexivity.
  - rewrite IH, lines_for_cons.
    destruct ln as [|s [|p f]]; cbn [line_of]; try reflexivity.
    destruct (load_mem_line_upd md s p f) as [Hu _]. rewrite (Hu sec pt).
    unfold same_key. destruct (teqb s sec && teqb p pt) eqn:E; [|reflexivity].
    apply andb_true_iff in E. destruct E as [E1 E2]. apply teqb_eq in E1. apply teqb_eq in E2.
    subst s p. cbn [skipn]. destruct (mpol md sec pt); reflexivity.
Qed.

Lemma load_line_to_mem : forall md ln, load_line md ln = fold_left load_mem_line (to_mem ln) md.
Proof. intros md [|[|c kr] fields]; reflexivity. Qed.

Lemma fold_load_line_conv : forall l md,
  fold_left load_line l md = fold_left load_mem_line (conv l) md.
Proof.
  induction l as [|ln l IH]; intros md; cbn [fold_left conv flat_map]; [reflexivity|].
  rewrite fold_left_app, <- load_line_to_mem. apply IH.
Qed.

(* loading a bundled adapter = loading its stored lines the memory way *)
Lemma ad0_load_stored : forall a l md, stored_lines a = Some l ->
  snd (fst (ad0_load a md)) = fold_left load_mem_line l md /\
  snd (ad0_load a md) = LROk /\
  stored_lines (fst (fst (ad0_load a md))) = Some l /\
  ad_is_filtered (fst (fst (ad0_load a md))) = false.
Proof.
  intros a l md H. destruct a; cbn in H; try discriminate; inversion H; subst; cbn;
    repeat split; try reflexivity; apply fold_load_line_conv.
Qed.

(* the policy part of a load into the emptied model, for sections p and g *)
Lemma mpol_load_cleared : forall l md sec pt, NoDup l -> is_pg sec = true ->
  mpol (fold_left load_mem_line l (m_clear_policy md)) sec pt =
  option_map (fun _ => lines_for sec pt l) (mpol md sec pt).
Proof.
  intros l md sec pt Hnd Hpg. rewrite mpol_fold_load_mem, mpol_clear_policy, Hpg.
  destruct (mpol md sec pt); cbn [option_map]; [|reflexivity].
  rewrite fold_oset_insert_nil; [reflexivity|]. apply NoDup_lines_for. exact Hnd.
Qed.

Lemma mpol_load_cleared_other : forall l md sec pt, is_pg sec = false ->
  mpol (fold_left load_mem_line l (m_clear_policy md)) sec pt =
  option_map (fun pol => fold_left oset_insert (lines_for sec pt l) pol) (mpol md sec pt).
Proof. intros l md sec pt Hpg. rewrite mpol_fold_load_mem, mpol_clear_policy, Hpg. reflexivity. Qed.

(* ================= the invariant ================= *)
Definition SyncLM (l : list rule) (md : model) : Prop :=
  NoDup l /\
  forall sec pt pol, is_pg sec = true -> mpol md sec pt = Some pol -> lines_for sec pt l = pol.

Definition AdapterSync (s : estate) : Prop :=
  exists l, mem_of (e_adapter s) = Some l /\ SyncLM l (e_model s).

Definition KeysOkP (md : model) : Prop :=
  forall sec ks, is_pg sec = true -> keys md sec = Some ks ->
                 NoDup ks /\ forall k, In k ks -> first_is sec k = true.

Definition PolND (md : model) : Prop :=
  forall sec pt pol, is_pg sec = true -> mpol md sec pt = Some pol -> NoDup pol.

Definition Inv (s : estate) : Prop :=
  e_auto_save s = true /\ KeysOkP (e_model s) /\ AdapterSync s.

Lemma sec_keys_ok_b_keys : forall md sec,
  sec_keys_ok_b md sec = match keys md sec with
                         | None => true
                         | Some ks => tnodupb ks && forallb (first_is sec) ks end.
Proof. intros. unfold sec_keys_ok_b, keys. destruct (assoc sec md); reflexivity. Qed.

Lemma keys_ok_b_spec : forall md, keys_ok_b md = true <-> KeysOkP md.
Proof.
  intros md. unfold keys_ok_b. rewrite andb_true_iff, !sec_keys_ok_b_keys. split.
  - intros [Hp Hg] sec ks Hpg Hk. apply is_pg_cases in Hpg.
    destruct Hpg as [-> | ->]; rewrite Hk in *.
    + apply andb_true_iff in Hp. destruct Hp as [H1 H2]. split; [apply tnodupb_NoDup, H1|].
      rewrite forallb_forall in H2. exact H2.
    + apply andb_true_iff in Hg. destruct Hg as [H1 H2]. split; [apply tnodupb_NoDup, H1|].
      rewrite forallb_forall in H2. exact H2.
  - intros H. split.
    + destruct (keys md s_p) as [ks|] eqn:E; [|reflexivity].
      destruct (H s_p ks eq_refl E) as [H1 H2]. apply andb_true_iff. split.
      * apply tnodupb_NoDup, H1.
      * apply forallb_forall. exact H2.
    + destruct (keys md s_g) as [ks|] eqn:E; [|reflexivity].
      destruct (H s_g ks eq_refl E) as [H1 H2]. apply andb_true_iff. split.
      * apply tnodupb_NoDup, H1.
      * apply forallb_forall. exact H2.
Qed.

Lemma KeysOkP_keys_eq : forall md md', keys_eq md md' -> KeysOkP md -> KeysOkP md'.
Proof. intros md md' He H sec ks Hpg Hk. rewrite He in Hk. apply (H sec ks Hpg Hk). Qed.

Lemma SyncLM_pol_eq : forall l md md', pol_eq md md' -> SyncLM l md -> SyncLM l md'.
Proof.
  intros l md md' He [Hn H]. split; [exact Hn|]. intros sec pt pol Hpg Hp.
  rewrite He in Hp. apply (H sec pt pol Hpg Hp).
Qed.

Lemma SyncLM_PolND : forall l md, SyncLM l md -> PolND md.
Proof.
  intros l md [Hn H] sec pt pol Hpg Hp. rewrite <- (H sec pt pol Hpg Hp).
  apply NoDup_lines_for. exact Hn.
Qed.

Lemma Inv_transfer : forall s s', same_store s s' -> Inv s -> Inv s'.
Proof.
  intros s s' [Ha Hp Hk Hs] (H1 & H2 & l & Hm & Hsy). split; [congruence|]. split.
  - eapply KeysOkP_keys_eq; eassumption.
  - exists l. split; [rewrite Ha; exact Hm|]. eapply SyncLM_pol_eq; eassumption.
Qed.

Lemma sync_upd : forall l md sec pt U l' md',
  SyncLM l md -> lines_upd l sec pt U l' -> NoDup l' -> mpol_upd md sec pt U md' ->
  SyncLM l' md'.
Proof.
  intros l md sec pt U l' md' [Hn H] Hlu Hn' Hmu. split; [exact Hn'|].
  intros sec' pt' pol' Hpg Hp'. rewrite (Hmu sec' pt') in Hp'. rewrite (Hlu sec' pt').
  destruct (same_key sec' pt' sec pt) eqn:E.
  - apply same_key_true in E. destruct E as [-> ->].
    destruct (mpol md sec pt) as [pol|] eqn:Ep; [|discriminate].
    cbn in Hp'. inversion Hp'; subst. rewrite (H sec pt pol Hpg Ep). reflexivity.
  - apply (H sec' pt' pol' Hpg Hp').
Qed.

Lemma sync_upd_adapter_only : forall l md sec pt U l',
  SyncLM l md -> lines_upd l sec pt U l' -> NoDup l' ->
  (is_pg sec = false \/ mpol md sec pt = None) -> SyncLM l' md.
Proof.
  intros l md sec pt U l' [Hn H] Hlu Hn' Hside. split; [exact Hn'|].
  intros sec' pt' pol' Hpg Hp'. rewrite (Hlu sec' pt').
  destruct (same_key sec' pt' sec pt) eqn:E.
  - apply same_key_true in E. destruct E as [-> ->].
    destruct Hside as [Hs|Hs]; congruence.
  - apply (H sec' pt' pol' Hpg Hp').
Qed.

(* ================= saving ================= *)
Definition raw_lines (md : model) : list rule :=
  (match assoc s_p md with Some am => mem_lines_of am | None => [] end) ++
  (match assoc s_g md with Some am => mem_lines_of am | None => [] end).

Lemma mem_lines_raw : forall md, mem_lines md = fold_left ins_new (raw_lines md) [].
Proof. reflexivity. Qed.

Definition key_lines (k : text) (a : assertion) : list rule :=
  match first_char k with
  | Some s => map (fun r => s :: k :: r) (a_policy a) | None => [] end.
Lemma mem_lines_of_cons : forall k a (am : amap),
  mem_lines_of ((k, a) :: am) = key_lines k a ++ mem_lines_of am.
Proof. reflexivity. Qed.

Lemma lines_for_mlo : forall (am : amap) sec pt, NoDup (map fst am) ->
  lines_for sec pt (mem_lines_of am) =
  if first_is sec pt then match assoc pt am with Some a => a_policy a | None => [] end else [].
Proof.
  induction am as [|[k a] am IH]; intros sec pt Hnd.
  - cbn. destruct (first_is sec pt); reflexivity.
  - inversion Hnd as [|x xs Hk Hnd']; subst.
    rewrite mem_lines_of_cons.
    rewrite lines_for_app, (IH sec pt Hnd'). cbn [assoc].
    assert (Hhead : lines_for sec pt (key_lines k a) =
              if teqb pt k && first_is sec k then a_policy a else []).
    { unfold first_is, key_lines. destruct (first_char k) as [s|].
      - change (map (fun r => s :: k :: r) (a_policy a)) with (map (mem_line s k) (a_policy a)).
        rewrite lines_for_map_mem_line. unfold same_key. rewrite (teqb_sym pt k), andb_comm.
        reflexivity.
      - rewrite andb_false_r. reflexivity. }
    rewrite Hhead. destruct (teqb pt k) eqn:E; cbn [andb].
    + apply teqb_eq in E. subst pt.
      assert (Hno : assoc k am = None) by (apply assoc_None; exact Hk).
      rewrite Hno. destruct (first_is sec k); rewrite ?app_nil_r; reflexivity.
    + reflexivity.
Qed.

Lemma first_is_pg_excl : forall k, first_is s_p k = true -> first_is s_g k = true -> False.
Proof.
  intros k H1 H2. unfold first_is in *. destruct (first_char k) as [c|]; [|discriminate].
  apply teqb_eq in H1. apply teqb_eq in H2. subst. discriminate.
Qed.

Lemma keys_of_assoc : forall md sec am, assoc sec md = Some am -> keys md sec = Some (map fst am).
Proof. intros md sec am H. unfold keys. rewrite H. reflexivity. Qed.

Lemma assoc_key_in : forall (am : amap) k a, assoc k am = Some a -> In k (map fst am).
Proof. intros am k a H. apply assoc_In in H. apply (in_map fst) in H. exact H. Qed.

Lemma lines_for_raw : forall md sec pt pol, KeysOkP md -> is_pg sec = true ->
  mpol md sec pt = Some pol -> lines_for sec pt (raw_lines md) = pol.
Proof.
  intros md sec pt pol Hk Hpg Hp. unfold raw_lines. rewrite lines_for_app.
  unfold mpol, get_ast in Hp.
  destruct (assoc sec md) as [am|] eqn:Es; [|discriminate].
  destruct (assoc pt am) as [a|] eqn:Ea; [|discriminate]. cbn in Hp. inversion Hp; subst pol.
  destruct (Hk sec _ Hpg (keys_of_assoc _ _ _ Es)) as [Hnd Hfirst].
  pose proof (Hfirst pt (assoc_key_in _ _ _ Ea)) as Hf.
  apply is_pg_cases in Hpg. destruct Hpg as [-> | ->].
  - rewrite Es, (lines_for_mlo am s_p pt Hnd), Hf, Ea.
    destruct (assoc s_g md) as [amg|] eqn:Eg; [|rewrite lines_for_nil; apply app_nil_r].
    destruct (Hk s_g _ eq_refl (keys_of_assoc _ _ _ Eg)) as [Hndg Hfg].
    rewrite (lines_for_mlo amg s_p pt Hndg), Hf.
    destruct (assoc pt amg) as [ag|] eqn:Eag; [|apply app_nil_r].
    exfalso. apply (first_is_pg_excl pt Hf). apply Hfg. eapply assoc_key_in. exact Eag.
  - rewrite Es, (lines_for_mlo am s_g pt Hnd), Hf, Ea.
    destruct (assoc s_p md) as [amp|] eqn:Epp; [|rewrite lines_for_nil; reflexivity].
    destruct (Hk s_p _ eq_refl (keys_of_assoc _ _ _ Epp)) as [Hndp Hfp].
    rewrite (lines_for_mlo amp s_g pt Hndp), Hf.
    destruct (assoc pt amp) as [ap|] eqn:Eap; [|reflexivity].
    exfalso. apply (first_is_pg_excl pt); [|exact Hf]. apply Hfp. eapply assoc_key_in. exact Eap.
Qed.

Lemma lines_for_mem_lines : forall md sec pt pol, KeysOkP md -> PolND md -> is_pg sec = true ->
  mpol md sec pt = Some pol -> lines_for sec pt (mem_lines md) = pol.
Proof.
  intros md sec pt pol Hk Hnd Hpg Hp.
  rewrite mem_lines_raw, lines_for_fold_ins_new, lines_for_nil, (lines_for_raw _ _ _ _ Hk Hpg Hp).
  apply (fold_ins_new_nodup pol []). cbn [app]. apply (Hnd sec pt pol Hpg Hp).
Qed.

Lemma sync_mem_lines : forall md, KeysOkP md -> PolND md -> SyncLM (mem_lines md) md.
Proof.
  intros md Hk Hnd. split.
  - rewrite mem_lines_raw. apply NoDup_fold_ins_new. constructor.
  - intros sec pt pol Hpg Hp. apply lines_for_mem_lines; assumption.
Qed.

Lemma conv_app : forall a b, conv (a ++ b) = conv a ++ conv b.
Proof. intros. unfold conv. apply flat_map_app. Qed.

Lemma conv_key_lines : forall k (pol : list rule),
  conv (map (fun r => k :: r) pol) =
  match first_char k with Some s => map (fun r => s :: k :: r) pol | None => [] end.
Proof.
  intros [|c kr] pol; induction pol as [|r pol IH]; cbn in *; try reflexivity.
  - exact IH.
  - f_equal. exact IH.
Qed.

Lemma conv_section : forall (am : amap),
  conv (flat_map (fun ka => map (fun r => fst ka :: r) (a_policy (snd ka))) am) = mem_lines_of am.
Proof.
  induction am as [|[k a] am IH]; [reflexivity|].
  cbn [flat_map fst snd]. rewrite conv_app, conv_key_lines, IH. reflexivity.
Qed.

Lemma conv_text_lines : forall md, conv (text_lines md) = raw_lines md.
Proof.
  intros md. unfold text_lines, raw_lines. rewrite conv_app.
  destruct (assoc s_p md); destruct (assoc s_g md); rewrite ?conv_section; reflexivity.
Qed.

(* what every bundled adapter holds for a known (sec, ptype) right after a
   successful save *)
Lemma save_lines_for : forall a md L sec pt pol,
  KeysOkP md -> PolND md -> is_bundled a = true ->
  snd (ad0_save a md) = LROk -> stored_lines (fst (ad0_save a md)) = Some L ->
  is_pg sec = true -> mpol md sec pt = Some pol -> lines_for sec pt L = pol.
Proof.
  intros a md L sec pt pol Hk Hnd Hb Hok HL Hpg Hp.
  destruct a; cbn in Hb; try discriminate; cbn [ad0_save] in *.
  - cbn in HL. inversion HL; subst. apply lines_for_mem_lines; assumption.
  - destruct (assoc s_p md); cbn in Hok; [|discriminate]. cbn in HL. inversion HL; subst.
    rewrite conv_text_lines. apply lines_for_raw; assumption.
  - destruct (assoc s_p md); cbn in Hok; [|discriminate]. cbn in HL. inversion HL; subst.
    rewrite conv_text_lines. apply lines_for_raw; assumption.
Qed.

(* ================= adapter entry points on a memory adapter ================= *)
(* effect of one incremental adapter call: on `Ok true` the lines were updated
   by U at (sec, pt); on any other result they are untouched *)
Definition ad_eff (l : list rule) (sec pt : text) (U : list rule -> list rule) (Q : Prop)
           (l' : list rule) (o : outcome bool) : Prop :=
  (o = Ok true -> lines_upd l sec pt U l' /\ (NoDup l -> NoDup l') /\ Q) /\
  (o <> Ok true -> l' = l).

Lemma scripted_mem_eff : forall a f l sec pt U Q,
  mem_of a = Some l ->
  (forall fl, exists l' o, f (AMemory l fl) = (AMemory l' fl, o) /\ ad_eff l sec pt U Q l' o) ->
  exists l', mem_of (fst (scripted a f)) = Some l' /\
             ad_is_filtered (fst (scripted a f)) = ad_is_filtered a /\
             ad_eff l sec pt U Q l' (snd (scripted a f)).
Proof.
  intros a f l sec pt U Q Hm Hf.
  assert (Hsame : forall o, o = Ok false \/ o = Err EAdapter -> ad_eff l sec pt U Q l o).
  { intros o Ho. split; [|reflexivity]. intros ->. destruct Ho; discriminate. }
  destruct a as [| l0 fl | | | i sc]; cbn in Hm; try discriminate.
  - inversion Hm; subst l0. cbn [scripted]. destruct (Hf fl) as (l' & o & E & He).
    rewrite E. exists l'. cbn. auto.
  - destruct i as [| l0 fl | | |]; cbn in Hm; try discriminate. inversion Hm; subst l0.
    destruct (Hf fl) as (l' & o & E & He).
    destruct sc as [|[] sc]; cbn [scripted]; rewrite ?E; cbn;
      first [ solve [exists l'; split; [reflexivity|split; [reflexivity|exact He]]]
            | solve [exists l; split; [reflexivity|split; [reflexivity|apply Hsame; auto]]] ].
Qed.

Lemma ad0_add_eff : forall l fl sec pt r, exists l' o,
  ad0_add (AMemory l fl) sec pt r = (AMemory l' fl, o) /\
  ad_eff l sec pt (fun p => ins_new p r) True l' o.
Proof.
  intros. cbn [ad0_add]. destruct (rmem (mem_line sec pt r) l) eqn:E.
  - exists l, (Ok false). split; [reflexivity|]. split; [discriminate|reflexivity].
  - exists (l ++ [mem_line sec pt r]), (Ok true). split; [reflexivity|]. split; [|congruence].
    intros _. replace (l ++ [mem_line sec pt r]) with (ins_new l (mem_line sec pt r))
      by (unfold ins_new; rewrite E; reflexivity).
    split; [apply lines_upd_ins_new|]. split; [apply NoDup_ins_new|exact I].
Qed.

Lemma ad0_add_many_eff : forall l fl sec pt rs, exists l' o,
  ad0_add_many (AMemory l fl) sec pt rs = (AMemory l' fl, o) /\
  ad_eff l sec pt (fun p => addmany_l p rs) True l' o.
Proof.
  intros. cbn [ad0_add_many].
  destruct (existsb (fun ln => rmem ln l) (map (mem_line sec pt) rs)) eqn:E.
  - exists l, (Ok false). split; [reflexivity|]. split; [discriminate|reflexivity].
  - exists (fold_left ins_new (map (mem_line sec pt) rs) l), (Ok true).
    split; [reflexivity|]. split; [|congruence]. intros _.
    replace (fold_left ins_new (map (mem_line sec pt) rs) l)
      with (addmany_l l (map (mem_line sec pt) rs)) by (unfold addmany_l; rewrite E; reflexivity).
    split; [apply lines_upd_addmany|]. split; [apply NoDup_addmany|exact I].
Qed.

Lemma ad0_remove_eff : forall l fl sec pt r, exists l' o,
  ad0_remove (AMemory l fl) sec pt r = (AMemory l' fl, o) /\
  ad_eff l sec pt (rremove r) True l' o.
Proof.
  intros. cbn [ad0_remove]. destruct (rmem (mem_line sec pt r) l) eqn:E.
  - exists (rremove (mem_line sec pt r) l), (Ok true). split; [reflexivity|]. split; [|congruence].
    intros _. split; [apply lines_upd_rremove|]. split; [apply NoDup_rremove|exact I].
  - exists l, (Ok false). split; [reflexivity|]. split; [discriminate|reflexivity].
Qed.

Lemma ad0_remove_many_eff : forall l fl sec pt rs, exists l' o,
  ad0_remove_many (AMemory l fl) sec pt rs = (AMemory l' fl, o) /\
  ad_eff l sec pt (fun p => removemany_l p rs) True l' o.
Proof.
  intros. cbn [ad0_remove_many].
  destruct (forallb (fun ln => rmem ln l) (map (mem_line sec pt) rs)) eqn:E.
  - exists (fold_left (fun l ln => rremove ln l) (map (mem_line sec pt) rs) l), (Ok true).
    split; [reflexivity|]. split; [|congruence]. intros _.
    replace (fold_left (fun l ln => rremove ln l) (map (mem_line sec pt) rs) l)
      with (removemany_l l (map (mem_line sec pt) rs))
      by (unfold removemany_l; rewrite E; reflexivity).
    split; [apply lines_upd_removemany|]. split; [apply NoDup_removemany|exact I].
  - exists l, (Ok false). split; [reflexivity|]. split; [discriminate|reflexivity].
Qed.

Lemma ad0_remove_filtered_eff : forall l fl sec pt idx vals, exists l' o,
  ad0_remove_filtered (AMemory l fl) sec pt idx vals = (AMemory l' fl, o) /\
  ad_eff l sec pt (rf_l idx vals)
         (exists rem, select_filtered idx vals (lines_for sec pt l) = Some rem) l' o.
Proof.
  intros. cbn [ad0_remove_filtered]. destruct vals as [|v0 vs0] eqn:Ev.
  - exists l, (Ok false). split; [reflexivity|]. split; [discriminate|reflexivity].
  - rewrite <- Ev. assert (Hv : vals <> []) by (rewrite Ev; discriminate). clear Ev.
    destruct (mem_filter_lines sec pt idx vals l) as [[kept res]|] eqn:E.
    + exists kept, (Ok res). split; [reflexivity|]. split.
      * intros Hr. split; [eapply lines_upd_mfl; eassumption|].
        split; [apply (mfl_sub _ _ _ _ _ _ _ E)|eapply mfl_select; exact E].
      * intros Hr. destruct res; [congruence|]. eapply mfl_res_false. exact E.
    + exists l, Panic. split; [reflexivity|]. split; [discriminate|reflexivity].
Qed.

Lemma scripted_unit_mem : forall a f l (P : list rule -> lres -> Prop),
  mem_of a = Some l ->
  (forall fl, exists l' fl' r, f (AMemory l fl) = (AMemory l' fl', r) /\ P l' r) ->
  exists l', mem_of (fst (scripted_unit a f)) = Some l' /\
             (P l' (snd (scripted_unit a f)) \/
              (l' = l /\ snd (scripted_unit a f) = LRErr EAdapter)).
Proof.
  intros a f l P Hm Hf.
  destruct a as [| l0 fl | | | i sc]; cbn in Hm; try discriminate.
  - inversion Hm; subst l0. cbn [scripted_unit]. destruct (Hf fl) as (l' & fl' & r & E & He).
    rewrite E. exists l'. cbn. auto.
  - destruct i as [| l0 fl | | |]; cbn in Hm; try discriminate. inversion Hm; subst l0.
    destruct (Hf fl) as (l' & fl' & r & E & He).
    destruct sc as [|[] sc]; cbn [scripted_unit]; rewrite ?E; cbn;
      first [ solve [exists l'; split; [reflexivity|left; exact He]]
            | solve [exists l; split; [reflexivity|right; split; reflexivity]] ].
Qed.

Lemma ad_load_mem : forall a l md, mem_of a = Some l ->
  exists ad, mem_of ad = Some l /\
    ((ad_load a md = (ad, fold_left load_mem_line l md, LROk) /\ ad_is_filtered ad = false) \/
     exists md' e, ad_load a md = (ad, md', LRErr e)).
Proof.
  intros a l md Hm.
  destruct a as [| l0 fl | | | i sc]; cbn in Hm; try discriminate.
  - inversion Hm; subst l0. exists (AMemory l false). split; [reflexivity|]. left. split; reflexivity.
  - destruct i as [| l0 fl | | |]; cbn in Hm; try discriminate. inversion Hm; subst l0.
    destruct sc as [|[] sc]; cbn [ad_load ad0_load].
    + exists (AScripted (AMemory l false) []). split; [reflexivity|]. left. split; reflexivity.
    + exists (AScripted (AMemory l false) sc). split; [reflexivity|]. left. split; reflexivity.
    + exists (AScripted (AMemory l fl) sc). split; [reflexivity|]. right. eauto.
    + exists (AScripted (AMemory l fl) sc). split; [reflexivity|]. right. eauto.
    + exists (AScripted (AMemory l false) sc). split; [reflexivity|]. right. eauto.
    + exists (AScripted (AMemory l false) sc). split; [reflexivity|]. right. eauto.
Qed.

(* ================= one management call preserves the invariant ================= *)
Lemma mgmt_no : forall s ad l sec pt U Q l' ares,
  e_auto_save s = true -> KeysOkP (e_model s) -> SyncLM l (e_model s) ->
  mem_of ad = Some l' -> ad_eff l sec pt U Q l' ares -> ares <> Ok true ->
  Inv (upd_adapter s ad).
Proof.
  intros s ad l sec pt U Q l' ares Hs Hk Hsy Hm' [_ He] Hne.
  rewrite (He Hne) in Hm'. split; [exact Hs|]. split; [exact Hk|].
  exists l. split; [exact Hm'|exact Hsy].
Qed.

Lemma mgmt_yes : forall s ad l sec pt U Q l' md',
  e_auto_save s = true -> KeysOkP (e_model s) -> SyncLM l (e_model s) ->
  mem_of ad = Some l' -> ad_eff l sec pt U Q l' (Ok true) ->
  mpol_upd (e_model s) sec pt U md' -> keys_eq (e_model s) md' ->
  Inv (upd_model (upd_adapter s ad) md').
Proof.
  intros s ad l sec pt U Q l' md' Hs Hk Hsy Hm' [He _] Hmu Hke.
  destruct (He eq_refl) as (Hlu & Hnd & _).
  split; [exact Hs|]. split; [eapply KeysOkP_keys_eq; eassumption|].
  exists l'. split; [exact Hm'|]. cbn.
  eapply sync_upd; try eassumption. apply Hnd. apply Hsy.
Qed.

Lemma step_add_inv : forall s sec pt r, Inv s -> Inv (fst (step_add s sec pt r)).
Proof.
  intros s sec pt r (Hs & Hk & l & Hm & Hsy). unfold step_add. rewrite Hs.
  destruct (scripted_mem_eff (e_adapter s) (fun x => ad0_add x sec pt r) l sec pt _ True Hm
              (fun fl => ad0_add_eff l fl sec pt r)) as (l' & Hm' & _ & Heff).
  unfold ad_add. destruct (scripted (e_adapter s) (fun x => ad0_add x sec pt r)) as [ad ares].
  cbn [fst snd] in Hm', Heff.
  destruct ares as [[|]|e|];
    try (cbn [fst]; eapply mgmt_no; try eassumption; discriminate).
  cbn [e_model upd_adapter].
  destruct (m_add_policy (e_model s) sec pt r) as [md added] eqn:Em.
  destruct (m_add_policy_upd _ _ _ _ _ _ Em) as [Hmu Hke].
  match goal with |- Inv (fst (after_change ?s2 _ _ _ _ _)) =>
    destruct (after_change s2 sec pt added true [r]) as [s3 o] eqn:Eac end.
  cbn [fst]. eapply Inv_transfer.
  - eapply same_store_trans; [apply same_store_emit_mgmt|].
    eapply same_store_after_change. exact Eac.
  - eapply mgmt_yes; eassumption.
Qed.

Lemma step_add_many_inv : forall s sec pt rs, Inv s -> Inv (fst (step_add_many s sec pt rs)).
Proof.
  intros s sec pt rs (Hs & Hk & l & Hm & Hsy). unfold step_add_many. rewrite Hs.
  destruct (scripted_mem_eff (e_adapter s) (fun x => ad0_add_many x sec pt rs) l sec pt _ True Hm
              (fun fl => ad0_add_many_eff l fl sec pt rs)) as (l' & Hm' & _ & Heff).
  unfold ad_add_many.
  destruct (scripted (e_adapter s) (fun x => ad0_add_many x sec pt rs)) as [ad ares].
  cbn [fst snd] in Hm', Heff.
  destruct ares as [[|]|e|];
    try (cbn [fst]; eapply mgmt_no; try eassumption; discriminate).
  cbn [e_model upd_adapter].
  destruct (m_add_policies (e_model s) sec pt rs) as [md added] eqn:Em.
  destruct (m_add_policies_upd _ _ _ _ _ _ Em) as [Hmu Hke].
  match goal with |- Inv (fst (after_change ?s2 _ _ _ _ _)) =>
    destruct (after_change s2 sec pt added true rs) as [s3 o] eqn:Eac end.
  cbn [fst]. eapply Inv_transfer.
  - eapply same_store_trans; [apply same_store_emit_mgmt|].
    eapply same_store_after_change. exact Eac.
  - eapply mgmt_yes; eassumption.
Qed.

Lemma step_remove_inv : forall s sec pt r, Inv s -> Inv (fst (step_remove s sec pt r)).
Proof.
  intros s sec pt r (Hs & Hk & l & Hm & Hsy). unfold step_remove. rewrite Hs.
  destruct (scripted_mem_eff (e_adapter s) (fun x => ad0_remove x sec pt r) l sec pt _ True Hm
              (fun fl => ad0_remove_eff l fl sec pt r)) as (l' & Hm' & _ & Heff).
  unfold ad_remove. destruct (scripted (e_adapter s) (fun x => ad0_remove x sec pt r)) as [ad ares].
  cbn [fst snd] in Hm', Heff.
  destruct ares as [[|]|e|];
    try (cbn [fst]; eapply mgmt_no; try eassumption; discriminate).
  cbn [e_model upd_adapter].
  destruct (m_remove_policy (e_model s) sec pt r) as [md removed] eqn:Em.
  destruct (m_remove_policy_upd _ _ _ _ _ _ Em) as [Hmu Hke].
  match goal with |- Inv (fst (after_change ?s2 _ _ _ _ _)) =>
    destruct (after_change s2 sec pt removed false [r]) as [s3 o] eqn:Eac end.
  cbn [fst]. eapply Inv_transfer.
  - eapply same_store_trans; [apply same_store_emit_mgmt|].
    eapply same_store_after_change. exact Eac.
  - eapply mgmt_yes; eassumption.
Qed.

Lemma step_remove_many_inv : forall s sec pt rs, Inv s -> Inv (fst (step_remove_many s sec pt rs)).
Proof.
  intros s sec pt rs (Hs & Hk & l & Hm & Hsy). unfold step_remove_many. rewrite Hs.
  destruct (scripted_mem_eff (e_adapter s) (fun x => ad0_remove_many x sec pt rs) l sec pt _ True Hm
              (fun fl => ad0_remove_many_eff l fl sec pt rs)) as (l' & Hm' & _ & Heff).
  unfold ad_remove_many.
  destruct (scripted (e_adapter s) (fun x => ad0_remove_many x sec pt rs)) as [ad ares].
  cbn [fst snd] in Hm', Heff.
  destruct ares as [[|]|e|];
    try (cbn [fst]; eapply mgmt_no; try eassumption; discriminate).
  cbn [e_model upd_adapter].
  destruct (m_remove_policies (e_model s) sec pt rs) as [md removed] eqn:Em.
  destruct (m_remove_policies_upd _ _ _ _ _ _ Em) as [Hmu Hke].
  match goal with |- Inv (fst (after_change ?s2 _ _ _ _ _)) =>
    destruct (after_change s2 sec pt removed false rs) as [s3 o] eqn:Eac end.
  cbn [fst]. eapply Inv_transfer.
  - eapply same_store_trans; [apply same_store_emit_mgmt|].
    eapply same_store_after_change. exact Eac.
  - eapply mgmt_yes; eassumption.
Qed.

Lemma step_remove_filtered_inv : forall s sec pt idx vals,
  Inv s -> Inv (fst (step_remove_filtered s sec pt idx vals)).
Proof.
  intros s sec pt idx vals (Hs & Hk & l & Hm & Hsy). unfold step_remove_filtered. rewrite Hs.
  destruct (scripted_mem_eff (e_adapter s) (fun x => ad0_remove_filtered x sec pt idx vals)
              l sec pt _ _ Hm (fun fl => ad0_remove_filtered_eff l fl sec pt idx vals))
    as (l' & Hm' & _ & Heff).
  unfold ad_remove_filtered.
  destruct (scripted (e_adapter s) (fun x => ad0_remove_filtered x sec pt idx vals)) as [ad ares].
  cbn [fst snd] in Hm', Heff.
  destruct ares as [[|]|e|];
    try (cbn [fst]; eapply mgmt_no; try eassumption; discriminate).
  cbn [e_model upd_adapter].
  destruct (m_remove_filtered (e_model s) sec pt idx vals) as [[[md removed] rs]|] eqn:Em.
  - destruct (m_remove_filtered_upd _ _ _ _ _ _ _ _ Em) as [Hmu Hke].
    assert (Hbase : Inv (upd_model (upd_adapter s ad) md)) by (eapply mgmt_yes; eassumption).
    match goal with |- Inv (fst (if ?c then _ else _)) => destruct c end.
    + cbn [fst]. eapply Inv_transfer; [apply same_store_emit_mgmt|exact Hbase].
    + match goal with |- Inv (fst (let (_, _) := incremental_links ?s2 pt false rs in _)) =>
        destruct (incremental_links s2 pt false rs) as [s3 e] eqn:Eil end.
      cbn [fst]. eapply Inv_transfer; [|exact Hbase].
      eapply same_store_trans; [apply same_store_emit_mgmt|].
      eapply same_store_incremental_links. exact Eil.
  - (* the model would panic: impossible on a synchronised p/g definition,
       harmless elsewhere *)
    cbn [fst]. destruct (m_remove_filtered_none _ _ _ _ _ Em) as (pol & Hp & Hsel).
    destruct Heff as [He _]. destruct (He eq_refl) as (Hlu & Hnd & rem & Hrem).
    split; [exact Hs|]. split; [exact Hk|]. exists l'. split; [exact Hm'|]. cbn.
    eapply sync_upd_adapter_only; try eassumption; [apply Hnd; apply Hsy|].
    destruct (is_pg sec) eqn:Hpg; [|left; reflexivity]. exfalso.
    destruct Hsy as [_ Hsy]. rewrite (Hsy sec pt pol Hpg Hp) in Hrem. congruence.
Qed.

Lemma Inv_seq_or : forall ra f,
  Inv (fst ra) -> (forall s, Inv s -> Inv (fst (f s))) -> Inv (fst (seq_or ra f)).
Proof.
  intros [s1 [a|e|]] f H Hf; cbn [seq_or fst] in *; try exact H.
  specialize (Hf s1 H). destruct (f s1) as [s2 [b|e|]]; exact Hf.
Qed.

Lemma step_rbac_inv : forall s o, Inv s -> Inv (fst (step_rbac s o)).
Proof.
  intros s o H. destruct o; cbn [step_rbac];
    first [ apply step_add_inv; exact H | apply step_add_many_inv; exact H
          | apply step_remove_inv; exact H | apply step_remove_filtered_inv; exact H
          | apply Inv_seq_or;
            [apply step_remove_filtered_inv; exact H
            |intros s' H'; apply step_remove_filtered_inv; exact H'] ].
Qed.

(* ---- clear / save / load ---- *)
Lemma sync_nil_cleared : forall md, SyncLM [] (m_clear_policy md).
Proof.
  intros md. split; [constructor|]. intros sec pt pol Hpg Hp.
  rewrite mpol_clear_policy, Hpg in Hp. destruct (mpol md sec pt); cbn in Hp; [|discriminate].
  inversion Hp. reflexivity.
Qed.

Lemma step_clear_inv : forall s, Inv s -> Inv (fst (step_clear s)).
Proof.
  intros s (Hs & Hk & l & Hm & Hsy). unfold step_clear. rewrite Hs.
  destruct (scripted_unit_mem (e_adapter s) ad0_clear l (fun l' r => l' = [] /\ r = LROk) Hm)
    as (l' & Hm' & Hcase).
  { intros fl. exists [], false, LROk. cbn. auto. }
  unfold ad_clear. destruct (scripted_unit (e_adapter s) ad0_clear) as [ad r].
  cbn [fst snd] in Hm', Hcase. destruct Hcase as [[-> ->]|[-> ->]].
  - assert (Hbase : Inv (upd_model (upd_adapter s ad) (m_clear_policy (e_model s)))).
    { split; [exact Hs|]. split; [eapply KeysOkP_keys_eq; [apply keys_clear_policy|exact Hk]|].
      exists []. split; [exact Hm'|]. apply sync_nil_cleared. }
    cbn [e_model upd_adapter e_auto_build upd_model].
    destruct (e_auto_build s).
    + match goal with |- Inv (fst (match build_role_links ?s2 with _ => _ end)) =>
        destruct (build_role_links s2) as [s3 [|e]] eqn:Eb end; cbn [fst].
      * eapply Inv_transfer; [|exact Hbase].
        eapply same_store_trans; [eapply same_store_build_role_links; exact Eb|apply same_store_emit].
      * eapply Inv_transfer; [|exact Hbase]. eapply same_store_build_role_links; exact Eb.
    + cbn [fst]. eapply Inv_transfer; [apply same_store_emit|exact Hbase].
  - cbn [fst]. split; [exact Hs|]. split; [exact Hk|]. exists l. split; [exact Hm'|exact Hsy].
Qed.

Lemma step_save_inv : forall s, Inv s -> Inv (fst (step_save s)).
Proof.
  intros s (Hs & Hk & l & Hm & Hsy). unfold step_save.
  destruct (ad_is_filtered (e_adapter s)).
  - cbn [fst]. split; [exact Hs|]. split; [exact Hk|]. exists l. split; assumption.
  - destruct (scripted_unit_mem (e_adapter s) (fun x => ad0_save x (e_model s)) l
                (fun l' r => l' = mem_lines (e_model s) /\ r = LROk) Hm) as (l' & Hm' & Hcase).
    { intros fl. exists (mem_lines (e_model s)), fl, LROk. cbn. auto. }
    unfold ad_save. destruct (scripted_unit (e_adapter s) (fun x => ad0_save x (e_model s))) as [ad r].
    cbn [fst snd] in Hm', Hcase. destruct Hcase as [[-> ->]|[-> ->]].
    + cbn [fst]. eapply Inv_transfer; [apply same_store_emit|].
      split; [exact Hs|]. split; [exact Hk|]. exists (mem_lines (e_model s)).
      split; [exact Hm'|]. apply sync_mem_lines; [exact Hk|]. eapply SyncLM_PolND. exact Hsy.
    + cbn [fst]. split; [exact Hs|]. split; [exact Hk|]. exists l. split; [exact Hm'|exact Hsy].
Qed.

Lemma sync_loaded : forall l md, NoDup l ->
  SyncLM l (fold_left load_mem_line l (m_clear_policy md)).
Proof.
  intros l md Hn. split; [exact Hn|]. intros sec pt pol Hpg Hp.
  rewrite (mpol_load_cleared _ _ _ _ Hn Hpg) in Hp.
  destruct (mpol md sec pt); cbn in Hp; [|discriminate]. inversion Hp. reflexivity.
Qed.

Lemma keys_loaded : forall l md, keys_eq md (fold_left load_mem_line l (m_clear_policy md)).
Proof.
  intros. eapply keys_eq_trans; [apply keys_clear_policy|apply keys_fold_load_mem].
Qed.

Lemma finish_load_ok_store : forall s ad md s' o,
  finish_load s ad md LROk = (s', o) -> same_store (upd_model (upd_adapter s ad) md) s'.
Proof.
  intros s ad md s' o H. cbn [finish_load] in H.
  destruct (e_auto_build (upd_model (upd_adapter s ad) md)).
  - destruct (build_role_links (upd_model (upd_adapter s ad) md)) as [s2 e] eqn:Eb.
    inversion H; subst. eapply same_store_build_role_links. exact Eb.
  - inversion H. apply same_store_refl.
Qed.

(* a (re)load from a duplicate-free memory adapter: either the model now holds
   exactly the adapter's rules, or the load failed and nothing changed *)
Lemma step_load_mem : forall s l, mem_of (e_adapter s) = Some l -> NoDup l ->
  (mem_of (e_adapter (fst (step_load s))) = Some l /\
   SyncLM l (e_model (fst (step_load s))) /\
   keys_eq (e_model s) (e_model (fst (step_load s))) /\
   e_auto_save (fst (step_load s)) = e_auto_save s /\
   ad_is_filtered (e_adapter (fst (step_load s))) = false) \/
  (mem_of (e_adapter (fst (step_load s))) = Some l /\
   e_model (fst (step_load s)) = e_model s /\
   e_auto_save (fst (step_load s)) = e_auto_save s /\
   exists e, snd (step_load s) = Err e).
Proof.
  intros s l Hm Hn. unfold step_load.
  destruct (ad_load_mem (e_adapter s) l (m_clear_policy (e_model s)) Hm)
    as (ad & Hm' & [[E Hf]|(md' & e & E)]); rewrite E.
  - left. destruct (finish_load s ad _ LROk) as [s' o] eqn:Ef.
    pose proof (finish_load_ok_store _ _ _ _ _ Ef) as [Ha Hp Hk Hs]. cbn [fst snd].
    cbn in Ha, Hp, Hk, Hs.
    split; [rewrite Ha; exact Hm'|]. split.
    { eapply SyncLM_pol_eq; [exact Hp|]. apply sync_loaded. exact Hn. }
    split; [eapply keys_eq_trans; [apply keys_loaded|exact Hk]|].
    split; [exact Hs|]. rewrite Ha; exact Hf.
  - right. cbn [finish_load fst snd e_model upd_adapter e_adapter e_auto_save].
    repeat split; try assumption. exists e. reflexivity.
Qed.

Lemma step_load_inv : forall s, Inv s -> Inv (fst (step_load s)).
Proof.
  intros s (Hs & Hk & l & Hm & Hsy).
  destruct (step_load_mem s l Hm (proj1 Hsy)) as [(H1 & H2 & H3 & H4 & _)|(H1 & H2 & H3 & _)].
  - split; [congruence|]. split; [eapply KeysOkP_keys_eq; eassumption|].
    exists l. split; assumption.
  - unfold Inv, AdapterSync. rewrite H2. split; [congruence|]. split; [exact Hk|].
    exists l. split; assumption.
Qed.

Lemma step_load_plain : forall s l f, e_adapter s = AMemory l f -> NoDup l ->
  mem_of (e_adapter (fst (step_load s))) = Some l /\
  SyncLM l (e_model (fst (step_load s))) /\
  keys_eq (e_model s) (e_model (fst (step_load s))) /\
  e_auto_save (fst (step_load s)) = e_auto_save s.
Proof.
  intros s l f Ha Hn. unfold step_load. rewrite Ha. cbn [ad_load ad0_load].
  destruct (finish_load s (AMemory l false) _ LROk) as [s' o] eqn:Ef.
  pose proof (finish_load_ok_store _ _ _ _ _ Ef) as [Ha' Hp Hk Hs]. cbn [fst].
  cbn in Ha', Hp, Hk, Hs.
  split; [rewrite Ha'; reflexivity|]. split.
  { eapply SyncLM_pol_eq; [exact Hp|]. apply sync_loaded. exact Hn. }
  split; [eapply keys_eq_trans; [apply keys_loaded|exact Hk]|exact Hs].
Qed.

(* ---- the calls that do not touch the store ---- *)
Lemma same_store_set_role_manager : forall s mx, same_store s (fst (step_set_role_manager s mx)).
Proof.
  intros s mx. unfold step_set_role_manager.
  set (fz := freeze_handle (f_rm (e_fs s)) (f_rm_max (e_fs s))).
  set (md := match assoc s_g (e_model s) with
             | Some am => assoc_set s_g (map (fun ka => (fst ka, with_handle (snd ka) (fz (a_handle (snd ka))))) am) (e_model s)
             | None => e_model s end).
  assert (Hmd : pol_eq (e_model s) md /\ keys_eq (e_model s) md).
  { unfold md. destruct (assoc s_g (e_model s)) as [am|] eqn:Eg;
      [|split; [apply pol_eq_refl|apply keys_eq_refl]].
    apply (pol_eq_assoc_set_sk _ _ _ _ Eg). rewrite !map_map. reflexivity. }
  destruct Hmd as [Hp Hk].
  match goal with |- context [upd_fs (upd_model s md) ?fs] =>
    set (s1 := upd_fs (upd_model s md) fs) end.
  destruct (e_auto_build s1).
  - destruct (build_role_links s1) as [s2 e] eqn:Eb.
    assert (H12 : same_store s s2).
    { eapply same_store_trans; [|eapply same_store_build_role_links; exact Eb].
      constructor; cbn; [reflexivity|exact Hp|exact Hk|reflexivity]. }
    destruct e as [|c]; [|cbn [fst]; exact H12].
    destruct (register_g_functions s2) as [s3 e'] eqn:Er. cbn [fst].
    eapply same_store_trans; [exact H12|]. eapply same_store_register_g. exact Er.
  - destruct (register_g_functions s1) as [s3 e'] eqn:Er. cbn [fst].
    eapply same_store_trans; [|eapply same_store_register_g; exact Er].
    constructor; cbn; [reflexivity|exact Hp|exact Hk|reflexivity].
Qed.

Lemma Inv_upd_flags : forall s en bl nt cb,
  Inv s -> Inv (upd_flags s en true bl nt cb).
Proof. intros s en bl nt cb (Hs & Hk & Hsy). split; [reflexivity|]. split; assumption. Qed.

(* ================= C09 (2): every management call keeps adapter and model in sync ============ *)
Theorem step_preserves_Inv : forall s o, c09_op o = true -> Inv s -> Inv (fst (step s o)).
Proof.
  intros s o Hop H. destruct o; cbn [c09_op] in Hop; try discriminate; cbn [step].
  - apply step_add_inv, H.
  - apply step_add_many_inv, H.
  - apply step_remove_inv, H.
  - apply step_remove_many_inv, H.
  - apply step_remove_filtered_inv, H.
  - apply step_rbac_inv, H.
  - apply step_clear_inv, H.
  - apply step_load_inv, H.
  - apply step_save_inv, H.
  - destruct (build_role_links s) as [s' e] eqn:Eb. cbn [fst].
    eapply Inv_transfer; [eapply same_store_build_role_links; exact Eb|exact H].
  - eapply Inv_transfer; [apply same_store_set_role_manager|exact H].
  - exact H.
  - cbn [fst]. eapply Inv_transfer; [apply same_store_upd_fs|exact H].
  - cbn [fst]. pose proof H as (Hs & _). rewrite Hs. apply Inv_upd_flags, H.
  - destruct b; [|discriminate]. cbn [fst]. apply Inv_upd_flags, H.
  - cbn [fst]. pose proof H as (Hs & _). rewrite Hs. apply Inv_upd_flags, H.
  - cbn [fst]. pose proof H as (Hs & _). rewrite Hs. apply Inv_upd_flags, H.
Qed.

Theorem run_ops_preserves_Inv : forall ops s,
  forallb c09_op ops = true -> Inv s -> Inv (run_ops s ops).
Proof.
  unfold run_ops. induction ops as [|o ops IH]; intros s Hops H; cbn [fold_left]; [exact H|].
  cbn [forallb] in Hops. apply andb_true_iff in Hops. destruct Hops as [Ho Hops].
  apply IH; [exact Hops|]. apply step_preserves_Inv; assumption.
Qed.

Lemma In_firstn {A} : forall n (l : list A) x, In x (firstn n l) -> In x l.
Proof.
  induction n as [|n IH]; intros [|y l] x H; cbn in *; try contradiction.
  destruct H as [H|H]; [left; exact H|right; apply IH, H].
Qed.

(* the invariant holds after every prefix of the history *)
Theorem Inv_every_prefix : forall ops s n,
  forallb c09_op ops = true -> Inv s -> Inv (run_ops s (firstn n ops)).
Proof.
  intros ops s n Hops H. apply run_ops_preserves_Inv; [|exact H].
  rewrite forallb_forall in *. intros o Ho. apply Hops. apply (In_firstn _ _ _ Ho).
Qed.

(* ---- the constructor ---- *)
Theorem new_enforcer_Inv : forall d lines w s0,
  NoDup lines -> KeysOkP (d_model d) ->
  new_raw d (AMemory lines false) w = (s0, LOk) ->
  Inv (fst (new_enforcer d (AMemory lines false) w)).
Proof.
  intros d lines w s0 Hn Hk Hraw. unfold new_enforcer. rewrite Hraw.
  unfold new_raw in Hraw. apply same_store_register_g in Hraw.
  destruct Hraw as [Ha Hp Hke Hs]. cbn in Ha, Hp, Hke, Hs.
  rewrite Ha. cbn [ad_is_filtered].
  destruct (step_load_plain s0 lines false Ha Hn) as (H1 & H2 & H3 & H4).
  split; [congruence|]. split.
  - eapply KeysOkP_keys_eq; [exact H3|]. eapply KeysOkP_keys_eq; eassumption.
  - exists lines. split; assumption.
Qed.

Theorem new_enforcer_Inv_ok : forall d a w lines s b,
  mem_of a = Some lines -> ad_is_filtered a = false -> NoDup lines -> KeysOkP (d_model d) ->
  new_enforcer d a w = (s, Ok b) -> Inv s.
Proof.
  intros d a w lines s b Hm Hf Hn Hk Hnew. unfold new_enforcer in Hnew.
  destruct (new_raw d a w) as [s0 [|e]] eqn:Hraw; [|discriminate].
  unfold new_raw in Hraw. apply same_store_register_g in Hraw.
  destruct Hraw as [Ha Hp Hke Hs]. cbn in Ha, Hp, Hke, Hs.
  rewrite Ha, Hf in Hnew.
  assert (Hm0 : mem_of (e_adapter s0) = Some lines) by (rewrite Ha; exact Hm).
  destruct (step_load_mem s0 lines Hm0 Hn) as [(H1 & H2 & H3 & H4 & _)|(H1 & H2 & H3 & e & H4)];
    rewrite Hnew in *; cbn [fst snd] in *.
  - split; [congruence|]. split.
    + eapply KeysOkP_keys_eq; [exact H3|]. eapply KeysOkP_keys_eq; eassumption.
    + exists lines. split; assumption.
  - discriminate.
Qed.

(* ================= C09 (1): what AdapterSync means ================= *)
Lemma sec_sync_b_spec : forall l md sec,
  sec_sync_b l md sec = true <->
  (forall pt pol, mpol md sec pt = Some pol -> lines_for sec pt l = pol).
Proof.
  intros l md sec. unfold sec_sync_b, mpol, get_ast.
  destruct (assoc sec md) as [am|]; [|split; [intros _ pt pol H; discriminate|reflexivity]].
  rewrite forallb_forall. split.
  - intros H pt pol Hp. destruct (assoc pt am) as [a|] eqn:Ea; [|discriminate].
    cbn in Hp. inversion Hp; subst. specialize (H pt (assoc_key_in _ _ _ Ea)).
    rewrite Ea in H. apply rules_eqb_eq. exact H.
  - intros H k _. destruct (assoc k am) as [a|] eqn:Ea; [|reflexivity].
    apply rules_eqb_eq. apply H. rewrite Ea. reflexivity.
Qed.

Lemma sync_lines_b_spec : forall l md, sync_lines_b l md = true <-> SyncLM l md.
Proof.
  intros l md. unfold sync_lines_b, SyncLM.
  rewrite !andb_true_iff, nodupb_NoDup, !sec_sync_b_spec. split.
  - intros [[Hn Hp] Hg]. split; [exact Hn|]. intros sec pt pol Hpg.
    apply is_pg_cases in Hpg. destruct Hpg as [-> | ->]; auto.
  - intros [Hn H]. repeat split; auto.
Qed.

Theorem adapter_sync_b_spec : forall s, adapter_sync_b s = true <-> AdapterSync s.
Proof.
  intros s. unfold adapter_sync_b, AdapterSync. destruct (mem_of (e_adapter s)) as [l|].
  - rewrite sync_lines_b_spec. split.
    + intros H. exists l. split; [reflexivity|exact H].
    + intros (l' & Hl & H). inversion Hl; subst. exact H.
  - split; [discriminate|]. intros (l' & Hl & _). discriminate.
Qed.

(* for duplicate-free lines, SyncLM says exactly: loading the adapter into the
   emptied model gives back every p and g policy list *)
Theorem sync_iff_reload : forall l md, NoDup l ->
  (SyncLM l md <->
   forall sec pt, is_pg sec = true ->
     mpol (fold_left load_mem_line l (m_clear_policy md)) sec pt = mpol md sec pt).
Proof.
  intros l md Hn. split.
  - intros [_ H] sec pt Hpg. rewrite (mpol_load_cleared _ _ _ _ Hn Hpg).
    destruct (mpol md sec pt) as [pol|] eqn:Ep; [|reflexivity]. cbn.
    rewrite (H sec pt pol Hpg Ep). reflexivity.
  - intros H. split; [exact Hn|]. intros sec pt pol Hpg Hp.
    specialize (H sec pt Hpg). rewrite (mpol_load_cleared _ _ _ _ Hn Hpg), Hp in H.
    cbn in H. inversion H. reflexivity.
Qed.

Lemma mpol_get_policy : forall md md' sec pt,
  mpol md' sec pt = mpol md sec pt -> m_get_policy md' sec pt = m_get_policy md sec pt.
Proof. intros md md' sec pt H. rewrite !m_get_policy_mpol, H. reflexivity. Qed.

(* the reload view of a synchronised state shows the in-memory policy *)
Theorem reload_view_shows_policy : forall s s1 md1,
  AdapterSync s -> reload_view s = (s1, md1, LROk) ->
  forall sec pt, is_pg sec = true -> m_get_policy md1 sec pt = m_get_policy (e_model s) sec pt.
Proof.
  intros s s1 md1 (l & Hm & Hsy) Hrv sec pt Hpg. unfold reload_view in Hrv.
  destruct (ad_load_mem (e_adapter s) l (m_clear_policy (e_model s)) Hm)
    as (ad & Hm' & [[E Hf]|(md' & e & E)]); rewrite E in Hrv; inversion Hrv; subst.
  apply mpol_get_policy. apply (proj1 (sync_iff_reload l (e_model s) (proj1 Hsy)) Hsy sec pt Hpg).
Qed.

(* the reload view only fails when a script says so; it never panics *)
Theorem reload_view_result : forall s l, mem_of (e_adapter s) = Some l ->
  snd (reload_view s) = LROk \/ exists e, snd (reload_view s) = LRErr e.
Proof.
  intros s l Hm. unfold reload_view.
  destruct (ad_load_mem (e_adapter s) l (m_clear_policy (e_model s)) Hm)
    as (ad & Hm' & [[E Hf]|(md' & e & E)]); rewrite E; cbn; eauto.
Qed.

(* ================= C09 (3): reloading is the identity on the policy ================= *)
Theorem reload_identity : forall s, AdapterSync s ->
  forall sec pt, is_pg sec = true ->
    m_get_policy (e_model (fst (step s OLoad))) sec pt = m_get_policy (e_model s) sec pt.
Proof.
  intros s (l & Hm & Hsy) sec pt Hpg. cbn [step]. apply mpol_get_policy. unfold step_load.
  destruct (ad_load_mem (e_adapter s) l (m_clear_policy (e_model s)) Hm)
    as (ad & Hm' & [[E Hf]|(md' & e & E)]); rewrite E.
  - destruct (finish_load s ad _ LROk) as [s' o] eqn:Ef.
    pose proof (finish_load_ok_store _ _ _ _ _ Ef) as [_ Hp _ _]. cbn [fst]. cbn in Hp.
    rewrite Hp. apply (proj1 (sync_iff_reload l (e_model s) (proj1 Hsy)) Hsy sec pt Hpg).
  - reflexivity.
Qed.

Theorem reload_keeps_sync : forall s, AdapterSync s -> AdapterSync (fst (step s OLoad)).
Proof.
  intros s (l & Hm & Hsy). cbn [step].
  destruct (step_load_mem s l Hm (proj1 Hsy)) as [(H1 & H2 & _)|(H1 & H2 & _)].
  - exists l. split; assumption.
  - exists l. rewrite H2. split; assumption.
Qed.

(* ================= C09 (4): save then load is the identity ================= *)
Lemma e_model_emit : forall s ev, e_model (emit s ev) = e_model s.
Proof. intros. unfold emit. destruct (e_watcher s); reflexivity. Qed.
Lemma e_adapter_emit : forall s ev, e_adapter (emit s ev) = e_adapter s.
Proof. intros. unfold emit. destruct (e_watcher s); reflexivity. Qed.

Lemma ad_load_bundled : forall a md, is_bundled a = true -> ad_load a md = ad0_load a md.
Proof. intros [] md H; cbn in H; try discriminate; reflexivity. Qed.
Lemma ad_save_bundled : forall a md, is_bundled a = true -> ad_save a md = ad0_save a md.
Proof. intros [] md H; cbn in H; try discriminate; reflexivity. Qed.
Lemma ad0_save_bundled : forall a md, is_bundled a = true ->
  is_bundled (fst (ad0_save a md)) = true /\
  exists L, stored_lines (fst (ad0_save a md)) = Some L.
Proof.
  intros [] md H; cbn in H; try discriminate; cbn [ad0_save].
  - split; [reflexivity|]. eexists. reflexivity.
  - destruct (assoc s_p md); cbn; split; try reflexivity; eexists; reflexivity.
  - destruct (assoc s_p md); cbn; split; try reflexivity; eexists; reflexivity.
Qed.

Theorem save_load_roundtrip : forall s s1,
  is_bundled (e_adapter s) = true -> KeysOkP (e_model s) -> PolND (e_model s) ->
  step s OSave = (s1, Ok true) ->
  forall sec pt, is_pg sec = true ->
    m_get_policy (e_model (fst (step s1 OLoad))) sec pt = m_get_policy (e_model s) sec pt.
Proof.
  intros s s1 Hb Hk Hnd Hsave sec pt Hpg. apply mpol_get_policy.
  cbn [step] in *. unfold step_save in Hsave.
  destruct (ad_is_filtered (e_adapter s)); [discriminate|].
  rewrite (ad_save_bundled _ _ Hb) in Hsave.
  destruct (ad0_save (e_adapter s) (e_model s)) as [ad r] eqn:Es.
  destruct (ad0_save_bundled (e_adapter s) (e_model s) Hb) as [Hb' [L HL]].
  rewrite Es in Hb', HL. cbn [fst] in Hb', HL.
  destruct r; cbn in Hsave; try discriminate. inversion Hsave; subst s1. clear Hsave.
  unfold step_load. rewrite e_adapter_emit, e_model_emit. cbn [e_adapter e_model upd_adapter].
  rewrite (ad_load_bundled _ _ Hb').
  destruct (ad0_load_stored ad L (m_clear_policy (e_model s)) HL) as (Hmd & Hr & _ & _).
  destruct (ad0_load ad (m_clear_policy (e_model s))) as [[ad' md'] r'].
  cbn [fst snd] in Hmd, Hr. subst md' r'.
  match goal with |- mpol (e_model (fst (finish_load ?s0 ad' ?md LROk))) _ _ = _ =>
    destruct (finish_load s0 ad' md LROk) as [s2 o] eqn:Ef end.
  pose proof (finish_load_ok_store _ _ _ _ _ Ef) as [_ Hp _ _]. cbn [fst]. cbn in Hp.
  rewrite Hp, mpol_fold_load_mem, mpol_clear_policy, Hpg.
  destruct (mpol (e_model s) sec pt) as [pol|] eqn:Ep; [|reflexivity]. cbn [option_map].
  assert (HLf : lines_for sec pt L = pol).
  { eapply (save_lines_for (e_adapter s)); try eassumption.
    - rewrite Es. reflexivity.
    - rewrite Es. exact HL. }
  rewrite HLf, fold_oset_insert_nil; [reflexivity|]. apply (Hnd sec pt pol Hpg Ep).
Qed.

(* the save succeeds whenever the adapter is not filtered and (for the text
   adapters) the model has a p section *)
Theorem save_succeeds : forall s,
  is_bundled (e_adapter s) = true -> ad_is_filtered (e_adapter s) = false ->
  assoc s_p (e_model s) <> None -> snd (step s OSave) = Ok true.
Proof.
  intros s Hb Hf Hp. cbn [step]. unfold step_save. rewrite Hf, (ad_save_bundled _ _ Hb).
  destruct (e_adapter s); cbn in Hb; try discriminate; cbn [ad0_save].
  - reflexivity.
  - destruct (assoc s_p (e_model s)); [reflexivity|contradiction].
  - destruct (assoc s_p (e_model s)); [reflexivity|contradiction].
Qed.

Lemma pol_nodup_b_PolND : forall md, pol_nodup_b md = true -> PolND md.
Proof.
  intros md H sec pt pol Hpg Hp. unfold pol_nodup_b in H. apply andb_true_iff in H.
  assert (Hs : sec_pol_nodup_b md sec = true).
  { apply is_pg_cases in Hpg. destruct Hpg as [-> | ->]; tauto. }
  unfold sec_pol_nodup_b in Hs. unfold mpol, get_ast in Hp.
  destruct (assoc sec md) as [am|]; [|discriminate].
  destruct (assoc pt am) as [a|] eqn:Ea; [|discriminate]. cbn in Hp. inversion Hp; subst.
  rewrite forallb_forall in Hs. apply nodupb_NoDup. apply (Hs (pt, a)). apply assoc_In. exact Ea.
Qed.

(* the executable predicate holds on the model's own observations *)
Theorem c09_pred_model : forall s l sec pt a,
  Inv s -> mem_of (e_adapter s) = Some l -> is_pg sec = true ->
  get_ast (e_model s) sec pt = Some a ->
  c09_pred l sec pt (m_get_policy (e_model s) sec pt) = true.
Proof.
  intros s l sec pt a (_ & _ & l' & Hm' & Hsy) Hm Hpg Ha. rewrite Hm in Hm'. inversion Hm'; subst l'.
  unfold c09_pred. apply rules_eqb_eq. unfold m_get_policy. rewrite Ha.
  apply (proj2 Hsy sec pt (a_policy a) Hpg). unfold mpol. rewrite Ha. reflexivity.
Qed.

(* ================= concrete witnesses ================= *)
Local Open Scope string_scope.
Definition ex_ast (v : string) : assertion :=
  {| a_value := T v; a_tokens := []; a_policy := []; a_handle := HOwn |}.
Definition ex_model : model :=
  [ (s_r, [(T "r", ex_ast "sub, obj, act")]);
    (s_p, [(T "p", ex_ast "sub, obj, act"); (T "p2", ex_ast "sub, act")]);
    (s_g, [(T "g", ex_ast "_, _")]);
    (s_e, [(T "e", ex_ast "some(where (p_eft == allow))")]);
    (s_m, [(T "m", ex_ast "true")]) ].
Definition ex_def : modeldef := {| d_model := ex_model; d_mexprs := [] |}.
Definition L (l : list string) : rule := map T l.
Definition ex_lines : list rule :=
  [ L ["p";"p";"alice";"data1";"read"]; L ["g";"g";"alice";"admin"];
    L ["p";"p2";"admin";"write"]; L ["p";"p";"bob";"data2";"write"];
    L ["p";"p9";"nobody"] ].
Definition ex_s0 : estate := fst (new_enforcer ex_def (AMemory ex_lines false) false).
Definition ex_ops : list op :=
  [ OAdd s_p (T "p") (L ["carol";"data3";"read"]);
    OAdd s_p (T "p") (L ["carol";"data3";"read"]);             (* duplicate: refused *)
    OAddMany s_p (T "p2") [L ["bob";"read"]; L ["carol";"read"]];
    ORemove s_p (T "p") (L ["bob";"data2";"write"]);
    OAdd s_g (T "g") (L ["alice"]);                            (* late Err from the role links *)
    ORemoveMany s_p (T "p2") [L ["bob";"read"]];
    ORbac (RAddRole (T "bob") (T "admin") None);
    ORemoveFiltered s_p (T "p") 1 [T "data3"];
    OSave; OLoad;
    ORbac (RDeleteUser (T "alice"));
    OBuildRoleLinks; OSetRoleManager 5; OEnableAutoBuild false;
    OAdd s_p (T "p9") (L ["ghost"]);                           (* unknown ptype *)
    OClear; OAdd s_p (T "p") (L ["dave";"data4";"read"]) ].

Lemma ex_s0_inv : e_auto_save ex_s0 = true /\ keys_ok_b (e_model ex_s0) = true /\
                  adapter_sync_b ex_s0 = true /\
                  m_get_policy (e_model ex_s0) s_p (T "p") =
                  [L ["alice";"data1";"read"]; L ["bob";"data2";"write"]].
Proof. vm_compute. repeat split. Qed.

Lemma ex_ops_allowed : forallb c09_op ex_ops = true.
Proof. vm_compute. reflexivity. Qed.

Lemma ex_sync_after_every_call :
  forallb (fun n => adapter_sync_b (run_ops ex_s0 (firstn n ex_ops))) (seq 0 (S (length ex_ops))) = true.
Proof. vm_compute. reflexivity. Qed.

(* the late error: the call reports Err, yet adapter and model both hold the rule *)
Lemma ex_late_err :
  let s := run_ops ex_s0 (firstn 4 ex_ops) in
  snd (step s (OAdd s_g (T "g") (L ["alice"]))) = Err EPolicy /\
  m_get_policy (e_model (fst (step s (OAdd s_g (T "g") (L ["alice"]))))) s_g (T "g") =
    [L ["alice";"admin"]; L ["alice"]] /\
  adapter_sync_b (fst (step s (OAdd s_g (T "g") (L ["alice"])))) = true.
Proof. vm_compute. repeat split. Qed.

(* scripted refusals and failures *)
Definition ex_scr : estate :=
  fst (new_enforcer ex_def (AScripted (AMemory ex_lines false) [RPass; RRefuse; RFail; RPass; RFailLate; RFailPartial]) false).
Definition ex_scr_ops : list op :=
  [ OAdd s_p (T "p") (L ["carol";"data3";"read"]);   (* refused by the adapter *)
    OAdd s_p (T "p") (L ["carol";"data3";"read"]);   (* the adapter fails *)
    OAdd s_p (T "p") (L ["carol";"data3";"read"]);   (* passes *)
    OLoad; OLoad ].                                   (* both loads fail late *)
Lemma ex_scr_sync :
  map (fun n => (adapter_sync_b (run_ops ex_scr (firstn n ex_scr_ops)),
                 length (m_get_policy (e_model (run_ops ex_scr (firstn n ex_scr_ops))) s_p (T "p"))))
      (seq 0 6) = [(true, 2); (true, 2); (true, 2); (true, 3); (true, 3); (true, 3)] /\
  map (fun n => snd (step (run_ops ex_scr (firstn n ex_scr_ops)) (nth n ex_scr_ops OClear))) (seq 0 5)
  = [Ok false; Err EAdapter; Ok true; Err EAdapter; Err EAdapter].
Proof. vm_compute. split; reflexivity. Qed.

(* an UNKNOWN ptype: the adapter stores the line, the model ignores it and the
   call answers Ok false; a reload cannot tell (the loader drops the line) *)
Lemma ex_unknown_ptype :
  let r := step ex_s0 (OAdd s_p (T "p9") (L ["ghost"])) in
  snd r = Ok false /\
  mem_of (e_adapter (fst r)) = Some (ex_lines ++ [L ["p";"p9";"ghost"]])%list /\
  e_model (fst r) = e_model ex_s0 /\ adapter_sync_b (fst r) = true.
Proof. vm_compute. repeat split. Qed.

(* round trips *)
Definition ex_file (s : estate) (a : adapter) : estate := upd_adapter s a.
Lemma ex_roundtrip_all :
  forallb (fun a =>
    let s := upd_adapter ex_s0 a in
    match step s OSave with
    | (s1, Ok true) =>
      forallb (fun k => rules_eqb (m_get_policy (e_model (fst (step s1 OLoad))) (fst k) (snd k))
                                  (m_get_policy (e_model ex_s0) (fst k) (snd k)))
              [(s_p, T "p"); (s_p, T "p2"); (s_g, T "g")]
    | _ => false end) [AMemory [] false; AFile [] false; AString [] false] = true /\
  pol_nodup_b (e_model ex_s0) = true.
Proof. vm_compute. split; reflexivity. Qed.

(* ---- the key side condition is necessary ---- *)
Definition bad_model : model :=
  [ (s_r, [(T "r", ex_ast "sub, obj")]); (s_p, [(T "x", ex_ast "sub, obj")]);
    (s_e, [(T "e", ex_ast "some(where (p_eft == allow))")]); (s_m, [(T "m", ex_ast "true")]) ].
Definition bad_def : modeldef := {| d_model := bad_model; d_mexprs := [] |}.
Definition bad_s (a : adapter) : estate :=
  fst (step (fst (new_enforcer bad_def a false)) (OAdd s_p (T "x") (L ["a";"b"]))).

Lemma sync_needs_keys_ok :
  keys_ok_b (e_model (bad_s (AMemory [] false))) = false /\
  adapter_sync_b (bad_s (AMemory [] false)) = true /\
  c09_op OSave = true /\
  adapter_sync_b (fst (step (bad_s (AMemory [] false)) OSave)) = false.
Proof. vm_compute. repeat split. Qed.

Lemma roundtrip_needs_keys_ok :
  forallb (fun a =>
    let s := bad_s a in
    match step s OSave with
    | (s1, Ok true) =>
      rules_eqb (m_get_policy (e_model s) s_p (T "x")) [L ["a";"b"]] &&
      rules_eqb (m_get_policy (e_model (fst (step s1 OLoad))) s_p (T "x")) []
    | _ => false end) [AMemory [] false; AFile [] false] = true.
Proof. vm_compute. reflexivity. Qed.

(* duplicate-freeness of the policy lists is necessary as well (it always
   holds of reachable models; here the model definition itself carries a
   duplicated rule) *)
Definition dup_model : model :=
  [ (s_p, [(T "p", {| a_value := T "sub"; a_tokens := []; a_policy := [L ["a"]; L ["a"]]; a_handle := HOwn |})]) ].
Lemma roundtrip_needs_nodup :
  let s := upd_model (upd_adapter ex_s0 (AFile [] false)) dup_model in
  keys_ok_b dup_model = true /\ pol_nodup_b dup_model = false /\
  snd (step s OSave) = Ok true /\
  m_get_policy (e_model (fst (step (fst (step s OSave)) OLoad))) s_p (T "p") = [L ["a"]].
Proof. vm_compute. repeat split. Qed.
