(* C15 at the level of the TRANSLATED SOURCE: section 1 of Properties/C15.v (keyMatch / keyGet: the prefix before
   the first '*', for ALL texts) restated about gen_key_match / gen_key_get (Gen/StrFnGen.v, generated each run from
   src/model/function_map.rs), by composition with gen_key_match_ok / gen_key_get_ok (PinChecks/PcStrFnGen.v).

   keyMatch2..5 / keyGet2,3 are NOT fully translated yet: their regular expression is compiled at run time from
   the rewritten pattern (Regex::new), which Gen/Regex.v has no parser for (Properties/RegexFmGen.v, PARTIAL).
   Sections 3-5 of C15 (amatch, the exported key_match2.., the meaning of the specification) therefore stay on the
   model.  What IS translated of them is the pattern REWRITING of key_match2 / key_match3 (gen_key_match2 /
   gen_key_match3 with the regex call as a parameter): section 2 of C15 is restated for these two - the text the
   translated function hands to the regex engine reads back as exactly the regular expression the pattern
   denotes. *)
From CV Require Import Model.Base Model.PathMatch Model.SpecC15 Proofs.BaseP Proofs.C15P.
From CV Require Import Gen.RustStr Gen.StrFnGen PinChecks.PcStrFnGen.
From CV Require Import Gen.Regex Gen.RegexRt Gen.RegexGen Proofs.RegexP PinChecks.PcRegexFmGen.

(* ------------------------------------------------------------------ *)
(* 1. keyMatch / keyGet *)
Lemma src_key_match_spec : forall k p,
  gen_key_match k p = (let (pre, found) := before_star p in
                       if found then is_prefix pre k else teqb k p).
Proof. intros k p. rewrite gen_key_match_ok. apply key_match_def. Qed.

Lemma src_c15_key_match : forall k p,
  gen_key_match k p = true <->
  (exists pre rest, p = pre ++ star :: rest /\ ~ In star pre /\ exists t, k = pre ++ t)
  \/ (~ In star p /\ k = p).
Proof. intros k p. rewrite gen_key_match_ok. apply key_match_char. Qed.

Lemma src_key_get_spec : forall k p t, t <> [] ->
  (gen_key_get k p = t <->
   exists pre rest, p = pre ++ star :: rest /\ ~ In star pre /\ k = pre ++ t).
Proof. intros k p t Ht. rewrite gen_key_get_ok. apply key_get_char. exact Ht. Qed.

Lemma src_c15_key_get_match : forall k pre rest t, ~ In star pre -> k = pre ++ t ->
  gen_key_get k (pre ++ star :: rest) = t.
Proof. intros k pre rest t Hs Hk. rewrite gen_key_get_ok. apply key_get_match; assumption. Qed.

Lemma src_c15_key_get_nomatch : forall k pre rest, ~ In star pre -> (forall t, k <> pre ++ t) ->
  gen_key_get k (pre ++ star :: rest) = [].
Proof. intros k pre rest Hs Hk. rewrite gen_key_get_ok. apply key_get_nomatch; assumption. Qed.

Lemma src_c15_key_get_nostar : forall k p, ~ In star p -> gen_key_get k p = [].
Proof. intros k p Hs. rewrite gen_key_get_ok. apply key_get_nostar. exact Hs. Qed.

Lemma src_c15_key_get_implies_match : forall k p, gen_key_get k p <> [] -> gen_key_match k p = true.
Proof. intros k p. rewrite gen_key_get_ok, gen_key_match_ok. apply key_get_implies_match. Qed.

(* the executable predicate the test driver applies to the REAL functions' outputs holds of the translated ones *)
Lemma src_c15_pred_text_holds : forall k p, c15_pred_text k p (gen_key_match k p) (gen_key_get k p) = true.
Proof. intros k p. rewrite gen_key_match_ok, gen_key_get_ok. apply c15_pred_text_model. Qed.

Lemma src_c15_key_get_is_spec_kg : forall k p, gen_key_get k p = spec_kg k p.
Proof. intros k p. rewrite gen_key_get_ok. apply key_get_spec_kg. Qed.

(* ------------------------------------------------------------------ *)
(* 2. the translated rewriting of key_match2 / key_match3: whatever regex engine `rm` is plugged in, the pattern
      text it receives for a grammar pattern parses to the regular expression the pattern denotes *)
Lemma src_c15_rewrite_km2 : forall rm k p, grammar p = true ->
  exists t, gen_key_match2 rm k (render2 p) = rm k t /\ parse_regex t = Some (compile false false p).
Proof.
  intros rm k p Hg. exists (rewrite_km2 (render2 p)). split; [apply gen_key_match2_ok|apply parse_km2; exact Hg].
Qed.

Lemma src_c15_rewrite_km3 : forall rm k p, grammar p = true ->
  exists t, gen_key_match3 rm k (render3 p) = rm k t /\ parse_regex t = Some (compile false false p).
Proof.
  intros rm k p Hg. exists (rewrite_km3 (render3 p)). split; [apply gen_key_match3_ok|apply parse_km3; exact Hg].
Qed.

(* hence: plugged with the model's regex semantics (parse_regex + amatch), the translated keyMatch2 / keyMatch3
   decide the segment-wise specification on every key *)
Definition model_regex_match (k t : text) : bool :=
  match parse_regex t with Some rx => is_some (amatch rx k) | None => false end.

Lemma src_c15_km2 : forall k p, grammar p = true ->
  gen_key_match2 model_regex_match k (render2 p) = spec_km p k.
Proof.
  intros k p Hg. rewrite gen_key_match2_ok. unfold model_regex_match. rewrite (parse_km2 p Hg).
  apply is_some_amatch. exact Hg.
Qed.

Lemma src_c15_km3 : forall k p, grammar p = true ->
  gen_key_match3 model_regex_match k (render3 p) = spec_km p k.
Proof.
  intros k p Hg. rewrite gen_key_match3_ok. unfold model_regex_match. rewrite (parse_km3 p Hg).
  apply is_some_amatch. exact Hg.
Qed.
