(* C05, part 3: every management operation preserves RoleSync. *)
From CV Require Import Model.Base Model.RoleGraph Model.Expr Model.Enforce Model.Engine Model.SpecC05.
From CV Require Import Proofs.ListAux Proofs.BaseP Proofs.RoleGraphP Proofs.C05Links Proofs.C05Sync.
From Coq Require Import Lia.

(* ---------- frame facts ---------- *)
Lemma emit_model : forall s ev, e_model (emit s ev) = e_model s.
Proof. intros s ev. unfold emit. destruct (e_watcher s); reflexivity. Qed.
Lemma emit_fs : forall s ev, e_fs (emit s ev) = e_fs s.
Proof. intros s ev. unfold emit. destruct (e_watcher s); reflexivity. Qed.
Lemma emit_auto : forall s ev, e_auto_build (emit s ev) = e_auto_build s.
Proof. intros s ev. unfold emit. destruct (e_watcher s); reflexivity. Qed.
Lemma emit_mgmt_model : forall s ch ev, e_model (emit_mgmt s ch ev) = e_model s.
Proof. intros s ch ev. unfold emit_mgmt. destruct (ch && e_auto_notify s); [apply emit_model|reflexivity]. Qed.
Lemma emit_mgmt_fs : forall s ch ev, e_fs (emit_mgmt s ch ev) = e_fs s.
Proof. intros s ch ev. unfold emit_mgmt. destruct (ch && e_auto_notify s); [apply emit_fs|reflexivity]. Qed.
Lemma emit_mgmt_auto : forall s ch ev, e_auto_build (emit_mgmt s ch ev) = e_auto_build s.
Proof. intros s ch ev. unfold emit_mgmt. destruct (ch && e_auto_notify s); [apply emit_auto|reflexivity]. Qed.

Lemma RoleSync_emit : forall s ev, RoleSync s -> RoleSync (emit s ev).
Proof. intros s ev. apply RoleSync_ext; [rewrite emit_model|rewrite emit_fs]; reflexivity. Qed.

Lemma RoleSync_upd_adapter : forall s ad, RoleSync s -> RoleSync (upd_adapter s ad).
Proof. intros s ad H. exact H. Qed.

Lemma get_ast_set_ast_same : forall md sec k a v, get_ast md sec k = Some a ->
  get_ast (set_ast md sec k v) sec k = Some v.
Proof.
  intros md sec k a v H. unfold get_ast in *. unfold set_ast.
  destruct (assoc sec md) as [am|] eqn:Hs; [|discriminate].
  rewrite assoc_set_same. apply assoc_set_same.
Qed.

(* ---------- the incremental update keeps the invariant and cannot fail ---------- *)
Definition inc_cond (ins : bool) (md0 md2 : model) : Prop :=
  if ins then g_exact md2 = true else g_exact md0 = true /\ defs_disjoint md0 = true.

Theorem inc_links_sync : forall s0 s2 pt ins rs,
  RoleSync s0 -> e_fs s2 = e_fs s0 ->
  mchange (e_model s0) (e_model s2) s_g pt ins rs true ->
  inc_cond ins (e_model s0) (e_model s2) ->
  exists m', incremental_links s2 pt ins rs =
             (upd_fs (upd_model s2 (e_model s2)) (set_rm (e_fs s2) m'), LOk) /\
             RoleSync (upd_fs (upd_model s2 (e_model s2)) (set_rm (e_fs s2) m')).
Proof.
  intros s0 s2 pt ins rs [Hrs0 Hreg] Hfs Hch Hcond.
  inversion Hch as [|a pol' Ha Hmd Hrel]; subst.
  pose proof (get_ast_g_some _ _ _ Ha) as Hsec. pose proof (get_ast_g _ _ _ Ha) as Hpt.
  destruct (assoc_split pt a _ Hpt) as (l1 & l2 & Ham & Hset).
  assert (Hg2 : gsec (e_model s2) = l1 ++ (pt, with_policy a pol') :: l2).
  { rewrite Hmd, (gsec_set_ast_g _ _ pt _ Hsec). apply Hset. }
  assert (Ha2 : get_ast (e_model s2) s_g pt = Some (with_policy a pol')).
  { rewrite Hmd. apply (get_ast_set_ast_same _ _ _ a _ Ha). }
  assert (Hin : In (pt, a) (gsec (e_model s0))).
  { rewrite Ham. apply in_or_app. right. left. reflexivity. }
  assert (Hh : a_handle (with_policy a pol') = HCur).
  { cbn [with_policy a_handle]. destruct Hrs0 as (_ & _ & Hh). apply (Hh pt a Hin). }
  pose proof Hrs0 as (Hwf & _ & _).
  set (cnt := count_us (a_value a)).
  destruct ins; unfold inc_cond in Hcond; unfold polrel in Hrel.
  - (* insert *)
    assert (Hda : def_exact (with_policy a pol') = true).
    { apply (g_exact_am_In (gsec (e_model s2)) pt _ Hcond). rewrite Hg2.
      apply in_or_app. right. left. reflexivity. }
    apply def_exact_spec in Hda. cbn [with_policy a_value a_policy] in Hda.
    destruct Hda as [Hc Hlen]. fold cnt in Hc, Hlen.
    destruct (link_rules_ins cnt rs (f_rm (e_fs s0)) Hwf Hc) as (m' & Hrun & Hwf' & Hed).
    { intros r Hr. rewrite (Hlen r); [lia|]. apply Hrel. right. exact Hr. }
    exists m'. split.
    + apply (incremental_links_eq s2 pt true rs _ m' Ha2 Hh); cbn [with_policy a_value];
        [exact Hc|]. rewrite Hfs. exact Hrun.
    + unfold RoleSync. cbn [e_model e_fs upd_fs upd_model]. rewrite Hg2, Hfs. split.
      * cbn [set_rm f_rm]. apply (inc_insert _ l1 l2 pt a pol' _ Ham Hrs0 rs m' Hrel Hwf' Hed).
      * cbn [set_rm f_gfuns]. apply (am'_registered _ l1 l2 pt a pol' Ham _ Hreg).
  - (* delete *)
    destruct Hcond as [Hex Hdj]. destruct Hrel as [Hrel Hincl].
    assert (Hda : def_exact a = true) by apply (g_exact_am_In _ pt a Hex Hin).
    apply def_exact_spec in Hda. destruct Hda as [Hc Hlen]. fold cnt in Hc, Hlen.
    destruct (link_rules_del cnt rs (f_rm (e_fs s0)) Hwf Hc) as (m' & Hrun & Hwf' & Hed).
    { intros r Hr. rewrite (Hlen r); [lia|]. apply Hincl, Hr. }
    { intros r Hr. apply (stored_linkable _ l1 l2 pt a _ Ham Hrs0 r). apply Hincl, Hr. }
    exists m'. split.
    + apply (incremental_links_eq s2 pt false rs _ m' Ha2 Hh); cbn [with_policy a_value];
        [exact Hc|]. rewrite Hfs. exact Hrun.
    + unfold RoleSync. cbn [e_model e_fs upd_fs upd_model]. rewrite Hg2, Hfs. split.
      * cbn [set_rm f_rm].
        apply (inc_delete _ l1 l2 pt a pol' _ Ham Hrs0 rs m' Hrel Hincl Hex Hdj Hwf' Hed).
      * cbn [set_rm f_gfuns]. apply (am'_registered _ l1 l2 pt a pol' Ham _ Hreg).
Qed.

(* the update with nothing to do (filtered removal that matched nothing) *)
Lemma inc_links_nil : forall s pt ins, RoleSync s -> g_exact (e_model s) = true ->
  RoleSync (fst (incremental_links s pt ins [])) /\ snd (incremental_links s pt ins []) = LOk.
Proof.
  intros s pt ins Hrs Hex. unfold incremental_links.
  destruct (get_ast (e_model s) s_g pt) as [a|] eqn:Ha; [|split; [exact Hrs|reflexivity]].
  pose proof (get_ast_g _ _ _ Ha) as Hpt. apply assoc_In in Hpt.
  pose proof (g_exact_am_In _ pt a Hex Hpt) as Hda. apply def_exact_spec in Hda.
  destruct Hda as [Hc _].
  assert (E : Nat.ltb (count_us (a_value a)) 2 = false) by (apply Nat.ltb_ge; lia).
  rewrite E. cbn [link_rules fst snd].
  destruct Hrs as [Hrs0 Hreg]. pose proof Hrs0 as (_ & _ & Hh).
  rewrite (with_handle_id a (Hh pt a Hpt)), (set_ast_id _ _ _ _ Ha).
  split; [|reflexivity]. split; assumption.
Qed.

(* ---------- after_change ---------- *)
Theorem after_change_sync : forall s0 s2 sec pt ch ins rs,
  RoleSync s0 -> e_fs s2 = e_fs s0 -> e_auto_build s2 = true ->
  mchange (e_model s0) (e_model s2) sec pt ins rs ch ->
  (sec = s_g -> ch = true -> inc_cond ins (e_model s0) (e_model s2)) ->
  RoleSync (fst (after_change s2 sec pt ch ins rs)) /\
  snd (after_change s2 sec pt ch ins rs) = Ok ch.
Proof.
  intros s0 s2 sec pt ch ins rs Hrs Hfs Hb Hch Hcond. unfold after_change. rewrite Hb.
  destruct (teqb sec s_g) eqn:Es; cbn [negb orb].
  - apply teqb_eq in Es. subst sec. destruct ch; cbn [negb].
    + destruct (inc_links_sync s0 s2 pt ins rs Hrs Hfs Hch (Hcond eq_refl eq_refl))
        as (m' & Heq & Hrs'). rewrite Heq. cbn [fst snd lerr_out]. split; [exact Hrs'|reflexivity].
    + cbn [fst snd]. split; [|reflexivity]. apply (RoleSync_ext s0); [|exact Hfs|exact Hrs].
      rewrite (mchange_same _ _ _ _ _ _ Hch). reflexivity.
  - apply teqb_neq in Es. cbn [fst snd]. split; [|reflexivity].
    apply (RoleSync_ext s0); [|exact Hfs|exact Hrs].
    apply (mchange_nong _ _ _ _ _ _ _ Es Hch).
Qed.

(* ---------- g_exact only looks at values and rule lists ---------- *)
Lemma def_exact_with_handle : forall a h, def_exact (with_handle a h) = def_exact a.
Proof. reflexivity. Qed.

Lemma g_exact_set_handle : forall md pt a h, get_ast md s_g pt = Some a ->
  g_exact (set_ast md s_g pt (with_handle a h)) = g_exact md.
Proof.
  intros md pt a h Ha. unfold g_exact.
  pose proof (get_ast_g_some _ _ _ Ha) as Hsec. pose proof (get_ast_g _ _ _ Ha) as Hpt.
  rewrite (gsec_set_ast_g _ _ pt _ Hsec).
  destruct (assoc_split pt a _ Hpt) as (l1 & l2 & Ham & Hset).
  rewrite Hset, Ham, !g_exact_am_app. reflexivity.
Qed.

Lemma incremental_links_g_exact : forall s pt ins rs,
  g_exact (e_model (fst (incremental_links s pt ins rs))) = g_exact (e_model s).
Proof.
  intros s pt ins rs. unfold incremental_links.
  destruct (get_ast (e_model s) s_g pt) as [a|] eqn:Ha; [|reflexivity].
  destruct (Nat.ltb (count_us (a_value a)) 2); [reflexivity|].
  destruct (link_rules _ _ _ _) as [m' [|e]]; cbn [fst e_model upd_fs upd_model]; [|reflexivity].
  apply g_exact_set_handle, Ha.
Qed.

Lemma after_change_g_exact : forall s sec pt ch ins rs,
  g_exact (e_model (fst (after_change s sec pt ch ins rs))) = g_exact (e_model s).
Proof.
  intros s sec pt ch ins rs. unfold after_change.
  destruct (negb (teqb sec s_g) || negb (e_auto_build s) || negb ch); [reflexivity|].
  pose proof (incremental_links_g_exact s pt ins rs) as H.
  destruct (incremental_links s pt ins rs) as [s' e]. exact H.
Qed.

(* ---------- the five internal entry points ---------- *)
Theorem step_add_sync : forall s sec pt r, RoleSync s -> e_auto_build s = true ->
  (sec = s_g -> g_exact (e_model (fst (step_add s sec pt r))) = true) ->
  RoleSync (fst (step_add s sec pt r)).
Proof.
  intros s sec pt r Hrs Hb Hpost. unfold step_add in *.
  destruct (if e_auto_save s then ad_add (e_adapter s) sec pt r else (e_adapter s, Ok true)) as [ad ares].
  destruct ares as [[|]|e|]; try exact Hrs.
  destruct (m_add_policy (e_model (upd_adapter s ad)) sec pt r) as [md ch] eqn:Hm.
  cbn [e_model upd_adapter] in Hm. apply m_add_policy_change in Hm.
  set (s2 := emit_mgmt (upd_model (upd_adapter s ad) md) ch (EvAdd sec pt r)) in *.
  apply (after_change_sync s s2 sec pt ch true [r] Hrs).
  - unfold s2. rewrite emit_mgmt_fs. reflexivity.
  - unfold s2. rewrite emit_mgmt_auto. exact Hb.
  - unfold s2. rewrite emit_mgmt_model. exact Hm.
  - intros Hs _. unfold inc_cond. rewrite <- (after_change_g_exact s2 sec pt ch true [r]).
    apply Hpost, Hs.
Qed.

Theorem step_add_many_sync : forall s sec pt rs, RoleSync s -> e_auto_build s = true ->
  (sec = s_g -> g_exact (e_model (fst (step_add_many s sec pt rs))) = true) ->
  RoleSync (fst (step_add_many s sec pt rs)).
Proof.
  intros s sec pt rs Hrs Hb Hpost. unfold step_add_many in *.
  destruct (if e_auto_save s then ad_add_many (e_adapter s) sec pt rs else (e_adapter s, Ok true)) as [ad ares].
  destruct ares as [[|]|e|]; try exact Hrs.
  destruct (m_add_policies (e_model (upd_adapter s ad)) sec pt rs) as [md ch] eqn:Hm.
  cbn [e_model upd_adapter] in Hm. apply m_add_policies_change in Hm.
  set (s2 := emit_mgmt (upd_model (upd_adapter s ad) md) ch (EvAddMany sec pt rs)) in *.
  apply (after_change_sync s s2 sec pt ch true rs Hrs).
  - unfold s2. rewrite emit_mgmt_fs. reflexivity.
  - unfold s2. rewrite emit_mgmt_auto. exact Hb.
  - unfold s2. rewrite emit_mgmt_model. exact Hm.
  - intros Hs _. unfold inc_cond. rewrite <- (after_change_g_exact s2 sec pt ch true rs).
    apply Hpost, Hs.
Qed.

Definition del_cond (s : estate) (sec : text) : Prop :=
  sec = s_g -> g_exact (e_model s) = true /\ defs_disjoint (e_model s) = true.

Theorem step_remove_sync : forall s sec pt r, RoleSync s -> e_auto_build s = true ->
  del_cond s sec -> RoleSync (fst (step_remove s sec pt r)).
Proof.
  intros s sec pt r Hrs Hb Hpre. unfold step_remove in *.
  destruct (if e_auto_save s then ad_remove (e_adapter s) sec pt r else (e_adapter s, Ok true)) as [ad ares].
  destruct ares as [[|]|e|]; try exact Hrs.
  destruct (m_remove_policy (e_model (upd_adapter s ad)) sec pt r) as [md ch] eqn:Hm.
  cbn [e_model upd_adapter] in Hm. apply m_remove_policy_change in Hm.
  set (s2 := emit_mgmt (upd_model (upd_adapter s ad) md) ch (EvRemove sec pt r)) in *.
  apply (after_change_sync s s2 sec pt ch false [r] Hrs).
  - unfold s2. rewrite emit_mgmt_fs. reflexivity.
  - unfold s2. rewrite emit_mgmt_auto. exact Hb.
  - unfold s2. rewrite emit_mgmt_model. exact Hm.
  - intros Hs _. apply Hpre, Hs.
Qed.

Theorem step_remove_many_sync : forall s sec pt rs, RoleSync s -> e_auto_build s = true ->
  del_cond s sec -> RoleSync (fst (step_remove_many s sec pt rs)).
Proof.
  intros s sec pt rs Hrs Hb Hpre. unfold step_remove_many in *.
  destruct (if e_auto_save s then ad_remove_many (e_adapter s) sec pt rs else (e_adapter s, Ok true)) as [ad ares].
  destruct ares as [[|]|e|]; try exact Hrs.
  destruct (m_remove_policies (e_model (upd_adapter s ad)) sec pt rs) as [md ch] eqn:Hm.
  cbn [e_model upd_adapter] in Hm. apply m_remove_policies_change in Hm.
  set (s2 := emit_mgmt (upd_model (upd_adapter s ad) md) ch (EvRemoveMany sec pt rs)) in *.
  apply (after_change_sync s s2 sec pt ch false rs Hrs).
  - unfold s2. rewrite emit_mgmt_fs. reflexivity.
  - unfold s2. rewrite emit_mgmt_auto. exact Hb.
  - unfold s2. rewrite emit_mgmt_model. exact Hm.
  - intros Hs _. apply Hpre, Hs.
Qed.

Theorem step_remove_filtered_sync : forall s sec pt idx vals, RoleSync s -> e_auto_build s = true ->
  del_cond s sec -> RoleSync (fst (step_remove_filtered s sec pt idx vals)).
Proof.
  intros s sec pt idx vals Hrs Hb Hpre. unfold step_remove_filtered in *.
  destruct (if e_auto_save s then ad_remove_filtered (e_adapter s) sec pt idx vals
            else (e_adapter s, Ok true)) as [ad ares].
  destruct ares as [[|]|e|]; try exact Hrs.
  destruct (m_remove_filtered (e_model (upd_adapter s ad)) sec pt idx vals) as [[[md ch] rem]|] eqn:Hm;
    [|exact Hrs].
  cbn [e_model upd_adapter] in Hm. apply m_remove_filtered_change in Hm. destruct Hm as [Hm Hnil].
  set (s2 := emit_mgmt (upd_model (upd_adapter s ad) md) ch (EvRemoveFiltered sec pt rem)) in *.
  assert (Hfs : e_fs s2 = e_fs s) by (unfold s2; rewrite emit_mgmt_fs; reflexivity).
  assert (Hb2 : e_auto_build s2 = true) by (unfold s2; rewrite emit_mgmt_auto; exact Hb).
  assert (Hmd : e_model s2 = md) by (unfold s2; rewrite emit_mgmt_model; reflexivity).
  rewrite Hb2. destruct (teqb sec s_g) eqn:Es; cbn [negb orb].
  - apply teqb_eq in Es. subst sec. destruct (Hpre eq_refl) as [Hex Hdj]. destruct ch.
    + destruct (inc_links_sync s s2 pt false rem Hrs Hfs) as (m' & Heq & Hrs').
      * rewrite Hmd. exact Hm.
      * split; assumption.
      * rewrite Heq. exact Hrs'.
    + rewrite (Hnil eq_refl). apply mchange_same in Hm.
      assert (Hrs2 : RoleSync s2).
      { apply (RoleSync_ext s); [rewrite Hmd, Hm; reflexivity|exact Hfs|exact Hrs]. }
      destruct (inc_links_nil s2 pt false Hrs2) as [H _]; [rewrite Hmd, Hm; exact Hex|].
      destruct (incremental_links s2 pt false []) as [s3 e3]. exact H.
  - apply teqb_neq in Es. cbn [fst]. apply (RoleSync_ext s); [|exact Hfs|exact Hrs].
    rewrite Hmd. apply (mchange_nong _ _ _ _ _ _ _ Es Hm).
Qed.

(* ---------- the auto-build flag is only changed by enable_auto_build_role_links ---------- *)
Lemma incremental_links_auto : forall s pt ins rs,
  e_auto_build (fst (incremental_links s pt ins rs)) = e_auto_build s.
Proof.
  intros s pt ins rs. unfold incremental_links.
  destruct (get_ast (e_model s) s_g pt) as [a|]; [|reflexivity].
  destruct (Nat.ltb (count_us (a_value a)) 2); [reflexivity|].
  destruct (link_rules _ _ _ _) as [m' [|e]]; reflexivity.
Qed.

Lemma after_change_auto : forall s sec pt ch ins rs,
  e_auto_build (fst (after_change s sec pt ch ins rs)) = e_auto_build s.
Proof.
  intros s sec pt ch ins rs. unfold after_change.
  destruct (negb (teqb sec s_g) || negb (e_auto_build s) || negb ch); [reflexivity|].
  pose proof (incremental_links_auto s pt ins rs) as H.
  destruct (incremental_links s pt ins rs) as [s' e]. exact H.
Qed.

Lemma step_add_auto : forall s sec pt r, e_auto_build (fst (step_add s sec pt r)) = e_auto_build s.
Proof.
  intros s sec pt r. unfold step_add.
  destruct (if e_auto_save s then _ else _) as [ad ares].
  destruct ares as [[|]|e|]; try reflexivity.
  destruct (m_add_policy _ sec pt r) as [md ch].
  rewrite after_change_auto, emit_mgmt_auto. reflexivity.
Qed.

Lemma step_add_many_auto : forall s sec pt rs,
  e_auto_build (fst (step_add_many s sec pt rs)) = e_auto_build s.
Proof.
  intros s sec pt rs. unfold step_add_many.
  destruct (if e_auto_save s then _ else _) as [ad ares].
  destruct ares as [[|]|e|]; try reflexivity.
  destruct (m_add_policies _ sec pt rs) as [md ch].
  rewrite after_change_auto, emit_mgmt_auto. reflexivity.
Qed.

Lemma step_remove_auto : forall s sec pt r, e_auto_build (fst (step_remove s sec pt r)) = e_auto_build s.
Proof.
  intros s sec pt r. unfold step_remove.
  destruct (if e_auto_save s then _ else _) as [ad ares].
  destruct ares as [[|]|e|]; try reflexivity.
  destruct (m_remove_policy _ sec pt r) as [md ch].
  rewrite after_change_auto, emit_mgmt_auto. reflexivity.
Qed.

Lemma step_remove_many_auto : forall s sec pt rs,
  e_auto_build (fst (step_remove_many s sec pt rs)) = e_auto_build s.
Proof.
  intros s sec pt rs. unfold step_remove_many.
  destruct (if e_auto_save s then _ else _) as [ad ares].
  destruct ares as [[|]|e|]; try reflexivity.
  destruct (m_remove_policies _ sec pt rs) as [md ch].
  rewrite after_change_auto, emit_mgmt_auto. reflexivity.
Qed.

Lemma step_remove_filtered_auto : forall s sec pt idx vals,
  e_auto_build (fst (step_remove_filtered s sec pt idx vals)) = e_auto_build s.
Proof.
  intros s sec pt idx vals. unfold step_remove_filtered.
  destruct (if e_auto_save s then _ else _) as [ad ares].
  destruct ares as [[|]|e|]; try reflexivity.
  destruct (m_remove_filtered _ sec pt idx vals) as [[[md ch] rem]|]; [|reflexivity].
  set (s2 := emit_mgmt _ ch _).
  assert (H2 : e_auto_build s2 = e_auto_build s) by (unfold s2; rewrite emit_mgmt_auto; reflexivity).
  destruct (negb (teqb sec s_g) || negb (e_auto_build s2)); [exact H2|].
  pose proof (incremental_links_auto s2 pt false rem) as H.
  destruct (incremental_links s2 pt false rem) as [s3 e3]. cbn [fst] in *. congruence.
Qed.

Lemma seq_or_fst : forall ra f,
  fst (seq_or ra f) = match snd ra with Ok _ => fst (f (fst ra)) | _ => fst ra end.
Proof.
  intros [s [a|e|]] f; cbn [seq_or fst snd]; try reflexivity.
  destruct (f s) as [s' [b|e|]]; reflexivity.
Qed.

Lemma sp_ne_sg : s_p <> s_g.
Proof. intros H. vm_compute in H. discriminate. Qed.

Lemma del_cond_p : forall s, del_cond s s_p.
Proof. intros s H. exfalso. apply sp_ne_sg, H. Qed.

(* ---------- RBAC helpers ---------- *)
Definition rbac_post (s : estate) (o : rbac_op) : Prop :=
  match o with
  | RAddRole _ _ _ | RAddRoles _ _ _ => g_exact (e_model (fst (step_rbac s o))) = true
  | _ => True
  end.

Theorem step_rbac_sync : forall s o, RoleSync s -> e_auto_build s = true ->
  g_exact (e_model s) = true -> defs_disjoint (e_model s) = true -> rbac_post s o ->
  RoleSync (fst (step_rbac s o)).
Proof.
  intros s o Hrs Hb Hex Hdj Hpost.
  assert (Hdel : del_cond s s_g) by (intros _; split; assumption).
  destruct o as [u p|u ps|u r d|u rs d|u r d|u d|n|n|p|u p|u]; cbn [step_rbac rbac_post] in *.
  - apply step_add_sync; auto. intros H. exfalso. apply sp_ne_sg, H.
  - apply step_add_many_sync; auto. intros H. exfalso. apply sp_ne_sg, H.
  - apply step_add_sync; auto.
  - apply step_add_many_sync; auto.
  - apply step_remove_sync; auto.
  - apply step_remove_filtered_sync; auto.
  - rewrite seq_or_fst.
    pose proof (step_remove_filtered_sync s s_g s_g 0 [n] Hrs Hb Hdel) as H1.
    destruct (snd (step_remove_filtered s s_g s_g 0 [n])); try exact H1.
    apply step_remove_filtered_sync; [exact H1| |apply del_cond_p].
    rewrite step_remove_filtered_auto. exact Hb.
  - rewrite seq_or_fst.
    pose proof (step_remove_filtered_sync s s_g s_g 1 [n] Hrs Hb Hdel) as H1.
    destruct (snd (step_remove_filtered s s_g s_g 1 [n])); try exact H1.
    apply step_remove_filtered_sync; [exact H1| |apply del_cond_p].
    rewrite step_remove_filtered_auto. exact Hb.
  - apply step_remove_filtered_sync; auto. apply del_cond_p.
  - apply step_remove_sync; auto. apply del_cond_p.
  - apply step_remove_filtered_sync; auto. apply del_cond_p.
Qed.

Lemma step_rbac_auto : forall s o, e_auto_build (fst (step_rbac s o)) = e_auto_build s.
Proof.
  intros s o.
  destruct o as [u p|u ps|u r d|u rs d|u r d|u d|n|n|p|u p|u]; cbn [step_rbac];
    try apply step_add_auto; try apply step_add_many_auto; try apply step_remove_auto;
    try apply step_remove_filtered_auto.
  - rewrite seq_or_fst. destruct (snd (step_remove_filtered s s_g s_g 0 [n]));
      rewrite ?step_remove_filtered_auto; reflexivity.
  - rewrite seq_or_fst. destruct (snd (step_remove_filtered s s_g s_g 1 [n]));
      rewrite ?step_remove_filtered_auto; reflexivity.
Qed.
