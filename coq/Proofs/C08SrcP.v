(* C08 at the level of the TRANSLATED SOURCE: the headline theorems of Properties/C08.v restated about `src_step` /
   `src_run_ops` / `src_enforce` / `src_new_enforcer` (Proofs/SrcStepP.v, Proofs/SrcQueryP.v: the Gallina generated
   each run from src/internal_api.rs, src/rbac_api.rs, src/management_api.rs, src/enforcer.rs).
   Proofs: the C08 theorems (Proofs/C08P.v) composed with src_step_eq & co. *)
From CV Require Import Model.Base Model.Effector Model.RoleGraph Model.PathMatch Model.Expr
     Model.Enforce Model.Engine Model.SpecC08.
From CV Require Import Proofs.BaseP Proofs.RoleGraphP Proofs.ExprP Proofs.C08P.
From CV Require Import Proofs.SrcStepP Proofs.SrcQueryP.

Lemma src_enforce_map_eq : forall ptab s rvs, map (src_enforce ptab s) rvs = map (enforce ptab s) rvs.
Proof. intros ptab s rvs. apply map_ext. intros rv. apply src_enforce_eq. Qed.

(* ---- allow-override: permission rules ---- *)
(* add_policy of a p rule that took effect: every granted request stays granted *)
Lemma src_c08_add_rule_keeps_grants : forall ptab s r s' rv,
  src_step s (OAdd s_p s_p r) = (s', Ok true) ->
  is_allow_override s = true ->
  m_get_policy (e_model s) s_p s_p <> [] ->
  src_enforce ptab s rv = Ok true -> src_enforce ptab s' rv = Ok true.
Proof.
  intros ptab s r s' rv Hst. rewrite src_step_eq in Hst. rewrite !src_enforce_eq.
  exact (add_rule_keeps_grants ptab s r s' rv Hst).
Qed.

(* remove_policy of a p rule that took effect: every denied request stays denied, provided a rule is left *)
Lemma src_c08_remove_rule_keeps_denials : forall ptab s r s' rv,
  src_step s (ORemove s_p s_p r) = (s', Ok true) ->
  is_allow_override s = true ->
  m_get_policy (e_model s') s_p s_p <> [] ->
  src_enforce ptab s rv = Ok false -> src_enforce ptab s' rv = Ok false.
Proof.
  intros ptab s r s' rv Hst. rewrite src_step_eq in Hst. rewrite !src_enforce_eq.
  exact (remove_rule_keeps_denials ptab s r s' rv Hst).
Qed.

(* ---- allow-override: role links (any role definition pt) ---- *)
(* a grouping rule added with auto-build on, hierarchy shallow afterwards, role calls positive in the matcher: a
   granted request is not denied afterwards *)
Lemma src_c08_add_link_keeps_grants : forall ptab s pt r s' rv,
  src_step s (OAdd s_g pt r) = (s', Ok true) ->
  e_auto_build s = true -> wf (f_rm (e_fs s)) -> shallow_state s' = true ->
  is_allow_override s = true -> matcher_negfree s = true ->
  src_enforce ptab s rv = Ok true -> src_enforce ptab s' rv <> Ok false.
Proof.
  intros ptab s pt r s' rv Hst. rewrite src_step_eq in Hst. rewrite !src_enforce_eq.
  exact (add_link_keeps_grants ptab s pt r s' rv Hst).
Qed.

Lemma src_c08_add_link_keeps_grants_strict : forall ptab s pt r s' rv,
  src_step s (OAdd s_g pt r) = (s', Ok true) ->
  e_auto_build s = true -> wf (f_rm (e_fs s)) -> shallow_state s' = true ->
  is_allow_override s = true -> matcher_negfree s = true ->
  (exists b, src_enforce ptab s' rv = Ok b) ->
  src_enforce ptab s rv = Ok true -> src_enforce ptab s' rv = Ok true.
Proof.
  intros ptab s pt r s' rv Hst. rewrite src_step_eq in Hst. rewrite !src_enforce_eq.
  exact (add_link_keeps_grants_strict ptab s pt r s' rv Hst).
Qed.

(* a grouping rule removed, hierarchy shallow before: a denied request is not granted afterwards *)
Lemma src_c08_remove_link_keeps_denials : forall ptab s pt r s' rv,
  src_step s (ORemove s_g pt r) = (s', Ok true) ->
  e_auto_build s = true -> wf (f_rm (e_fs s)) -> shallow_state s = true ->
  is_allow_override s = true -> matcher_negfree s = true ->
  src_enforce ptab s rv = Ok false -> src_enforce ptab s' rv <> Ok true.
Proof.
  intros ptab s pt r s' rv Hst. rewrite src_step_eq in Hst. rewrite !src_enforce_eq.
  exact (remove_link_keeps_denials ptab s pt r s' rv Hst).
Qed.

Lemma src_c08_remove_link_keeps_denials_strict : forall ptab s pt r s' rv,
  src_step s (ORemove s_g pt r) = (s', Ok true) ->
  e_auto_build s = true -> wf (f_rm (e_fs s)) -> shallow_state s = true ->
  is_allow_override s = true -> matcher_negfree s = true ->
  (exists b, src_enforce ptab s' rv = Ok b) ->
  src_enforce ptab s rv = Ok false -> src_enforce ptab s' rv = Ok false.
Proof.
  intros ptab s pt r s' rv Hst. rewrite src_step_eq in Hst. rewrite !src_enforce_eq.
  exact (remove_link_keeps_denials_strict ptab s pt r s' rv Hst).
Qed.

(* ---- rules with a deny effect, under EVERY effect rule ---- *)
(* adding a rule whose eft field is "deny" never grants anything; removing one never revokes a grant *)
Lemma src_c08_add_deny_never_grants : forall ptab s r s' rv,
  src_step s (OAdd s_p s_p r) = (s', Ok true) ->
  deny_rule s r = true ->
  m_get_policy (e_model s) s_p s_p <> [] ->
  src_enforce ptab s' rv = Ok true -> src_enforce ptab s rv = Ok true.
Proof.
  intros ptab s r s' rv Hst. rewrite src_step_eq in Hst. rewrite !src_enforce_eq.
  exact (add_deny_never_grants ptab s r s' rv Hst).
Qed.

Lemma src_c08_remove_deny_never_denies : forall ptab s r s' rv,
  src_step s (ORemove s_p s_p r) = (s', Ok true) ->
  deny_rule s r = true ->
  m_get_policy (e_model s') s_p s_p <> [] ->
  src_enforce ptab s rv = Ok true -> src_enforce ptab s' rv = Ok true.
Proof.
  intros ptab s r s' rv Hst. rewrite src_step_eq in Hst. rewrite !src_enforce_eq.
  exact (remove_deny_never_denies ptab s r s' rv Hst).
Qed.

(* ---- reachable states: no well-formedness hypothesis on the role manager ---- *)
Lemma src_c08_add_link_keeps_grants_reachable : forall ptab d ad w ops pt r s' rv,
  let s := src_run_ops (fst (src_new_enforcer d ad w)) ops in
  src_step s (OAdd s_g pt r) = (s', Ok true) ->
  e_auto_build s = true -> shallow_state s' = true ->
  is_allow_override s = true -> matcher_negfree s = true ->
  src_enforce ptab s rv = Ok true -> src_enforce ptab s' rv <> Ok false.
Proof.
  intros ptab d ad w ops pt r s' rv. cbv zeta. rewrite src_new_enforcer_eq, src_run_ops_eq, src_step_eq, !src_enforce_eq.
  exact (add_link_keeps_grants_reachable ptab d ad w ops pt r s' rv).
Qed.

Lemma src_c08_remove_link_keeps_denials_reachable : forall ptab d ad w ops pt r s' rv,
  let s := src_run_ops (fst (src_new_enforcer d ad w)) ops in
  src_step s (ORemove s_g pt r) = (s', Ok true) ->
  e_auto_build s = true -> shallow_state s = true ->
  is_allow_override s = true -> matcher_negfree s = true ->
  src_enforce ptab s rv = Ok false -> src_enforce ptab s' rv <> Ok true.
Proof.
  intros ptab d ad w ops pt r s' rv. cbv zeta. rewrite src_new_enforcer_eq, src_run_ops_eq, src_step_eq, !src_enforce_eq.
  exact (remove_link_keeps_denials_reachable ptab d ad w ops pt r s' rv).
Qed.

(* ---- the executable predicate holds of the translated source's own decisions ---- *)
Lemma src_c08_pred_add_link_holds : forall ptab s pt r s' rvs,
  src_step s (OAdd s_g pt r) = (s', Ok true) ->
  e_auto_build s = true -> wf (f_rm (e_fs s)) -> shallow_state s' = true ->
  is_allow_override s = true -> matcher_negfree s = true ->
  c08_pred KGrow (map (src_enforce ptab s) rvs) (map (src_enforce ptab s') rvs) = true.
Proof.
  intros ptab s pt r s' rvs Hst. rewrite src_step_eq in Hst. rewrite !src_enforce_map_eq.
  exact (c08_pred_add_link ptab s pt r s' rvs Hst).
Qed.

Lemma src_c08_pred_remove_link_holds : forall ptab s pt r s' rvs,
  src_step s (ORemove s_g pt r) = (s', Ok true) ->
  e_auto_build s = true -> wf (f_rm (e_fs s)) -> shallow_state s = true ->
  is_allow_override s = true -> matcher_negfree s = true ->
  c08_pred KShrink (map (src_enforce ptab s) rvs) (map (src_enforce ptab s') rvs) = true.
Proof.
  intros ptab s pt r s' rvs Hst. rewrite src_step_eq in Hst. rewrite !src_enforce_map_eq.
  exact (c08_pred_remove_link ptab s pt r s' rvs Hst).
Qed.

Lemma src_c08_pred_add_rule_holds : forall ptab s r s' rvs,
  src_step s (OAdd s_p s_p r) = (s', Ok true) ->
  is_allow_override s = true -> m_get_policy (e_model s) s_p s_p <> [] ->
  c08_pred KGrowStrict (map (src_enforce ptab s) rvs) (map (src_enforce ptab s') rvs) = true.
Proof.
  intros ptab s r s' rvs Hst. rewrite src_step_eq in Hst. rewrite !src_enforce_map_eq.
  exact (c08_pred_add_rule ptab s r s' rvs Hst).
Qed.

Lemma src_c08_pred_remove_rule_holds : forall ptab s r s' rvs,
  src_step s (ORemove s_p s_p r) = (s', Ok true) ->
  is_allow_override s = true -> m_get_policy (e_model s') s_p s_p <> [] ->
  c08_pred KShrinkStrict (map (src_enforce ptab s) rvs) (map (src_enforce ptab s') rvs) = true.
Proof.
  intros ptab s r s' rvs Hst. rewrite src_step_eq in Hst. rewrite !src_enforce_map_eq.
  exact (c08_pred_remove_rule ptab s r s' rvs Hst).
Qed.

Lemma src_c08_pred_add_deny_holds : forall ptab s r s' rvs,
  src_step s (OAdd s_p s_p r) = (s', Ok true) -> deny_rule s r = true ->
  c08_pred KShrink (map (src_enforce ptab s) rvs) (map (src_enforce ptab s') rvs) = true.
Proof.
  intros ptab s r s' rvs Hst. rewrite src_step_eq in Hst. rewrite !src_enforce_map_eq.
  exact (c08_pred_add_deny ptab s r s' rvs Hst).
Qed.

Lemma src_c08_pred_remove_deny_holds : forall ptab s r s' rvs,
  src_step s (ORemove s_p s_p r) = (s', Ok true) -> deny_rule s r = true ->
  c08_pred KGrow (map (src_enforce ptab s) rvs) (map (src_enforce ptab s') rvs) = true.
Proof.
  intros ptab s r s' rvs Hst. rewrite src_step_eq in Hst. rewrite !src_enforce_map_eq.
  exact (c08_pred_remove_deny ptab s r s' rvs Hst).
Qed.
